package main

import (
	"strconv"
	"fmt"
	"math"
	"os"
	"path/filepath"
	"sort"
	"strings"
	"sync"

	"github.com/diiyw/nodis/patch"
)

// change feed (C20): `watch` attaches a key watcher to the current instance and collects what it is
// handed; `feed` prints and forgets the collected records in a canonical form; `replicate <id>`
// sends them, in the order they arrived, through the wire encoding (Encode / DecodeOp) to another
// instance and applies them there.

type feedBuf struct {
	mu  sync.Mutex
	ops []patch.Op
	bad map[int]bool // positions of records that did not survive Encode / DecodeOp
}

func hexs(ss []string) []string {
	out := make([]string, len(ss))
	for i, s := range ss {
		out[i] = toHex([]byte(s))
	}
	return out
}

func hexbs(bs [][]byte) []string {
	out := make([]string, len(bs))
	for i, b := range bs {
		out[i] = toHex(b)
	}
	return out
}

func fbits(f float64) string { return fmt.Sprint(math.Float64bits(f)) }

// renderOp mirrors the model's FeedOp: type number, key, the fields the emitter sets
func renderOp(op patch.Op) string {
	var args []string
	switch d := op.Data.(type) {
	case *patch.OpClear, *patch.OpDel, *patch.OpPersist:
	case *patch.OpExpire:
		args = []string{fmt.Sprint(d.Expiration)}
	case *patch.OpExpireAt:
		args = []string{fmt.Sprint(d.Expiration)}
	case *patch.OpRename:
		args = []string{toHex([]byte(d.DstKey))}
	case *patch.OpRenameNX:
		args = []string{toHex([]byte(d.DstKey))}
	case *patch.OpSet:
		args = []string{toHex(d.Value), fmt.Sprint(d.KeepTTL), fmt.Sprint(d.Expiration)}
	case *patch.OpLPush:
		args = hexbs(d.Values)
	case *patch.OpRPush:
		args = hexbs(d.Values)
	case *patch.OpLPop:
		args = []string{fmt.Sprint(d.Count)}
	case *patch.OpRPop:
		args = []string{fmt.Sprint(d.Count)}
	case *patch.OpLInsert:
		args = []string{toHex(d.Pivot), toHex(d.Value), fmt.Sprint(d.Before)}
	case *patch.OpLPushX:
		args = []string{toHex(d.Value)}
	case *patch.OpRPushX:
		args = []string{toHex(d.Value)}
	case *patch.OpLRem:
		args = []string{toHex(d.Value), fmt.Sprint(d.Count)}
	case *patch.OpLSet:
		args = []string{fmt.Sprint(d.Index), toHex(d.Value)}
	case *patch.OpLTrim:
		args = []string{fmt.Sprint(d.Start), fmt.Sprint(d.Stop)}
	case *patch.OpLPopRPush:
		args = []string{toHex([]byte(d.DstKey))}
	case *patch.OpRPopLPush:
		args = []string{toHex([]byte(d.DstKey))}
	case *patch.OpHSet:
		args = []string{toHex([]byte(d.Field)), toHex(d.Value)}
	case *patch.OpHDel:
		args = hexs(d.Fields)
	case *patch.OpHIncrBy:
		args = []string{toHex([]byte(d.Field)), fmt.Sprint(d.IncrInt)}
	case *patch.OpHIncrByFloat:
		args = []string{toHex([]byte(d.Field)), fbits(d.IncrFloat)}
	case *patch.OpSAdd:
		args = hexs(d.Members)
	case *patch.OpSRem:
		args = hexs(d.Members)
	case *patch.OpZAdd:
		args = []string{toHex([]byte(d.Member)), fbits(d.Score)}
	case *patch.OpZIncrBy:
		args = []string{toHex([]byte(d.Member)), fbits(d.Score)}
	case *patch.OpZRem:
		args = hexs(d.Members)
	case *patch.OpZRemRangeByRank:
		args = []string{fmt.Sprint(d.Start), fmt.Sprint(d.Stop)}
	case *patch.OpZRemRangeByScore:
		args = []string{fbits(d.Min), fbits(d.Max), fmt.Sprint(d.Mode)}
	case *patch.OpZUnionStore:
		args = zstoreArgs(d.Aggregate, d.Keys, d.Weights)
	case *patch.OpZInterStore:
		args = zstoreArgs(d.Aggregate, d.Keys, d.Weights)
	default:
		args = []string{"?"}
	}
	return fmt.Sprintf("%d:%s:%s", op.Type, toHex([]byte(op.Data.GetKey())), strings.Join(args, ","))
}

func (st *state) feedOp(toks []string) string {
	in := st.cur()
	switch toks[0] {
	case "watch":
		patterns := []string{"*"}
		if len(toks) > 1 {
			patterns = nil
			for _, a := range mustArgs(toks[1:]) {
				patterns = append(patterns, string(a))
			}
		}
		if in.feed == nil {
			in.feed = &feedBuf{}
		}
		fb := in.feed
		in.n.WatchKey(patterns, func(op patch.Op) {
			// like Broadcast, the watcher puts the record on the wire at once (the fields of a
			// record may share memory with the store and change under later commands)
			dec, err := patch.DecodeOp(op.Encode())
			fb.mu.Lock()
			if err != nil {
				if fb.bad == nil {
					fb.bad = map[int]bool{}
				}
				fb.bad[len(fb.ops)] = true
				dec = op
			}
			fb.ops = append(fb.ops, dec)
			fb.mu.Unlock()
		})
		return "ok"
	case "watchx": // one more watcher (of everything); it only counts what it gets
		id := in.n.WatchKey([]string{"*"}, func(op patch.Op) {})
		in.extra = append(in.extra, id)
		return "ok"
	case "unwatchx": // unwatchx <k>: remove the k-th additional watcher (1-based); removing it again is harmless
		k, _ := strconv.Atoi(toks[1])
		if k >= 1 && k <= len(in.extra) {
			in.n.UnWatchKey(in.extra[k-1])
		}
		return "ok"
	case "watchp": // a second watcher with its own patterns (C20: a watcher only receives records for keys matching its patterns)
		in.feedP = &feedBuf{}
		in.patterns = nil
		for _, a := range mustArgs(toks[1:]) {
			in.patterns = append(in.patterns, string(a))
		}
		fb := in.feedP
		in.n.WatchKey(in.patterns, func(op patch.Op) {
			fb.mu.Lock()
			fb.ops = append(fb.ops, op)
			fb.mu.Unlock()
		})
		return "ok"
	case "feedp": // what the pattern watcher got must be exactly the matching records of the `*` watcher, in order
		if in.feed == nil || in.feedP == nil {
			return "bad-op"
		}
		in.feed.mu.Lock()
		all := in.feed.ops
		in.feed.ops, in.feed.bad = nil, nil
		in.feed.mu.Unlock()
		in.feedP.mu.Lock()
		got := in.feedP.ops
		in.feedP.ops = nil
		in.feedP.mu.Unlock()
		var want []string
		for _, op := range all {
			for _, pat := range in.patterns {
				if ok, _ := filepath.Match(pat, op.Data.GetKey()); ok {
					want = append(want, renderOp(op))
					break
				}
			}
		}
		gotR := make([]string, len(got))
		for i, op := range got {
			gotR[i] = renderOp(op)
		}
		verdict := "ok"
		if strings.Join(want, " ") != strings.Join(gotR, " ") {
			verdict = "MISMATCH want=[" + strings.Join(want, " ") + "] got=[" + strings.Join(gotR, " ") + "]"
		}
		return fmt.Sprintf("feedp all=%d matched=%d %s", len(all), len(gotR), verdict)
	case "feedw": // like feed, and every record with the digest of its Op.Encode() bytes (the model: ProtoWire.encodeOp)
		if in.feed == nil {
			return "feedw"
		}
		in.feed.mu.Lock()
		wops := in.feed.ops
		in.feed.ops = nil
		in.feed.bad = nil
		in.feed.mu.Unlock()
		wparts := make([]string, len(wops))
		for i, op := range wops {
			wparts[i] = renderOp(op) + "@" + fmt.Sprintf("%016x", fnv64(op.Encode()))
		}
		wallHSet := len(wops) > 1
		for _, op := range wops {
			wallHSet = wallHSet && op.Type == patch.OpTypeHSet && op.Data.GetKey() == wops[0].Data.GetKey()
		}
		if wallHSet {
			sort.Strings(wparts)
		}
		return compact("feedw " + strings.Join(wparts, " "))
	case "feed":
		if in.feed == nil {
			return "feed"
		}
		in.feed.mu.Lock()
		ops := in.feed.ops
		in.feed.ops = nil
		in.feed.bad = nil
		in.feed.mu.Unlock()
		parts := make([]string, len(ops))
		for i, op := range ops {
			parts[i] = renderOp(op)
		}
		// HMSET hands its fields over in the order of a Go map: records that set different
		// fields of one hash commute, so a drain made of such records only is sorted
		allHSet := len(ops) > 1
		for _, op := range ops {
			allHSet = allHSet && op.Type == patch.OpTypeHSet && op.Data.GetKey() == ops[0].Data.GetKey()
		}
		if allHSet {
			sort.Strings(parts)
		}
		return compact("feed " + strings.Join(parts, " "))
	case "replicate": // replicate <replica id>: drain the current instance's feed into the replica
		dst := st.inst[toks[1]]
		if in.feed == nil || dst == nil {
			return "bad-op"
		}
		in.feed.mu.Lock()
		ops := in.feed.ops
		bad := in.feed.bad
		in.feed.ops = nil
		in.feed.bad = nil
		in.feed.mu.Unlock()
		for i, op := range ops {
			if bad[i] {
				fmt.Fprintf(os.Stderr, "DECODE-ERROR at record %d (%s)\n", i, renderOp(op))
				return "DECODE-ERROR"
			}
			res := func() (res string) {
				defer func() {
					if r := recover(); r != nil {
						res = fmt.Sprintf("PANIC at record %d (%s): %v", i, renderOp(op), r)
					}
				}()
				dec, err := patch.DecodeOp(op.Encode())
				if err != nil {
					return fmt.Sprintf("DECODE-ERROR at record %d (%s): %v", i, renderOp(op), err)
				}
				if err := dst.n.ApplyPatch(dec); err != nil {
					return fmt.Sprintf("APPLY-ERROR at record %d (%s): %v", i, renderOp(op), err)
				}
				return ""
			}()
			if res != "" {
				fmt.Fprintln(os.Stderr, res)
				return strings.Fields(res)[0]
			}
		}
		return fmt.Sprintf("ok n=%d", len(ops))
	}
	return "bad-op"
}

func zstoreArgs(aggregate string, keys []string, weights []float64) []string {
	args := append([]string{toHex([]byte(aggregate))}, hexs(keys)...)
	args = append(args, "|")
	for _, w := range weights {
		args = append(args, fbits(w))
	}
	return args
}
