package main

// Linearizability of recorded histories (C05): several workers issue single-key commands on a string
// key, a list key and a set key - creating, emptying and deleting them on the way - while eviction
// passes run; every call is recorded with its invocation and response instants; the history of each key
// is then checked against the sequential semantics with porcupine (a history is linearizable iff the
// history of every key is). This is the search for a failing execution; the theorem is Props/C05.lean.

import (
	"fmt"
	"math/rand"
	"os"
	"sort"
	"strconv"
	"strings"
	"sync"
	"sync/atomic"
	"time"

	"github.com/anishathalye/porcupine"
	"github.com/diiyw/nodis"
)

type linIn struct {
	op  string
	arg string
	api bool // through the embedded API (ZScore cannot tell a missing key from score 0 there)
}

// sequential semantics of one key; the state is a string: "" absent, "s:"+value, "l:"+elements, "t:"+members
func linStep(state, input, output interface{}) (bool, interface{}) {
	st := state.(string)
	in := input.(linIn)
	out := output.(string)
	isStr := strings.HasPrefix(st, "s:")
	var elems []string
	if len(st) > 2 && (st[0] == 'l' || st[0] == 't') {
		elems = strings.Split(st[2:], "\x00")
	}
	join := func(kind string, xs []string) string {
		if len(xs) == 0 {
			return ""
		}
		return kind + ":" + strings.Join(xs, "\x00")
	}
	num := func(n int) string { return "i:" + strconv.Itoa(n) }
	switch in.op {
	case "SET":
		return out == "OK", "s:" + in.arg
	case "GET":
		if !isStr {
			return out == "(nil)", st
		}
		return out == "v:"+st[2:], st
	case "GETSET":
		if !isStr {
			return out == "(nil)", "s:" + in.arg
		}
		return out == "v:"+st[2:], "s:" + in.arg
	case "SETNX":
		if st == "" {
			return out == "i:1", "s:" + in.arg
		}
		return out == "i:0", st
	case "INCR":
		cur := "0"
		if isStr {
			cur = st[2:]
		}
		if cur == "" {
			cur = "0"
		}
		v, err := strconv.ParseInt(cur, 10, 64)
		if err != nil {
			return out == "ERR", st
		}
		return out == "i:"+strconv.FormatInt(v+1, 10), "s:" + strconv.FormatInt(v+1, 10)
	case "APPEND":
		cur := ""
		if isStr {
			cur = st[2:]
		}
		return out == num(len(cur)+len(in.arg)), "s:" + cur + in.arg
	case "STRLEN":
		if !isStr {
			return out == "i:0", st
		}
		return out == num(len(st)-2), st
	case "DEL":
		if st == "" {
			return out == "i:0", ""
		}
		return out == "i:1", ""
	case "RPUSH":
		elems = append(append([]string{}, elems...), in.arg)
		return out == num(len(elems)), join("l", elems)
	case "LPUSH":
		elems = append([]string{in.arg}, elems...)
		return out == num(len(elems)), join("l", elems)
	case "LPOP":
		if len(elems) == 0 {
			return out == "(nil)", st
		}
		return out == "v:"+elems[0], join("l", elems[1:])
	case "RPOP":
		if len(elems) == 0 {
			return out == "(nil)", st
		}
		return out == "v:"+elems[len(elems)-1], join("l", elems[:len(elems)-1])
	case "LLEN", "SCARD":
		return out == num(len(elems)), st
	case "LRANGE", "SMEMBERS":
		return out == "a:"+strings.Join(elems, ","), st
	case "SADD":
		for _, e := range elems {
			if e == in.arg {
				return out == "i:0", st
			}
		}
		elems = append(append([]string{}, elems...), in.arg)
		sort.Strings(elems)
		return out == "i:1", join("t", elems)
	case "SREM":
		for i, e := range elems {
			if e == in.arg {
				rest := append(append([]string{}, elems[:i]...), elems[i+1:]...)
				return out == "i:1", join("t", rest)
			}
		}
		return out == "i:0", st
	case "SISMEMBER":
		for _, e := range elems {
			if e == in.arg {
				return out == "i:1", st
			}
		}
		return out == "i:0", st
	}
	// hash ("h:") and sorted-set ("z:") keys: name=value pairs in name order; in.arg is "name" or "name=value"
	if strings.HasPrefix(in.op, "H") || strings.HasPrefix(in.op, "Z") {
		kind := "h"
		if in.op[0] == 'Z' {
			kind = "z"
		}
		var names, vals []string
		if len(st) > 2 && st[0] == kind[0] {
			for _, p := range strings.Split(st[2:], "\x00") {
				i := strings.IndexByte(p, '=')
				names, vals = append(names, p[:i]), append(vals, p[i+1:])
			}
		}
		name, val := in.arg, ""
		if i := strings.IndexByte(in.arg, '='); i >= 0 {
			name, val = in.arg[:i], in.arg[i+1:]
		}
		at := -1
		for i, x := range names {
			if x == name {
				at = i
			}
		}
		put := func(v string) string { // state with name := v
			ns, vs := append([]string{}, names...), append([]string{}, vals...)
			if at >= 0 {
				vs[at] = v
			} else {
				ns, vs = append(ns, name), append(vs, v)
			}
			idx := make([]int, len(ns))
			for i := range idx {
				idx[i] = i
			}
			sort.Slice(idx, func(a, b int) bool { return ns[idx[a]] < ns[idx[b]] })
			var ps []string
			for _, i := range idx {
				ps = append(ps, ns[i]+"="+vs[i])
			}
			return kind + ":" + strings.Join(ps, "\x00")
		}
		del := func() string {
			var ps []string
			for i := range names {
				if i != at {
					ps = append(ps, names[i]+"="+vals[i])
				}
			}
			return join(kind, ps)
		}
		ival := func(x string) (int64, bool) { v, err := strconv.ParseInt(x, 10, 64); return v, err == nil }
		switch in.op {
		case "HSET":
			if at >= 0 {
				return out == "i:0", put(val)
			}
			return out == "i:1", put(val)
		case "HSETNX":
			if at >= 0 {
				return out == "i:0", st
			}
			return out == "i:1", put(val)
		case "HSET2", "ZADD2":
			// one command, two fields / members (name and name+"2") with the same value: both or neither are visible
			n := 0
			if at < 0 {
				n++
			}
			st1 := put(val)
			second := linIn{op: map[string]string{"HSET2": "HSET", "ZADD2": "ZADD"}[in.op], arg: name + "2=" + val, api: in.api}
			_, st2 := linStep(st1, second, "")
			has2 := false
			for _, x := range names {
				if x == name+"2" {
					has2 = true
				}
			}
			if !has2 {
				n++
			}
			return out == num(n), st2
		case "HGET":
			if at < 0 {
				return out == "(nil)", st
			}
			return out == "v:"+vals[at], st
		case "HDEL", "ZREM":
			if at < 0 {
				return out == "i:0", st
			}
			return out == "i:1", del()
		case "HLEN", "ZCARD":
			return out == num(len(names)), st
		case "HINCRBY":
			cur := int64(0)
			if at >= 0 {
				v, ok := ival(vals[at])
				if !ok {
					return out == "ERR", st
				}
				cur = v
			}
			d, _ := ival(val)
			return out == "i:"+strconv.FormatInt(cur+d, 10), put(strconv.FormatInt(cur+d, 10))
		case "ZADD":
			if at >= 0 {
				return out == "i:0", put(val)
			}
			return out == "i:1", put(val)
		case "ZADDNX":
			if at >= 0 {
				return out == "i:0", st
			}
			return out == "i:1", put(val)
		case "ZADDXX":
			if at < 0 {
				return out == "i:0", st
			}
			return out == "i:0", put(val)
		case "ZADDGT", "ZADDLT":
			// the embedded ZAddGT / ZAddLT only update (reply: 1 when updated); the command follows Redis since the repair
			// of A-48: GT / LT do not prevent adding, and the reply counts added members only
			if at < 0 {
				if in.api {
					return out == "i:0", st
				}
				return out == "i:1", put(val)
			}
			o, _ := ival(vals[at])
			v, _ := ival(val)
			if (in.op == "ZADDGT" && v > o) || (in.op == "ZADDLT" && v < o) {
				if in.api {
					return out == "i:1", put(val)
				}
				return out == "i:0", put(val)
			}
			return out == "i:0", st
		case "ZINCRBY":
			cur := int64(0)
			if at >= 0 {
				cur, _ = ival(vals[at])
			}
			d, _ := ival(val)
			return out == "v:"+strconv.FormatInt(cur+d, 10), put(strconv.FormatInt(cur+d, 10))
		case "ZSCORE":
			if at < 0 {
				return out == "(nil)" || (in.api && len(names) == 0 && out == "v:0"), st
			}
			return out == "v:"+vals[at], st
		}
	}
	return false, st
}

var linModel = porcupine.Model{
	Init: func() interface{} { return "" },
	Step: linStep,
	DescribeOperation: func(in, out interface{}) string {
		return fmt.Sprintf("%s %s -> %s", in.(linIn).op, in.(linIn).arg, out.(string))
	},
}

func bulk(b []byte) string {
	if b == nil {
		return "(nil)"
	}
	return "v:" + string(b)
}

func first(bs [][]byte) string {
	if len(bs) == 0 {
		return "(nil)"
	}
	return "v:" + string(bs[0])
}

func b2i(b bool) string {
	if b {
		return "i:1"
	}
	return "i:0"
}

// one call through the embedded API
func linCallAPI(n *nodis.Nodis, key string, in linIn) string {
	i := func(v int64) string { return "i:" + strconv.FormatInt(v, 10) }
	switch in.op {
	case "SET":
		n.Set(key, []byte(in.arg), false)
		return "OK"
	case "GET":
		return bulk(n.Get(key))
	case "GETSET":
		return bulk(n.GetSet(key, []byte(in.arg)))
	case "SETNX":
		return b2i(n.SetNX(key, []byte(in.arg), false))
	case "INCR":
		v, err := n.Incr(key)
		if err != nil {
			return "ERR"
		}
		return i(v)
	case "APPEND":
		return i(n.Append(key, []byte(in.arg)))
	case "STRLEN":
		return i(n.StrLen(key))
	case "DEL":
		return i(n.Del(key))
	case "RPUSH":
		return i(n.RPush(key, []byte(in.arg)))
	case "LPUSH":
		return i(n.LPush(key, []byte(in.arg)))
	case "LPOP":
		return first(n.LPop(key, 1))
	case "RPOP":
		return first(n.RPop(key, 1))
	case "LLEN":
		return i(n.LLen(key))
	case "LRANGE":
		var xs []string
		for _, b := range n.LRange(key, 0, -1) {
			xs = append(xs, string(b))
		}
		return "a:" + strings.Join(xs, ",")
	case "SADD":
		return i(n.SAdd(key, in.arg))
	case "SREM":
		return i(n.SRem(key, in.arg))
	case "SISMEMBER":
		return b2i(n.SIsMember(key, in.arg))
	case "SCARD":
		return i(n.SCard(key))
	case "SMEMBERS":
		xs := n.SMembers(key)
		sort.Strings(xs)
		return "a:" + strings.Join(xs, ",")
	}
	name, val := in.arg, ""
	if k := strings.IndexByte(in.arg, '='); k >= 0 {
		name, val = in.arg[:k], in.arg[k+1:]
	}
	f, _ := strconv.ParseFloat(val, 64)
	fl := func(v float64) string { return "v:" + strconv.FormatFloat(v, 'f', -1, 64) }
	switch in.op {
	case "HSET2":
		return i(n.HMSet(key, map[string][]byte{name: []byte(val), name + "2": []byte(val)}))
	case "HSET":
		return i(n.HSet(key, name, []byte(val)))
	case "HSETNX":
		return i(n.HSetNX(key, name, []byte(val)))
	case "HGET":
		return bulk(n.HGet(key, name))
	case "HDEL":
		return i(n.HDel(key, name))
	case "HLEN":
		return i(n.HLen(key))
	case "HINCRBY":
		d, _ := strconv.ParseInt(val, 10, 64)
		v, err := n.HIncrBy(key, name, d)
		if err != nil {
			return "ERR"
		}
		return i(v)
	case "ZADD":
		return i(n.ZAdd(key, name, f))
	case "ZADDNX":
		return i(n.ZAddNX(key, name, f))
	case "ZADDXX":
		return i(n.ZAddXX(key, name, f))
	case "ZADDGT":
		return i(n.ZAddGT(key, name, f))
	case "ZADDLT":
		return i(n.ZAddLT(key, name, f))
	case "ZINCRBY":
		return fl(n.ZIncrBy(key, name, f))
	case "ZSCORE":
		v, err := n.ZScore(key, name)
		if err != nil {
			return "(nil)"
		}
		return fl(v)
	case "ZREM":
		return i(n.ZRem(key, name))
	case "ZCARD":
		return i(n.ZCard(key))
	}
	return "?"
}

// one call over a connection
func linCallTCP(c *tconn, key string, in linIn) string {
	args := []string{in.op, key}
	name, val := in.arg, ""
	if k := strings.IndexByte(in.arg, '='); k >= 0 {
		name, val = in.arg[:k], in.arg[k+1:]
	}
	switch in.op {
	case "HSET", "HSETNX", "HINCRBY":
		args = append(args, name, val)
	case "HSET2":
		args = []string{"HSET", key, name, val, name + "2", val}
	case "ZADD2":
		args = []string{"ZADD", key, val, name, val, name + "2"}
	case "HGET", "HDEL", "ZSCORE", "ZREM":
		args = append(args, name)
	case "HLEN", "ZCARD":
	case "ZADD":
		args = append(args, val, name)
	case "ZADDNX", "ZADDXX", "ZADDGT", "ZADDLT":
		args = []string{"ZADD", key, in.op[4:], val, name}
	case "ZINCRBY":
		args = append(args, val, name)
	case "LRANGE":
		args = append(args, "0", "-1")
	case "GET", "INCR", "STRLEN", "DEL", "LPOP", "RPOP", "LLEN", "SCARD", "SMEMBERS":
	default:
		args = append(args, in.arg)
	}
	toks, err := c.do(args...)
	if err != nil || len(toks) == 0 {
		return "NOREPLY"
	}
	t := toks[0]
	switch t.kind {
	case '+':
		return "OK"
	case '-':
		return "ERR"
	case ':':
		return "i:" + strconv.FormatInt(t.n, 10)
	case '$':
		return "v:" + t.text
	case 'N', 'n':
		return "(nil)"
	case '*':
		var xs []string
		for _, e := range toks[1:] {
			xs = append(xs, e.text)
		}
		if in.op == "SMEMBERS" {
			sort.Strings(xs)
		}
		return "a:" + strings.Join(xs, ",")
	}
	return "?"
}

var linOps = map[string][]string{
	"s": {"SET", "GET", "GET", "INCR", "INCR", "APPEND", "STRLEN", "DEL", "SETNX", "GETSET"},
	"l": {"RPUSH", "RPUSH", "LPUSH", "LPOP", "LPOP", "RPOP", "LLEN", "LRANGE", "DEL"},
	"t": {"SADD", "SADD", "SREM", "SREM", "SISMEMBER", "SCARD", "SMEMBERS", "DEL"},
	// conditional updates (NX / XX / GT / LT), read-modify-write and deletion by emptying on hashes and sorted sets
	"h": {"HSET", "HSETNX", "HSETNX", "HGET", "HGET", "HDEL", "HLEN", "HINCRBY", "HINCRBY", "DEL"},
	"z": {"ZADD", "ZADDNX", "ZADDXX", "ZADDGT", "ZADDGT", "ZADDLT", "ZADDLT", "ZINCRBY", "ZSCORE", "ZSCORE", "ZREM", "ZCARD", "DEL"},
}

func linHistory(n *nodis.Nodis, r *rand.Rand, rounds int, addr string) string {
	workers, each := 6, 60
	if v, err := strconv.Atoi(os.Getenv("VERIF_LIN_WORKERS")); err == nil && v > 0 {
		workers = v // 1: a sequential run (debugging the oracle itself)
	}
	t0 := time.Now()
	total := 0
	for round := 0; round < rounds; round++ {
		keys := map[string]string{"s": fmt.Sprintf("hs%d", round), "l": fmt.Sprintf("hl%d", round), "t": fmt.Sprintf("ht%d", round), "h": fmt.Sprintf("hh%d", round), "z": fmt.Sprintf("hz%d", round)}
		hist := map[string][]porcupine.Operation{}
		var mu sync.Mutex
		var stop int32
		var bg sync.WaitGroup
		bg.Add(1)
		go func() { // eviction passes while the commands run
			defer bg.Done()
			for atomic.LoadInt32(&stop) == 0 {
				n.VerifGC()
				time.Sleep(200 * time.Microsecond)
			}
		}()
		seeds := make([]int64, workers)
		for i := range seeds {
			seeds[i] = r.Int63()
		}
		var bad atomic.Value
		par(workers, func(w int) {
			rr := rand.New(rand.NewSource(seeds[w]))
			var c *tconn
			if addr != "" {
				var err error
				if c, err = dial(addr); err != nil {
					bad.Store("dial: " + err.Error())
					return
				}
				defer c.c.Close()
			}
			for j := 0; j < each; j++ {
				kind := []string{"s", "l", "t", "h", "z"}[rr.Intn(5)]
				pool := linOps[kind]
				if addr != "" {
					// over the network protocol one command can carry several fields / members: it is one write
					if kind == "h" {
						pool = append(append([]string{}, pool...), "HSET2", "HSET2", "HLEN")
					} else if kind == "z" {
						// (one transaction since the repair of A-52: handler zAdd -> zAddPairs)
						pool = append(append([]string{}, pool...), "ZADD2", "ZADD2", "ZCARD")
					}
				}
				op := pool[rr.Intn(len(pool))]
				in := linIn{op: op, api: addr == ""}
				switch op {
				case "SET", "SETNX", "GETSET":
					in.arg = []string{"5", "10", "ab", "", "41"}[rr.Intn(5)]
				case "APPEND":
					in.arg = []string{"1", "x", ""}[rr.Intn(3)]
				case "RPUSH", "LPUSH":
					in.arg = fmt.Sprintf("%d-%d", w, j) // unique: a lost or duplicated element shows
				case "SADD", "SREM", "SISMEMBER":
					in.arg = []string{"a", "b", "c"}[rr.Intn(3)]
				case "HGET", "HDEL", "ZSCORE", "ZREM":
					in.arg = []string{"f", "g"}[rr.Intn(2)]
				case "HSET", "HSETNX", "HSET2":
					in.arg = []string{"f", "g"}[rr.Intn(2)] + "=" + []string{"1", "7", "ab", ""}[rr.Intn(4)]
				case "HINCRBY":
					in.arg = []string{"f", "g"}[rr.Intn(2)] + "=" + []string{"1", "-2", "10"}[rr.Intn(3)]
				case "ZADD", "ZADDNX", "ZADDXX", "ZADDGT", "ZADDLT", "ZADD2":
					// distinct scores per call: a lost conditional update shows as a score no sequential order explains
					in.arg = []string{"f", "g"}[rr.Intn(2)] + "=" + strconv.Itoa(rr.Intn(40)-5+w*100)
				case "ZINCRBY":
					in.arg = []string{"f", "g"}[rr.Intn(2)] + "=" + []string{"1", "-3", "50"}[rr.Intn(3)]
				}
				call := time.Since(t0).Nanoseconds()
				var out string
				if c != nil {
					out = linCallTCP(c, keys[kind], in)
				} else {
					out = linCallAPI(n, keys[kind], in)
				}
				ret := time.Since(t0).Nanoseconds()
				mu.Lock()
				hist[kind] = append(hist[kind], porcupine.Operation{ClientId: w, Input: in, Call: call, Output: out, Return: ret})
				mu.Unlock()
			}
		})
		atomic.StoreInt32(&stop, 1)
		bg.Wait()
		if s := bad.Load(); s != nil {
			return fmt.Sprintf("FAIL %s", s)
		}
		for kind, h := range hist {
			total += len(h)
			res := porcupine.CheckOperationsTimeout(linModel, h, 20*time.Second)
			if res == porcupine.Illegal {
				sort.Slice(h, func(a, b int) bool { return h[a].Call < h[b].Call })
				var lines []string
				for _, o := range h {
					lines = append(lines, fmt.Sprintf("[%d..%d] c%d %s %q -> %s", o.Call, o.Return, o.ClientId, o.Input.(linIn).op, o.Input.(linIn).arg, o.Output))
				}
				if len(lines) > 120 {
					lines = lines[:120]
				}
				return fmt.Sprintf("FAIL the history of key %s (%d calls by %d concurrent clients) is not linearizable with respect to the sequential semantics (round %d): %s", keys[kind], len(h), workers, round, strings.Join(lines, " | "))
			}
		}
	}
	return fmt.Sprintf("ok rounds=%d calls=%d", rounds, total)
}

func init() {
	scenarios["lin-history"] = func(n *nodis.Nodis, r *rand.Rand, rounds int) string { return linHistory(n, r, rounds, "") }
	scenarios["tcp-lin-history"] = func(n *nodis.Nodis, r *rand.Rand, rounds int) string {
		addr, err := serveOn(n)
		if err != nil {
			return "FAIL " + err.Error()
		}
		return linHistory(n, r, rounds, addr)
	}
}
