module vharness

go 1.21

require github.com/diiyw/nodis v0.0.0

require (
	github.com/DataDog/zstd v1.4.5 // indirect
	github.com/anishathalye/porcupine v1.3.0
	github.com/beorn7/perks v1.0.1 // indirect
	github.com/cespare/xxhash/v2 v2.2.0 // indirect
	github.com/cockroachdb/errors v1.11.3 // indirect
	github.com/cockroachdb/fifo v0.0.0-20240606204812-0bbfbd93a7ce // indirect
	github.com/cockroachdb/logtags v0.0.0-20230118201751-21c54148d20b // indirect
	github.com/cockroachdb/pebble v1.1.2 // indirect
	github.com/cockroachdb/redact v1.1.5 // indirect
	github.com/cockroachdb/tokenbucket v0.0.0-20230807174530-cc333fc44b06 // indirect
	github.com/getsentry/sentry-go v0.27.0 // indirect
	github.com/gogo/protobuf v1.3.2 // indirect
	github.com/golang/protobuf v1.5.3 // indirect
	github.com/golang/snappy v0.0.4 // indirect
	github.com/gorilla/websocket v1.5.3 // indirect
	github.com/klauspost/compress v1.16.0 // indirect
	github.com/kr/pretty v0.3.1 // indirect
	github.com/kr/text v0.2.0 // indirect
	github.com/matttproud/golang_protobuf_extensions v1.0.2-0.20181231171920-c182affec369 // indirect
	github.com/pkg/errors v0.9.1 // indirect
	github.com/prometheus/client_golang v1.12.0 // indirect
	github.com/prometheus/client_model v0.2.1-0.20210607210712-147c58e9608a // indirect
	github.com/prometheus/common v0.32.1 // indirect
	github.com/prometheus/procfs v0.7.3 // indirect
	github.com/rogpeppe/go-internal v1.9.0 // indirect
	github.com/tidwall/btree v1.7.0 // indirect
	golang.org/x/exp v0.0.0-20230626212559-97b1e661b5df // indirect
	golang.org/x/sys v0.18.0 // indirect
	golang.org/x/text v0.14.0 // indirect
	google.golang.org/protobuf v1.34.2
)

replace github.com/diiyw/nodis => /repo
