package main

import (
	"fmt"
	"math"
	"reflect"
	"strconv"
	"strings"

	"github.com/diiyw/nodis/patch"
	"google.golang.org/protobuf/proto"
)

// wire encoding of change records (C20, Model/ProtoWire.lean): the real Op.Encode / DecodeOp /
// proto.Marshal on records built by reflection over the generated message structs.
//   pschema <type>          message name and field kinds, read off the struct by reflection
//   penc <type> <field>…    Op.Encode, whether proto.Marshal reports an error, DecodeOp of the encoding
//   pdec <bytes>            DecodeOp of arbitrary bytes, Encode of what it returned

// the empty message of an operation type comes out of the real DecodeOp switch
func newPatchMsg(typ uint8) (patch.Op, bool) {
	op, err := patch.DecodeOp([]byte{typ})
	if err != nil || op.Data == nil {
		return op, false
	}
	return op, true
}

type pfield struct {
	v    reflect.Value
	num  string
	kind string
}

// exported struct fields that carry a protobuf tag, in declaration order
func patchFields(m patch.OpData) []pfield {
	rv := reflect.ValueOf(m).Elem()
	rt := rv.Type()
	var out []pfield
	for i := 0; i < rt.NumField(); i++ {
		f := rt.Field(i)
		tagv, ok := f.Tag.Lookup("protobuf")
		if !ok || !f.IsExported() {
			continue
		}
		parts := strings.Split(tagv, ",")
		kind := "?"
		switch f.Type.String() {
		case "string":
			kind = "string"
		case "[]uint8":
			kind = "bytes"
		case "int64":
			kind = "int64"
		case "bool":
			kind = "bool"
		case "float64":
			kind = "double"
		case "[]string":
			kind = "rep-string"
		case "[][]uint8":
			kind = "rep-bytes"
		case "[]float64":
			kind = "rep-double"
			if strings.Contains(tagv, ",packed") {
				kind += "-packed"
			}
		}
		out = append(out, pfield{rv.Field(i), parts[1], kind})
	}
	return out
}

func splitList(tok string) []string {
	if tok == "_" {
		return nil
	}
	return strings.Split(tok, ",")
}

func setPatchField(f pfield, tok string) error {
	switch f.kind {
	case "string":
		b, err := parseArg(tok)
		if err != nil {
			return err
		}
		f.v.SetString(string(b))
	case "bytes":
		b, err := parseArg(tok)
		if err != nil {
			return err
		}
		f.v.SetBytes(b)
	case "int64":
		n, err := strconv.ParseInt(tok, 10, 64)
		if err != nil {
			return err
		}
		f.v.SetInt(n)
	case "bool":
		if tok != "true" && tok != "false" {
			return fmt.Errorf("bad bool")
		}
		f.v.SetBool(tok == "true")
	case "double":
		n, err := strconv.ParseUint(tok, 10, 64)
		if err != nil {
			return err
		}
		f.v.SetFloat(math.Float64frombits(n))
	case "rep-string":
		var ss []string
		for _, t := range splitList(tok) {
			b, err := parseArg(t)
			if err != nil {
				return err
			}
			ss = append(ss, string(b))
		}
		f.v.Set(reflect.ValueOf(ss))
	case "rep-bytes":
		var bs [][]byte
		for _, t := range splitList(tok) {
			b, err := parseArg(t)
			if err != nil {
				return err
			}
			bs = append(bs, b)
		}
		f.v.Set(reflect.ValueOf(bs))
	case "rep-double-packed", "rep-double":
		var fs []float64
		for _, t := range splitList(tok) {
			n, err := strconv.ParseUint(t, 10, 64)
			if err != nil {
				return err
			}
			fs = append(fs, math.Float64frombits(n))
		}
		f.v.Set(reflect.ValueOf(fs))
	default:
		return fmt.Errorf("unknown kind")
	}
	return nil
}

func showList(xs []string) string {
	if len(xs) == 0 {
		return "_"
	}
	return strings.Join(xs, ",")
}

func showPatchField(f pfield) string {
	switch f.kind {
	case "string":
		return showBytes([]byte(f.v.String()))
	case "bytes":
		return showBytes(f.v.Bytes())
	case "int64":
		return fmt.Sprint(f.v.Int())
	case "bool":
		return fmt.Sprint(f.v.Bool())
	case "double":
		return fmt.Sprint(math.Float64bits(f.v.Float()))
	case "rep-string":
		var xs []string
		for _, s := range f.v.Interface().([]string) {
			xs = append(xs, showBytes([]byte(s)))
		}
		return showList(xs)
	case "rep-bytes":
		var xs []string
		for _, b := range f.v.Interface().([][]byte) {
			xs = append(xs, showBytes(b))
		}
		return showList(xs)
	case "rep-double-packed", "rep-double":
		var xs []string
		for _, x := range f.v.Interface().([]float64) {
			xs = append(xs, fmt.Sprint(math.Float64bits(x)))
		}
		return showList(xs)
	}
	return "?"
}

func showDecoded(data []byte) (string, *patch.Op) {
	var res string
	var out *patch.Op
	func() {
		defer func() {
			if r := recover(); r != nil {
				res = fmt.Sprintf("PANIC(%v)", r)
			}
		}()
		op, err := patch.DecodeOp(data)
		if err != nil {
			switch {
			case strings.Contains(err.Error(), "empty operation"):
				res = "err:empty"
			case strings.Contains(err.Error(), "unknown operation type"):
				res = "err:type"
			default:
				res = "err:wire"
			}
			return
		}
		var parts []string
		for _, f := range patchFields(op.Data) {
			parts = append(parts, showPatchField(f))
		}
		res = fmt.Sprintf("ok:%d:%s:unk=%s", op.Type, strings.Join(parts, ";"), showBytes(op.Data.ProtoReflect().GetUnknown()))
		out = &op
	}()
	return res, out
}

func patchWireOp(toks []string) string {
	switch toks[0] {
	case "pschema":
		n, err := strconv.Atoi(toks[1])
		if err != nil || n < 0 || n > 255 {
			return "pschema none"
		}
		op, ok := newPatchMsg(uint8(n))
		if !ok {
			return "pschema none"
		}
		parts := []string{"pschema", reflect.TypeOf(op.Data).Elem().Name()}
		for _, f := range patchFields(op.Data) {
			parts = append(parts, f.num+":"+f.kind)
		}
		return strings.Join(parts, " ")
	case "penc":
		n, err := strconv.Atoi(toks[1])
		if err != nil || n < 0 || n > 255 {
			return "bad-op"
		}
		op, ok := newPatchMsg(uint8(n))
		if !ok {
			return "bad-op"
		}
		fs := patchFields(op.Data)
		if len(fs) != len(toks)-2 {
			return "bad-op"
		}
		for i, f := range fs {
			if err := setPatchField(f, toks[2+i]); err != nil {
				return "bad-op"
			}
		}
		enc := op.Encode()
		_, merr := proto.Marshal(op.Data)
		e := 0
		if merr != nil {
			e = 1
		}
		dec, _ := showDecoded(enc)
		return compact(fmt.Sprintf("enc=%s merr=%d dec=%s", showBytes(enc), e, dec))
	case "pdec":
		data, err := parseArg(toks[1])
		if err != nil {
			return "bad-op"
		}
		dec, op := showDecoded(data)
		re := "none"
		if op != nil {
			re = showBytes(op.Encode())
		}
		return compact(fmt.Sprintf("dec=%s reenc=%s", dec, re))
	}
	return "bad-op"
}
