package main

import (
	"errors"
	"fmt"
	"math"
	"strconv"

	"github.com/diiyw/nodis/redis"
)

// Operations on a bare redis.Writer (the RESP reply writer of redis/resp.go) over a sink that can be
// told to fail: every exported method, followed by the private state (w, len(buf), err).
//
//	wr new | WriteString a | WriteBulk a | WriteError a | WriteBulkNull | WriteArrayNull | WriteNullMap |
//	   WriteOK | WriteArray n | WriteMap n | WriteInt64 v | WriteUInt64 v | WriteDouble <16 hex digits> |
//	   Flush | FlushFail k | Bytes | HasError | dump
//
// Output: "<reply> | w=<w> len=<len(buf)> err=<0|1>"; a panic inside the call gives the line "PANIC".
type wrSink struct {
	data []byte
	fail int // <0: none; else the next Write accepts min(fail,len(p)) bytes and fails
}

func (s *wrSink) Write(p []byte) (int, error) {
	if s.fail >= 0 {
		k := s.fail
		if k > len(p) {
			k = len(p)
		}
		s.data = append(s.data, p[:k]...)
		s.fail = -1
		return k, errors.New("injected write failure")
	}
	s.data = append(s.data, p...)
	return len(p), nil
}

var (
	bareWriter *redis.Writer
	bareSink   *wrSink
)

func wrOp(toks []string) (out string) {
	if bareWriter == nil || (len(toks) > 1 && toks[1] == "new") {
		bareSink = &wrSink{fail: -1}
		bareWriter = redis.NewWriter(bareSink)
	}
	w, sink := bareWriter, bareSink
	defer func() {
		if r := recover(); r != nil {
			out = "PANIC"
		}
	}()
	if len(toks) < 2 {
		return "bad-op"
	}
	need := func(n int) bool { return len(toks) == 2+n }
	reply := "ok"
	flush := func() {
		before := len(sink.data)
		err := w.Flush()
		ret := "ok"
		if err != nil {
			ret = "err"
		}
		reply = fmt.Sprintf("flushed=%s ret=%s", showBytes(sink.data[before:]), ret)
	}
	switch toks[1] {
	case "new":
		if !need(0) {
			return "bad-op"
		}
	case "WriteString", "WriteBulk", "WriteError":
		if !need(1) || toks[2] == "" {
			return "bad-op"
		}
		b, err := parseArg(toks[2])
		if err != nil {
			return "bad-op"
		}
		s := string(b)
		switch toks[1] {
		case "WriteString":
			w.WriteString(s)
		case "WriteBulk":
			w.WriteBulk(s)
		default:
			w.WriteError(s)
		}
	case "WriteBulkNull", "WriteArrayNull", "WriteNullMap", "WriteOK":
		if !need(0) {
			return "bad-op"
		}
		switch toks[1] {
		case "WriteBulkNull":
			w.WriteBulkNull()
		case "WriteArrayNull":
			w.WriteArrayNull()
		case "WriteNullMap":
			w.WriteNullMap()
		default:
			w.WriteOK()
		}
	case "WriteArray", "WriteMap", "WriteInt64":
		if !need(1) {
			return "bad-op"
		}
		v, err := strconv.ParseInt(toks[2], 10, 64)
		if err != nil {
			return "bad-op"
		}
		switch toks[1] {
		case "WriteArray":
			w.WriteArray(int(v))
		case "WriteMap":
			w.WriteMap(int(v))
		default:
			w.WriteInt64(v)
		}
	case "WriteUInt64":
		if !need(1) {
			return "bad-op"
		}
		v, err := strconv.ParseUint(toks[2], 10, 64)
		if err != nil {
			return "bad-op"
		}
		w.WriteUInt64(v)
	case "WriteDouble":
		if !need(1) || len(toks[2]) != 16 {
			return "bad-op"
		}
		v, err := strconv.ParseUint(toks[2], 16, 64)
		if err != nil {
			return "bad-op"
		}
		w.WriteDouble(math.Float64frombits(v))
	case "Flush":
		if !need(0) {
			return "bad-op"
		}
		flush()
	case "FlushFail":
		if !need(1) {
			return "bad-op"
		}
		k, err := strconv.Atoi(toks[2])
		if err != nil || k < 0 {
			return "bad-op"
		}
		sink.fail = k
		flush()
	case "Bytes":
		if !need(0) {
			return "bad-op"
		}
		reply = "bytes=" + showBytes(w.Bytes())
	case "HasError":
		if !need(0) {
			return "bad-op"
		}
		reply = strconv.FormatBool(w.HasError())
	case "dump":
		if !need(0) {
			return "bad-op"
		}
		reply = fmt.Sprintf("buf=%s sink=%s", showBytes(w.VerifBuf()), showBytes(sink.data))
	default:
		return "bad-op"
	}
	bufLen, pos, e := w.VerifState()
	ei := 0
	if e {
		ei = 1
	}
	return fmt.Sprintf("%s | w=%d len=%d err=%d", reply, pos, bufLen, ei)
}
