package main

import (
	"fmt"
	"math"
	"strconv"

	"github.com/diiyw/nodis"
)

// geo <fn> <operands>: the float operations and the geohash functions the GEO model is built from,
// evaluated by the real code / the Go compiler on this machine. Floats travel as 16 hex digits.
func f64arg(s string) (float64, bool) {
	u, err := strconv.ParseUint(s, 16, 64)
	if err != nil {
		return 0, false
	}
	return math.Float64frombits(u), true
}

func hex64(f float64) string {
	b := math.Float64bits(f)
	if f != f {
		// NaN payloads are not modelled: arithmetic yields the default quiet NaN
		b = 0xFFF8000000000000
	}
	return fmt.Sprintf("%016x", b)
}

//go:noinline
func fsub(a, b float64) float64 { return a - b }

//go:noinline
func fadd(a, b float64) float64 { return a + b }

//go:noinline
func fmul(a, b float64) float64 { return a * b }

//go:noinline
func fdiv(a, b float64) float64 { return a / b }

//go:noinline
func fu64(a float64) uint64 { return uint64(a) }

//go:noinline
func fu32(a float64) uint32 { return uint32(a) }

//go:noinline
func ffrom(n uint64) float64 { return float64(n) }

func geoOp(toks []string) string {
	if len(toks) < 2 {
		return "bad-op"
	}
	bin := func(f func(a, b float64) float64) string {
		if len(toks) != 4 {
			return "bad-op"
		}
		a, ok1 := f64arg(toks[2])
		b, ok2 := f64arg(toks[3])
		if !ok1 || !ok2 {
			return "bad-op"
		}
		return hex64(f(a, b))
	}
	switch toks[1] {
	case "sub":
		return bin(fsub)
	case "add":
		return bin(fadd)
	case "mul":
		return bin(fmul)
	case "div":
		return bin(fdiv)
	case "u64", "u32":
		a, ok := f64arg(toks[2])
		if !ok {
			return "bad-op"
		}
		if toks[1] == "u64" {
			return strconv.FormatUint(fu64(a), 10)
		}
		return strconv.FormatUint(uint64(fu32(a)), 10)
	case "fromu64":
		n, err := strconv.ParseUint(toks[2], 10, 64)
		if err != nil {
			return "bad-op"
		}
		return hex64(ffrom(n))
	case "parse":
		b, err := parseArg(toks[2])
		if err != nil {
			return "bad-op"
		}
		v, err := strconv.ParseFloat(string(b), 64)
		if err != nil {
			return "E"
		}
		if v != v {
			return fmt.Sprintf("%016x", uint64(0x7FF8000000000001))
		}
		return hex64(v)
	case "enc":
		lo, ok1 := f64arg(toks[2])
		la, ok2 := f64arg(toks[3])
		if !ok1 || !ok2 {
			return "bad-op"
		}
		h, err := nodis.VerifGeoEncode(lo, la)
		if err != nil {
			return "E"
		}
		return strconv.FormatUint(h, 10)
	case "dec":
		n, err := strconv.ParseUint(toks[2], 10, 64)
		if err != nil {
			return "bad-op"
		}
		lo, la := nodis.VerifGeoDecode(n)
		return hex64(lo) + " " + hex64(la)
	case "il":
		x, err1 := strconv.ParseUint(toks[2], 10, 32)
		y, err2 := strconv.ParseUint(toks[3], 10, 32)
		if err1 != nil || err2 != nil {
			return "bad-op"
		}
		return strconv.FormatUint(nodis.VerifGeoInterleave(uint32(x), uint32(y)), 10)
	case "dil":
		v, err := strconv.ParseUint(toks[2], 10, 64)
		if err != nil {
			return "bad-op"
		}
		x, y := nodis.VerifGeoDeinterleave(v)
		return fmt.Sprintf("%d %d", x, y)
	case "b32":
		v, err := strconv.ParseUint(toks[2], 10, 64)
		if err != nil {
			return "bad-op"
		}
		return toHex(nodis.VerifGeoBase32(v))
	case "consts":
		c := nodis.VerifGeoConsts()
		thousand, mile, foot := 1000.0, 1609.34, 0.3048
		out := ""
		for _, f := range []float64{c[0], c[1], c[2], c[3], 90, -90, thousand, mile, foot} {
			if out != "" {
				out += " "
			}
			out += hex64(f)
		}
		return out
	}
	return "bad-op"
}
