package main

import (
	"fmt"
	"math"
	"strconv"
	"strings"

	"github.com/diiyw/nodis/ds/zset"
)

// sl ops: the unexported pointer skiplist of ds/zset on its own, whole structure printed after
// every mutating operation (PROTOCOL: levels, spans, backward links, tail).

func slScore(tok string) (float64, bool) {
	if len(tok) != 16 {
		return 0, false
	}
	bits, err := strconv.ParseUint(tok, 16, 64)
	if err != nil {
		return 0, false
	}
	return math.Float64frombits(bits), true
}

func slMember(tok string) (string, bool) {
	b, err := parseArg(tok)
	if err != nil {
		return "", false
	}
	return string(b), true
}

func slInt(tok string) (int64, bool) {
	v, err := strconv.ParseInt(tok, 10, 64)
	return v, err == nil
}

func slPos(p int64) string {
	if p == -1 {
		return "nil"
	}
	return fmt.Sprintf("pos=%d", p)
}

func slItems(items []zset.Item) string {
	parts := make([]string, len(items))
	for i, it := range items {
		parts[i] = fmt.Sprintf("%016x:%s", math.Float64bits(it.Score), toHex([]byte(it.Member)))
	}
	return "[" + strings.Join(parts, ",") + "]"
}

func (st *state) slDump() (s string) {
	defer func() {
		if r := recover(); r != nil {
			s = "panic"
		}
	}()
	return st.sl.Dump()
}

// slMut runs a mutating call; a panic becomes "panic ; DUMP".
func (st *state) slMut(f func() string) string {
	res := func() (s string) {
		defer func() {
			if r := recover(); r != nil {
				s = "panic"
			}
		}()
		return f()
	}()
	return res + " ; " + st.slDump()
}

// slQuery runs a read-only call; a panic becomes "panic".
func slQuery(f func() string) (s string) {
	defer func() {
		if r := recover(); r != nil {
			s = "panic"
		}
	}()
	return f()
}

func (st *state) slOp(toks []string) (string, string) {
	if len(toks) < 2 {
		return "bad-op", ""
	}
	args := toks[2:]
	if toks[1] == "new" {
		if len(args) != 0 {
			return "bad-op", ""
		}
		return st.slMut(func() string { st.sl = zset.VerifNewSL(); return "ok" }), ""
	}
	if st.sl == nil {
		st.sl = zset.VerifNewSL()
	}
	switch toks[1] {
	case "dump":
		if len(args) != 0 {
			return "bad-op", ""
		}
		return "ok ; " + st.slDump(), ""
	case "insert", "remove", "getRank":
		if len(args) != 2 {
			return "bad-op", ""
		}
		m, ok1 := slMember(args[0])
		s, ok2 := slScore(args[1])
		if !ok1 || !ok2 {
			return "bad-op", ""
		}
		switch toks[1] {
		case "insert":
			ann := ""
			out := st.slMut(func() string {
				h := st.sl.Insert(m, s)
				ann = fmt.Sprintf(" lvl=%d", h)
				return "ok"
			})
			return out, ann
		case "remove":
			return st.slMut(func() string { return strconv.FormatBool(st.sl.Remove(m, s)) }), ""
		default:
			return slQuery(func() string { return strconv.FormatInt(st.sl.GetRank(m, s), 10) }), ""
		}
	case "getByRank":
		if len(args) != 1 {
			return "bad-op", ""
		}
		r, ok := slInt(args[0])
		if !ok {
			return "bad-op", ""
		}
		return slQuery(func() string { return slPos(st.sl.GetByRank(r)) }), ""
	case "hasInRange", "getFirstInRange", "getLastInRange":
		if len(args) != 2 {
			return "bad-op", ""
		}
		lo, ok1 := slScore(args[0])
		hi, ok2 := slScore(args[1])
		if !ok1 || !ok2 {
			return "bad-op", ""
		}
		switch toks[1] {
		case "hasInRange":
			return slQuery(func() string { return strconv.FormatBool(st.sl.HasInRange(lo, hi)) }), ""
		case "getFirstInRange":
			return slQuery(func() string { return slPos(st.sl.GetFirstInRange(lo, hi)) }), ""
		default:
			return slQuery(func() string { return slPos(st.sl.GetLastInRange(lo, hi)) }), ""
		}
	case "removeRange":
		if len(args) != 4 {
			return "bad-op", ""
		}
		lo, ok1 := slScore(args[0])
		hi, ok2 := slScore(args[1])
		limit, ok3 := slInt(args[2])
		mode, ok4 := slInt(args[3])
		if !ok1 || !ok2 || !ok3 || !ok4 {
			return "bad-op", ""
		}
		return st.slMut(func() string {
			return "removed=" + slItems(st.sl.RemoveRange(lo, hi, int(limit), int(mode)))
		}), ""
	case "removeRangeByRank":
		if len(args) != 2 {
			return "bad-op", ""
		}
		start, ok1 := slInt(args[0])
		stop, ok2 := slInt(args[1])
		if !ok1 || !ok2 {
			return "bad-op", ""
		}
		return st.slMut(func() string {
			return "removed=" + slItems(st.sl.RemoveRangeByRank(start, stop))
		}), ""
	}
	return "bad-op", ""
}

// slz ops: a real zset.SortedSet driven through its exported methods; the dump is the one of its
// own skiplist (same format as the sl ops).

func (st *state) slzDump() (s string) {
	defer func() {
		if r := recover(); r != nil {
			s = "panic"
		}
	}()
	return st.slz.VerifDumpSL()
}

func (st *state) slzMut(f func() string) string {
	res := func() (s string) {
		defer func() {
			if r := recover(); r != nil {
				s = "panic"
			}
		}()
		return f()
	}()
	return res + " ; " + st.slzDump()
}

func slItemPtrs(items []*zset.Item) string {
	out := make([]zset.Item, len(items))
	for i, it := range items {
		out[i] = *it
	}
	return slItems(out)
}

func (st *state) slzOp(toks []string) (string, string) {
	if len(toks) < 2 {
		return "bad-op", ""
	}
	args := toks[2:]
	if toks[1] == "new" {
		if len(args) != 0 {
			return "bad-op", ""
		}
		return st.slzMut(func() string { st.slz = zset.NewSortedSet(); return "ok" }), ""
	}
	if st.slz == nil {
		st.slz = zset.NewSortedSet()
	}
	switch toks[1] {
	case "dump":
		if len(args) != 0 {
			return "bad-op", ""
		}
		return "ok ; " + st.slzDump(), ""
	case "ZAdd":
		if len(args) != 2 {
			return "bad-op", ""
		}
		m, ok1 := slMember(args[0])
		s, ok2 := slScore(args[1])
		if !ok1 || !ok2 {
			return "bad-op", ""
		}
		out := st.slzMut(func() string { return strconv.FormatInt(st.slz.ZAdd(m, s), 10) })
		ann := slQuery(func() string { return fmt.Sprintf(" lvl=%d", st.slz.VerifHeightOf(m)) })
		if ann == "panic" {
			ann = " lvl=0"
		}
		return out, ann
	case "ZRem":
		if len(args) < 1 {
			return "bad-op", ""
		}
		ms := make([]string, len(args))
		for i, a := range args {
			m, ok := slMember(a)
			if !ok {
				return "bad-op", ""
			}
			ms[i] = m
		}
		return st.slzMut(func() string { return strconv.FormatInt(st.slz.ZRem(ms...), 10) }), ""
	case "ZRemRangeByScore":
		if len(args) != 3 {
			return "bad-op", ""
		}
		lo, ok1 := slScore(args[0])
		hi, ok2 := slScore(args[1])
		mode, ok3 := slInt(args[2])
		if !ok1 || !ok2 || !ok3 {
			return "bad-op", ""
		}
		return st.slzMut(func() string { return strconv.FormatInt(st.slz.ZRemRangeByScore(lo, hi, int(mode)), 10) }), ""
	case "ZRemRangeByRank":
		if len(args) != 2 {
			return "bad-op", ""
		}
		start, ok1 := slInt(args[0])
		stop, ok2 := slInt(args[1])
		if !ok1 || !ok2 {
			return "bad-op", ""
		}
		return st.slzMut(func() string { return strconv.FormatInt(st.slz.ZRemRangeByRank(start, stop), 10) }), ""
	case "ZRank":
		if len(args) != 1 {
			return "bad-op", ""
		}
		m, ok := slMember(args[0])
		if !ok {
			return "bad-op", ""
		}
		return slQuery(func() string {
			r, err := st.slz.ZRank(m)
			if err != nil {
				return "nil"
			}
			return strconv.FormatInt(r, 10)
		}), ""
	case "ZRange", "ZRevRange":
		if len(args) != 2 {
			return "bad-op", ""
		}
		start, ok1 := slInt(args[0])
		stop, ok2 := slInt(args[1])
		if !ok1 || !ok2 {
			return "bad-op", ""
		}
		rev := toks[1] == "ZRevRange"
		return slQuery(func() string {
			if rev {
				return slItemPtrs(st.slz.ZRevRange(start, stop))
			}
			return slItemPtrs(st.slz.ZRange(start, stop))
		}), ""
	case "ZCount":
		if len(args) != 3 {
			return "bad-op", ""
		}
		lo, ok1 := slScore(args[0])
		hi, ok2 := slScore(args[1])
		mode, ok3 := slInt(args[2])
		if !ok1 || !ok2 || !ok3 {
			return "bad-op", ""
		}
		return slQuery(func() string { return strconv.FormatInt(st.slz.ZCount(lo, hi, int(mode)), 10) }), ""
	case "ZRangeByScore", "ZRevRangeByScore":
		if len(args) != 5 {
			return "bad-op", ""
		}
		lo, ok1 := slScore(args[0])
		hi, ok2 := slScore(args[1])
		offset, ok3 := slInt(args[2])
		count, ok4 := slInt(args[3])
		mode, ok5 := slInt(args[4])
		if !ok1 || !ok2 || !ok3 || !ok4 || !ok5 {
			return "bad-op", ""
		}
		rev := toks[1] == "ZRevRangeByScore"
		return slQuery(func() string {
			if rev {
				return slItemPtrs(st.slz.ZRevRangeByScore(lo, hi, offset, count, int(mode)))
			}
			return slItemPtrs(st.slz.ZRangeByScore(lo, hi, offset, count, int(mode)))
		}), ""
	}
	return "bad-op", ""
}
