package main

import (
	"fmt"
	"math"
	"os"
	"reflect"
	"sort"
	"strconv"
	"strings"
	"syscall"
	"time"

	"github.com/diiyw/nodis"
	"github.com/diiyw/nodis/ds"
	"github.com/diiyw/nodis/ds/zset"
	"github.com/diiyw/nodis/storage"
)

// instance = one nodis.Nodis plus what is needed to reopen it
type instance struct {
	n        *nodis.Nodis
	backend  string // mem | pebble
	dir      string
	mem      storage.Storage
	addr     string // TCP address once Serve is running
	fault    *faultStorage
	feed     *feedBuf
	feedP    *feedBuf
	patterns []string
	extra    []int // ids of additional, short-lived watchers (watchx / unwatchx)
}

var (
	tDuration  = reflect.TypeOf(time.Duration(0))
	tTime      = reflect.TypeOf(time.Time{})
	tBytes     = reflect.TypeOf([]byte(nil))
	tItemPtr   = reflect.TypeOf((*zset.Item)(nil))
	tError     = reflect.TypeOf((*error)(nil)).Elem()
	tValueType = reflect.TypeOf(ds.ValueType(0))
	tGeoMember = reflect.TypeOf((*nodis.GeoMember)(nil))
)

// results that come out of Go maps or random selection in an order the model cannot predict
var sortedResult = map[string]bool{"ZUnion": true, "ZInter": true}

// relational methods: the model validates G's own choice, which is passed along as an annotation
var relational = map[string]bool{"SPop": true, "SRandMember": true, "RandomKey": true}

func splitGroups(toks []string) [][]string {
	// "[ a b ]" becomes one group; a bare token is a group of one
	var out [][]string
	for i := 0; i < len(toks); i++ {
		if toks[i] == "[" {
			j := i + 1
			var g []string
			for j < len(toks) && toks[j] != "]" {
				g = append(g, toks[j])
				j++
			}
			out = append(out, append([]string{"["}, g...))
			i = j
		} else {
			out = append(out, []string{toks[i]})
		}
	}
	return out
}

func scalar(t reflect.Type, tok string) reflect.Value {
	switch {
	case t == tGeoMember: // <member>:<longitude bits>:<latitude bits>
		parts := strings.Split(tok, ":")
		if len(parts) != 3 {
			panic("bad geo member " + tok)
		}
		b, err := parseArg(parts[0])
		if err != nil {
			panic(err)
		}
		lo, err1 := strconv.ParseUint(parts[1], 16, 64)
		la, err2 := strconv.ParseUint(parts[2], 16, 64)
		if err1 != nil || err2 != nil {
			panic("bad geo member " + tok)
		}
		return reflect.ValueOf(&nodis.GeoMember{Member: string(b), Longitude: math.Float64frombits(lo), Latitude: math.Float64frombits(la)})
	case t == tDuration:
		ms, _ := strconv.ParseInt(tok, 10, 64)
		return reflect.ValueOf(time.Duration(ms) * time.Millisecond)
	case t == tTime:
		ms, _ := strconv.ParseInt(tok, 10, 64)
		return reflect.ValueOf(time.UnixMilli(ms))
	case t == tBytes:
		b, err := parseArg(tok)
		if err != nil {
			panic(err)
		}
		return reflect.ValueOf(b)
	case t.Kind() == reflect.String:
		b, err := parseArg(tok)
		if err != nil {
			panic(err)
		}
		return reflect.ValueOf(string(b)).Convert(t)
	case t.Kind() == reflect.Int64 || t.Kind() == reflect.Int || t.Kind() == reflect.Uint8:
		v, err := strconv.ParseInt(tok, 10, 64)
		if err != nil {
			panic(err)
		}
		return reflect.ValueOf(v).Convert(t)
	case t.Kind() == reflect.Float64:
		bits, err := strconv.ParseUint(tok, 16, 64)
		if err != nil {
			panic(err)
		}
		return reflect.ValueOf(math.Float64frombits(bits))
	case t.Kind() == reflect.Bool:
		return reflect.ValueOf(tok == "1")
	}
	panic("unsupported parameter type " + t.String())
}

func buildParam(t reflect.Type, g []string) reflect.Value {
	if g[0] == "[" {
		items := g[1:]
		switch t.Kind() {
		case reflect.Slice:
			s := reflect.MakeSlice(t, 0, len(items))
			for _, it := range items {
				s = reflect.Append(s, scalar(t.Elem(), it))
			}
			return s
		case reflect.Map:
			m := reflect.MakeMap(t)
			for i := 0; i+1 < len(items); i += 2 {
				m.SetMapIndex(scalar(t.Key(), items[i]), scalar(t.Elem(), items[i+1]))
			}
			return m
		}
		panic("group for non-collection parameter " + t.String())
	}
	return scalar(t, g[0])
}

func fmtBytes(b []byte) string {
	if b == nil {
		return "N"
	}
	return "B" + showBytes(b)
}

func fmtItem(it *zset.Item) string {
	if it == nil {
		return "N"
	}
	return fmt.Sprintf("%s=%016x", showBytes([]byte(it.Member)), math.Float64bits(it.Score))
}

func fmtValue(method string, v reflect.Value) string {
	t := v.Type()
	switch {
	case t == tDuration:
		return "I" + strconv.FormatInt(int64(v.Interface().(time.Duration)), 10)
	case t == tBytes:
		return fmtBytes(v.Bytes())
	case t == tError:
		if v.IsNil() {
			return "-"
		}
		return "E"
	case t == tItemPtr:
		return "Z(" + fmtItem(v.Interface().(*zset.Item)) + ")"
	case t.Kind() == reflect.Int64 || t.Kind() == reflect.Int:
		return "I" + strconv.FormatInt(v.Int(), 10)
	case t.Kind() == reflect.Bool:
		if v.Bool() {
			return "T"
		}
		return "F"
	case t.Kind() == reflect.String:
		return "S" + showBytes([]byte(v.String()))
	case t.Kind() == reflect.Float64:
		return fmt.Sprintf("D%016x", math.Float64bits(v.Float()))
	case t.Kind() == reflect.Map: // map[string][]byte
		keys := v.MapKeys()
		ks := make([]string, len(keys))
		for i, k := range keys {
			ks[i] = k.String()
		}
		sort.Strings(ks)
		parts := make([]string, len(ks))
		for i, k := range ks {
			parts[i] = showBytes([]byte(k)) + "=" + fmtBytes(v.MapIndex(reflect.ValueOf(k)).Bytes())
		}
		return "M[" + strings.Join(parts, ",") + "]"
	case t.Kind() == reflect.Slice:
		parts := make([]string, v.Len())
		for i := 0; i < v.Len(); i++ {
			e := v.Index(i)
			switch {
			case e.Type() == tBytes:
				parts[i] = fmtBytes(e.Bytes())
			case e.Type() == tItemPtr:
				parts[i] = fmtItem(e.Interface().(*zset.Item))
			case e.Kind() == reflect.String:
				parts[i] = showBytes([]byte(e.String()))
			default:
				parts[i] = fmt.Sprint(e.Interface())
			}
		}
		if sortedResult[method] {
			sort.Strings(parts)
		}
		return "A[" + strings.Join(parts, ",") + "]"
	}
	return "?" + t.String()
}

// callAPI invokes an exported method of *nodis.Nodis by name with protocol tokens.
func callAPI(n *nodis.Nodis, method string, toks []string) (out string, raw []reflect.Value) {
	defer func() {
		if r := recover(); r != nil {
			out = "P"
			if os.Getenv("VERIF_DEBUG") != "" {
				out = fmt.Sprintf("P(%v)", r)
			}
		}
	}()
	mv := reflect.ValueOf(n).MethodByName(method)
	if !mv.IsValid() {
		return "bad-op", nil
	}
	mt := mv.Type()
	groups := splitGroups(toks)
	var args []reflect.Value
	gi := 0
	for pi := 0; pi < mt.NumIn(); pi++ {
		pt := mt.In(pi)
		if mt.IsVariadic() && pi == mt.NumIn()-1 {
			for ; gi < len(groups); gi++ {
				args = append(args, buildParam(pt.Elem(), groups[gi]))
			}
			break
		}
		if gi >= len(groups) {
			return "bad-op", nil
		}
		args = append(args, buildParam(pt, groups[gi]))
		gi++
	}
	res := mv.Call(args)
	if len(res) == 0 {
		return "U", res
	}
	parts := make([]string, len(res))
	for i, r := range res {
		parts[i] = fmtValue(method, r)
	}
	return strings.Join(parts, " "), res
}

// faultStorage wraps a backend and makes the next `fail` writes fail (C12: a rejected write must not
// lose data that is still in memory)
type faultStorage struct {
	storage.Storage
	fail int
	// crash testing (C13): the process kills itself (SIGKILL: nothing is flushed or closed) right
	// before (killMode "before") or right after ("after") its killAt-th mutating storage call
	calls    int
	killAt   int
	killMode string
	kinds    []byte // per mutating call: 'S'et, 'D'elete, 'C'lear
}

func (f *faultStorage) mutate(kind byte, do func() error) error {
	f.calls++
	f.kinds = append(f.kinds, kind)
	if f.killAt > 0 && f.calls == f.killAt && f.killMode == "before" {
		syscall.Kill(os.Getpid(), syscall.SIGKILL)
		select {}
	}
	err := do()
	if f.killAt > 0 && f.calls == f.killAt && f.killMode == "after" {
		syscall.Kill(os.Getpid(), syscall.SIGKILL)
		select {}
	}
	return err
}

func (f *faultStorage) Delete(key *ds.Key) error {
	return f.mutate('D', func() error { return f.Storage.Delete(key) })
}

func (f *faultStorage) Clear() error {
	return f.mutate('C', func() error { return f.Storage.Clear() })
}

var errInjected = fmt.Errorf("injected storage failure")

func (f *faultStorage) Set(key *ds.Key, value ds.Value) error {
	if f.fail > 0 {
		f.fail--
		return errInjected
	}
	return f.mutate('S', func() error { return f.Storage.Set(key, value) })
}

func (st *state) cur() *instance { return st.inst[st.current] }

func (st *state) openInstance(id, backend, dir string, fresh bool) string {
	var ss storage.Storage
	old := st.inst[id]
	switch backend {
	case "mem":
		if !fresh && old != nil && old.mem != nil {
			ss = old.mem
		} else {
			ss = storage.NewMemory()
		}
	case "pebble":
		if fresh {
			os.RemoveAll(dir)
		}
		ss = storage.NewPebble(dir, nil)
	default:
		return "bad-op"
	}
	fs := &faultStorage{Storage: ss}
	if !fresh && old != nil && old.fault != nil {
		fs.fail = old.fault.fail // pending injected failures survive a reopen
	}
	n := nodis.Open(&nodis.Options{Storage: fs}) // GCDuration 0: eviction only when the script says so
	in := &instance{n: n, backend: backend, dir: dir, fault: fs}
	if backend == "mem" {
		in.mem = ss
	}
	st.inst[id] = in
	st.current = id
	return "ok"
}

func (st *state) dump(liveOnly bool, now int64) string {
	in := st.cur()
	var parts []string
	for _, e := range in.n.VerifIndex() {
		if liveOnly && e.Exp != 0 && e.Exp <= now {
			continue
		}
		val := "unreadable"
		if e.Value != nil {
			val = dumpVal(e.Value)
		}
		if e.Exp != 0 && e.Exp <= now {
			// a record whose deadline has passed and that has not been collected yet: that it is still indexed (and
			// under which deadline) is compared; whether its value happens to be in memory, in the backend or nowhere
			// is not - no command can tell (and a multi-key read that panics half-way loads fewer values than the
			// model's, which reads all operands before it looks at their types)
			val = "dead"
		}
		parts = append(parts, fmt.Sprintf("%s@%d{%s}", showBytes([]byte(e.Name)), e.Exp, val))
	}
	if liveOnly {
		return compact("ldump " + strings.Join(parts, " "))
	}
	return compact("dump " + strings.Join(parts, " "))
}

func (st *state) apiOp(toks []string) (out string, annot string) {
	switch toks[0] {
	case "open": // open <id> mem|pebble [dir]
		dir := ""
		if len(toks) > 3 {
			dir = toks[3]
		}
		return st.openInstance(toks[1], toks[2], dir, true), ""
	case "inst":
		st.current = toks[1]
		return "ok", ""
	case "close":
		in := st.cur()
		now := time.Now().UnixMilli()
		err := in.n.Close()
		if err != nil {
			return "E", fmt.Sprintf(" now=%d", now)
		}
		return "ok", fmt.Sprintf(" now=%d", now)
	case "reopen": // Close must have been called
		in := st.cur()
		return st.openInstance(st.current, in.backend, in.dir, false), ""
	case "attach": // attach <id> pebble <dir>: open an existing directory (after a crash)
		return st.openInstance(toks[1], toks[2], toks[3], false), ""
	case "killat": // killat <n> before|after: die at the n-th mutating storage call
		st.cur().fault.killAt, _ = strconv.Atoi(toks[1])
		st.cur().fault.killMode = toks[2]
		return "ok", ""
	case "storecalls":
		return fmt.Sprintf("calls=%d kinds=%s", st.cur().fault.calls, string(st.cur().fault.kinds)), ""
	case "failset": // the next n backend writes fail
		k, _ := strconv.Atoi(toks[1])
		st.cur().fault.fail = k
		return "ok", ""
	case "gc":
		now := time.Now().UnixMilli()
		st.cur().n.VerifGC()
		return "ok", fmt.Sprintf(" now=%d", now)
	case "flush":
		now := time.Now().UnixMilli()
		st.cur().n.VerifFlush()
		return "ok", fmt.Sprintf(" now=%d", now)
	case "sleep":
		ms, _ := strconv.ParseInt(toks[1], 10, 64)
		time.Sleep(time.Duration(ms) * time.Millisecond)
		return "ok", ""
	case "dump":
		now := time.Now().UnixMilli()
		return st.dump(false, now), fmt.Sprintf(" now=%d", now)
	case "ldump": // logical keyspace: records whose deadline has not passed
		now := time.Now().UnixMilli()
		return st.dump(true, now), fmt.Sprintf(" now=%d", now)
	case "api":
		now := time.Now().UnixMilli()
		o, raw := callAPI(st.cur().n, toks[1], toks[2:])
		annot = fmt.Sprintf(" now=%d", now)
		if relational[toks[1]] && len(raw) == 1 && o != "P" {
			// pass G's own choice to the model: "choice=<tok>,<tok>" ("choice=" when empty)
			r := raw[0]
			var cs []string
			if r.Kind() == reflect.String {
				cs = []string{toHex([]byte(r.String()))}
				if r.String() == "" {
					cs = nil
				}
			} else {
				for i := 0; i < r.Len(); i++ {
					cs = append(cs, toHex([]byte(r.Index(i).String())))
				}
			}
			annot += " choice=" + strings.Join(cs, ",")
		}
		return o, annot
	}
	return "bad-op", ""
}
