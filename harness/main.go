package main

import (
	"bufio"
	"flag"
	"fmt"
	"os"
	"strings"
)

func main() {
	in := flag.String("i", "", "ops file")
	out := flag.String("o", "", "output file (stdout is framed under faketime, so always a file)")
	flag.Parse()
	fi, err := os.Open(*in)
	if err != nil {
		fmt.Fprintln(os.Stderr, err)
		os.Exit(2)
	}
	fo, err := os.Create(*out)
	if err != nil {
		fmt.Fprintln(os.Stderr, err)
		os.Exit(2)
	}
	w := bufio.NewWriterSize(fo, 1<<20)
	sc := bufio.NewScanner(fi)
	sc.Buffer(make([]byte, 1<<20), 1<<28)
	st := newState()
	for sc.Scan() {
		line := strings.TrimSpace(sc.Text())
		toks := strings.Fields(line)
		if len(toks) == 0 {
			fmt.Fprintln(w, "")
			continue
		}
		fmt.Fprintln(w, st.dispatch(toks))
		if st.flushEach {
			w.Flush()
		}
	}
	w.Flush()
	fo.Close()
}

type state struct {
	flushEach bool
}

func newState() *state { return &state{} }

func (st *state) dispatch(toks []string) string {
	switch toks[0] {
	case "ck", "dk", "ev":
		return codecOp(toks)
	}
	return "bad-op"
}
