package main

import (
	"bufio"
	"flag"
	"fmt"
	"os"
	"strings"
	"time"

	"github.com/diiyw/nodis/ds/zset"
)

func main() {
	in := flag.String("i", "", "ops file")
	out := flag.String("o", "", "output file (stdout is framed under faketime, so always a file)")
	ann := flag.String("a", "", "annotated ops file for the model driver (op line + now= / choice= oracles)")
	flag.Parse()
	fi, err := os.Open(*in)
	if err != nil {
		fmt.Fprintln(os.Stderr, err)
		os.Exit(2)
	}
	fo, err := os.Create(*out)
	if err != nil {
		fmt.Fprintln(os.Stderr, err)
		os.Exit(2)
	}
	w := bufio.NewWriterSize(fo, 1<<20)
	var aw *bufio.Writer
	if *ann != "" {
		fa, err := os.Create(*ann)
		if err != nil {
			fmt.Fprintln(os.Stderr, err)
			os.Exit(2)
		}
		defer fa.Close()
		aw = bufio.NewWriterSize(fa, 1<<20)
		defer aw.Flush()
	}
	sc := bufio.NewScanner(fi)
	sc.Buffer(make([]byte, 1<<20), 1<<28)
	st := newState()
	for sc.Scan() {
		line := strings.TrimSpace(sc.Text())
		toks := strings.Fields(line)
		if len(toks) == 0 {
			fmt.Fprintln(w, "")
			if aw != nil {
				fmt.Fprintln(aw, "")
			}
			continue
		}
		o, a := st.dispatch(toks)
		fmt.Fprintln(w, o)
		if aw != nil {
			fmt.Fprintln(aw, line+a)
		}
		w.Flush()
		if aw != nil {
			aw.Flush()
		}
	}
	w.Flush()
	fo.Close()
}

type state struct {
	inst    map[string]*instance
	current string
	clients map[string]*client
	sl      *zset.VerifSL   // current bare skiplist of the sl ops
	slz     *zset.SortedSet // current sorted set of the slz ops
}

func newState() *state { return &state{inst: map[string]*instance{}, clients: map[string]*client{}} }

func (st *state) dispatch(toks []string) (string, string) {
	switch toks[0] {
	case "ck", "dk", "ev":
		return codecOp(toks), ""
	case "open", "inst", "close", "reopen", "gc", "flush", "sleep", "dump", "ldump", "failset", "api", "attach", "killat", "storecalls":
		return st.apiOp(toks)
	case "frag":
		return fragOp(toks), ""
	case "pschema", "penc", "pdec":
		return patchWireOp(toks), ""
	case "ll":
		return llOp(toks), ""
	case "wr":
		return wrOp(toks), ""
	case "fmtfloat", "parsefloat":
		return floatOp(toks), ""
	case "geo":
		return geoOp(toks), ""
	case "watch", "feed", "feedw", "replicate", "watchp", "feedp", "watchx", "unwatchx":
		now := time.Now().UnixMilli()
		return st.feedOp(toks), fmt.Sprintf(" now=%d", now)
	case "stress":
		return stressOp(toks), ""
	case "ptrace":
		return ptraceOp(toks), ""
	case "conn":
		return st.connect(toks[1]), ""
	case "resp":
		return st.respOp(toks)
	case "scanall":
		return st.scanAll(toks)
	case "sl":
		return st.slOp(toks)
	case "slz":
		return st.slzOp(toks)
	}
	return "bad-op", ""
}
