package main

import (
	"bufio"
	"fmt"
	"net"
	"sort"
	"strconv"
	"strings"
	"time"
)

// client = one TCP connection to the nodis server of the current instance
type client struct {
	c       net.Conn
	r       *bufio.Reader
	inMulti bool
	nonce   int
	dead    bool // a reply timed out or the framing broke: nothing sensible can be read any more
}

// tok is one RESP token (an array header is a token of its own: handlers write it separately)
type tok struct {
	kind byte // + - : $ * (N = null bulk, n = null array)
	text string
	n    int64
}

func readLine(r *bufio.Reader) (string, error) {
	s, err := r.ReadString('\n')
	if err != nil {
		return "", err
	}
	if len(s) < 2 || s[len(s)-2] != '\r' {
		return "", fmt.Errorf("line without CRLF: %q", s)
	}
	return s[:len(s)-2], nil
}

func readTok(r *bufio.Reader) (tok, error) {
	b, err := r.ReadByte()
	if err != nil {
		return tok{}, err
	}
	line, err := readLine(r)
	if err != nil {
		return tok{}, err
	}
	switch b {
	case '+', '-':
		return tok{kind: b, text: line}, nil
	case ':':
		n, err := strconv.ParseInt(line, 10, 64)
		if err != nil {
			return tok{}, fmt.Errorf("bad integer %q", line)
		}
		return tok{kind: ':', n: n}, nil
	case '$':
		n, err := strconv.ParseInt(line, 10, 64)
		if err != nil {
			return tok{}, fmt.Errorf("bad bulk length %q", line)
		}
		if n < 0 {
			return tok{kind: 'N'}, nil
		}
		buf := make([]byte, n+2)
		if _, err := readFull(r, buf); err != nil {
			return tok{}, err
		}
		if buf[n] != '\r' || buf[n+1] != '\n' {
			return tok{}, fmt.Errorf("bulk of %d bytes not followed by CRLF", n)
		}
		return tok{kind: '$', text: string(buf[:n])}, nil
	case '*':
		n, err := strconv.ParseInt(line, 10, 64)
		if err != nil {
			return tok{}, fmt.Errorf("bad array length %q", line)
		}
		if n < 0 {
			return tok{kind: 'n'}, nil
		}
		return tok{kind: '*', n: n}, nil
	}
	return tok{}, fmt.Errorf("unknown RESP type byte %q", b)
}

func readFull(r *bufio.Reader, buf []byte) (int, error) {
	n := 0
	for n < len(buf) {
		k, err := r.Read(buf[n:])
		n += k
		if err != nil {
			return n, err
		}
	}
	return n, nil
}

func (t tok) String() string {
	switch t.kind {
	case '+':
		return "+" + toHex([]byte(t.text))
	case '-':
		switch {
		case strings.HasPrefix(t.text, "WRONGTYPE"):
			return "-W"
		case strings.HasPrefix(t.text, "EXECABORT"):
			return "-X"
		}
		return "-E"
	case ':':
		return ":" + strconv.FormatInt(t.n, 10)
	case '$':
		return "$" + showBytes([]byte(t.text))
	case 'N':
		return "$N"
	case 'n':
		return "*N"
	case '*':
		return "*" + strconv.FormatInt(t.n, 10)
	}
	return "?"
}

// treeSize returns how many tokens the value starting at toks[i] spans, or -1 if incomplete.
func treeSize(toks []tok, i int) int {
	if i >= len(toks) {
		return -1
	}
	if toks[i].kind != '*' {
		return 1
	}
	n := 1
	for k := int64(0); k < toks[i].n; k++ {
		s := treeSize(toks, i+n)
		if s < 0 {
			return -1
		}
		n += s
	}
	return n
}

func encodeCommand(args [][]byte) []byte {
	var b []byte
	b = append(b, '*')
	b = strconv.AppendInt(b, int64(len(args)), 10)
	b = append(b, '\r', '\n')
	for _, a := range args {
		b = append(b, '$')
		b = strconv.AppendInt(b, int64(len(a)), 10)
		b = append(b, '\r', '\n')
		b = append(b, a...)
		b = append(b, '\r', '\n')
	}
	return b
}

// commands whose reply order comes out of a Go map: pairs are sorted before comparison
var pairSorted = map[string]int{"HGETALL": 0, "HSCAN": 2} // index of the token where the pair list header sits

// infoTail cuts INFO's text down to what is compared with the model: the `# Keyspace` section up to the
// average TTL (everything before it - process id, memory, clients - varies from run to run and must only
// have the expected section structure; the average TTL depends on the server's own reading of the clock)
func infoTail(text string) string {
	i := strings.Index(text, "# Keyspace\r\n")
	if i < 0 || !strings.HasPrefix(text, "# Server\r\n") || !strings.Contains(text[:i], "\r\n# Memory\r\n") || !strings.Contains(text[:i], "\r\n# Client\r\n") {
		return "!INFO-SHAPE " + text
	}
	tail := text[i:]
	if j := strings.Index(tail, ",avg_ttl="); j >= 0 {
		tail = tail[:j]
	}
	return tail
}

// clientAddr replaces the peer address of CLIENT LIST by `?`
func clientAddr(text string) string {
	i := strings.Index(text, " addr=")
	if i < 0 {
		return text
	}
	j := strings.Index(text[i+6:], " ")
	if j < 0 {
		return text
	}
	return text[:i+6] + "?" + text[i+6+j:]
}

func canonical(name string, toks []tok) []string {
	if name == "INFO" && len(toks) == 1 && toks[0].kind == '$' {
		toks = []tok{{kind: '$', text: infoTail(toks[0].text)}}
	}
	if name == "CLIENT" && len(toks) == 1 && toks[0].kind == '+' {
		toks = []tok{{kind: '+', text: clientAddr(toks[0].text)}}
	}
	out := make([]string, len(toks))
	for i, t := range toks {
		out[i] = t.String()
	}
	if at, ok := pairSorted[name]; ok && at < len(toks) && toks[at].kind == '*' && treeSize(toks, 0) == len(toks) {
		body := out[at+1:]
		var pairs []string
		for i := 0; i+1 < len(body); i += 2 {
			pairs = append(pairs, body[i]+" "+body[i+1])
		}
		sort.Strings(pairs)
		out = append(out[:at+1:at+1], strings.Fields(strings.Join(pairs, " "))...)
	}
	return out
}

func (st *state) serve() string {
	in := st.cur()
	if in.addr != "" {
		return "ok"
	}
	l, err := net.Listen("tcp", "127.0.0.1:0")
	if err != nil {
		return "E"
	}
	addr := l.Addr().String()
	l.Close()
	go func() { _ = in.n.Serve(addr) }()
	for i := 0; i < 200; i++ {
		c, err := net.Dial("tcp", addr)
		if err == nil {
			c.Close()
			in.addr = addr
			return "ok"
		}
		time.Sleep(time.Millisecond)
	}
	return "E"
}

func (st *state) connect(id string) string {
	in := st.cur()
	if in.addr == "" {
		if r := st.serve(); r != "ok" {
			return r
		}
	}
	c, err := net.Dial("tcp", in.addr)
	if err != nil {
		return "E"
	}
	st.clients[id] = &client{c: c, r: bufio.NewReaderSize(c, 1<<16)}
	return "ok"
}

// resp <conn> <name> <args...>: one command, one reply (token stream), framing checked with a
// pipelined ECHO marker when the connection is not inside MULTI.
func (st *state) respOp(toks []string) (string, string) {
	cl := st.clients[toks[1]]
	if cl == nil {
		return "bad-op", ""
	}
	now := time.Now().UnixMilli()
	if cl.dead {
		return "!DEAD", fmt.Sprintf(" now=%d", now)
	}
	args := mustArgs(toks[2:])
	name := strings.ToUpper(string(args[0]))
	payload := encodeCommand(args)
	useMarker := !cl.inMulti && name != "MULTI" && name != "QUIT"
	var marker string
	if useMarker {
		cl.nonce++
		marker = fmt.Sprintf("~m%d~", cl.nonce)
		payload = append(payload, encodeCommand([][]byte{[]byte("ECHO"), []byte(marker)})...)
	}
	cl.c.SetDeadline(time.Now().Add(5 * time.Second))
	if _, err := cl.c.Write(payload); err != nil {
		return "CLOSED", fmt.Sprintf(" now=%d", now)
	}
	var got []tok
	for {
		t, err := readTok(cl.r)
		if err != nil {
			cl.dead = true
			cl.c.Close()
			return strings.Join(canonical(name, got), " ") + " !" + errKind(err), fmt.Sprintf(" now=%d", now)
		}
		if useMarker {
			if t.kind == '$' && t.text == marker {
				break
			}
			got = append(got, t)
			if len(got) > 100000 {
				return "!RUNAWAY", fmt.Sprintf(" now=%d", now)
			}
			continue
		}
		got = append(got, t)
		if treeSize(got, 0) == len(got) {
			break
		}
	}
	if name == "MULTI" && len(got) == 1 && got[0].kind == '+' {
		cl.inMulti = true
	}
	if name == "EXEC" || name == "DISCARD" {
		cl.inMulti = false
	}
	annot := fmt.Sprintf(" now=%d", now)
	if relationalResp[name] {
		var cs []string
		for _, t := range got {
			if t.kind == '$' {
				cs = append(cs, toHex([]byte(t.text)))
			}
		}
		annot += " choice=" + strings.Join(cs, ",")
	}
	return strings.Join(canonical(name, got), " "), annot
}

var relationalResp = map[string]bool{"SPOP": true, "SRANDMEMBER": true, "RANDOMKEY": true,
	"GEOPOS": true, "GEODIST": true, "GEORADIUS": true, "GEORADIUSBYMEMBER": true}

func errKind(err error) string {
	if ne, ok := err.(net.Error); ok && ne.Timeout() {
		return "TIMEOUT"
	}
	if strings.Contains(err.Error(), "EOF") || strings.Contains(err.Error(), "reset") || strings.Contains(err.Error(), "closed") {
		return "CLOSED"
	}
	return "BADFRAME(" + err.Error() + ")"
}

// scanall <conn> <name> <args with the cursor written as "CUR">: follow the cursor from 0 until 0 comes
// back (or 5000 calls) and report how many calls it took and what was returned in total
func (st *state) scanAll(toks []string) (string, string) {
	cl := st.clients[toks[1]]
	if cl == nil {
		return "bad-op", ""
	}
	now := time.Now().UnixMilli()
	cursor := "0"
	calls := 0
	var elems []string
	for {
		calls++
		var args [][]byte
		for _, t := range toks[2:] {
			if t == "CUR" {
				args = append(args, []byte(cursor))
				continue
			}
			b, err := parseArg(t)
			if err != nil {
				return "bad-op", ""
			}
			args = append(args, b)
		}
		cl.c.SetDeadline(time.Now().Add(5 * time.Second))
		if _, err := cl.c.Write(encodeCommand(args)); err != nil {
			return "CLOSED", fmt.Sprintf(" now=%d", now)
		}
		var got []tok
		for {
			t, err := readTok(cl.r)
			if err != nil {
				return fmt.Sprintf("calls=%d !%s", calls, errKind(err)), fmt.Sprintf(" now=%d", now)
			}
			got = append(got, t)
			if treeSize(got, 0) == len(got) {
				break
			}
		}
		if len(got) < 3 || got[0].kind != '*' || got[0].n != 2 || got[1].kind != '$' || got[2].kind != '*' {
			strs := make([]string, len(got))
			for i, t := range got {
				strs[i] = t.String()
			}
			return fmt.Sprintf("calls=%d !SHAPE %s", calls, strings.Join(strs, " ")), fmt.Sprintf(" now=%d", now)
		}
		for _, t := range got[3:] {
			if t.kind == '$' {
				elems = append(elems, toHex([]byte(t.text)))
			}
		}
		cursor = got[1].text
		if cursor == "0" || calls >= 5000 {
			break
		}
	}
	sort.Strings(elems)
	return fmt.Sprintf("calls=%d n=%d last=%s elems=%s", calls, len(elems), cursor, compact(strings.Join(elems, ","))), fmt.Sprintf(" now=%d", now)
}
