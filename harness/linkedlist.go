package main

import (
	"fmt"
	"strconv"
	"strings"

	"github.com/diiyw/nodis/ds/list"
)

// Operations on a bare list.LinkedList (work package "pointer structure", C02): every method of
// linked_list.go, followed by the canonical dump of the whole pointer structure.
//
//	ll new | LPush a b… | RPush a b… | LPop n | RPop n | LRange a b | LLen | Size | LIndex i |
//	   LInsert pivot data 0|1 | LRem count value | LSet i v | LTrim a b | GetValue | SetValue bytes
//
// Output: "<reply> | len=<length field> fwd=<data from head> bwd=<data from tail> hp=<head.prev nil> tn=<tail.next nil>"
var bareList *list.LinkedList

func joinShown(items [][]byte) string {
	parts := make([]string, len(items))
	for i, it := range items {
		parts[i] = showBytes(it)
	}
	return strings.Join(parts, ",")
}

func llDump(l *list.LinkedList) string {
	length, fwd, bwd, hp, tn, fl, bl := l.VerifDump()
	f, b := joinShown(fwd), joinShown(bwd)
	if fl {
		f = "LOOP"
	}
	if bl {
		b = "LOOP"
	}
	return compact(fmt.Sprintf("len=%d fwd=%s bwd=%s hp=%s tn=%s", length, f, b, hp, tn))
}

func llOp(toks []string) (out string) {
	if bareList == nil || (len(toks) > 1 && toks[1] == "new") {
		bareList = list.NewLinkedList()
	}
	l := bareList
	defer func() {
		if r := recover(); r != nil {
			out = "PANIC | " + llDump(l)
		}
	}()
	if len(toks) < 2 {
		return "bad-op"
	}
	i64 := func(s string) int64 { v, _ := strconv.ParseInt(s, 10, 64); return v }
	need := func(n int) bool { return len(toks) == 2+n }
	reply := ""
	switch toks[1] {
	case "new":
		reply = "ok"
	case "LPush":
		l.LPush(mustArgs(toks[2:])...)
		reply = "ok"
	case "RPush":
		l.RPush(mustArgs(toks[2:])...)
		reply = "ok"
	case "LPop", "RPop":
		if !need(1) {
			return "bad-op"
		}
		var r [][]byte
		if toks[1] == "LPop" {
			r = l.LPop(i64(toks[2]))
		} else {
			r = l.RPop(i64(toks[2]))
		}
		if r == nil {
			reply = "nil"
		} else {
			reply = "[" + joinShown(r) + "]"
		}
	case "LRange":
		if !need(2) {
			return "bad-op"
		}
		reply = "[" + joinShown(l.LRange(i64(toks[2]), i64(toks[3]))) + "]"
	case "LLen":
		reply = strconv.FormatInt(l.LLen(), 10)
	case "Size":
		reply = strconv.FormatInt(l.VerifSize(), 10)
	case "LIndex":
		if !need(1) {
			return "bad-op"
		}
		r := l.LIndex(i64(toks[2]))
		if r == nil {
			reply = "nil"
		} else {
			reply = showBytes(r)
		}
	case "LInsert":
		if !need(3) {
			return "bad-op"
		}
		a := mustArgs(toks[2:4])
		reply = strconv.FormatInt(l.LInsert(a[0], a[1], toks[4] == "1"), 10)
	case "LRem":
		if !need(2) {
			return "bad-op"
		}
		reply = strconv.FormatInt(l.LRem(i64(toks[2]), mustArgs(toks[3:4])[0]), 10)
	case "LSet":
		if !need(2) {
			return "bad-op"
		}
		reply = strconv.FormatBool(l.LSet(i64(toks[2]), mustArgs(toks[3:4])[0]))
	case "LTrim":
		if !need(2) {
			return "bad-op"
		}
		l.LTrim(i64(toks[2]), i64(toks[3]))
		reply = "ok"
	case "GetValue":
		reply = showBytes(l.GetValue())
	case "SetValue":
		if !need(1) {
			return "bad-op"
		}
		l.SetValue(mustArgs(toks[2:3])[0])
		reply = "ok"
	default:
		return "bad-op"
	}
	return compact(reply) + " | " + llDump(l)
}
