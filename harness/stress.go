package main

import (
	"bufio"
	"fmt"
	"math/rand"
	"net"
	"os"
	"runtime"
	"sort"
	"strconv"
	"strings"
	"sync"
	"sync/atomic"
	"time"

	"github.com/diiyw/nodis"
	"github.com/diiyw/nodis/redis"
	"github.com/diiyw/nodis/storage"
)

// stress <scenario> <seed> <rounds> <widen>: concurrent scenarios on the real code with invariants
// that every linearizable execution satisfies. `widen` > 0 makes verifPoint sleep a random few
// microseconds at the marked race windows (lookup -> lock, before publish, pop -> register) with
// that probability in percent, so that nanosecond windows are actually hit.
//
// Each scenario prints one line: "ok <stats>" or "FAIL <what>"; a watchdog turns a hang into
// "HANG <goroutine summary>".

type scenario func(n *nodis.Nodis, r *rand.Rand, rounds int) string

// traceWiden: percentage of eviction-pass steps that are delayed between their look at a record and
// its lock while a trace is being recorded
var traceWiden int32

// progress is bumped at every marked point of the locking protocol: a run is hung when it stops
// moving, not when it is slow
var progress uint64

func withWatchdog(d time.Duration, f func() string) string {
	done := make(chan string, 1)
	go func() { done <- f() }()
	last := atomic.LoadUint64(&progress)
	for {
		select {
		case s := <-done:
			return s
		case <-time.After(d):
		}
		if now := atomic.LoadUint64(&progress); now != last {
			last = now
			continue
		}
		break
	}
	{
		buf := make([]byte, 1<<20)
		n := runtime.Stack(buf, true)
		dump := string(buf[:n])
		// summarise: which nodis functions are goroutines blocked in
		var where []string
		for _, g := range strings.Split(dump, "\n\n") {
			if strings.Contains(g, "nodis.") && (strings.Contains(g, "semacquire") || strings.Contains(g, "sync.") || strings.Contains(g, "chan ")) {
				for _, l := range strings.Split(g, "\n") {
					if strings.Contains(l, "github.com/diiyw/nodis.(") {
						where = append(where, strings.TrimSpace(strings.Split(l, "(0x")[0]))
						break
					}
				}
			}
		}
		sort.Strings(where)
		os.WriteFile(hangDumpPath(), buf[:n], 0o644)
		return "HANG " + strings.Join(uniq(where), ",")
	}
}

func uniq(xs []string) []string {
	var out []string
	for i, x := range xs {
		if i == 0 || x != xs[i-1] {
			out = append(out, x)
		}
	}
	return out
}

func par(k int, f func(i int)) {
	var wg sync.WaitGroup
	for i := 0; i < k; i++ {
		wg.Add(1)
		go func(i int) {
			defer wg.Done()
			f(i)
		}(i)
	}
	wg.Wait()
}

// N concurrent increments of a fresh key add exactly N (also while the key is being created)
func scIncrFresh(n *nodis.Nodis, r *rand.Rand, rounds int) string {
	for round := 0; round < rounds; round++ {
		key := fmt.Sprintf("c%d", round)
		const workers, each = 8, 5
		par(workers, func(int) {
			for j := 0; j < each; j++ {
				n.Incr(key)
			}
		})
		got := string(n.Get(key))
		if got != strconv.Itoa(workers*each) {
			return fmt.Sprintf("FAIL lost update: %d concurrent INCRs of a fresh key left %q (round %d)", workers*each, got, round)
		}
	}
	return fmt.Sprintf("ok rounds=%d", rounds)
}

// N concurrent pushes to a fresh list leave N elements; pops hand out each element once
func scPushPop(n *nodis.Nodis, r *rand.Rand, rounds int) string {
	for round := 0; round < rounds; round++ {
		key := fmt.Sprintf("l%d", round)
		const workers, each = 6, 6
		par(workers, func(w int) {
			for j := 0; j < each; j++ {
				n.RPush(key, []byte(fmt.Sprintf("%d-%d", w, j)))
			}
		})
		if l := n.LLen(key); l != workers*each {
			return fmt.Sprintf("FAIL lost push: %d concurrent RPUSHes to a fresh list left %d elements (round %d)", workers*each, l, round)
		}
		var mu sync.Mutex
		seen := map[string]int{}
		par(workers, func(int) {
			for {
				v := n.LPop(key, 1)
				if len(v) == 0 {
					return
				}
				mu.Lock()
				seen[string(v[0])]++
				mu.Unlock()
			}
		})
		if len(seen) != workers*each {
			return fmt.Sprintf("FAIL pops returned %d distinct elements of %d (round %d)", len(seen), workers*each, round)
		}
		for k, c := range seen {
			if c != 1 {
				return fmt.Sprintf("FAIL element %s handed to %d poppers (round %d)", k, c, round)
			}
		}
	}
	return fmt.Sprintf("ok rounds=%d", rounds)
}

// pushes racing with pops that empty (and thereby unlink) the list: every acknowledged push is
// either popped exactly once or still in the list
func scPushVsEmpty(n *nodis.Nodis, r *rand.Rand, rounds int) string {
	for round := 0; round < rounds; round++ {
		key := fmt.Sprintf("e%d", round)
		const pushers, each = 4, 20
		var popped sync.Map
		var nPopped int64
		stop := make(chan struct{})
		var wg sync.WaitGroup
		for p := 0; p < 3; p++ {
			wg.Add(1)
			go func() {
				defer wg.Done()
				for {
					v := n.LPop(key, 1)
					if len(v) > 0 {
						if _, dup := popped.LoadOrStore(string(v[0]), true); dup {
							atomic.AddInt64(&nPopped, 1<<32)
						}
						atomic.AddInt64(&nPopped, 1)
						continue
					}
					select {
					case <-stop:
						return
					default:
						runtime.Gosched()
					}
				}
			}()
		}
		par(pushers, func(w int) {
			for j := 0; j < each; j++ {
				n.RPush(key, []byte(fmt.Sprintf("%d-%d", w, j)))
			}
		})
		close(stop)
		wg.Wait()
		rest := n.LRange(key, 0, -1)
		total := int(nPopped&0xffffffff) + len(rest)
		if nPopped>>32 != 0 {
			return fmt.Sprintf("FAIL an element was popped twice (round %d)", round)
		}
		if total != pushers*each {
			return fmt.Sprintf("FAIL %d acknowledged pushes, but %d popped + %d remaining (round %d): elements lost while the list was being emptied", pushers*each, nPopped&0xffffffff, len(rest), round)
		}
	}
	return fmt.Sprintf("ok rounds=%d", rounds)
}

// SET/DEL/INCR churn on one key while others read it: no panic, no hang; final INCR count consistent
func scCreateDelete(n *nodis.Nodis, r *rand.Rand, rounds int) string {
	for round := 0; round < rounds; round++ {
		key := fmt.Sprintf("d%d", round)
		var incs, dels int64
		par(8, func(w int) {
			rr := rand.New(rand.NewSource(int64(round*100 + w)))
			for j := 0; j < 30; j++ {
				switch rr.Intn(4) {
				case 0:
					if n.Del(key) == 1 {
						atomic.AddInt64(&dels, 1)
					}
				case 1:
					n.Get(key)
				default:
					if _, err := n.Incr(key); err == nil {
						atomic.AddInt64(&incs, 1)
					}
				}
			}
		})
		v, _ := strconv.Atoi(string(n.Get(key)))
		if int64(v) > incs || v < 0 {
			return fmt.Sprintf("FAIL counter %d after %d increments (round %d)", v, incs, round)
		}
	}
	return fmt.Sprintf("ok rounds=%d", rounds)
}

// SMOVE between two sets while observers count: the member is never in both or in neither
func scSMove(n *nodis.Nodis, r *rand.Rand, rounds int) string {
	for round := 0; round < rounds; round++ {
		a, b := fmt.Sprintf("sa%d", round), fmt.Sprintf("sb%d", round)
		n.SAdd(a, "m", "keepA")
		n.SAdd(b, "keepB")
		var bad atomic.Value
		stop := make(chan struct{})
		var wg sync.WaitGroup
		for o := 0; o < 3; o++ {
			wg.Add(1)
			go func() {
				defer wg.Done()
				for {
					select {
					case <-stop:
						return
					default:
					}
					// one atomic read of both sets
					u := n.SUnion(a, b)
					cnt := 0
					for _, x := range u {
						if x == "m" {
							cnt++
						}
					}
					if cnt != 1 {
						bad.Store(fmt.Sprintf("SUNION of source and destination saw the moved member %d times", cnt))
						return
					}
				}
			}()
		}
		for j := 0; j < 40; j++ {
			n.SMove(a, b, "m")
			n.SMove(b, a, "m")
		}
		close(stop)
		wg.Wait()
		if s := bad.Load(); s != nil {
			return fmt.Sprintf("FAIL %s (round %d)", s, round)
		}
		if c := n.SCard(a) + n.SCard(b); c != 3 {
			return fmt.Sprintf("FAIL moves did not conserve elements: %d of 3 (round %d)", c, round)
		}
	}
	return fmt.Sprintf("ok rounds=%d", rounds)
}

// RPOPLPUSH between two lists in both directions by several workers: the multiset is conserved
func scRotate(n *nodis.Nodis, r *rand.Rand, rounds int) string {
	for round := 0; round < rounds; round++ {
		a, b := fmt.Sprintf("ra%d", round), fmt.Sprintf("rb%d", round)
		for i := 0; i < 6; i++ {
			n.RPush(a, []byte{byte('a' + i)})
			n.RPush(b, []byte{byte('A' + i)})
		}
		par(6, func(w int) {
			for j := 0; j < 30; j++ {
				if (w+j)%2 == 0 {
					n.RPopLPush(a, b)
				} else {
					n.RPopLPush(b, a)
				}
			}
		})
		all := append(n.LRange(a, 0, -1), n.LRange(b, 0, -1)...)
		var ss []string
		for _, x := range all {
			ss = append(ss, string(x))
		}
		sort.Strings(ss)
		if strings.Join(ss, "") != "ABCDEFabcdef" {
			return fmt.Sprintf("FAIL rotation did not conserve the elements: %v (round %d)", ss, round)
		}
	}
	return fmt.Sprintf("ok rounds=%d", rounds)
}

// RENAME back and forth while observers look at both names: exactly one exists
func scRename(n *nodis.Nodis, r *rand.Rand, rounds int) string {
	for round := 0; round < rounds; round++ {
		a, b := fmt.Sprintf("na%d", round), fmt.Sprintf("nb%d", round)
		n.Set(a, []byte("v"), false)
		var bad atomic.Value
		stop := make(chan struct{})
		var wg sync.WaitGroup
		for o := 0; o < 3; o++ {
			wg.Add(1)
			go func() {
				defer wg.Done()
				for {
					select {
					case <-stop:
						return
					default:
					}
					if c := n.Exists(a, b); c != 1 {
						bad.Store(fmt.Sprintf("EXISTS old new = %d during RENAME", c))
						return
					}
				}
			}()
		}
		for j := 0; j < 40; j++ {
			n.Rename(a, b)
			n.Rename(b, a)
		}
		close(stop)
		wg.Wait()
		if s := bad.Load(); s != nil {
			return fmt.Sprintf("FAIL %s (round %d)", s, round)
		}
	}
	return fmt.Sprintf("ok rounds=%d", rounds)
}

// opposite lock orders, self-aliasing, eviction passes and flushes concurrently: everything completes
func scMix(n *nodis.Nodis, r *rand.Rand, rounds int) string {
	n.Set("x", []byte("1"), false)
	n.Set("y", []byte("2"), false)
	n.RPush("p", []byte("a"), []byte("b"))
	n.RPush("q", []byte("c"))
	n.SAdd("s1", "m")
	n.SAdd("s2", "k")
	n.ZAdd("z1", "m", 1)
	var ops int64
	par(10, func(w int) {
		rr := rand.New(rand.NewSource(int64(w) + r.Int63()))
		for j := 0; j < rounds; j++ {
			switch rr.Intn(18) {
			case 0:
				n.Rename("x", "y")
			case 1:
				n.Rename("y", "x")
			case 2:
				n.RPopLPush("p", "q")
			case 3:
				n.RPopLPush("q", "p")
			case 4:
				n.RPopLPush("p", "p")
			case 5:
				n.SMove("s1", "s2", "m")
			case 6:
				n.SMove("s2", "s1", "m")
			case 7:
				n.VerifGC()
			case 8:
				n.VerifFlush()
			case 9:
				n.Del("x", "y")
				n.Set("x", []byte("1"), false)
			case 10:
				n.ZUnionStore("z1", []string{"z1", "z1"}, nil, "")
			case 11:
				n.Keys("*")
			case 12:
				n.Scan(0, "*", 10, 0)
			case 13:
				n.SInterStore("s1", "s1", "s2")
				n.SAdd("s1", "m")
			case 14:
				n.Expire("x", 100)
			case 15:
				// keyspace readers against keys with a deadline that come and go
				switch rr.Intn(5) {
				case 0:
					n.RandomKey()
				case 1:
					n.SetEX("tt", []byte("v"), 100)
				case 2:
					n.Del("tt")
				case 3:
					n.Keyspace()
				default:
					n.Rename("tt", "tu")
					n.Del("tu")
				}
			default:
				n.RPush("p", []byte("z"))
				n.LPop("p", 1)
			}
			atomic.AddInt64(&ops, 1)
		}
	})
	return fmt.Sprintf("ok ops=%d", ops)
}

// a key whose deadline has passed but which has not been collected yet is re-created by N
// concurrent INCRs while eviction passes run: the counter ends at N
func scExpiredRecreate(n *nodis.Nodis, r *rand.Rand, rounds int) string {
	stop := make(chan struct{})
	var wg sync.WaitGroup
	for g := 0; g < 3; g++ {
		wg.Add(1)
		go func() {
			defer wg.Done()
			for {
				select {
				case <-stop:
					return
				default:
					n.VerifGC()
				}
			}
		}()
	}
	defer func() { close(stop); wg.Wait() }()
	for round := 0; round < rounds; round++ {
		const keys, workers = 6, 8
		for k := 0; k < keys; k++ {
			n.SetPX(fmt.Sprintf("x%d-%d", round, k), []byte("100"), 1)
		}
		time.Sleep(2 * time.Millisecond)
		var bad atomic.Value
		par(workers, func(w int) {
			for k := 0; k < keys; k++ {
				key := fmt.Sprintf("x%d-%d", round, (k+w)%keys)
				if _, err := n.Incr(key); err != nil {
					bad.Store(fmt.Sprintf("INCR %s: %v", key, err))
				}
			}
		})
		if s := bad.Load(); s != nil {
			return fmt.Sprintf("FAIL %s (round %d)", s, round)
		}
		for k := 0; k < keys; k++ {
			key := fmt.Sprintf("x%d-%d", round, k)
			if got := string(n.Get(key)); got != strconv.Itoa(workers) {
				return fmt.Sprintf("FAIL %d concurrent INCRs re-created the expired key %s while eviction passes were running; GET returned %q, EXISTS = %d (round %d): acknowledged updates were lost", workers, key, got, n.Exists(key), round)
			}
			n.Del(key)
		}
	}
	return fmt.Sprintf("ok rounds=%d", rounds)
}

var scenarios = map[string]scenario{
	"incr-fresh": scIncrFresh, "push-pop": scPushPop, "push-vs-empty": scPushVsEmpty, "create-delete": scCreateDelete,
	"expired-recreate": scExpiredRecreate, "smove": scSMove, "rotate": scRotate, "rename": scRename, "mix": scMix,
}

func stressOp(toks []string) string {
	name := toks[1]
	seed, _ := strconv.ParseInt(toks[2], 10, 64)
	rounds, _ := strconv.Atoi(toks[3])
	widen, _ := strconv.Atoi(toks[4])
	sc, ok := scenarios[name]
	if !ok {
		return "bad-op"
	}
	r := rand.New(rand.NewSource(seed))
	var ctr uint64
	nodis.VerifPointHook = func(id string) {
		atomic.AddUint64(&progress, 1)
		if widen == 0 {
			return
		}
		c := atomic.AddUint64(&ctr, 0x9E3779B97F4A7C15)
		if int(c>>33)%100 < widen {
			time.Sleep(time.Duration(1+(c>>40)%40) * time.Microsecond)
		} else {
			runtime.Gosched()
		}
	}
	n := nodis.Open(&nodis.Options{Storage: storage.NewMemory()})
	return withWatchdog(10*time.Second, func() (res string) {
		defer func() {
			if rec := recover(); rec != nil {
				res = fmt.Sprintf("FAIL panic: %v", rec)
			}
		}()
		return sc(n, r, rounds)
	})
}

// ---- protocol trace ----------------------------------------------------------------------------
// With `ptrace` scenarios the harness records every step reported by nodis.VerifTraceHook, maps
// transaction and record pointers to small numbers, synthesizes begin/commit/fin for the
// one-record mini transactions of eviction, flush and SCAN, and writes the trace as `pev` lines:
// the Lean protocol model must accept every one of them.

type tracer struct {
	full          int32
	mu            sync.Mutex
	lines         []string
	txIDs         map[any]int
	recIDs        map[any]int
	recName       map[int]string
	nextTx        int
	nextRec       int
	waiters       map[any]int             // channel of a blocking pop -> waiter number
	returned      map[int]bool            // waiters whose call has produced its result
	regKeys       map[int]map[string]bool // waiter -> keys it is registered for
	notified      map[int]int             // waiter -> wake-ups offered so far
	pushIds       map[any]int             // wake-up round in progress -> its thread id in the `bpp` lines
	pushes        map[any]map[int]int     // wake-up round in progress -> waiters registered at its start, with their counters
	pushViolation string
	served        map[uint64]bool // goroutines that have been reported as serving a connection
	mini          map[any]*miniTx // who (a *int64) -> state of the mini transaction
	miniRec       map[int]any     // record -> mini transaction currently holding it in w mode
}

type miniTx struct {
	id    int
	valid bool
}

func newTracer() *tracer {
	return &tracer{served: map[uint64]bool{}, txIDs: map[any]int{}, recIDs: map[any]int{}, recName: map[int]string{}, mini: map[any]*miniTx{}, miniRec: map[int]any{}, waiters: map[any]int{}, returned: map[int]bool{}, regKeys: map[int]map[string]bool{}, notified: map[int]int{}, pushes: map[any]map[int]int{}, pushIds: map[any]int{}}
}

func kx(key string) string { return fmt.Sprintf("k%x", key) }

func (tr *tracer) emit(format string, a ...any) {
	tr.lines = append(tr.lines, "pev "+fmt.Sprintf(format, a...))
}

func (tr *tracer) rec(m any, fresh bool) int {
	if id, ok := tr.recIDs[m]; ok && !fresh {
		return id
	}
	tr.nextRec++
	tr.recIDs[m] = tr.nextRec
	return tr.nextRec
}

func isNilRec(m any) bool { return m == nil || fmt.Sprintf("%p", m) == "0x0" }

func mode(w bool) string {
	if w {
		return "w"
	}
	return "r"
}

// maxTraceEvents bounds the recorded trace (a prefix of a run of the protocol is a run of the
// protocol, so a truncated trace is still validated soundly)
const maxTraceEvents = 1500000

func (tr *tracer) hook(ev string, who any, key string, m any, flag bool) {
	atomic.AddUint64(&progress, 1)
	if atomic.LoadInt32(&tr.full) != 0 {
		return
	}
	tr.mu.Lock()
	defer tr.mu.Unlock()
	if len(tr.lines) >= maxTraceEvents {
		atomic.StoreInt32(&tr.full, 1)
		return
	}
	if ev == "clear" {
		tr.emit("clear")
		return
	}
	if ev == "bp-push" {
		// a push's wake-up round: every waiter that is registered for the key when the round
		// begins (the set cannot change during the round: the waiters lock is held) must have
		// been offered a wake-up when it ends. Checked here, on the implementation's own report.
		if flag {
			snap := map[int]int{}
			for w, ks := range tr.regKeys {
				if ks[key] {
					snap[w] = tr.notified[w]
				}
			}
			tr.pushes[who] = snap
			// the round as a thread of the program model (Model/BlockProg.lean; `bpp` lines)
			tr.nextTx++
			tr.pushIds[who] = tr.nextTx
			tr.lines = append(tr.lines, fmt.Sprintf("bpp b %d %s", tr.nextTx, kx(key)))
		} else {
			tr.lines = append(tr.lines, fmt.Sprintf("bpp e %d %s", tr.pushIds[who], kx(key)))
			delete(tr.pushIds, who)
			for w, before := range tr.pushes[who] {
				if tr.regKeys[w][key] && tr.notified[w] == before && tr.pushViolation == "" {
					tr.pushViolation = fmt.Sprintf("a push to %q ended its wake-up round without offering a wake-up to waiter %d, which is registered for that key", key, w)
				}
			}
			delete(tr.pushes, who)
		}
		return
	}
	switch ev {
	case "gate-in", "gate-out", "gate-serve", "exec-check", "exec-run", "signal":
		// the gate that makes EXEC exclusive: a third model (`gev` lines), keyed by goroutine
		g := goid()
		if _, isConn := who.(*redis.Conn); isConn && !tr.served[g] {
			tr.served[g] = true
			tr.lines = append(tr.lines, fmt.Sprintf("gev serve %d", g))
		}
		switch ev {
		case "gate-in":
			tr.lines = append(tr.lines, fmt.Sprintf("gev gin %d %s", g, key))
		case "gate-out":
			tr.lines = append(tr.lines, fmt.Sprintf("gev gout %d", g))
		case "exec-check":
			tr.lines = append(tr.lines, fmt.Sprintf("gev chk %d", g))
		case "exec-run":
			tr.lines = append(tr.lines, fmt.Sprintf("gev run %d", g))
		case "signal":
			tr.lines = append(tr.lines, fmt.Sprintf("gev sig %d", g))
		}
		// for the replay against the program model (Model/GateProg.lean): the connection's transaction state and
		// queue length at the hook sites of the Serve closure and of EXEC's loop (read on the connection's own
		// goroutine, which is the only one that writes them)
		if c, isConn := who.(*redis.Conn); isConn {
			site := map[string]string{"gate-in": "in", "gate-out": "out", "gate-serve": "serve", "exec-run": "run"}[ev]
			if site != "" {
				tr.lines = append(tr.lines, fmt.Sprintf("gpc %d %s %d %d", g, site, c.State, len(c.Commands)))
			}
		}
		return
	}
	if strings.HasPrefix(ev, "bp-") {
		// wake-up protocol of the blocking pops: a separate model (`bev` lines)
		w, ok := tr.waiters[who]
		if !ok {
			tr.nextTx++
			w = tr.nextTx
			tr.waiters[who] = w
		}
		line := ""
		switch ev {
		case "bp-unreg":
			// the deferred clean-up: when the call has not returned an element or null, a pop
			// attempt panicked (a key of another type) and the call is unwinding
			if !tr.returned[w] {
				tr.returned[w] = true
				tr.lines = append(tr.lines, fmt.Sprintf("bev abort %d", w))
			}
			delete(tr.regKeys[w], key)
			line = fmt.Sprintf("bev unreg %d %s", w, kx(key))
		case "bp-reg", "bp-notify":
			if ev == "bp-reg" {
				if tr.regKeys[w] == nil {
					tr.regKeys[w] = map[string]bool{}
				}
				tr.regKeys[w][key] = true
			} else {
				tr.notified[w]++
			}
			line = fmt.Sprintf("bev %s %d %s", ev[3:], w, kx(key))
		case "bp-try":
			if flag {
				tr.returned[w] = true
			}
			line = fmt.Sprintf("bev try %d %s %s", w, kx(key), b01(flag))
		case "bp-block":
			line = fmt.Sprintf("bev block %d %s", w, b01(flag))
		case "bp-wake", "bp-timeout":
			if ev == "bp-timeout" {
				tr.returned[w] = true
			}
			line = fmt.Sprintf("bev %s %d", ev[3:], w)
		}
		tr.lines = append(tr.lines, line)
		return
	}
	if ev == "current" {
		// validation by the mini transaction that holds this record
		r := tr.rec(m, false)
		if w, ok := tr.miniRec[r]; ok {
			mt := tr.mini[w]
			mt.valid = flag
			tr.emit("valid %d %s %d %s", mt.id, kx(tr.recName[r]), r, b01(flag))
		}
		return
	}
	if _, isTx := who.(*nodis.Tx); !isTx {
		// eviction / flush / SCAN: one record at a time
		r := tr.rec(m, false)
		switch ev {
		case "wait":
			if w := atomic.LoadInt32(&traceWiden); w > 0 && int(tr.nextTx)%100 < int(w) {
				// let a command slip in between the eviction pass's look at the record and its lock
				tr.mu.Unlock()
				time.Sleep(30 * time.Microsecond)
				tr.mu.Lock()
			}
			tr.nextTx++
			mt := &miniTx{id: tr.nextTx}
			tr.mini[who] = mt
			tr.emit("begin %d", mt.id)
			tr.emit("wait %d %s %d w", mt.id, kx(tr.recName[r]), r)
		case "lock":
			mt := tr.mini[who]
			tr.miniRec[r] = who
			tr.emit("lock %d %s %d w", mt.id, kx(tr.recName[r]), r)
		case "unlink":
			tr.emit("unlink %d %s %d", tr.mini[who].id, kx(key), r)
		case "unlock":
			mt := tr.mini[who]
			if mt.valid {
				tr.emit("commit %d", mt.id)
			}
			tr.emit("unlock %d %d", mt.id, r)
			tr.emit("fin %d", mt.id)
			delete(tr.miniRec, r)
			delete(tr.mini, who)
		}
		return
	}
	t, ok := tr.txIDs[who]
	if !ok {
		tr.nextTx++
		t = tr.nextTx
		tr.txIDs[who] = t
		tr.emit("begin %d", t)
		tr.lines = append(tr.lines, fmt.Sprintf("gev txb %d %d", goid(), t))
	}
	switch ev {
	case "look":
		if !flag || isNilRec(m) {
			tr.emit("look %d %s -", t, kx(key))
		} else {
			tr.emit("look %d %s %d", t, kx(key), tr.rec(m, false))
		}
	case "claim":
		r := tr.rec(m, true)
		tr.recName[r] = key
		tr.emit("claim %d %s %d %s", t, kx(key), r, mode(flag))
	case "wait", "lock":
		tr.emit("%s %d %s %d %s", ev, t, kx(key), tr.rec(m, false), mode(flag))
	case "valid":
		tr.emit("valid %d %s %d %s", t, kx(key), tr.rec(m, false), b01(flag))
	case "publish", "drop", "trylock":
		tr.emit("%s %d %s %d", ev, t, kx(key), tr.rec(m, false))
	case "unlink":
		if flag {
			tr.emit("unlink %d %s %d", t, kx(key), tr.rec(m, false))
		} else {
			tr.emit("unlink-unheld %d %s %d", t, kx(key), tr.rec(m, false))
		}
	case "unlock":
		tr.emit("unlock %d %d", t, tr.rec(m, false))
	case "commit":
		tr.emit("commit %d", t)
	case "end":
		tr.emit("fin %d", t)
		tr.lines = append(tr.lines, fmt.Sprintf("gev txe %d %d", goid(), t))
		delete(tr.txIDs, who)
	}
}

// goid: the id of the calling goroutine (from the first line of its stack trace)
func goid() uint64 {
	var buf [64]byte
	b := buf[:runtime.Stack(buf[:], false)]
	b = b[len("goroutine "):]
	var id uint64
	for _, ch := range b {
		if ch < '0' || ch > '9' {
			break
		}
		id = id*10 + uint64(ch-'0')
	}
	return id
}

func b01(b bool) string {
	if b {
		return "1"
	}
	return "0"
}

// ptrace <scenario> <seed> <rounds> <widen> <outfile>: run a scenario while recording the protocol trace
func ptraceOp(toks []string) string {
	tr := newTracer()
	if w, err := strconv.Atoi(toks[4]); err == nil {
		atomic.StoreInt32(&traceWiden, int32(w))
	}
	nodis.VerifTraceHook = tr.hook
	res := stressOp(toks[:5])
	nodis.VerifTraceHook = nil
	tr.mu.Lock()
	defer tr.mu.Unlock()
	if tr.pushViolation != "" && strings.HasPrefix(res, "ok") {
		res = "FAIL " + tr.pushViolation
	}
	tr.lines = append(tr.lines, "pend")
	if err := os.WriteFile(toks[5], []byte(strings.Join(tr.lines, "\n")+"\n"), 0o644); err != nil {
		return "FAIL " + err.Error()
	}
	return fmt.Sprintf("%s events=%d", res, len(tr.lines)-1)
}

// ---- more atomicity scenarios (embedded API) -------------------------------------------------

// SUNIONSTORE / SINTERSTORE of two sets between which a member is being moved: the stored result is
// computed from one snapshot of both operands
func scStoreSnapshot(n *nodis.Nodis, r *rand.Rand, rounds int) string {
	for round := 0; round < rounds; round++ {
		a, b := fmt.Sprintf("ua%d", round), fmt.Sprintf("ub%d", round)
		du, di := fmt.Sprintf("ud%d", round), fmt.Sprintf("ui%d", round)
		n.SAdd(a, "m", "x")
		n.SAdd(b, "x")
		var bad atomic.Value
		stop := make(chan struct{})
		var wg sync.WaitGroup
		for o := 0; o < 3; o++ {
			wg.Add(1)
			go func(o int) {
				defer wg.Done()
				for {
					select {
					case <-stop:
						return
					default:
					}
					if o%2 == 0 {
						if c := n.SUnionStore(du, a, b); c != 2 {
							bad.Store(fmt.Sprintf("SUNIONSTORE of {m,x}/{x} while m moves between them stored %d members, not 2", c))
							return
						}
					} else {
						if c := n.SInterStore(di, a, b); c != 1 {
							bad.Store(fmt.Sprintf("SINTERSTORE of two sets between which m moves stored %d members, not 1 (m seen in both or x in neither)", c))
							return
						}
					}
				}
			}(o)
		}
		for j := 0; j < 40; j++ {
			n.SMove(a, b, "m")
			n.SMove(b, a, "m")
		}
		close(stop)
		wg.Wait()
		if s := bad.Load(); s != nil {
			return fmt.Sprintf("FAIL %s (round %d)", s, round)
		}
	}
	return fmt.Sprintf("ok rounds=%d", rounds)
}

// ZUNIONSTORE over a sorted set that is being renamed back and forth between two names
func scZStoreSnapshot(n *nodis.Nodis, r *rand.Rand, rounds int) string {
	for round := 0; round < rounds; round++ {
		a, b, d := fmt.Sprintf("za%d", round), fmt.Sprintf("zb%d", round), fmt.Sprintf("zd%d", round)
		n.ZAdd(a, "p", 1)
		n.ZAdd(a, "q", 2)
		var bad atomic.Value
		stop := make(chan struct{})
		var wg sync.WaitGroup
		for o := 0; o < 3; o++ {
			wg.Add(1)
			go func() {
				defer wg.Done()
				for {
					select {
					case <-stop:
						return
					default:
					}
					if c := n.ZUnionStore(d, []string{a, b}, nil, ""); c != 2 {
						bad.Store(fmt.Sprintf("ZUNIONSTORE over the old and the new name of a sorted set being renamed stored %d members, not 2", c))
						return
					}
				}
			}()
		}
		for j := 0; j < 40; j++ {
			n.Rename(a, b)
			n.Rename(b, a)
		}
		close(stop)
		wg.Wait()
		if s := bad.Load(); s != nil {
			return fmt.Sprintf("FAIL %s (round %d)", s, round)
		}
	}
	return fmt.Sprintf("ok rounds=%d", rounds)
}

// MSET k1 i k2 i against MGET k1 k2 / EXISTS k1 k2 while DEL k1 k2 alternates
func scMSetMGet(n *nodis.Nodis, r *rand.Rand, rounds int) string {
	for round := 0; round < rounds; round++ {
		a, b := fmt.Sprintf("ma%d", round), fmt.Sprintf("mb%d", round)
		n.MSet(a, "0", b, "0")
		var bad atomic.Value
		stop := make(chan struct{})
		var wg sync.WaitGroup
		for o := 0; o < 3; o++ {
			wg.Add(1)
			go func(o int) {
				defer wg.Done()
				for {
					select {
					case <-stop:
						return
					default:
					}
					if o == 0 {
						if c := n.Exists(a, b); c == 1 {
							bad.Store("EXISTS k1 k2 = 1 while only MSET k1 k2 / DEL k1 k2 run")
							return
						}
						continue
					}
					v := n.MGet(a, b)
					if string(v[0]) != string(v[1]) || (v[0] == nil) != (v[1] == nil) {
						bad.Store(fmt.Sprintf("MGET saw %q and %q from MSET k1 i k2 i", v[0], v[1]))
						return
					}
				}
			}(o)
		}
		for j := 0; j < 60; j++ {
			s := strconv.Itoa(j)
			n.MSet(a, s, b, s)
			if j%3 == 0 {
				n.Del(a, b)
			}
		}
		close(stop)
		wg.Wait()
		if s := bad.Load(); s != nil {
			return fmt.Sprintf("FAIL %s (round %d)", s, round)
		}
	}
	return fmt.Sprintf("ok rounds=%d", rounds)
}

// ---- scenarios over TCP ------------------------------------------------------------------------

type tconn struct {
	c net.Conn
	r *bufio.Reader
}

func serveOn(n *nodis.Nodis) (string, error) {
	l, err := net.Listen("tcp", "127.0.0.1:0")
	if err != nil {
		return "", err
	}
	addr := l.Addr().String()
	l.Close()
	go func() { _ = n.Serve(addr) }()
	for i := 0; i < 500; i++ {
		c, err := net.Dial("tcp", addr)
		if err == nil {
			c.Close()
			return addr, nil
		}
		time.Sleep(time.Millisecond)
	}
	return "", fmt.Errorf("server did not come up")
}

func dial(addr string) (*tconn, error) {
	c, err := net.Dial("tcp", addr)
	if err != nil {
		return nil, err
	}
	return &tconn{c: c, r: bufio.NewReaderSize(c, 1<<16)}, nil
}

// do sends one command and reads one complete reply
func (t *tconn) do(args ...string) ([]tok, error) {
	bs := make([][]byte, len(args))
	for i, a := range args {
		bs[i] = []byte(a)
	}
	t.c.SetDeadline(time.Now().Add(10 * time.Second))
	if _, err := t.c.Write(encodeCommand(bs)); err != nil {
		return nil, err
	}
	var got []tok
	for {
		tk, err := readTok(t.r)
		if err != nil {
			return got, err
		}
		got = append(got, tk)
		if treeSize(got, 0) == len(got) {
			return got, nil
		}
	}
}

func tcpScenario(f func(addr string, n *nodis.Nodis, rounds int) string) scenario {
	return func(n *nodis.Nodis, r *rand.Rand, rounds int) string {
		addr, err := serveOn(n)
		if err != nil {
			return "FAIL " + err.Error()
		}
		return f(addr, n, rounds)
	}
}

// N connections increment / push to a fresh key
func scTCPIncr(addr string, n *nodis.Nodis, rounds int) string {
	const workers, each = 6, 8
	conns := make([]*tconn, workers)
	for i := range conns {
		c, err := dial(addr)
		if err != nil {
			return "FAIL dial: " + err.Error()
		}
		defer c.c.Close()
		conns[i] = c
	}
	for round := 0; round < rounds; round++ {
		key, lk := fmt.Sprintf("tc%d", round), fmt.Sprintf("tl%d", round)
		var bad atomic.Value
		par(workers, func(w int) {
			for j := 0; j < each; j++ {
				if _, err := conns[w].do("INCR", key); err != nil {
					bad.Store("INCR got no reply: " + err.Error())
					return
				}
				if _, err := conns[w].do("RPUSH", lk, fmt.Sprintf("%d-%d", w, j)); err != nil {
					bad.Store("RPUSH got no reply: " + err.Error())
					return
				}
			}
		})
		if s := bad.Load(); s != nil {
			return fmt.Sprintf("FAIL %s (round %d)", s, round)
		}
		got, _ := conns[0].do("GET", key)
		if len(got) != 1 || got[0].text != strconv.Itoa(workers*each) {
			return fmt.Sprintf("FAIL lost update over TCP: %d INCRs from %d connections left %v (round %d)", workers*each, workers, got, round)
		}
		ll, _ := conns[0].do("LLEN", lk)
		if len(ll) != 1 || ll[0].n != workers*each {
			return fmt.Sprintf("FAIL lost push over TCP: %d RPUSHes left %v (round %d)", workers*each, ll, round)
		}
	}
	return fmt.Sprintf("ok rounds=%d", rounds)
}

// the optimistic read-modify-write loop of C09: WATCH, GET, MULTI, SET, EXEC, retry on null
func scTCPWatchIncr(addr string, n *nodis.Nodis, rounds int) string {
	const workers, each = 5, 6
	conns := make([]*tconn, workers)
	for i := range conns {
		c, err := dial(addr)
		if err != nil {
			return "FAIL dial: " + err.Error()
		}
		defer c.c.Close()
		conns[i] = c
	}
	var retries int64
	for round := 0; round < rounds; round++ {
		key := fmt.Sprintf("w%d", round)
		conns[0].do("SET", key, "0")
		var bad atomic.Value
		par(workers, func(w int) {
			c := conns[w]
			for j := 0; j < each; j++ {
				for attempt := 0; ; attempt++ {
					if attempt > 10000 {
						bad.Store("optimistic loop did not finish in 10000 attempts")
						return
					}
					c.do("WATCH", key)
					g, err := c.do("GET", key)
					if err != nil || len(g) != 1 {
						bad.Store(fmt.Sprintf("GET: %v %v", g, err))
						return
					}
					v, _ := strconv.Atoi(g[0].text)
					c.do("MULTI")
					c.do("SET", key, strconv.Itoa(v+1))
					e, err := c.do("EXEC")
					if err != nil {
						bad.Store("EXEC: " + err.Error())
						return
					}
					if len(e) >= 1 && e[0].kind == '*' {
						break
					}
					atomic.AddInt64(&retries, 1)
				}
			}
		})
		if s := bad.Load(); s != nil {
			return fmt.Sprintf("FAIL %s (round %d)", s, round)
		}
		got, _ := conns[0].do("GET", key)
		if len(got) != 1 || got[0].text != strconv.Itoa(workers*each) {
			return fmt.Sprintf("FAIL lost update in the WATCH/MULTI/EXEC loop: %d successful increments left %v (round %d)", workers*each, got, round)
		}
	}
	return fmt.Sprintf("ok rounds=%d retries=%d", rounds, retries)
}

// a transaction writes the same value to two keys; another connection must never see them differ
func scTCPExecIsolation(addr string, n *nodis.Nodis, rounds int) string {
	w, err := dial(addr)
	if err != nil {
		return "FAIL dial"
	}
	defer w.c.Close()
	w.do("MSET", "ex", "0", "ey", "0")
	var bad atomic.Value
	stop := make(chan struct{})
	var wg sync.WaitGroup
	for o := 0; o < 3; o++ {
		c, err := dial(addr)
		if err != nil {
			return "FAIL dial"
		}
		defer c.c.Close()
		wg.Add(1)
		go func(o int) {
			defer wg.Done()
			for {
				select {
				case <-stop:
					return
				default:
				}
				var g []tok
				if o == 0 {
					// the observer is itself a transaction
					c.do("MULTI")
					c.do("GET", "ex")
					c.do("GET", "ey")
					g, _ = c.do("EXEC")
				} else {
					g, _ = c.do("MGET", "ex", "ey")
				}
				if len(g) == 3 && g[1].text != g[2].text {
					bad.Store(fmt.Sprintf("a client saw ex=%s ey=%s in the middle of MULTI; SET ex i; SET ey i; EXEC", g[1].text, g[2].text))
					return
				}
			}
		}(o)
	}
	for j := 1; j <= rounds*20; j++ {
		s := strconv.Itoa(j)
		w.do("MULTI")
		w.do("SET", "ex", s)
		w.do("SET", "ey", s)
		if e, err := w.do("EXEC"); err != nil || len(e) != 3 {
			close(stop)
			wg.Wait()
			return fmt.Sprintf("FAIL EXEC reply %v %v", e, err)
		}
		if bad.Load() != nil {
			break
		}
	}
	close(stop)
	wg.Wait()
	if s := bad.Load(); s != nil {
		return fmt.Sprintf("FAIL %s", s)
	}
	return fmt.Sprintf("ok transactions=%d", rounds*20)
}

// every connection runs a mix of multi-key commands over the same few keys: all get their replies
func scTCPMix(addr string, n *nodis.Nodis, rounds int) string {
	const workers = 8
	cmds := [][]string{
		{"RENAME", "x", "y"}, {"RENAME", "y", "x"}, {"RPOPLPUSH", "p", "q"}, {"RPOPLPUSH", "q", "p"}, {"RPOPLPUSH", "p", "p"},
		{"SMOVE", "s1", "s2", "m"}, {"SMOVE", "s2", "s1", "m"}, {"SUNIONSTORE", "s1", "s1", "s2"}, {"SINTERSTORE", "s2", "s1", "s2"},
		{"ZUNIONSTORE", "z1", "2", "z1", "z2"}, {"ZADD", "z2", "1", "a"}, {"DEL", "x", "y"}, {"SET", "x", "1"}, {"MSET", "x", "1", "y", "2"},
		{"MGET", "y", "x"}, {"EXISTS", "y", "x", "p"}, {"KEYS", "*"}, {"SCAN", "0"}, {"RPUSH", "p", "a"}, {"LPOP", "q"}, {"SADD", "s1", "m"},
		{"DBSIZE"}, {"FLUSHDB"}, {"EXPIRE", "x", "100"}, {"RANDOMKEY"}, {"RANDOMKEY"}, {"SETEX", "tt", "100", "v"}, {"DEL", "tt"}, {"SETEX", "tt", "100", "w"}, {"INFO"},
		{"EXPIRE", "p", "100"}, {"LPOP", "p"}, {"PERSIST", "x"}, {"TTL", "tt"}, {"RENAME", "x", "x"}, {"TYPE", "p"}, {"LPUSH", "x", "wrongtype"}, {"INCR", "p"},
	}
	var done int64
	var bad atomic.Value
	par(workers, func(w int) {
		c, err := dial(addr)
		if err != nil {
			bad.Store("dial")
			return
		}
		defer c.c.Close()
		rr := rand.New(rand.NewSource(int64(w)))
		for j := 0; j < rounds*10; j++ {
			cmd := cmds[rr.Intn(len(cmds))]
			if _, err := c.do(cmd...); err != nil {
				if bad.Load() == nil {
					buf := make([]byte, 1<<20)
					os.WriteFile(hangDumpPath(), buf[:runtime.Stack(buf, true)], 0o644)
				}
				bad.Store(fmt.Sprintf("%v got no reply within 10 s: %v", cmd, err))
				return
			}
			atomic.AddInt64(&done, 1)
			atomic.AddUint64(&progress, 1)
		}
	})
	if s := bad.Load(); s != nil {
		return fmt.Sprintf("FAIL %s", s)
	}
	return fmt.Sprintf("ok commands=%d", done)
}

func init() {
	scenarios["store-snapshot"] = scStoreSnapshot
	scenarios["zstore-snapshot"] = scZStoreSnapshot
	scenarios["mset-mget"] = scMSetMGet
	scenarios["tcp-incr"] = tcpScenario(scTCPIncr)
	scenarios["tcp-watch-incr"] = tcpScenario(scTCPWatchIncr)
	scenarios["tcp-exec-isolation"] = tcpScenario(scTCPExecIsolation)
	scenarios["tcp-mix"] = tcpScenario(scTCPMix)
}

func hangDumpPath() string {
	if p := os.Getenv("VERIF_HANG_DUMP"); p != "" {
		return p
	}
	return os.TempDir() + "/verif-hang-dump.txt"
}

// ---- blocking pops (C18) -----------------------------------------------------------------------

func scBPop(n *nodis.Nodis, r *rand.Rand, rounds int) string {
	addr, err := serveOn(n)
	if err != nil {
		return "FAIL " + err.Error()
	}
	tick := func() { atomic.AddUint64(&progress, 1) }
	// (a) immediate: first key in argument order; head for BLPOP, tail for BRPOP
	n.RPush("ba", []byte("a1"), []byte("a2"), []byte("a3"))
	n.RPush("bb", []byte("b1"), []byte("b2"))
	if k, v := n.BLPop(time.Second, "nokey", "ba", "bb"); k != "ba" || string(v) != "a1" {
		return fmt.Sprintf("FAIL BLPOP nokey ba bb returned %q %q, not ba a1", k, v)
	}
	if k, v := n.BRPop(time.Second, "bb", "ba"); k != "bb" || string(v) != "b2" {
		return fmt.Sprintf("FAIL BRPOP bb ba returned %q %q, not bb b2", k, v)
	}
	n.Del("ba", "bb")
	// (b) no push: null, no earlier than the timeout (fractions honoured, over TCP too)
	t0 := time.Now()
	if k, _ := n.BLPop(150*time.Millisecond, "empty1", "empty2"); k != "" {
		return "FAIL BLPOP on empty keys returned a key"
	}
	if d := time.Since(t0); d < 150*time.Millisecond || d > 2*time.Second {
		return fmt.Sprintf("FAIL BLPOP with a timeout of 150 ms and no push returned after %v", d)
	}
	tick()
	c, err := dial(addr)
	if err != nil {
		return "FAIL dial"
	}
	defer c.c.Close()
	t0 = time.Now()
	g, err := c.do("BRPOP", "empty1", "0.25")
	if err != nil || len(g) != 1 || g[0].kind != 'n' {
		return fmt.Sprintf("FAIL BRPOP empty1 0.25 over TCP replied %v %v, not a null array", g, err)
	}
	if d := time.Since(t0); d < 250*time.Millisecond || d > 2*time.Second {
		return fmt.Sprintf("FAIL BRPOP with a timeout of 0.25 s and no push returned after %v", d)
	}
	tick()
	// (b') inside MULTI/EXEC a blocking pop does not wait: the transaction would hold up everybody
	t0 = time.Now()
	c.do("MULTI")
	c.do("BLPOP", "empty1", "0")
	g, err = c.do("EXEC")
	if err != nil || len(g) != 2 || g[0].kind != '*' || g[1].kind != 'n' {
		return fmt.Sprintf("FAIL MULTI; BLPOP empty1 0; EXEC replied %v %v, not an array holding a null array", g, err)
	}
	if d := time.Since(t0); d > time.Second {
		return fmt.Sprintf("FAIL MULTI; BLPOP empty1 0; EXEC took %v", d)
	}
	tick()
	// (c) timeout 0 waits until a push arrives; BRPOP woken by RPUSH k x y gets the tail
	for round := 0; round < rounds; round++ {
		key := fmt.Sprintf("bz%d", round)
		got := make(chan string, 1)
		go func() {
			_, v := n.BRPop(0, key)
			got <- string(v)
		}()
		wait := time.Duration(20+r.Intn(60)) * time.Millisecond
		select {
		case v := <-got:
			return fmt.Sprintf("FAIL BRPOP with timeout 0 returned %q before anything was pushed", v)
		case <-time.After(wait):
		}
		pushed := time.Now()
		n.RPush(key, []byte("x"), []byte("y"))
		select {
		case v := <-got:
			if v != "y" {
				return fmt.Sprintf("FAIL a waiting BRPOP woken by RPUSH k x y returned %q, not the tail y", v)
			}
			if d := time.Since(pushed); d > time.Second {
				return fmt.Sprintf("FAIL a waiting BRPOP got its element %v after the push", d)
			}
		case <-time.After(5 * time.Second):
			return "FAIL a BRPOP with timeout 0 was still waiting 5 s after an element had been pushed to its key (missed wake-up)"
		}
		n.Del(key)
		tick()
	}
	// (c') several clients wait with long timeouts on one key: a push of several elements, and
	// several pushes in a row, serve all of them without undue delay
	for round := 0; round < rounds; round++ {
		for _, multi := range []bool{true, false} {
			key := fmt.Sprintf("bm%d%v", round, multi)
			const waiters = 3
			got := make(chan string, waiters)
			for w := 0; w < waiters; w++ {
				go func(w int) {
					var v []byte
					if w%2 == 0 {
						_, v = n.BLPop(6*time.Second, key)
					} else {
						_, v = n.BRPop(6*time.Second, "otherkey"+key, key)
					}
					got <- string(v)
				}(w)
			}
			time.Sleep(time.Duration(30+r.Intn(40)) * time.Millisecond)
			if multi {
				n.RPush(key, []byte("a"), []byte("b"), []byte("c"))
			} else {
				n.RPush(key, []byte("a"))
				n.LPush(key, []byte("b"))
				n.RPush(key, []byte("c"))
			}
			pushed := time.Now()
			seen := map[string]bool{}
			for w := 0; w < waiters; w++ {
				select {
				case v := <-got:
					if v == "" || seen[v] {
						return fmt.Sprintf("FAIL with %d clients blocked on a key and 3 elements pushed, a client got %q (empty = null before its timeout, or an element twice)", waiters, v)
					}
					seen[v] = true
				case <-time.After(2 * time.Second):
					return fmt.Sprintf("FAIL %d clients were blocked on a key (timeout 6 s); 3 elements were pushed (one push of three: %v); %v after the push only %d clients had been served and %d elements were still in the list", waiters, multi, time.Since(pushed).Round(time.Millisecond), w, n.LLen(key))
				}
			}
			tick()
		}
	}
	// (d) hand-off: every pushed element goes to exactly one waiter; pushes never block or fail
	for round := 0; round < rounds; round++ {
		keys := []string{fmt.Sprintf("bh%da", round), fmt.Sprintf("bh%db", round)}
		const waiters, total = 5, 24
		var mu sync.Mutex
		seen := map[string]int{}
		var popped int64
		var slowPush, pushErr atomic.Value
		var wg sync.WaitGroup
		deadline := time.Now().Add(8 * time.Second)
		for w := 0; w < waiters; w++ {
			wg.Add(1)
			go func(w int) {
				defer wg.Done()
				for atomic.LoadInt64(&popped) < total && time.Now().Before(deadline) {
					var k string
					var v []byte
					// short timeouts: waiters keep arriving and leaving while pushes happen
					if w%2 == 0 {
						k, v = n.BLPop(time.Duration(5+w*7)*time.Millisecond, keys...)
					} else {
						k, v = n.BRPop(time.Duration(5+w*7)*time.Millisecond, keys[1], keys[0])
					}
					tick()
					if k == "" {
						continue
					}
					mu.Lock()
					seen[string(v)]++
					mu.Unlock()
					atomic.AddInt64(&popped, 1)
				}
			}(w)
		}
		pc, err := dial(addr)
		if err != nil {
			return "FAIL dial"
		}
		for i := 0; i < total; i++ {
			t0 := time.Now()
			if i%3 == 0 {
				g, err := pc.do("RPUSH", keys[i%2], fmt.Sprintf("e%d", i))
				if err != nil || len(g) != 1 || g[0].kind != ':' {
					pushErr.Store(fmt.Sprintf("RPUSH replied %v %v while clients were blocked on the key", g, err))
				}
			} else {
				n.LPush(keys[i%2], []byte(fmt.Sprintf("e%d", i)))
			}
			if d := time.Since(t0); d > time.Second {
				slowPush.Store(fmt.Sprintf("a push took %v while clients were blocked on the key", d))
			}
			if i%4 == 0 {
				time.Sleep(time.Duration(r.Intn(8)) * time.Millisecond)
			}
		}
		pc.c.Close()
		wg.Wait()
		if s := pushErr.Load(); s != nil {
			return fmt.Sprintf("FAIL %s (round %d)", s, round)
		}
		if s := slowPush.Load(); s != nil {
			return fmt.Sprintf("FAIL %s (round %d)", s, round)
		}
		rest := len(n.LRange(keys[0], 0, -1)) + len(n.LRange(keys[1], 0, -1))
		for e, cnt := range seen {
			if cnt != 1 {
				return fmt.Sprintf("FAIL element %s was handed to %d blocked clients (round %d)", e, cnt, round)
			}
		}
		if len(seen)+rest != total {
			return fmt.Sprintf("FAIL %d elements pushed, %d popped by blocked clients, %d left in the lists (round %d)", total, len(seen), rest, round)
		}
		if rest != 0 {
			return fmt.Sprintf("FAIL %d pushed elements were still in the lists after 8 s although %d clients kept blocking on the keys (round %d)", rest, waiters, round)
		}
	}
	return fmt.Sprintf("ok rounds=%d", rounds)
}

func init() { scenarios["bpop"] = scBPop }

// ---- hostile clients (C17) ---------------------------------------------------------------------
// One connection per attack sends bytes a client should not send; a canary connection keeps
// writing and reading its own key and must get prompt, correct answers throughout. The server runs
// in this process: a crash of the server is a crash of the harness (the check sees the exit status).

func attackPayloads(r *rand.Rand) [][]byte {
	big := strings.Repeat("9", 30)
	p := [][]byte{
		[]byte("*-1\r\n"), []byte("*0\r\n"), []byte("*1\r\n$-1\r\n"), []byte("*1\r\n$-5\r\nabc\r\n"),
		[]byte("*2\r\n$3\r\nGET\r\n$" + big + "\r\nx\r\n"), []byte("*" + big + "\r\n$3\r\nGET\r\n"),
		[]byte("*2147483648\r\n$1\r\nx\r\n"), []byte("*1\r\n$536870913\r\n"), []byte("*1\r\n$9223372036854775807\r\n"),
		[]byte("*1\r\n$-9223372036854775808\r\n"), []byte("*abc\r\n"), []byte("*1\r\n$abc\r\n"), []byte("*1\r\nGET\r\n"),
		[]byte("$3\r\nGET\r\n"), []byte("\r\n"), []byte("\n"), []byte("\r"), []byte(" "), []byte("\x00"), []byte("'"), []byte("\""),
		[]byte("\"unterminated\r\n"), []byte("'a\\'\r\n"),
		[]byte("RPUSH biglist first \"\" tail\r\n"), []byte("\"\" a\r\n"), []byte("'' a\r\n"), []byte("SET k \"\"\r\n"), []byte("\"\"\r\n"), []byte("a \"\" \r\n"), []byte("\"\" \"\"\r\n"), []byte("x \"\\\"\" y\r\n"), []byte("\\"), []byte("GET\r\n"), []byte("SET k\r\n"), []byte("set \"a b\" 'c d'\r\n"),
		[]byte("*3\r\n$3\r\nSET\r\n$1\r\nk\r\n"), // truncated
		[]byte("*1\r\n$4\r\nPING"), []byte("*1\r\n$4\r\nPINGxx"), []byte("*1\r\n$0\r\n\r\n"),
		bytesRepeat("*1\r\n$4\r\nPING\r\n", 2000), bytesRepeat("\r\n", 5000), bytesRepeat("a", 100000), bytesRepeat("* ", 3000),
	}
	// counts, offsets and lengths of every size against keys of the matching type: whatever the
	// client announces must not be allocated or looped over
	huge := []string{"100000000000", "-100000000000", "2147483648", "4294967296", "-4294967296", "4611686018427387904", "9223372036854775807", "-9223372036854775808", "1000000000", "-1000000000"}
	sized := [][]string{
		{"SPOP", "sk", "#"}, {"SRANDMEMBER", "sk", "#"}, {"LPOP", "ak", "#"}, {"RPOP", "ak", "#"}, {"LRANGE", "ak", "#", "#"}, {"LRANGE", "ak", "0", "#"}, {"LTRIM", "ak", "#", "#"},
		{"LINDEX", "ak", "#"}, {"LSET", "ak", "#", "x"}, {"LREM", "ak", "#", "a"}, {"ZRANGE", "zk", "#", "#"}, {"ZRANGE", "zk", "0", "#"}, {"ZREVRANGE", "zk", "#", "#"},
		{"ZRANGEBYSCORE", "zk", "-inf", "+inf", "LIMIT", "#", "#"}, {"ZRANGEBYSCORE", "zk", "-inf", "+inf", "LIMIT", "0", "#"}, {"ZREMRANGEBYRANK", "zk", "#", "#"},
		{"SCAN", "#"}, {"SCAN", "0", "COUNT", "#"}, {"SSCAN", "sk", "#", "COUNT", "#"}, {"SSCAN", "sk", "0", "COUNT", "#"}, {"HSCAN", "hk", "0", "COUNT", "#"}, {"ZSCAN", "zk", "0", "COUNT", "#"},
		{"GETRANGE", "k", "#", "#"}, {"GETRANGE", "k", "0", "#"}, {"SETRANGE", "k", "#", "x"}, {"SETBIT", "k", "#", "1"}, {"GETBIT", "k", "#"}, {"BITCOUNT", "k", "#", "#"},
		{"INCRBY", "k", "#"}, {"HINCRBY", "hk", "f", "#"}, {"EXPIRE", "k", "#"}, {"PEXPIRE", "k", "#"}, {"EXPIREAT", "k", "#"}, {"SETEX", "k2", "#", "v"},
		{"SET", "a", "v", "PXAT", "#"}, {"SET", "a", "v", "EXAT", "#"}, {"SET", "", "v", "PXAT", "#"}, {"SET", "a", "v", "PX", "#"}, {"SET", "a", "v", "EX", "#"},
		{"PEXPIREAT", "a", "#"}, {"EXPIREAT", "", "#"}, {"EXPIREAT", "a", "9223372036854775"}, {"SET", "a", "v", "EXAT", "9223372036854775"},
		{"ZINCRBY", "zk", "#", "a"}, {"ZADD", "zk", "#", "m"}, {"BLPOP", "nokey", "#"}, {"GEORADIUS", "gk", "1", "1", "#", "km"}, {"ZUNIONSTORE", "d", "#", "zk"}, {"ZINTERSTORE", "d", "#", "zk"},
		{"HRANDFIELD", "hk", "#"}, {"LPOS", "ak", "a", "COUNT", "#"}, {"COPY", "k", "#"}, {"SELECT", "#"},
	}
	// the GEO commands take floats: negative, zero, tiny, enormous and non-numeric radii, coordinates off the map
	weird := []string{"-1", "-0.5", "0", "1e-320", "1e308", "1e400", "inf", "-inf", "nan", "-1e308", "5000000000", "abc", ""}
	for _, tpl := range [][]string{{"GEORADIUS", "gk", "13", "38", "#", "km"}, {"GEORADIUS", "gk", "13", "38", "#", "m", "WITHDIST", "COUNT", "1"}, {"GEORADIUS", "gk", "#", "#", "100", "km"},
		{"GEORADIUSBYMEMBER", "gk", "gm", "#", "km"}, {"GEORADIUSBYMEMBER", "gk", "gm", "#", "m", "WITHDIST", "WITHCOORD", "COUNT", "2"}, {"GEORADIUSBYMEMBER", "gk", "nobody", "#", "km"},
		{"GEOADD", "gk2", "#", "#", "m"}, {"GEOADD", "gk2", "#", "0", "m"}, {"GEODIST", "gk", "gm", "gn", "#"}, {"GEORADIUS", "gk", "13", "38", "100", "km", "COUNT", "#"}} {
		for _, h := range weird {
			args := make([][]byte, len(tpl))
			for i, a := range tpl {
				if a == "#" {
					a = h
				}
				args[i] = []byte(a)
			}
			p = append(p, encodeCommand(args))
		}
	}
	for _, tpl := range sized {
		for _, h := range huge {
			if (tpl[0] == "SETBIT" || tpl[0] == "SETRANGE") && len(h) <= 10 && h[0] != '-' {
				// within the protocol's 512 MiB limit these legitimately create a value of hundreds
				// of megabytes, after which every command on that key is slow: not an attack the
				// property speaks about
				continue
			}
			args := make([][]byte, len(tpl))
			for i, a := range tpl {
				if a == "#" {
					a = h
				}
				args[i] = []byte(a)
			}
			p = append(p, encodeCommand(args))
		}
	}
	// wrong arity / wrong numbers / wrong types for every command name, as well-formed RESP
	names := []string{"GET", "SET", "SETEX", "GETRANGE", "SETRANGE", "INCRBY", "INCRBYFLOAT", "SETBIT", "BITCOUNT", "LPUSH", "LPOP", "LRANGE", "LINDEX", "LSET", "LTRIM", "LREM", "LINSERT",
		"HSET", "HINCRBY", "HINCRBYFLOAT", "HSCAN", "SADD", "SPOP", "SRANDMEMBER", "SSCAN", "ZADD", "ZRANGE", "ZRANGEBYSCORE", "ZINCRBY", "ZREMRANGEBYRANK", "ZREMRANGEBYSCORE", "ZUNIONSTORE",
		"ZINTERSTORE", "ZSCAN", "SCAN", "KEYS", "EXPIRE", "EXPIREAT", "PEXPIRE", "TTL", "RENAME", "BLPOP", "BRPOP", "GEOADD", "GEORADIUS", "GEORADIUSBYMEMBER", "GEODIST", "GEOHASH", "GEOPOS",
		"MULTI", "EXEC", "DISCARD", "WATCH", "UNWATCH", "CLIENT", "CONFIG", "INFO", "ECHO", "PING", "QUIT", "DBSIZE", "TYPE", "DEL", "EXISTS", "MSET", "MGET", "APPEND", "STRLEN",
		"SAVE", "SELECT", "AUTH", "COMMAND", "NOSUCH", ""}
	operands := []string{"", "k", "ak", "sk", "zk", "hk", "sk", "zk", "hk", "100000000000", "-100000000000", "4294967296", "-4294967296", "0", "-1", "1", "9223372036854775807", "-9223372036854775808", "99999999999999999999", "1e400", "nan", "inf", "-inf", "0.5", "abc", "(", "[", "+", "-",
		"NX", "XX", "GT", "LT", "CH", "INCR", "COUNT", "MATCH", "LIMIT", "WITHSCORES", "WEIGHTS", "AGGREGATE", "BEFORE", "AFTER", "EX", "PX", "KEEPTTL", "GET", "\x00", "\r\n", strings.Repeat("x", 5000), "*", "[a", "\\"}
	for _, name := range names {
		for arity := 0; arity < 7; arity++ {
			args := [][]byte{[]byte(name)}
			for j := 0; j < arity; j++ {
				if j == 0 && r.Intn(10) < 7 {
					// most commands take a key first: one of each type, so that the type-specific code is reached
					args = append(args, []byte([]string{"k", "ak", "sk", "zk", "hk", "nokey"}[r.Intn(6)]))
					continue
				}
				args = append(args, []byte(operands[r.Intn(len(operands))]))
			}
			p = append(p, encodeCommand(args))
		}
	}
	// "any sequence of valid commands": pipelines of valid commands whose effects build on each other
	// (a counter result that is then written in place, a value that is then extended, keys aliased
	// as source and destination, a collection emptied and used again) ...
	seq := func(cmds ...[]string) []byte {
		var b []byte
		for _, c := range cmds {
			args := make([][]byte, len(c))
			for i, a := range c {
				args[i] = []byte(a)
			}
			b = append(b, encodeCommand(args)...)
		}
		return b
	}
	for _, v := range []string{"0", "8", "41", "98", "99", "100", "-1", "-99", "255", "65535"} {
		for _, w := range [][]string{{"SETRANGE", "vc", "0", "x"}, {"SETBIT", "vc", "7", "1"}, {"APPEND", "vc", "z"}, {"SETRANGE", "vc", "1", "yy"}, {"SETBIT", "vc", "0", "1"}} {
			p = append(p, seq([]string{"SET", "vc", v}, []string{"INCR", "vc"}, w, []string{"GET", "vc"}, []string{"DECR", "vc"}, w, []string{"INCRBY", "vc", "1"}, w, []string{"DECRBY", "vc", "1"}, w,
				[]string{"INCRBYFLOAT", "vc", "1"}, w, []string{"GET", "vc"}, []string{"DEL", "vc"}, []string{"INCR", "vc"}, w, []string{"DEL", "vc"}, []string{"DECR", "vc"}, w, []string{"GET", "vc"}))
			p = append(p, seq([]string{"DEL", "vh"}, []string{"HSET", "vh", "f", v}, []string{"HINCRBY", "vh", "f", "1"}, []string{"HGET", "vh", "f"}, []string{"HINCRBYFLOAT", "vh", "f", "1"}, []string{"HSET", "vh", "f", "x"},
				[]string{"HGETALL", "vh"}))
		}
	}
	p = append(p,
		seq([]string{"SET", "va", "abc"}, []string{"GETSET", "va", "def"}, []string{"APPEND", "va", "ghi"}, []string{"GETRANGE", "va", "0", "-1"}, []string{"SETRANGE", "va", "20", "x"}, []string{"STRLEN", "va"}),
		seq([]string{"MSET", "va", "1", "va", "2"}, []string{"MGET", "va", "va"}, []string{"RENAME", "va", "va"}, []string{"RENAMENX", "va", "va"}, []string{"GET", "va"}),
		seq([]string{"DEL", "vl"}, []string{"RPUSH", "vl", "a"}, []string{"RPOPLPUSH", "vl", "vl"}, []string{"LPOPRPUSH", "vl", "vl"}, []string{"LRANGE", "vl", "0", "-1"}, []string{"LPOP", "vl"}, []string{"RPOPLPUSH", "vl", "vl"}, []string{"LLEN", "vl"}),
		seq([]string{"DEL", "vs"}, []string{"SADD", "vs", "m"}, []string{"SMOVE", "vs", "vs", "m"}, []string{"SUNIONSTORE", "vs", "vs", "vs"}, []string{"SINTERSTORE", "vs", "vs"}, []string{"SDIFFSTORE", "vs", "vs", "vs"}, []string{"SCARD", "vs"}, []string{"SPOP", "vs"}, []string{"SMOVE", "vs", "vs", "m"}),
		seq([]string{"DEL", "vz"}, []string{"ZADD", "vz", "1", "a"}, []string{"ZUNIONSTORE", "vz", "1", "vz"}, []string{"ZINTERSTORE", "vz", "2", "vz", "vz"}, []string{"ZUNIONSTORE", "vz", "2", "vz", "vz", "WEIGHTS", "2", "3", "AGGREGATE", "MAX"}, []string{"ZRANGE", "vz", "0", "-1", "WITHSCORES"}, []string{"ZREM", "vz", "a"}, []string{"ZCARD", "vz"}, []string{"ZADD", "vz", "XX", "1", "a"}),
		seq([]string{"MULTI"}, []string{"SET", "vm", "1"}, []string{"INCR", "vm"}, []string{"SETBIT", "vm", "7", "1"}, []string{"LPUSH", "vm", "x"}, []string{"EXEC"}, []string{"GET", "vm"}),
		seq([]string{"WATCH", "vm"}, []string{"MULTI"}, []string{"WATCH", "vm"}, []string{"EXEC"}, []string{"EXEC"}, []string{"DISCARD"}, []string{"UNWATCH"}),
		seq([]string{"SET", "ve", "v", "PX", "1"}, []string{"PTTL", "ve"}, []string{"APPEND", "ve", "x"}, []string{"INCR", "ve"}, []string{"PERSIST", "ve"}, []string{"EXPIRE", "ve", "0"}, []string{"GET", "ve"}, []string{"SETRANGE", "ve", "0", ""}, []string{"GET", "ve"}),
	)
	// ... and random pipelines of valid commands over a few keys of every type
	tpl := [][]string{{"SET", "K", "V"}, {"GET", "K"}, {"INCR", "K"}, {"DECR", "K"}, {"APPEND", "K", "V"}, {"SETRANGE", "K", "N", "V"}, {"SETBIT", "K", "N", "1"}, {"GETRANGE", "K", "N", "N"}, {"STRLEN", "K"}, {"DEL", "K"},
		{"RPUSH", "L", "V", "V"}, {"LPOP", "L"}, {"RPOPLPUSH", "L", "L"}, {"LSET", "L", "N", "V"}, {"LTRIM", "L", "N", "N"}, {"LINSERT", "L", "BEFORE", "V", "V"}, {"LREM", "L", "N", "V"}, {"LRANGE", "L", "N", "N"},
		{"HSET", "H", "V", "V"}, {"HINCRBY", "H", "V", "N"}, {"HDEL", "H", "V"}, {"HGETALL", "H"}, {"SADD", "S", "V", "V"}, {"SPOP", "S"}, {"SMOVE", "S", "S", "V"}, {"SUNIONSTORE", "S", "S", "S"}, {"SINTERSTORE", "S", "S", "S"},
		{"ZADD", "Z", "N", "V"}, {"ZINCRBY", "Z", "N", "V"}, {"ZREM", "Z", "V"}, {"ZRANGE", "Z", "N", "N"}, {"ZUNIONSTORE", "Z", "2", "Z", "Z"}, {"ZREMRANGEBYRANK", "Z", "N", "N"}, {"RENAME", "K", "K"}, {"EXPIRE", "K", "N"}, {"PERSIST", "K"},
		{"TYPE", "K"}, {"SCAN", "0"}, {"KEYS", "*"}, {"MSET", "K", "V", "K", "V"}, {"MGET", "K", "K"}, {"GETSET", "K", "V"}, {"SETNX", "K", "V"}, {"INCRBYFLOAT", "K", "N"}}
	vals := []string{"", "a", "b", "0", "1", "41", "99", "-1", "xyz", "10"}
	nums := []string{"0", "1", "-1", "2", "5", "10", "-2"}
	for i := 0; i < 150; i++ {
		var cmds [][]string
		for j := 0; j < 8; j++ {
			t := tpl[r.Intn(len(tpl))]
			c := make([]string, len(t))
			for x, a := range t {
				switch a {
				case "K":
					a = []string{"rk1", "rk2"}[r.Intn(2)]
				case "L":
					a = []string{"rl1", "rl2"}[r.Intn(2)]
				case "H":
					a = "rh1"
				case "S":
					a = []string{"rs1", "rs2"}[r.Intn(2)]
				case "Z":
					a = []string{"rz1", "rz2"}[r.Intn(2)]
				case "V":
					a = vals[r.Intn(len(vals))]
				case "N":
					a = nums[r.Intn(len(nums))]
				}
				c[x] = a
			}
			cmds = append(cmds, c)
		}
		p = append(p, seq(cmds...))
	}
	return p
}

func bytesRepeat(s string, n int) []byte { return []byte(strings.Repeat(s, n)) }

func scHostile(n *nodis.Nodis, r *rand.Rand, rounds int) string {
	addr, err := serveOn(n)
	if err != nil {
		return "FAIL " + err.Error()
	}
	canary, err := dial(addr)
	if err != nil {
		return "FAIL dial"
	}
	defer canary.c.Close()
	// keys of several types for the wrong-type attacks
	canary.do("SET", "k", "v")
	canary.do("RPUSH", "ak", "a", "b")
	canary.do("SADD", "sk", "a", "b", "c")
	canary.do("ZADD", "zk", "1", "a", "2", "b")
	canary.do("HSET", "hk", "f", "1", "g", "x")
	canary.do("GEOADD", "gk", "13.361389", "38.115556", "gm", "15.087269", "37.502669", "gn", "0.0001", "0.0001", "go")
	lenient := false // the stage with clients that stop reading moves ~100 MiB around: only "served at all" is demanded there
	check := func(i int, what string) string {
		t0 := time.Now()
		v := fmt.Sprintf("v%d", i)
		canary.c.SetDeadline(time.Now().Add(3 * time.Second))
		if lenient {
			canary.c.SetDeadline(time.Now().Add(12 * time.Second))
		}
		if g, err := canary.do("SET", "canary", v); err != nil || len(g) != 1 || g[0].kind != '+' {
			return fmt.Sprintf("FAIL after %s the other connection's SET got %v %v", what, g, err)
		}
		g, err := canary.do("GET", "canary")
		if err != nil || len(g) != 1 || g[0].text != v {
			return fmt.Sprintf("FAIL after %s the other connection's GET returned %v %v, not %s", what, g, err, v)
		}
		if d := time.Since(t0); d > 2*time.Second && !lenient {
			return fmt.Sprintf("FAIL after %s the other connection waited %v for SET+GET", what, d)
		}
		atomic.AddUint64(&progress, 1)
		return ""
	}
	// the stock server evicts and flushes in the background: whatever the attacks stored (extreme
	// deadlines, huge members, empty names) goes through the storage encoders there, outside any
	// command's recover
	stopGC := make(chan struct{})
	defer close(stopGC)
	go func() {
		for {
			select {
			case <-stopGC:
				return
			case <-time.After(20 * time.Millisecond):
				n.VerifGC()
				n.VerifFlush()
			}
		}
	}()
	payloads := attackPayloads(r)
	for round := 0; round < rounds; round++ {
		for i, p := range payloads {
			if round > 0 {
				// later rounds: random mutations (cut, splice, flip) of the payloads
				q := append([]byte{}, payloads[r.Intn(len(payloads))]...)
				if len(q) > 0 {
					switch r.Intn(4) {
					case 0:
						q = q[:r.Intn(len(q))]
					case 1:
						q[r.Intn(len(q))] = byte(r.Intn(256))
					case 2:
						q = append(q, p...)
					case 3:
						k := r.Intn(len(q))
						q = append(append(append([]byte{}, q[:k]...), []byte("$-1\r\n")...), q[k:]...)
					}
				}
				p = q
			}
			a, err := net.Dial("tcp", addr)
			if err != nil {
				return fmt.Sprintf("FAIL the server no longer accepts connections (attack %d): %v", i, err)
			}
			a.SetDeadline(time.Now().Add(2 * time.Second))
			a.Write(p)
			// give the server a moment to act on it; read whatever it answers
			buf := make([]byte, 4096)
			a.SetReadDeadline(time.Now().Add(20 * time.Millisecond))
			a.Read(buf)
			what := fmt.Sprintf("attack %d/%d %q", round, i, truncate(p, 60))
			if s := check(round*100000+i, what); s != "" {
				a.Close()
				return s
			}
			a.Close()
		}
	}
	// clients that stop reading: megabytes of replies are owed to a peer whose window is full - inside one EXEC, and as a
	// pipeline of big reads. Whatever the server does with those bytes, it must not do it while it holds something every
	// other client needs: the canary keeps being served
	big := strings.Repeat("B", 1<<20)
	lenient = true
	canary.c.SetDeadline(time.Now().Add(12 * time.Second))
	canary.do("SET", "bigv", big)
	var silent []net.Conn
	for _, inMulti := range []bool{true, false} {
		a, err := net.Dial("tcp", addr)
		if err != nil {
			return "FAIL dial"
		}
		silent = append(silent, a)
		var p []byte
		if inMulti {
			p = append(p, encodeCommand([][]byte{[]byte("MULTI")})...)
		}
		for i := 0; i < 24; i++ {
			p = append(p, encodeCommand([][]byte{[]byte("GET"), []byte("bigv")})...)
		}
		if inMulti {
			p = append(p, encodeCommand([][]byte{[]byte("EXEC")})...)
		}
		a.SetWriteDeadline(time.Now().Add(2 * time.Second))
		a.Write(p) // and never read
		for k := 0; k < 6; k++ {
			time.Sleep(100 * time.Millisecond)
			what := fmt.Sprintf("a client sent %d x GET of a 1 MiB value (inside MULTI/EXEC: %v) and stopped reading", 24, inMulti)
			if s := check(900000+k, what); s != "" {
				return s
			}
		}
	}
	for _, a := range silent {
		a.Close()
	}
	if s := check(999999, "the silent clients went away"); s != "" {
		return s
	}
	return fmt.Sprintf("ok attacks=%d", rounds*len(payloads))
}

func truncate(b []byte, n int) []byte {
	if len(b) > n {
		return b[:n]
	}
	return b
}

func init() { scenarios["hostile"] = scHostile }

// ---- scans under concurrency (C19) -------------------------------------------------------------
// A full cursor iteration returns every key / member that exists during the whole iteration, also
// while other clients keep reading and writing those very keys (and while eviction and flush run).

func scScanConcurrent(n *nodis.Nodis, r *rand.Rand, rounds int) string {
	const keys = 24
	for i := 0; i < keys; i++ {
		n.Set(fmt.Sprintf("sc:%02d", i), []byte("0"), false)
	}
	for i := 0; i < 300; i++ {
		n.SAdd("sc:set", fmt.Sprintf("m%03d", i))
		n.HSet("sc:hash", fmt.Sprintf("f%03d", i), []byte("v"))
		n.ZAdd("sc:z", fmt.Sprintf("z%03d", i), float64(i))
	}
	stop := make(chan struct{})
	var wg sync.WaitGroup
	for w := 0; w < 6; w++ {
		wg.Add(1)
		go func(w int) {
			defer wg.Done()
			rr := rand.New(rand.NewSource(int64(w)))
			for {
				select {
				case <-stop:
					return
				default:
				}
				k := fmt.Sprintf("sc:%02d", rr.Intn(keys))
				time.Sleep(time.Duration(50+rr.Intn(150)) * time.Microsecond) // clients, not spinning loops
				switch rr.Intn(8) {
				case 0:
					n.Get(k)
				case 1:
					n.SMembers("sc:set")
				case 2:
					n.SAdd("sc:set", "m000")
				case 3:
					n.HSet("sc:hash", "f000", []byte("w"))
				case 4:
					if w == 0 {
						n.VerifGC()
					}
				case 5:
					n.ZAdd("sc:z", "z000", 0)
				default:
					n.Incr(k)
				}
			}
		}(w)
	}
	fail := ""
	for round := 0; round < rounds && fail == ""; round++ {
		seen := map[string]bool{}
		var cursor int64
		for calls := 0; ; calls++ {
			c, ks := n.Scan(cursor, "*", int64(1+round%7), 0)
			for _, k := range ks {
				seen[k] = true
			}
			cursor = c
			if cursor == 0 {
				break
			}
			if calls > 10000 {
				fail = "FAIL a SCAN iteration over 27 keys did not finish in 10000 calls"
				break
			}
		}
		for i := 0; i < keys && fail == ""; i++ {
			if k := fmt.Sprintf("sc:%02d", i); !seen[k] {
				fail = fmt.Sprintf("FAIL a full SCAN iteration (COUNT %d) missed key %s, which existed during the whole iteration while other clients were using it (round %d)", 1+round%7, k, round)
			}
		}
		for _, k := range []string{"sc:set", "sc:hash", "sc:z"} {
			if fail == "" && !seen[k] {
				fail = fmt.Sprintf("FAIL a full SCAN iteration missed key %s (round %d)", k, round)
			}
		}
		// member-level scans
		ms := map[string]bool{}
		cursor = 0
		for {
			c, got := n.SScan("sc:set", cursor, "*", 7)
			for _, m := range got {
				ms[m] = true
			}
			// through the embedded API the cursor is a position; the SSCAN handler turns a position at
			// or beyond the cardinality into 0
			if cursor = c; cursor == 0 || cursor >= n.SCard("sc:set") {
				break
			}
		}
		if fail == "" && len(ms) < 300 {
			fail = fmt.Sprintf("FAIL a full SSCAN iteration returned %d of 300 members that existed during the whole iteration (round %d)", len(ms), round)
		}
		atomic.AddUint64(&progress, 1)
	}
	close(stop)
	wg.Wait()
	if fail != "" {
		return fail
	}
	return fmt.Sprintf("ok rounds=%d", rounds)
}

func init() { scenarios["scan-concurrent"] = scScanConcurrent }

// ---- EXEC against blocking pops of other clients (C08 / C09) -------------------------------------

// A waiter blocked in BLPOP is woken by a push that happens inside another client's transaction. The
// pop must not take effect before that transaction is over: inside MULTI ... EXEC the pushing client
// reads the list again and must find its own element (the transaction is isolated), and a WATCHing
// client's EXEC that started before the pop must not have its watched list changed under it.
func scTCPExecBPop(addr string, n *nodis.Nodis, rounds int) string {
	w, err := dial(addr)
	if err != nil {
		return "FAIL dial"
	}
	defer w.c.Close()
	big := strings.Repeat("y", 50000)
	for round := 0; round < rounds; round++ {
		key := fmt.Sprintf("bq%d", round)
		b, err := dial(addr)
		if err != nil {
			return "FAIL dial"
		}
		popped := make(chan []tok, 1)
		// every blocking form: both ends, a finite timeout, "wait for ever" (0) and a fraction
		form := [][]string{{"BLPOP", key, "5"}, {"BLPOP", key, "0"}, {"BRPOP", key, "0"}, {"BRPOP", "bq-nothing", key, "2.5"}}[round%4]
		go func() {
			g, _ := b.do(form...)
			popped <- g
		}()
		// wait until the waiter is registered (it shows as a blocked client: no reply yet)
		time.Sleep(3 * time.Millisecond)
		w.do("MULTI")
		w.do("RPUSH", key, "x")
		w.do("DEL", "filler")
		for f := 0; f < 40; f++ {
			w.do("APPEND", "filler", big) // something to do between the push and the read
		}
		w.do("LLEN", key)
		w.do("LRANGE", key, "0", "-1")
		e, err := w.do("EXEC")
		g := <-popped
		b.c.Close()
		if err != nil || len(e) < 4 {
			return fmt.Sprintf("FAIL EXEC reply %v %v (round %d)", e, err, round)
		}
		// reply: *44, :n (DEL), :1 (RPUSH), 40 x :len, :LLEN, *k [elements]
		llen := e[43]
		if llen.n != 1 {
			return fmt.Sprintf("FAIL another client's BLPOP took effect in the middle of MULTI; RPUSH %s x; ...; LLEN %s; EXEC: the transaction pushed one element and then read LLEN = %d (the waiter got %v) (round %d)", key, key, llen.n, g, round)
		}
		if len(g) != 3 || g[2].text != "x" {
			return fmt.Sprintf("FAIL the waiter did not get the element after the transaction: %v (round %d)", g, round)
		}
	}
	return fmt.Sprintf("ok rounds=%d", rounds)
}

func init() { scenarios["tcp-exec-bpop"] = tcpScenario(scTCPExecBPop) }

// WATCH against blocking pops of another client (C09): when the EXEC runs, the watched list is exactly
// as it was read after the WATCH - at the beginning and at the end of the transaction
func scTCPWatchBPop(addr string, n *nodis.Nodis, rounds int) string {
	a, err := dial(addr)
	if err != nil {
		return "FAIL dial"
	}
	defer a.c.Close()
	b, err := dial(addr)
	if err != nil {
		return "FAIL dial"
	}
	defer b.c.Close()
	big := strings.Repeat("y", 20000)
	stop := make(chan struct{})
	var wg sync.WaitGroup
	wg.Add(1)
	go func() {
		defer wg.Done()
		for i := 0; ; i++ {
			select {
			case <-stop:
				return
			default:
			}
			b.do("RPUSH", "wq", "e", "f")
			b.do("BLPOP", "nothing-here", "wq", "1") // pops at once
			b.do("BRPOP", "wq", "1")
		}
	}()
	ran, aborted := 0, 0
	res := ""
	for j := 0; j < rounds*30 && res == ""; j++ {
		a.do("WATCH", "wq")
		l0, _ := a.do("LLEN", "wq")
		a.do("MULTI")
		a.do("LLEN", "wq")
		for f := 0; f < 6; f++ {
			a.do("SET", "wfill", big)
		}
		a.do("LLEN", "wq")
		e, err := a.do("EXEC")
		switch {
		case err != nil:
			res = "FAIL EXEC: " + err.Error()
		case len(e) == 1:
			aborted++
		case len(e) == 9 && len(l0) == 1:
			ran++
			if e[1].n != l0[0].n || e[8].n != l0[0].n {
				res = fmt.Sprintf("FAIL WATCH wq; LLEN wq = %d; MULTI; LLEN wq; ...; LLEN wq; EXEC ran and read %d and %d: the watched list was changed by another client's blocking pop between the WATCH and the end of the transaction", l0[0].n, e[1].n, e[8].n)
			}
		default:
			res = fmt.Sprintf("FAIL EXEC reply %v", e)
		}
	}
	close(stop)
	wg.Wait()
	if res != "" {
		return res
	}
	return fmt.Sprintf("ok ran=%d aborted=%d", ran, aborted)
}

func init() { scenarios["tcp-watch-bpop"] = tcpScenario(scTCPWatchBPop) }

// ---- self-moves (C07) ------------------------------------------------------------------------------

// A command that names one key as source and destination and empties it on the way (RPOPLPUSH l l on a
// one-element list, SMOVE s s m on a one-member set, SUNIONSTORE s s) removes the key and creates it
// again inside one command: no client may look into the gap - the element is never in neither place.
func scSelfMove(n *nodis.Nodis, r *rand.Rand, rounds int) string {
	for round := 0; round < rounds; round++ {
		l, s, u := fmt.Sprintf("sl%d", round), fmt.Sprintf("ss%d", round), fmt.Sprintf("su%d", round)
		n.RPush(l, []byte("only"))
		n.SAdd(s, "m")
		n.SAdd(u, "m")
		var bad atomic.Value
		var stop int32
		var wg sync.WaitGroup
		wg.Add(3)
		go func() {
			defer wg.Done()
			for j := 0; j < 400 && atomic.LoadInt32(&stop) == 0; j++ {
				if j%2 == 0 {
					n.RPopLPush(l, l)
				} else {
					n.LPopRPush(l, l)
				}
			}
			atomic.StoreInt32(&stop, 1)
		}()
		go func() {
			defer wg.Done()
			for j := 0; j < 400 && atomic.LoadInt32(&stop) == 0; j++ {
				n.SMove(s, s, "m")
				n.SUnionStore(u, u)
			}
		}()
		go func() {
			defer wg.Done()
			for atomic.LoadInt32(&stop) == 0 {
				if c := n.LLen(l); c != 1 {
					bad.Store(fmt.Sprintf("LLEN %s = %d while its only element is being rotated onto itself", l, c))
					break
				}
				if n.Exists(l) != 1 {
					bad.Store(fmt.Sprintf("EXISTS %s = 0 while its only element is being rotated onto itself", l))
					break
				}
				if !n.SIsMember(s, "m") {
					bad.Store(fmt.Sprintf("SISMEMBER %s m = 0 while m is being moved from %s to %s", s, s, s))
					break
				}
				if c := n.SCard(u); c != 1 {
					bad.Store(fmt.Sprintf("SCARD %s = %d while SUNIONSTORE %s %s runs", u, c, u, u))
					break
				}
			}
			atomic.StoreInt32(&stop, 1)
		}()
		wg.Wait()
		if v := bad.Load(); v != nil {
			return fmt.Sprintf("FAIL %s (round %d)", v, round)
		}
	}
	return fmt.Sprintf("ok rounds=%d", rounds)
}

func init() { scenarios["self-move"] = scSelfMove }

// ---- blocking pops queued in MULTI (C06) -----------------------------------------------------------

// EXEC is exclusive, so a blocking pop that really waited inside it would wait for ever (nobody else can
// push) and would stall every other client: every blocking form queued in MULTI must return at once,
// whether its keys hold elements or not, and the server must go on serving the others.
func scTCPMultiBPop(addr string, n *nodis.Nodis, rounds int) string {
	tick := func() { atomic.AddUint64(&progress, 1) }
	forms := [][]string{
		{"BLPOP", "mbq", "0"}, {"BRPOP", "mbq", "0"}, {"BLPOP", "mb-empty", "0"}, {"BRPOP", "mb-empty", "0"},
		{"BLPOP", "mb-empty", "mbq", "1"}, {"BRPOP", "mb-empty", "mbq", "1"}, {"BLPOP", "mb-empty", "0.4"}, {"BRPOP", "mb-empty", "0.4"},
		{"BRPOP", "mb-empty", "mb-empty2", "30"}, {"BLPOP", "mb-empty", "mb-empty2", "30"},
	}
	for round := 0; round < rounds; round++ {
		a, err := dial(addr)
		if err != nil {
			return "FAIL dial"
		}
		o, err := dial(addr)
		if err != nil {
			return "FAIL dial"
		}
		// a blocking pop that FAILS (one of its keys holds another type) must leave nothing behind either: the
		// transactions below still get through (a gate taken for the look and not given back on the error path
		// would stall the next EXEC, and then everybody)
		o.do("SET", "mb-str", "v")
		for _, f := range [][]string{{"BLPOP", "mb-empty", "mb-str", "0.05"}, {"BRPOP", "mb-str", "0"}, {"BLPOP", "mb-str", "mb-empty", "0"}} {
			g, err := o.do(f...)
			if err != nil || len(g) != 1 || g[0].kind != '-' {
				return fmt.Sprintf("FAIL %v on a key holding a string replied %v %v, not an error", f, g, err)
			}
		}
		for fi := range forms {
			// one form alone, then (last iteration) all of them in one transaction
			sel := [][]string{forms[fi]}
			if fi == len(forms)-1 {
				sel = forms
			}
			a.do("DEL", "mbq")
			a.do("RPUSH", "mbq", "1", "2", "3", "4", "5", "6", "7", "8")
			a.do("MULTI")
			for _, f := range sel {
				a.do(f...)
			}
			t0 := time.Now()
			done := make(chan string, 1)
			go func() {
				e, err := a.do("EXEC")
				if err != nil {
					done <- "EXEC: " + err.Error()
					return
				}
				// one array header + per form either a null array (1 token) or [key, element] (3 tokens)
				if len(e) < 1+len(sel) || e[0].kind != '*' || e[0].n != int64(len(sel)) {
					done <- fmt.Sprintf("EXEC replied %v for %d queued blocking pops", e, len(sel))
					return
				}
				done <- ""
			}()
			select {
			case msg := <-done:
				if msg != "" {
					return fmt.Sprintf("FAIL MULTI; %v; EXEC: %s (round %d)", sel, msg, round)
				}
			case <-time.After(4 * time.Second):
				return fmt.Sprintf("FAIL MULTI; %v; EXEC did not reply within 4 s: a blocking pop queued in a transaction waited inside EXEC, which is exclusive - the server is stalled (round %d)", sel, round)
			}
			if d := time.Since(t0); d > time.Second {
				return fmt.Sprintf("FAIL MULTI; %v; EXEC took %v", sel, d)
			}
			// the others are still served
			g, err := o.do("PING")
			if err != nil || len(g) != 1 {
				return fmt.Sprintf("FAIL PING on another connection after the transaction: %v %v", g, err)
			}
			tick()
		}
		a.c.Close()
		o.c.Close()
	}
	return fmt.Sprintf("ok rounds=%d forms=%d", rounds, len(forms))
}

func init() { scenarios["tcp-multi-bpop"] = tcpScenario(scTCPMultiBPop) }

// ---- blocking pops after a history of blocking pops (C18) ---------------------------------------------

// Whatever blocking pops have come and gone before (several keys each, served at once, served by a push, timed out), a
// client that is blocked now is woken by the next push to its key. Every case starts from a fresh instance, so that
// bookkeeping left behind by the history (counters, registry entries) meets exactly the number of waiters that exposes it.
func scBPopHistory(_ *nodis.Nodis, r *rand.Rand, rounds int) string {
	tick := func() { atomic.AddUint64(&progress, 1) }
	cases := 0
	for round := 0; round < rounds; round++ {
		for _, hist := range [][2]int{{2, 1}, {2, 2}, {3, 1}, {2, 3}, {4, 1}, {1, 2}} { // keys per earlier pop, number of earlier pops
			for waiters := 1; waiters <= 4; waiters++ {
				n := nodis.Open(&nodis.Options{Storage: storage.NewMemory()})
				k, m := hist[0], hist[1]
				for j := 0; j < m; j++ {
					keys := make([]string, k)
					for i := range keys {
						keys[i] = fmt.Sprintf("h%d-%d", j, i)
					}
					switch (j + round) % 3 {
					case 0: // times out
						if key, _ := n.BLPop(15*time.Millisecond, keys...); key != "" {
							return "FAIL a blocking pop on empty keys returned a key"
						}
					case 1: // served at once from its last key
						n.RPush(keys[k-1], []byte("x"))
						if key, v := n.BRPop(time.Second, keys...); key != keys[k-1] || string(v) != "x" {
							return fmt.Sprintf("FAIL BRPOP %v with an element in the last key returned %q %q", keys, key, v)
						}
					default: // served by a push while it waits
						got := make(chan string, 1)
						go func() { key, _ := n.BLPop(3*time.Second, keys...); got <- key }()
						time.Sleep(10 * time.Millisecond)
						n.LPush(keys[0], []byte("y"))
						select {
						case key := <-got:
							if key != keys[0] {
								return fmt.Sprintf("FAIL BLPOP %v woken by a push to %s returned key %q", keys, keys[0], key)
							}
						case <-time.After(2 * time.Second):
							return fmt.Sprintf("FAIL BLPOP %v was not served within 2 s of a push to %s", keys, keys[0])
						}
					}
				}
				// now `waiters` clients block, each on its own key, for ever; every one of them is woken by a push
				got := make(chan string, waiters)
				for w := 0; w < waiters; w++ {
					go func(w int) {
						_, v := n.BLPop(0, fmt.Sprintf("wq%d", w))
						got <- string(v)
					}(w)
				}
				time.Sleep(15 * time.Millisecond)
				for w := 0; w < waiters; w++ {
					n.RPush(fmt.Sprintf("wq%d", w), []byte(fmt.Sprintf("e%d", w)))
				}
				for w := 0; w < waiters; w++ {
					select {
					case <-got:
					case <-time.After(2 * time.Second):
						return fmt.Sprintf("FAIL after %d earlier blocking pops on %d keys each had come and gone, %d clients blocked on one key each (timeout 0) and an element was pushed to every key: 2 s later only %d of them had been served (missed wake-up)", m, k, waiters, w)
					}
				}
				cases++
				tick()
				_ = n.Close()
			}
		}
	}
	return fmt.Sprintf("ok cases=%d", cases)
}

func init() { scenarios["bpop-history"] = scBPopHistory }
