package main

import (
	"fmt"
	"math/rand"
	"os"
	"runtime"
	"sort"
	"strconv"
	"strings"
	"sync"
	"sync/atomic"
	"time"

	"github.com/diiyw/nodis"
	"github.com/diiyw/nodis/storage"
)

// stress <scenario> <seed> <rounds> <widen>: concurrent scenarios on the real code with invariants
// that every linearizable execution satisfies. `widen` > 0 makes verifPoint sleep a random few
// microseconds at the marked race windows (lookup -> lock, before publish, pop -> register) with
// that probability in percent, so that nanosecond windows are actually hit.
//
// Each scenario prints one line: "ok <stats>" or "FAIL <what>"; a watchdog turns a hang into
// "HANG <goroutine summary>".

type scenario func(n *nodis.Nodis, r *rand.Rand, rounds int) string

func withWatchdog(d time.Duration, f func() string) string {
	done := make(chan string, 1)
	go func() { done <- f() }()
	select {
	case s := <-done:
		return s
	case <-time.After(d):
		buf := make([]byte, 1<<20)
		n := runtime.Stack(buf, true)
		dump := string(buf[:n])
		// summarise: which nodis functions are goroutines blocked in
		var where []string
		for _, g := range strings.Split(dump, "\n\n") {
			if strings.Contains(g, "nodis.") && (strings.Contains(g, "semacquire") || strings.Contains(g, "sync.") || strings.Contains(g, "chan ")) {
				for _, l := range strings.Split(g, "\n") {
					if strings.Contains(l, "github.com/diiyw/nodis.(") {
						where = append(where, strings.TrimSpace(strings.Split(l, "(0x")[0]))
						break
					}
				}
			}
		}
		sort.Strings(where)
		os.WriteFile("/tmp/verif-hang-dump.txt", buf[:n], 0o644)
		return "HANG " + strings.Join(uniq(where), ",")
	}
}

func uniq(xs []string) []string {
	var out []string
	for i, x := range xs {
		if i == 0 || x != xs[i-1] {
			out = append(out, x)
		}
	}
	return out
}

func par(k int, f func(i int)) {
	var wg sync.WaitGroup
	for i := 0; i < k; i++ {
		wg.Add(1)
		go func(i int) {
			defer wg.Done()
			f(i)
		}(i)
	}
	wg.Wait()
}

// N concurrent increments of a fresh key add exactly N (also while the key is being created)
func scIncrFresh(n *nodis.Nodis, r *rand.Rand, rounds int) string {
	for round := 0; round < rounds; round++ {
		key := fmt.Sprintf("c%d", round)
		const workers, each = 8, 5
		par(workers, func(int) {
			for j := 0; j < each; j++ {
				n.Incr(key)
			}
		})
		got := string(n.Get(key))
		if got != strconv.Itoa(workers*each) {
			return fmt.Sprintf("FAIL lost update: %d concurrent INCRs of a fresh key left %q (round %d)", workers*each, got, round)
		}
	}
	return fmt.Sprintf("ok rounds=%d", rounds)
}

// N concurrent pushes to a fresh list leave N elements; pops hand out each element once
func scPushPop(n *nodis.Nodis, r *rand.Rand, rounds int) string {
	for round := 0; round < rounds; round++ {
		key := fmt.Sprintf("l%d", round)
		const workers, each = 6, 6
		par(workers, func(w int) {
			for j := 0; j < each; j++ {
				n.RPush(key, []byte(fmt.Sprintf("%d-%d", w, j)))
			}
		})
		if l := n.LLen(key); l != workers*each {
			return fmt.Sprintf("FAIL lost push: %d concurrent RPUSHes to a fresh list left %d elements (round %d)", workers*each, l, round)
		}
		var mu sync.Mutex
		seen := map[string]int{}
		par(workers, func(int) {
			for {
				v := n.LPop(key, 1)
				if len(v) == 0 {
					return
				}
				mu.Lock()
				seen[string(v[0])]++
				mu.Unlock()
			}
		})
		if len(seen) != workers*each {
			return fmt.Sprintf("FAIL pops returned %d distinct elements of %d (round %d)", len(seen), workers*each, round)
		}
		for k, c := range seen {
			if c != 1 {
				return fmt.Sprintf("FAIL element %s handed to %d poppers (round %d)", k, c, round)
			}
		}
	}
	return fmt.Sprintf("ok rounds=%d", rounds)
}

// pushes racing with pops that empty (and thereby unlink) the list: every acknowledged push is
// either popped exactly once or still in the list
func scPushVsEmpty(n *nodis.Nodis, r *rand.Rand, rounds int) string {
	for round := 0; round < rounds; round++ {
		key := fmt.Sprintf("e%d", round)
		const pushers, each = 4, 20
		var popped sync.Map
		var nPopped int64
		stop := make(chan struct{})
		var wg sync.WaitGroup
		for p := 0; p < 3; p++ {
			wg.Add(1)
			go func() {
				defer wg.Done()
				for {
					v := n.LPop(key, 1)
					if len(v) > 0 {
						if _, dup := popped.LoadOrStore(string(v[0]), true); dup {
							atomic.AddInt64(&nPopped, 1<<32)
						}
						atomic.AddInt64(&nPopped, 1)
						continue
					}
					select {
					case <-stop:
						return
					default:
						runtime.Gosched()
					}
				}
			}()
		}
		par(pushers, func(w int) {
			for j := 0; j < each; j++ {
				n.RPush(key, []byte(fmt.Sprintf("%d-%d", w, j)))
			}
		})
		close(stop)
		wg.Wait()
		rest := n.LRange(key, 0, -1)
		total := int(nPopped&0xffffffff) + len(rest)
		if nPopped>>32 != 0 {
			return fmt.Sprintf("FAIL an element was popped twice (round %d)", round)
		}
		if total != pushers*each {
			return fmt.Sprintf("FAIL %d acknowledged pushes, but %d popped + %d remaining (round %d): elements lost while the list was being emptied", pushers*each, nPopped&0xffffffff, len(rest), round)
		}
	}
	return fmt.Sprintf("ok rounds=%d", rounds)
}

// SET/DEL/INCR churn on one key while others read it: no panic, no hang; final INCR count consistent
func scCreateDelete(n *nodis.Nodis, r *rand.Rand, rounds int) string {
	for round := 0; round < rounds; round++ {
		key := fmt.Sprintf("d%d", round)
		var incs, dels int64
		par(8, func(w int) {
			rr := rand.New(rand.NewSource(int64(round*100 + w)))
			for j := 0; j < 30; j++ {
				switch rr.Intn(4) {
				case 0:
					if n.Del(key) == 1 {
						atomic.AddInt64(&dels, 1)
					}
				case 1:
					n.Get(key)
				default:
					if _, err := n.Incr(key); err == nil {
						atomic.AddInt64(&incs, 1)
					}
				}
			}
		})
		v, _ := strconv.Atoi(string(n.Get(key)))
		if int64(v) > incs || v < 0 {
			return fmt.Sprintf("FAIL counter %d after %d increments (round %d)", v, incs, round)
		}
	}
	return fmt.Sprintf("ok rounds=%d", rounds)
}

// SMOVE between two sets while observers count: the member is never in both or in neither
func scSMove(n *nodis.Nodis, r *rand.Rand, rounds int) string {
	for round := 0; round < rounds; round++ {
		a, b := fmt.Sprintf("sa%d", round), fmt.Sprintf("sb%d", round)
		n.SAdd(a, "m", "keepA")
		n.SAdd(b, "keepB")
		var bad atomic.Value
		stop := make(chan struct{})
		var wg sync.WaitGroup
		for o := 0; o < 3; o++ {
			wg.Add(1)
			go func() {
				defer wg.Done()
				for {
					select {
					case <-stop:
						return
					default:
					}
					// one atomic read of both sets
					u := n.SUnion(a, b)
					cnt := 0
					for _, x := range u {
						if x == "m" {
							cnt++
						}
					}
					if cnt != 1 {
						bad.Store(fmt.Sprintf("SUNION of source and destination saw the moved member %d times", cnt))
						return
					}
				}
			}()
		}
		for j := 0; j < 40; j++ {
			n.SMove(a, b, "m")
			n.SMove(b, a, "m")
		}
		close(stop)
		wg.Wait()
		if s := bad.Load(); s != nil {
			return fmt.Sprintf("FAIL %s (round %d)", s, round)
		}
		if c := n.SCard(a) + n.SCard(b); c != 3 {
			return fmt.Sprintf("FAIL moves did not conserve elements: %d of 3 (round %d)", c, round)
		}
	}
	return fmt.Sprintf("ok rounds=%d", rounds)
}

// RPOPLPUSH between two lists in both directions by several workers: the multiset is conserved
func scRotate(n *nodis.Nodis, r *rand.Rand, rounds int) string {
	for round := 0; round < rounds; round++ {
		a, b := fmt.Sprintf("ra%d", round), fmt.Sprintf("rb%d", round)
		for i := 0; i < 6; i++ {
			n.RPush(a, []byte{byte('a' + i)})
			n.RPush(b, []byte{byte('A' + i)})
		}
		par(6, func(w int) {
			for j := 0; j < 30; j++ {
				if (w+j)%2 == 0 {
					n.RPopLPush(a, b)
				} else {
					n.RPopLPush(b, a)
				}
			}
		})
		all := append(n.LRange(a, 0, -1), n.LRange(b, 0, -1)...)
		var ss []string
		for _, x := range all {
			ss = append(ss, string(x))
		}
		sort.Strings(ss)
		if strings.Join(ss, "") != "ABCDEFabcdef" {
			return fmt.Sprintf("FAIL rotation did not conserve the elements: %v (round %d)", ss, round)
		}
	}
	return fmt.Sprintf("ok rounds=%d", rounds)
}

// RENAME back and forth while observers look at both names: exactly one exists
func scRename(n *nodis.Nodis, r *rand.Rand, rounds int) string {
	for round := 0; round < rounds; round++ {
		a, b := fmt.Sprintf("na%d", round), fmt.Sprintf("nb%d", round)
		n.Set(a, []byte("v"), false)
		var bad atomic.Value
		stop := make(chan struct{})
		var wg sync.WaitGroup
		for o := 0; o < 3; o++ {
			wg.Add(1)
			go func() {
				defer wg.Done()
				for {
					select {
					case <-stop:
						return
					default:
					}
					if c := n.Exists(a, b); c != 1 {
						bad.Store(fmt.Sprintf("EXISTS old new = %d during RENAME", c))
						return
					}
				}
			}()
		}
		for j := 0; j < 40; j++ {
			n.Rename(a, b)
			n.Rename(b, a)
		}
		close(stop)
		wg.Wait()
		if s := bad.Load(); s != nil {
			return fmt.Sprintf("FAIL %s (round %d)", s, round)
		}
	}
	return fmt.Sprintf("ok rounds=%d", rounds)
}

// opposite lock orders, self-aliasing, eviction passes and flushes concurrently: everything completes
func scMix(n *nodis.Nodis, r *rand.Rand, rounds int) string {
	n.Set("x", []byte("1"), false)
	n.Set("y", []byte("2"), false)
	n.RPush("p", []byte("a"), []byte("b"))
	n.RPush("q", []byte("c"))
	n.SAdd("s1", "m")
	n.SAdd("s2", "k")
	n.ZAdd("z1", "m", 1)
	var ops int64
	par(10, func(w int) {
		rr := rand.New(rand.NewSource(int64(w) + r.Int63()))
		for j := 0; j < rounds; j++ {
			switch rr.Intn(16) {
			case 0:
				n.Rename("x", "y")
			case 1:
				n.Rename("y", "x")
			case 2:
				n.RPopLPush("p", "q")
			case 3:
				n.RPopLPush("q", "p")
			case 4:
				n.RPopLPush("p", "p")
			case 5:
				n.SMove("s1", "s2", "m")
			case 6:
				n.SMove("s2", "s1", "m")
			case 7:
				n.VerifGC()
			case 8:
				n.VerifFlush()
			case 9:
				n.Del("x", "y")
				n.Set("x", []byte("1"), false)
			case 10:
				n.ZUnionStore("z1", []string{"z1", "z1"}, nil, "")
			case 11:
				n.Keys("*")
			case 12:
				n.Scan(0, "*", 10, 0)
			case 13:
				n.SInterStore("s1", "s1", "s2")
				n.SAdd("s1", "m")
			case 14:
				n.Expire("x", 100)
			default:
				n.RPush("p", []byte("z"))
				n.LPop("p", 1)
			}
			atomic.AddInt64(&ops, 1)
		}
	})
	return fmt.Sprintf("ok ops=%d", ops)
}

var scenarios = map[string]scenario{
	"incr-fresh": scIncrFresh, "push-pop": scPushPop, "push-vs-empty": scPushVsEmpty, "create-delete": scCreateDelete,
	"smove": scSMove, "rotate": scRotate, "rename": scRename, "mix": scMix,
}

func stressOp(toks []string) string {
	name := toks[1]
	seed, _ := strconv.ParseInt(toks[2], 10, 64)
	rounds, _ := strconv.Atoi(toks[3])
	widen, _ := strconv.Atoi(toks[4])
	sc, ok := scenarios[name]
	if !ok {
		return "bad-op"
	}
	r := rand.New(rand.NewSource(seed))
	if widen > 0 {
		var ctr uint64
		nodis.VerifPointHook = func(id string) {
			c := atomic.AddUint64(&ctr, 0x9E3779B97F4A7C15)
			if int(c>>33)%100 < widen {
				time.Sleep(time.Duration(1+(c>>40)%40) * time.Microsecond)
			} else {
				runtime.Gosched()
			}
		}
	} else {
		nodis.VerifPointHook = nil
	}
	n := nodis.Open(&nodis.Options{Storage: storage.NewMemory()})
	return withWatchdog(30*time.Second, func() (res string) {
		defer func() {
			if rec := recover(); rec != nil {
				res = fmt.Sprintf("FAIL panic: %v", rec)
			}
		}()
		return sc(n, r, rounds)
	})
}
