module vextract

go 1.21
