package p

type T struct {
	V []byte
	N int
}

// aliasing: old shares the array with s.V, which is then written
func (s *T) Bad1() []byte {
	old := s.V
	s.V[0] = 1
	return old
}

// aliasing through a slice expression
func Bad2(b []byte) byte {
	c := b[1:]
	b[1] = 7
	return c[0]
}

// fine: the alias is dead after the write
func (s *T) Good1(n int) {
	nv := make([]byte, n)
	copy(nv, s.V)
	s.V = nv
	s.V[0] = 1
}

// value receiver: the assignment stays local
func (t T) Val() int {
	t.N = 5
	return t.N
}

func Short(s []byte, i int) bool {
	return i < len(s) && s[i] == 1
}

func Loop(n int) int {
	s := 0
	for n > 0 {
		s += n
		n--
	}
	return s
}

func Sw(x uint8) int {
	switch x {
	case 1, 2:
		return 10
	case 3:
		return 20
	}
	return 0
}

func Mp(m map[string]int) int { return len(m) }

func Shift(x uint32, n int) uint32 { return x << n }

func Div(a, b int64) int64 { return a / b }
