open NodisVerif NodisVerif.Translated NodisVerif.GoLib
example : p.Loop 4 = .ok 10 := by decide
example : p.Loop (-3) = .ok 0 := by decide
example : p.Short [1] 5 = .ok false := by decide          -- short-circuit: no index panic
example : p.Short [0, 1] 1 = .ok true := by decide
example : p.Sw 2 = .ok 10 ∧ p.Sw 3 = .ok 20 ∧ p.Sw 9 = .ok 0 := by decide
example : p.Shift 1 40 = .ok 0 ∧ p.Shift 3 31 = .ok 2147483648 ∧ p.Shift 1 (-1) = .error .shift := by decide
example : p.Div 7 (-2) = .ok (-3) ∧ p.Div 1 0 = .error .divide ∧ p.Div (-9223372036854775808) (-1) = .ok (-9223372036854775808) := by decide
example : p.T.Val ⟨[], 1⟩ = .ok 5 := by decide            -- value receiver: local copy
example : p.T.Good1 ⟨[9, 9], 0⟩ 3 = .ok ⟨[1, 9, 0], 0⟩ := by decide
