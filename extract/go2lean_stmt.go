// go2lean part 3: statements, functions, output.
package main

import (
	"bufio"
	"bytes"
	"fmt"
	"go/ast"
	"go/token"
	"os"
	"path/filepath"
	"sort"
	"strings"
)

// fuel measures of `for cond` loops: "dir Func#k" -> Go expression over the parameters (from the targets file)
var fuelOf = map[string]string{}

type out struct {
	lines []string
}

func (o *out) p(ind int, format string, a ...any) {
	o.lines = append(o.lines, strings.Repeat("  ", ind)+fmt.Sprintf(format, a...))
}

// root identifiers assigned anywhere in n (x = …, x[i] = …, x.f = …, x++, x op= …)
func assignedRoots(n ast.Node) map[string]bool {
	res := map[string]bool{}
	root := func(e ast.Expr) {
		for {
			switch x := e.(type) {
			case *ast.IndexExpr:
				e = x.X
			case *ast.SelectorExpr:
				e = x.X
			case *ast.ParenExpr:
				e = x.X
			case *ast.StarExpr:
				e = x.X
			case *ast.Ident:
				res[x.Name] = true
				return
			default:
				return
			}
		}
	}
	ast.Inspect(n, func(m ast.Node) bool {
		switch s := m.(type) {
		case *ast.AssignStmt:
			for _, l := range s.Lhs {
				root(l)
			}
		case *ast.IncDecStmt:
			root(s.X)
		case *ast.CallExpr: // copy(x, …), binary.PutVarint(x, …), method calls on x: conservatively "assigned"
			name := src(s.Fun)
			if name == "copy" || (library[name] != nil && library[name].mut0) {
				root(stripSlice(s.Args[0]))
			}
			if sel, ok := s.Fun.(*ast.SelectorExpr); ok {
				if id, ok := sel.X.(*ast.Ident); ok {
					res[id.Name+"()"] = true
				}
			}
		}
		return true
	})
	return res
}

func stripSlice(e ast.Expr) ast.Expr {
	if s, ok := e.(*ast.SliceExpr); ok {
		return s.X
	}
	return e
}

func identsOf(e ast.Expr) map[string]bool {
	res := map[string]bool{}
	ast.Inspect(e, func(n ast.Node) bool {
		if id, ok := n.(*ast.Ident); ok {
			res[id.Name] = true
		}
		return true
	})
	return res
}

// an assignable place: a local variable or a field of a local struct variable
func (c *fnCtx) place(e ast.Expr) (get string, set func(string) string, t *Ty) {
	switch x := e.(type) {
	case *ast.ParenExpr:
		return c.place(x.X)
	case *ast.Ident:
		t := c.lookup(x.Name)
		if t == nil {
			bad(e, "assignment to %s, which is not a local variable", x.Name)
		}
		n := lname(x.Name)
		return n, func(v string) string { return n + " := " + v }, t
	case *ast.SelectorExpr:
		id, ok := x.X.(*ast.Ident)
		if !ok {
			bad(e, "assignment to nested field %s", src(e))
		}
		st := c.lookup(id.Name)
		if st == nil || st.K != "struct" {
			bad(e, "assignment to %s", src(e))
		}
		ft := c.typeOf(x)
		n, f := lname(id.Name), lname(x.Sel.Name)
		return n + "." + f, func(v string) string { return n + " := { " + n + " with " + f + " := " + v + " }" }, ft
	}
	bad(e, "assignment to %s", src(e))
	return "", nil, nil
}

func (c *fnCtx) assign(o *out, ind int, lhs ast.Expr, val string, vt *Ty, define bool) {
	if id, ok := lhs.(*ast.Ident); ok {
		if id.Name == "_" {
			o.p(ind, "let _ := %s", val)
			return
		}
		if define && !c.inTop(id.Name) {
			if vt.K == "untyped" {
				vt = tInt
			}
			if vt.K == "nil" || vt.K == "void" {
				bad(lhs, "variable of type %s", vt.K)
			}
			c.declare(id.Name, vt)
			o.p(ind, "let mut %s : %s := %s", lname(id.Name), c.leanTy(vt), val)
			return
		}
	}
	if ix, ok := lhs.(*ast.IndexExpr); ok {
		get, set, t := c.place(ix.X)
		i, _ := c.intExpr(ix.Index, nil)
		switch t.K {
		case "bytes":
			o.p(ind, "%s", set("(← GoLib.setIdx "+get+" "+i+" "+val+")"))
		case "ints":
			o.p(ind, "%s", set("(← GoLib.setIdxI "+get+" "+i+" "+val+")"))
		default:
			bad(lhs, "indexed assignment into %s", t.K)
		}
		return
	}
	_, set, _ := c.place(lhs)
	o.p(ind, "%s", set(val))
}

func (c *fnCtx) leanTy(t *Ty) string {
	if t.K == "struct" || t.K == "optstruct" {
		c.p.usedStructs[t.Name] = true
		u := *t
		u.Name = lname(t.Name)
		return u.lean()
	}
	if t.K == "tuple" {
		var ps []string
		for _, e := range t.Elems {
			ps = append(ps, c.leanTy(e))
		}
		return "(" + strings.Join(ps, " × ") + ")"
	}
	return t.lean()
}

// the type an assignment to lhs expects (nil for a new variable)
func (c *fnCtx) lhsType(lhs ast.Expr, define bool) *Ty {
	if id, ok := lhs.(*ast.Ident); ok {
		if id.Name == "_" || (define && !c.inTop(id.Name)) {
			return nil
		}
		if t := c.lookup(id.Name); t != nil {
			return t
		}
		bad(lhs, "assignment to %s, which is not a local variable", id.Name)
	}
	return c.typeOf(lhs)
}

func (c *fnCtx) block(o *out, ind int, list []ast.Stmt) {
	c.push()
	if len(list) == 0 {
		o.p(ind, "pure ()")
	}
	for _, s := range list {
		c.stmt(o, ind, s)
	}
	c.pop()
}

// statement-level call of something that updates arguments: returns the bound result names and their types
func (c *fnCtx) effectCall(o *out, ind int, x *ast.CallExpr) ([]string, []*Ty, bool) {
	name := src(x.Fun)
	if name == "copy" {
		if len(x.Args) != 2 {
			bad(x, "copy form")
		}
		dst, lo := x.Args[0], "0"
		if sl, ok := dst.(*ast.SliceExpr); ok {
			if sl.High != nil || sl.Slice3 {
				bad(x, "copy into a slice with an upper bound")
			}
			dst = sl.X
			if sl.Low != nil {
				lo, _ = c.intExpr(sl.Low, nil)
			}
		}
		get, set, t := c.place(dst)
		if t.K != "bytes" {
			bad(x, "copy into %s", t.K)
		}
		s, st := c.expr(x.Args[1], tBytes)
		if st.K != "bytes" {
			bad(x, "copy from %s", st.K)
		}
		o.p(ind, "%s", set("(← GoLib.copyAt "+get+" "+lo+" "+s+")"))
		return nil, nil, true
	}
	if l, ok := library[name]; ok && l.mut0 {
		get, set, _ := c.place(x.Args[0])
		var as []string
		for i, a := range x.Args[1:] {
			s, _ := c.expr(a, l.args[i+1])
			as = append(as, s)
		}
		callT := l.lean + " " + get + " " + strings.Join(as, " ")
		if l.res.K == "void" {
			o.p(ind, "%s", set("(← "+callT+")"))
			return nil, nil, true
		}
		t1, t2 := c.tmp(), c.tmp()
		o.p(ind, "let (%s, %s) ← %s", t1, t2, callT)
		o.p(ind, "%s", set(t1))
		return []string{t2}, []*Ty{l.res}, true
	}
	if g, args := c.p.callee(x, c.fi); g != nil {
		c.p.sig(g)
		if len(g.mutates) == 0 {
			return nil, nil, false
		}
		term := c.fnCallTerm(g, x, args)
		var pat []string
		var sets []string
		for _, m := range g.mutates {
			var a ast.Expr
			if m == g.recv {
				a = x.Fun.(*ast.SelectorExpr).X
			} else {
				for i, pn := range g.params {
					if pn == m {
						a = args[i]
					}
				}
			}
			if u, ok := a.(*ast.UnaryExpr); ok && u.Op == token.AND {
				a = u.X
			}
			_, set, _ := c.place(a)
			t := c.tmp()
			pat = append(pat, t)
			sets = append(sets, set(t))
		}
		var names []string
		var tys []*Ty
		rs := []*Ty{g.result}
		if g.result.K == "tuple" {
			rs = g.result.Elems
		} else if g.result.K == "void" {
			rs = nil
		}
		for _, r := range rs {
			t := c.tmp()
			pat = append(pat, t)
			names = append(names, t)
			tys = append(tys, r)
		}
		if len(pat) == 1 {
			o.p(ind, "let %s ← %s", pat[0], term)
		} else {
			o.p(ind, "let (%s) ← %s", strings.Join(pat, ", "), term)
		}
		for _, s := range sets {
			o.p(ind, "%s", s)
		}
		return names, tys, true
	}
	return nil, nil, false
}

func (c *fnCtx) stmt(o *out, ind int, s ast.Stmt) {
	switch x := s.(type) {
	case *ast.EmptyStmt:
	case *ast.BlockStmt:
		o.p(ind, "do")
		c.block(o, ind+1, x.List)
	case *ast.ExprStmt:
		call, ok := x.X.(*ast.CallExpr)
		if !ok {
			bad(s, "expression statement %s", src(x.X))
		}
		if _, _, done := c.effectCall(o, ind, call); done {
			return
		}
		v, _ := c.expr(call, nil)
		o.p(ind, "let _ := %s", v)
	case *ast.DeclStmt:
		gd := x.Decl.(*ast.GenDecl)
		if gd.Tok != token.VAR {
			bad(s, "local %s declaration", gd.Tok)
		}
		for _, sp := range gd.Specs {
			vs := sp.(*ast.ValueSpec)
			var dt *Ty
			if vs.Type != nil {
				dt = c.p.mustType(vs.Type)
			}
			if len(vs.Values) != 0 && len(vs.Values) != len(vs.Names) {
				bad(s, "var declaration from a multi-value call")
			}
			var vals []string
			var tys []*Ty
			for i := range vs.Names {
				if len(vs.Values) == 0 {
					vals = append(vals, zeroOf(dt))
					tys = append(tys, dt)
				} else {
					v, t := c.expr(vs.Values[i], dt)
					if dt != nil {
						t = dt
					}
					vals = append(vals, v)
					tys = append(tys, t)
				}
			}
			for i, n := range vs.Names {
				c.assign(o, ind, n, vals[i], tys[i], true)
			}
		}
	case *ast.IncDecStmt:
		op := token.ADD
		if x.Tok == token.DEC {
			op = token.SUB
		}
		t := c.typeOf(x.X)
		v, _ := c.expr(&ast.BinaryExpr{X: x.X, Op: op, Y: &ast.BasicLit{Kind: token.INT, Value: "1", ValuePos: x.Pos()}, OpPos: x.Pos()}, t)
		c.assign(o, ind, x.X, v, t, false)
	case *ast.AssignStmt:
		c.assignStmt(o, ind, x)
	case *ast.ReturnStmt:
		c.ret(o, ind, x)
	case *ast.IfStmt:
		c.ifStmt(o, ind, x)
	case *ast.SwitchStmt:
		c.switchStmt(o, ind, x)
	case *ast.ForStmt:
		c.forStmt(o, ind, x)
	case *ast.RangeStmt:
		c.rangeStmt(o, ind, x)
	case *ast.BranchStmt:
		if x.Label != nil {
			bad(s, "labelled %s", x.Tok)
		}
		if len(c.loops) == 0 {
			bad(s, "%s outside a loop", x.Tok)
		}
		cur := c.loops[len(c.loops)-1]
		switch x.Tok {
		case token.BREAK:
			if cur == "switch" {
				bad(s, "break inside a switch")
			}
			if strings.HasPrefix(cur, "fuel_ok") {
				o.p(ind, "%s := true", strings.TrimSuffix(cur, "+post"))
			}
			o.p(ind, "break")
		case token.CONTINUE:
			if cur == "switch" {
				bad(s, "continue inside a switch")
			}
			if strings.HasSuffix(cur, "+post") {
				bad(s, "continue in a loop with a post statement")
			}
			o.p(ind, "continue")
		default:
			bad(s, "%s", x.Tok)
		}
	default:
		bad(s, "statement %T", s)
	}
}

func (c *fnCtx) assignStmt(o *out, ind int, x *ast.AssignStmt) {
	define := x.Tok == token.DEFINE
	if x.Tok != token.ASSIGN && !define {
		// op-assignment
		ops := map[token.Token]token.Token{token.ADD_ASSIGN: token.ADD, token.SUB_ASSIGN: token.SUB, token.MUL_ASSIGN: token.MUL,
			token.QUO_ASSIGN: token.QUO, token.REM_ASSIGN: token.REM, token.AND_ASSIGN: token.AND, token.OR_ASSIGN: token.OR,
			token.XOR_ASSIGN: token.XOR, token.SHL_ASSIGN: token.SHL, token.SHR_ASSIGN: token.SHR, token.AND_NOT_ASSIGN: token.AND_NOT}
		op, ok := ops[x.Tok]
		if !ok || len(x.Lhs) != 1 {
			bad(x, "assignment operator %s", x.Tok)
		}
		t := c.typeOf(x.Lhs[0])
		v, _ := c.expr(&ast.BinaryExpr{X: x.Lhs[0], Op: op, Y: x.Rhs[0], OpPos: x.Pos()}, t)
		c.assign(o, ind, x.Lhs[0], v, t, false)
		return
	}
	if len(x.Rhs) == 1 {
		if call, ok := x.Rhs[0].(*ast.CallExpr); ok {
			if names, tys, done := c.effectCall(o, ind, call); done {
				if len(names) != len(x.Lhs) {
					bad(x, "assignment count")
				}
				for i, l := range x.Lhs {
					c.assign(o, ind, l, names[i], tys[i], define)
				}
				return
			}
		}
	}
	if len(x.Lhs) == len(x.Rhs) {
		if len(x.Lhs) == 1 {
			want := c.lhsType(x.Lhs[0], define)
			v, t := c.expr(x.Rhs[0], want)
			if want != nil {
				if t.K != want.K && !(t.K == "untyped" && want.isInt()) {
					bad(x, "assignment of %s to %s", t.K, want.K)
				}
				if t.isInt() && want.isInt() && !t.sameInt(want) {
					bad(x, "assignment between different integer types")
				}
				t = want
			}
			c.assign(o, ind, x.Lhs[0], v, t, define)
			return
		}
		var tmps []string
		var tys []*Ty
		for i, r := range x.Rhs {
			want := c.lhsType(x.Lhs[i], define)
			v, t := c.expr(r, want)
			if want != nil {
				t = want
			}
			tn := c.tmp()
			o.p(ind, "let %s := %s", tn, v)
			tmps = append(tmps, tn)
			tys = append(tys, t)
		}
		for i, l := range x.Lhs {
			c.assign(o, ind, l, tmps[i], tys[i], define)
		}
		return
	}
	if len(x.Rhs) == 1 {
		v, t := c.expr(x.Rhs[0], nil)
		if t.K != "tuple" || len(t.Elems) != len(x.Lhs) {
			bad(x, "multi-value assignment from %s", src(x.Rhs[0]))
		}
		var tmps []string
		for range x.Lhs {
			tmps = append(tmps, c.tmp())
		}
		o.p(ind, "let (%s) := %s", strings.Join(tmps, ", "), v)
		for i, l := range x.Lhs {
			c.assign(o, ind, l, tmps[i], t.Elems[i], define)
		}
		return
	}
	bad(x, "assignment form")
}

func (c *fnCtx) ret(o *out, ind int, x *ast.ReturnStmt) {
	fi := c.fi
	var parts []string
	for _, m := range fi.mutates {
		parts = append(parts, lname(m))
	}
	if fi.dropRes {
		// the returned pointer is one of the pointer parameters
	} else if fi.result.K == "tuple" {
		if len(x.Results) == 1 {
			v, t := c.expr(x.Results[0], fi.result)
			if t.K != "tuple" || len(t.Elems) != len(fi.result.Elems) {
				bad(x, "return of %s", src(x.Results[0]))
			}
			if len(parts) == 0 {
				o.p(ind, "return %s", v)
				return
			}
			var tmps []string
			for range t.Elems {
				tmps = append(tmps, c.tmp())
			}
			o.p(ind, "let (%s) := %s", strings.Join(tmps, ", "), v)
			parts = append(parts, tmps...)
		} else {
			if len(x.Results) != len(fi.result.Elems) {
				bad(x, "bare return / result count")
			}
			for i, r := range x.Results {
				v, t := c.expr(r, fi.result.Elems[i])
				c.checkAssignable(r, t, fi.result.Elems[i])
				parts = append(parts, v)
			}
		}
	} else if fi.result.K != "void" {
		if len(x.Results) != 1 {
			bad(x, "bare return / result count")
		}
		v, t := c.expr(x.Results[0], fi.result)
		c.checkAssignable(x.Results[0], t, fi.result)
		parts = append(parts, v)
	}
	switch len(parts) {
	case 0:
		o.p(ind, "return ()")
	case 1:
		o.p(ind, "return %s", parts[0])
	default:
		o.p(ind, "return (%s)", strings.Join(parts, ", "))
	}
}

func (c *fnCtx) checkAssignable(n ast.Node, t, want *Ty) {
	if t.K == "untyped" && (want.isInt() || want.K == "float") {
		return
	}
	if t.K != want.K || (t.isInt() && !t.sameInt(want)) || ((t.K == "struct" || t.K == "optstruct") && t.Name != want.Name) {
		bad(n, "value of type %s %s where %s %s is required", t.K, t.Name, want.K, want.Name)
	}
}

func (c *fnCtx) ifStmt(o *out, ind int, x *ast.IfStmt) {
	if x.Init != nil {
		o.p(ind, "do")
		ind++
		c.push()
		defer c.pop()
		c.stmt(o, ind, x.Init)
	}
	cond, t := c.expr(x.Cond, tBool)
	if t.K != "bool" {
		bad(x.Cond, "condition of type %s", t.K)
	}
	o.p(ind, "if %s then", cond)
	c.block(o, ind+1, x.Body.List)
	switch e := x.Else.(type) {
	case nil:
	case *ast.BlockStmt:
		o.p(ind, "else")
		c.block(o, ind+1, e.List)
	case *ast.IfStmt:
		o.p(ind, "else")
		c.push()
		c.ifStmt(o, ind+1, e)
		c.pop()
	}
}

func (c *fnCtx) switchStmt(o *out, ind int, x *ast.SwitchStmt) {
	o.p(ind, "do")
	ind++
	c.push()
	defer c.pop()
	if x.Init != nil {
		c.stmt(o, ind, x.Init)
	}
	tag := ""
	var tt *Ty
	if x.Tag != nil {
		v, t := c.expr(x.Tag, nil)
		if t.K == "untyped" {
			t = tInt
		}
		if t.K != "int" && t.K != "bytes" && t.K != "bool" {
			bad(x.Tag, "switch on a value of type %s", t.K)
		}
		tag, tt = c.tmp(), t
		o.p(ind, "let %s := %s", tag, v)
	}
	var def *ast.CaseClause
	first := true
	c.loops = append(c.loops, "switch")
	defer func() { c.loops = c.loops[:len(c.loops)-1] }()
	depth := ind
	for _, cl := range x.Body.List {
		cc := cl.(*ast.CaseClause)
		for _, st := range cc.Body {
			if b, ok := st.(*ast.BranchStmt); ok && b.Tok == token.FALLTHROUGH {
				bad(b, "fallthrough")
			}
		}
		if cc.List == nil {
			def = cc
			continue
		}
		var conds []string
		for _, e := range cc.List {
			if tag == "" {
				v, _ := c.expr(e, tBool)
				conds = append(conds, v)
			} else {
				v, t := c.expr(e, tt)
				c.checkAssignable(e, t, tt)
				if strings.Contains(v, "(←") {
					bad(e, "case expression with a possible panic")
				}
				conds = append(conds, "("+tag+" == "+v+")")
			}
		}
		cond := strings.Join(conds, " || ")
		if strings.Contains(cond, "(←") && !first {
			bad(cc, "case condition with a possible panic")
		}
		if first {
			o.p(depth, "if %s then", cond)
		} else {
			o.p(depth, "else if %s then", cond)
		}
		first = false
		c.block(o, depth+1, cc.Body)
	}
	if def != nil {
		if first {
			c.block(o, depth, def.Body)
		} else {
			o.p(depth, "else")
			c.block(o, depth+1, def.Body)
		}
	} else if first {
		o.p(depth, "pure ()")
	}
}

func (c *fnCtx) rangeStmt(o *out, ind int, x *ast.RangeStmt) {
	if x.Tok != token.DEFINE && !(x.Key == nil && x.Value == nil) {
		bad(x, "range with assignment to existing variables")
	}
	xs, t := c.expr(x.X, nil)
	var lst string
	var et *Ty
	switch {
	case t.K == "bytes" && t.IsStr:
		lst, et = "GoLib.runes "+xs, intTypes["rune"]
	case t.K == "bytes":
		lst, et = "GoLib.enum "+xs, intTypes["uint8"]
	case t.K == "ints":
		lst, et = "GoLib.enumI "+xs, t.ElemInt
	default:
		bad(x, "range over %s", t.K)
	}
	as := assignedRoots(x.Body)
	for id := range identsOf(x.X) {
		if as[id] || as[id+"()"] {
			bad(x, "the body of the range loop assigns %s, which the ranged expression mentions", id)
		}
	}
	name := func(e ast.Expr) string {
		if e == nil {
			return "_"
		}
		id, ok := e.(*ast.Ident)
		if !ok {
			bad(x, "range variable %s", src(e))
		}
		return id.Name
	}
	k, v := name(x.Key), name(x.Value)
	for _, n := range []string{k, v} {
		if n != "_" && as[n] {
			bad(x, "the body assigns the range variable %s", n)
		}
	}
	o.p(ind, "for (%s, %s) in %s do", lname(k), lname(v), lst)
	c.push()
	if k != "_" {
		c.declare(k, tInt)
	}
	if v != "_" {
		c.declare(v, et)
	}
	c.loops = append(c.loops, "")
	c.block(o, ind+1, x.Body.List)
	c.loops = c.loops[:len(c.loops)-1]
	c.pop()
}

func (c *fnCtx) forStmt(o *out, ind int, x *ast.ForStmt) {
	c.nloop++
	// the counted form: for i := a; i < B; i++ with i and B untouched by the body
	if init, ok := x.Init.(*ast.AssignStmt); ok && init.Tok == token.DEFINE && len(init.Lhs) == 1 && len(init.Rhs) == 1 {
		if cond, ok := x.Cond.(*ast.BinaryExpr); ok && cond.Op == token.LSS {
			if post, ok := x.Post.(*ast.IncDecStmt); ok && post.Tok == token.INC {
				iv, ok1 := init.Lhs[0].(*ast.Ident)
				cv, ok2 := cond.X.(*ast.Ident)
				pv, ok3 := post.X.(*ast.Ident)
				if ok1 && ok2 && ok3 && iv.Name == cv.Name && iv.Name == pv.Name {
					as := assignedRoots(x.Body)
					stable := !as[iv.Name] && !identsOf(cond.Y)[iv.Name]
					for id := range identsOf(cond.Y) {
						if as[id] || as[id+"()"] {
							stable = false
						}
					}
					ast.Inspect(cond.Y, func(n ast.Node) bool {
						if ce, ok := n.(*ast.CallExpr); ok {
							if t, _ := c.convType(ce); t == nil && src(ce.Fun) != "len" {
								stable = false
							}
						}
						return true
					})
					if stable {
						it := c.typeOf(init.Rhs[0])
						bt := c.typeOf(cond.Y)
						if it.K == "untyped" {
							it = bt
						}
						if it.K == "untyped" {
							it = tInt
						}
						if !it.isInt() || (bt.isInt() && !bt.sameInt(it)) {
							bad(x, "loop variable and bound of different types")
						}
						lo, _ := c.expr(init.Rhs[0], it)
						hi, _ := c.expr(cond.Y, it)
						o.p(ind, "for %s in GoLib.irange %s %s do", lname(iv.Name), lo, hi)
						c.push()
						c.declare(iv.Name, it)
						c.loops = append(c.loops, "")
						c.block(o, ind+1, x.Body.List)
						c.loops = c.loops[:len(c.loops)-1]
						c.pop()
						return
					}
				}
			}
		}
	}
	// the general form: needs a fuel measure
	key := fmt.Sprintf("%s %s#%d", c.p.dir, c.fi.key, c.nloop)
	fuelSrc, ok := fuelOf[key]
	if !ok {
		bad(x, "for loop that is not of the counted form `for i := a; i < b; i++` needs a fuel measure (none given for %q)", key)
	}
	o.p(ind, "do")
	ind++
	c.push()
	defer c.pop()
	if x.Init != nil {
		c.stmt(o, ind, x.Init)
	}
	fe, err := parseExpr(fuelSrc)
	if err != nil {
		bad(x, "fuel expression %q: %v", fuelSrc, err)
	}
	fuel, _ := c.intExpr(fe, tInt)
	flag := fmt.Sprintf("fuel_ok%d", c.nloop)
	o.p(ind, "let mut %s := false", flag)
	o.p(ind, "for _ in GoLib.fuelList %s do", fuel)
	if x.Cond != nil {
		cond, _ := c.expr(x.Cond, tBool)
		o.p(ind+1, "if !%s then", cond)
		o.p(ind+2, "%s := true", flag)
		o.p(ind+2, "break")
	}
	tagged := flag
	if x.Post != nil {
		tagged += "+post"
	}
	c.loops = append(c.loops, tagged)
	c.push()
	for _, s := range x.Body.List {
		c.stmt(o, ind+1, s)
	}
	c.pop()
	c.loops = c.loops[:len(c.loops)-1]
	if x.Post != nil {
		c.stmt(o, ind+1, x.Post)
	}
	if x.Cond == nil && len(x.Body.List) == 0 && x.Post == nil {
		o.p(ind+1, "pure ()")
	}
	o.p(ind, "if !%s then", flag)
	o.p(ind+1, "throw GoLib.Panic.fuel")
}

// ---- slice aliasing ----------------------------------------------------------------------------------------
//
// Slices are translated as values. That is only faithful if no two live names share a backing array that is written
// through one of them. Conservative syntactic check: a binding `x = y`, `x := y[a:b]`, `x := s.f`, `s.f = y` … between
// slice-typed places (anything but make / literals / append / conversions on the right) is an alias pair; the function is
// rejected if, after the binding, an element of one side is written (x[i] = …, copy(x…, …), PutVarint(x, …)) and the other
// side is mentioned after that write (inside a loop: anywhere in the loop).
func (p *Pkg) checkAliasing(fi *funcInfo) {
	type place struct {
		name string
		pos  token.Pos
	}
	placeOf := func(e ast.Expr) string { // "x" or "x.f"; "" if not a place
		for {
			switch x := e.(type) {
			case *ast.ParenExpr:
				e = x.X
			case *ast.SliceExpr:
				e = x.X
			case *ast.Ident:
				return x.Name
			case *ast.SelectorExpr:
				if id, ok := x.X.(*ast.Ident); ok {
					return id.Name + "." + x.Sel.Name
				}
				return ""
			default:
				return ""
			}
		}
	}
	type pair struct {
		l, r string
		pos  token.Pos
	}
	var pairs []pair
	var writes []place
	var loops [][2]token.Pos
	ast.Inspect(fi.decl.Body, func(n ast.Node) bool {
		switch s := n.(type) {
		case *ast.ForStmt:
			loops = append(loops, [2]token.Pos{s.Pos(), s.End()})
		case *ast.RangeStmt:
			loops = append(loops, [2]token.Pos{s.Pos(), s.End()})
		case *ast.AssignStmt:
			if len(s.Lhs) == len(s.Rhs) {
				for i, l := range s.Lhs {
					lp, rp := placeOf(l), placeOf(s.Rhs[i])
					if _, isIdx := l.(*ast.IndexExpr); isIdx {
						continue
					}
					if lp != "" && rp != "" && lp != "_" {
						pairs = append(pairs, pair{lp, rp, s.End()})
					}
				}
			}
			for _, l := range s.Lhs {
				if ix, ok := l.(*ast.IndexExpr); ok {
					if w := placeOf(ix.X); w != "" {
						writes = append(writes, place{w, s.End()})
					}
				}
			}
		case *ast.CallExpr:
			name := src(s.Fun)
			if name == "copy" || (library[name] != nil && library[name].mut0) {
				if w := placeOf(s.Args[0]); w != "" {
					writes = append(writes, place{w, s.End()})
				}
			}
		}
		return true
	})
	if len(pairs) == 0 || len(writes) == 0 {
		return
	}
	// mentions of a place
	mentions := map[string][]token.Pos{}
	ast.Inspect(fi.decl.Body, func(n ast.Node) bool {
		switch x := n.(type) {
		case *ast.SelectorExpr:
			if id, ok := x.X.(*ast.Ident); ok {
				mentions[id.Name+"."+x.Sel.Name] = append(mentions[id.Name+"."+x.Sel.Name], x.Pos())
			}
		case *ast.Ident:
			mentions[x.Name] = append(mentions[x.Name], x.Pos())
		}
		return true
	})
	inLoop := func(a token.Pos) (token.Pos, token.Pos, bool) {
		for _, l := range loops {
			if l[0] <= a && a <= l[1] {
				return l[0], l[1], true
			}
		}
		return 0, 0, false
	}
	for _, pr := range pairs {
		if pr.l == pr.r {
			continue // b = b[n:] re-binds the same name
		}
		for _, w := range writes {
			var other string
			switch w.name {
			case pr.l:
				other = pr.r
			case pr.r:
				other = pr.l
			default:
				continue
			}
			lo, hi, loop := inLoop(w.pos)
			if w.pos < pr.pos && !loop {
				continue // written before the two names were bound together
			}
			for _, m := range mentions[other] {
				if m > w.pos || (loop && lo <= m && m <= hi) {
					bad(fi.decl, "possible aliasing: %s and %s may share a backing array, %s is written and %s is used afterwards (slices are translated as values)", pr.l, pr.r, w.name, other)
				}
			}
		}
	}
}

// ---- functions -------------------------------------------------------------------------------------------

func (p *Pkg) translate(fi *funcInfo) {
	if fi.out != "" || fi.err != "" {
		return
	}
	fi.err = "(being translated: recursion)"
	defer func() {
		if r := recover(); r != nil {
			te, ok := r.(trErr)
			if !ok {
				panic(r)
			}
			fi.err = te.msg
			fi.out = ""
		}
	}()
	p.sig(fi)
	p.checkAliasing(fi)
	c := &fnCtx{p: p, fi: fi, ext: map[string]bool{}, extUse: map[string]int{}, calls: map[string]bool{}}
	c.push()
	var o out
	var ps []string
	assigned := assignedRoots(fi.decl.Body)
	var shadow []string
	if fi.recv != "" {
		c.declare(fi.recv, fi.recvTy)
		ps = append(ps, fmt.Sprintf("(%s : %s)", lname(fi.recv), c.leanTy(fi.recvTy)))
		if assigned[fi.recv] || len(fi.mutates) > 0 {
			shadow = append(shadow, fi.recv)
		}
	}
	for i, n := range fi.params {
		c.declare(n, fi.ptypes[i])
		ps = append(ps, fmt.Sprintf("(%s : %s)", lname(n), c.leanTy(fi.ptypes[i])))
		if assigned[n] || len(fi.mutates) > 0 {
			shadow = append(shadow, n)
		}
	}
	for _, n := range shadow {
		if assigned[n] || assigned[n+"()"] {
			o.p(1, "let mut %s := %s", lname(n), lname(n))
		}
	}
	c.push()
	for _, s := range fi.decl.Body.List {
		c.stmt(&o, 1, s)
	}
	c.pop()
	// a body that can fall off its end (no result): return the updated parameters
	needRet := true
	if n := len(fi.decl.Body.List); n > 0 {
		if _, ok := fi.decl.Body.List[n-1].(*ast.ReturnStmt); ok {
			needRet = false
		}
	}
	if needRet {
		if fi.result.K == "void" && !fi.dropRes {
			c.ret(&o, 1, &ast.ReturnStmt{})
		} else if !terminates(fi.decl.Body.List) {
			bad(fi.decl, "function body may fall off its end")
		}
	}
	var es []string
	for _, e := range sortedKeys(c.ext) {
		es = append(es, fmt.Sprintf("(%s : %s)", externals[e].param, externals[e].leanTy))
	}
	fi.ext = sortedKeys(c.ext)
	fi.calls = sortedKeys(c.calls)
	pos := fset.Position(fi.decl.Pos())
	var w bytes.Buffer
	sigSrc := src(&ast.FuncDecl{Recv: fi.decl.Recv, Name: fi.decl.Name, Type: fi.decl.Type})
	fmt.Fprintf(&w, "/-- Go: %s/%s:%d  `%s`", p.dir, filepath.Base(pos.Filename), pos.Line, strings.ReplaceAll(sigSrc, "-/", "- /"))
	if len(fi.mutates) > 0 {
		fmt.Fprintf(&w, "\n    updates %v: returned first", fi.mutates)
	}
	if fi.dropRes {
		fmt.Fprintf(&w, "\n    the pointer result is always one of the pointer parameters: dropped")
	}
	fmt.Fprintf(&w, " -/\n")
	fmt.Fprintf(&w, "def %s %s : GoLib.M %s := do\n", fi.leanName, strings.Join(append(es, ps...), " "), c.leanTy(fi.leanResult(p)))
	w.WriteString(strings.Join(o.lines, "\n") + "\n")
	fi.out = w.String()
	fi.err = ""
}

// does a statement list always end in a return?
func terminates(list []ast.Stmt) bool {
	if len(list) == 0 {
		return false
	}
	switch s := list[len(list)-1].(type) {
	case *ast.ReturnStmt:
		return true
	case *ast.BlockStmt:
		return terminates(s.List)
	case *ast.IfStmt:
		if s.Else == nil || !terminates(s.Body.List) {
			return false
		}
		switch e := s.Else.(type) {
		case *ast.BlockStmt:
			return terminates(e.List)
		case *ast.IfStmt:
			return terminates([]ast.Stmt{e})
		}
	case *ast.SwitchStmt:
		hasDef := false
		for _, cl := range s.Body.List {
			cc := cl.(*ast.CaseClause)
			if cc.List == nil {
				hasDef = true
			}
			if !terminates(cc.Body) {
				return false
			}
		}
		return hasDef
	}
	return false
}

// ---- output ------------------------------------------------------------------------------------------------

func (p *Pkg) emit(w *bytes.Buffer, keys []string) {
	fmt.Fprintf(w, "\n/-! ## package %s (%s) -/\nnamespace %s\n", p.name, p.dir, p.name)
	// order: dependencies first, ties by name
	done := map[string]bool{}
	var order []string
	var visit func(k string)
	visit = func(k string) {
		if done[k] {
			return
		}
		done[k] = true
		fi := p.funcs[k]
		for _, d := range fi.calls {
			visit(d)
		}
		order = append(order, k)
	}
	sort.Strings(keys)
	for _, k := range keys {
		visit(k)
	}
	// structs: a struct used in a field of another first
	emitted := map[string]bool{}
	var emitStruct func(sn string)
	emitStruct = func(sn string) {
		if emitted[sn] {
			return
		}
		emitted[sn] = true
		si := p.structs[sn]
		for _, f := range si.fields {
			if ft := si.ftype[f]; ft.K == "struct" {
				emitStruct(ft.Name)
			}
		}
		fmt.Fprintf(w, "\n/-- Go: %s/%s:%d  `type %s struct`", p.dir, filepath.Base(si.pos.Filename), si.pos.Line, sn)
		if len(si.skipped) > 0 {
			fmt.Fprintf(w, "; fields outside the subset (a function touching one is rejected):")
			for _, f := range sortedKeys(si.skipped) {
				fmt.Fprintf(w, " %s (%s)", f, si.skipped[f])
			}
		}
		fmt.Fprintf(w, " -/\nstructure %s where\n", lname(sn))
		if len(si.fields) == 0 {
			fmt.Fprintf(w, "  mk ::\n")
		}
		for _, f := range si.fields {
			ft := si.ftype[f]
			if ft.K == "struct" {
				fmt.Fprintf(w, "  %s : %s\n", lname(f), lname(ft.Name))
			} else {
				fmt.Fprintf(w, "  %s : %s\n", lname(f), ft.lean())
			}
		}
		fmt.Fprintf(w, "  deriving DecidableEq, Inhabited\n")
	}
	for _, sn := range sortedKeys(p.usedStructs) {
		emitStruct(sn)
	}
	for _, cn := range sortedKeys(p.usedConsts) {
		ci := p.consts[cn]
		ty := "untyped constant"
		if ci.ty != nil {
			ty = ci.ty.Name
		}
		fmt.Fprintf(w, "\n/-- Go constant (%s) -/\ndef %s : Int := %d\n", ty, lname(cn), ci.val)
	}
	for _, tn := range sortedKeys(p.usedTables) {
		t := p.tables[tn]
		fmt.Fprintf(w, "\n/-- Go package-level variable, never assigned in the package -/\ndef %s : %s := %s\n", lname(tn), t.ty.lean(), t.lean)
	}
	for _, en := range sortedKeys(p.usedErrs) {
		fmt.Fprintf(w, "\n/-- Go: `var %s = errors.New(…)` -/\ndef %s : GoLib.Error := some %s\n", en, lname(en), p.errs[en])
	}
	for _, k := range order {
		fmt.Fprintf(w, "\n%s", p.funcs[k].out)
	}
	fmt.Fprintf(w, "\nend %s\n", p.name)
}

type target struct{ dir, key string }

func readTargets(path string) []target {
	f, err := os.Open(path)
	if err != nil {
		fail("targets: " + err.Error())
	}
	defer f.Close()
	var ts []target
	sc := bufio.NewScanner(f)
	for sc.Scan() {
		line := strings.TrimSpace(sc.Text())
		if i := strings.Index(line, "#!"); i >= 0 { // comment marker (a plain # occurs in fuel keys)
			line = strings.TrimSpace(line[:i])
		}
		if line == "" {
			continue
		}
		fs := strings.Fields(line)
		if fs[0] == "fuel" && len(fs) >= 4 {
			fuelOf[fs[1]+" "+fs[2]] = strings.Join(fs[3:], " ")
			continue
		}
		if len(fs) != 2 {
			fail("targets: bad line: " + line)
		}
		ts = append(ts, target{fs[0], fs[1]})
	}
	return ts
}

// extract -translate <repo> <targets-file>: Lean source on stdout; exit 2 if a target is outside the subset
func translateMain(root, targetsPath string) {
	ts := readTargets(targetsPath)
	pkgs := map[string]*Pkg{}
	byDir := map[string][]string{}
	var errs []string
	for _, t := range ts {
		p := pkgs[t.dir]
		if p == nil {
			p = loadPkg(root, t.dir)
			pkgs[t.dir] = p
		}
		fi := p.funcs[t.key]
		if fi == nil {
			errs = append(errs, fmt.Sprintf("go2lean: %s %s: function not found", t.dir, t.key))
			continue
		}
		p.translate(fi)
		if fi.err != "" {
			errs = append(errs, fmt.Sprintf("go2lean: %s %s: outside the subset: %s", t.dir, t.key, fi.err))
			continue
		}
		byDir[t.dir] = append(byDir[t.dir], t.key)
	}
	// a target outside the subset: reported loudly (stderr, exit 3); the functions that do translate are still
	// printed, so that only the obligations about the missing ones break
	for _, e := range errs {
		fmt.Fprintln(os.Stderr, e)
	}
	if len(errs) > 0 {
		defer os.Exit(3)
	}
	var w bytes.Buffer
	fmt.Fprintf(&w, "-- generated by /verif/extract -translate from %s; regenerated by every check run, never edited\n", root)
	fmt.Fprintf(&w, "set_option linter.unusedVariables false\nnamespace NodisVerif.Translated\nopen NodisVerif\n")
	for _, d := range sortedKeys(byDir) {
		pkgs[d].emit(&w, byDir[d])
	}
	fmt.Fprintf(&w, "\nend NodisVerif.Translated\n")
	os.Stdout.Write(w.Bytes())
}

// extract -survey <repo> <dir>...: which functions of the packages are inside the subset
func surveyMain(root string, targetsPath string, dirs []string) {
	readTargets(targetsPath)
	for _, d := range dirs {
		p := loadPkg(root, d)
		for _, k := range sortedKeys(p.funcs) {
			fi := p.funcs[k]
			p.translate(fi)
			if fi.err != "" {
				fmt.Printf("NO  %s %s: %s\n", d, k, fi.err)
			} else {
				fmt.Printf("OK  %s %s\n", d, k)
			}
		}
	}
}
