// go2lean part 2: signatures, type inference and expressions.
package main

import (
	"fmt"
	"go/ast"
	"go/token"
	"sort"
	"strconv"
	"strings"
)

// external functions that are not modelled but passed in as parameters of the translated function
type extInfo struct {
	param  string // Lean parameter name
	leanTy string
	args   []*Ty
	res    *Ty
	isVal  bool // a value (one call allowed per function), not a function
}

var tI64 = intTypes["int64"]
var tU64 = intTypes["uint64"]

var externals = map[string]*extInfo{
	"strconv.ParseInt":   {param: "strconv_ParseInt", leanTy: "Bytes → Int → Int → Int × GoLib.Error", args: []*Ty{tString, tInt, tInt}, res: &Ty{K: "tuple", Elems: []*Ty{tI64, tError}}},
	"strconv.ParseFloat": {param: "strconv_ParseFloat", leanTy: "Bytes → Int → Int × GoLib.Error", args: []*Ty{tString, tInt}, res: &Ty{K: "tuple", Elems: []*Ty{tFloat, tError}}},
	"rand.Uint64":        {param: "rand_Uint64", leanTy: "Int", res: tU64, isVal: true},
}

// modelled library functions (GoLib): pure unless eff; mut0 = the first argument is updated (returned first)
type libInfo struct {
	lean string
	args []*Ty
	res  *Ty
	eff  bool
	mut0 bool
}

var library = map[string]*libInfo{
	"binary.PutVarint":              {lean: "GoLib.binary_PutVarint", args: []*Ty{tBytes, tI64}, res: tInt, eff: true, mut0: true},
	"binary.Varint":                 {lean: "GoLib.binary_Varint", args: []*Ty{tBytes}, res: &Ty{K: "tuple", Elems: []*Ty{tI64, tInt}}},
	"binary.LittleEndian.PutUint64": {lean: "GoLib.binary_LittleEndian_PutUint64", args: []*Ty{tBytes, tU64}, res: tVoid, eff: true, mut0: true},
	"binary.LittleEndian.Uint64":    {lean: "GoLib.binary_LittleEndian_Uint64", args: []*Ty{tBytes}, res: tU64, eff: true},
	"bits.Len64":                    {lean: "GoLib.bits_Len64", args: []*Ty{tU64}, res: tInt},
	"math.IsNaN":                    {lean: "GoLib.math_IsNaN", args: []*Ty{tFloat}, res: tBool},
	"math.Float64bits":              {lean: "id", args: []*Ty{tFloat}, res: tU64},
	"math.Float64frombits":          {lean: "id", args: []*Ty{tU64}, res: tFloat},
}

var libConsts = map[string]struct {
	lean string
	ty   *Ty
}{
	"binary.MaxVarintLen64": {"GoLib.binary_MaxVarintLen64", tUntyped},
	"math.MinInt64":         {"GoLib.math_MinInt64", tUntyped},
	"math.MaxInt64":         {"GoLib.math_MaxInt64", tUntyped},
}

// ---- signatures --------------------------------------------------------------------------------------

func (p *Pkg) sig(fi *funcInfo) {
	if fi.sigErr != "" {
		panic(trErr{"signature of " + fi.key + ": " + fi.sigErr})
	}
	if fi.sigDone {
		return
	}
	defer func() {
		if r := recover(); r != nil {
			if te, ok := r.(trErr); ok {
				fi.sigErr = te.msg
			}
			panic(r)
		}
	}()
	p.sig0(fi)
	fi.sigDone = true
}

func (p *Pkg) sig0(fi *funcInfo) {
	fd := fi.decl
	if fd.Type.TypeParams != nil {
		bad(fd, "generic function")
	}
	if fd.Recv != nil {
		fl := fd.Recv.List[0]
		t := p.mustType(fl.Type)
		isPtr := false
		if t.K == "optstruct" {
			t = &Ty{K: "struct", Name: t.Name}
			isPtr = true
		}
		if t.K != "struct" {
			bad(fd, "receiver of type %s", src(fl.Type))
		}
		fi.recvTy = t
		fi.recv = "_recv"
		if len(fl.Names) == 1 {
			fi.recv = fl.Names[0].Name
		}
		if isPtr { // a value receiver is a copy: assignments through it stay local
			fi.ptrParam[fi.recv] = true
		}
	}
	fi.params = []string{}
	for _, fl := range fd.Type.Params.List {
		if _, ok := fl.Type.(*ast.Ellipsis); ok {
			bad(fl, "variadic parameter")
		}
		t := p.mustType(fl.Type)
		if len(fl.Names) == 0 {
			bad(fl, "unnamed parameter")
		}
		for _, n := range fl.Names {
			if t.K == "optstruct" {
				fi.ptrParam[n.Name] = true
				fi.ptypes = append(fi.ptypes, &Ty{K: "struct", Name: t.Name})
			} else {
				fi.ptypes = append(fi.ptypes, t)
			}
			fi.params = append(fi.params, n.Name)
		}
	}
	var rs []*Ty
	if fd.Type.Results != nil {
		for _, fl := range fd.Type.Results.List {
			if len(fl.Names) > 0 {
				bad(fl, "named results")
			}
			rs = append(rs, p.mustType(fl.Type))
		}
	}
	switch len(rs) {
	case 0:
		fi.result = tVoid
	case 1:
		fi.result = rs[0]
	default:
		fi.result = &Ty{K: "tuple", Elems: rs}
	}
	// a single pointer result that is always one of the pointer parameters aliases it: dropped
	if fi.result.K == "optstruct" {
		all, any := true, false
		ast.Inspect(fd.Body, func(n ast.Node) bool {
			if r, ok := n.(*ast.ReturnStmt); ok {
				any = true
				id, ok := r.Results[0].(*ast.Ident)
				if !(ok && fi.ptrParam[id.Name]) {
					all = false
				}
			}
			return true
		})
		if all && any {
			fi.dropRes = true
			fi.result = tVoid
		}
	}
	// which pointer parameters does the body assign through?
	mut := map[string]bool{}
	var visit func(n ast.Node) bool
	rootSel := func(e ast.Expr) string { // x.f, x.f[i], x.f.g …: the root identifier if a selector is on the path
		sel := false
		for {
			switch x := e.(type) {
			case *ast.SelectorExpr:
				sel = true
				e = x.X
			case *ast.IndexExpr:
				e = x.X
			case *ast.ParenExpr:
				e = x.X
			case *ast.StarExpr:
				sel = true
				e = x.X
			case *ast.Ident:
				if sel {
					return x.Name
				}
				return ""
			default:
				return ""
			}
		}
	}
	visit = func(n ast.Node) bool {
		switch s := n.(type) {
		case *ast.AssignStmt:
			for _, l := range s.Lhs {
				if r := rootSel(l); fi.ptrParam[r] {
					mut[r] = true
				}
			}
		case *ast.IncDecStmt:
			if r := rootSel(s.X); fi.ptrParam[r] {
				mut[r] = true
			}
		case *ast.CallExpr:
			if g, args := p.callee(s, fi); g != nil && g != fi {
				p.sig(g)
				for _, m := range g.mutates {
					var a ast.Expr
					if m == g.recv {
						a = s.Fun.(*ast.SelectorExpr).X
					} else {
						for i, pn := range g.params {
							if pn == m {
								a = args[i]
							}
						}
					}
					if id, ok := a.(*ast.Ident); ok && fi.ptrParam[id.Name] {
						mut[id.Name] = true
					}
				}
			}
		}
		return true
	}
	ast.Inspect(fd.Body, visit)
	if fi.recv != "" && mut[fi.recv] {
		fi.mutates = append(fi.mutates, fi.recv)
	}
	for _, pn := range fi.params {
		if mut[pn] {
			fi.mutates = append(fi.mutates, pn)
		}
	}
}

// the translated function a call refers to (same package function, or a method on a struct-typed receiver variable)
func (p *Pkg) callee(c *ast.CallExpr, from *funcInfo) (*funcInfo, []ast.Expr) {
	switch f := c.Fun.(type) {
	case *ast.Ident:
		if g, ok := p.funcs[f.Name]; ok {
			return g, c.Args
		}
	case *ast.SelectorExpr:
		if id, ok := f.X.(*ast.Ident); ok && from != nil {
			// receiver variable of a known struct type: find the method by name among the package's methods
			for _, k := range sortedKeys(p.funcs) {
				g := p.funcs[k]
				if strings.HasSuffix(k, "."+f.Sel.Name) && from.varStruct(p, id.Name) == strings.SplitN(k, ".", 2)[0] {
					return g, c.Args
				}
			}
		}
	}
	return nil, nil
}

// struct type name of a receiver/parameter by its declaration (used before the body is translated)
func (fi *funcInfo) varStruct(p *Pkg, name string) string {
	fd := fi.decl
	check := func(fl *ast.Field) string {
		for _, n := range fl.Names {
			if n.Name == name {
				if t, _ := p.tryType(fl.Type); t != nil && (t.K == "struct" || t.K == "optstruct") {
					return t.Name
				}
			}
		}
		return ""
	}
	if fd.Recv != nil {
		if s := check(fd.Recv.List[0]); s != "" {
			return s
		}
	}
	for _, fl := range fd.Type.Params.List {
		if s := check(fl); s != "" {
			return s
		}
	}
	return ""
}

// the Lean result type of a translated function
func (fi *funcInfo) leanResult(p *Pkg) *Ty {
	var es []*Ty
	for _, m := range fi.mutates {
		if m == fi.recv {
			es = append(es, fi.recvTy)
		} else {
			for i, pn := range fi.params {
				if pn == m {
					es = append(es, fi.ptypes[i])
				}
			}
		}
	}
	if fi.result.K == "tuple" {
		es = append(es, fi.result.Elems...)
	} else if fi.result.K != "void" {
		es = append(es, fi.result)
	}
	switch len(es) {
	case 0:
		return tVoid
	case 1:
		return es[0]
	}
	return &Ty{K: "tuple", Elems: es}
}

// ---- function context ------------------------------------------------------------------------------------

type fnCtx struct {
	p      *Pkg
	fi     *funcInfo
	scopes []map[string]*Ty
	ext    map[string]bool
	extUse map[string]int
	calls  map[string]bool
	loops  []string // per enclosing loop: "" or the name of the fuel flag
	nloop  int
	ntmp   int
}

func (c *fnCtx) lookup(name string) *Ty {
	for i := len(c.scopes) - 1; i >= 0; i-- {
		if t, ok := c.scopes[i][name]; ok {
			return t
		}
	}
	return nil
}
func (c *fnCtx) declare(name string, t *Ty) { c.scopes[len(c.scopes)-1][name] = t }
func (c *fnCtx) inTop(name string) bool     { _, ok := c.scopes[len(c.scopes)-1][name]; return ok }
func (c *fnCtx) push()                      { c.scopes = append(c.scopes, map[string]*Ty{}) }
func (c *fnCtx) pop()                       { c.scopes = c.scopes[:len(c.scopes)-1] }
func (c *fnCtx) tmp() string                { c.ntmp++; return fmt.Sprintf("t%d_", c.ntmp) }

func bytesLit(bl *ast.BasicLit) string {
	s, err := strconv.Unquote(bl.Value)
	if err != nil {
		bad(bl, "string literal %s", bl.Value)
	}
	var xs []string
	for i := 0; i < len(s); i++ {
		xs = append(xs, fmt.Sprint(s[i]))
	}
	safe := strings.NewReplacer("-/", "- /", "/-", "/ -", "\n", " ").Replace(bl.Value)
	return "([" + strings.Join(xs, ", ") + "] /- " + safe + " -/ : Bytes)"
}

func isConstExpr(c *fnCtx, e ast.Expr) (int64, bool) {
	switch x := e.(type) {
	case *ast.Ident:
		if c.lookup(x.Name) == nil {
			if ci, ok := c.p.consts[x.Name]; ok {
				return ci.val, true
			}
		}
		return 0, false
	case *ast.ParenExpr:
		return isConstExpr(c, x.X)
	case *ast.BinaryExpr:
		a, ok1 := isConstExpr(c, x.X)
		b, ok2 := isConstExpr(c, x.Y)
		if ok1 && ok2 {
			switch x.Op {
			case token.ADD:
				return a + b, true
			case token.SUB:
				return a - b, true
			case token.MUL:
				return a * b, true
			}
		}
		return 0, false
	}
	return evalInt(e, 0)
}

// ---- type inference -----------------------------------------------------------------------------------------

func (c *fnCtx) typeOf(e ast.Expr) *Ty {
	switch x := e.(type) {
	case *ast.BasicLit:
		switch x.Kind {
		case token.INT, token.CHAR:
			return tUntyped
		case token.STRING:
			return tString
		}
		bad(e, "literal %s", x.Value)
	case *ast.ParenExpr:
		return c.typeOf(x.X)
	case *ast.Ident:
		if t := c.lookup(x.Name); t != nil {
			return t
		}
		switch x.Name {
		case "true", "false":
			return tBool
		case "nil":
			return &Ty{K: "nil"}
		}
		if ci, ok := c.p.consts[x.Name]; ok {
			if ci.ty != nil {
				return ci.ty
			}
			return tUntyped
		}
		if t, ok := c.p.tables[x.Name]; ok {
			return t.ty
		}
		if _, ok := c.p.errs[x.Name]; ok {
			return tError
		}
		bad(e, "identifier %s (not a local, constant, or constant table of the package)", x.Name)
	case *ast.UnaryExpr:
		switch x.Op {
		case token.NOT:
			return tBool
		case token.SUB, token.XOR, token.ADD:
			return c.typeOf(x.X)
		case token.AND:
			if cl, ok := x.X.(*ast.CompositeLit); ok {
				return c.typeOf(cl)
			}
		}
		bad(e, "unary operator %s", x.Op)
	case *ast.BinaryExpr:
		switch x.Op {
		case token.LAND, token.LOR, token.EQL, token.NEQ, token.LSS, token.LEQ, token.GTR, token.GEQ:
			return tBool
		case token.SHL, token.SHR:
			return c.typeOf(x.X)
		}
		lt, rt := c.typeOf(x.X), c.typeOf(x.Y)
		if lt.K == "untyped" {
			return rt
		}
		return lt
	case *ast.CallExpr:
		if t, _ := c.convType(x); t != nil {
			return t
		}
		name := src(x.Fun)
		switch name {
		case "len":
			return tInt
		case "append":
			return c.typeOf(x.Args[0])
		case "make":
			return c.p.mustType(x.Args[0])
		case "unsafe.String":
			return tString
		case "unsafe.Slice":
			return tBytes
		case "errors.New":
			return tError
		}
		if l, ok := library[name]; ok {
			return l.res
		}
		if ex, ok := externals[name]; ok {
			return ex.res
		}
		if g, _ := c.p.callee(x, c.fi); g != nil {
			c.p.sig(g)
			return g.leanResultGo()
		}
		bad(e, "call of %s (not translated, not in the library)", name)
	case *ast.IndexExpr:
		t := c.typeOf(x.X)
		switch t.K {
		case "bytes":
			return intTypes["uint8"]
		case "ints":
			return t.ElemInt
		}
		bad(e, "index into %s", src(x.X))
	case *ast.SliceExpr:
		t := c.typeOf(x.X)
		if t.K == "bytes" || t.K == "ints" {
			return t
		}
		bad(e, "slice of %s", src(x.X))
	case *ast.SelectorExpr:
		if lc, ok := libConsts[src(x)]; ok {
			return lc.ty
		}
		t := c.typeOf(x.X)
		if t.K == "struct" {
			si := c.p.structs[t.Name]
			if ft, ok := si.ftype[x.Sel.Name]; ok {
				return ft
			}
			if why, ok := si.skipped[x.Sel.Name]; ok {
				bad(e, "field %s.%s has an unsupported type (%s)", t.Name, x.Sel.Name, why)
			}
		}
		bad(e, "selector %s", src(x))
	case *ast.CompositeLit:
		if x.Type == nil {
			bad(e, "composite literal without type")
		}
		t := c.p.mustType(x.Type)
		return t
	}
	bad(e, "expression %s", src(e))
	return nil
}

// result as the Go caller sees it (mutated parameters are not part of it)
func (fi *funcInfo) leanResultGo() *Ty { return fi.result }

// is the call a conversion T(e)? returns the target type
func (c *fnCtx) convType(x *ast.CallExpr) (*Ty, ast.Expr) {
	if len(x.Args) != 1 {
		return nil, nil
	}
	switch f := x.Fun.(type) {
	case *ast.Ident:
		if c.lookup(f.Name) != nil {
			return nil, nil
		}
		if t, ok := intTypes[f.Name]; ok {
			return t, x.Args[0]
		}
		if t, ok := c.p.named[f.Name]; ok {
			return t, x.Args[0]
		}
		if f.Name == "string" {
			return tString, x.Args[0]
		}
		if f.Name == "float64" {
			bad(x, "conversion to float64")
		}
	case *ast.ArrayType:
		t := c.p.mustType(f)
		return t, x.Args[0]
	case *ast.ParenExpr:
		return nil, nil
	}
	return nil, nil
}

// ---- expressions --------------------------------------------------------------------------------------------

func wrapTo(t *Ty, code string) string { return "(GoLib.wrap " + t.it() + " " + code + ")" }

// translate e; want (may be nil) is the type the context requires (gives untyped constants their type)
func (c *fnCtx) expr(e ast.Expr, want *Ty) (string, *Ty) {
	code, t := c.expr0(e, want)
	if want != nil {
		if want.K == "optstruct" && t.K == "struct" && t.Name == want.Name {
			return "(some " + code + ")", want
		}
		if t.K == "nil" {
			switch want.K {
			case "optstruct", "error":
				return "none", want
			case "bytes", "ints":
				return "[]", want
			}
			bad(e, "nil as %s", want.K)
		}
		if t.K == "untyped" && (want.isInt() || want.K == "float") {
			if want.K == "float" {
				if code != "0" {
					bad(e, "float64 constant other than 0")
				}
			}
			return code, want
		}
		if t.K == "bytes" && want.K == "bytes" {
			return code, want
		}
	}
	return code, t
}

func (c *fnCtx) intExpr(e ast.Expr, want *Ty) (string, *Ty) {
	code, t := c.expr(e, want)
	if t.K == "untyped" {
		t = tInt
	}
	if !t.isInt() {
		bad(e, "integer expression expected: %s", src(e))
	}
	return code, t
}

func (c *fnCtx) expr0(e ast.Expr, want *Ty) (string, *Ty) {
	switch x := e.(type) {
	case *ast.BasicLit:
		switch x.Kind {
		case token.INT, token.CHAR:
			v, ok := evalInt(x, 0)
			if !ok {
				// a literal beyond int64 (e.g. 0xaaaaaaaaaaaaaaaa): parse as unsigned
				u, err := strconv.ParseUint(x.Value, 0, 64)
				if err != nil {
					bad(e, "integer literal %s", x.Value)
				}
				return fmt.Sprint(u), tUntyped
			}
			return fmt.Sprint(v), tUntyped
		case token.STRING:
			return bytesLit(x), tString
		}
		bad(e, "literal %s", x.Value)
	case *ast.ParenExpr:
		return c.expr0(x.X, want)
	case *ast.Ident:
		t := c.typeOf(x)
		if c.lookup(x.Name) != nil {
			return lname(x.Name), t
		}
		switch x.Name {
		case "true", "false", "nil":
			return x.Name, t
		}
		if _, ok := c.p.consts[x.Name]; ok {
			c.p.usedConsts[x.Name] = true
			return lname(x.Name), t
		}
		if _, ok := c.p.tables[x.Name]; ok {
			c.p.usedTables[x.Name] = true
			return lname(x.Name), t
		}
		c.p.usedErrs[x.Name] = true
		return lname(x.Name), t
	case *ast.UnaryExpr:
		switch x.Op {
		case token.NOT:
			a, _ := c.expr(x.X, tBool)
			return "(!" + a + ")", tBool
		case token.ADD:
			return c.expr0(x.X, want)
		case token.SUB:
			if isLit(x.X) {
				a, _ := c.expr0(x.X, want)
				return "(-" + a + ")", tUntyped
			}
			a, t := c.expr(x.X, want)
			if t.K == "untyped" {
				return "(-" + a + ")", t
			}
			if !t.isInt() {
				bad(e, "negation of a non-integer")
			}
			return wrapTo(t, "(-"+a+")"), t
		case token.XOR:
			a, t := c.intExpr(x.X, want)
			return "(GoLib.bnot " + t.it() + " " + a + ")", t
		case token.AND:
			if cl, ok := x.X.(*ast.CompositeLit); ok {
				return c.expr0(cl, nil)
			}
		}
		bad(e, "unary operator %s", x.Op)
	case *ast.BinaryExpr:
		return c.binary(x, want)
	case *ast.CallExpr:
		return c.call(x, want)
	case *ast.IndexExpr:
		t := c.typeOf(x.X)
		a, _ := c.expr(x.X, nil)
		i, _ := c.intExpr(x.Index, nil)
		switch t.K {
		case "bytes":
			return "(← GoLib.idx " + a + " " + i + ")", intTypes["uint8"]
		case "ints":
			return "(← GoLib.idxI " + a + " " + i + ")", t.ElemInt
		}
		bad(e, "index into %s", src(x.X))
	case *ast.SliceExpr:
		if x.Slice3 {
			bad(e, "3-index slice")
		}
		t := c.typeOf(x)
		a, _ := c.expr(x.X, nil)
		lo, hi := "0", "(GoLib.len "+a+")"
		if x.Low != nil {
			lo, _ = c.intExpr(x.Low, nil)
		}
		if x.High != nil {
			hi, _ = c.intExpr(x.High, nil)
		}
		return "(← GoLib.slice " + a + " " + lo + " " + hi + ")", t
	case *ast.SelectorExpr:
		if lc, ok := libConsts[src(x)]; ok {
			return lc.lean, lc.ty
		}
		t := c.typeOf(x)
		a, _ := c.expr(x.X, nil)
		return a + "." + lname(x.Sel.Name), t
	case *ast.CompositeLit:
		t := c.typeOf(x)
		switch t.K {
		case "bytes", "ints":
			var xs []string
			et := intTypes["uint8"]
			if t.K == "ints" {
				et = t.ElemInt
			}
			for _, el := range x.Elts {
				if _, ok := el.(*ast.KeyValueExpr); ok {
					bad(e, "keyed slice literal")
				}
				a, _ := c.intExpr(el, et)
				xs = append(xs, a)
			}
			if t.K == "bytes" {
				return "(GoLib.bytesOfInts [" + strings.Join(xs, ", ") + "])", t
			}
			return "[" + strings.Join(xs, ", ") + "]", t
		case "struct":
			si := c.p.structs[t.Name]
			c.p.usedStructs[t.Name] = true
			given := map[string]string{}
			for _, el := range x.Elts {
				kv, ok := el.(*ast.KeyValueExpr)
				if !ok {
					bad(e, "positional struct literal")
				}
				fn := src(kv.Key)
				ft, ok := si.ftype[fn]
				if !ok {
					bad(e, "field %s.%s has an unsupported type (%s)", t.Name, fn, si.skipped[fn])
				}
				a, _ := c.expr(kv.Value, ft)
				given[fn] = a
			}
			var fs []string
			for _, fn := range si.fields {
				v, ok := given[fn]
				if !ok {
					v = zeroOf(si.ftype[fn])
				}
				fs = append(fs, lname(fn)+" := "+v)
			}
			return "({ " + strings.Join(fs, ", ") + " } : " + lname(t.Name) + ")", t
		}
	}
	bad(e, "expression %s", src(e))
	return "", nil
}

func isLit(e ast.Expr) bool { _, ok := e.(*ast.BasicLit); return ok }

func zeroOf(t *Ty) string {
	switch t.K {
	case "int", "float":
		return "0"
	case "bool":
		return "false"
	case "bytes", "ints":
		return "[]"
	case "error", "optstruct":
		return "none"
	}
	return "default"
}

func (c *fnCtx) binary(x *ast.BinaryExpr, want *Ty) (string, *Ty) {
	switch x.Op {
	case token.LAND, token.LOR:
		a, _ := c.expr(x.X, tBool)
		b, _ := c.expr(x.Y, tBool)
		if strings.Contains(b, "(←") {
			fn := "GoLib.andThen"
			if x.Op == token.LOR {
				fn = "GoLib.orElse"
			}
			return "(← " + fn + " " + a + " (do pure " + b + "))", tBool
		}
		if x.Op == token.LAND {
			return "(" + a + " && " + b + ")", tBool
		}
		return "(" + a + " || " + b + ")", tBool
	case token.EQL, token.NEQ, token.LSS, token.LEQ, token.GTR, token.GEQ:
		lt, rt := c.typeOf(x.X), c.typeOf(x.Y)
		t := lt
		if lt.K == "untyped" || lt.K == "nil" {
			t = rt
		}
		if t.K == "untyped" {
			t = tInt
		}
		if lt.K == "nil" || rt.K == "nil" {
			if t.K == "struct" || t.K == "bytes" || t.K == "ints" || t.K == "nil" {
				bad(x, "comparison with nil of a %s (pointers are translated as values, nil slices as empty slices)", t.K)
			}
		}
		if lt.isInt() && rt.isInt() && !lt.sameInt(rt) {
			bad(x, "comparison of different integer types")
		}
		a, _ := c.expr(x.X, t)
		b, _ := c.expr(x.Y, t)
		switch t.K {
		case "int", "bool", "error", "float":
			if t.K == "float" {
				bad(x, "comparison of float64 values")
			}
			if t.K != "int" && x.Op != token.EQL && x.Op != token.NEQ {
				bad(x, "ordering of %s", t.K)
			}
			switch x.Op {
			case token.EQL:
				return "(" + a + " == " + b + ")", tBool
			case token.NEQ:
				return "(" + a + " != " + b + ")", tBool
			case token.LSS:
				return "(decide (" + a + " < " + b + "))", tBool
			case token.LEQ:
				return "(decide (" + a + " ≤ " + b + "))", tBool
			case token.GTR:
				return "(decide (" + a + " > " + b + "))", tBool
			case token.GEQ:
				return "(decide (" + a + " ≥ " + b + "))", tBool
			}
		case "bytes":
			switch x.Op {
			case token.EQL:
				return "(" + a + " == " + b + ")", tBool
			case token.NEQ:
				return "(" + a + " != " + b + ")", tBool
			case token.LSS:
				return "(GoLib.strLt " + a + " " + b + ")", tBool
			case token.GTR:
				return "(GoLib.strLt " + b + " " + a + ")", tBool
			case token.LEQ:
				return "(!GoLib.strLt " + b + " " + a + ")", tBool
			case token.GEQ:
				return "(!GoLib.strLt " + a + " " + b + ")", tBool
			}
		}
		bad(x, "comparison of %s values", t.K)
	case token.SHL, token.SHR:
		lt := c.typeOf(x.X)
		t := lt
		if lt.K == "untyped" {
			if _, isC := isConstExpr(c, x.Y); isC {
				// constant shift of an untyped constant: exact
				a, _ := c.expr(x.X, nil)
				b, _ := c.expr(x.Y, nil)
				if x.Op == token.SHL {
					return "(" + a + " * 2 ^ " + b + ")", tUntyped
				}
				return "(" + a + " / 2 ^ " + b + ")", tUntyped
			}
			// non-constant shift: the constant takes the type the context gives it
			if want.isInt() {
				t = want
			} else {
				t = tInt
			}
		}
		if !t.isInt() {
			bad(x, "shift of a non-integer")
		}
		a, _ := c.expr(x.X, t)
		nt := c.typeOf(x.Y)
		n, _ := c.expr(x.Y, nil)
		fn := "GoLib.shl"
		if x.Op == token.SHR {
			fn = "GoLib.shr"
		}
		if nt.K == "untyped" {
			if v, ok := isConstExpr(c, x.Y); !ok || v < 0 {
				bad(x, "shift count")
			}
			return "(" + fn + " " + t.it() + " " + a + " " + n + ")", t
		}
		if !nt.isInt() {
			bad(x, "shift count of type %s", nt.K)
		}
		if nt.Signed {
			return "(← " + fn + "S " + t.it() + " " + a + " " + n + ")", t
		}
		return "(" + fn + " " + t.it() + " " + a + " " + n + ")", t
	case token.ADD, token.SUB, token.MUL, token.QUO, token.REM, token.AND, token.OR, token.XOR, token.AND_NOT:
		lt, rt := c.typeOf(x.X), c.typeOf(x.Y)
		t := lt
		if lt.K == "untyped" {
			t = rt
		}
		if t.K == "untyped" && want.isInt() && false {
			t = want
		}
		if t.K == "bytes" && x.Op == token.ADD {
			a, _ := c.expr(x.X, t)
			b, _ := c.expr(x.Y, t)
			return "(" + a + " ++ " + b + ")", t
		}
		if t.K == "float" {
			bad(x, "float64 arithmetic")
		}
		if lt.isInt() && rt.isInt() && !lt.sameInt(rt) {
			bad(x, "operands of different integer types")
		}
		a, _ := c.expr(x.X, t)
		b, _ := c.expr(x.Y, t)
		if t.K == "untyped" {
			switch x.Op {
			case token.ADD:
				return "(" + a + " + " + b + ")", t
			case token.SUB:
				return "(" + a + " - " + b + ")", t
			case token.MUL:
				return "(" + a + " * " + b + ")", t
			}
			bad(x, "operator %s on untyped constants", x.Op)
		}
		if !t.isInt() {
			bad(x, "operator %s on %s", x.Op, t.K)
		}
		switch x.Op {
		case token.ADD:
			return wrapTo(t, "("+a+" + "+b+")"), t
		case token.SUB:
			return wrapTo(t, "("+a+" - "+b+")"), t
		case token.MUL:
			return wrapTo(t, "("+a+" * "+b+")"), t
		case token.QUO:
			if v, ok := isConstExpr(c, x.Y); ok && v > 0 {
				return "(Int.tdiv " + a + " " + b + ")", t // a positive constant divisor: no panic, no overflow
			}
			return "(← GoLib.div " + t.it() + " " + a + " " + b + ")", t
		case token.REM:
			if v, ok := isConstExpr(c, x.Y); ok && v > 0 {
				return "(Int.tmod " + a + " " + b + ")", t
			}
			return "(← GoLib.mod " + t.it() + " " + a + " " + b + ")", t
		case token.AND:
			return "(GoLib.band " + t.it() + " " + a + " " + b + ")", t
		case token.OR:
			return "(GoLib.bor " + t.it() + " " + a + " " + b + ")", t
		case token.XOR:
			return "(GoLib.bxor " + t.it() + " " + a + " " + b + ")", t
		case token.AND_NOT:
			return "(GoLib.bandnot " + t.it() + " " + a + " " + b + ")", t
		}
	}
	bad(x, "operator %s", x.Op)
	return "", nil
}

func (c *fnCtx) call(x *ast.CallExpr, want *Ty) (string, *Ty) {
	if x.Ellipsis.IsValid() && src(x.Fun) != "append" {
		bad(x, "variadic call")
	}
	if t, arg := c.convType(x); t != nil {
		switch t.K {
		case "int":
			st := c.typeOf(arg)
			if st.K == "untyped" {
				// constant conversion, or a non-constant shift of a constant: the constant gets type t
				a, at := c.expr(arg, t)
				_ = at
				return a, t
			}
			if !st.isInt() {
				bad(x, "conversion of %s to an integer", st.K)
			}
			a, _ := c.expr(arg, nil)
			if st.fitsIn(t) {
				return a, t
			}
			return wrapTo(t, a), t
		case "bytes":
			st := c.typeOf(arg)
			if st.K != "bytes" {
				bad(x, "conversion of %s to string/[]byte", st.K)
			}
			a, _ := c.expr(arg, nil)
			return a, t
		}
		bad(x, "conversion %s", src(x))
	}
	name := src(x.Fun)
	switch name {
	case "len":
		a, t := c.expr(x.Args[0], nil)
		if t.K != "bytes" && t.K != "ints" {
			bad(x, "len of %s", t.K)
		}
		return "(GoLib.len " + a + ")", tInt
	case "make":
		t := c.p.mustType(x.Args[0])
		if len(x.Args) != 2 {
			bad(x, "make with capacity")
		}
		n, _ := c.intExpr(x.Args[1], nil)
		if t.K == "bytes" {
			return "(← GoLib.makeBytes " + n + ")", t
		}
		if t.K == "ints" {
			return "(← GoLib.makeInts " + n + ")", t
		}
		bad(x, "make of %s", src(x.Args[0]))
	case "append":
		a, t := c.expr(x.Args[0], nil)
		if t.K != "bytes" {
			bad(x, "append to %s", t.K)
		}
		if x.Ellipsis.IsValid() {
			if len(x.Args) != 2 {
				bad(x, "append form")
			}
			b, _ := c.expr(x.Args[1], tBytes)
			return "(" + a + " ++ " + b + ")", t
		}
		var xs []string
		for _, el := range x.Args[1:] {
			v, _ := c.intExpr(el, intTypes["uint8"])
			xs = append(xs, v)
		}
		return "(" + a + " ++ GoLib.bytesOfInts [" + strings.Join(xs, ", ") + "])", t
	case "unsafe.String", "unsafe.Slice":
		// unsafe.String(unsafe.SliceData(b), len(b)) and unsafe.Slice(unsafe.StringData(s), len(s)): b / s itself
		inner := map[string]string{"unsafe.String": "unsafe.SliceData", "unsafe.Slice": "unsafe.StringData"}[name]
		if len(x.Args) == 2 {
			if ic, ok := x.Args[0].(*ast.CallExpr); ok && src(ic.Fun) == inner && len(ic.Args) == 1 {
				if src(x.Args[1]) == "len("+src(ic.Args[0])+")" {
					a, t := c.expr(ic.Args[0], nil)
					if t.K == "bytes" {
						if name == "unsafe.String" {
							return a, tString
						}
						return a, tBytes
					}
				}
			}
		}
		bad(x, "use of unsafe other than the whole-buffer reinterpretation")
	case "errors.New":
		if bl, ok := x.Args[0].(*ast.BasicLit); ok && bl.Kind == token.STRING {
			return "(some " + bl.Value + " : GoLib.Error)", tError
		}
		bad(x, "errors.New of a non-literal")
	}
	if l, ok := library[name]; ok {
		if l.mut0 {
			bad(x, "%s updates its first argument: only allowed as a statement", name)
		}
		return c.libCall(l, x), l.res
	}
	if ex, ok := externals[name]; ok {
		c.ext[name] = true
		c.extUse[name]++
		if ex.isVal {
			if c.extUse[name] > 1 || len(c.loops) > 0 {
				bad(x, "%s is called more than once (it is passed as one value)", name)
			}
			return ex.param, ex.res
		}
		var as []string
		for i, a := range x.Args {
			s, _ := c.expr(a, ex.args[i])
			as = append(as, s)
		}
		return "(" + ex.param + " " + strings.Join(as, " ") + ")", ex.res
	}
	if g, args := c.p.callee(x, c.fi); g != nil {
		c.p.sig(g)
		if len(g.mutates) > 0 {
			bad(x, "call of %s, which updates %v: only allowed as a statement", g.key, g.mutates)
		}
		return c.fnCall(g, x, args), g.result
	}
	bad(x, "call of %s (not translated, not in the library)", name)
	return "", nil
}

func (c *fnCtx) libCall(l *libInfo, x *ast.CallExpr) string {
	if len(x.Args) != len(l.args) {
		bad(x, "argument count of %s", src(x.Fun))
	}
	var as []string
	for i, a := range x.Args {
		s, _ := c.expr(a, l.args[i])
		as = append(as, s)
	}
	if l.eff {
		return "(← " + l.lean + " " + strings.Join(as, " ") + ")"
	}
	return "(" + l.lean + " " + strings.Join(as, " ") + ")"
}

// the monadic call term (without ←) of a translated function
func (c *fnCtx) fnCallTerm(g *funcInfo, x *ast.CallExpr, args []ast.Expr) string {
	if g == c.fi {
		bad(x, "recursive call")
	}
	c.calls[g.key] = true
	c.p.translate(g)
	if g.err != "" {
		bad(x, "call of %s, which is not translatable: %s", g.key, g.err)
	}
	var as []string
	for _, e := range g.extParams(c.p) {
		c.ext[e] = true
		as = append(as, externals[e].param)
	}
	if g.recv != "" {
		r, _ := c.expr(x.Fun.(*ast.SelectorExpr).X, nil)
		as = append(as, r)
	}
	if len(args) != len(g.params) {
		bad(x, "argument count of %s", g.key)
	}
	for i, a := range args {
		if u, ok := a.(*ast.UnaryExpr); ok && u.Op == token.AND {
			a = u.X
		}
		s, _ := c.expr(a, g.ptypes[i])
		as = append(as, s)
	}
	return c.p.name + "." + g.leanName + " " + strings.Join(as, " ")
}

func (c *fnCtx) fnCall(g *funcInfo, x *ast.CallExpr, args []ast.Expr) string {
	return "(← " + c.fnCallTerm(g, x, args) + ")"
}

func (g *funcInfo) extParams(p *Pkg) []string {
	if g.out == "" && g.err == "" {
		p.translate(g)
	}
	e := append([]string{}, g.ext...)
	sort.Strings(e)
	return e
}
