// go2lean: a translator from a small subset of Go ("Go-lite", docs/go2lean.md) to Lean 4 definitions.
// Part 1: types, the per-package environment (constants, structs, package-level tables, functions).
//
// Purely syntactic (go/ast); the type of every expression is inferred from declarations by a small
// hand-made type environment. Anything outside the subset makes the translation of that function FAIL
// with an error naming the construct and its source position; nothing is ever guessed.
package main

import (
	"fmt"
	"go/ast"
	"go/token"
	"path/filepath"
	"sort"
	"strings"
)

// ---- types ---------------------------------------------------------------------------------------

type Ty struct {
	K       string // int, bool, bytes, ints, float, error, struct, optstruct, tuple, untyped, void
	Bits    int
	Signed  bool
	IsStr   bool // for bytes: a Go string (range decodes UTF-8) rather than a []byte
	Name    string
	Elems   []*Ty
	ElemInt *Ty // for ints: element type
}

var (
	tBool    = &Ty{K: "bool"}
	tString  = &Ty{K: "bytes", IsStr: true}
	tBytes   = &Ty{K: "bytes"}
	tFloat   = &Ty{K: "float"}
	tError   = &Ty{K: "error"}
	tUntyped = &Ty{K: "untyped"}
	tVoid    = &Ty{K: "void"}
	tInt     = &Ty{K: "int", Bits: 64, Signed: true, Name: "int"}
)

var intTypes = map[string]*Ty{
	"int": tInt, "int64": {K: "int", Bits: 64, Signed: true, Name: "int64"}, "int32": {K: "int", Bits: 32, Signed: true, Name: "int32"},
	"rune": {K: "int", Bits: 32, Signed: true, Name: "int32"}, "int16": {K: "int", Bits: 16, Signed: true, Name: "int16"},
	"int8": {K: "int", Bits: 8, Signed: true, Name: "int8"}, "uint": {K: "int", Bits: 64, Name: "uint"},
	"uint64": {K: "int", Bits: 64, Name: "uint64"}, "uint32": {K: "int", Bits: 32, Name: "uint32"},
	"uint16": {K: "int", Bits: 16, Name: "uint16"}, "uint8": {K: "int", Bits: 8, Name: "uint8"}, "byte": {K: "int", Bits: 8, Name: "uint8"},
}

func (t *Ty) isInt() bool { return t != nil && t.K == "int" }
func (t *Ty) it() string {
	if t.Signed {
		return fmt.Sprintf(".i%d", t.Bits)
	}
	return fmt.Sprintf(".u%d", t.Bits)
}
func (t *Ty) sameInt(u *Ty) bool {
	return t.isInt() && u.isInt() && t.Bits == u.Bits && t.Signed == u.Signed
}

// does every value of t fit into u (so that a conversion needs no wrap)?
func (t *Ty) fitsIn(u *Ty) bool {
	if t.Signed == u.Signed {
		return t.Bits <= u.Bits
	}
	return !t.Signed && u.Signed && t.Bits < u.Bits
}

func (t *Ty) lean() string {
	switch t.K {
	case "int", "float", "untyped":
		return "Int"
	case "bool":
		return "Bool"
	case "bytes":
		return "Bytes"
	case "ints":
		return "(List Int)"
	case "error":
		return "GoLib.Error"
	case "struct":
		return t.Name
	case "optstruct":
		return "(Option " + t.Name + ")"
	case "void":
		return "Unit"
	case "tuple":
		var p []string
		for _, e := range t.Elems {
			p = append(p, e.lean())
		}
		return "(" + strings.Join(p, " × ") + ")"
	}
	return "?"
}

// ---- translation errors -----------------------------------------------------------------------------

type trErr struct{ msg string }

func bad(n ast.Node, format string, a ...any) {
	pos := ""
	if n != nil {
		p := fset.Position(n.Pos())
		pos = fmt.Sprintf("%s:%d: ", filepath.Base(p.Filename), p.Line)
	}
	panic(trErr{pos + fmt.Sprintf(format, a...)})
}

// ---- the package environment ------------------------------------------------------------------------

type constInfo struct {
	val int64
	ty  *Ty // nil = untyped
}

type structInfo struct {
	name    string
	fields  []string       // supported fields in declaration order
	ftype   map[string]*Ty // supported fields
	skipped map[string]string
	pos     token.Position
}

type tableInfo struct { // package-level `var x = []uint64{...}` / string literal, never assigned
	ty   *Ty
	lean string
}

type funcInfo struct {
	decl     *ast.FuncDecl
	key      string // "Recv.name" or "name"
	leanName string
	recv     string // receiver variable name ("" if none)
	recvTy   *Ty
	ptrParam map[string]bool // parameters (and receiver) that are pointers to structs
	mutates  []string        // pointer parameters / receiver the body assigns through, in signature order
	params   []string
	ptypes   []*Ty
	result   *Ty      // Go result (tuple for several), after dropping an aliasing pointer result
	dropRes  bool     // the single `*T` result is always one of the pointer parameters: dropped
	ext      []string // external functions passed as parameters (sorted)
	calls    []string // translated functions it calls (keys)
	out      string   // the Lean text
	sigDone  bool
	sigErr   string
	err      string
}

type Pkg struct {
	dir         string
	name        string
	files       []*ast.File
	consts      map[string]constInfo
	named       map[string]*Ty // `type ValueType uint8`
	structs     map[string]*structInfo
	tables      map[string]*tableInfo
	errs        map[string]string // package-level `var ErrX = errors.New("...")`
	funcs       map[string]*funcInfo
	usedStructs map[string]bool
	usedConsts  map[string]bool
	usedTables  map[string]bool
	usedErrs    map[string]bool
}

// Lean keywords / names a Go identifier must not collide with
var reserved = map[string]bool{"end": true, "at": true, "from": true, "then": true, "do": true, "fun": true, "let": true, "in": true,
	"open": true, "by": true, "have": true, "show": true, "with": true, "match": true, "if": true, "else": true, "for": true,
	"return": true, "where": true, "theorem": true, "def": true, "instance": true, "structure": true, "mut": true, "local": true,
	"String": true, "List": true, "Option": true, "Nat": true, "Int": true, "Bool": true, "Array": true, "Type": true, "Prop": true, "Set": true,
	"open_": true, "private": true, "protected": true, "section": true, "namespace": true, "variable": true, "universe": true, "using": true,
	"calc": true, "nomatch": true, "this": true, "default": true, "some": true, "none": true, "true": true, "false": true, "pure": true, "throw": true, "not": true, "or": true, "and": true}

func lname(s string) string {
	if reserved[s] {
		return s + "_"
	}
	return s
}

func loadPkg(root, dir string) *Pkg {
	p := &Pkg{dir: dir, files: parseDir(filepath.Join(root, dir)), consts: map[string]constInfo{}, named: map[string]*Ty{},
		structs: map[string]*structInfo{}, tables: map[string]*tableInfo{}, errs: map[string]string{}, funcs: map[string]*funcInfo{},
		usedStructs: map[string]bool{}, usedConsts: map[string]bool{}, usedTables: map[string]bool{}, usedErrs: map[string]bool{}}
	if len(p.files) == 0 {
		fail("no Go files in " + dir)
	}
	p.name = p.files[0].Name.Name
	// pass 1: named integer types and struct names
	for _, f := range p.files {
		for _, d := range f.Decls {
			gd, ok := d.(*ast.GenDecl)
			if !ok || gd.Tok != token.TYPE {
				continue
			}
			for _, s := range gd.Specs {
				ts := s.(*ast.TypeSpec)
				if id, ok := ts.Type.(*ast.Ident); ok {
					if t, ok := intTypes[id.Name]; ok {
						p.named[ts.Name.Name] = t
					}
				}
				if _, ok := ts.Type.(*ast.StructType); ok {
					p.structs[ts.Name.Name] = &structInfo{name: ts.Name.Name, ftype: map[string]*Ty{}, skipped: map[string]string{}, pos: fset.Position(ts.Pos())}
				}
			}
		}
	}
	// pass 2: struct fields
	for _, f := range p.files {
		for _, d := range f.Decls {
			gd, ok := d.(*ast.GenDecl)
			if !ok || gd.Tok != token.TYPE {
				continue
			}
			for _, s := range gd.Specs {
				ts := s.(*ast.TypeSpec)
				st, ok := ts.Type.(*ast.StructType)
				if !ok {
					continue
				}
				si := p.structs[ts.Name.Name]
				for _, fl := range st.Fields.List {
					t, why := p.tryType(fl.Type)
					if len(fl.Names) == 0 {
						si.skipped[src(fl.Type)] = "embedded field"
						continue
					}
					for _, n := range fl.Names {
						if t == nil || t.K == "optstruct" {
							if why == "" {
								why = "pointer field"
							}
							si.skipped[n.Name] = why
						} else {
							si.fields = append(si.fields, n.Name)
							si.ftype[n.Name] = t
						}
					}
				}
			}
		}
	}
	// constants (typed and untyped)
	for _, f := range p.files {
		for _, d := range f.Decls {
			gd, ok := d.(*ast.GenDecl)
			if !ok || gd.Tok != token.CONST {
				continue
			}
			var last []ast.Expr
			var lastTy ast.Expr
			for i, s := range gd.Specs {
				vs := s.(*ast.ValueSpec)
				vals, ty := vs.Values, vs.Type
				if len(vals) == 0 {
					vals, ty = last, lastTy
				} else {
					last, lastTy = vals, ty
				}
				for j, n := range vs.Names {
					if j >= len(vals) {
						continue
					}
					v, ok := evalInt(vals[j], int64(i))
					if !ok {
						continue
					}
					ci := constInfo{val: v}
					if ty != nil {
						if t, _ := p.tryType(ty); t.isInt() {
							ci.ty = t
						} else {
							continue
						}
					} else if c, ok := vals[j].(*ast.CallExpr); ok { // ValueType(3)
						if t, _ := p.tryType(c.Fun); t.isInt() {
							ci.ty = t
						}
					}
					p.consts[n.Name] = ci
				}
			}
		}
	}
	// package-level tables and error values
	assigned := p.assignedGlobals()
	for _, f := range p.files {
		for _, d := range f.Decls {
			gd, ok := d.(*ast.GenDecl)
			if !ok || gd.Tok != token.VAR {
				continue
			}
			for _, s := range gd.Specs {
				vs := s.(*ast.ValueSpec)
				for j, n := range vs.Names {
					if j >= len(vs.Values) || assigned[n.Name] {
						continue
					}
					switch v := vs.Values[j].(type) {
					case *ast.BasicLit:
						if v.Kind == token.STRING {
							p.tables[n.Name] = &tableInfo{ty: tString, lean: bytesLit(v)}
						}
					case *ast.CompositeLit:
						at, ok := v.Type.(*ast.ArrayType)
						if !ok || at.Len != nil {
							continue
						}
						et, _ := p.tryType(at.Elt)
						if !et.isInt() {
							continue
						}
						var xs []string
						good := true
						for _, e := range v.Elts {
							x, ok := evalInt(e, 0)
							if !ok {
								good = false
							}
							xs = append(xs, fmt.Sprint(x))
						}
						if !good {
							continue
						}
						if et.Bits == 8 && !et.Signed {
							p.tables[n.Name] = &tableInfo{ty: tBytes, lean: "[" + strings.Join(xs, ", ") + "]"}
						} else {
							p.tables[n.Name] = &tableInfo{ty: &Ty{K: "ints", ElemInt: et}, lean: "[" + strings.Join(xs, ", ") + "]"}
						}
					case *ast.CallExpr:
						if src(v.Fun) == "errors.New" && len(v.Args) == 1 {
							if bl, ok := v.Args[0].(*ast.BasicLit); ok && bl.Kind == token.STRING {
								p.errs[n.Name] = bl.Value
							}
						}
					}
				}
			}
		}
	}
	// functions
	for _, f := range p.files {
		for _, d := range f.Decls {
			fd, ok := d.(*ast.FuncDecl)
			if !ok || fd.Body == nil {
				continue
			}
			fi := &funcInfo{decl: fd, key: fd.Name.Name, ptrParam: map[string]bool{}}
			if fd.Recv != nil && len(fd.Recv.List) == 1 {
				rt := fd.Recv.List[0].Type
				if st, ok := rt.(*ast.StarExpr); ok {
					rt = st.X
				}
				fi.key = src(rt) + "." + fd.Name.Name
			}
			fi.leanName = strings.ReplaceAll(fi.key, ".", "_")
			if strings.Contains(fi.key, ".") {
				parts := strings.SplitN(fi.key, ".", 2)
				fi.leanName = lname(parts[0]) + "." + lname(parts[1])
			} else {
				fi.leanName = lname(fi.key)
			}
			p.funcs[fi.key] = fi
		}
	}
	return p
}

// names of package-level variables that some function assigns to (directly or through an index)
func (p *Pkg) assignedGlobals() map[string]bool {
	out := map[string]bool{}
	for _, f := range p.files {
		for _, d := range f.Decls {
			fd, ok := d.(*ast.FuncDecl)
			if !ok || fd.Body == nil {
				continue
			}
			local := map[string]bool{}
			if fd.Recv != nil {
				for _, fl := range fd.Recv.List {
					for _, n := range fl.Names {
						local[n.Name] = true
					}
				}
			}
			for _, fl := range fd.Type.Params.List {
				for _, n := range fl.Names {
					local[n.Name] = true
				}
			}
			if fd.Type.Results != nil {
				for _, fl := range fd.Type.Results.List {
					for _, n := range fl.Names {
						local[n.Name] = true
					}
				}
			}
			ast.Inspect(fd.Body, func(n ast.Node) bool {
				switch s := n.(type) {
				case *ast.AssignStmt:
					if s.Tok == token.DEFINE {
						for _, l := range s.Lhs {
							if id, ok := l.(*ast.Ident); ok {
								local[id.Name] = true
							}
						}
					}
				case *ast.ValueSpec:
					for _, id := range s.Names {
						local[id.Name] = true
					}
				case *ast.RangeStmt:
					for _, e := range []ast.Expr{s.Key, s.Value} {
						if id, ok := e.(*ast.Ident); ok {
							local[id.Name] = true
						}
					}
				}
				return true
			})
			root := func(e ast.Expr) string {
				for {
					switch x := e.(type) {
					case *ast.IndexExpr:
						e = x.X
					case *ast.SliceExpr:
						e = x.X
					case *ast.ParenExpr:
						e = x.X
					case *ast.StarExpr:
						e = x.X
					case *ast.Ident:
						return x.Name
					default:
						return ""
					}
				}
			}
			ast.Inspect(fd.Body, func(n ast.Node) bool {
				switch s := n.(type) {
				case *ast.AssignStmt:
					for _, l := range s.Lhs {
						if r := root(l); r != "" && !local[r] {
							out[r] = true
						}
					}
				case *ast.IncDecStmt:
					if r := root(s.X); r != "" && !local[r] {
						out[r] = true
					}
				case *ast.UnaryExpr:
					if s.Op == token.AND {
						if r := root(s.X); r != "" && !local[r] {
							out[r] = true
						}
					}
				}
				return true
			})
		}
	}
	return out
}

// the supported type of a Go type expression, or nil and the reason
func (p *Pkg) tryType(e ast.Expr) (*Ty, string) {
	switch x := e.(type) {
	case *ast.Ident:
		if t, ok := intTypes[x.Name]; ok {
			return t, ""
		}
		switch x.Name {
		case "bool":
			return tBool, ""
		case "string":
			return tString, ""
		case "float64":
			return tFloat, ""
		case "error":
			return tError, ""
		}
		if t, ok := p.named[x.Name]; ok {
			return t, ""
		}
		if _, ok := p.structs[x.Name]; ok {
			return &Ty{K: "struct", Name: x.Name}, ""
		}
		return nil, "type " + x.Name
	case *ast.ArrayType:
		if x.Len != nil {
			return nil, "array type " + src(e)
		}
		et, why := p.tryType(x.Elt)
		if et.isInt() {
			if et.Bits == 8 && !et.Signed {
				return tBytes, ""
			}
			return &Ty{K: "ints", ElemInt: et}, ""
		}
		if why == "" {
			why = "slice of " + src(x.Elt)
		}
		return nil, why
	case *ast.StarExpr:
		t, why := p.tryType(x.X)
		if t != nil && t.K == "struct" {
			return &Ty{K: "optstruct", Name: t.Name}, ""
		}
		if why == "" {
			why = "pointer type " + src(e)
		}
		return nil, why
	case *ast.SelectorExpr:
		return nil, "type of another package " + src(e)
	case *ast.InterfaceType:
		return nil, "interface type"
	case *ast.MapType:
		return nil, "map type"
	case *ast.ChanType:
		return nil, "channel type"
	case *ast.FuncType:
		return nil, "function type"
	}
	return nil, "type " + src(e)
}

func (p *Pkg) mustType(e ast.Expr) *Ty {
	t, why := p.tryType(e)
	if t == nil {
		bad(e, "unsupported %s", why)
	}
	return t
}

func sortedKeys[V any](m map[string]V) []string {
	var ks []string
	for k := range m {
		ks = append(ks, k)
	}
	sort.Strings(ks)
	return ks
}
