import NodisVerif.Driver.CodecOps
import NodisVerif.Driver.ApiOps
import NodisVerif.Driver.RespOps
import NodisVerif.Model.Handler2
import NodisVerif.Model.Handler3
import NodisVerif.Model.Handler4
import NodisVerif.Driver.GeoOps
import NodisVerif.Driver.FragOps
import NodisVerif.Driver.ProtoOps
import NodisVerif.Driver.BlockProgOps
import NodisVerif.Driver.GateProgOps
import NodisVerif.Driver.LinkedListOps
import NodisVerif.Driver.SlOps
import NodisVerif.Driver.RespWriterOps
import NodisVerif.Driver.FloatOps
import NodisVerif.Model.Feed
import NodisVerif.Driver.PatchOps
import NodisVerif.Model.FeedWire
import NodisVerif.Driver.TxProgOps
open NodisVerif

structure DState where
  inst : List (String × Server) := []
  cur  : String := ""
  proto : Proto.PState := {}
  block : Block.BState := []
  bprog : Driver.BPReplay := {}                  -- the replay of the same events against the program model
  gate : Gate.GState := {}
  noprog : Bool := false                         -- `noprog` line: protocol-level replay only (C17's hostile traces)
  gprog : Driver.GPR := {}                       -- replay of the gate trace against the program model (Model/GateProg.lean)
  feeds : List (String × List FeedOp) := []      -- per watched instance: records not yet drained (oldest first)
  patterns : List Bytes := []                    -- patterns of the second (filtered) watcher
  ll : LinkedList.PList := {}                    -- the bare pointer-level list of the `ll` lines (C02)
  sl : Skiplist.SL := Skiplist.makeSkiplist      -- the pointer-level skiplist of the `sl` ops
  slz : Skiplist.PZSet := Skiplist.PZSet.empty   -- the pointer-level sorted set of the `slz` ops
  wr : RespWriter.Writer := RespWriter.new       -- the bare RESP reply writer of the `wr` lines (C16)
  dead : List String := []                       -- connections closed by QUIT (instance/connection)
  closing : List String := []                    -- QUIT answered, socket closed by the server: the next command finds out

def DState.sv (d : DState) : Server := ((d.inst.find? (·.1 == d.cur)).map (·.2)).getD {}
def DState.putSv (d : DState) (sv : Server) : DState :=
  { d with inst := (d.cur, sv) :: d.inst.filter (·.1 != d.cur) }
def DState.get (d : DState) : MState := d.sv.store
def DState.put (d : DState) (s : MState) : DState := d.putSv { d.sv with store := s }

/-- split trailing annotations `now=<ms>` / `choice=a,b` off a token list -/
def annotations (toks : List String) : List String × Int × Option (List Bytes) :=
  let plain := toks.filter fun t => !(t.startsWith "now=" || t.startsWith "choice=")
  let now := ((toks.find? (·.startsWith "now=")).bind fun t => (t.drop 4).toString.toInt?).getD 0
  let choice := (toks.find? (·.startsWith "choice=")).map fun t =>
    (((t.drop 7).toString.splitOn ",").filter (· ≠ "")).filterMap Wire.parseArg
  (plain, now, choice)

def tables : List (String → List Bytes → Option HRes) := [Handler.table1, Handler2.table2, Handler3.table3, Handler4.table4]

def step (d : DState) (line : String) : DState × String :=
  let toks := Wire.splitWs line.trimAscii.toString
  match toks with
  | [] => (d, "")
  | "ck" :: _ | "dk" :: _ | "ev" :: _ => (d, Driver.codecOp toks)
  | "frag" :: rest => (d, Driver.fragOp rest)
  | "pschema" :: _ | "penc" :: _ | "pdec" :: _ => (d, Driver.patchOp toks)
  | "ll" :: rest => let (l, out) := Driver.llOp d.ll rest; ({ d with ll := l }, out)
  | "sl" :: rest => let (sl, out) := Driver.slOp d.sl rest; ({ d with sl := sl }, out)
  | "slz" :: rest => let (p, out) := Driver.slzOp d.slz rest; ({ d with slz := p }, out)
  | "wr" :: rest =>
    -- take the writer out of the state first, so that the model's buffer is updated in place
    let w := d.wr
    let d := { d with wr := ⟨#[], 0, false, #[]⟩ }
    let (w', out) := Driver.wrOp w rest
    ({ d with wr := w' }, out)
  | "fmtfloat" :: _ | "parsefloat" :: _ => (d, Driver.floatOp toks)
  | "geo" :: rest => (d, Driver.geoOp rest)
  | "pev" :: rest => let (p, out) := Driver.protoOp d.proto rest; ({ d with proto := p }, out)
  | "bev" :: rest =>
    let (b, out) := Driver.blockOp d.block rest
    -- the same event must also be the next event of the program model (Model/BlockProg.lean)
    match (if d.noprog then "skip" else out), Driver.parseBev rest with
    | "ok", some e =>
      let (bp, out') := Driver.bpProgEv d.bprog e (Driver.evWaiter e)
      ({ d with block := b, bprog := bp }, out')
    | _, _ => ({ d with block := b }, out)
  | "bpp" :: rest => if d.noprog then (d, "ok") else let (bp, out) := Driver.bpProgOp d.bprog rest; ({ d with bprog := bp }, out)
  | ["noprog"] => ({ d with noprog := true }, "ok")
  | "gev" :: rest =>
    let (g, out) := Driver.gateOp d.gate rest
    if out != "ok" || d.noprog then ({ d with gate := g }, out) else
    (match Driver.parseGev rest with
     | some e =>
       -- the protocol accepts the step; is it also a step of the program (Model/GateProg.lean)?
       let (r, ok) := Driver.gprogEv d.gprog d.gate e
       ({ d with gate := g, gprog := r }, if ok then "ok" else "rejected-prog")
     | none => ({ d with gate := g }, out))
  | "gpc" :: rest => if d.noprog then (d, "ok") else let (r, out) := Driver.gprogObs d.gprog d.gate rest; ({ d with gprog := r }, out)
  | ["pend"] => ({ d with proto := {}, gate := {}, gprog := {} }, Driver.protoEnd d.proto)
  | "open" :: id :: backend :: _ =>
    ({ d with cur := id }.putSv { store := { pebble := backend == "pebble" } }, "ok")
  | ["inst", id] => ({ d with cur := id }, "ok")
  | ["conn", _] => (d, "ok")
  | _ =>
    let (plain, now, choice) := annotations toks
    let s := d.get
    match plain with
    | ["close"] => (d.put (Store.close s now), "ok")
    | ["reopen"] => (d.putSv { store := Store.reopen s }, "ok")       -- a new Nodis: no connections, empty registry
    | ["gc"] => (d.put (Store.gc s now), "ok")
    | ["flush"] => (d.put (Store.flush s now), "ok")
    | ["sleep", _] => (d, "ok")
    | ["failset", k] => (d.put { s with failSet := k.toNat?.getD 0 }, "ok")
    | "watch" :: _ => (d.put { s with listeners := true }, "ok")
    | ["watchx"] | ["unwatchx", _] => (d, "ok")      -- additional watchers come and go: the first one keeps receiving
    | "watchp" :: pats => ({ d with patterns := pats.filterMap Wire.parseArg }, "ok")
    | ["feedp"] =>
      let recs := ((d.feeds.find? (·.1 == d.cur)).map (·.2)).getD []
      let m := (recs.filter fun r => d.patterns.any fun p => Glob.matched p r.key).length
      ({ d with feeds := d.feeds.filter (·.1 != d.cur) }, s!"feedp all={recs.length} matched={m} ok")
    | ["feedw"] =>
      -- like feed; every record as it arrives through the bytes, with the digest of the bytes themselves
      let recs := ((d.feeds.find? (·.1 == d.cur)).map (·.2)).getD []
      let parts := recs.map fun r =>
        Feed.render ((Feed.viaWire r).getD r) ++ "@" ++
          (match Feed.toWire r with
           | some w => Wire.hex64 (Wire.fnv64 (ProtoWire.encodeOp w))
           | none => "none")
      let allHSet := recs.length > 1 && recs.all fun r => r.typ == 10 && r.key == (recs.head?.map (·.key)).getD []
      let parts := if allHSet then parts.mergeSort (fun a b => decide (a ≤ b)) else parts
      ({ d with feeds := d.feeds.filter (·.1 != d.cur) }, Wire.compact ("feedw " ++ " ".intercalate parts))
    | ["feed"] =>
      let recs := ((d.feeds.find? (·.1 == d.cur)).map (·.2)).getD []
      let parts := recs.map Feed.render
      -- HMSET: the order comes out of a Go map; records setting different fields of one hash commute
      let allHSet := recs.length > 1 && recs.all fun r => r.typ == 10 && r.key == (recs.head?.map (·.key)).getD []
      let parts := if allHSet then parts.mergeSort (fun a b => decide (a ≤ b)) else parts
      ({ d with feeds := d.feeds.filter (·.1 != d.cur) }, Wire.compact ("feed " ++ " ".intercalate parts))
    | ["replicate", dst] =>
      let recs := ((d.feeds.find? (·.1 == d.cur)).map (·.2)).getD []
      let d := { d with feeds := d.feeds.filter (·.1 != d.cur) }
      let rsv : Server := ((d.inst.find? (·.1 == dst)).map (·.2)).getD {}
      -- the records travel as bytes: toWire, ProtoWire.encodeOp, ProtoWire.decodeOp, fromWire (Model/FeedWire.lean);
      -- the older field-level predicate `Feed.wireOk` (Lean's own UTF-8 validator) must give the same verdict
      if recs.any (fun r => Feed.wireOk r != (Feed.viaWire r).isSome) then (d, "WIRE-MODELS-DISAGREE") else
      if !(recs.all fun r => (Feed.viaWire r).isSome) then (d, "DECODE-ERROR") else
      -- hypothesis of `C20.replicate_through_wire`, checked on every record that is shipped
      if !(recs.all Feed.wireNormal) then (d, "WIRE-NOT-NORMAL") else
      let recs := recs.filterMap Feed.viaWire
      (match Feed.applyAll { rsv.store with signalled := [], held := [], hung := false } now recs with
       | none => (d, "APPLY-ERROR")
       | some r =>
         let rsv := Server.applySignals { rsv with store := Store.syncShared { r with held := [] } }
         ({ d with inst := (dst, rsv) :: d.inst.filter (·.1 != dst) }, s!"ok n={recs.length}"))
    | ["dump"] => (d, Driver.dumpState s none (some now))
    | ["ldump"] => (d, Driver.dumpState s (some now))
    | "api" :: method :: rest =>
      (match Driver.callApi { s with signalled := [], held := [], hung := false } now method (Driver.groups rest) choice with
       | none => (d, "bad-op")
       | some (s', out) =>
         if s'.hung then (d.put (Store.syncShared s'), "HANG") else
         -- change feed: what this call hands to the watchers
         let gs := Driver.groups rest
         let info : Feed.CallInfo := match method, gs with
           | "ZUnionStore", [_, ks, ws, a] | "ZInterStore", [_, ks, ws, a] =>
             { method := method, keys := (Driver.gBs ks).getD [], weights := (Driver.gFs ws).getD [], aggregate := (Driver.gB a).getD [] }
           | _, _ => { method := method, bs := gs.filterMap Driver.gB }
         let recs := if s'.listeners then Feed.emission info out s'.feed.reverse else []
         let d := if s'.listeners then
             { d with feeds := (d.cur, ((d.feeds.find? (·.1 == d.cur)).map (·.2)).getD [] ++ recs) :: d.feeds.filter (·.1 != d.cur) }
           else d
         let sv := Server.applySignals { d.sv with store := Store.syncShared { s' with held := [], feed := [] } }
         (d.putSv sv, Driver.fmtOut (method == "ZUnion" || method == "ZInter") out))
    | "scanall" :: id :: rest =>
      let template := rest.map fun t => if t == "CUR" then none else Wire.parseArg t
      let (sv, out) := Driver.scanAll tables d.sv id now template 5001 [48] 0 []
      (d.putSv { sv with store := Store.syncShared sv.store }, out)
    | "resp" :: id :: rest =>
      if d.dead.contains (d.cur ++ "/" ++ id) then (d, "!DEAD") else
      -- the first command after QUIT finds the socket closed (the client's side then gives up on the connection)
      if d.closing.contains (d.cur ++ "/" ++ id) then
        ({ d with dead := (d.cur ++ "/" ++ id) :: d.dead, closing := d.closing.filter (· != d.cur ++ "/" ++ id) }, " !CLOSED") else
      (match rest.mapM Wire.parseArg with
       | none => (d, "bad-op")
       | some argv =>
         let (sv, out) := Driver.respStep tables d.sv id now argv choice
         let d := d.putSv { sv with store := Store.syncShared sv.store }
         -- QUIT run by execCommand: `+OK` is written and flushed, then the socket is closed (since the repair "QUIT's
         -- reply never reached the client": the flush used to come after the close); later commands find it dead.
         -- (QUIT queued in MULTI closes the socket at EXEC time: not tracked here, and not generated.)
         let isQuit := match argv with | nameB :: _ => Resp.upper nameB == Bytes.ofString "QUIT" | [] => false
         if isQuit && out == "+4f4b" then ({ d with closing := (d.cur ++ "/" ++ id) :: d.closing }, out) else (d, out))
    | _ => (d, "bad-op")

partial def loop (h : IO.FS.Stream) (out : IO.FS.Stream) (st : DState) : IO Unit := do
  let line ← h.getLine
  if line.isEmpty then return ()
  let (st', o) := step st line
  out.putStrLn o
  loop h out st'

def main (args : List String) : IO UInt32 := do
  let out ← IO.getStdout
  match args with
  | "txprog" :: file :: rest =>
    -- is the recorded trace a trace of the program model Model/TxProg.lean?
    let lines ← IO.FS.lines file
    let bound := (rest.head?.bind (·.toNat?)).getD 0
    out.putStrLn (Driver.txprogReplay lines bound)
    out.flush
    return 0
  | _ =>
    loop (← IO.getStdin) out {}
    out.flush
    return 0
