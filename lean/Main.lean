import NodisVerif.Driver.CodecOps
open NodisVerif

structure DState where
  dummy : Unit := ()

def step (st : DState) (line : String) : DState × String :=
  let toks := Wire.splitWs line.trimAscii.toString
  match toks with
  | [] => (st, "")
  | "ck" :: _ | "dk" :: _ | "ev" :: _ => (st, Driver.codecOp toks)
  | _ => (st, "bad-op")

partial def loop (h : IO.FS.Stream) (out : IO.FS.Stream) (st : DState) : IO Unit := do
  let line ← h.getLine
  if line.isEmpty then return ()
  let (st', o) := step st line
  out.putStrLn o
  loop h out st'

def main : IO Unit := do
  let out ← IO.getStdout
  loop (← IO.getStdin) out {}
  out.flush
