import NodisVerif.Driver.CodecOps
import NodisVerif.Driver.ApiOps
open NodisVerif

structure DState where
  inst : List (String × MState) := []
  cur  : String := ""

def DState.get (d : DState) : MState := ((d.inst.find? (·.1 == d.cur)).map (·.2)).getD {}
def DState.put (d : DState) (s : MState) : DState :=
  { d with inst := (d.cur, s) :: d.inst.filter (·.1 != d.cur) }

/-- split trailing annotations `now=<ms>` / `choice=a,b` off a token list -/
def annotations (toks : List String) : List String × Int × Option (List Bytes) :=
  let plain := toks.filter fun t => !(t.startsWith "now=" || t.startsWith "choice=")
  let now := ((toks.find? (·.startsWith "now=")).bind fun t => (t.drop 4).toString.toInt?).getD 0
  let choice := (toks.find? (·.startsWith "choice=")).map fun t =>
    (((t.drop 7).toString.splitOn ",").filter (· ≠ "")).filterMap Wire.parseArg
  (plain, now, choice)

def step (d : DState) (line : String) : DState × String :=
  let toks := Wire.splitWs line.trimAscii.toString
  match toks with
  | [] => (d, "")
  | "ck" :: _ | "dk" :: _ | "ev" :: _ => (d, Driver.codecOp toks)
  | "open" :: id :: backend :: _ =>
    ({ d with cur := id }.put { pebble := backend == "pebble" }, "ok")
  | ["inst", id] => ({ d with cur := id }, "ok")
  | _ =>
    let (plain, now, choice) := annotations toks
    let s := d.get
    match plain with
    | ["close"] => (d.put (Store.close s now), "ok")
    | ["reopen"] => (d.put (Store.reopen s), "ok")
    | ["gc"] => (d.put (Store.gc s now), "ok")
    | ["flush"] => (d.put (Store.flush s now), "ok")
    | ["sleep", _] => (d, "ok")
    | ["dump"] => (d, Driver.dumpState s)
    | "api" :: method :: rest =>
      (match Driver.callApi { s with signalled := [], held := [], hung := false } now method (Driver.groups rest) choice with
       | none => (d, "bad-op")
       | some (s', out) =>
         if s'.hung then (d.put (Store.syncShared s'), "HANG") else
         (d.put (Store.syncShared { s' with held := [] }), Driver.fmtOut (method == "ZUnion" || method == "ZInter") out))
    | _ => (d, "bad-op")

partial def loop (h : IO.FS.Stream) (out : IO.FS.Stream) (st : DState) : IO Unit := do
  let line ← h.getLine
  if line.isEmpty then return ()
  let (st', o) := step st line
  out.putStrLn o
  loop h out st'

def main : IO Unit := do
  let out ← IO.getStdout
  loop (← IO.getStdin) out {}
  out.flush
