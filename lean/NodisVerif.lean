import NodisVerif.Basic
