import NodisVerif.Model.Codec
import NodisVerif.Model.WF
import NodisVerif.Proofs.C14
/-
  C14 — storage codecs are lossless and injective.
  Property theorems only; helper lemmas live in Proofs/C14.lean.
  Everything is unbounded: every int64 deadline, every byte string of every length, every
  collection size, every non-NaN score bit pattern.
-/
namespace NodisVerif.C14
open Varint Codec

/-- every uint64 survives PutUvarint/Uvarint, whatever follows it in the buffer -/
theorem uvarint_roundtrip (n : Nat) (h : n < 2 ^ 64) (rest : Bytes) :
    uvarint (putUvarint n ++ rest) = (n, ((putUvarint n).length : Int)) :=
  Proofs.C14.uvarint_putUvarint n h rest

/-- every int64 survives PutVarint/Varint (zig-zag), whatever follows it -/
theorem varint_roundtrip (x : Int) (h : inInt64 x = true) (rest : Bytes) :
    varint (putVarint x ++ rest) = (x, ((putVarint x).length : Int)) :=
  Proofs.C14.varint_putVarint x h rest

/-- key codec round trip: every name (any length, incl. empty) and every int64 deadline -/
theorem key_roundtrip (name : Bytes) (exp : Int) (h : inInt64 exp = true) :
    decodeKey (encodeKey name exp) = some (name, exp) :=
  Proofs.C14.decodeKey_encodeKey name exp h

/-- two different (name, deadline) pairs never share an encoding -/
theorem key_injective (n1 n2 : Bytes) (e1 e2 : Int)
    (h1 : inInt64 e1 = true) (h2 : inInt64 e2 = true)
    (h : encodeKey n1 e1 = encodeKey n2 e2) : n1 = n2 ∧ e1 = e2 := by
  have a := key_roundtrip n1 e1 h1
  have b := key_roundtrip n2 e2 h2
  rw [h] at a
  rw [a] at b
  simpa using b

theorem str_roundtrip (v : Bytes) : decodeEntry (encodeEntry (.str v)) = some (.str v) :=
  Proofs.C14.str_roundtrip v

/-! Collections. The only hypothesis beyond well-formedness is the int64 guard on lengths: a Go
    byte string cannot be 2^63 bytes long, the model's lists can. Without it the statements are
    false (`Proofs.C14Counterexamples.*_roundtrip_false`). -/

/-- lists: every element content and length, any number of elements, order preserved -/
theorem list_roundtrip (l : LList) (h : l.WF) (hlen : ∀ v ∈ l.items, v.length < 2 ^ 63) :
    decodeEntry (encodeEntry (.list l)) = some (.list l) :=
  Proofs.C14.list_roundtrip_partial l h hlen

/-- hashes: every field/value (incl. empty), on both sides of every length-prefix boundary -/
theorem hash_roundtrip (m : AList Bytes) (h : AList.Sorted m)
    (hlen : ∀ p ∈ m, p.1.length + p.2.length + 10 < 2 ^ 63) :
    decodeEntry (encodeEntry (.hash m)) = some (.hash m) :=
  Proofs.C14.hash_roundtrip_partial' m h hlen

/-- sets (this is the statement that was false of the code before the `fix:` of set.GetValue:
    members of 64 bytes or more were truncated) -/
theorem set_roundtrip (m : AList Unit) (h : AList.Sorted m) (hlen : ∀ p ∈ m, p.1.length < 2 ^ 63) :
    decodeEntry (encodeEntry (.set m)) = some (.set m) :=
  Proofs.C14.set_roundtrip_partial m h hlen

/-- sorted sets: dictionary *and* skiplist order come back exactly, for every non-NaN score bit
    pattern (incl. ±0, ±inf, subnormals); the decoder re-inserts in member order, the theorem says
    the rebuilt chain is the original one -/
theorem zset_roundtrip (z : ZSet) (h : z.WF) (hlen : ∀ p ∈ z.dict, p.1.length + 8 < 2 ^ 63) :
    decodeEntry (encodeEntry (.zset z)) = some (.zset z) :=
  Proofs.C14.zset_roundtrip_partial z h hlen

/-- the length guard is necessary: with a 2^63-byte element the list round trip fails -/
theorem list_roundtrip_needs_length_guard :
    ¬ ∀ l : LList, l.WF → decodeEntry (encodeEntry (.list l)) = some (.list l) :=
  Proofs.C14Counterexamples.list_roundtrip_false

/-- non-vacuity: concrete non-trivial values meet the hypotheses -/
example : (⟨[[1], [], [2, 3]], 3⟩ : LList).WF := by simp [LList.WF]
example : AList.Sorted ([([1], [9]), ([1, 0], []), ([2], [7])] : AList Bytes) := by
  simp [AList.Sorted, Bytes.lt]
example : inInt64 36028797018963968 = true ∧ inInt64 (-1) = true := by decide

end NodisVerif.C14
