import NodisVerif.Proofs.C10Deadline
import NodisVerif.Proofs.C10Resp
import NodisVerif.Proofs.C10More
import NodisVerif.Proofs.C10Rename
import NodisVerif.Proofs.C10Scan
import NodisVerif.Proofs.C10Gc
import NodisVerif.Proofs.C10Examples
import NodisVerif.Proofs.C10ZAddPairs
/-
  C10 — Expiry: a key is visible before its deadline and to no command at or after it.

  Reference notions (`Store.live`, `Store.purge`, `Store.vis`, `Sim`, `Store.LiveWith`,
  `Spec.deadlineSec/Ms`, `Spec.expireApplies`, `Spec.pttl`, `Spec.ttlNs`) are in Spec/Expire.lean;
  the header of that file states exactly which fields `Sim` compares.

  Every theorem about a command assumes `AList.Sorted s.index` (the index is a btree: keys strictly
  increasing); without it a record can be shadowed by another record of the same name and `purge`
  would uncover it.
-/
namespace NodisVerif.C10
open NodisVerif Store
open NodisVerif.Proofs.C10

/-! ## 1. Core lemmas: the lookup protocol -/

/-- An expired record that is still indexed is absent for `readKey`: the result is `false`, the only
    changes are the access counter of that record and the lock list (so no visible record changes),
    and on the purged state the result is `false` too. -/
theorem readKey_expired_is_absent (s : MState) (now : Int) (k : Bytes) (m : Meta)
    (hm : getMeta s k = some m) (he : m.expired now = true) (hs : AList.Sorted s.index) :
    (readKey s now k).2 = false ∧
    (readKey s now k).1 = putMeta (lockR s k) k { m with count := m.count + 1 } ∧
    (∀ k', vis now (readKey s now k).1 k' = vis now s k') ∧
    (readKey (purge now s) now k).2 = false ∧
    (readKey (purge now s) now k).1 = purge now s ∧
    Sim now (readKey s now k).1 (readKey (purge now s) now k).1 := by
  have hv : vis now s k = none := by rw [vis_eq_of_getMeta hm]; simp [he]
  obtain ⟨a1, a2, _, _⟩ := readKey_spec s now k hs
  have hp : getMeta (purge now s) k = none := by rw [getMeta_purge now s hs, hm]; simp [Option.filter, he]
  refine ⟨by rw [a1, hv]; rfl, ?_, ?_, ?_, ?_, (readKey_good (good_purge now s hs) k).1.2.2.2⟩
  · unfold readKey
    rw [hm]
    have e2 : Meta.expired { m with count := m.count + 1 } now = true := he
    simp only [e2, if_true]
    split <;> rfl
  · intro k'
    rw [a2, hv]
    split
    · rename_i h; subst h; simp [rkOk, hv]
    · rfl
  · unfold readKey; rw [hp]
  · unfold readKey; rw [hp]

/-- A write to an expired key behaves exactly as on a key that never existed: with a constructor
    the key afterwards holds the fresh value, in memory, ok, with deadline 0, and the resulting state is
    `Sim`-equivalent to the one obtained from the purged state (where `k` is not indexed at all);
    without a constructor the lookup fails. -/
theorem writeKey_expired_is_fresh (s : MState) (now : Int) (k : Bytes) (m : Meta) (v : Val)
    (hm : getMeta s k = some m) (he : m.expired now = true) (hs : AList.Sorted s.index) :
    (writeKey s now k (some v)).2 = true ∧
    (∃ m', getMeta (writeKey s now k (some v)).1 k = some m' ∧ m'.exp = 0 ∧ m'.value = some v ∧ m'.isOk = true) ∧
    getMeta (purge now s) k = none ∧
    (writeKey (purge now s) now k (some v)).2 = true ∧
    Sim now (writeKey s now k (some v)).1 (writeKey (purge now s) now k (some v)).1 ∧
    (writeKey s now k none).2 = false ∧ (writeKey (purge now s) now k none).2 = false := by
  have hv : vis now s k = none := by rw [vis_eq_of_getMeta hm]; simp [he]
  have hl : live s now k = none := by
    cases h : live s now k with
    | none => rfl
    | some m' =>
      obtain ⟨h1, _, h3⟩ := live_iff.mp h
      rw [hm] at h1; cases h1; rw [he] at h3; cases h3
  have hp : getMeta (purge now s) k = none := by rw [getMeta_purge now s hs, hm]; simp [Option.filter, he]
  obtain ⟨⟨e, g⟩, _⟩ := writeKey_good (good_purge now s hs) k (some v)
  obtain ⟨a, _, _, _, _, hpost⟩ := writeKey_fresh hl hs v
  obtain ⟨m', hm', _, hr⟩ := vis_some_getMeta hpost
  have hr' := hr.symm
  simp only [recOf, freshRec, View.Rec.mk.injEq] at hr'
  refine ⟨a, ⟨m', hm', hr'.1, hr'.2.1, hr'.2.2.2.2.1⟩, hp, by rw [← e]; exact a, g.2.2, ?_, ?_⟩
  · exact writeKey_absent hl hs
  · unfold writeKey; rw [hp]

/-- Visible before the deadline with its full value: a hot, ok record whose deadline has not been
    reached (or that has none) is found by `readKey`; value and deadline are untouched (only the
    access counter moves). -/
theorem readKey_live (s : MState) (now : Int) (k : Bytes) (m : Meta) (v : Val)
    (hm : getMeta s k = some m) (hok : m.isOk = true) (hd : now < m.exp ∨ m.exp = 0)
    (hv : m.value = some v) :
    (readKey s now k).2 = true ∧
    getMeta (readKey s now k).1 k = some { m with count := m.count + 1 } := by
  have hne : Meta.expired { m with count := m.count + 1 } now = false := by
    simp only [Meta.expired]
    rcases hd with hd | hd
    · have : ¬ m.exp ≤ now := by omega
      simp [this]
    · simp [hd]
  have e1 : Meta.isOk { m with count := m.count + 1 } = true := hok
  unfold readKey
  rw [hm]
  have e3 : m.value.isSome = true := by rw [hv]; rfl
  simp only [e1, hne, e3, if_true, Bool.false_eq_true, if_false]
  exact ⟨trivial, by rw [getMeta_putMeta, if_pos rfl]⟩

theorem writeKey_live (s : MState) (now : Int) (k : Bytes) (m : Meta) (v : Val) (mk : Option Val)
    (hm : getMeta s k = some m) (hok : m.isOk = true) (hd : now < m.exp ∨ m.exp = 0)
    (hv : m.value = some v) :
    (writeKey s now k mk).2 = true ∧
    getMeta (writeKey s now k mk).1 k = some { m with count := m.count + 1 } := by
  have hne : Meta.expired { m with count := m.count + 1 } now = false := by
    simp only [Meta.expired]
    rcases hd with hd | hd
    · have : ¬ m.exp ≤ now := by omega
      simp [this]
    · simp [hd]
  have e1 : Meta.isOk { m with count := m.count + 1 } = true := hok
  unfold writeKey
  rw [hm]
  have e3 : m.value.isSome = true := by rw [hv]; rfl
  simp only [e1, hne, e3, if_true, Bool.false_eq_true, if_false]
  exact ⟨trivial, by rw [getMeta_putMeta, if_pos rfl]⟩

/-- the same for a cold record whose value can be loaded from the backend (`LiveWith`): found,
    the full value is in memory afterwards, the deadline is unchanged -/
theorem readKey_liveWith (s : MState) (now : Int) (k : Bytes) (m : Meta) (v : Val)
    (h : LiveWith s now k m v) (hs : AList.Sorted s.index) :
    (readKey s now k).2 = true ∧ valOf (readKey s now k).1 k = some v ∧
    Api.expOf (readKey s now k).1 k = m.exp :=
  Proofs.C10.readKey_liveWith h hs

theorem writeKey_liveWith (s : MState) (now : Int) (k : Bytes) (m : Meta) (v : Val) (mk : Option Val)
    (h : LiveWith s now k m v) (hs : AList.Sorted s.index) :
    (writeKey s now k mk).2 = true ∧ valOf (writeKey s now k mk).1 k = some v ∧
    Api.expOf (writeKey s now k mk).1 k = m.exp := by
  obtain ⟨a, b, c, _⟩ := Proofs.C10.writeKey_liveWith h hs mk
  exact ⟨a, b, c⟩

/-! ## 3. Deadline arithmetic

  `LiveWith s now k m v`: the key is live with record `m` (deadline `m.exp`, 0 = none) and value `v`.
  `Api.expOf s k` is the deadline stored in the index record of `k` (0 = none / not indexed). -/

/-- without int64 overflow the deadline is the instant of the command plus the requested duration -/
theorem deadlineSec_exact (now seconds : Int) (h1 : inInt64 (seconds * 1000) = true)
    (h2 : inInt64 (now + seconds * 1000) = true) : Spec.deadlineSec now seconds = now + seconds * 1000 := by
  unfold Spec.deadlineSec
  rw [wrap64_id _ h1, wrap64_id _ h2]

theorem deadlineMs_exact (now ms : Int) (h : inInt64 (now + ms) = true) : Spec.deadlineMs now ms = now + ms := by
  unfold Spec.deadlineMs
  exact wrap64_id _ h

/-- EXPIRE on a live key: reply 1, deadline = now + seconds*1000 (int64 arithmetic) -/
theorem expire_deadline (s : MState) (now : Int) (k : Bytes) (m : Meta) (v : Val) (seconds : Int)
    (h : LiveWith s now k m v) (hs : AList.Sorted s.index) (hz : seconds ≠ 0) :
    (Api.expire s now k seconds).2 = .int 1 ∧
    Api.expOf (Api.expire s now k seconds).1 k = Spec.deadlineSec now seconds := by
  rw [expire_eq, if_neg hz]
  exact writeCmd_liveWith h hs none _ _

/-- EXPIRE key 0 is DEL key -/
theorem expire_zero_is_del (s : MState) (now : Int) (k : Bytes) :
    Api.expire s now k 0 = Api.del s now [k] := by
  rw [expire_eq, if_pos rfl]

theorem expirePX_deadline (s : MState) (now : Int) (k : Bytes) (m : Meta) (v : Val) (ms : Int)
    (h : LiveWith s now k m v) (hs : AList.Sorted s.index) (hz : ms ≠ 0) :
    (Api.expirePX s now k ms).2 = .int 1 ∧
    Api.expOf (Api.expirePX s now k ms).1 k = Spec.deadlineMs now ms := by
  rw [expirePX_eq, if_neg hz]
  exact writeCmd_liveWith h hs none _ _

theorem expirePX_zero_is_del (s : MState) (now : Int) (k : Bytes) :
    Api.expirePX s now k 0 = Api.del s now [k] := by
  rw [expirePX_eq, if_pos rfl]

/-- EXPIREAT / PEXPIREAT: the requested absolute time (also one in the past: the key is then dead) -/
theorem expireAt_deadline (s : MState) (now : Int) (k : Bytes) (m : Meta) (v : Val) (ts : Int)
    (h : LiveWith s now k m v) (hs : AList.Sorted s.index) :
    (Api.expireAt s now k ts).2 = .int 1 ∧ Api.expOf (Api.expireAt s now k ts).1 k = ts := by
  rw [expireAt_eq]
  exact writeCmd_liveWith h hs none _ _

/-- the EXPIRE family on a key that is absent or expired: reply 0 -/
theorem expire_absent (s : MState) (now : Int) (k : Bytes) (seconds : Int)
    (h : live s now k = none) (hs : AList.Sorted s.index) (hz : seconds ≠ 0) :
    (Api.expire s now k seconds).2 = .int 0 := by
  rw [expire_eq, if_neg hz]; exact writeCmd_absent h hs _ _

/-- SETEX / SET EX on a live string key and on a key with no visible record -/
theorem setEX_deadline (s : MState) (now : Int) (k value : Bytes) (m : Meta) (old : DsStr.S) (seconds : Int)
    (h : LiveWith s now k m (Api.strVal old)) (hs : AList.Sorted s.index) :
    (Api.setEX s now k value seconds).2 = .unit ∧
    Api.expOf (Api.setEX s now k value seconds).1 k = Spec.deadlineSec now seconds := by
  rw [setEX_eq]
  have := writeCmd_liveWith h hs (some (.str [])) .unit (actOn strOf (setExA k value (Spec.deadlineSec now seconds)))
  cases old <;> exact this

theorem setEX_deadline_new (s : MState) (now : Int) (k value : Bytes) (seconds : Int)
    (h : live s now k = none) (hs : AList.Sorted s.index) :
    (Api.setEX s now k value seconds).2 = .unit ∧
    Api.expOf (Api.setEX s now k value seconds).1 k = Spec.deadlineSec now seconds := by
  rw [setEX_eq]
  exact writeCmd_fresh h hs (.str []) .unit _

theorem setPX_deadline (s : MState) (now : Int) (k value : Bytes) (m : Meta) (old : DsStr.S) (ms : Int)
    (h : LiveWith s now k m (Api.strVal old)) (hs : AList.Sorted s.index) :
    (Api.setPX s now k value ms).2 = .unit ∧
    Api.expOf (Api.setPX s now k value ms).1 k = Spec.deadlineMs now ms := by
  rw [setPX_eq]
  have := writeCmd_liveWith h hs (some (.str [])) .unit (actOn strOf (setExA k value (Spec.deadlineMs now ms)))
  cases old <;> exact this

theorem setPX_deadline_new (s : MState) (now : Int) (k value : Bytes) (ms : Int)
    (h : live s now k = none) (hs : AList.Sorted s.index) :
    (Api.setPX s now k value ms).2 = .unit ∧
    Api.expOf (Api.setPX s now k value ms).1 k = Spec.deadlineMs now ms := by
  rw [setPX_eq]
  exact writeCmd_fresh h hs (.str []) .unit _

/-! ### conditional forms

  What the model does, exactly (`cur = m.exp`, 0 = no deadline):
    NX changes iff `cur = 0`;  XX iff `cur ≠ 0`;  LT iff `cur ≠ 0 ∧ new < cur`;  GT iff `cur < new`.
  Redis (`Spec.expireApplies`) treats "no deadline" as infinite for GT/LT; the model (like the Go
  code, whose tests pin it) treats it as 0 = the smallest value. NX and XX agree with Redis
  everywhere; GT and LT agree when the key has a deadline (`_partial`) and deviate when it has none
  (`_finding`). -/

/-- shape of all conditional statements: reply 1 and the new deadline if `c`, else reply 0 and no change -/
def CondResult (r : Api.R) (k : Bytes) (c : Bool) (new cur : Int) : Prop :=
  r.2 = .int (if c then 1 else 0) ∧ Api.expOf r.1 k = if c then new else cur

theorem expireNX_iff (s : MState) (now : Int) (k : Bytes) (m : Meta) (v : Val) (seconds : Int)
    (h : LiveWith s now k m v) (hs : AList.Sorted s.index) :
    CondResult (Api.expireNX s now k seconds) k
      (Spec.expireApplies .nx (Spec.deadlineOf m.exp) (Spec.deadlineSec now seconds))
      (Spec.deadlineSec now seconds) m.exp := by
  rw [expireNX_eq]
  obtain ⟨a, b⟩ := writeCmd_liveWith h hs none (.int 0) (nxA k (Spec.deadlineSec now seconds))
  unfold CondResult
  rw [a, b]
  by_cases h0 : m.exp = 0 <;> simp [nxA, expA, Spec.expireApplies, Spec.deadlineOf, h0]

theorem expireXX_iff (s : MState) (now : Int) (k : Bytes) (m : Meta) (v : Val) (seconds : Int)
    (h : LiveWith s now k m v) (hs : AList.Sorted s.index) :
    CondResult (Api.expireXX s now k seconds) k
      (Spec.expireApplies .xx (Spec.deadlineOf m.exp) (Spec.deadlineSec now seconds))
      (Spec.deadlineSec now seconds) m.exp := by
  rw [expireXX_eq]
  obtain ⟨a, b⟩ := writeCmd_liveWith h hs none (.int 0) (xxA k (Spec.deadlineSec now seconds))
  unfold CondResult
  rw [a, b]
  by_cases h0 : m.exp = 0 <;> simp [xxA, expA, Spec.expireApplies, Spec.deadlineOf, h0]

/-- GT, what the model does: the deadline changes iff `m.exp < new` with "no deadline" = 0 -/
theorem expireGT_iff (s : MState) (now : Int) (k : Bytes) (m : Meta) (v : Val) (seconds : Int)
    (h : LiveWith s now k m v) (hs : AList.Sorted s.index) :
    CondResult (Api.expireGT s now k seconds) k (decide (m.exp < Spec.deadlineSec now seconds))
      (Spec.deadlineSec now seconds) m.exp := by
  rw [expireGT_eq]
  obtain ⟨a, b⟩ := writeCmd_liveWith h hs none (.int 0) (gtA k (Spec.deadlineSec now seconds))
  unfold CondResult
  rw [a, b]
  by_cases h0 : m.exp < Spec.deadlineSec now seconds <;> simp [gtA, expA, h0]

/-- LT, what the model does: the deadline changes iff the key has one and `new < m.exp` -/
theorem expireLT_iff (s : MState) (now : Int) (k : Bytes) (m : Meta) (v : Val) (seconds : Int)
    (h : LiveWith s now k m v) (hs : AList.Sorted s.index) :
    CondResult (Api.expireLT s now k seconds) k
      (decide (m.exp ≠ 0 ∧ Spec.deadlineSec now seconds < m.exp))
      (Spec.deadlineSec now seconds) m.exp := by
  rw [expireLT_eq]
  obtain ⟨a, b⟩ := writeCmd_liveWith h hs none (.int 0) (ltA k (Spec.deadlineSec now seconds))
  unfold CondResult
  rw [a, b]
  by_cases h0 : m.exp = 0
  · simp [ltA, h0]
  · by_cases h1 : Spec.deadlineSec now seconds < m.exp <;> simp [ltA, expA, h0, h1]

/-- FULL STATEMENT (false for keys without deadline, see `expireGT_finding`):
      CondResult (Api.expireGT …) k (Spec.expireApplies .gt (Spec.deadlineOf m.exp) new) new m.exp
    Proved for keys that have a deadline. -/
theorem expireGT_partial (s : MState) (now : Int) (k : Bytes) (m : Meta) (v : Val) (seconds : Int)
    (h : LiveWith s now k m v) (hs : AList.Sorted s.index) (hd : m.exp ≠ 0) :
    CondResult (Api.expireGT s now k seconds) k
      (Spec.expireApplies .gt (Spec.deadlineOf m.exp) (Spec.deadlineSec now seconds))
      (Spec.deadlineSec now seconds) m.exp := by
  have := expireGT_iff s now k m v seconds h hs
  simpa [Spec.expireApplies, Spec.deadlineOf, hd] using this

theorem expireLT_partial (s : MState) (now : Int) (k : Bytes) (m : Meta) (v : Val) (seconds : Int)
    (h : LiveWith s now k m v) (hs : AList.Sorted s.index) (hd : m.exp ≠ 0) :
    CondResult (Api.expireLT s now k seconds) k
      (Spec.expireApplies .lt (Spec.deadlineOf m.exp) (Spec.deadlineSec now seconds))
      (Spec.deadlineSec now seconds) m.exp := by
  have := expireLT_iff s now k m v seconds h hs
  simpa [Spec.expireApplies, Spec.deadlineOf, hd] using this

/-! EXPIREAT / PEXPIREAT analogues -/

theorem expireAtNX_iff (s : MState) (now : Int) (k : Bytes) (m : Meta) (v : Val) (ts : Int)
    (h : LiveWith s now k m v) (hs : AList.Sorted s.index) :
    CondResult (Api.expireAtNX s now k ts) k (Spec.expireApplies .nx (Spec.deadlineOf m.exp) ts) ts m.exp := by
  rw [expireAtNX_eq]
  obtain ⟨a, b⟩ := writeCmd_liveWith h hs none (.int 0) (nxA k ts)
  unfold CondResult
  rw [a, b]
  by_cases h0 : m.exp = 0 <;> simp [nxA, expA, Spec.expireApplies, Spec.deadlineOf, h0]

theorem expireAtXX_iff (s : MState) (now : Int) (k : Bytes) (m : Meta) (v : Val) (ts : Int)
    (h : LiveWith s now k m v) (hs : AList.Sorted s.index) :
    CondResult (Api.expireAtXX s now k ts) k (Spec.expireApplies .xx (Spec.deadlineOf m.exp) ts) ts m.exp := by
  rw [expireAtXX_eq]
  obtain ⟨a, b⟩ := writeCmd_liveWith h hs none (.int 0) (xxA k ts)
  unfold CondResult
  rw [a, b]
  by_cases h0 : m.exp = 0 <;> simp [xxA, expA, Spec.expireApplies, Spec.deadlineOf, h0]

theorem expireAtGT_iff (s : MState) (now : Int) (k : Bytes) (m : Meta) (v : Val) (ts : Int)
    (h : LiveWith s now k m v) (hs : AList.Sorted s.index) :
    CondResult (Api.expireAtGT s now k ts) k (decide (m.exp < ts)) ts m.exp := by
  rw [expireAtGT_eq]
  obtain ⟨a, b⟩ := writeCmd_liveWith h hs none (.int 0) (gtA k ts)
  unfold CondResult
  rw [a, b]
  by_cases h0 : m.exp < ts <;> simp [gtA, expA, h0]

theorem expireAtLT_iff (s : MState) (now : Int) (k : Bytes) (m : Meta) (v : Val) (ts : Int)
    (h : LiveWith s now k m v) (hs : AList.Sorted s.index) :
    CondResult (Api.expireAtLT s now k ts) k (decide (m.exp ≠ 0 ∧ ts < m.exp)) ts m.exp := by
  rw [expireAtLT_eq]
  obtain ⟨a, b⟩ := writeCmd_liveWith h hs none (.int 0) (ltA k ts)
  unfold CondResult
  rw [a, b]
  by_cases h0 : m.exp = 0
  · simp [ltA, h0]
  · by_cases h1 : ts < m.exp <;> simp [ltA, expA, h0, h1]

theorem expireAtGT_partial (s : MState) (now : Int) (k : Bytes) (m : Meta) (v : Val) (ts : Int)
    (h : LiveWith s now k m v) (hs : AList.Sorted s.index) (hd : m.exp ≠ 0) :
    CondResult (Api.expireAtGT s now k ts) k (Spec.expireApplies .gt (Spec.deadlineOf m.exp) ts) ts m.exp := by
  have := expireAtGT_iff s now k m v ts h hs
  simpa [Spec.expireApplies, Spec.deadlineOf, hd] using this

theorem expireAtLT_partial (s : MState) (now : Int) (k : Bytes) (m : Meta) (v : Val) (ts : Int)
    (h : LiveWith s now k m v) (hs : AList.Sorted s.index) (hd : m.exp ≠ 0) :
    CondResult (Api.expireAtLT s now k ts) k (Spec.expireApplies .lt (Spec.deadlineOf m.exp) ts) ts m.exp := by
  have := expireAtLT_iff s now k m v ts h hs
  simpa [Spec.expireApplies, Spec.deadlineOf, hd] using this

/-! ### the boundary: strictly before the deadline the record is live, at or after it it is not -/

theorem live_iff_before_deadline (s : MState) (now : Int) (k : Bytes) (m : Meta)
    (hm : getMeta s k = some m) (hok : m.isOk = true) (hd : m.exp ≠ 0) :
    live s now k = some m ↔ now < m.exp := by
  rw [live_iff]
  constructor
  · rintro ⟨_, _, he⟩
    simp only [Meta.expired, Bool.and_eq_false_iff, bne_eq_false_iff_eq, decide_eq_false_iff_not] at he
    rcases he with he | he
    · exact absurd he hd
    · omega
  · intro h
    refine ⟨hm, hok, ?_⟩
    have : ¬ m.exp ≤ now := by omega
    simp [Meta.expired, this]

theorem dead_from_deadline_on (s : MState) (now : Int) (k : Bytes) (m : Meta)
    (hm : getMeta s k = some m) (hd : m.exp ≠ 0) (h : m.exp ≤ now) : live s now k = none := by
  cases hl : live s now k with
  | none => rfl
  | some m' =>
    obtain ⟨h1, _, h3⟩ := live_iff.mp hl
    rw [hm] at h1; cases h1
    simp [Meta.expired, hd, h] at h3

theorem live_without_deadline (s : MState) (now : Int) (k : Bytes) (m : Meta)
    (hm : getMeta s k = some m) (hok : m.isOk = true) (hd : m.exp = 0) : live s now k = some m :=
  live_iff.mpr ⟨hm, hok, by simp [Meta.expired, hd]⟩

/-! ### overwrites clear the deadline, KEEPTTL and in-place updates keep it -/

/-- plain SET (keepTTL = false) on a live string key: the deadline is cleared -/
theorem set_clears_deadline (s : MState) (now : Int) (k value : Bytes) (m : Meta) (old : DsStr.S)
    (h : LiveWith s now k m (Api.strVal old)) (hs : AList.Sorted s.index) :
    (Api.set s now k value false).2 = .unit ∧ Api.expOf (Api.set s now k value false).1 k = 0 := by
  rw [set_eq]
  have := writeCmd_liveWith h hs (some (.str [])) .unit (actOn strOf (setA k value false .unit))
  cases old <;> exact this

/-- SET … KEEPTTL keeps it -/
theorem set_keepttl_keeps (s : MState) (now : Int) (k value : Bytes) (m : Meta) (old : DsStr.S)
    (h : LiveWith s now k m (Api.strVal old)) (hs : AList.Sorted s.index) :
    (Api.set s now k value true).2 = .unit ∧ Api.expOf (Api.set s now k value true).1 k = m.exp := by
  rw [set_eq]
  have := writeCmd_liveWith h hs (some (.str [])) .unit (actOn strOf (setA k value true .unit))
  cases old <;> exact this

/-- SET on a key with no visible record (absent or expired): no deadline, whatever KEEPTTL says -/
theorem set_new_no_deadline (s : MState) (now : Int) (k value : Bytes) (keep : Bool)
    (h : live s now k = none) (hs : AList.Sorted s.index) :
    (Api.set s now k value keep).2 = .unit ∧ Api.expOf (Api.set s now k value keep).1 k = 0 := by
  rw [set_eq]
  have := writeCmd_fresh h hs (.str []) .unit (actOn strOf (setA k value keep .unit))
  cases keep <;> exact this

/-- after SET the key is live and holds the new value (so the handler's `SET k v EX s` = `Set; Expire`
    chains: see `set_ex_deadline`) -/
theorem set_live_after (s : MState) (now : Int) (k value : Bytes) (keep : Bool) (m : Meta) (old : DsStr.S)
    (h : LiveWith s now k m (Api.strVal old)) (hs : AList.Sorted s.index) :
    ∃ m', LiveWith (Api.set s now k value keep).1 now k m' (.str value) := by
  obtain ⟨a, b, _, _, _, _⟩ := Proofs.C10.writeKey_liveWith h hs (some (.str []))
  rw [set_eq]
  refine writeCmd_liveAfter hs _ _ _ (.str value) a ?_ ?_ ?_
  · rw [b]; cases old <;> rfl
  · rw [b]; cases old <;> rfl
  · rw [b]; intro e he
    have : e = 0 := by cases old <;> cases keep <;> simp [actOn, strOf, Api.strVal, setA] at he <;> exact he.symm
    subst this; simp

theorem set_live_after_new (s : MState) (now : Int) (k value : Bytes) (keep : Bool)
    (h : live s now k = none) (hs : AList.Sorted s.index) :
    ∃ m', LiveWith (Api.set s now k value keep).1 now k m' (.str value) := by
  obtain ⟨a, b, _, _, _, _⟩ := writeKey_fresh h hs (.str [])
  rw [set_eq]
  refine writeCmd_liveAfter hs _ _ _ (.str value) a ?_ ?_ ?_
  · rw [b]; rfl
  · rw [b]; rfl
  · rw [b]; intro e he
    have : e = 0 := by cases keep <;> simp [actOn, strOf, setA] at he <;> exact he.symm
    subst this; simp

/-- `SET k v EX seconds` as the handler performs it (Set, commit, Expire): reply 1 from Expire and the
    deadline is now + seconds*1000, whether the key was live (string) or had no visible record -/
theorem set_ex_deadline (s : MState) (now : Int) (k value : Bytes) (keep : Bool) (seconds : Int)
    (h : (∃ m old, LiveWith s now k m (Api.strVal old)) ∨ live s now k = none) (hs : AList.Sorted s.index)
    (hz : seconds ≠ 0) :
    (Api.expire (Api.commit (Api.set s now k value keep).1) now k seconds).2 = .int 1 ∧
    Api.expOf (Api.expire (Api.commit (Api.set s now k value keep).1) now k seconds).1 k
      = Spec.deadlineSec now seconds := by
  have hsorted : AList.Sorted (Api.set s now k value keep).1.index :=
    ((resp_set now k value keep) s s (Good.refl hs)).2.1
  have hl : ∃ m', LiveWith (Api.set s now k value keep).1 now k m' (.str value) := by
    rcases h with ⟨m, old, h⟩ | h
    · exact set_live_after s now k value keep m old h hs
    · exact set_live_after_new s now k value keep h hs
  obtain ⟨m', hl⟩ := hl
  exact expire_deadline (Api.commit (Api.set s now k value keep).1) now k m' (.str value) seconds hl hsorted hz

/-- `SET k v EXAT/PXAT ts` (Set, commit, ExpireAt) -/
theorem set_exat_deadline (s : MState) (now : Int) (k value : Bytes) (keep : Bool) (ts : Int)
    (h : (∃ m old, LiveWith s now k m (Api.strVal old)) ∨ live s now k = none) (hs : AList.Sorted s.index) :
    (Api.expireAt (Api.commit (Api.set s now k value keep).1) now k ts).2 = .int 1 ∧
    Api.expOf (Api.expireAt (Api.commit (Api.set s now k value keep).1) now k ts).1 k = ts := by
  have hsorted : AList.Sorted (Api.set s now k value keep).1.index :=
    ((resp_set now k value keep) s s (Good.refl hs)).2.1
  have hl : ∃ m', LiveWith (Api.set s now k value keep).1 now k m' (.str value) := by
    rcases h with ⟨m, old, h⟩ | h
    · exact set_live_after s now k value keep m old h hs
    · exact set_live_after_new s now k value keep h hs
  obtain ⟨m', hl⟩ := hl
  exact expireAt_deadline (Api.commit (Api.set s now k value keep).1) now k m' (.str value) ts hl hsorted

theorem getSet_clears (s : MState) (now : Int) (k value : Bytes) (m : Meta) (old : DsStr.S)
    (h : LiveWith s now k m (Api.strVal old)) (hs : AList.Sorted s.index) :
    (Api.getSet s now k value).2 = .bytes old ∧ Api.expOf (Api.getSet s now k value).1 k = 0 := by
  obtain ⟨a, _⟩ := Proofs.C10.writeKey_liveWith h hs none
  rw [getSet_eq, a]
  simp only [Bool.not_true, Bool.false_eq_true, if_false]
  have := writeCmd_liveWith h hs none .unit (actOn strOf (getSetA k value))
  cases old <;> exact this

/-- GETSET on a key with no visible record (absent or expired): reply nil, the key is created with the
    value and without deadline -/
theorem getSet_new (s : MState) (now : Int) (k value : Bytes)
    (h : live s now k = none) (hs : AList.Sorted s.index) :
    (Api.getSet s now k value).2 = .bytes none ∧ Api.expOf (Api.getSet s now k value).1 k = 0 := by
  have a := writeKey_absent h hs
  rw [getSet_eq, a]
  simp only [Bool.not_false, if_true]
  refine ⟨rfl, ?_⟩
  unfold getSetNew
  simp only
  rw [expOf_emit, expOf_signal]
  apply expOf_setExp
  apply present_setVal
  obtain ⟨r, hr, _⟩ := hot_newKeyWith now (writeKey s now k none).1 k none (.str [])
  obtain ⟨m, hm, _, _⟩ := vis_some_getMeta hr
  rw [hm]; rfl

/-- PERSIST: reply 1 iff there was a deadline; afterwards there is none -/
theorem persist_clears (s : MState) (now : Int) (k : Bytes) (m : Meta) (v : Val)
    (h : LiveWith s now k m v) (hs : AList.Sorted s.index) :
    (Api.persist s now k).2 = .int (if m.exp = 0 then 0 else 1) ∧ Api.expOf (Api.persist s now k).1 k = 0 := by
  rw [persist_eq]
  obtain ⟨a, b⟩ := writeCmd_liveWith h hs none (.int 0) (persistA k)
  rw [a, b]
  by_cases h0 : m.exp = 0 <;> simp [persistA, h0]

/-- In-place updates keep the deadline of a live key (whatever its value: on a value of another
    type the command panics and changes nothing). -/
theorem append_keeps_deadline (s : MState) (now : Int) (k value : Bytes) (m : Meta) (v : Val)
    (h : LiveWith s now k m v) (hs : AList.Sorted s.index) :
    Api.expOf (Api.append s now k value).1 k = m.exp := by
  rw [append_eq]
  exact writeCmd_keeps h hs _ _ _ (actOn_keeps _ _ fun _ _ => ⟨rfl, rfl⟩)

theorem addInt_keeps_deadline (s : MState) (now : Int) (k : Bytes) (delta : Int) (neg sw : Bool) (m : Meta)
    (v : Val) (h : LiveWith s now k m v) (hs : AList.Sorted s.index) :
    Api.expOf (Api.addInt s now k delta neg sw).1 k = m.exp := by
  rw [addInt_eq]
  refine writeCmd_keeps h hs _ _ _ (actOn_keeps _ _ fun x _ => ?_)
  unfold addIntA; split <;> exact ⟨rfl, rfl⟩

theorem setBit_keeps_deadline (s : MState) (now : Int) (k : Bytes) (off : Int) (b : Bool) (m : Meta) (v : Val)
    (h : LiveWith s now k m v) (hs : AList.Sorted s.index) :
    Api.expOf (Api.setBit s now k off b).1 k = m.exp := by
  rw [setBit_eq]
  exact writeCmd_keeps h hs _ _ _ (actOn_keeps _ _ fun _ _ => ⟨rfl, rfl⟩)

theorem setRange_keeps_deadline (s : MState) (now : Int) (k : Bytes) (off : Int) (value : Bytes) (m : Meta)
    (v : Val) (h : LiveWith s now k m v) (hs : AList.Sorted s.index) :
    Api.expOf (Api.setRange s now k off value).1 k = m.exp := by
  rw [setRange_eq]
  refine writeCmd_keeps h hs _ _ _ (actOn_keeps _ _ fun x _ => ?_)
  unfold setRangeA; split <;> exact ⟨rfl, rfl⟩

theorem push_keeps_deadline (left : Bool) (s : MState) (now : Int) (k : Bytes) (values : List Bytes) (m : Meta)
    (v : Val) (h : LiveWith s now k m v) (hs : AList.Sorted s.index) :
    Api.expOf (Api.push left s now k values).1 k = m.exp := by
  rw [push_eq]
  exact writeCmd_keeps h hs _ _ _ (actOn_keeps _ _ fun _ _ => ⟨rfl, rfl⟩)

theorem pushX_keeps_deadline (left : Bool) (s : MState) (now : Int) (k data : Bytes) (m : Meta)
    (v : Val) (h : LiveWith s now k m v) (hs : AList.Sorted s.index) :
    Api.expOf (Api.pushX left s now k data).1 k = m.exp := by
  rw [pushX_eq]
  exact writeCmd_keeps h hs _ _ _ (actOn_keeps _ _ fun _ _ => ⟨rfl, rfl⟩)

theorem linsert_keeps_deadline (s : MState) (now : Int) (k pivot data : Bytes) (before : Bool) (m : Meta)
    (v : Val) (h : LiveWith s now k m v) (hs : AList.Sorted s.index) :
    Api.expOf (Api.linsert s now k pivot data before).1 k = m.exp := by
  rw [linsert_eq]
  exact writeCmd_keeps h hs _ _ _ (actOn_keeps _ _ fun _ _ => ⟨rfl, rfl⟩)

theorem lset_keeps_deadline (s : MState) (now : Int) (k : Bytes) (i : Int) (data : Bytes) (m : Meta)
    (v : Val) (h : LiveWith s now k m v) (hs : AList.Sorted s.index) :
    Api.expOf (Api.lset s now k i data).1 k = m.exp := by
  rw [lset_eq]
  refine writeCmd_keeps h hs _ _ _ (actOn_keeps _ _ fun x _ => ?_)
  unfold lsetA; split <;> exact ⟨rfl, rfl⟩

theorem hset_keeps_deadline (s : MState) (now : Int) (k field value : Bytes) (m : Meta)
    (v : Val) (h : LiveWith s now k m v) (hs : AList.Sorted s.index) :
    Api.expOf (Api.hset s now k field value).1 k = m.exp := by
  rw [hset_eq]
  exact writeCmd_keeps h hs _ _ _ (actOn_keeps _ _ fun _ _ => ⟨rfl, rfl⟩)

theorem hincrby_keeps_deadline (s : MState) (now : Int) (k field : Bytes) (delta : Int) (m : Meta)
    (v : Val) (h : LiveWith s now k m v) (hs : AList.Sorted s.index) :
    Api.expOf (Api.hincrby s now k field delta).1 k = m.exp := by
  rw [hincrby_eq]
  refine writeCmd_keeps h hs _ _ _ (actOn_keeps _ _ fun x _ => ?_)
  unfold hincrbyA; split <;> exact ⟨rfl, rfl⟩

theorem sadd_keeps_deadline (s : MState) (now : Int) (k : Bytes) (members : List Bytes) (m : Meta)
    (v : Val) (h : LiveWith s now k m v) (hs : AList.Sorted s.index) :
    Api.expOf (Api.sadd s now k members).1 k = m.exp := by
  rw [sadd_eq]
  exact writeCmd_keeps h hs _ _ _ (actOn_keeps _ _ fun _ _ => ⟨rfl, rfl⟩)

/-- ZADD and ZADD NX (`Api.zadd = zaddWith zAdd`, `Api.zaddNX = zaddWith zAddNX`) -/
theorem zadd_keeps_deadline (f : ZSet → Bytes → F64 → ZSet × Int) (s : MState) (now : Int) (k mem : Bytes)
    (sc : F64) (m : Meta) (v : Val) (h : LiveWith s now k m v) (hs : AList.Sorted s.index) :
    Api.expOf (Api.zaddWith f s now k mem sc).1 k = m.exp := by
  rw [zaddWith_eq]
  exact writeCmd_keeps h hs _ _ _ (actOn_keeps _ _ fun _ _ => ⟨rfl, rfl⟩)

theorem zincrby_keeps_deadline (s : MState) (now : Int) (k mem : Bytes) (delta : F64) (m : Meta)
    (v : Val) (h : LiveWith s now k m v) (hs : AList.Sorted s.index) :
    Api.expOf (Api.zincrby s now k mem delta).1 k = m.exp := by
  rw [zincrby_eq]
  refine writeCmd_keeps h hs _ _ _ (actOn_keeps _ _ fun x _ => ?_)
  unfold zincrbyA; split <;> exact ⟨rfl, rfl⟩

/-! ## 4. TTL / PTTL -/

/-- PTTL and TTL of a live key: remaining time (PTTL = deadline − now; TTL = that as a Go duration in
    ns rounded to whole seconds), −1 without deadline -/
theorem ttl_reports (s : MState) (now : Int) (k : Bytes) (m : Meta) (v : Val)
    (h : LiveWith s now k m v) (hs : AList.Sorted s.index) :
    (Api.pttl s now k).2 = .int (Spec.pttl now (some m.exp)) ∧
    (Api.ttl s now k).2 = .int (Spec.ttlNs now (some m.exp)) := by
  rw [pttl_eq, ttl_eq, readCmd_liveWith h hs, readCmd_liveWith h hs, pttlF_eq, ttlF_eq]
  exact ⟨rfl, rfl⟩

/-- … and −2 when the key is absent or expired -/
theorem ttl_reports_absent (s : MState) (now : Int) (k : Bytes)
    (h : live s now k = none) (hs : AList.Sorted s.index) :
    (Api.pttl s now k).2 = .int (Spec.pttl now none) ∧ (Api.ttl s now k).2 = .int (Spec.ttlNs now none) := by
  rw [pttl_eq, ttl_eq, readCmd_absent h hs, readCmd_absent h hs]
  exact ⟨rfl, rfl⟩

/-- with a deadline in the future the reported PTTL is positive and is exactly deadline − now -/
theorem pttl_positive (now e : Int) (h0 : e ≠ 0) (h : now < e) :
    Spec.pttl now (some e) = e - now ∧ 0 < Spec.pttl now (some e) := by
  unfold Spec.pttl
  simp only
  rw [if_neg h0]
  omega

/-- when nothing overflows, TTL is the remaining milliseconds rounded to the nearest second (half up), in ns -/
theorem ttlNs_exact (now e : Int) (h0 : e ≠ 0) (h1 : (e - now) * 1000000 ≤ int64Max - 500000000) :
    Spec.ttlNs now (some e) = (e - now + 500) / 1000 * 1000000000 := by
  unfold Spec.ttlNs int64Max at *
  simp only [h0, if_false]
  split
  · omega
  · split <;> omega

/-- TTL never increases while no command touches the key (same state, later instant) -/
theorem pttl_monotone (s : MState) (now now' : Int) (k : Bytes) (m m' : Meta) (v v' : Val)
    (hn : now ≤ now') (h : LiveWith s now k m v) (h' : LiveWith s now' k m' v') (hs : AList.Sorted s.index) :
    ∃ a b, (Api.pttl s now k).2 = .int a ∧ (Api.pttl s now' k).2 = .int b ∧ b ≤ a := by
  have hm : m = m' := by
    have a := (live_iff.mp h.1).1
    have b := (live_iff.mp h'.1).1
    rw [a] at b; cases b; rfl
  subst hm
  refine ⟨_, _, (ttl_reports s now k m v h hs).1, (ttl_reports s now' k m v' h' hs).1, ?_⟩
  unfold Spec.pttl
  simp only
  split <;> omega

theorem ttl_monotone (s : MState) (now now' : Int) (k : Bytes) (m m' : Meta) (v v' : Val)
    (hn : now ≤ now') (h : LiveWith s now k m v) (h' : LiveWith s now' k m' v') (hs : AList.Sorted s.index) :
    ∃ a b, (Api.ttl s now k).2 = .int a ∧ (Api.ttl s now' k).2 = .int b ∧ b ≤ a := by
  have hm : m = m' := by
    have a := (live_iff.mp h.1).1
    have b := (live_iff.mp h'.1).1
    rw [a] at b; cases b; rfl
  subst hm
  refine ⟨_, _, (ttl_reports s now k m v h hs).2, (ttl_reports s now' k m v' h' hs).2, ?_⟩
  unfold Spec.ttlNs int64Max
  simp only
  split
  · omega
  · repeat' split
    all_goals omega

/-! ## 2. No command sees an expired record

  GENERIC LEMMAS: `Proofs.C10.readCmd_good` / `writeCmd_good` — a command that touches the store only
  through `readKey` / `writeKey` on its key argument and then acts on that key (`setVal`, `setExp`,
  `delKey`, `signal`, `emit`) gives the same reply on two `Sim`-related states and leaves them
  related. Every single-key command is an instance (`Proofs/C10Factor.lean`, by unfolding only);
  DEL, EXISTS, KEYS, RANDOMKEY, SETNX, RENAME, RENAMENX, SDIFF/SINTER/SUNION, MSET are proved from
  the same primitive lemmas (`Proofs/C10Resp.lean`). -/

/-- the commands covered -/
inductive Cmd
  -- strings
  | get (k : Bytes) | getBit (k : Bytes) (off : Int) | bitCount (k : Bytes) (a b : Int) (bit : Bool)
  | getRange (k : Bytes) (a b : Int) | strLen (k : Bytes)
  | set (k v : Bytes) (keepTTL : Bool) | setOpt (k : Bytes) (v : DsStr.S) (keepTTL : Bool)
  | getSet (k v : Bytes) | setNX (k v : Bytes) (keepTTL : Bool) | setXX (k v : Bytes) (keepTTL : Bool)
  | setEX (k v : Bytes) (seconds : Int) | setPX (k v : Bytes) (ms : Int)
  | addInt (k : Bytes) (delta : Int) (neg : Bool) | setBit (k : Bytes) (off : Int) (b : Bool)
  | append (k v : Bytes) | setRange (k : Bytes) (off : Int) (v : Bytes) | mset (pairs : List Bytes)
  -- keys
  | exists_ (ks : List Bytes) | del (ks : List Bytes) | type_ (k : Bytes) | keys (pat : Bytes)
  | randomKey (choice : Option Bytes) | ttl (k : Bytes) | pttl (k : Bytes)
  | expire (k : Bytes) (seconds : Int) | expirePX (k : Bytes) (ms : Int)
  | expireNX (k : Bytes) (seconds : Int) | expireXX (k : Bytes) (seconds : Int)
  | expireLT (k : Bytes) (seconds : Int) | expireGT (k : Bytes) (seconds : Int)
  | expireAt (k : Bytes) (ts : Int) | expireAtNX (k : Bytes) (ts : Int) | expireAtXX (k : Bytes) (ts : Int)
  | expireAtLT (k : Bytes) (ts : Int) | expireAtGT (k : Bytes) (ts : Int) | persist (k : Bytes)
  | rename (k dst : Bytes) | renameNX (k dst : Bytes)
  -- lists
  | push (left : Bool) (k : Bytes) (vs : List Bytes) | pop (left : Bool) (k : Bytes) (count : Int)
  | llen (k : Bytes) | lindex (k : Bytes) (i : Int) | lrange (k : Bytes) (a b : Int)
  | linsert (k pivot data : Bytes) (before : Bool) | pushX (left : Bool) (k data : Bytes)
  | lrem (k data : Bytes) (count : Int) | lset (k : Bytes) (i : Int) (data : Bytes) | ltrim (k : Bytes) (a b : Int)
  -- hashes
  | hset (k f v : Bytes) | hget (k f : Bytes) | hlen (k : Bytes) | hkeys (k : Bytes) | hvals (k : Bytes)
  | hgetall (k : Bytes) | hexists (k f : Bytes) | hstrlen (k f : Bytes) | hmget (k : Bytes) (fs : List Bytes)
  | hscan (k : Bytes) (cursor : Int) (pat : Bytes) (count : Int) | hdel (k : Bytes) (fs : List Bytes)
  | hincrby (k f : Bytes) (delta : Int) | hsetnx (k f v : Bytes)
  -- sets
  | sadd (k : Bytes) (ms : List Bytes) | scard (k : Bytes) | smembers (k : Bytes) | sismember (k m : Bytes)
  | sscan (k : Bytes) (cursor : Int) (pat : Bytes) (count : Int) | srem (k : Bytes) (ms : List Bytes)
  | sdiff (ks : List Bytes) | sinter (ks : List Bytes) | sunion (ks : List Bytes)
  -- sorted sets
  | zadd (k m : Bytes) (sc : F64) | zaddNX (k m : Bytes) (sc : F64) | zaddXX (k m : Bytes) (sc : F64)
  | zaddLT (k m : Bytes) (sc : F64) | zaddGT (k m : Bytes) (sc : F64)
  | zcard (k : Bytes) | zrank (k m : Bytes) | zrevrank (k m : Bytes) | zscore (k m : Bytes)
  | rankWithScore (desc : Bool) (k m : Bytes)
  | zrange (desc withScores : Bool) (k : Bytes) (a b : Int)
  | zrangeByScore (desc withScores : Bool) (k : Bytes) (min max : F64) (offset count mode : Int)
  | zexists (k m : Bytes) | zcount (k : Bytes) (min max : F64) (mode : Int) | zmax (k : Bytes) | zmin (k : Bytes)
  | zscan (k : Bytes) (cursor : Int) (pat : Bytes) (count : Int)
  | zincrby (k m : Bytes) (delta : F64) | zrem (k : Bytes) (ms : List Bytes)
  | zremRangeByRank (k : Bytes) (a b : Int) | zremRangeByScore (k : Bytes) (min max : F64) (mode : Int)
  | zunion (ks : List Bytes) (weights : List F64) (agg : Bytes)
  | zinter (ks : List Bytes) (weights : List F64) (agg : Bytes)
  | zunionstore (dst : Bytes) (ks : List Bytes) (weights : List F64) (agg : Bytes)
  | zinterstore (dst : Bytes) (ks : List Bytes) (weights : List F64) (agg : Bytes)
  -- further commands
  | incrByFloat (k : Bytes) (delta : F64) | hincrbyfloat (k f : Bytes) (delta : F64)
  | hmset (k : Bytes) (pairs : List (Bytes × Bytes))
  | spop (k : Bytes) (count : Int) (choice : List Bytes) | srandmember (k : Bytes) (count : Int) (choice : List Bytes)
  | sdiffstore (dst : Bytes) (ks : List Bytes) | sinterstore (dst : Bytes) (ks : List Bytes)
  | sunionstore (dst : Bytes) (ks : List Bytes)
  | rotate (left : Bool) (src dst : Bytes) | smove (src dst member : Bytes)

/-- dispatch to the model's API functions -/
def run (s : MState) (now : Int) : Cmd → MState × Out
  | .get k => Api.get s now k | .getBit k o => Api.getBit s now k o
  | .bitCount k a b bit => Api.bitCount s now k a b bit | .getRange k a b => Api.getRange s now k a b
  | .strLen k => Api.strLen s now k
  | .set k v keep => Api.set s now k v keep | .setOpt k v keep => Api.setOpt s now k v keep
  | .getSet k v => Api.getSet s now k v | .setNX k v keep => Api.setNX s now k v keep
  | .setXX k v keep => Api.setXX s now k v keep
  | .setEX k v sec => Api.setEX s now k v sec | .setPX k v ms => Api.setPX s now k v ms
  | .addInt k d neg => Api.addInt s now k d neg | .setBit k o b => Api.setBit s now k o b
  | .append k v => Api.append s now k v | .setRange k o v => Api.setRange s now k o v
  | .mset pairs => Api.mset s now pairs
  | .exists_ ks => Api.exists_ s now ks | .del ks => Api.del s now ks | .type_ k => Api.type_ s now k
  | .keys pat => Api.keys s now pat | .randomKey c => Api.randomKey s now c
  | .ttl k => Api.ttl s now k | .pttl k => Api.pttl s now k
  | .expire k sec => Api.expire s now k sec | .expirePX k ms => Api.expirePX s now k ms
  | .expireNX k sec => Api.expireNX s now k sec | .expireXX k sec => Api.expireXX s now k sec
  | .expireLT k sec => Api.expireLT s now k sec | .expireGT k sec => Api.expireGT s now k sec
  | .expireAt k ts => Api.expireAt s now k ts | .expireAtNX k ts => Api.expireAtNX s now k ts
  | .expireAtXX k ts => Api.expireAtXX s now k ts | .expireAtLT k ts => Api.expireAtLT s now k ts
  | .expireAtGT k ts => Api.expireAtGT s now k ts | .persist k => Api.persist s now k
  | .rename k d => Api.rename s now k d | .renameNX k d => Api.renameNX s now k d
  | .push l k vs => Api.push l s now k vs | .pop l k c => Api.pop l s now k c
  | .llen k => Api.llen s now k | .lindex k i => Api.lindex s now k i | .lrange k a b => Api.lrange s now k a b
  | .linsert k p d b => Api.linsert s now k p d b | .pushX l k d => Api.pushX l s now k d
  | .lrem k d c => Api.lrem s now k d c | .lset k i d => Api.lset s now k i d
  | .ltrim k a b => Api.ltrim s now k a b
  | .hset k f v => Api.hset s now k f v | .hget k f => Api.hget s now k f | .hlen k => Api.hlen s now k
  | .hkeys k => Api.hkeys s now k | .hvals k => Api.hvals s now k | .hgetall k => Api.hgetall s now k
  | .hexists k f => Api.hexists s now k f | .hstrlen k f => Api.hstrlen s now k f
  | .hmget k fs => Api.hmget s now k fs | .hscan k c p n => Api.hscan s now k c p n
  | .hdel k fs => Api.hdel s now k fs | .hincrby k f d => Api.hincrby s now k f d
  | .hsetnx k f v => Api.hsetnx s now k f v
  | .sadd k ms => Api.sadd s now k ms | .scard k => Api.scard s now k | .smembers k => Api.smembers s now k
  | .sismember k m => Api.sismember s now k m | .sscan k c p n => Api.sscan s now k c p n
  | .srem k ms => Api.srem s now k ms
  | .sdiff ks => Api.sdiff s now ks | .sinter ks => Api.sinter s now ks | .sunion ks => Api.sunion s now ks
  | .zadd k m sc => Api.zadd s now k m sc | .zaddNX k m sc => Api.zaddNX s now k m sc
  | .zaddXX k m sc => Api.zaddXX s now k m sc | .zaddLT k m sc => Api.zaddLT s now k m sc
  | .zaddGT k m sc => Api.zaddGT s now k m sc
  | .zcard k => Api.zcard s now k | .zrank k m => Api.zrank s now k m | .zrevrank k m => Api.zrevrank s now k m
  | .zscore k m => Api.zscore s now k m | .rankWithScore d k m => Api.rankWithScore d s now k m
  | .zrange d w k a b => Api.zrange d w s now k a b
  | .zrangeByScore d w k mn mx o c md => Api.zrangeByScore d w s now k mn mx o c md
  | .zexists k m => Api.zexists s now k m | .zcount k mn mx md => Api.zcount s now k mn mx md
  | .zmax k => Api.zmax s now k | .zmin k => Api.zmin s now k | .zscan k c p n => Api.zscan s now k c p n
  | .zincrby k m d => Api.zincrby s now k m d | .zrem k ms => Api.zrem s now k ms
  | .zremRangeByRank k a b => Api.zremRangeByRank s now k a b
  | .zremRangeByScore k mn mx md => Api.zremRangeByScore s now k mn mx md
  | .zunion ks w a => Api.zunion s now ks w a | .zinter ks w a => Api.zinter s now ks w a
  | .zunionstore d ks w a => Api.zstore true s now d ks w a
  | .zinterstore d ks w a => Api.zstore false s now d ks w a
  | .incrByFloat k d => Api.incrByFloat s now k d | .hincrbyfloat k f d => Api.hincrbyfloat s now k f d
  | .hmset k ps => Api.hmset s now k ps
  | .spop k c ch => Api.spop s now k c ch | .srandmember k c ch => Api.srandmember s now k c ch
  | .sdiffstore d ks => Api.sstore Api.sdiff s now d ks | .sinterstore d ks => Api.sstore Api.sinter s now d ks
  | .sunionstore d ks => Api.sstore Api.sunion s now d ks
  | .rotate l a b => Api.rotate l s now a b | .smove a b m => Api.smove s now a b m

theorem run_resp (now : Int) (c : Cmd) : Resp now (fun s => run s now c) := by
  cases c with
  | get k => exact resp_get now k
  | getBit k o => exact resp_getBit now k o
  | bitCount k a b bit => exact resp_bitCount now k a b bit
  | getRange k a b => exact resp_getRange now k a b
  | strLen k => exact resp_strLen now k
  | set k v keep => exact resp_set now k v keep
  | setOpt k v keep => exact resp_setOpt now k v keep
  | getSet k v => exact resp_getSet now k v
  | setNX k v keep => exact resp_setNX now k v keep
  | setXX k v keep => exact resp_setXX now k v keep
  | setEX k v sec => exact resp_setEX now k v sec
  | setPX k v ms => exact resp_setPX now k v ms
  | addInt k d neg => exact resp_addInt now k d neg false
  | setBit k o b => exact resp_setBit now k o b
  | append k v => exact resp_append now k v
  | setRange k o v => exact resp_setRange now k o v
  | mset pairs => exact resp_mset now pairs
  | exists_ ks => exact resp_exists now ks
  | del ks => exact resp_del now ks
  | type_ k => exact resp_type now k
  | keys pat => exact resp_keys now pat
  | randomKey c => exact resp_randomKey now c
  | ttl k => exact resp_ttl now k
  | pttl k => exact resp_pttl now k
  | expire k sec => exact resp_expire now k sec
  | expirePX k ms => exact resp_expirePX now k ms
  | expireNX k sec => exact resp_expireNX now k sec
  | expireXX k sec => exact resp_expireXX now k sec
  | expireLT k sec => exact resp_expireLT now k sec
  | expireGT k sec => exact resp_expireGT now k sec
  | expireAt k ts => exact resp_expireAt now k ts
  | expireAtNX k ts => exact resp_expireAtNX now k ts
  | expireAtXX k ts => exact resp_expireAtXX now k ts
  | expireAtLT k ts => exact resp_expireAtLT now k ts
  | expireAtGT k ts => exact resp_expireAtGT now k ts
  | persist k => exact resp_persist now k
  | rename k d => exact resp_rename now k d
  | renameNX k d => exact resp_renameNX now k d
  | push l k vs => exact resp_push now k l vs
  | pop l k c => exact resp_pop now k l c
  | llen k => exact resp_llen now k
  | lindex k i => exact resp_lindex now k i
  | lrange k a b => exact resp_lrange now k a b
  | linsert k p d b => exact resp_linsert now k p d b
  | pushX l k d => exact resp_pushX now k l d
  | lrem k d c => exact resp_lrem now k d c
  | lset k i d => exact resp_lset now k i d
  | ltrim k a b => exact resp_ltrim now k a b
  | hset k f v => exact resp_hset now k f v
  | hget k f => exact resp_hget now k f
  | hlen k => exact resp_hread now k _ _
  | hkeys k => exact resp_hread now k _ _
  | hvals k => exact resp_hread now k _ _
  | hgetall k => exact resp_hread now k _ _
  | hexists k f => exact resp_hread now k _ _
  | hstrlen k f => exact resp_hread now k _ _
  | hmget k fs => exact resp_hread now k _ _
  | hscan k c p n => exact resp_hread now k _ _
  | hdel k fs => exact resp_hdel now k fs
  | hincrby k f d => exact resp_hincrby now k f d
  | hsetnx k f v => exact resp_hsetnx now k f v
  | sadd k ms => exact resp_sadd now k ms
  | scard k => exact resp_sread now k _ _
  | smembers k => exact resp_sread now k _ _
  | sismember k m => exact resp_sread now k _ _
  | sscan k c p n => exact resp_sread now k _ _
  | srem k ms => exact resp_srem now k ms
  | sdiff ks => exact resp_sdiff now ks
  | sinter ks => exact resp_sinter now ks
  | sunion ks => exact resp_sunion now ks
  | zadd k m sc => exact resp_zaddWith now k DsZSet.zAdd m sc
  | zaddNX k m sc => exact resp_zaddWith now k DsZSet.zAddNX m sc
  | zaddXX k m sc => exact resp_zaddXX now k m sc
  | zaddLT k m sc => exact resp_zaddCmp now k DsZSet.zAddLT m sc
  | zaddGT k m sc => exact resp_zaddCmp now k DsZSet.zAddGT m sc
  | zcard k => exact resp_zread now k _ _
  | zrank k m => exact resp_zread now k _ _
  | zrevrank k m => exact resp_zread now k _ _
  | zscore k m => exact resp_zread now k _ _
  | rankWithScore d k m => exact resp_zread now k _ _
  | zrange d w k a b => exact resp_zread now k _ _
  | zrangeByScore d w k mn mx o c md => exact resp_zread now k _ _
  | zexists k m => exact resp_zread now k _ _
  | zcount k mn mx md => exact resp_zread now k _ _
  | zmax k => exact resp_zread now k _ _
  | zmin k => exact resp_zread now k _ _
  | zscan k c p n => exact resp_zread now k _ _
  | zincrby k m d => exact resp_zincrby now k m d
  | zrem k ms => exact resp_zrem now k ms
  | zremRangeByRank k a b => exact resp_zremRangeByRank now k a b
  | zremRangeByScore k mn mx md => exact resp_zremRangeByScore now k mn mx md
  | zunion ks w a => exact resp_zunion now ks w a
  | zinter ks w a => exact resp_zinter now ks w a
  | zunionstore d ks w a => exact resp_zstore now true d ks w a
  | zinterstore d ks w a => exact resp_zstore now false d ks w a
  | incrByFloat k d => exact resp_incrByFloat now k d
  | hincrbyfloat k f d => exact resp_hincrbyfloat now k f d
  | hmset k ps => exact resp_hmset now k ps
  | spop k c ch => exact resp_spop now k c ch
  | srandmember k c ch => exact resp_srandmember now k c ch
  | sdiffstore d ks => exact resp_sstore now Api.sdiff d ks (resp_sdiff now ks)
  | sinterstore d ks => exact resp_sstore now Api.sinter d ks (resp_sinter now ks)
  | sunionstore d ks => exact resp_sstore now Api.sunion d ks (resp_sunion now ks)
  | rotate l a b => exact resp_rotate now l a b
  | smove a b m => exact resp_smove now a b m

/-- MAIN THEOREM of part 2: a command run on `s` and on the purged state gives the same reply, and the
    two resulting states are observationally equivalent (same unexpired records, same frame). -/
theorem expired_invisible (s : MState) (now : Int) (c : Cmd) (hs : AList.Sorted s.index) :
    (run s now c).2 = (run (purge now s) now c).2 ∧
    Sim now (run s now c).1 (run (purge now s) now c).1 := by
  obtain ⟨a, b⟩ := run_resp now c s (purge now s) (good_purge now s hs)
  exact ⟨a, b.2.2⟩

/-- the general form: `Sim` is a congruence for every covered command (so the statement iterates
    along any sequence of commands issued at the same instant), and the btree invariant is kept -/
theorem sim_congruence (s s' : MState) (now : Int) (c : Cmd) (hs : AList.Sorted s.index)
    (hs' : AList.Sorted s'.index) (h : Sim now s s') :
    (run s now c).2 = (run s' now c).2 ∧ Sim now (run s now c).1 (run s' now c).1 ∧
    AList.Sorted (run s now c).1.index ∧ AList.Sorted (run s' now c).1.index := by
  obtain ⟨a, b⟩ := run_resp now c s s' ⟨hs, hs', h⟩
  exact ⟨a, b.2.2, b.1, b.2.1⟩

/-- `purge` really relates to `s`: `Sim now s (purge now s)`, and the purged state indexes no expired record -/
theorem sim_purge (s : MState) (now : Int) (hs : AList.Sorted s.index) : Sim now s (purge now s) :=
  (good_purge now s hs).2.2

theorem purge_no_expired (s : MState) (now : Int) (k : Bytes) (m : Meta) (hs : AList.Sorted s.index)
    (h : getMeta (purge now s) k = some m) : m.expired now = false ∧ getMeta s k = some m := by
  rw [getMeta_purge now s hs] at h
  cases hg : getMeta s k with
  | none => rw [hg] at h; cases h
  | some m0 =>
    rw [hg] at h
    simp only [Option.filter] at h
    split at h
    · rename_i hc; cases h; exact ⟨by simpa using hc, rfl⟩
    · cases h

/-- what `Sim` gives for a name: same live record up to bookkeeping — same deadline, same value -/
theorem sim_live (s s' : MState) (now : Int) (k : Bytes) (h : Sim now s s') :
    (live s now k).map (fun m => (m.exp, m.value)) = (live s' now k).map (fun m => (m.exp, m.value)) := by
  have hv := h.recs k
  have key : ∀ (t : MState), (live t now k).map (fun m => (m.exp, m.value)) =
      ((vis now t k).filter (·.ok)).map (fun r => (r.exp, r.value)) := by
    intro t
    unfold live vis
    cases getMeta t k with
    | none => rfl
    | some m =>
      simp only [Option.filter]
      by_cases he : m.expired now = true
      · simp [he]
      · by_cases ho : m.isOk = true
        · simp [he, ho, recOf]
        · simp [he, ho, recOf]
  rw [key s, key s', hv]

/-! ### named instances (the commands listed in the property) -/

theorem invisible_of_resp {f : MState → Api.R} {now : Int} (h : Resp now f) (s : MState)
    (hs : AList.Sorted s.index) :
    (f s).2 = (f (purge now s)).2 ∧ Sim now (f s).1 (f (purge now s)).1 := by
  obtain ⟨a, b⟩ := h s (purge now s) (good_purge now s hs)
  exact ⟨a, b.2.2⟩

theorem expired_invisible_get (s : MState) (now : Int) (k : Bytes) (hs : AList.Sorted s.index) :
    (Api.get s now k).2 = (Api.get (purge now s) now k).2 ∧
    Sim now (Api.get s now k).1 (Api.get (purge now s) now k).1 := invisible_of_resp (resp_get now k) s hs
theorem expired_invisible_set (s : MState) (now : Int) (k v : Bytes) (keep : Bool) (hs : AList.Sorted s.index) :
    (Api.set s now k v keep).2 = (Api.set (purge now s) now k v keep).2 ∧
    Sim now (Api.set s now k v keep).1 (Api.set (purge now s) now k v keep).1 :=
  invisible_of_resp (resp_set now k v keep) s hs
theorem expired_invisible_setNX (s : MState) (now : Int) (k v : Bytes) (keep : Bool) (hs : AList.Sorted s.index) :
    (Api.setNX s now k v keep).2 = (Api.setNX (purge now s) now k v keep).2 ∧
    Sim now (Api.setNX s now k v keep).1 (Api.setNX (purge now s) now k v keep).1 :=
  invisible_of_resp (resp_setNX now k v keep) s hs
theorem expired_invisible_setXX (s : MState) (now : Int) (k v : Bytes) (keep : Bool) (hs : AList.Sorted s.index) :
    (Api.setXX s now k v keep).2 = (Api.setXX (purge now s) now k v keep).2 ∧
    Sim now (Api.setXX s now k v keep).1 (Api.setXX (purge now s) now k v keep).1 :=
  invisible_of_resp (resp_setXX now k v keep) s hs
theorem expired_invisible_getSet (s : MState) (now : Int) (k v : Bytes) (hs : AList.Sorted s.index) :
    (Api.getSet s now k v).2 = (Api.getSet (purge now s) now k v).2 ∧
    Sim now (Api.getSet s now k v).1 (Api.getSet (purge now s) now k v).1 :=
  invisible_of_resp (resp_getSet now k v) s hs
theorem expired_invisible_append (s : MState) (now : Int) (k v : Bytes) (hs : AList.Sorted s.index) :
    (Api.append s now k v).2 = (Api.append (purge now s) now k v).2 ∧
    Sim now (Api.append s now k v).1 (Api.append (purge now s) now k v).1 :=
  invisible_of_resp (resp_append now k v) s hs
theorem expired_invisible_addInt (s : MState) (now : Int) (k : Bytes) (d : Int) (neg : Bool)
    (hs : AList.Sorted s.index) :
    (Api.addInt s now k d neg).2 = (Api.addInt (purge now s) now k d neg).2 ∧
    Sim now (Api.addInt s now k d neg).1 (Api.addInt (purge now s) now k d neg).1 :=
  invisible_of_resp (resp_addInt now k d neg false) s hs
theorem expired_invisible_strLen (s : MState) (now : Int) (k : Bytes) (hs : AList.Sorted s.index) :
    (Api.strLen s now k).2 = (Api.strLen (purge now s) now k).2 ∧
    Sim now (Api.strLen s now k).1 (Api.strLen (purge now s) now k).1 := invisible_of_resp (resp_strLen now k) s hs
theorem expired_invisible_exists (s : MState) (now : Int) (ks : List Bytes) (hs : AList.Sorted s.index) :
    (Api.exists_ s now ks).2 = (Api.exists_ (purge now s) now ks).2 ∧
    Sim now (Api.exists_ s now ks).1 (Api.exists_ (purge now s) now ks).1 :=
  invisible_of_resp (resp_exists now ks) s hs
theorem expired_invisible_type (s : MState) (now : Int) (k : Bytes) (hs : AList.Sorted s.index) :
    (Api.type_ s now k).2 = (Api.type_ (purge now s) now k).2 ∧
    Sim now (Api.type_ s now k).1 (Api.type_ (purge now s) now k).1 := invisible_of_resp (resp_type now k) s hs
theorem expired_invisible_del (s : MState) (now : Int) (ks : List Bytes) (hs : AList.Sorted s.index) :
    (Api.del s now ks).2 = (Api.del (purge now s) now ks).2 ∧
    Sim now (Api.del s now ks).1 (Api.del (purge now s) now ks).1 := invisible_of_resp (resp_del now ks) s hs
theorem expired_invisible_ttl (s : MState) (now : Int) (k : Bytes) (hs : AList.Sorted s.index) :
    (Api.ttl s now k).2 = (Api.ttl (purge now s) now k).2 ∧
    Sim now (Api.ttl s now k).1 (Api.ttl (purge now s) now k).1 := invisible_of_resp (resp_ttl now k) s hs
theorem expired_invisible_pttl (s : MState) (now : Int) (k : Bytes) (hs : AList.Sorted s.index) :
    (Api.pttl s now k).2 = (Api.pttl (purge now s) now k).2 ∧
    Sim now (Api.pttl s now k).1 (Api.pttl (purge now s) now k).1 := invisible_of_resp (resp_pttl now k) s hs
theorem expired_invisible_keys (s : MState) (now : Int) (pat : Bytes) (hs : AList.Sorted s.index) :
    (Api.keys s now pat).2 = (Api.keys (purge now s) now pat).2 ∧
    Sim now (Api.keys s now pat).1 (Api.keys (purge now s) now pat).1 := invisible_of_resp (resp_keys now pat) s hs
/-- RANDOMKEY is relational: the same implementation choices are accepted on both states -/
theorem expired_invisible_randomKey (s : MState) (now : Int) (c : Option Bytes) (hs : AList.Sorted s.index) :
    (Api.randomKey s now c).2 = (Api.randomKey (purge now s) now c).2 ∧
    Sim now (Api.randomKey s now c).1 (Api.randomKey (purge now s) now c).1 :=
  invisible_of_resp (resp_randomKey now c) s hs
theorem expired_invisible_rename (s : MState) (now : Int) (k d : Bytes) (hs : AList.Sorted s.index) :
    (Api.rename s now k d).2 = (Api.rename (purge now s) now k d).2 ∧
    Sim now (Api.rename s now k d).1 (Api.rename (purge now s) now k d).1 :=
  invisible_of_resp (resp_rename now k d) s hs
theorem expired_invisible_renameNX (s : MState) (now : Int) (k d : Bytes) (hs : AList.Sorted s.index) :
    (Api.renameNX s now k d).2 = (Api.renameNX (purge now s) now k d).2 ∧
    Sim now (Api.renameNX s now k d).1 (Api.renameNX (purge now s) now k d).1 :=
  invisible_of_resp (resp_renameNX now k d) s hs
theorem expired_invisible_expire (s : MState) (now : Int) (k : Bytes) (sec : Int) (hs : AList.Sorted s.index) :
    (Api.expire s now k sec).2 = (Api.expire (purge now s) now k sec).2 ∧
    Sim now (Api.expire s now k sec).1 (Api.expire (purge now s) now k sec).1 :=
  invisible_of_resp (resp_expire now k sec) s hs
theorem expired_invisible_persist (s : MState) (now : Int) (k : Bytes) (hs : AList.Sorted s.index) :
    (Api.persist s now k).2 = (Api.persist (purge now s) now k).2 ∧
    Sim now (Api.persist s now k).1 (Api.persist (purge now s) now k).1 := invisible_of_resp (resp_persist now k) s hs
theorem expired_invisible_push (left : Bool) (s : MState) (now : Int) (k : Bytes) (vs : List Bytes)
    (hs : AList.Sorted s.index) :
    (Api.push left s now k vs).2 = (Api.push left (purge now s) now k vs).2 ∧
    Sim now (Api.push left s now k vs).1 (Api.push left (purge now s) now k vs).1 :=
  invisible_of_resp (resp_push now k left vs) s hs
theorem expired_invisible_pop (left : Bool) (s : MState) (now : Int) (k : Bytes) (c : Int)
    (hs : AList.Sorted s.index) :
    (Api.pop left s now k c).2 = (Api.pop left (purge now s) now k c).2 ∧
    Sim now (Api.pop left s now k c).1 (Api.pop left (purge now s) now k c).1 :=
  invisible_of_resp (resp_pop now k left c) s hs
theorem expired_invisible_llen (s : MState) (now : Int) (k : Bytes) (hs : AList.Sorted s.index) :
    (Api.llen s now k).2 = (Api.llen (purge now s) now k).2 ∧
    Sim now (Api.llen s now k).1 (Api.llen (purge now s) now k).1 := invisible_of_resp (resp_llen now k) s hs
theorem expired_invisible_lrange (s : MState) (now : Int) (k : Bytes) (a b : Int) (hs : AList.Sorted s.index) :
    (Api.lrange s now k a b).2 = (Api.lrange (purge now s) now k a b).2 ∧
    Sim now (Api.lrange s now k a b).1 (Api.lrange (purge now s) now k a b).1 :=
  invisible_of_resp (resp_lrange now k a b) s hs
theorem expired_invisible_hset (s : MState) (now : Int) (k f v : Bytes) (hs : AList.Sorted s.index) :
    (Api.hset s now k f v).2 = (Api.hset (purge now s) now k f v).2 ∧
    Sim now (Api.hset s now k f v).1 (Api.hset (purge now s) now k f v).1 :=
  invisible_of_resp (resp_hset now k f v) s hs
theorem expired_invisible_hget (s : MState) (now : Int) (k f : Bytes) (hs : AList.Sorted s.index) :
    (Api.hget s now k f).2 = (Api.hget (purge now s) now k f).2 ∧
    Sim now (Api.hget s now k f).1 (Api.hget (purge now s) now k f).1 := invisible_of_resp (resp_hget now k f) s hs
theorem expired_invisible_hgetall (s : MState) (now : Int) (k : Bytes) (hs : AList.Sorted s.index) :
    (Api.hgetall s now k).2 = (Api.hgetall (purge now s) now k).2 ∧
    Sim now (Api.hgetall s now k).1 (Api.hgetall (purge now s) now k).1 :=
  invisible_of_resp (resp_hread now k _ _) s hs
theorem expired_invisible_sadd (s : MState) (now : Int) (k : Bytes) (ms : List Bytes) (hs : AList.Sorted s.index) :
    (Api.sadd s now k ms).2 = (Api.sadd (purge now s) now k ms).2 ∧
    Sim now (Api.sadd s now k ms).1 (Api.sadd (purge now s) now k ms).1 := invisible_of_resp (resp_sadd now k ms) s hs
theorem expired_invisible_smembers (s : MState) (now : Int) (k : Bytes) (hs : AList.Sorted s.index) :
    (Api.smembers s now k).2 = (Api.smembers (purge now s) now k).2 ∧
    Sim now (Api.smembers s now k).1 (Api.smembers (purge now s) now k).1 :=
  invisible_of_resp (resp_sread now k _ _) s hs
theorem expired_invisible_sinter (s : MState) (now : Int) (ks : List Bytes) (hs : AList.Sorted s.index) :
    (Api.sinter s now ks).2 = (Api.sinter (purge now s) now ks).2 ∧
    Sim now (Api.sinter s now ks).1 (Api.sinter (purge now s) now ks).1 := invisible_of_resp (resp_sinter now ks) s hs
theorem expired_invisible_sunion (s : MState) (now : Int) (ks : List Bytes) (hs : AList.Sorted s.index) :
    (Api.sunion s now ks).2 = (Api.sunion (purge now s) now ks).2 ∧
    Sim now (Api.sunion s now ks).1 (Api.sunion (purge now s) now ks).1 := invisible_of_resp (resp_sunion now ks) s hs
theorem expired_invisible_sdiff (s : MState) (now : Int) (ks : List Bytes) (hs : AList.Sorted s.index) :
    (Api.sdiff s now ks).2 = (Api.sdiff (purge now s) now ks).2 ∧
    Sim now (Api.sdiff s now ks).1 (Api.sdiff (purge now s) now ks).1 := invisible_of_resp (resp_sdiff now ks) s hs
theorem expired_invisible_zadd (s : MState) (now : Int) (k m : Bytes) (sc : F64) (hs : AList.Sorted s.index) :
    (Api.zadd s now k m sc).2 = (Api.zadd (purge now s) now k m sc).2 ∧
    Sim now (Api.zadd s now k m sc).1 (Api.zadd (purge now s) now k m sc).1 :=
  invisible_of_resp (resp_zaddWith now k DsZSet.zAdd m sc) s hs
theorem expired_invisible_zrange (desc ws : Bool) (s : MState) (now : Int) (k : Bytes) (a b : Int)
    (hs : AList.Sorted s.index) :
    (Api.zrange desc ws s now k a b).2 = (Api.zrange desc ws (purge now s) now k a b).2 ∧
    Sim now (Api.zrange desc ws s now k a b).1 (Api.zrange desc ws (purge now s) now k a b).1 :=
  invisible_of_resp (resp_zread now k _ _) s hs
theorem expired_invisible_zscore (s : MState) (now : Int) (k m : Bytes) (hs : AList.Sorted s.index) :
    (Api.zscore s now k m).2 = (Api.zscore (purge now s) now k m).2 ∧
    Sim now (Api.zscore s now k m).1 (Api.zscore (purge now s) now k m).1 :=
  invisible_of_resp (resp_zread now k _ _) s hs

/-- ZUNIONSTORE (`union = true`) / ZINTERSTORE: after the repair of `ZUnionStore`/`ZInterStore` (result
    computed before the destination is looked up) an expired destination that is still indexed — also
    one that is among the operands — is invisible to them too -/
theorem expired_invisible_zstore (union : Bool) (s : MState) (now : Int) (dst : Bytes) (ks : List Bytes)
    (w : List F64) (agg : Bytes) (hs : AList.Sorted s.index) :
    (Api.zstore union s now dst ks w agg).2 = (Api.zstore union (purge now s) now dst ks w agg).2 ∧
    Sim now (Api.zstore union s now dst ks w agg).1 (Api.zstore union (purge now s) now dst ks w agg).1 :=
  invisible_of_resp (resp_zstore now union dst ks w agg) s hs
/-- ZADD LT / GT (they no longer create the key) -/
theorem expired_invisible_zaddLT (s : MState) (now : Int) (k m : Bytes) (sc : F64) (hs : AList.Sorted s.index) :
    (Api.zaddLT s now k m sc).2 = (Api.zaddLT (purge now s) now k m sc).2 ∧
    Sim now (Api.zaddLT s now k m sc).1 (Api.zaddLT (purge now s) now k m sc).1 :=
  invisible_of_resp (resp_zaddCmp now k DsZSet.zAddLT m sc) s hs
theorem expired_invisible_zaddGT (s : MState) (now : Int) (k m : Bytes) (sc : F64) (hs : AList.Sorted s.index) :
    (Api.zaddGT s now k m sc).2 = (Api.zaddGT (purge now s) now k m sc).2 ∧
    Sim now (Api.zaddGT s now k m sc).1 (Api.zaddGT (purge now s) now k m sc).1 :=
  invisible_of_resp (resp_zaddCmp now k DsZSet.zAddGT m sc) s hs
/-- the ZADD command's transaction (`zAddPairs`, work package Z: all pairs, every option set): an expired record that
    is still indexed is invisible to it - same reply, simulating stores - as for ZAdd -/
theorem expired_invisible_zaddPairs (s : MState) (now : Int) (k : Bytes) (nx xx gt lt ch : Bool)
    (pairs : List (Bytes × F64)) (hne : pairs ≠ []) (hs : AList.Sorted s.index) :
    (Api.zaddPairs s now k nx xx gt lt ch pairs).2 = (Api.zaddPairs (purge now s) now k nx xx gt lt ch pairs).2 ∧
    Sim now (Api.zaddPairs s now k nx xx gt lt ch pairs).1 (Api.zaddPairs (purge now s) now k nx xx gt lt ch pairs).1 :=
  invisible_of_resp (resp_zaddPairs now k nx xx gt lt ch pairs hne) s hs
/-- ZADD XX ... on a key with no visible record (absent or expired): reply 0 -/
theorem zaddPairs_xx_absent (s : MState) (now : Int) (k : Bytes) (nx gt lt ch : Bool) (pairs : List (Bytes × F64))
    (hne : pairs ≠ []) (h : live s now k = none) (hs : AList.Sorted s.index) :
    (Api.zaddPairs s now k nx true gt lt ch pairs).2 = .int 0 := by
  rw [zaddPairs_eq s now k nx true gt lt ch pairs hne]; exact writeCmd_absent h hs _ _
/-- hypotheses satisfiable: the empty store, two pairs -/
example : AList.Sorted ({} : MState).index ∧ live ({} : MState) 0 [107] = none ∧
    ([(([97] : Bytes), (0x4014000000000000 : F64)), ([98], 0x3FF0000000000000)] : List (Bytes × F64)) ≠ [] := by
  refine ⟨?_, rfl, by simp⟩
  simp [AList.Sorted]
/-- ZADD LT/GT on a key with no visible record (absent or expired): reply 0 -/
theorem zaddCmp_absent (f : ZSet → Bytes → F64 → ZSet × Bool) (s : MState) (now : Int) (k m : Bytes) (sc : F64)
    (h : live s now k = none) (hs : AList.Sorted s.index) : (Api.zaddCmp f s now k m sc).2 = .int 0 := by
  rw [zaddCmp_eq]; exact writeCmd_absent h hs _ _

/-! ### what the replies are on a key with no visible record (absent or expired) -/

theorem get_absent (s : MState) (now : Int) (k : Bytes) (h : live s now k = none) (hs : AList.Sorted s.index) :
    (Api.get s now k).2 = .bytes none := by rw [get_eq]; exact readCmd_absent h hs _ _
theorem type_absent (s : MState) (now : Int) (k : Bytes) (h : live s now k = none) (hs : AList.Sorted s.index) :
    (Api.type_ s now k).2 = .str (Bytes.ofString "none") := by rw [type_eq]; exact readCmd_absent h hs _ _
theorem exists_absent (s : MState) (now : Int) (k : Bytes) (h : live s now k = none) (hs : AList.Sorted s.index) :
    (Api.exists_ s now [k]).2 = .int 0 := by
  have a := readKey_absent h hs
  unfold Api.exists_
  simp only [List.foldl_cons, List.foldl_nil]
  cases hw : readKey s now k with
  | mk s1 ok => rw [hw] at a; simp only at a; subst a; rfl
theorem del_absent (s : MState) (now : Int) (k : Bytes) (h : live s now k = none) (hs : AList.Sorted s.index) :
    (Api.del s now [k]).2 = .int 0 := Proofs.C10.del_absent h hs

/-- … and on a live key the value is the full value: GET of a live string key -/
theorem get_live (s : MState) (now : Int) (k : Bytes) (m : Meta) (v : DsStr.S)
    (h : LiveWith s now k m (Api.strVal v)) (hs : AList.Sorted s.index) : (Api.get s now k).2 = .bytes v := by
  rw [get_eq, readCmd_liveWith h hs]
  cases v <;> rfl

/-! ### SCAN

  FULL STATEMENT (false, see `expired_invisible_scan_finding`):
     (Api.scan s now cursor pat count typ).2 = (Api.scan (purge now s) now cursor pat count typ).2
  SCAN's cursor is a position in the index, and expired records that are still indexed occupy
  positions (and consume `count`). What holds: no name in a reply is expired. -/
theorem scan_never_returns_expired (s : MState) (now cursor : Int) (pat : Bytes) (count : Int) (typ : Nat)
    (n : Int) (ks : List Bytes) (h : (Api.scan s now cursor pat count typ).2 = .many [.int n, .slist ks]) :
    ∀ k ∈ ks, ∃ m, (k, m) ∈ s.index ∧ m.expired now = false ∧ Glob.matched pat k = true :=
  scan_sound s now cursor pat count typ n ks h

/-! ### RENAME carries the deadline; EXPIRE 0 deletes -/

/-- the destination gets the source's deadline, whether or not the destination existed; the source
    name is unlinked -/
theorem rename_carries_deadline (s : MState) (now : Int) (k dst : Bytes) (m : Meta) (v : Val)
    (h : LiveWith s now k m v) (hs : AList.Sorted s.index) (hne : k ≠ dst) :
    (Api.rename s now k dst).2 = .err false ∧
    Api.expOf (Api.rename s now k dst).1 dst = m.exp ∧
    getMeta (Api.rename s now k dst).1 k = none :=
  rename_deadline h hs hne

theorem expire_zero_deletes (s : MState) (now : Int) (k : Bytes) (m : Meta) (v : Val)
    (h : LiveWith s now k m v) (hs : AList.Sorted s.index) :
    (Api.expire s now k 0).2 = .int 1 ∧ getMeta (Api.expire s now k 0).1 k = none := by
  rw [expire_zero_is_del]; exact del_live h hs

/-! ## 5. gc

  A gc pass never changes which keys are visible nor their deadlines: the live record of every
  name is the same before and after up to hot/cold-ness (the value may be evicted) and bookkeeping
  (`count`, `state`'s modified bit, `stored`). Records that are expired or not ok are the only ones
  unlinked. -/
theorem gc_drops_only_dead (s : MState) (now : Int) (k : Bytes) (hs : AList.Sorted s.index) :
    (live (gc s now) now k).map (fun m => (m.exp, m.kid, m.oid, m.vtype)) =
      (live s now k).map (fun m => (m.exp, m.kid, m.oid, m.vtype)) ∧
    (∀ m', live (gc s now) now k = some m' →
      ∃ m, live s now k = some m ∧ (m'.value = m.value ∨ m'.value = none)) := by
  by_cases hc : s.closed = true
  · have : gc s now = s := by rw [gc_eq, if_pos hc]
    rw [this]
    exact ⟨rfl, fun m' h => ⟨m', h, Or.inl rfl⟩⟩
  · have hc' : s.closed = false := by simpa using hc
    have key := gc_getMeta s now k hs hc'
    cases hg : getMeta s k with
    | none =>
      rw [hg] at key
      simp only at key
      have l1 : live (gc s now) now k = none := by unfold live; rw [key]; rfl
      have l2 : live s now k = none := by unfold live; rw [hg]; rfl
      rw [l1, l2]
      exact ⟨rfl, fun m' h => by cases h⟩
    | some m =>
      rw [hg] at key
      simp only at key
      by_cases hd : (m.expired now || !m.isOk) = true
      · rw [if_pos hd] at key
        have l1 : live (gc s now) now k = none := by unfold live; rw [key]; rfl
        have l2 : live s now k = none := by
          unfold live; rw [hg]
          simp only [Option.filter]
          split
          · rename_i hc2
            simp only [Bool.or_eq_true, Bool.not_eq_true', Bool.and_eq_true] at hd hc2
            rcases hd with hd | hd
            · rw [hd] at hc2; exact absurd hc2.2 (by simp)
            · rw [hd] at hc2; exact absurd hc2.1 (by simp)
          · rfl
        rw [l1, l2]
        exact ⟨rfl, fun m' h => by cases h⟩
      · rw [if_neg hd] at key
        obtain ⟨m', hm', ke, kk, ko, kv, kok, kval⟩ := key
        have hd' : m.expired now = false ∧ m.isOk = true := by
          simp only [Bool.or_eq_true, Bool.not_eq_true', not_or, Bool.not_eq_true, Bool.not_eq_false] at hd
          exact hd
        have hexp : m'.expired now = false := by
          have := hd'.1; simp only [Meta.expired] at this ⊢; rw [ke]; exact this
        have l1 : live (gc s now) now k = some m' := live_iff.mpr ⟨hm', kok, hexp⟩
        have l2 : live s now k = some m := live_iff.mpr ⟨hg, hd'.2, hd'.1⟩
        rw [l1, l2]
        refine ⟨by simp [ke, kk, ko, kv], fun m'' h => ?_⟩
        cases h
        exact ⟨m, rfl, kval⟩

/-! ## Findings (the model, like the Go code, deviates from the reference semantics) -/

open Proofs.C10.Ex in
/-- FINDING 1. EXPIRE … GT on a key *without* deadline sets one (Redis: never, "no deadline" is
    infinite). Witness: key "c" (no deadline) at now = 1000, EXPIRE c 10 GT → reply 1. -/
theorem expireGT_finding :
    LiveWith st 1000 kC mC (.str [3]) ∧ AList.Sorted st.index ∧ mC.exp = 0 ∧
    (Api.expireGT st 1000 kC 10).2 = .int 1 ∧ Api.expOf (Api.expireGT st 1000 kC 10).1 kC = 11000 ∧
    Spec.expireApplies .gt (Spec.deadlineOf mC.exp) (Spec.deadlineSec 1000 10) = false := by
  have hl : LiveWith st 1000 kC mC (.str [3]) := ⟨rfl, Or.inl rfl⟩
  have hs : AList.Sorted st.index := ⟨rfl, rfl, trivial⟩
  obtain ⟨a, b⟩ := expireGT_iff st 1000 kC mC _ 10 hl hs
  exact ⟨hl, hs, rfl, a, b, rfl⟩

open Proofs.C10.Ex in
/-- FINDING 2. EXPIRE … LT on a key without deadline never sets one (Redis: always). -/
theorem expireLT_finding :
    LiveWith st 1000 kC mC (.str [3]) ∧ AList.Sorted st.index ∧ mC.exp = 0 ∧
    (Api.expireLT st 1000 kC 10).2 = .int 0 ∧ Api.expOf (Api.expireLT st 1000 kC 10).1 kC = 0 ∧
    Spec.expireApplies .lt (Spec.deadlineOf mC.exp) (Spec.deadlineSec 1000 10) = true := by
  have hl : LiveWith st 1000 kC mC (.str [3]) := ⟨rfl, Or.inl rfl⟩
  have hs : AList.Sorted st.index := ⟨rfl, rfl, trivial⟩
  obtain ⟨a, b⟩ := expireLT_iff st 1000 kC mC _ 10 hl hs
  exact ⟨hl, hs, rfl, a, b, rfl⟩

open Proofs.C10.Ex in
theorem expireAtGT_finding :
    (Api.expireAtGT st 1000 kC 5000).2 = .int 1 ∧
    Spec.expireApplies .gt (Spec.deadlineOf mC.exp) 5000 = false := by
  have hl : LiveWith st 1000 kC mC (.str [3]) := ⟨rfl, Or.inl rfl⟩
  have hs : AList.Sorted st.index := ⟨rfl, rfl, trivial⟩
  exact ⟨(expireAtGT_iff st 1000 kC mC _ 5000 hl hs).1, rfl⟩

open Proofs.C10.Ex in
theorem expireAtLT_finding :
    (Api.expireAtLT st 1000 kC 5000).2 = .int 0 ∧
    Spec.expireApplies .lt (Spec.deadlineOf mC.exp) 5000 = true := by
  have hl : LiveWith st 1000 kC mC (.str [3]) := ⟨rfl, Or.inl rfl⟩
  have hs : AList.Sorted st.index := ⟨rfl, rfl, trivial⟩
  exact ⟨(expireAtLT_iff st 1000 kC mC _ 5000 hl hs).1, rfl⟩

open Proofs.C10.Ex in
/-- FINDING 3. SCAN sees expired records through its cursor: with "a" expired-but-indexed and "b"
    live, `SCAN 0 MATCH * COUNT 1` answers (2, []) — "a" consumed the COUNT, "b" at position 2 is next —
    but (0, [b]) (done) once "a" is purged. -/
theorem expired_invisible_scan_finding :
    AList.Sorted scanSt.index ∧
    (Api.scan scanSt 1000 0 [42] 1 0).2 = .many [.int 2, .slist []] ∧
    (Api.scan (purge 1000 scanSt) 1000 0 [42] 1 0).2 = .many [.int 0, .slist [kB]] ∧
    (Api.scan scanSt 1000 0 [42] 1 0).2 ≠ (Api.scan (purge 1000 scanSt) 1000 0 [42] 1 0).2 := by
  have a : (Api.scan scanSt 1000 0 [42] 1 0).2 = .many [.int 2, .slist []] := rfl
  have b : (Api.scan (purge 1000 scanSt) 1000 0 [42] 1 0).2 = .many [.int 0, .slist [kB]] := rfl
  refine ⟨⟨rfl, trivial⟩, a, b, ?_⟩
  rw [a, b]
  intro h
  simp only [Out.many.injEq, List.cons.injEq, Out.int.injEq] at h
  exact absurd h.1 (by decide)

/-! ## Non-vacuity: concrete values satisfying each hypothesis set -/
section examples
open Proofs.C10.Ex

/-- the index is sorted -/
example : AList.Sorted st.index := ⟨rfl, rfl, trivial⟩
/-- a live key with a deadline (2000 > now = 1000), value in memory -/
example : LiveWith st 1000 kA mA (.str [1]) ∧ mA.exp = 2000 := ⟨⟨rfl, Or.inl rfl⟩, rfl⟩
example : LiveWith st 1000 kA mA (Api.strVal (some [1])) := ⟨rfl, Or.inl rfl⟩
/-- an expired-but-still-indexed key (hypotheses of `readKey_expired_is_absent`, `writeKey_expired_is_fresh`) -/
example : getMeta st kB = some mB ∧ mB.expired 1000 = true := ⟨rfl, rfl⟩
/-- … which has no visible record -/
example : live st 1000 kB = none := rfl
/-- a key that is not indexed at all -/
example : live st 1000 kD = none := rfl
/-- a live key without deadline -/
example : LiveWith st 1000 kC mC (.str [3]) ∧ mC.exp = 0 := ⟨⟨rfl, Or.inl rfl⟩, rfl⟩
/-- hypotheses of `readKey_live` / `writeKey_live` -/
example : getMeta st kA = some mA ∧ mA.isOk = true ∧ (1000 < mA.exp ∨ mA.exp = 0) ∧ mA.value = some (.str [1]) :=
  ⟨rfl, rfl, Or.inl (by decide), rfl⟩
/-- a cold live key whose value is loaded from the backend -/
example : LiveWith coldSt 1000 kA mCold (.str [7]) ∧ AList.Sorted coldSt.index := by
  refine ⟨⟨rfl, Or.inr ⟨rfl, 0, ?_⟩⟩, trivial⟩
  simp [loadValue, diskGet, coldSt, mCold, AList.get?]
/-- two instants at which the same record is live (`pttl_monotone`, `ttl_monotone`) -/
example : (1000 : Int) ≤ 1500 ∧ LiveWith st 1000 kA mA (.str [1]) ∧ LiveWith st 1500 kA mA (.str [1]) :=
  ⟨by decide, ⟨rfl, Or.inl rfl⟩, ⟨rfl, Or.inl rfl⟩⟩
/-- `deadlineSec_exact`, `deadlineMs_exact` -/
example : inInt64 (10 * 1000) = true ∧ inInt64 (1000 + 10 * 1000) = true ∧ Spec.deadlineSec 1000 10 = 11000 :=
  ⟨rfl, rfl, rfl⟩
/-- `expireGT_partial` / `expireLT_partial`: a live key that has a deadline -/
example : LiveWith st 1000 kA mA (.str [1]) ∧ mA.exp ≠ 0 := ⟨⟨rfl, Or.inl rfl⟩, by decide⟩
/-- `rename_carries_deadline`: distinct names -/
example : kA ≠ kD := by decide
/-- `pttl_positive`, `ttlNs_exact` -/
example : (2000 : Int) ≠ 0 ∧ (1000 : Int) < 2000 ∧ ((2000 : Int) - 1000) * 1000000 ≤ int64Max - 500000000 :=
  ⟨by decide, by decide, by decide⟩
/-- `scan_never_returns_expired`: a reply of that shape -/
example : (Api.scan scanSt 1000 0 [42] 10 0).2 = .many [.int 0, .slist [kB]] := rfl
/-- `sim_congruence`: two different related states -/
example : Sim 1000 st (purge 1000 st) ∧ (purge 1000 st).index = [(kA, mA), (kC, mC)] :=
  ⟨sim_purge st 1000 ⟨rfl, rfl, trivial⟩, rfl⟩
/-- `live_iff_before_deadline` (record with a deadline), `dead_from_deadline_on`, `live_without_deadline` -/
example : getMeta st kA = some mA ∧ mA.isOk = true ∧ mA.exp ≠ 0 := ⟨rfl, rfl, by decide⟩
example : getMeta st kB = some mB ∧ mB.exp ≠ 0 ∧ mB.exp ≤ 1000 := ⟨rfl, by decide, by decide⟩
example : getMeta st kC = some mC ∧ mC.isOk = true ∧ mC.exp = 0 := ⟨rfl, rfl, rfl⟩
/-- `set_ex_deadline`: both alternatives of its hypothesis -/
example : (∃ m old, LiveWith st 1000 kA m (Api.strVal old)) ∨ live st 1000 kA = none :=
  Or.inl ⟨mA, some [1], rfl, Or.inl rfl⟩
example : (∃ m old, LiveWith st 1000 kB m (Api.strVal old)) ∨ live st 1000 kB = none := Or.inr rfl
/-- `expired_invisible_zstore` on the former witnesses (destination expired, still indexed, and an operand):
    since the repair neither form hangs or self-deadlocks, and both answer as on the purged state -/
example : AList.Sorted zSt.index ∧
    (Api.zstore true zSt 1000 kA [kA] [] []).2 = .int 0 ∧
    (Api.zstore true (purge 1000 zSt) 1000 kA [kA] [] []).2 = .int 0 ∧
    (Api.zstore false zSt 1000 kA [kA] [] []).1.hung = false ∧
    (Api.zstore false zSt 1000 kA [kA] [] []).2 = (Api.zstore false (purge 1000 zSt) 1000 kA [kA] [] []).2 :=
  ⟨trivial, rfl, rfl, rfl, rfl⟩
/-- the concrete replies: the live key is seen with its full value, the expired one by no command -/
example : (Api.get st 1000 kA).2 = .bytes (some [1]) ∧ (Api.get st 1000 kB).2 = .bytes none ∧
    (Api.exists_ st 1000 [kA, kB, kC]).2 = .int 2 ∧ (Api.keys st 1000 [42]).2 = .slist [kA, kC] ∧
    (Api.pttl st 1000 kA).2 = .int 1000 ∧ (Api.pttl st 1000 kB).2 = .int (-2) ∧
    (Api.pttl st 1000 kC).2 = .int (-1) ∧ (Api.ttl st 1000 kA).2 = .int 1000000000 :=
  ⟨rfl, rfl, rfl, rfl, rfl, rfl, rfl, rfl⟩

end examples

/- UNPROVED / NOT COVERED (none of it is assumed anywhere; there is no `sorry`):

   * SCAN is not in `Cmd`: the full "expired-invisible" statement is FALSE for it
     (`expired_invisible_scan_finding`); what is proved is `scan_never_returns_expired`.
   * `Sim` does not compare `held` / `hung` (locks of the running call): an expired record that is still
     indexed *is* locked by lookups, an absent one is not. No covered command's reply depends on it
     (since the repair of ZUNIONSTORE / ZINTERSTORE, which are now in `Cmd`), but the lock state of the
     two runs differs; that no call deadlocks on an expired record is not stated here.
   * `Sim` compares the backend only through `load` of unexpired cold records; `stored` and stale backend
     entries are not compared (see Spec/Expire.lean). Consequently nothing is claimed here about what a
     later flush / reopen sees (that is the persistence properties' business).
   * Handler level: only the API calls are covered. `SET … EX/PX/EXAT/PXAT` (= Set; commit; Expire*) is
     chained in `set_ex_deadline` / `set_exat_deadline`; blocking pops (BLPOP/BRPOP = repeated `Api.pop`)
     and the RESP option parsing are not modelled in `Model/Api.lean` and are not covered.
   * All statements are about one instant `now` (one command, or a sequence of commands issued at the
     same instant via `sim_congruence`). Monotonicity in time is only stated for TTL/PTTL
     (`pttl_monotone`, `ttl_monotone`) and through `live_iff_before_deadline`.
   * The GT/LT conditional forms deviate from Redis on keys without deadline
     (`expireGT_finding`, `expireLT_finding`, `expireAtGT_finding`, `expireAtLT_finding`); the theorems
     `expire*_iff` state what the model does, the `_partial` ones where it agrees with Redis. -/

end NodisVerif.C10
