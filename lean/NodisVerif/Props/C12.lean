import NodisVerif.Proofs.C12Examples
import NodisVerif.Proofs.C12More
import NodisVerif.Props.C11
import NodisVerif.Proofs.C20ZAddPairs
/-
  C12 — Eviction of cold values to storage is invisible; a failed flush loses nothing.

  Reference notion: `Spec.Persist.logical` (what a client can see of the store).  Model: `Store.gc`
  (one eviction pass), `Store.flush`, the lazy reload in `writeKey` / `readKey`, the commands of
  Model/Api.lean, both backends, fault injection `failSet` (= number of upcoming backend writes
  that are rejected).  `StoreInv`, the horizon `t` and the nil string (`NilFree`; `LNil s t` =
  on Pebble nothing the store shows from `t` on is a nil string; no API command creates one) are
  explained in Props/C11.lean.
-/
namespace NodisVerif.C12
open NodisVerif.Store NodisVerif.Spec.Persist NodisVerif.Proofs.C11

/-! ### one pass -/

/-- an eviction pass is invisible: whatever it persists, resets, evicts or unlinks (expired keys),
    and however many backend writes fail, the logical keyspace is the same afterwards — at the
    time of the pass and at every later time.  No hypothesis on `failSet`. -/
theorem gc_invisible {s : MState} {t now now' : Int} (h : StoreInv s t) (ht : t ≤ now)
    (ht' : now ≤ now') (hnil : NilFree s) : logical (gc s now) now' = logical s now' := by
  have g := gc_spec h ht hnil
  exact logical_ext h.idxSorted g.inv.idxSorted (fun k => g.look now' ht' k)

/-- at full strength on the in-memory backend -/
theorem gc_invisible_memory {s : MState} {t now now' : Int} (h : StoreInv s t) (hp : s.pebble = false)
    (ht : t ≤ now) (ht' : now ≤ now') : logical (gc s now) now' = logical s now' :=
  gc_invisible h ht ht' (fun _ _ _ c => by rw [hp] at c; cases c)

/-- `NilFree` is needed: on a Pebble store holding a nil string (not reachable through the API; it
    satisfies the invariant) GET answers null while the value is hot and the empty string once a
    pass has evicted it -/
theorem nil_string_breaks_eviction :
    StoreInv nilState 0 ∧
    logical nilState 0 = [([107], .strNil, 0)] ∧ logical (gc nilState 0) 0 = [([107], .str [], 0)] ∧
    (Api.get nilState 0 [107]).2 = .bytes none :=
  ⟨nilState_inv 0, nilState_logical, nilState_gc, nilState_get_hot⟩

/-- the pass preserves the storage invariant (any `failSet`) -/
theorem gc_preserves_inv {s : MState} {t now : Int} (h : StoreInv s t) (ht : t ≤ now) (hnil : NilFree s) :
    StoreInv (gc s now) t := (gc_spec h ht hnil).inv

/-- `flush` is invisible and preserves the invariant — on both backends, no nil-string
    restriction (flush never drops a value from memory), any `failSet` -/
theorem flush_invisible {s : MState} {t now now' : Int} (h : StoreInv s t) (ht : t ≤ now) (ht' : now ≤ now') :
    logical (flush s now) now' = logical s now' ∧ StoreInv (flush s now) now := by
  have g := (flush_spec h ht).1
  exact ⟨logical_ext h.idxSorted g.inv.idxSorted (fun k => g.look now' ht' k), g.inv⟩

/-! ### a rejected write loses nothing -/

/-- `metadata.persist` whose backend write is rejected changes nothing but the fault counter: the
    backend is what it was — in particular the entry written earlier (under whatever deadline) is
    still there — and the record is what it was (`stored` still points at that entry).  No
    hypothesis on the state or the record.  (Before the repair of `persist` the entry filed under an
    earlier deadline was deleted *before* the write was attempted, so a rejected write left the key
    with no backend entry at all.) -/
theorem failed_persist_keeps_old_entry (s : MState) (name : Bytes) (m : Meta)
    (hfail : (persist s name m).2.2 = false) :
    (persist s name m).1.disk = s.disk ∧ (persist s name m).2.1 = m ∧
    (persist s name m).1 = { s with failSet := s.failSet - 1 } := by
  rw [persist_false s name m hfail]
  exact ⟨rfl, rfl, rfl⟩

/-- hence whatever the record remembers as stored can still be read back after the rejected write -/
theorem failed_persist_entry_readable (s : MState) (name : Bytes) (m : Meta)
    (hfail : (persist s name m).2.2 = false) (e : Int) :
    (persist s name m).2.1.stored = m.stored ∧
    diskGet (persist s name m).1 name e = diskGet s name e := by
  rw [persist_false s name m hfail]
  exact ⟨rfl, rfl⟩

/-- the write of a live modified record is rejected: the record stays in memory with its value
    and stays marked modified (so no later pass may drop it without writing it first); in fact the
    record is exactly what it was (`m1 = m`: same `stored`) and the backend is untouched, so the
    entry written earlier survives -/
theorem failed_write_keeps_dirty {s : MState} {t now : Int} (h : StoreInv s t) {k : Bytes} {m : Meta}
    (hm : AList.get? s.index k = some m) (hal : m.expired now = false) (hmod : m.isModified = true)
    (hf : 0 < s.failSet) :
    ∃ m1, AList.get? (gcStep now s (k, m)).index k = some m1 ∧ m1.isModified = true ∧
      m1.value = m.value ∧ m1.exp = m.exp ∧ (gcStep now s (k, m)).failSet = s.failSet - 1 ∧
      m1 = m ∧ (gcStep now s (k, m)).disk = s.disk :=
  gcStep_failed h hm hal hmod hf

/-- the same for the step of `flush` (and `close`): a rejected write leaves record and backend as
    they were -/
theorem failed_flush_write_keeps {s : MState} {t now : Int} (h : StoreInv s t) {k : Bytes} {m : Meta}
    (hm : AList.get? s.index k = some m) (hal : m.expired now = false) (hmod : m.isModified = true)
    (hf : 0 < s.failSet) :
    AList.get? (flushStep now s (k, m)).index k = some m ∧ (flushStep now s (k, m)).disk = s.disk ∧
    (flushStep now s (k, m)).failSet = s.failSet - 1 := by
  rw [flushStep_failed_eq (h.recs k m hm).ok hal hmod hf]
  exact ⟨by simp [putMeta, Proofs.AListLemmas2.get?_set], rfl, rfl⟩

/-- a whole pass during which the backend rejects every write: every live modified record is
    still hot, still modified, same value, same deadline — it is exactly the record it was
    (`m1 = m`, so `stored` is unchanged) — and every backend entry of its name is still in place
    (on Pebble the very same entry; in memory the same shared object); the logical keyspace and the
    invariant are untouched (`gc_invisible`, `gc_preserves_inv` hold for every `failSet`) -/
theorem failed_pass_keeps_dirty {s : MState} {t now : Int} (h : StoreInv s t) (ht : t ≤ now) (hnil : NilFree s)
    (hc : s.closed = false) (hf : s.index.length ≤ s.failSet) {k : Bytes} {m : Meta}
    (hm : AList.get? s.index k = some m) (hal : m.expired now = false) (hmod : m.isModified = true) :
    ∃ m1, AList.get? (gc s now).index k = some m1 ∧ m1.isModified = true ∧ m1.value = m.value ∧
      m1.exp = m.exp ∧ m1 = m ∧
      ∀ dk e0, AList.get? s.disk dk = some e0 → e0.name = k →
        ∃ e, AList.get? (gc s now).disk dk = some e ∧ e.name = e0.name ∧ e.exp = e0.exp ∧ e.oid = e0.oid ∧
          (s.pebble = true → e = e0) := by
  obtain ⟨a, b⟩ := gc_all_fail_keeps h ht hnil hc hf hm hal hmod
  exact ⟨m, a, hmod, rfl, rfl, rfl, b⟩

/-- a later pass without rejected writes persists everything: no record is left modified, hence
    (invariant) every live record is cold or has its current value in the backend under its current
    deadline, and `failSet` stays 0 -/
theorem successful_pass_persists {s : MState} {t now : Int} (h : StoreInv s t) (ht : t ≤ now) (hnil : NilFree s)
    (hc : s.closed = false) (hf : s.failSet = 0) :
    (gc s now).failSet = 0 ∧ StoreInv (gc s now) t ∧
    ∀ k m', AList.get? (gc s now).index k = some m' → m'.isModified = false :=
  ⟨(gc_spec h ht hnil).fs0 hf, (gc_spec h ht hnil).inv, gc_clean h ht hnil hc hf⟩

/-! ### commands cannot tell hot from cold -/

/-- the lookup protocol (`writeKey` with or without constructor): outcome, the record handed
    back (hot, with the logical value and deadline of the key) and the effect on the logical
    keyspace are determined by the logical content of the key; a cold value is reloaded on the way
    and the invariant is preserved -/
theorem writeKey_cold_hot {s : MState} {t now : Int} (h : StoreInv s t) (ht : t ≤ now) (k : Bytes)
    (mk : Option Val) (hmk : ∀ v, mk = some v → Good v) : KeySpec s t now k mk (writeKey s now k mk) :=
  writeKey_spec h ht k mk hmk

theorem readKey_cold_hot {s : MState} {t now : Int} (h : StoreInv s t) (ht : t ≤ now) (k : Bytes) :
    KeySpec s t now k none (readKey s now k) := readKey_spec h ht k

/-- B: every covered command (32 single-key commands, see below) preserves the invariant -/
theorem command_preserves_inv (c : Cmd) {s : MState} {t now : Int} (hc : c.WF) (h : StoreInv s t) (ht : t ≤ now) :
    StoreInv (c.run s now).1 t := c.inv hc h ht

/-- every covered command preserves the invariant, and its reply and the logical keyspace it
    leaves are functions of the logical content of its key only (`TxForm.spec`) -/
theorem command_spec (c : Cmd) {s : MState} {t now : Int} (hc : c.WF) (h : StoreInv s t) (ht : t ≤ now) :
    TxSpec s t now (c.form now).key ((c.form now).spec (lookup s now (c.form now).key)) (c.run s now) :=
  c.spec_run hc h ht

/-- B: DEL / UNLINK with any number of names preserves the invariant -/
theorem del_preserves_inv {s : MState} {t now : Int} (h : StoreInv s t) (ht : t ≤ now) (keys : List Bytes) :
    StoreInv (Api.del s now keys).1 t := by
  rw [del_eq]
  exact (del_sim ht keys (s, 0) (s, 0) ⟨h, h, fun _ _ _ => rfl⟩ rfl).2.inv1

/-- B + effect of RENAME on the logical keyspace (any source, any destination, hot or cold, with
    or without deadline, destination existing or not, source = destination): the invariant is
    preserved, the destination shows the source's value and deadline, the source is gone,
    nothing else changes; the reply depends on the logical content of the source only -/
theorem rename_spec {s : MState} {t now : Int} (h : StoreInv s t) (ht : t ≤ now) (key dst : Bytes) :
    RenameSpec s t now key dst (Api.rename s now key dst) := Proofs.C11.rename_spec h ht key dst

theorem rename_preserves_inv {s : MState} {t now : Int} (h : StoreInv s t) (ht : t ≤ now) (key dst : Bytes) :
    StoreInv (Api.rename s now key dst).1 t := (Proofs.C11.rename_spec h ht key dst).inv

/-- cold ≈ hot: two states that satisfy the invariant and show the same logical keyspace (one may
    have evicted what the other keeps in memory) give the same reply to every covered command and
    show the same logical keyspace afterwards -/
theorem command_sim (c : Cmd) {s1 s2 : MState} {t now : Int} (hc : c.WF) (h : Sim t s1 s2) (ht : t ≤ now) :
    (c.run s1 now).2 = (c.run s2 now).2 ∧ Sim t (c.run s1 now).1 (c.run s2 now).1 := c.sim hc h ht

/-
  Full statement: for every command of the server.  Proved for the 32 single-key commands of `Cmd`
  (GET SET SETXX GETSET APPEND STRLEN GETRANGE GETBIT INCR/DECR-family EXPIREAT[NX|XX] EXPIRE
  PEXPIRE PERSIST TTL PTTL TYPE EXISTS LPUSH/RPUSH LPOP/RPOP LLEN LINDEX LRANGE HSET HDEL, every
  hash read (HGET HLEN HKEYS HVALS HGETALL HEXISTS HSTRLEN HMGET HSCAN), SADD SREM, every set read
  (SCARD SMEMBERS SISMEMBER SSCAN), ZADD, every sorted-set read (ZCARD ZSCORE ZRANK ZRANGE ...)),
  the commands given through `Cmd.raw` below, DEL/UNLINK with any number of keys, RENAME and KEYS.
-/
/-- any eviction schedule is invisible: run any sequence of commands with `gc` and `flush` passes
    inserted at arbitrary points (times non-decreasing): the replies are exactly those of the run
    without any pass, and the final logical keyspace is the same, now and at any later time.
    Either backend; the start state shows no nil string (`LNil`, e.g. the empty store). -/
theorem any_eviction_schedule_invisible (steps : List Step) {s : MState} {t now' : Int}
    (h : StoreInv s t) (hl : LNil s t) (hto : TimesOK t steps) (hok : ∀ st ∈ steps, st.OK s.pebble)
    (ht' : endTime t steps ≤ now') :
    (runSteps steps s).2 = (runSteps (stripPasses steps) s).2 ∧
    logical (runSteps steps s).1 now' = logical (runSteps (stripPasses steps) s).1 now' ∧
    StoreInv (runSteps steps s).1 (endTime t steps) := by
  obtain ⟨a, b⟩ := sched_core steps t s s ⟨h, h, fun _ _ _ => rfl⟩ rfl hl hto hok
  exact ⟨a, b.logical ht', b.inv1⟩

/-- from the empty store, on either backend, with no nil-string hypothesis at all -/
theorem any_eviction_schedule_invisible_from_empty (pebble : Bool) (steps : List Step) {now' : Int}
    (hto : TimesOK 0 steps) (hok : ∀ st ∈ steps, st.OK pebble) (ht' : endTime 0 steps ≤ now') :
    (runSteps steps (empty pebble)).2 = (runSteps (stripPasses steps) (empty pebble)).2 ∧
    logical (runSteps steps (empty pebble)).1 now' = logical (runSteps (stripPasses steps) (empty pebble)).1 now' :=
  let r := any_eviction_schedule_invisible steps (Proofs.C11.empty_inv pebble 0) (empty_lnil pebble 0) hto hok ht'
  ⟨r.1, r.2.1⟩

/-- every state such a run reaches satisfies the invariant and shows no nil string, so
    `gc_invisible`, `C11.close_reopen_restores` ... apply to it on Pebble as well -/
theorem reachable_inv_nilfree (steps : List Step) {s : MState} {t : Int}
    (h : StoreInv s t) (hl : LNil s t) (hto : TimesOK t steps) (hok : ∀ st ∈ steps, st.OK s.pebble) :
    StoreInv (runSteps steps s).1 (endTime t steps) ∧ LNil (runSteps steps s).1 (endTime t steps) ∧
    NilFreeAt (runSteps steps s).1 (endTime t steps) := by
  obtain ⟨a, b, _⟩ := run_inv_lnil steps t s h hl hto hok
  exact ⟨a, b, LNil.at a (Int.le_refl _) b⟩

/-- on the in-memory backend a start state may even hold nil strings -/
theorem any_eviction_schedule_invisible_memory (steps : List Step) {s : MState} {t now' : Int}
    (h : StoreInv s t) (hp : s.pebble = false) (hto : TimesOK t steps)
    (hwf : ∀ c now, Step.cmd c now ∈ steps → c.WF) (ht' : endTime t steps ≤ now') :
    (runSteps steps s).2 = (runSteps (stripPasses steps) s).2 ∧
    logical (runSteps steps s).1 now' = logical (runSteps (stripPasses steps) s).1 now' := by
  have := any_eviction_schedule_invisible steps h (fun c => by rw [hp] at c; cases c) hto
    (by
      intro st hst
      cases st with
      | cmd c now => exact ⟨hwf c now hst, fun c' => by rw [hp] at c'; cases c'⟩
      | _ => trivial) ht'
  exact ⟨this.1, this.2.1⟩

/-- `LNil` on the start state is needed: from the (unreachable) Pebble state holding a nil string,
    `[gc] ; GET k` and `GET k` answer differently -/
theorem nil_string_breaks_schedule :
    (runSteps [.gc 0, .cmd (.get [107]) 0] nilState).2 ≠ (runSteps [.cmd (.get [107]) 0] nilState).2 := by
  simp only [runSteps, Step.exec, Cmd.run, List.append_nil, List.nil_append, nilState_get_hot]
  have : (Api.get (gc nilState 0) 0 [107]).2 = .bytes (some []) := by
    simp [gc, nilState, Meta.expired, Meta.isOk, Meta.isModified, persist, diskSet, Codec.encodeKey,
      putVarint_zero, AList.set, putMeta, syncShared, Api.get, readKey, getMeta, AList.get?, lockR,
      loadValue, diskGet, Codec.encodeEntry, Codec.encodeVal, Codec.decodeEntry, Val.typeCode,
      Meta.setValue, Api.asStr, valOf]
  rw [this]
  intro c
  simp at c

/-! ### further commands, through `Cmd.raw`

  `Cmd.raw f` runs the key transaction `f`; each theorem below says that a command of the model *is*
  such a transaction and meets the side conditions of the schedule theorem (`WF`, `NilOK`), so
  `any_eviction_schedule_invisible` applies to it verbatim. -/

theorem setEX_covered (s : MState) (now : Int) (key value : Bytes) (seconds : Int) :
    Api.setEX s now key value seconds =
      (Cmd.raw (setExForm key value (wrap64 (now + wrap64 (seconds * 1000))))).run s now ∧
    (Cmd.raw (setExForm key value (wrap64 (now + wrap64 (seconds * 1000))))).WF ∧
    (Cmd.raw (setExForm key value (wrap64 (now + wrap64 (seconds * 1000))))).NilOK :=
  ⟨setEX_eq s now key value seconds, setExForm_ok _ _ _ (inInt64_wrap64 _), setExForm_nilSafe _ _ _⟩

theorem setPX_covered (s : MState) (now : Int) (key value : Bytes) (ms : Int) :
    Api.setPX s now key value ms = (Cmd.raw (setExForm key value (wrap64 (now + ms)))).run s now ∧
    (Cmd.raw (setExForm key value (wrap64 (now + ms)))).WF ∧
    (Cmd.raw (setExForm key value (wrap64 (now + ms)))).NilOK :=
  ⟨setPX_eq s now key value ms, setExForm_ok _ _ _ (inInt64_wrap64 _), setExForm_nilSafe _ _ _⟩

theorem bitCount_covered (s : MState) (now : Int) (key : Bytes) (start stop : Int) (bit : Bool) :
    Api.bitCount s now key start stop bit = (Cmd.raw (bitCountForm key start stop bit)).run s now ∧
    (Cmd.raw (bitCountForm key start stop bit)).WF ∧ (Cmd.raw (bitCountForm key start stop bit)).NilOK :=
  ⟨bitCount_eq s now key start stop bit,
   readForm_ok _ rfl rfl (bitCountForm_keep key start stop bit),
   readForm_nilSafe _ rfl (bitCountForm_keep key start stop bit)⟩

/-- EXPIREAT LT|GT and EXPIRE NX|XX|LT|GT: all are `expireCondForm` with the deadline and the
    condition on the current deadline spelled out in the equation lemmas `expireAtLT_eq`,
    `expireAtGT_eq`, `expireNX_eq`, `expireXX_eq`, `expireLT_eq`, `expireGT_eq` -/
theorem expireCond_covered (key : Bytes) (ts : Int) (cond : Int → Bool) (hts : inInt64 ts = true) :
    (Cmd.raw (expireCondForm key ts cond)).WF ∧ (Cmd.raw (expireCondForm key ts cond)).NilOK :=
  ⟨expireCondForm_ok key ts cond hts, expireCondForm_nilSafe key ts cond⟩

theorem expireAtLT_covered (s : MState) (now : Int) (key : Bytes) (ts : Int) :
    Api.expireAtLT s now key ts =
      (Cmd.raw (expireCondForm key ts fun e => decide (e ≠ 0) && decide (ts < e))).run s now :=
  expireAtLT_eq s now key ts

theorem expireAtGT_covered (s : MState) (now : Int) (key : Bytes) (ts : Int) :
    Api.expireAtGT s now key ts = (Cmd.raw (expireCondForm key ts fun e => decide (e < ts))).run s now :=
  expireAtGT_eq s now key ts

theorem expireNX_covered (s : MState) (now : Int) (key : Bytes) (seconds : Int) :
    Api.expireNX s now key seconds =
      (Cmd.raw (expireCondForm key (wrap64 (now + wrap64 (seconds * 1000))) fun e => decide (e = 0))).run s now :=
  expireNX_eq s now key seconds

theorem expireXX_covered (s : MState) (now : Int) (key : Bytes) (seconds : Int) :
    Api.expireXX s now key seconds =
      (Cmd.raw (expireCondForm key (wrap64 (now + wrap64 (seconds * 1000))) fun e => decide (e ≠ 0))).run s now :=
  expireXX_eq s now key seconds

theorem expireLT_covered (s : MState) (now : Int) (key : Bytes) (seconds : Int) :
    Api.expireLT s now key seconds =
      (Cmd.raw (expireCondForm key (wrap64 (now + wrap64 (seconds * 1000)))
        fun e => decide (e ≠ 0) && decide (wrap64 (now + wrap64 (seconds * 1000)) < e))).run s now :=
  expireLT_eq s now key seconds

theorem expireGT_covered (s : MState) (now : Int) (key : Bytes) (seconds : Int) :
    Api.expireGT s now key seconds =
      (Cmd.raw (expireCondForm key (wrap64 (now + wrap64 (seconds * 1000)))
        fun e => decide (e < wrap64 (now + wrap64 (seconds * 1000))))).run s now :=
  expireGT_eq s now key seconds

theorem hsetnx_covered (s : MState) (now : Int) (key field value : Bytes)
    (hb : field.length + value.length + 10 < 2 ^ 63) :
    Api.hsetnx s now key field value = (Cmd.raw (hsetnxForm key field value)).run s now ∧
    (Cmd.raw (hsetnxForm key field value)).WF ∧ (Cmd.raw (hsetnxForm key field value)).NilOK :=
  ⟨hsetnx_eq s now key field value, hsetnxForm_ok key field value hb, hsetnxForm_nilSafe key field value⟩

theorem zaddNX_covered (s : MState) (now : Int) (key m : Bytes) (sc : F64) (hn : F64.isNaN sc = false)
    (hb : m.length + 8 < 2 ^ 63) :
    Api.zaddNX s now key m sc = (Cmd.raw (zaddNXForm key m sc)).run s now ∧
    (Cmd.raw (zaddNXForm key m sc)).WF ∧ (Cmd.raw (zaddNXForm key m sc)).NilOK :=
  ⟨zaddNX_eq s now key m sc, zaddNXForm_ok key m sc hn hb, zaddNXForm_nilSafe key m sc⟩

/-- the ZADD command's transaction (`zAddPairs`, work package Z): a key transaction like the others, hence covered by
    `command_spec`, `command_sim` and `any_eviction_schedule_invisible` - every option set, every non-empty list of
    representable pairs -/
theorem zaddPairs_covered (s : MState) (now : Int) (key : Bytes) (nx xx gt lt ch : Bool) (pairs : List (Bytes × F64))
    (hne : pairs ≠ []) (hb : ∀ q ∈ pairs, Proofs.C20.PairOK q) :
    Api.zaddPairs s now key nx xx gt lt ch pairs = (Cmd.raw (Proofs.C20.zaddPairsF key nx xx gt lt ch pairs)).run s now ∧
    (Cmd.raw (Proofs.C20.zaddPairsF key nx xx gt lt ch pairs)).WF ∧
    (Cmd.raw (Proofs.C20.zaddPairsF key nx xx gt lt ch pairs)).NilOK :=
  ⟨Proofs.C20.zaddPairs_eq s now key nx xx gt lt ch pairs hne, Proofs.C20.zaddPairsF_ok key nx xx gt lt ch pairs hb,
    Proofs.C20.zaddPairsF_nilSafe key nx xx gt lt ch pairs⟩

/-- hypotheses satisfiable -/
example : ([(([97] : Bytes), 0x4014000000000000), ([98], 0x3FF0000000000000)] : List (Bytes × F64)) ≠ [] ∧
    ∀ q ∈ [(([97] : Bytes), 0x4014000000000000), ([98], 0x3FF0000000000000)], Proofs.C20.PairOK q := by
  refine ⟨by simp, ?_⟩
  intro q hq
  simp only [List.mem_cons, List.not_mem_nil, or_false] at hq
  rcases hq with rfl | rfl <;> exact ⟨by decide +kernel, by decide⟩

/-! ### SCAN -/

/-
  Full statement: (Api.scan (gc s now) now cursor pat count typ).2 = (Api.scan s now cursor pat count typ).2
  for every state.  False when the pass unlinks an expired record: `scan_gc_finding`.
-/
/-- SCAN — with or without TYPE filter, any cursor, pattern and count — gives the same reply before
    and after an eviction pass that finds no expired record: the pass keeps every record in place
    and the TYPE filter sees the same type, also when the pass drops the value from memory
    (`TypeOK`: the cached types of `s` are right) -/
theorem scan_gc_invisible_partial {s : MState} {t now : Int} (h : StoreInv s t) (ht : t ≤ now) (hnil : NilFree s)
    (hty : TypeOK s) (hlive : ∀ k m, AList.get? s.index k = some m → m.expired now = false)
    (cursor : Int) (pat : Bytes) (count : Int) (typ : Nat) :
    (Api.scan (gc s now) now cursor pat count typ).2 = (Api.scan s now cursor pat count typ).2 := by
  obtain ⟨a, b⟩ := gc_scanRel h ht hnil hty hlive
  exact (scan_congr _ a b cursor pat count typ).symm

/-- witness: SCAN's cursor is a position in the index, and the pass unlinks expired records.  With
    "a" expired but not yet collected and "b" live: `SCAN 0 COUNT 1` answers (2, []); `SCAN 2` then
    answers (0, [b]) — unless a pass ran in between: then position 2 is past the end, the answer is
    (0, []) and the iteration ends without ever reporting the live key "b" -/
theorem scan_gc_finding :
    StoreInv expState 10 ∧
    (Api.scan expState 10 0 [42] 1 0).2 = .many [.int 2, .slist []] ∧
    (Api.scan expState 10 2 [42] 10 0).2 = .many [.int 0, .slist [[98]]] ∧
    (Api.scan (gc expState 10) 10 2 [42] 10 0).2 = .many [.int 0, .slist []] :=
  ⟨expState_inv, expState_scan_first, expState_scan, expState_scan_gc⟩

/-! ### non-vacuity -/

example (pebble : Bool) : StoreInv (exState pebble) 0 ∧ NilFree (exState pebble) ∧ LNil (empty pebble) 0 :=
  ⟨exState_inv pebble 0, exState_nilfree pebble, fun _ _ _ k v e hl => by simp [lookup, getMeta, empty, AList.get?] at hl⟩
example : ∀ k m, AList.get? (exState true).index k = some m → m.expired 5 = false := by
  intro k m hm
  simp only [exState, AList.get?] at hm
  split at hm
  · simp only [Option.some.injEq] at hm; subst hm; rfl
  · split at hm
    · simp only [Option.some.injEq] at hm; subst hm; rfl
    · cases hm
example : TimesOK 0 [.cmd (.set [1] [2] false) 1, .gc 1, .cmd (.push true [3] [[4]]) 2, .flush 5, .cmd (.get [1]) 5] := by
  simp [TimesOK, Step.time]
example : ∀ st ∈ [Step.cmd (.set [1] [2] false) 1, .gc 1, .cmd (.push true [3] [[4]]) 2],
    st.OK true := by
  intro st hst
  simp only [List.mem_cons, List.mem_nil_iff, or_false] at hst
  rcases hst with rfl | rfl | rfl
  · exact ⟨trivial, fun _ => trivial⟩
  · trivial
  · exact ⟨by intro v hv; simp at hv; subst hv; decide, fun _ => trivial⟩

/-- hypotheses of `command_sim`: a state and the same state after an eviction pass -/
example : Sim 0 (gc (exState true) 0) (exState true) := by
  have g := gc_spec (exState_inv true 0) (Int.le_refl 0) (exState_nilfree true)
  exact ⟨g.inv, exState_inv true 0, fun t' ht' k => g.look t' ht' k⟩

/-- hypotheses of `failed_write_keeps_dirty` / `failed_pass_keeps_dirty`: the backend rejects the
    next two writes; "a" is live and modified -/
example : StoreInv { exState true with failSet := 2 } 0 ∧
    ({ exState true with failSet := 2 } : MState).index.length ≤ ({ exState true with failSet := 2 } : MState).failSet ∧
    ∃ m, AList.get? ({ exState true with failSet := 2 } : MState).index [97] = some m ∧
      m.expired 0 = false ∧ m.isModified = true :=
  ⟨(exState_inv true 0).congr rfl rfl rfl rfl, by decide,
    ⟨{ exp := 0, value := some (.str [1]), state := 3, kid := 1, oid := 2, vtype := 1 },
      by simp [exState, AList.get?], by decide, by decide⟩⟩

/-- hypothesis of `failed_persist_keeps_old_entry`: a rejected write of a record whose value sits in
    the backend under an earlier deadline (5) than its current one (9); the old entry is still there -/
example : (persist staleState [107] staleRec).2.2 = false ∧
    diskGet (persist staleState [107] staleRec).1 [107] 5 = diskGet staleState [107] 5 ∧
    (diskGet staleState [107] 5).isSome = true := by
  exact ⟨staleState_persist_fails, (failed_persist_entry_readable _ _ _ staleState_persist_fails 5).2,
    staleState_entry⟩

/- UNPROVED (C12):
   * `any_eviction_schedule_invisible` covers 32 single-key commands + DEL + RENAME + KEYS (list in the
     comment above the theorem).  Through `Cmd.raw`: SETEX, PSETEX, BITCOUNT, EXPIREAT LT|GT, EXPIRE NX|XX|LT|GT,
     HSETNX, ZADD NX.  Not covered (no theorem, no counterexample known): SETNX,
     MSET, SETBIT, SETRANGE, INCRBYFLOAT, RANDOMKEY,
     RENAMENX, LINSERT, LPUSHX/RPUSHX, LSET, LREM, LTRIM (their `keyTx` equations `lrem_eq`/`ltrim_eq`
     are proved, the well-formedness of the rewritten list is not), RPOPLPUSH/LPOPRPUSH,
     HINCRBY[FLOAT], HMSET, SPOP, SRANDMEMBER, SMOVE, SDIFF/SINTER/SUNION[STORE], ZADD XX|LT|GT,
     ZINCRBY, ZREM*, ZUNION/ZINTER[STORE], EXISTS with several names, FLUSHDB.
   * `TypeOK` (hypothesis of `scan_gc_invisible_partial`): preservation by the covered commands is not
     proved (see Props/C11.lean).
   * SCAN is proved invisible across one pass (`scan_gc_invisible_partial`) but is not a `Step` of the
     schedule theorem (its reply depends on index positions, not on the logical keyspace: finding
     `scan_gc_finding`).
   * `failed_pass_keeps_dirty` is stated for `gc`; for `flush` the single step
     (`failed_flush_write_keeps`) and the consequences "invariant + logical keyspace unchanged for
     every `failSet`" (`flush_invisible`) are proved, not the whole-pass version.
-/

end NodisVerif.C12
