import NodisVerif.Model.DsStr
import NodisVerif.Model.Api
import NodisVerif.Spec.Str
import NodisVerif.Proofs.C01Bytes
import NodisVerif.Proofs.C01Int
import NodisVerif.Proofs.C01Store
import NodisVerif.Proofs.C01Api
import NodisVerif.Proofs.C01Clean
import NodisVerif.Proofs.C01Trace
import NodisVerif.Proofs.C01Float
/-
  C01 — strings and keyspace follow sequential Redis semantics, byte-exact.

  Property theorems only. Helper lemmas: Proofs/C01Bytes.lean (ds/str against Spec/Str.lean),
  Proofs/C01Int.lean (strconv integer text), Proofs/C01Store.lean (readKey / writeKey / logical
  keyspace), Proofs/C01Api.lean (the string and keyspace commands of Model/Api.lean).
  Reference semantics: Spec/Str.lean (plain `Bytes`, `Keyspace = List (Bytes × Bytes)`).

  Everything is unbounded: every store state `s : MState` (hot, cold, expired, half-initialised
  records, either backend), every clock value, every key, every byte string of any length, every
  `Int` argument.  Hypotheses that occur:
    * `IndexSorted s` — the index is key-sorted (it is a btree); an invariant of every command
      (section 6), needed only where the *list* `logical s now` is compared;
    * `StringOrMissing s now k` — the key is missing or holds a string (otherwise the command
      panics: sections 3/4 state that case too);
    * `Clean s` (Proofs/C01Clean.lean) for the frame part of MSET and for whole command streams
      (section 7): the backend is Pebble, or it is the in-memory backend with nothing written back
      and no value object shared between two records. On the in-memory backend `setVal` writes
      through to every record sharing the object, see `set_alias_witness`; `Clean` holds for a
      freshly opened store of either backend and is preserved by every command of section 7.

  Vocabulary (Proofs/C01Store.lean):
    `live s now k : Option Val`   the value a command finds under `k` (record indexed, ok, not
                                  expired, value hot or loadable from the backend);
    `liveExp s now k`             its deadline (0 = none);
    `lookup s now k`              logical content of the record under `k`:
                                  (resolved value, deadline, ok flag), `none` if absent/expired;
    `logical s now`               the list of (name, resolved value, deadline, ok flag) of every
                                  non-expired record, in index order (`count`, `signalled`, `held`,
                                  `feed`, ids, the modified bit are not part of it);
    `Hot s k v now`, `HotExp s k e`  the record under `k` is ok, not expired, holds `v` in memory /
                                  has deadline `e`.

  FINDINGS (model ≠ reference; each has a witness theorem below):
    F1  GETRANGE with `stop < -len`            : model "", Redis the first byte   (`getrange_finding*`)
    F2  GETRANGE with `stop = int64 max`       : `end+1` wraps, model ""           (`getrange_wrap_finding*`)
    F3  GETRANGE out of range                  : model nil, Redis ""               (`getrange_nil_finding`)
    F4  SETRANGE with empty data beyond the end: model zero-pads, Redis no-op      (`setrange_finding`)
    F5  BITCOUNT window normalisation          : (0,0) = whole string, negative start = 0,
        positive stop exclusive, start = stop counts one byte                     (`bitcount_*_finding`)
    F7  SET / GETSET / MSET on a non-string key: panic, Redis SET overwrites       (`set_wrong_type` + comment)
    F8  DECRBY k -2^63 on a missing key        : error reply, but the key now exists (`addInt_creates_key_finding`)
    F10 SETRANGE k 0 "" and SETBIT k -1 on a missing key (commands that open the key with
        `writeKey key newStr` and then write nothing) leave an empty string key behind: EXISTS 1,
        GET ""; Redis creates nothing (SETBIT -1 is an error there). APPEND k "" also creates the
        empty key, which IS what Redis does (`append_missing_get`)                  (`open_creates_key_finding`)
    F11 SET on the in-memory backend may change another key sharing the value object (`set_alias_witness`)
  (F6 "SETEX/PSETEX change the deadline before the wrong-type panic" and F9 "RENAME keeps the
   destination's old deadline" held for earlier snapshots of the model; the Go code was repaired and
   at this snapshot `wrongtype_writes` covers SETEX/PSETEX and `rename_spec` states the deadline move.)
-/
namespace NodisVerif.C01
open NodisVerif
open NodisVerif.Proofs.C01
open Spec.Str

/-! ## 1. Integer text (Go strconv) and the counter commands -/

/-- `ParseInt(FormatInt(x)) = x` for every int64 -/
theorem parse_format (x : Int) (h : inInt64 x = true) : parseInt64 (formatInt x) = some x :=
  Proofs.C01.parse_format x h

/-- the decimal text produced for a natural number consists of digits and reads back -/
theorem natDigits_roundtrip (n : Nat) :
    natDigits n ≠ [] ∧ (natDigits n).all isDigit = true ∧ digitsToNat (natDigits n) 0 = n :=
  ⟨natDigits_ne_nil n, natDigits_all n, digitsToNat_natDigits n⟩

/-- INCRBY on the canonical text of `n`: new text and reply are those of `n + d` -/
theorem incr_spec (n d : Int) (hn : inInt64 n = true) (hs : inInt64 (n + d) = true) :
    DsStr.incr (some (formatInt n)) d = some (some (formatInt (n + d)), n + d) := by
  unfold DsStr.incr; rw [addInt_format n d hn, hs]; rfl

/-- … and an error (`none`: the caller keeps the old value) when the sum leaves int64 -/
theorem incr_overflow (n d : Int) (hn : inInt64 n = true) (hs : inInt64 (n + d) = false) :
    DsStr.incr (some (formatInt n)) d = none := by
  unfold DsStr.incr; rw [addInt_format n d hn, hs]; rfl

/-- a value that is not the text of an int64 is an error for INCR and DECR -/
theorem incr_nonnumeric (v : Bytes) (d : Int) (hv : v ≠ []) (hp : parseInt64 v = none) :
    DsStr.incr (some v) d = none ∧ DsStr.decr (some v) d = none :=
  ⟨addInt_nonnumeric v d hv hp, addInt_nonnumeric v (-d) hv hp⟩

/-- a missing / empty value counts as 0 -/
theorem incr_missing (d : Int) (hd : inInt64 d = true) :
    DsStr.incr none d = some (some (formatInt d), d) := by
  unfold DsStr.incr; rw [addInt_empty none d rfl, hd]; rfl

/-- INCRBY / DECRBY are exactly the reference semantics, for every value and every delta -/
theorem incr_refines_spec (s : DsStr.S) (d : Int) :
    DsStr.incr s d = (Spec.Str.incrby (DsStr.bytes s) d).map fun r => (some r.1, r.2) :=
  addInt_agree s d

theorem decr_refines_spec (s : DsStr.S) (d : Int) :
    DsStr.decr s d = (Spec.Str.decrby (DsStr.bytes s) d).map fun r => (some r.1, r.2) :=
  addInt_agree s (-d)

/-- DECRBY d undoes INCRBY d -/
theorem incr_decr_inverse (n d : Int) (hn : inInt64 n = true) (hs : inInt64 (n + d) = true) :
    (DsStr.incr (some (formatInt n)) d).bind (fun r => DsStr.decr r.1 d) = some (some (formatInt n), n) := by
  rw [incr_spec n d hn hs]
  simp only [Option.bind_some]
  unfold DsStr.decr
  rw [addInt_format (n + d) (-d) hs]
  have : n + d + -d = n := by omega
  rw [this, hn]; rfl

example : inInt64 9223372036854775807 = true ∧ inInt64 (9223372036854775806 + 1) = true := by decide
example : inInt64 (9223372036854775807 + 1) = false := by decide
example : ([97, 98] : Bytes) ≠ [] ∧ parseInt64 [97, 98] = none := by decide

/-! ## 2. Byte-string operations (ds/str) against the reference semantics -/

/-
  Full statement wanted:  ∀ s start stop, (getRange s start stop).getD [] = Spec.getrange (bytes s) start stop.
  It fails exactly on the two regions below (F1, F2); outside them it holds.
-/
/-- GETRANGE agrees with Redis outside the finding regions -/
theorem getrange_spec_partial (s : DsStr.S) (start stop : Int)
    (hi : inInt64 stop = true) (hmax : stop ≠ int64Max)
    (hreg : ¬ (stop < -(DsStr.len s) ∧ DsStr.len s ≠ 0 ∧ (start = 0 ∨ start ≤ stop))) :
    (DsStr.getRange s start stop).getD [] = Spec.Str.getrange (DsStr.bytes s) start stop := by
  have hw : wrap64 (stop + 1) = stop + 1 := by
    apply wrap64_id
    rw [inInt64_iff] at hi ⊢
    simp only [int64Max] at hmax
    omega
  apply getRange_agree s start stop hw
  have : 0 ≤ DsStr.len s := by unfold DsStr.len; omega
  omega

/-- F1, the whole region: for `stop < -len` (string non-empty, start denoting position 0, not the
    both-negative-and-inverted case) the model answers "" and Redis the first byte -/
theorem getrange_finding_region (s : DsStr.S) (start stop : Int)
    (hi : inInt64 stop = true) (hmax : stop ≠ int64Max)
    (hreg : stop < -(DsStr.len s) ∧ DsStr.len s ≠ 0 ∧ (start = 0 ∨ start ≤ stop)) :
    (DsStr.getRange s start stop).getD [] = [] ∧
    Spec.Str.getrange (DsStr.bytes s) start stop = (DsStr.bytes s).take 1 := by
  have hw : wrap64 (stop + 1) = stop + 1 := by
    apply wrap64_id
    rw [inInt64_iff] at hi ⊢
    simp only [int64Max] at hmax
    omega
  exact getRange_differ s start stop hw hreg.1 hreg.2.1 hreg.2.2

theorem getrange_finding :
    (DsStr.getRange (some [97, 98, 99]) 0 (-5)).getD [] ≠ Spec.Str.getrange [97, 98, 99] 0 (-5) := by decide

/-- F2, the whole region: `stop = int64 max` -/
theorem getrange_wrap_finding_region (s : DsStr.S) (start : Int) (hlen : DsStr.len s ≤ int64Max) :
    (DsStr.getRange s start int64Max).getD [] = [] ∧
    Spec.Str.getrange (DsStr.bytes s) start int64Max =
      (DsStr.bytes s).drop (clampStart (DsStr.bytes s).length start).toNat :=
  getRange_differ_max s start hlen

theorem getrange_wrap_finding :
    (DsStr.getRange (some [97, 98, 99]) 0 int64Max).getD [] ≠ Spec.Str.getrange [97, 98, 99] 0 int64Max := by
  decide

/-- F3: an out-of-range GETRANGE is the nil slice, not the empty string (Redis replies "") -/
theorem getrange_nil_finding : DsStr.getRange (some [97]) 5 10 = none ∧ Spec.Str.getrange [97] 5 10 = [] := by
  decide

example : inInt64 (-1) = true ∧ (-1 : Int) ≠ int64Max ∧
    ¬ ((-1 : Int) < -(DsStr.len (some [97, 98, 99])) ∧ DsStr.len (some [97, 98, 99]) ≠ 0 ∧ ((0 : Int) = 0 ∨ (0 : Int) ≤ -1)) := by
  decide
example : inInt64 (-5) = true ∧ (-5 : Int) ≠ int64Max ∧
    ((-5 : Int) < -(DsStr.len (some [97, 98, 99])) ∧ DsStr.len (some [97, 98, 99]) ≠ 0 ∧ ((0 : Int) = 0 ∨ (0 : Int) ≤ -5)) := by
  decide

/-
  Full statement wanted: ∀ s offset ≥ 0, data: bytes (setRange s offset data).1 = Spec.setrange (bytes s) offset data.
  It fails exactly when `data = []` and `offset > len` (F4).
-/
/-- SETRANGE (offset ≥ 0, `offset + |data|` an int64, growth within the 1 GiB the model follows
    the allocator for): new value and reply (= new length) are those of the reference -/
theorem setrange_spec_partial (s : DsStr.S) (offset : Int) (data : Bytes) (h : 0 ≤ offset)
    (hw : inInt64 (offset + (data.length : Int)) = true) (hg : srGrowth s offset data ≤ 1073741824)
    (hreg : ¬ (data = [] ∧ DsStr.len s < offset)) :
    ∃ r, DsStr.setRange s offset data = some r ∧
      DsStr.bytes r.1 = Spec.Str.setrange (DsStr.bytes s) offset.toNat data ∧
      r.2 = ((Spec.Str.setrange (DsStr.bytes s) offset.toNat data).length : Nat) := by
  have hr : data ≠ [] ∨ offset ≤ DsStr.len s := by
    by_cases hd : data = []
    · right; exact Int.not_lt.mp (fun hlt => hreg ⟨hd, hlt⟩)
    · left; exact hd
  exact setRange_agree s offset data h hw hg hr

theorem setrange_finding :
    (DsStr.setRange (some [97]) 3 []).map (fun r => DsStr.bytes r.1) ≠ some (Spec.Str.setrange [97] 3 []) := by
  decide

/-- a negative offset changes nothing and replies 0 (Redis: an error; the reference has `none`) -/
theorem setrange_negative (s : DsStr.S) (offset : Int) (data : Bytes) (h : offset < 0) :
    DsStr.setRange s offset data = some (s, 0) ∧ Spec.Str.setrange? (DsStr.bytes s) offset data = none := by
  refine ⟨setRange_neg s offset data h, ?_⟩
  unfold Spec.Str.setrange?; rw [if_pos h]

/-- a growth of more than 1 GiB is outside the model (`none` = panic; the RESP handler rejects
    offsets beyond 512 MiB before they get here, the embedded API does not) -/
theorem setrange_huge (s : DsStr.S) (offset : Int) (data : Bytes) (h : 0 ≤ offset)
    (hw : inInt64 (offset + (data.length : Int)) = true) (hg : srGrowth s offset data > 1073741824) :
    DsStr.setRange s offset data = none :=
  setRange_huge s offset data h hw hg

/-- what SETRANGE means pointwise: length `max len (off + |data|)`, `data` at `off`, the old bytes
    elsewhere, zeros in the gap -/
theorem setrange_pointwise (v : Bytes) (off : Nat) (data : Bytes) (hd : data ≠ []) :
    (Spec.Str.setrange v off data).length = max v.length (off + data.length) ∧
    ∀ i, (Spec.Str.setrange v off data)[i]? =
      if i < off then some (v.getD i 0)
      else if i < off + data.length then data[i - off]?
      else v[i]? :=
  ⟨spec_setrange_length v off data hd, spec_setrange_getElem? v off data hd⟩

example : (0 : Int) ≤ 5 ∧ inInt64 (5 + (([1, 2] : Bytes).length : Int)) = true ∧ srGrowth (some [9]) 5 [1, 2] ≤ 1073741824 ∧
    ¬ (([1, 2] : Bytes) = [] ∧ DsStr.len (some [9]) < 5) := by decide

/-- APPEND: new value = old ++ data, reply = new length -/
theorem append_spec (s : DsStr.S) (data : Bytes) :
    DsStr.bytes (DsStr.append s data).1 = DsStr.bytes s ++ data ∧
    (DsStr.append s data).2 = ((DsStr.bytes s ++ data).length : Nat) :=
  append_agree s data

/-- STRLEN -/
theorem strlen_spec (s : DsStr.S) : DsStr.len s = (Spec.Str.strlen (DsStr.bytes s) : Nat) := rfl

/-- GETBIT (offset ≥ 0): bit `off % 8` (0 = most significant) of byte `off / 8`, 0 beyond the end -/
theorem getbit_spec (s : DsStr.S) (offset : Int) (h : 0 ≤ offset) :
    DsStr.getBit s offset = if Spec.Str.getbit (DsStr.bytes s) offset.toNat then 1 else 0 :=
  getBit_agree s offset h

/-- a negative offset reads 0 (Redis: an error) -/
theorem getbit_negative (s : DsStr.S) (offset : Int) (h : offset < 0) : DsStr.getBit s offset = 0 :=
  getBit_neg s offset h

/-- SETBIT (offset ≥ 0): new value and old bit are those of the reference -/
theorem setbit_spec (s : DsStr.S) (offset : Int) (x : Bool) (h : 0 ≤ offset) :
    DsStr.setBit s offset x =
      (some (Spec.Str.setbit (DsStr.bytes s) offset.toNat x),
       if Spec.Str.getbit (DsStr.bytes s) offset.toNat then 1 else 0) :=
  setBit_agree s offset x h

theorem setbit_negative (s : DsStr.S) (offset : Int) (x : Bool) (h : offset < 0) :
    DsStr.setBit s offset x = (s, 0) ∧ Spec.Str.setbit? (DsStr.bytes s) offset x = none := by
  refine ⟨setBit_neg s offset x h, ?_⟩
  unfold Spec.Str.setbit?; rw [if_pos h]

/-- after SETBIT o x: bit o reads x, every other bit reads what it read before, the string grew
    (zero-padded) to exactly `max len (o/8+1)` bytes; the reply was the old bit -/
theorem getbit_setbit (s : DsStr.S) (o o' : Int) (x : Bool) (h : 0 ≤ o) (h' : 0 ≤ o') :
    DsStr.getBit (DsStr.setBit s o x).1 o' = (if o' = o then (if x then 1 else 0) else DsStr.getBit s o') ∧
    DsStr.len (DsStr.setBit s o x).1 = max (DsStr.len s) (o / 8 + 1) ∧
    (DsStr.setBit s o x).2 = DsStr.getBit s o := by
  rw [setbit_spec s o x h]
  refine ⟨?_, ?_, ?_⟩
  · rw [getbit_spec _ o' h', getbit_spec s o' h']
    show (if Spec.Str.getbit (Spec.Str.setbit (DsStr.bytes s) o.toNat x) o'.toNat = true then (1 : Int) else 0) = _
    rw [spec_getbit_setbit]
    have e : (o'.toNat = o.toNat) ↔ (o' = o) := by omega
    simp only [e]
    split
    · cases x <;> rfl
    · rfl
  · show ((Spec.Str.setbit (DsStr.bytes s) o.toNat x).length : Int) = _
    rw [spec_setbit_length]
    unfold DsStr.len
    omega
  · rw [getbit_spec s o h]

example : (0 : Int) ≤ 12 ∧ (0 : Int) ≤ 3 := by decide

/-- closed form of what the Go `BitCount(start, end)` counts: the 1 bits of the bytes in the window
    `mbcRange len start end` (first byte, number of bytes) — for every input -/
theorem bitcount_closed_form (s : DsStr.S) (start stop : Int) :
    DsStr.bitCount s start stop =
      (Spec.Str.popcountBytes (((DsStr.bytes s).drop (mbcRange (DsStr.bytes s).length start stop).1).take
        (mbcRange (DsStr.bytes s).length start stop).2) : Nat) :=
  bitCount_closed s start stop

/-
  Full statement wanted: ∀ s start stop, bitCount s start stop = Spec.bitcount (bytes s) start stop.
  The Go window differs from Redis' (F5): it holds for start ≥ 0 (or start ≤ -len) together with
  a negative in-range stop (`-len ≤ stop < 0`, except `start = len+stop+1`) or `stop ≥ len`.
-/
theorem bitcount_spec_partial (s : DsStr.S) (start stop : Int)
    (hs : 0 ≤ start ∨ start ≤ -(DsStr.len s))
    (hr : (-(DsStr.len s) ≤ stop ∧ stop < 0 ∧ start ≠ DsStr.len s + stop + 1) ∨ DsStr.len s ≤ stop) :
    DsStr.bitCount s start stop = (Spec.Str.bitcount (DsStr.bytes s) start stop : Nat) :=
  bitCount_agree s start stop hs hr

/-- `BitCount(0, 0)` (what BITCOUNT without a range calls) and `BitCount(0, -1)` = all 1 bits -/
theorem bitcount_total (s : DsStr.S) :
    DsStr.bitCount s 0 0 = (Spec.Str.bitcountAll (DsStr.bytes s) : Nat) ∧
    DsStr.bitCount s 0 (-1) = (Spec.Str.bitcountAll (DsStr.bytes s) : Nat) :=
  ⟨bitCount_whole s 0 (Or.inl rfl), bitCount_whole s (-1) (Or.inr rfl)⟩

/-- "number of 1 bits" means: the number of bit offsets at which GETBIT reads 1 -/
theorem bitcount_counts_bits (v : Bytes) :
    Spec.Str.bitcountAll v = ((List.range (8 * v.length)).filter fun o => Spec.Str.getbit v o).length :=
  popcountBytes_eq_bits v

/-- F5 witnesses: (0,0) is the whole string (pinned by the repository's tests); a negative start is
    0; a positive stop is exclusive; `start = stop` (after normalisation) counts one byte -/
theorem bitcount_zero_zero_finding :
    DsStr.bitCount (some [255, 255]) 0 0 = 16 ∧ Spec.Str.bitcount [255, 255] 0 0 = 8 := by decide
theorem bitcount_negative_start_finding :
    DsStr.bitCount (some [1, 255]) (-1) (-1) = 9 ∧ Spec.Str.bitcount [1, 255] (-1) (-1) = 8 := by decide
theorem bitcount_exclusive_stop_finding :
    DsStr.bitCount (some [255, 255, 255]) 0 1 = 8 ∧ Spec.Str.bitcount [255, 255, 255] 0 1 = 16 := by decide
theorem bitcount_bump_finding :
    DsStr.bitCount (some [255, 255, 255]) 2 (-2) = 8 ∧ Spec.Str.bitcount [255, 255, 255] 2 (-2) = 0 := by decide

example : ((0 : Int) ≤ 1 ∨ (1 : Int) ≤ -(DsStr.len (some [1, 2, 3]))) ∧
    ((-(DsStr.len (some [1, 2, 3])) ≤ -1 ∧ (-1 : Int) < 0 ∧ (1 : Int) ≠ DsStr.len (some [1, 2, 3]) + -1 + 1) ∨
      DsStr.len (some [1, 2, 3]) ≤ -1) := by decide

/-! ## 3. Binary safety at the API level -/

/-- the key is missing (absent, expired, unusable) or holds a string -/
def StringOrMissing (s : MState) (now : Int) (k : Bytes) : Prop :=
  ∀ v0, live s now k = some v0 → isStrVal v0 = true

/-- a state used for the non-vacuity examples: a string (with a zero and a 0xFF byte) under "a",
    a list under "l" -/
def sDemo : MState :=
  { index := [([97], { exp := 0, value := some (.str [120, 0, 255]), state := 1 }),
              ([108], { exp := 0, value := some (.list ⟨[[1]], 1⟩), state := 1 })] }

theorem sDemo_sorted : IndexSorted sDemo := by simp [IndexSorted, sDemo, AList.Sorted, Bytes.lt]
example : StringOrMissing sDemo 0 [97] := by
  intro v0 h
  have e : live sDemo 0 [97] = some (.str [120, 0, 255]) := by decide
  rw [e] at h
  cases h; rfl
example : StringOrMissing sDemo 0 [122] := by
  intro v0 h
  have e : live sDemo 0 [122] = none := by decide
  rw [e] at h; cases h
example : live sDemo 0 [108] = some (.list ⟨[[1]], 1⟩) ∧ isStrVal (.list ⟨[[1]], 1⟩) = false := by decide

/-- SET then GET returns the value byte for byte — any bytes, any length, any prior state of the
    store; the deadline is dropped unless KEEPTTL -/
theorem set_get (s : MState) (now : Int) (k v : Bytes) (keep : Bool) (h : StringOrMissing s now k) :
    (Api.set s now k v keep).2 = .unit ∧
    (Api.get (Api.set s now k v keep).1 now k).2 = .bytes (some v) ∧
    live (Api.set s now k v keep).1 now k = some (.str v) ∧
    liveExp (Api.set s now k v keep).1 now k = some (if keep then (liveExp s now k).getD 0 else 0) := by
  obtain ⟨h1, h2, h3⟩ := set_ok s now k v keep h
  exact ⟨h1, get_hot h2 rfl, live_of_hot h2, liveExp_of_hot h2 h3⟩

/-- F7. SET on a key holding a list / hash / set / zset panics (Redis: SET overwrites a key of any
    type); value, type, deadline of the key and the whole logical keyspace are unchanged -/
theorem set_wrong_type (s : MState) (now : Int) (k v : Bytes) (keep : Bool) (v0 : Val) (hs : IndexSorted s)
    (hl : live s now k = some v0) (ht : isStrVal v0 = false) :
    (Api.set s now k v keep).2 = .panic ∧
    live (Api.set s now k v keep).1 now k = some v0 ∧
    logical (Api.set s now k v keep).1 now = logical s now := by
  obtain ⟨h1, h2⟩ := set_wrongtype s now k v keep v0 hl ht
  exact ⟨h1, by rw [live_congr (h2 k), hl], logical_ext hs (set_sorted s now k v keep hs) h2⟩

/-- GETSET: replies the old string (nil for a missing key or a never-filled string), then GET
    returns the new value; the deadline is dropped -/
theorem getSet_get (s : MState) (now : Int) (k v : Bytes) (h : StringOrMissing s now k) :
    (Api.getSet s now k v).2 = .bytes (match live s now k with | some (.str o) => some o | _ => none) ∧
    (Api.get (Api.getSet s now k v).1 now k).2 = .bytes (some v) ∧
    liveExp (Api.getSet s now k v).1 now k = some 0 := by
  obtain ⟨h1, h2, h3⟩ := getSet_ok s now k v h
  refine ⟨?_, get_hot h2 rfl, liveExp_of_hot h2 h3⟩
  rw [h1]
  cases hl : live s now k with
  | none => rfl
  | some v0 => cases v0 <;> rfl

/-- SETNX on a missing key stores the value (no deadline) and replies true; on an existing key of
    any type it replies false and changes nothing -/
theorem setNX_missing_get (s : MState) (now : Int) (k v : Bytes) (keep : Bool) (hl : live s now k = none) :
    (Api.setNX s now k v keep).2 = .bool true ∧
    (Api.get (Api.setNX s now k v keep).1 now k).2 = .bytes (some v) ∧
    liveExp (Api.setNX s now k v keep).1 now k = some 0 := by
  obtain ⟨h1, h2, h3⟩ := setNX_absent s now k v keep hl
  exact ⟨h1, get_hot h2 rfl, liveExp_of_hot h2 h3⟩

theorem setNX_existing (s : MState) (now : Int) (k v : Bytes) (keep : Bool) (v0 : Val) (hs : IndexSorted s)
    (hl : live s now k = some v0) :
    (Api.setNX s now k v keep).2 = .bool false ∧ logical (Api.setNX s now k v keep).1 now = logical s now := by
  obtain ⟨h1, h2⟩ := setNX_present s now k v keep v0 hl
  exact ⟨h1, logical_ext hs (setNX_sorted s now k v keep hs) h2⟩

/-- SET XX -/
theorem setXX_spec (s : MState) (now : Int) (k v : Bytes) (keep : Bool) (hs : IndexSorted s) :
    (live s now k = none →
      (Api.setXX s now k v keep).2 = .bool false ∧ logical (Api.setXX s now k v keep).1 now = logical s now) ∧
    (∀ v0, live s now k = some v0 → isStrVal v0 = true →
      (Api.setXX s now k v keep).2 = .bool true ∧
      (Api.get (Api.setXX s now k v keep).1 now k).2 = .bytes (some v)) := by
  constructor
  · intro hl
    obtain ⟨h1, h2⟩ := setXX_absent s now k v keep hl
    exact ⟨h1, logical_ext hs (setXX_sorted s now k v keep hs) h2⟩
  · intro v0 hl ht
    obtain ⟨h1, h2, _⟩ := (setXX_present s now k v keep v0 hl).1 ht
    exact ⟨h1, get_hot h2 rfl⟩

/-- SETEX / PSETEX (deadline not already past): value stored, deadline set -/
theorem setEX_get (s : MState) (now : Int) (k v : Bytes) (seconds : Int) (h : StringOrMissing s now k)
    (he : wrap64 (now + wrap64 (seconds * 1000)) = 0 ∨ now < wrap64 (now + wrap64 (seconds * 1000))) :
    (Api.setEX s now k v seconds).2 = .unit ∧
    (Api.get (Api.setEX s now k v seconds).1 now k).2 = .bytes (some v) ∧
    liveExp (Api.setEX s now k v seconds).1 now k = some (wrap64 (now + wrap64 (seconds * 1000))) := by
  obtain ⟨h1, h2, h3⟩ := setEX_ok s now k v seconds h he
  exact ⟨h1, get_hot h2 rfl, liveExp_of_hot h2 h3⟩

theorem setPX_get (s : MState) (now : Int) (k v : Bytes) (ms : Int) (h : StringOrMissing s now k)
    (he : wrap64 (now + ms) = 0 ∨ now < wrap64 (now + ms)) :
    (Api.setPX s now k v ms).2 = .unit ∧
    (Api.get (Api.setPX s now k v ms).1 now k).2 = .bytes (some v) ∧
    liveExp (Api.setPX s now k v ms).1 now k = some (wrap64 (now + ms)) := by
  obtain ⟨h1, h2, h3⟩ := setPX_ok s now k v ms h he
  exact ⟨h1, get_hot h2 rfl, liveExp_of_hot h2 h3⟩

example : wrap64 (1000 + wrap64 (10 * 1000)) = 0 ∨ (1000 : Int) < wrap64 (1000 + wrap64 (10 * 1000)) := by decide

/-- APPEND: the reply is the new length and GET returns old ++ data, byte for byte -/
theorem append_get (s : MState) (now : Int) (k data : Bytes) (h : StringOrMissing s now k) :
    (Api.append s now k data).2 = .int ((bytesOf (strAt s now k) ++ data).length : Nat) ∧
    ∃ r, (Api.get (Api.append s now k data).1 now k).2 = .bytes r ∧
      DsStr.bytes r = bytesOf (strAt s now k) ++ data := by
  obtain ⟨h1, h2, _⟩ := append_ok s now k data h
  obtain ⟨a1, a2⟩ := append_agree (strOf (strAt s now k)) data
  refine ⟨by rw [h1, a2]; rfl, _, get_hot h2 (isStrVal_strVal _), ?_⟩
  rw [strOf_strVal, a1]; rfl

/-- APPEND on a missing key creates the key holding exactly `data` — for empty `data` too (the
    empty, non-nil string: GET replies "", as Redis does) -/
theorem append_missing_get (s : MState) (now : Int) (k data : Bytes) (hl : live s now k = none) :
    (Api.append s now k data).2 = .int (data.length : Nat) ∧
    (Api.get (Api.append s now k data).1 now k).2 = .bytes (some data) ∧
    live (Api.append s now k data).1 now k = some (.str data) := by
  have hs : StringOrMissing s now k := by intro v0 h; rw [hl] at h; cases h
  obtain ⟨h1, h2, _⟩ := append_ok s now k data hs
  have e : strAt s now k = .str [] := by unfold strAt; rw [hl]; rfl
  rw [e] at h1 h2
  exact ⟨h1, get_hot h2 rfl, live_of_hot h2⟩

/-- a string command never leaves a nil string behind: whatever SET / GETSET / SETNX / APPEND /
    SETRANGE / SETBIT / INCR* store is a filled (`.str`) value, so GET on it is never nil -/
theorem stored_value_is_filled (o : DsStr.S) (off : Int) (d : Bytes) (x : Bool) (b : Bytes) (ho : o = some b) :
    (∃ r, (DsStr.append o d).1 = some r) ∧ (∃ r, (DsStr.setBit o off x).1 = some r) ∧
    (∀ r, DsStr.setRange o off d = some r → ∃ w, r.1 = some w) := by
  subst ho
  refine ⟨⟨_, rfl⟩, ?_, ?_⟩
  · unfold DsStr.setBit
    split
    · exact ⟨_, rfl⟩
    · simp only
      split <;> exact ⟨_, rfl⟩
  · intro r hr
    unfold DsStr.setRange at hr
    split at hr
    · cases hr; exact ⟨_, rfl⟩
    · simp only at hr
      split at hr
      · cases hr
      · split at hr
        · cases hr
        · cases hr; exact ⟨_, rfl⟩

/-- SETRANGE / SETBIT through the API: reply and stored value are those of ds/str (section 2) -/
theorem setRange_get (s : MState) (now : Int) (k : Bytes) (offset : Int) (data : Bytes) (h : StringOrMissing s now k)
    (v' : DsStr.S) (n : Int) (hstep : DsStr.setRange (strOf (strAt s now k)) offset data = some (v', n)) :
    (Api.setRange s now k offset data).2 = .int n ∧
    (Api.get (Api.setRange s now k offset data).1 now k).2 = .bytes v' := by
  have := setRange_ok s now k offset data h
  rw [hstep] at this
  obtain ⟨h1, h2, _⟩ := this
  refine ⟨h1, ?_⟩
  rw [get_hot h2 (isStrVal_strVal _), strOf_strVal]

theorem setBit_get (s : MState) (now : Int) (k : Bytes) (offset : Int) (x : Bool) (h : StringOrMissing s now k) :
    (Api.setBit s now k offset x).2 = .int (DsStr.setBit (strOf (strAt s now k)) offset x).2 ∧
    (Api.get (Api.setBit s now k offset x).1 now k).2 =
      .bytes (DsStr.setBit (strOf (strAt s now k)) offset x).1 := by
  obtain ⟨h1, h2, _⟩ := setBit_ok s now k offset x h
  refine ⟨h1, ?_⟩
  rw [get_hot h2 (isStrVal_strVal _), strOf_strVal]

/-- the read commands: reply = ds/str function of the live value (section 2), nil / 0 when missing -/
theorem reads_spec (s : MState) (now : Int) (k : Bytes) (a b : Int) :
    (Api.get s now k).2 = (match live s now k with
      | none => .bytes none | some v => if isStrVal v then .bytes (strOf v) else .panic) ∧
    (Api.strLen s now k).2 = (match live s now k with
      | none => .int 0 | some v => if isStrVal v then .int (DsStr.len (strOf v)) else .panic) ∧
    (Api.getRange s now k a b).2 = (match live s now k with
      | none => .bytes none | some v => if isStrVal v then .bytes (DsStr.getRange (strOf v) a b) else .panic) ∧
    (Api.getBit s now k a).2 = (match live s now k with
      | none => .int 0 | some v => if isStrVal v then .int (DsStr.getBit (strOf v) a) else .panic) ∧
    (Api.bitCount s now k a b false).2 = (match live s now k with
      | none => .int 0 | some v => if isStrVal v then .int (DsStr.bitCount (strOf v) a b) else .panic) :=
  ⟨(get_live s now k).1, (strLen_live s now k).1, (getRange_live s now k a b).1, (getBit_live s now k a).1,
    (bitCount_live s now k a b false).1⟩

/-- MSET, any backend: an argument list of odd length does nothing; otherwise the reply is OK or
    the call panicked (a key held a non-string), and after OK the key of the last pair holds the
    last value, without deadline -/
theorem mset_last_pair (s : MState) (now : Int) (kvs : List (Bytes × Bytes)) (k v : Bytes) :
    ((Api.mset s now (flat (kvs ++ [(k, v)]))).2 = .unit ∨ (Api.mset s now (flat (kvs ++ [(k, v)]))).2 = .panic) ∧
    ((Api.mset s now (flat (kvs ++ [(k, v)]))).2 = .unit →
      lookup (Api.mset s now (flat (kvs ++ [(k, v)]))).1 now k = some (some (.str v), 0, true)) := by
  rw [mset_eq]; exact mset_last now kvs s k v

theorem mset_odd (s : MState) (now : Int) (pairs : List Bytes) (h : pairs.length % 2 ≠ 0) :
    Api.mset s now pairs = (s, .unit) := by
  unfold Api.mset; rw [if_pos h]

/-- MSET on the Pebble backend, all named keys missing or strings: OK, every named key holds the
    last value given for it (no deadline), every other record is untouched -/
theorem mset_spec_pebble (s : MState) (now : Int) (kvs : List (Bytes × Bytes)) (hp : s.pebble = true)
    (h : ∀ p ∈ kvs, StringOrMissing s now p.1) :
    (Api.mset s now (flat kvs)).2 = .unit ∧
    ∀ x, lookup (Api.mset s now (flat kvs)).1 now x =
      match lastVal kvs x with
      | some v => some (some (.str v), 0, true)
      | none => lookup s now x := by
  rw [mset_eq]; exact mset_pebble now kvs s hp h

/-- the same from any `Clean` state of either backend (call started with an empty lock set) -/
theorem mset_spec (s : MState) (now : Int) (kvs : List (Bytes × Bytes)) (hc : Clean s) (hs : IndexSorted s)
    (hl : WLocks s) (h : ∀ p ∈ kvs, StringOrMissing s now p.1) :
    (Api.mset s now (flat kvs)).2 = .unit ∧
    ∀ x, lookup (Api.mset s now (flat kvs)).1 now x =
      match lastVal kvs x with
      | some v => some (some (.str v), 0, true)
      | none => lookup s now x := by
  rw [mset_eq]; exact mset_clean now kvs s ⟨hc, hs⟩ hl h

example : Clean sDemo ∧ WLocks sDemo := by
  refine ⟨Or.inr ⟨rfl, ?_, ?_⟩, rfl, fun x hx => by cases hx⟩
  · intro k k' m m' h1 h2 _ hne
    exfalso
    have hk : k = [97] ∨ k = [108] := by
      by_cases e1 : k = [97]
      · exact Or.inl e1
      · by_cases e2 : k = [108]
        · exact Or.inr e2
        · have a1 : ¬ ([97] : Bytes) = k := fun e => e1 e.symm
          have a2 : ¬ ([108] : Bytes) = k := fun e => e2 e.symm
          simp [Store.getMeta, sDemo, AList.get?, a1, a2] at h1
    rcases hk with hk | hk <;> subst hk
    · have : m.oid = 0 := by
        have e : Store.getMeta sDemo [97] = some { exp := 0, value := some (.str [120, 0, 255]), state := 1 } := rfl
        rw [e] at h1; cases h1; rfl
      exact hne this
    · have : m.oid = 0 := by
        have e : Store.getMeta sDemo [108] = some { exp := 0, value := some (.list ⟨[[1]], 1⟩), state := 1 } := rfl
        rw [e] at h1; cases h1; rfl
      exact hne this
  · intro k m h1
    have hk : k = [97] ∨ k = [108] := by
      by_cases e1 : k = [97]
      · exact Or.inl e1
      · by_cases e2 : k = [108]
        · exact Or.inr e2
        · have a1 : ¬ ([97] : Bytes) = k := fun e => e1 e.symm
          have a2 : ¬ ([108] : Bytes) = k := fun e => e2 e.symm
          simp [Store.getMeta, sDemo, AList.get?, a1, a2] at h1
    rcases hk with hk | hk <;> subst hk
    · have e : Store.getMeta sDemo [97] = some { exp := 0, value := some (.str [120, 0, 255]), state := 1 } := rfl
      rw [e] at h1; cases h1; decide
    · have e : Store.getMeta sDemo [108] = some { exp := 0, value := some (.list ⟨[[1]], 1⟩), state := 1 } := rfl
      rw [e] at h1; cases h1; decide

/-- every argument list of even length is a list of pairs -/
theorem pairs_of_even (l : List Bytes) (n : Nat) (h : l.length = 2 * n) : ∃ kvs, l = flat kvs := flat_of_even n l h

/-- F11 (why the hypothesis): two records of the in-memory backend sharing one value object —
    SET on one changes what GET returns for the other -/
def sAlias : MState :=
  { index := [([97], { exp := 0, value := some (.str [1]), state := 1, oid := 7 }),
              ([98], { exp := 0, value := some (.str [1]), state := 1, oid := 7 })] }

theorem set_alias_witness :
    live sAlias 0 [98] = some (.str [1]) ∧ live (Api.set sAlias 0 [97] [2] false).1 0 [98] = some (.str [2]) := by
  decide

/-! ## 4. A command that fails leaves the keyspace unchanged -/

/-- INCR / DECR / INCRBY / DECRBY on an existing string whose text is not an int64, or whose sum
    leaves int64: error reply, logical keyspace unchanged -/
theorem addInt_failure (s : MState) (now : Int) (k : Bytes) (delta : Int) (neg : Bool) (v0 : Val) (hs : IndexSorted s)
    (hl : live s now k = some v0) (ht : isStrVal v0 = true)
    (hf : counterStep (strOf v0) delta neg = none) :
    (Api.addInt s now k delta neg).2 = .many [.int 0, .err true] ∧
    logical (Api.addInt s now k delta neg).1 now = logical s now := by
  have hso : ∀ v1, live s now k = some v1 → isStrVal v1 = true := by
    intro v1 h1; rw [hl] at h1; cases h1; exact ht
  have := addInt_ok s now k delta neg false hso
  have e : strAt s now k = v0 := by unfold strAt; rw [hl]; rfl
  rw [e, hf] at this
  obtain ⟨h1, h2⟩ := this
  refine ⟨h1, ?_⟩
  rw [h2]
  exact logical_ext hs (writeKey_sorted s now k _ hs) (writeKey_live s now k _ v0 hl).2.2

/-- the two ways to fail, in terms of the stored bytes -/
theorem addInt_nonnumeric_fails (v : Bytes) (delta : Int) (neg : Bool) (hv : v ≠ []) (hp : parseInt64 v = none) :
    counterStep (strOf (.str v)) delta neg = none := by
  unfold counterStep
  cases neg
  · exact (incr_nonnumeric v delta hv hp).1
  · exact (incr_nonnumeric v delta hv hp).2

theorem addInt_overflow_fails (n delta : Int) (neg : Bool) (hn : inInt64 n = true)
    (ho : inInt64 (if neg then n + -delta else n + delta) = false) :
    counterStep (strOf (.str (formatInt n))) delta neg = none := by
  unfold counterStep
  cases neg
  · exact incr_overflow n delta hn ho
  · exact incr_overflow n (-delta) hn ho

/-- … and the successful case: reply and stored text are those of `n ± delta` -/
theorem addInt_success (s : MState) (now : Int) (k : Bytes) (delta : Int) (neg : Bool) (h : StringOrMissing s now k)
    (v' : DsStr.S) (n : Int) (hstep : counterStep (strOf (strAt s now k)) delta neg = some (v', n)) :
    (Api.addInt s now k delta neg).2 = .many [.int n, .err false] ∧
    (Api.get (Api.addInt s now k delta neg).1 now k).2 = .bytes v' := by
  have := addInt_ok s now k delta neg false h
  rw [hstep] at this
  obtain ⟨h1, h2, _⟩ := this
  refine ⟨h1, ?_⟩
  rw [get_hot h2 (isStrVal_strVal _), strOf_strVal]

/-- F8. `DECRBY k -2^63` on a missing key: the reply is an error, yet the key exists afterwards
    (as an empty string: TYPE string, EXISTS 1, GET "") -/
theorem addInt_creates_key_finding :
    live ({} : MState) 0 [107] = none ∧
    (match (Api.addInt {} 0 [107] int64Min true).2 with | .many [.int 0, .err true] => true | _ => false) = true ∧
    live (Api.addInt {} 0 [107] int64Min true).1 0 [107] = some (.str []) := by decide

/-- F10. SETRANGE k 0 "" / SETBIT k -1 1 on a missing key reply 0 and leave an empty string key
    behind (EXISTS 1, TYPE string, GET ""); Redis creates nothing (and rejects the negative offset) -/
theorem open_creates_key_finding :
    live ({} : MState) 0 [107] = none ∧
    live (Api.setRange {} 0 [107] 0 []).1 0 [107] = some (.str []) ∧
    live (Api.setBit {} 0 [107] (-1) true).1 0 [107] = some (.str []) ∧
    (Spec.Str.step [] (.setrange [107] 0 [])).1 = [] ∧ (Spec.Str.step [] (.setbit [107] (-1) true)).1 = [] := by
  decide

example : live sDemo 0 [97] = some (.str [120, 0, 255]) ∧ isStrVal (.str [120, 0, 255]) = true ∧
    counterStep (strOf (.str [120, 0, 255])) 1 false = none := by decide

/-- any writing string command on a key that holds a list / hash / set / zset panics and leaves the
    logical keyspace unchanged -/
theorem wrongtype_writes (s : MState) (now : Int) (k : Bytes) (v0 : Val) (hs : IndexSorted s)
    (hl : live s now k = some v0) (ht : isStrVal v0 = false)
    (v : Bytes) (o : DsStr.S) (keep : Bool) (d : Int) (neg x : Bool) :
    ((Api.set s now k v keep).2 = .panic ∧ logical (Api.set s now k v keep).1 now = logical s now) ∧
    ((Api.setOpt s now k o keep).2 = .panic ∧ logical (Api.setOpt s now k o keep).1 now = logical s now) ∧
    ((Api.getSet s now k v).2 = .panic ∧ logical (Api.getSet s now k v).1 now = logical s now) ∧
    ((Api.setXX s now k v keep).2 = .panic ∧ logical (Api.setXX s now k v keep).1 now = logical s now) ∧
    ((Api.addInt s now k d neg).2 = .panic ∧ logical (Api.addInt s now k d neg).1 now = logical s now) ∧
    ((Api.setBit s now k d x).2 = .panic ∧ logical (Api.setBit s now k d x).1 now = logical s now) ∧
    ((Api.append s now k v).2 = .panic ∧ logical (Api.append s now k v).1 now = logical s now) ∧
    ((Api.setRange s now k d v).2 = .panic ∧ logical (Api.setRange s now k d v).1 now = logical s now) ∧
    ((Api.setEX s now k v d).2 = .panic ∧ logical (Api.setEX s now k v d).1 now = logical s now) ∧
    ((Api.setPX s now k v d).2 = .panic ∧ logical (Api.setPX s now k v d).1 now = logical s now) := by
  refine ⟨?_, ?_, ?_, ?_, ?_, ?_, ?_, ?_, ?_, ?_⟩
  · obtain ⟨h1, h2⟩ := set_wrongtype s now k v keep v0 hl ht
    exact ⟨h1, logical_ext hs (set_sorted s now k v keep hs) h2⟩
  · obtain ⟨h1, h2⟩ := setOpt_wrongtype s now k o keep v0 hl ht
    exact ⟨h1, logical_ext hs (setOpt_sorted s now k o keep hs) h2⟩
  · obtain ⟨h1, h2⟩ := getSet_wrongtype s now k v v0 hl ht
    exact ⟨h1, logical_ext hs (getSet_sorted s now k v hs) h2⟩
  · obtain ⟨h1, h2⟩ := (setXX_present s now k v keep v0 hl).2 ht
    exact ⟨h1, logical_ext hs (setXX_sorted s now k v keep hs) h2⟩
  · obtain ⟨h1, h2⟩ := addInt_wrongtype s now k d neg false v0 hl ht
    exact ⟨h1, logical_ext hs (addInt_sorted s now k d neg false hs) h2⟩
  · obtain ⟨h1, h2⟩ := setBit_wrongtype s now k d x v0 hl ht
    exact ⟨h1, logical_ext hs (setBit_sorted s now k d x hs) h2⟩
  · obtain ⟨h1, h2⟩ := append_wrongtype s now k v v0 hl ht
    exact ⟨h1, logical_ext hs (append_sorted s now k v hs) h2⟩
  · obtain ⟨h1, h2⟩ := setRange_wrongtype s now k d v v0 hl ht
    exact ⟨h1, logical_ext hs (setRange_sorted s now k d v hs) h2⟩
  · obtain ⟨h1, h2⟩ := setEX_wrongtype s now k v d v0 hl ht
    exact ⟨h1, logical_ext hs (setEX_sorted s now k v d hs) h2⟩
  · obtain ⟨h1, h2⟩ := setPX_wrongtype s now k v d v0 hl ht
    exact ⟨h1, logical_ext hs (setPX_sorted s now k v d hs) h2⟩

/-- the reading string commands on such a key panic as well (GET, STRLEN, GETRANGE, GETBIT, BITCOUNT) -/
theorem wrongtype_reads (s : MState) (now : Int) (k : Bytes) (v0 : Val)
    (hl : live s now k = some v0) (ht : isStrVal v0 = false) (a b : Int) (bit : Bool) :
    (Api.get s now k).2 = .panic ∧ (Api.strLen s now k).2 = .panic ∧ (Api.getRange s now k a b).2 = .panic ∧
    (Api.getBit s now k a).2 = .panic ∧ (Api.bitCount s now k a b bit).2 = .panic := by
  refine ⟨?_, ?_, ?_, ?_, ?_⟩
  · rw [(get_live s now k).1, hl]; simp only [ht]; rfl
  · rw [(strLen_live s now k).1, hl]; simp only [ht]; rfl
  · rw [(getRange_live s now k a b).1, hl]; simp only [ht]; rfl
  · rw [(getBit_live s now k a).1, hl]; simp only [ht]; rfl
  · rw [(bitCount_live s now k a b bit).1, hl]; simp only [ht]; rfl

/-- GET, STRLEN, GETRANGE, GETBIT, BITCOUNT, TYPE, EXISTS, KEYS never change the logical keyspace
    (whatever they find, including a wrong type, a cold value they load, an expired record) -/
theorem reads_preserve_logical (s : MState) (now : Int) (k : Bytes) (hs : IndexSorted s)
    (a b : Int) (bit : Bool) (ks : List Bytes) (pat : Bytes) :
    logical (Api.get s now k).1 now = logical s now ∧
    logical (Api.strLen s now k).1 now = logical s now ∧
    logical (Api.getRange s now k a b).1 now = logical s now ∧
    logical (Api.getBit s now k a).1 now = logical s now ∧
    logical (Api.bitCount s now k a b bit).1 now = logical s now ∧
    logical (Api.type_ s now k).1 now = logical s now ∧
    logical (Api.exists_ s now ks).1 now = logical s now ∧
    logical (Api.keys s now pat).1 now = logical s now := by
  refine ⟨?_, ?_, ?_, ?_, ?_, ?_, ?_, ?_⟩
  · rw [(get_live s now k).2]; exact logical_readKey s now k hs
  · rw [(strLen_live s now k).2]; exact logical_readKey s now k hs
  · rw [(getRange_live s now k a b).2]; exact logical_readKey s now k hs
  · rw [(getBit_live s now k a).2]; exact logical_readKey s now k hs
  · rw [(bitCount_live s now k a b bit).2]; exact logical_readKey s now k hs
  · rw [(type_live s now k).2]; exact logical_readKey s now k hs
  · rw [Proofs.C01.exists_eq]
    exact logical_ext hs ((exists_fold now ks s 0).2.2 hs) (exists_fold now ks s 0).2.1
  · rw [keys_eq]

/-! ## 5. Keyspace commands -/

/-- DEL k₁ … kₙ against a reference keyspace that has the same keys: the reply is the reference
    reply (number of named keys that existed, a repeated name counting once), afterwards the same
    keys exist as in the reference, none of the named keys is live, and every record that was not
    named is untouched (value, deadline) -/
theorem del_spec (s : MState) (now : Int) (keys : List Bytes) (ks : Keyspace) (hs : IndexSorted s)
    (hr : ∀ k, Keyspace.exists_ ks k = (live s now k).isSome) :
    (Api.del s now keys).2 = .int ((Keyspace.delMany ks keys).2 : Nat) ∧
    (∀ k, Keyspace.exists_ (Keyspace.delMany ks keys).1 k = (live (Api.del s now keys).1 now k).isSome) ∧
    (∀ k, k ∈ keys → live (Api.del s now keys).1 now k = none) ∧
    (∀ k, k ∉ keys → lookup (Api.del s now keys).1 now k = lookup s now k) ∧
    IndexSorted (Api.del s now keys).1 := by
  obtain ⟨h1, h2, h3, h4, h5⟩ := del_fold now keys s 0 ks hs hr
  rw [del_eq]
  exact ⟨by rw [h1]; simp, h2, h5, h4, h3⟩

/-- EXISTS k₁ … kₙ: number of named keys that are live (a repeated name counts repeatedly) -/
theorem exists_spec (s : MState) (now : Int) (keys : List Bytes) (ks : Keyspace)
    (hr : ∀ k, Keyspace.exists_ ks k = (live s now k).isSome) :
    (Api.exists_ s now keys).2 = .int (Keyspace.existsMany ks keys : Nat) := by
  rw [Proofs.C01.exists_eq, (exists_fold now keys s 0).1]
  unfold Keyspace.existsMany
  simp only [hr, Int.zero_add]

/-- TYPE: the type name of the live value, "none" for a missing key; it never panics -/
theorem type_spec (s : MState) (now : Int) (k : Bytes) :
    (Api.type_ s now k).2 = .str (Bytes.ofString (match live s now k with
      | none => "none"
      | some v => typeName v.typeCode)) :=
  (type_live s now k).1

/-- KEYS pattern: the names of the logical keyspace that match, in byte order -/
theorem keys_spec (s : MState) (now : Int) (pat : Bytes) :
    Api.keys s now pat = (s, .slist (((logical s now).map (·.1)).filter (Glob.matched pat))) :=
  keys_eq s now pat

/-- RENAME src dst, src ≠ dst, src exists: OK; src is gone; dst holds src's value and src's
    deadline (whatever dst held before); every other record is untouched -/
theorem rename_spec (s : MState) (now : Int) (src dst : Bytes) (v : Val) (hs : IndexSorted s)
    (hl : live s now src = some v) (hne : src ≠ dst) :
    (Api.rename s now src dst).2 = .err false ∧
    live (Api.rename s now src dst).1 now src = none ∧
    live (Api.rename s now src dst).1 now dst = some v ∧
    liveExp (Api.rename s now src dst).1 now dst = some ((liveExp s now src).getD 0) ∧
    (∀ k, k ≠ src → k ≠ dst → lookup (Api.rename s now src dst).1 now k = lookup s now k) ∧
    IndexSorted (Api.rename s now src dst).1 := by
  obtain ⟨h1, h2, h3, h4, h5, h6⟩ := rename_ok s now src dst v hs hl hne
  exact ⟨h1, h2, live_of_hot h3, liveExp_of_hot h3 h4, h5, h6⟩

/-- RENAME of a missing source: error, nothing changes -/
theorem rename_missing_source (s : MState) (now : Int) (src dst : Bytes) (hs : IndexSorted s)
    (hl : live s now src = none) :
    (Api.rename s now src dst).2 = .err true ∧ logical (Api.rename s now src dst).1 now = logical s now := by
  obtain ⟨h1, h2⟩ := rename_missing s now src dst hl
  refine ⟨h1, logical_ext hs ?_ h2⟩
  rw [rename_unfold, writeKey_none_flag, hl]
  exact writeKey_sorted s now src none hs

/-- RENAME k k on an existing key: OK, nothing changes -/
theorem rename_same_key (s : MState) (now : Int) (k : Bytes) (v : Val) (hl : live s now k = some v) :
    (Api.rename s now k k).2 = .err false ∧ ∀ k', lookup (Api.rename s now k k).1 now k' = lookup s now k' :=
  rename_same s now k v hl

/-- RENAMENX: destination exists ⇒ error reply (Redis: integer 0), nothing changes; source
    missing ⇒ error, nothing changes; otherwise the source is gone and the destination holds the
    source's value and deadline, every other record untouched -/
theorem renameNX_spec (s : MState) (now : Int) (src dst : Bytes) (hs : IndexSorted s) :
    (∀ vd, live s now dst = some vd →
      (Api.renameNX s now src dst).2 = .err true ∧
      ∀ k, lookup (Api.renameNX s now src dst).1 now k = lookup s now k) ∧
    (live s now dst = none → live s now src = none →
      (Api.renameNX s now src dst).2 = .err true ∧
      ∀ k, lookup (Api.renameNX s now src dst).1 now k = lookup s now k) ∧
    (∀ v, live s now dst = none → live s now src = some v →
      (Api.renameNX s now src dst).2 = .err false ∧
      live (Api.renameNX s now src dst).1 now src = none ∧
      live (Api.renameNX s now src dst).1 now dst = some v ∧
      liveExp (Api.renameNX s now src dst).1 now dst = some ((liveExp s now src).getD 0) ∧
      (∀ k, k ≠ src → k ≠ dst → lookup (Api.renameNX s now src dst).1 now k = lookup s now k) ∧
      IndexSorted (Api.renameNX s now src dst).1) := by
  refine ⟨fun vd hd => renameNX_dst_exists s now src dst vd hd,
    fun hd hl => renameNX_missing s now src dst hd hl, fun v hd hl => ?_⟩
  obtain ⟨h1, h2, h3, h4, h5, h6⟩ := renameNX_ok s now src dst v hs hd hl
  exact ⟨h1, h2, live_of_hot h3, liveExp_of_hot h3 h4, h5, h6⟩

/-- non-vacuity for section 5: a reference keyspace with the keys of `sDemo`, a live source, a
    missing destination -/
example : ∀ k, Keyspace.exists_ [([97], []), ([108], [])] k = (live sDemo 0 k).isSome := by
  intro k
  by_cases h1 : k = [97]
  · subst h1; decide
  · by_cases h2 : k = [108]
    · subst h2; decide
    · have e1 : Keyspace.exists_ [([97], []), ([108], [])] k = false := by
        have a1 : ¬ ([97] : Bytes) = k := fun e => h1 e.symm
        have a2 : ¬ ([108] : Bytes) = k := fun e => h2 e.symm
        simp [Keyspace.exists_, Keyspace.get, a1, a2]
      have e2 : live sDemo 0 k = none := by
        have a1 : ¬ ([97] : Bytes) = k := fun e => h1 e.symm
        have a2 : ¬ ([108] : Bytes) = k := fun e => h2 e.symm
        simp [live, Store.getMeta, sDemo, AList.get?, a1, a2]
      rw [e1, e2]; rfl
example : live sDemo 0 [97] = some (.str [120, 0, 255]) ∧ live sDemo 0 [122] = none ∧ ([97] : Bytes) ≠ [122] := by
  decide

/-! ## 6. `IndexSorted` is an invariant -/

theorem sorted_initial : IndexSorted ({} : MState) := trivial

theorem sorted_invariant (s : MState) (now : Int) (k : Bytes) (hs : IndexSorted s)
    (v : Bytes) (keep : Bool) (d : Int) (neg x : Bool) (ks : List Bytes) (kvs : List (Bytes × Bytes)) :
    IndexSorted (Api.set s now k v keep).1 ∧ IndexSorted (Api.getSet s now k v).1 ∧
    IndexSorted (Api.setEX s now k v d).1 ∧ IndexSorted (Api.setPX s now k v d).1 ∧
    IndexSorted (Api.setNX s now k v keep).1 ∧ IndexSorted (Api.setXX s now k v keep).1 ∧
    IndexSorted (Api.addInt s now k d neg).1 ∧ IndexSorted (Api.setBit s now k d x).1 ∧
    IndexSorted (Api.append s now k v).1 ∧ IndexSorted (Api.setRange s now k d v).1 ∧
    IndexSorted (Api.mset s now (flat kvs)).1 ∧
    IndexSorted (Api.get s now k).1 ∧ IndexSorted (Api.exists_ s now ks).1 := by
  refine ⟨set_sorted s now k v keep hs, getSet_sorted s now k v hs, setEX_sorted s now k v d hs,
    setPX_sorted s now k v d hs, setNX_sorted s now k v keep hs, setXX_sorted s now k v keep hs,
    addInt_sorted s now k d neg false hs, setBit_sorted s now k d x hs, append_sorted s now k v hs,
    setRange_sorted s now k d v hs, ?_, ?_, exists_sorted s now ks hs⟩
  · rw [mset_eq]; exact mset_go_sorted now kvs s hs
  · rw [(get_live s now k).2]; exact readKey_sorted s now k hs

/-! ## 7. A whole command stream of one client refines the reference machine -/

/-
  The property itself: for every sequence of commands issued by one client, every reply and the
  resulting visible keyspace equal those of the Redis semantics over an abstract map key ↦ bytes.

  Reference machine: `Spec.Str.run` (Spec/Str.lean) over `Keyspace`, commands SET GET GETSET SETNX
  MSET APPEND STRLEN SETRANGE GETBIT SETBIT INCRBY DECRBY DEL EXISTS.
  Model: `driverRun` = the driver's loop of Main.lean around the embedded API (`exec`): lock set
  emptied before each call, HANG reported if the call deadlocked on itself, locks released and
  `syncShared` applied after it.
  `Refines s now ks`: the visible keyspace of `s` IS `ks` (∀ k, live s now k = (ks.get k).map .str).
  `Matches`: API result ↔ Redis reply (unit↔OK, nil slice↔nil, bytes↔bulk, int↔integer,
  bool↔0/1, (n, nil error)↔integer, (_, error)↔error reply).
  `SafeRun ks cmds`: every command, at the reference state it is issued in, lies outside the
  finding regions F4/F8/F10 and the negative-offset deviations: SETRANGE with offset ≥ 0, offset+len an int64, growth ≤ 1 GiB, and empty data only
  on an existing key within its length; GETBIT/SETBIT offset ≥ 0; INCRBY/DECRBY delta an int64
  (DECRBY not −2^63). GETRANGE, BITCOUNT, RENAME, SETEX/PSETEX, KEYS, TYPE are not in the
  machine (GETRANGE / BITCOUNT because of F1–F3, F5; the others involve deadlines or non-string
  replies); sections 2–5 cover them per command.
  The clock is the same `now` for the whole stream (the commands of the machine create no
  deadlines; keys of the initial state may carry deadlines in the future of `now`).
-/
theorem stream_refines (s : MState) (now : Int) (ks : Keyspace) (cmds : List Cmd)
    (hc : Clean s) (hs : IndexSorted s) (hR : Refines s now ks) (hsafe : SafeRun ks cmds) :
    MatchesAll (driverRun s now cmds).2 (Spec.Str.run ks cmds).2 ∧
    Refines (driverRun s now cmds).1 now (Spec.Str.run ks cmds).1 ∧
    Clean (driverRun s now cmds).1 ∧ IndexSorted (driverRun s now cmds).1 := by
  obtain ⟨h1, h2, h3⟩ := driverRun_refines now cmds s ks ⟨hc, hs⟩ hR hsafe
  exact ⟨h1, h2, h3.clean, h3.sorted⟩

/-- … in particular from a freshly opened store, on either backend -/
theorem stream_from_fresh (pebble : Bool) (now : Int) (cmds : List Cmd) (hsafe : SafeRun [] cmds) :
    MatchesAll (driverRun { pebble := pebble } now cmds).2 (Spec.Str.run [] cmds).2 ∧
    Refines (driverRun { pebble := pebble } now cmds).1 now (Spec.Str.run [] cmds).1 := by
  have hR : Refines ({ pebble := pebble } : MState) now [] := fun k => rfl
  obtain ⟨h1, h2, _⟩ := stream_refines { pebble := pebble } now [] cmds (clean_initial pebble) trivial hR hsafe
  exact ⟨h1, h2⟩

/-- one step of it: a single command outside the finding regions -/
theorem command_refines (s : MState) (now : Int) (ks : Keyspace) (c : Cmd)
    (hc : Clean s) (hs : IndexSorted s) (hR : Refines s now ks) (hsafe : Safe ks c) :
    Matches (driverStep s now c).2 (Spec.Str.step ks c).2 ∧
    Refines (driverStep s now c).1 now (Spec.Str.step ks c).1 := by
  obtain ⟨h1, h2, _⟩ := driverStep_refines s now ks c ⟨hc, hs⟩ hR hsafe
  exact ⟨h1, h2⟩

/-- what the reference machine answers on a small stream (sanity of Spec/Str.lean itself) -/
example : (Spec.Str.run [] [.set [97] [1, 0, 255], .append [97] [2], .get [97], .setrange [97] 6 [9],
    .setbit [98] 9 true, .getbit [98] 9, .mset [([97], [3]), ([99], [])], .del [[97], [122]],
    .exists_ [[97], [99], [99]], .get [98]]).2 =
    [.ok, .int 4, .bulk [1, 0, 255, 2], .int 7, .int 0, .int 1, .ok, .int 1, .int 2, .bulk [0, 64]] := by decide

/-- non-vacuity: a stream touching binary values, a counter, a missing key, DEL of two names -/
example : SafeRun [] [.set [97] [1, 0, 255], .append [97] [2], .get [97], .setrange [97] 6 [9], .incrby [110] 5,
    .decrby [110] 7, .setbit [98] 9 true, .getbit [98] 9, .mset [([97], [3]), ([99], [])], .del [[97], [122]],
    .exists_ [[97], [99], [99]], .append [122] [], .getset [122] [7], .getset [120] [8]] := by
  refine ⟨trivial, trivial, trivial, ⟨by decide, by decide, by decide, Or.inl (by decide)⟩,
    ?_, ⟨by decide, by decide⟩, ?_, ?_, trivial, trivial, trivial, trivial, trivial, trivial, trivial⟩
  · show inInt64 5 = true; decide
  · show (0 : Int) ≤ 9; decide
  · show (0 : Int) ≤ 9; decide

/-! ## 9. INCRBYFLOAT on decimal float text (work package C)

  `Api.incrByFloat` = ds/str `IncrByFloat`: ParseFloat of the stored text ("0" when empty or missing), IEEE addition,
  FormatFloat(sum,'f',-1,64) stored back. Since Model/FloatDec.lean the text may be any decimal float (fractions,
  exponents, underscores, inf / nan); `.unsupported` remains only for hexadecimal floats and > 800 digits. -/

/-- success: the reply is the exact IEEE sum, GET returns FormatFloat of it -/
theorem incrByFloat_success (s : MState) (now : Int) (k : Bytes) (delta : F64) (h : StringOrMissing s now k) (old : F64)
    (hp : Api.parseFloatText (floatText (strOf (strAt s now k))) = some (some old)) :
    (Api.incrByFloat s now k delta).2 = .many [.f64 (F64.add old delta), .err false] ∧
    (Api.get (Api.incrByFloat s now k delta).1 now k).2 = .bytes (some (FloatDec.formatShortest (F64.add old delta))) := by
  have := incrByFloat_ok s now k delta h
  rw [hp] at this
  obtain ⟨h1, h2, _⟩ := this
  refine ⟨h1, ?_⟩
  rw [get_hot h2 rfl]; rfl

/-- failure (text that is not a float, or a range error such as "1e400") on an existing string: error reply, logical
    keyspace unchanged -/
theorem incrByFloat_failure (s : MState) (now : Int) (k : Bytes) (delta : F64) (v0 : Val) (hs : IndexSorted s)
    (hl : live s now k = some v0) (ht : isStrVal v0 = true)
    (hf : Api.parseFloatText (floatText (strOf v0)) = some none) :
    (Api.incrByFloat s now k delta).2 = .many [.f64 0, .err true] ∧
    logical (Api.incrByFloat s now k delta).1 now = logical s now := by
  have hso : ∀ v1, live s now k = some v1 → isStrVal v1 = true := by
    intro v1 h1; rw [hl] at h1; cases h1; exact ht
  have := incrByFloat_ok s now k delta hso
  have e : strAt s now k = v0 := by unfold strAt; rw [hl]; rfl
  rw [e, hf] at this
  obtain ⟨h1, h2⟩ := this
  refine ⟨h1, ?_⟩
  rw [h2]
  exact logical_ext hs (writeKey_sorted s now k _ hs) (writeKey_live s now k _ v0 hl).2.2

/-- two increments in a row: the second one reads back exactly the double the first one stored (round trip of the
    shortest text; partial in the same sense as `C04.formatShortest_roundtrip_partial`: the first sum is not NaN and
    its text does not come from the 17-digit fallback), so the replies are `old + d1` and `(old + d1) + d2` -/
theorem incrByFloat_twice_partial (s : MState) (now : Int) (k : Bytes) (d1 d2 : F64) (h : StringOrMissing s now k) (old : F64)
    (hp : Api.parseFloatText (floatText (strOf (strAt s now k))) = some (some old))
    (hnan : F64.isNaN (F64.add old d1) = false)
    (hsr : F64.isInf (F64.add old d1) = true ∨ F64.isZero (F64.add old d1) = true ∨
      (FloatDec.searchShortest (F64.add old d1)).isSome = true) :
    (Api.incrByFloat s now k d1).2 = .many [.f64 (F64.add old d1), .err false] ∧
    (Api.incrByFloat (Api.incrByFloat s now k d1).1 now k d2).2 = .many [.f64 (F64.add (F64.add old d1) d2), .err false] := by
  have h0 := incrByFloat_ok s now k d1 h
  rw [hp] at h0
  obtain ⟨h1, h2, _⟩ := h0
  refine ⟨h1, ?_⟩
  have hl := live_of_hot h2
  have hso : StringOrMissing (Api.incrByFloat s now k d1).1 now k := by
    intro v1 hv1; rw [hl] at hv1; cases hv1; rfl
  have hrt := Proofs.FloatDecTrip.formatShortest_roundtrip_partial (F64.add old d1) hnan hsr
  have hne : (FloatDec.formatShortest (F64.add old d1)).isEmpty = false := by
    cases ht : FloatDec.formatShortest (F64.add old d1) with
    | nil =>
      have hnil : FloatDec.parseFloat [] = some none := by decide +kernel
      rw [ht, hnil] at hrt; cases hrt
    | cons _ _ => rfl
  have hat : strAt (Api.incrByFloat s now k d1).1 now k = .str (FloatDec.formatShortest (F64.add old d1)) := by
    unfold strAt; rw [hl]; rfl
  have hp2 : Api.parseFloatText (floatText (strOf (strAt (Api.incrByFloat s now k d1).1 now k))) =
      some (some (F64.add old d1)) := by
    rw [hat]
    show Api.parseFloatText (floatText (some (FloatDec.formatShortest (F64.add old d1)))) = _
    unfold floatText DsStr.bytes
    simp only [Option.getD_some, hne, Bool.false_eq_true, if_false]
    exact hrt
  exact (incrByFloat_success _ now k d2 hso _ hp2).1

/-- non-vacuity: "10.5" under key "f", +0.1 twice: replies 10.6 and 10.7 (as doubles), GET "10.6" after the first -/
example :
    let s0 := (Api.set {} 0 [102] (Bytes.ofString "10.5") false).1
    (match (Api.incrByFloat s0 0 [102] 0x3FB999999999999A).2 with
      | .many [.f64 x, .err false] => x == 0x4025333333333333 | _ => false) = true ∧
    (match (Api.get (Api.incrByFloat s0 0 [102] 0x3FB999999999999A).1 0 [102]).2 with
      | .bytes (some t) => t == Bytes.ofString "10.6" | _ => false) = true ∧
    (match (Api.incrByFloat (Api.incrByFloat s0 0 [102] 0x3FB999999999999A).1 0 [102] 0x3FB999999999999A).2 with
      | .many [.f64 x, .err false] => x == 0x4025666666666666 | _ => false) = true := by decide +kernel

/-- … and a failing text: "1e400" (range error) is answered with an error and left alone -/
example :
    let s0 := (Api.set {} 0 [102] (Bytes.ofString "1e400") false).1
    (match (Api.incrByFloat s0 0 [102] 1).2 with | .many [.f64 0, .err true] => true | _ => false) = true ∧
    (match (Api.get (Api.incrByFloat s0 0 [102] 1).1 0 [102]).2 with
      | .bytes (some t) => t == Bytes.ofString "1e400" | _ => false) = true := by decide +kernel

/-
  UNPROVED / not covered:
  * INCRBYFLOAT: since work package C the model covers decimal float text of any form (section 9: success, failure,
    two increments in a row); outside remain hexadecimal float text and more than 800 significant digits (`.unsupported`),
    and the general round trip depends on the unproved 17-digit sufficiency (C04.formatShortest_roundtrip_partial).
  * RANDOMKEY, DBSIZE, FLUSHDB/FLUSHALL, UNLINK, SET with the GET option: not among the model
    functions listed for C01 (`randomKey` is relational, `Store.clear` is FLUSH); no theorem.
  * The network-protocol half of the property (argument parsing, reply encoding): out of the model
    under proof here.
  * Frame ("other keys untouched") of the one-key writing commands on the in-memory backend is
    false in general states (`set_alias_witness`); it is proved under `Clean` (inside
    `command_refines` / `stream_refines` and `mset_spec`), not for arbitrary states.
  * The stream theorem (section 7) covers 14 commands and only states whose live keys are all
    filled strings; GETRANGE / BITCOUNT / RENAME / RENAMENX / SETEX / PSETEX / KEYS / TYPE / SETXX
    are specified per command (sections 2–5) but are not part of the reference machine.
  * Varying clock along a stream (expiry between commands) is not modelled in section 7.
-/

end NodisVerif.C01
