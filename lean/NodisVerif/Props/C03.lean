import NodisVerif.Model.Api
import NodisVerif.Model.WF
import NodisVerif.Spec.HashSet
import NodisVerif.Proofs.C03
import NodisVerif.Proofs.C03Api
import NodisVerif.Proofs.C03Seq
import NodisVerif.Proofs.C03Refine
import NodisVerif.Proofs.C03Oids
import NodisVerif.Proofs.C03Float
import NodisVerif.Proofs.FloatDecTrip
/-
  C03 — hashes and sets behave as exact maps and mathematical sets.

  Property theorems only; the helper lemmas live in Proofs/AListLemmas2.lean, Proofs/C03.lean
  (data-structure level) and Proofs/C03Api.lean (store / API level). The reference semantics is
  Spec/HashSet.lean: a hash is a lookup function `Bytes → Option Bytes` (`Spec.Map`), a set is a
  characteristic function `Bytes → Bool` (`Spec.BSet`), an enumeration is a repetition-free list
  with the same members (`Spec.Enumerates`), a cardinality is the length of any enumeration.

  Everything is unbounded: every byte string (incl. the empty one) as field / value / member,
  every argument list (incl. repeated arguments), every number of operand sets.
-/
namespace NodisVerif.C03
open Spec
open NodisVerif.Proofs
open NodisVerif.Proofs.C03Api (Hot Absent IndexSorted Classified den invalidChoice)
open NodisVerif.Proofs.C03Seq (HashRel SetRel hmsetDs)
open NodisVerif.Proofs.C03Oids (OidsDistinct StoreInv)
open NodisVerif.Proofs.C03Refine (toReply execHash execSet dsHash dsSet hashFinding setFinding noHashFinding noSetFinding
  runHash runSet runHashT runSetT)

/-! ## A. the btree.Map model (`AList`) is a finite map -/
section A
variable {V : Type}

theorem get?_set_same (m : AList V) (k : Bytes) (v : V) : AList.get? (AList.set m k v) k = some v :=
  AListLemmas2.get?_set_same m k v

theorem get?_set_other (m : AList V) (k : Bytes) (v : V) (x : Bytes) (h : x ≠ k) :
    AList.get? (AList.set m k v) x = AList.get? m x :=
  AListLemmas2.get?_set_other m k v x h

/-- `Set` is the abstract map update -/
theorem set_is_put (m : AList V) (k : Bytes) (v : V) :
    AList.get? (AList.set m k v) = Map.put (AList.get? m) k v := by
  funext x; exact AListLemmas2.get?_set m k v x

theorem get?_erase_same (m : AList V) (hs : AList.Sorted m) (k : Bytes) : AList.get? (AList.erase m k) k = none :=
  AListLemmas2.get?_erase_same m hs k

/-- why `Sorted` is needed for `get?_erase_same`: with a duplicated key `erase` only unlinks the
    first entry (a btree.Map never holds duplicates; `Sorted` excludes them) -/
theorem get?_erase_same_needs_sorted :
    AList.get? (AList.erase ([([1], 10), ([1], 20)] : AList Nat) [1]) [1] = some 20 := by decide

theorem get?_erase_other (m : AList V) (k x : Bytes) (h : x ≠ k) :
    AList.get? (AList.erase m k) x = AList.get? m x :=
  AListLemmas2.get?_erase_other m k x h

/-- `Delete` is the abstract map removal -/
theorem erase_is_del (m : AList V) (hs : AList.Sorted m) (k : Bytes) :
    AList.get? (AList.erase m k) = Map.del (AList.get? m) k := by
  funext x; exact AListLemmas2.get?_erase m hs k x

theorem set_preserves_sorted (m : AList V) (hs : AList.Sorted m) (k : Bytes) (v : V) : AList.Sorted (AList.set m k v) :=
  AListLemmas2.set_preserves_sorted m hs k v

theorem erase_preserves_sorted (m : AList V) (hs : AList.Sorted m) (k : Bytes) : AList.Sorted (AList.erase m k) :=
  AListLemmas2.erase_preserves_sorted m hs k

theorem keys_nodup (m : AList V) (hs : AList.Sorted m) : (AList.keys m).Nodup :=
  AListLemmas2.keys_nodup m hs

/-- the length grows by one exactly when the key was absent, and is unchanged otherwise -/
theorem length_set (m : AList V) (hs : AList.Sorted m) (k : Bytes) (v : V) :
    (AList.set m k v).length = if AList.contains m k then m.length else m.length + 1 :=
  AListLemmas2.length_set m hs k v

theorem length_set_grows_iff (m : AList V) (hs : AList.Sorted m) (k : Bytes) (v : V) :
    (AList.set m k v).length = m.length + 1 ↔ AList.contains m k = false := by
  rw [length_set m hs k v]
  cases AList.contains m k <;> simp

theorem length_erase (m : AList V) (k : Bytes) :
    (AList.erase m k).length = if AList.contains m k then m.length - 1 else m.length :=
  AListLemmas2.length_erase m k

/-- lookup and enumeration agree -/
theorem get?_iff_mem (m : AList V) (hs : AList.Sorted m) (k : Bytes) (v : V) :
    AList.get? m k = some v ↔ (k, v) ∈ m :=
  AListLemmas2.get?_eq_some_iff_mem m hs k v

/-- a sorted association list is determined by its lookup function: the representation carries no
    extra information -/
theorem ext (m₁ m₂ : AList V) (h1 : AList.Sorted m₁) (h2 : AList.Sorted m₂)
    (h : AList.get? m₁ = AList.get? m₂) : m₁ = m₂ :=
  AListLemmas2.ext_of_sorted m₁ m₂ h1 h2 (fun x => congrFun h x)

/-- non-vacuity: a sorted list whose keys include the empty byte string and a prefix pair -/
example : AList.Sorted ([([], 1), ([0], 2), ([0, 0], 3), ([1], 4)] : AList Nat) := by
  simp [AList.Sorted, Bytes.lt]

end A

/-! ## C. sets -/
section C
open DsSet

/-- SADD: the reply is the number of *distinct* listed members that were new (for every
    repetition-free enumeration `d` of them), membership afterwards is the abstract union with the
    listed members, the cardinality grows by the reply -/
theorem sadd_spec (s : S) (hs : AList.Sorted s) (ms : List Bytes) :
    AList.Sorted (sadd s ms).1 ∧
    mem (sadd s ms).1 = BSet.insertAll (mem s) ms ∧
    (∀ d, Enumerates d (listed ms (fun x => !mem s x)) → (sadd s ms).2 = d.length) ∧
    scard (sadd s ms).1 = scard s + (sadd s ms).2 :=
  Proofs.C03.sadd_spec s hs ms

/-- SREM: the reply is the number of distinct listed members that were present -/
theorem srem_spec (s : S) (hs : AList.Sorted s) (ms : List Bytes) :
    AList.Sorted (srem s ms).1 ∧
    mem (srem s ms).1 = BSet.removeAll (mem s) ms ∧
    (∀ d, Enumerates d (listed ms (mem s)) → (srem s ms).2 = d.length) ∧
    scard (srem s ms).1 = scard s - (srem s ms).2 :=
  Proofs.C03.srem_spec s hs ms

/-- a repeated argument counts once (witness for the "distinct" in the two statements above) -/
example : sadd [] [[7], [7], []] = ([([], ()), ([7], ())], 2) := by decide
example : srem [([], ()), ([7], ())] [[7], [7]] = ([([], ())], 1) := by decide

/-- SCARD is the length of SMEMBERS, and SMEMBERS lists each member exactly once -/
theorem scard_exact (s : S) (hs : AList.Sorted s) :
    Enumerates (members s) (mem s) ∧ scard s = (members s).length :=
  ⟨Proofs.C03.members_enumerates s hs, by simp [scard, members, AList.keys]⟩

theorem scard_hasCard (s : S) (hs : AList.Sorted s) : HasCard (mem s) s.length :=
  ⟨members s, Proofs.C03.members_enumerates s hs, by simp [members, AList.keys]⟩

/-- cardinality is well defined: it does not depend on the enumeration -/
theorem card_unique (s : BSet) (n₁ n₂ : Nat) (h1 : HasCard s n₁) (h2 : HasCard s n₂) : n₁ = n₂ :=
  Proofs.C03.hasCard_unique h1 h2

theorem sismember_iff_enumerated (s : S) (x : Bytes) : mem s x = true ↔ x ∈ members s :=
  (Proofs.C03.mem_members_iff s x).symm

theorem sinter_spec (s : S) (others : List S) (x : Bytes) :
    x ∈ sinter s others ↔ mem s x = true ∧ ∀ o ∈ others, mem o x = true :=
  Proofs.C03.mem_sinter s others x

theorem sdiff_spec (s : S) (others : List S) (x : Bytes) :
    x ∈ sdiff s others ↔ mem s x = true ∧ ∀ o ∈ others, mem o x = false :=
  Proofs.C03.mem_sdiff s others x

theorem sunion_spec (s : S) (others : List S) (x : Bytes) :
    x ∈ sunion s others ↔ mem s x = true ∨ ∃ o ∈ others, mem o x = true :=
  Proofs.C03.mem_sunion s others x

theorem sinter_nodup (s : S) (hs : AList.Sorted s) (others : List S) : (sinter s others).Nodup :=
  Proofs.C03.sinter_nodup s hs others

theorem sdiff_nodup (s : S) (hs : AList.Sorted s) (others : List S) : (sdiff s others).Nodup :=
  Proofs.C03.sdiff_nodup s hs others

/-- only the receiver has to be well formed: the other operands are de-duplicated on the fly -/
theorem sunion_nodup (s : S) (hs : AList.Sorted s) (others : List S) : (sunion s others).Nodup :=
  Proofs.C03.sunion_nodup s hs others

/-- the three results enumerate the mathematical intersection / union / difference -/
theorem sinter_enumerates (s : S) (hs : AList.Sorted s) (others : List S) :
    Enumerates (sinter s others) (BSet.interAll (mem s) (others.map mem)) :=
  ⟨sinter_nodup s hs others, fun x => by
    rw [sinter_spec]; simp [BSet.interAll]⟩

theorem sunion_enumerates (s : S) (hs : AList.Sorted s) (others : List S) :
    Enumerates (sunion s others) (BSet.unionAll (mem s) (others.map mem)) :=
  ⟨sunion_nodup s hs others, fun x => by
    rw [sunion_spec]; simp [BSet.unionAll]⟩

theorem sdiff_enumerates (s : S) (hs : AList.Sorted s) (others : List S) :
    Enumerates (sdiff s others) (BSet.diffAll (mem s) (others.map mem)) :=
  ⟨sdiff_nodup s hs others, fun x => by
    rw [sdiff_spec]; simp [BSet.diffAll]⟩

/-- the empty representation is the empty set -/
theorem mem_empty : mem [] = BSet.empty := rfl

/-- two well-formed sets with the same members are the same value -/
theorem set_ext (s₁ s₂ : S) (h1 : AList.Sorted s₁) (h2 : AList.Sorted s₂) (h : mem s₁ = mem s₂) : s₁ = s₂ :=
  Proofs.C03.set_ext s₁ s₂ h1 h2 (fun x => congrFun h x)

/-- binary safety: any byte string, the empty one included, can be a member -/
theorem sadd_binary_safe (s : S) (hs : AList.Sorted s) (m : Bytes) : mem (sadd s [m]).1 m = true := by
  rw [(sadd_spec s hs [m]).2.1]; simp [BSet.insertAll]

example : mem (sadd [] [[]]).1 [] = true := by decide

end C

/-! ## B. hashes -/
section B
open DsHash

/-- HSET: reply 1 iff the field is new; afterwards the map is the abstract update -/
theorem hset_spec (h : H) (hs : AList.Sorted h) (f v : Bytes) :
    (hset h f v).2 = (if hexists h f then 0 else 1) ∧
    hget (hset h f v).1 = Map.put (hget h) f v ∧
    AList.Sorted (hset h f v).1 :=
  ⟨rfl, set_is_put h f v, set_preserves_sorted h hs f v⟩

/-- HDEL: the map afterwards is the abstract removal of every listed field; the reply is the number
    of *distinct* listed fields that were present (a field listed twice is deleted by its first
    occurrence and not found by the second) -/
theorem hdel_spec (h : H) (hs : AList.Sorted h) (ks : List Bytes) :
    AList.Sorted (hdel h ks).1 ∧
    hget (hdel h ks).1 = Map.delAll (hget h) ks ∧
    (∀ d, Enumerates d (listed ks (hexists h)) → (hdel h ks).2 = d.length) ∧
    hlen (hdel h ks).1 = hlen h - (hdel h ks).2 :=
  Proofs.C03.hdel_spec h hs ks

/-- the same count with a concrete enumeration: the fields of `h` that are listed -/
theorem hdel_count (h : H) (hs : AList.Sorted h) (ks : List Bytes) :
    (hdel h ks).2 = ((hkeys h).filter (fun f => decide (f ∈ ks))).length :=
  (hdel_spec h hs ks).2.2.1 _ (Proofs.C03.listed_enum h hs ks)

example : hdel [([1], [5])] [[1], [1], [2]] = ([], 1) := by decide

/-- HLEN is the number of distinct fields = the length of HKEYS -/
theorem hlen_exact (h : H) (hs : AList.Sorted h) :
    Enumerates (hkeys h) (Map.dom (hget h)) ∧ hlen h = (hkeys h).length :=
  ⟨Proofs.C03.keys_enumerates h hs, by simp [hlen, hkeys, AList.keys]⟩

theorem hexists_iff_enumerated (h : H) (f : Bytes) : hexists h f = true ↔ f ∈ hkeys h :=
  (AListLemmas2.mem_keys_iff_contains h f).symm

theorem hgetall_agrees (h : H) (hs : AList.Sorted h) (f v : Bytes) : (f, v) ∈ hgetall h ↔ hget h f = some v :=
  (AListLemmas2.get?_eq_some_iff_mem h hs f v).symm

/-- HGETALL lists every binding of the abstract map, each field once -/
theorem hgetall_enumerates (h : H) (hs : AList.Sorted h) : EnumeratesMap (hgetall h) (hget h) :=
  Proofs.C03.hgetall_enumerates h hs

/-- HKEYS / HVALS are the two projections of HGETALL, in the same order -/
theorem hkeys_hvals (h : H) : hkeys h = (hgetall h).map (·.1) ∧ hvals h = (hgetall h).map (·.2) := ⟨rfl, rfl⟩

/-- binary safety: every field and value, the empty byte strings included -/
theorem hget_binary_safe (h : H) (f v : Bytes) : hget (hset h f v).1 f = some v :=
  AListLemmas2.get?_set_same h f v

example (h : H) : hget (hset h [] []).1 [] = some [] := hget_binary_safe h [] []

/-- HSETNX: no change and `false` if the field exists, otherwise the abstract update and `true` -/
theorem hsetnx_spec (h : H) (hs : AList.Sorted h) (f v : Bytes) :
    (hsetnx h f v).2 = !hexists h f ∧
    hget (hsetnx h f v).1 = (if hexists h f then hget h else Map.put (hget h) f v) ∧
    AList.Sorted (hsetnx h f v).1 := by
  unfold hsetnx hexists
  cases hc : AList.contains h f with
  | true => exact ⟨rfl, rfl, hs⟩
  | false => exact ⟨rfl, set_is_put h f v, set_preserves_sorted h hs f v⟩

/-- HMGET: one answer per requested field, in request order, each the lookup of that field -/
theorem hmget_spec (h : H) (ks : List Bytes) :
    (hmget h ks).length = ks.length ∧ ∀ i (hi : i < ks.length), (hmget h ks)[i]? = some (hget h ks[i]) := by
  refine ⟨by simp [hmget], fun i hi => ?_⟩
  simp [hmget, hget, List.getElem?_eq_getElem hi]

/-- HSTRLEN: the length of the value, 0 for a missing field -/
theorem hstrlen_spec (h : H) (f : Bytes) :
    hstrlen h f = match hget h f with | some v => (v.length : Int) | none => 0 := by
  unfold hstrlen hget
  cases AList.get? h f <;> rfl

/-- HINCRBY, exactly as the model (= the Go code) computes it. NB the sum wraps at int64. -/
theorem hincrby_spec (h : H) (f : Bytes) (delta : Int) :
    (hget h f = none → hincrby h f delta = some (AList.set h f (formatInt delta), delta)) ∧
    (∀ v i, hget h f = some v → parseInt64 v = some i →
      hincrby h f delta = some (AList.set h f (formatInt (wrap64 (i + delta))), wrap64 (i + delta))) ∧
    (∀ v, hget h f = some v → parseInt64 v = none → hincrby h f delta = none) :=
  ⟨Proofs.C03.hincrby_missing h f delta, fun v i => Proofs.C03.hincrby_int h f delta v i,
   fun v => Proofs.C03.hincrby_nonnumeric h f delta v⟩

/-- the state after a successful HINCRBY: only that field changed, it holds the decimal reply -/
theorem hincrby_state (h : H) (hs : AList.Sorted h) (f : Bytes) (delta : Int) (h' : H) (r : Int)
    (e : hincrby h f delta = some (h', r)) :
    hget h' = Map.put (hget h) f (formatInt r) ∧ AList.Sorted h' := by
  unfold hincrby at e
  split at e
  · cases e; exact ⟨set_is_put h f _, set_preserves_sorted h hs f _⟩
  · split at e
    · cases e
    · cases e; exact ⟨set_is_put h f _, set_preserves_sorted h hs f _⟩

/- Full-strength statement against the Redis reference (`Spec.hincr`: an increment that would
   overflow a signed 64 bit integer is an error and changes nothing):

     ∀ h f delta, inInt64 delta → (hincrby h f delta).map (·.2) = Spec.hincr (hget h f) delta

   It is FALSE of the model (and of the Go code, which adds with wrap-around): see
   `hincrby_redis_finding`. Finding region (decidable): `Proofs.C03.hincrOverflow h f delta = true`, i.e. the
   field holds a decimal int64 `i` and `i + delta` is outside int64. -/
theorem hincrby_redis_partial (h : H) (f : Bytes) (delta : Int) (hd : inInt64 delta = true)
    (hreg : Proofs.C03.hincrOverflow h f delta = false) :
    (hincrby h f delta).map (·.2) = Spec.hincr (hget h f) delta ∧
    ∀ h' r, hincrby h f delta = some (h', r) → hget h' = Map.put (hget h) f (formatInt r) :=
  Proofs.C03.hincrby_redis_partial h f delta hd hreg

/-- the ASCII text "9223372036854775807" -/
def int64MaxText : Bytes := [57, 50, 50, 51, 51, 55, 50, 48, 51, 54, 56, 53, 52, 55, 55, 53, 56, 48, 55]

/-- witness inside the region: 9223372036854775807 + 1 is an error in Redis; the model (like the Go
    code) answers -9223372036854775808 -/
theorem hincrby_redis_finding :
    let h : H := [([110], int64MaxText)]
    Proofs.C03.hincrOverflow h [110] 1 = true ∧
    (hincrby h [110] 1).map (·.2) = some (-9223372036854775808) ∧
    Spec.hincr (hget h [110]) 1 = none := by
  have hp : parseInt64 int64MaxText = some 9223372036854775807 := by decide
  refine ⟨?_, ?_, ?_⟩
  · simp [Proofs.C03.hincrOverflow, AList.get?, hp, inInt64, int64Min, int64Max]
  · rw [Proofs.C03.hincrby_int _ [110] 1 _ _ (by simp [AList.get?]) hp]
    simp [wrap64, int64Max]
  · simp [Spec.hincr, hget, AList.get?, hp, inInt64, int64Min, int64Max]

end B

/-! ## D. the API layer on the store

  `Hot s k v now`: the record of `k` is indexed, ok, not expired at `now`, and holds `v` in memory.
  `Absent s k now`: `k` is not indexed, or its record is a deleted marker, or it is expired.
  `IndexSorted s`: the keyspace index is well formed (no duplicate keys). -/
section D
open Store

abbrev HotSet (s : MState) (k : Bytes) (st : AList Unit) (now : Int) : Prop := Hot s k (.set st) now
abbrev HotHash (s : MState) (k : Bytes) (h : AList Bytes) (now : Int) : Prop := Hot s k (.hash h) now

/-- a store with a hot hash `"h"` = {"" ↦ ""}, a hot set `"s"` = {[1], [2]} (deadline 100 > now = 5) and
    an expired set `"x"` (deadline 3); `"m"` is not indexed at all -/
def exampleStore : MState :=
  { index := [ ([104], { exp := 0, value := some (.hash [([], [])]), state := 1 }),
               ([115], { exp := 100, value := some (.set [([1], ()), ([2], ())]), state := 1 }),
               ([120], { exp := 3, value := some (.set [([9], ())]), state := 1 }) ] }

example : HotSet exampleStore [115] [([1], ()), ([2], ())] 5 :=
  ⟨{ exp := 100, value := some (.set [([1], ()), ([2], ())]), state := 1 }, by rfl, by decide, by decide, rfl⟩
example : HotHash exampleStore [104] [([], [])] 5 :=
  ⟨{ exp := 0, value := some (.hash [([], [])]), state := 1 }, by rfl, by decide, by decide, rfl⟩
theorem example_x_absent : Absent exampleStore [120] 5 := by
  intro m hm
  have : Store.getMeta exampleStore [120] =
      some { exp := 3, value := some (.set [([9], ())]), state := 1 } := by rfl
  rw [this] at hm; cases hm; right; decide
theorem example_m_absent : Absent exampleStore [109] 5 := by
  intro m hm
  have : Store.getMeta exampleStore [109] = none := by rfl
  rw [this] at hm; cases hm
example : IndexSorted exampleStore := by
  simp [IndexSorted, exampleStore, AList.Sorted, Bytes.lt]

/-- SPOP is relational: `choice` is what the implementation returned.
    * If it is admissible (only current members, pairwise distinct, exactly min(count, card) of them,
      count 0 meaning 1) the model accepts it (reply = `choice`) and the set afterwards is exactly the old
      one minus `choice`; when that is everything the key ceases to exist.
    * Otherwise the reply is the INVALID-CHOICE marker and the set is unchanged. -/
theorem spop_sound (s : MState) (now : Int) (key : Bytes) (count : Int) (choice : List Bytes) (st : AList Unit)
    (h : HotSet s key st now) (hi : IndexSorted s) (hst : AList.Sorted st) :
    (AdmissibleDistinct (DsSet.mem st) st.length (if count = 0 then 1 else count.toNat) choice →
      (Api.spop s now key count choice).2 = .slist choice ∧
      (choice.length = st.length → getMeta (Api.spop s now key count choice).1 key = none) ∧
      (choice.length ≠ st.length → ∃ st', HotSet (Api.spop s now key count choice).1 key st' now ∧
          AList.Sorted st' ∧ DsSet.mem st' = BSet.removeAll (DsSet.mem st) choice ∧
          st'.length + choice.length = st.length)) ∧
    (¬ AdmissibleDistinct (DsSet.mem st) st.length (if count = 0 then 1 else count.toNat) choice →
      (Api.spop s now key count choice).2 = invalidChoice ∧ HotSet (Api.spop s now key count choice).1 key st now) :=
  C03Api.spop_sound s now key count choice st h hi hst

/-- conversely: whenever SPOP's reply is a member list, that list was admissible -/
theorem spop_reply_admissible (s : MState) (now : Int) (key : Bytes) (count : Int) (choice : List Bytes) (st : AList Unit)
    (h : HotSet s key st now) (hi : IndexSorted s) (hst : AList.Sorted st)
    (hr : (Api.spop s now key count choice).2 = .slist choice) :
    AdmissibleDistinct (DsSet.mem st) st.length (if count = 0 then 1 else count.toNat) choice := by
  apply Classical.byContradiction
  intro hn
  have := ((spop_sound s now key count choice st h hi hst).2 hn).1
  rw [this] at hr
  simp [invalidChoice] at hr

/-- SPOP on a missing key: the empty reply, whatever the choice -/
theorem spop_missing (s : MState) (now : Int) (key : Bytes) (count : Int) (choice : List Bytes)
    (h : Absent s key now) : (Api.spop s now key count choice).2 = .slist [] :=
  C03Api.spop_absent s now key count choice h

/-- SRANDMEMBER: same admissibility (negative count: |count| members, repetitions allowed); the set
    is never changed. `rand.Intn(0)` on an existing-but-empty set panics. -/
theorem srandmember_sound (s : MState) (now : Int) (key : Bytes) (count : Int) (choice : List Bytes) (st : AList Unit)
    (h : HotSet s key st now) :
    HotSet (Api.srandmember s now key count choice).1 key st now ∧
    (0 ≤ count →
      (AdmissibleDistinct (DsSet.mem st) st.length count.toNat choice → (Api.srandmember s now key count choice).2 = .slist choice) ∧
      (¬ AdmissibleDistinct (DsSet.mem st) st.length count.toNat choice → (Api.srandmember s now key count choice).2 = invalidChoice)) ∧
    (count < 0 → st ≠ [] →
      (AdmissibleRepeated (DsSet.mem st) (-count).toNat choice → (Api.srandmember s now key count choice).2 = .slist choice) ∧
      (¬ AdmissibleRepeated (DsSet.mem st) (-count).toNat choice → (Api.srandmember s now key count choice).2 = invalidChoice)) ∧
    (count < 0 → st = [] → (Api.srandmember s now key count choice).2 = .panic) :=
  C03Api.srandmember_sound s now key count choice st h

/-! ### set algebra over keys: a missing key is the empty set

  `Classified s now keys vals`: operand i is missing (`vals[i] = none`) or holds the hot set
  `vals[i] = some st`. `den` maps an operand to the abstract set it denotes: `den none = ∅`. -/

theorem den_missing : den none = BSet.empty := rfl
theorem den_present (st : AList Unit) : den (some st) = DsSet.mem st := rfl

/-- SINTER k0 k1 ... enumerates the mathematical intersection of the denoted sets -/
theorem sinter_api_spec (s : MState) (now : Int) (k0 : Bytes) (ks : List Bytes) (v0 : Option (AList Unit))
    (vs : List (Option (AList Unit))) (h : Classified s now (k0 :: ks) (v0 :: vs))
    (hs : ∀ st, some st ∈ v0 :: vs → AList.Sorted st) :
    ∃ l, (Api.sinter s now (k0 :: ks)).2 = .slist l ∧ Enumerates l (BSet.interAll (den v0) (vs.map den)) :=
  ⟨_, C03Api.sinter_classified s now _ _ h, C03Api.interOf_nodup _ hs, C03Api.mem_interOf v0 vs⟩

/-- SUNION k0 k1 ... enumerates the mathematical union (missing operands contribute nothing) -/
theorem sunion_api_spec (s : MState) (now : Int) (k0 : Bytes) (ks : List Bytes) (v0 : Option (AList Unit))
    (vs : List (Option (AList Unit))) (h : Classified s now (k0 :: ks) (v0 :: vs))
    (hs : ∀ st, some st ∈ v0 :: vs → AList.Sorted st) :
    ∃ l, (Api.sunion s now (k0 :: ks)).2 = .slist l ∧ Enumerates l (BSet.unionAll (den v0) (vs.map den)) :=
  ⟨_, C03Api.sunion_classified s now _ _ h, C03Api.unionOf_nodup _ hs, C03Api.mem_unionOf v0 vs⟩

/-- SDIFF k0 k1 ... enumerates the mathematical difference -/
theorem sdiff_api_spec (s : MState) (now : Int) (k0 : Bytes) (ks : List Bytes) (v0 : Option (AList Unit))
    (vs : List (Option (AList Unit))) (h : Classified s now (k0 :: ks) (v0 :: vs))
    (hs : ∀ st, some st ∈ v0 :: vs → AList.Sorted st) :
    ∃ l, (Api.sdiff s now (k0 :: ks)).2 = .slist l ∧ Enumerates l (BSet.diffAll (den v0) (vs.map den)) :=
  ⟨_, C03Api.sdiff_classified s now _ _ h, C03Api.diffOf_nodup _ hs, C03Api.mem_diffOf v0 vs⟩

/-- SINTER with any missing operand (first, middle or last) is empty -/
theorem missing_key_is_empty_set (s : MState) (now : Int) (keys : List Bytes) (vals : List (Option (AList Unit)))
    (h : Classified s now keys vals) (hm : none ∈ vals) : (Api.sinter s now keys).2 = .slist [] := by
  rw [C03Api.sinter_classified s now keys vals h]
  have : ¬ vals.all Option.isSome = true := by
    intro ha
    have := List.all_eq_true.mp ha none hm
    simp at this
  simp [C03Api.interOf, this]

/-- SUNION / SDIFF skip missing operands: the reply is the one computed from the present sets only -/
theorem sunion_skips_missing (s : MState) (now : Int) (keys : List Bytes) (vals : List (Option (AList Unit)))
    (h : Classified s now keys vals) :
    (Api.sunion s now keys).2 = .slist (match vals.filterMap id with | [] => [] | st :: rest => DsSet.sunion st rest) :=
  C03Api.sunion_classified s now keys vals h

theorem sdiff_skips_missing (s : MState) (now : Int) (k0 : Bytes) (ks : List Bytes) (st : AList Unit)
    (vs : List (Option (AList Unit))) (h : Classified s now (k0 :: ks) (some st :: vs)) :
    (Api.sdiff s now (k0 :: ks)).2 = .slist (DsSet.sdiff st (vs.filterMap id)) :=
  C03Api.sdiff_classified s now _ _ h

/-- non-vacuity: SINTER s x m / SUNION / SDIFF on the example store, "x" expired, "m" not indexed -/
example : Classified exampleStore 5 [[115], [120], [109]] [some [([1], ()), ([2], ())], none, none] :=
  ⟨⟨{ exp := 100, value := some (.set [([1], ()), ([2], ())]), state := 1 }, by rfl, by decide, by decide, rfl⟩,
   example_x_absent, example_m_absent, trivial⟩

/-! ### a collection that becomes empty ceases to exist -/

/-- SREM: reply = the data-structure reply (see `srem_spec`); removing every member unlinks the
    key, otherwise the key holds the reduced set -/
theorem srem_api_spec (s : MState) (now : Int) (key : Bytes) (members : List Bytes) (st : AList Unit)
    (h : HotSet s key st now) (hi : IndexSorted s) (hst : AList.Sorted st) :
    (Api.srem s now key members).2 = .int (DsSet.srem st members).2 ∧
    ((∀ x, DsSet.mem st x = true → x ∈ members) → getMeta (Api.srem s now key members).1 key = none) ∧
    ((∃ x, DsSet.mem st x = true ∧ x ∉ members) →
      HotSet (Api.srem s now key members).1 key (DsSet.srem st members).1 now) :=
  C03Api.srem_api s now key members st h hi hst

theorem hdel_api_spec (s : MState) (now : Int) (key : Bytes) (fields : List Bytes) (hh : AList Bytes)
    (h : HotHash s key hh now) (hi : IndexSorted s) (hst : AList.Sorted hh) :
    (Api.hdel s now key fields).2 = .int (DsHash.hdel hh fields).2 ∧
    ((∀ x, DsHash.hexists hh x = true → x ∈ fields) → getMeta (Api.hdel s now key fields).1 key = none) ∧
    ((∃ x, DsHash.hexists hh x = true ∧ x ∉ fields) →
      HotHash (Api.hdel s now key fields).1 key (DsHash.hdel hh fields).1 now) :=
  C03Api.hdel_api s now key fields hh h hi hst

theorem empty_ceases_srem (s : MState) (now : Int) (key : Bytes) (members : List Bytes) (st : AList Unit)
    (h : HotSet s key st now) (hi : IndexSorted s) (hst : AList.Sorted st)
    (hall : ∀ x, DsSet.mem st x = true → x ∈ members) : getMeta (Api.srem s now key members).1 key = none :=
  (srem_api_spec s now key members st h hi hst).2.1 hall

theorem empty_ceases_hdel (s : MState) (now : Int) (key : Bytes) (fields : List Bytes) (hh : AList Bytes)
    (h : HotHash s key hh now) (hi : IndexSorted s) (hst : AList.Sorted hh)
    (hall : ∀ x, DsHash.hexists hh x = true → x ∈ fields) : getMeta (Api.hdel s now key fields).1 key = none :=
  (hdel_api_spec s now key fields hh h hi hst).2.1 hall

/-- SPOP that takes every member (count ≥ card) -/
theorem empty_ceases_spop (s : MState) (now : Int) (key : Bytes) (count : Int) (choice : List Bytes) (st : AList Unit)
    (h : HotSet s key st now) (hi : IndexSorted s) (hst : AList.Sorted st)
    (hr : (Api.spop s now key count choice).2 = .slist choice) (hall : choice.length = st.length) :
    getMeta (Api.spop s now key count choice).1 key = none :=
  ((spop_sound s now key count choice st h hi hst).1 (spop_reply_admissible s now key count choice st h hi hst hr)).2.1 hall

/-- SMOVE of the only member to another key that is missing or holds a set: the source ceases to exist.
    (SMOVE now checks the destination's type before the member leaves the source. Before that repair
    the conclusion held whatever the destination held — the source was emptied and unlinked, and the
    member then lost, when the call failed on a wrong-typed destination. That case is now
    `smove_wrong_type_destination`: the call fails first and nothing changes.) -/
theorem empty_ceases_smove (s : MState) (now : Int) (src dst member : Bytes) (st : AList Unit)
    (h : HotSet s src st now) (hi : IndexSorted s) (hne : src ≠ dst)
    (hd : Absent s dst now ∨ ∃ d, HotSet s dst d now) (hst : AList.Sorted st)
    (hmem : DsSet.mem st member = true) (hlast : ∀ x, DsSet.mem st x = true → x = member) :
    getMeta (Api.smove s now src dst member).1 src = none :=
  C03Seq.smove_src_gone s now src dst member st h hi hne hd hst hmem hlast

/-- non-vacuity of the destination hypotheses: "m" is missing, "s" holds a set, "h" holds a hash -/
example : Absent exampleStore [109] 5 ∨ ∃ d, HotSet exampleStore [109] d 5 := Or.inl example_m_absent
example : Absent exampleStore [115] 5 ∨ ∃ d, HotSet exampleStore [115] d 5 :=
  Or.inr ⟨_, { exp := 100, value := some (.set [([1], ()), ([2], ())]), state := 1 }, by rfl, by decide, by decide, rfl⟩
example : ∃ v, Hot exampleStore [104] v 5 ∧ ∀ d, v ≠ .set d :=
  ⟨.hash [([], [])], ⟨{ exp := 0, value := some (.hash [([], [])]), state := 1 }, by rfl, by decide, by decide, rfl⟩,
   fun _ e => by cases e⟩

/-! ### SMOVE: the destination's type is checked before anything moves -/

/-- the source holds a set and the destination exists with another type: the call fails (wrong type),
    whether or not `member` is in the source, and nothing is moved or lost — every key (the source and
    the destination included) is classified exactly as before, and the index stays well formed -/
theorem smove_wrong_type_destination (s : MState) (now : Int) (src dst member : Bytes) (st : AList Unit)
    (h : HotSet s src st now) (hd : ∃ v, Hot s dst v now ∧ ∀ d, v ≠ .set d) :
    (Api.smove s now src dst member).2 = .panic ∧
    (∀ k, Absent s k now → Absent (Api.smove s now src dst member).1 k now) ∧
    (∀ k v, Hot s k v now → Hot (Api.smove s now src dst member).1 k v now) ∧
    (IndexSorted s → IndexSorted (Api.smove s now src dst member).1) :=
  let ⟨a, b, c⟩ := C03Seq.smove_wrong_dst s now src dst member st h hd
  ⟨a, b.1, b.2, c⟩

/-! ### SMOVE: the cases that involve one key only -/

/-- the member is not in the source: the source keeps its set whatever the destination is (no hypothesis
    on it); the reply is false when the destination is missing or a set, and the call fails (wrong type,
    as in Redis) when the destination holds another type -/
theorem smove_not_member (s : MState) (now : Int) (src dst member : Bytes) (st : AList Unit)
    (h : HotSet s src st now) (hm : DsSet.mem st member = false) :
    HotSet (Api.smove s now src dst member).1 src st now ∧
    ((Absent s dst now ∨ ∃ d, HotSet s dst d now) → (Api.smove s now src dst member).2 = .bool false) ∧
    ((∃ v, Hot s dst v now ∧ ∀ d, v ≠ .set d) → (Api.smove s now src dst member).2 = .panic) :=
  C03Seq.smove_not_member s now src dst member st h hm

/-- a missing source is the empty set: reply false -/
theorem smove_missing_source (s : MState) (now : Int) (src dst member : Bytes) (h : Absent s src now) :
    (Api.smove s now src dst member).2 = .bool false :=
  C03Seq.smove_missing_src s now src dst member h

/-- source = destination (the call re-uses the write lock it holds): reply true, the set is unchanged —
    also when the member was the only one (the key is unlinked and re-created within the call) -/
theorem smove_same_key (s : MState) (now : Int) (key member : Bytes) (st : AList Unit)
    (h : HotSet s key st now) (hi : IndexSorted s) (hst : AList.Sorted st) (hm : DsSet.mem st member = true) :
    (Api.smove s now key key member).2 = .bool true ∧ HotSet (Api.smove s now key key member).1 key st now ∧
    IndexSorted (Api.smove s now key key member).1 :=
  C03Seq.smove_same_key s now key member st h hi hst hm

/-! ### SMOVE between two different keys: value objects must not be shared

  `Api.setVal` mutates the value *object* of a key; with the in-memory backend every index record and
  every backend entry carrying the same object identity (`Meta.oid`) sees the new value. "No other key
  changes" therefore holds in stores where no two live records share a value object:

  `OidsDistinct s` (Proofs/C03Oids.lean): two different indexed keys never carry the same non-zero `oid`
  (0 = a private copy decoded from Pebble); every `oid` in the index and in the backend is below
  `s.nextId` (so a newly allocated one is new); an `oid` kept in a backend entry belongs to the key under
  whose name the entry is filed, and entries with one `oid` are filed under one name (so a cold value
  loaded back does not import a foreign identity).
  `StoreInv s` = `IndexSorted s ∧ OidsDistinct s`.

  The invariant holds in the empty store and is kept by SADD, SREM, SPOP (any choice), SMOVE, DEL,
  SINTERSTORE / SUNIONSTORE / SDIFFSTORE, the set reads and the hash writers, on any keys at any time — hot,
  cold or missing, of any type (`storeInv_initial`, `storeInv_preserved`, `storeInv_preserved_reads`,
  `storeInv_preserved_hash`): every store reached from an empty one by those commands satisfies it.
  REMARK: it is *not* claimed — outside these theorems — for RENAME / RENAMENX (the destination takes over the
  source's value object on purpose), for `Store.reopen` (with the in-memory backend the rebuilt records share
  their objects with whatever the backend holds) and for gc / flush (they file backend entries; needs the
  backend-key invariants of C11 / C13). `smove_between_keys_needs_unshared_objects` shows what SMOVE does in
  a store where two records share an object. -/

/-- what the hypothesis says about the index: different keys, different value objects, all below `nextId` -/
theorem oidsDistinct_index (s : MState) (h : OidsDistinct s) :
    (∀ k k' m m', getMeta s k = some m → getMeta s k' = some m' → m.oid = m'.oid → m.oid ≠ 0 → k = k') ∧
    (∀ k m, getMeta s k = some m → m.oid ≠ 0 → m.oid < s.nextId) :=
  ⟨h.idxDistinct, h.idxBound⟩

theorem storeInv_initial : StoreInv ({} : MState) := C03Oids.inv_empty

/-- every set command that writes keeps the invariant, whatever its arguments and whatever the keys hold -/
theorem storeInv_preserved (s : MState) (now : Int) (h : StoreInv s) :
    (∀ key ms, StoreInv (Api.sadd s now key ms).1) ∧
    (∀ key ms, StoreInv (Api.srem s now key ms).1) ∧
    (∀ key count choice, StoreInv (Api.spop s now key count choice).1) ∧
    (∀ src dst m, StoreInv (Api.smove s now src dst m).1) ∧
    (∀ keys, StoreInv (Api.del s now keys).1) ∧
    (∀ dst keys, StoreInv (Api.sstore Api.sinter s now dst keys).1) ∧
    (∀ dst keys, StoreInv (Api.sstore Api.sunion s now dst keys).1) ∧
    (∀ dst keys, StoreInv (Api.sstore Api.sdiff s now dst keys).1) :=
  ⟨fun key ms => C03Oids.inv_sadd s now key ms h, fun key ms => C03Oids.inv_srem s now key ms h,
   fun key count choice => C03Oids.inv_spop s now key count choice h,
   fun src dst m => C03Oids.inv_smove s now src dst m h, fun keys => C03Oids.inv_del s now keys h,
   fun dst keys => C03Oids.inv_sinterstore s now dst keys h, fun dst keys => C03Oids.inv_sunionstore s now dst keys h,
   fun dst keys => C03Oids.inv_sdiffstore s now dst keys h⟩

/-- the reads used by the set algebra keep it too (they count accesses and may load cold values) -/
theorem storeInv_preserved_reads (s : MState) (now : Int) (h : StoreInv s) (keys : List Bytes) :
    StoreInv (Api.sinter s now keys).1 ∧ StoreInv (Api.sunion s now keys).1 ∧ StoreInv (Api.sdiff s now keys).1 :=
  ⟨C03Oids.inv_sinter s now keys h, C03Oids.inv_sunion s now keys h, C03Oids.inv_sdiff s now keys h⟩

/-- every store built from the empty one by SADD commands (each with its own time, key and members) -/
theorem storeInv_sadd_sequences (cmds : List (Int × Bytes × List Bytes)) :
    StoreInv (cmds.foldl (fun s c => (Api.sadd s c.1 c.2.1 c.2.2).1) ({} : MState)) :=
  C03Oids.inv_sadd_sequence cmds {} C03Oids.inv_empty

/-- SMOVE src dst member with src ≠ dst, the source holding the set `st` ∋ member, the destination holding the
    set `d` (`d = []` when the destination is missing), in a store without shared value objects:
    * the reply is true (1);
    * the destination now holds exactly its old members plus `member`;
    * the source holds exactly its old members minus `member`, and ceases to exist when that is nothing;
    * the record of every other key — value, deadline, everything — is what it was;
    * the store invariant is kept. -/
theorem smove_between_keys (s : MState) (now : Int) (src dst member : Bytes) (st d : AList Unit)
    (h : HotSet s src st now) (hi : IndexSorted s) (ho : OidsDistinct s) (hne : src ≠ dst)
    (hd : (Absent s dst now ∧ d = []) ∨ HotSet s dst d now)
    (hst : AList.Sorted st) (hdst : AList.Sorted d) (hmem : DsSet.mem st member = true) :
    (Api.smove s now src dst member).2 = .bool true ∧
    (∃ d', HotSet (Api.smove s now src dst member).1 dst d' now ∧ AList.Sorted d' ∧
      DsSet.mem d' = BSet.insert (DsSet.mem d) member) ∧
    ((∀ x, DsSet.mem st x = true → x = member) → getMeta (Api.smove s now src dst member).1 src = none) ∧
    ((∃ x, DsSet.mem st x = true ∧ x ≠ member) →
      ∃ st', HotSet (Api.smove s now src dst member).1 src st' now ∧ AList.Sorted st' ∧
        DsSet.mem st' = BSet.remove (DsSet.mem st) member) ∧
    (∀ k, k ≠ src → k ≠ dst → getMeta (Api.smove s now src dst member).1 k = getMeta s k) ∧
    IndexSorted (Api.smove s now src dst member).1 ∧ OidsDistinct (Api.smove s now src dst member).1 :=
  C03Oids.smove_between_spec s now src dst member st d h hi ho hne hd hst hdst hmem

/-- in particular every other key is classified as before, with the same value -/
theorem smove_between_keys_others (s : MState) (now : Int) (src dst member : Bytes) (st d : AList Unit)
    (h : HotSet s src st now) (hi : IndexSorted s) (ho : OidsDistinct s) (hne : src ≠ dst)
    (hd : (Absent s dst now ∧ d = []) ∨ HotSet s dst d now)
    (hst : AList.Sorted st) (hdst : AList.Sorted d) (hmem : DsSet.mem st member = true)
    (k : Bytes) (hks : k ≠ src) (hkd : k ≠ dst) :
    (∀ v, Hot s k v now ↔ Hot (Api.smove s now src dst member).1 k v now) ∧
    (Absent s k now ↔ Absent (Api.smove s now src dst member).1 k now) := by
  have e := (smove_between_keys s now src dst member st d h hi ho hne hd hst hdst hmem).2.2.2.2.1 k hks hkd
  exact ⟨fun v => ⟨C03Oids.hot_of_getMeta e, C03Oids.hot_of_getMeta e.symm⟩,
    ⟨C03Oids.absent_of_getMeta e, C03Oids.absent_of_getMeta e.symm⟩⟩

/-- commands on one key and the other keys: in a store without shared value objects every single-key writer of
    this family (whatever its arguments, whatever `key` holds — hot, cold, missing, of another type) leaves the
    record of every other key exactly as it was -/
theorem writers_leave_other_keys (s : MState) (now : Int) (key k : Bytes) (h : StoreInv s) (hk : k ≠ key) :
    (∀ ms, getMeta (Api.sadd s now key ms).1 k = getMeta s k) ∧
    (∀ ms, getMeta (Api.srem s now key ms).1 k = getMeta s k) ∧
    (∀ count choice, getMeta (Api.spop s now key count choice).1 k = getMeta s k) ∧
    (∀ f v, getMeta (Api.hset s now key f v).1 k = getMeta s k) ∧
    (∀ f v, getMeta (Api.hsetnx s now key f v).1 k = getMeta s k) ∧
    (∀ pairs, getMeta (Api.hmset s now key pairs).1 k = getMeta s k) ∧
    (∀ fs, getMeta (Api.hdel s now key fs).1 k = getMeta s k) ∧
    (∀ f delta, getMeta (Api.hincrby s now key f delta).1 k = getMeta s k) :=
  ⟨fun ms => (C03Oids.step_sadd s now key ms h).2 k hk, fun ms => (C03Oids.step_srem s now key ms h).2 k hk,
   fun count choice => (C03Oids.step_spop s now key count choice h).2 k hk,
   fun f v => (C03Oids.step_hset s now key f v h).2 k hk, fun f v => (C03Oids.step_hsetnx s now key f v h).2 k hk,
   fun pairs => (C03Oids.step_hmset s now key pairs h).2 k hk, fun fs => (C03Oids.step_hdel s now key fs h).2 k hk,
   fun f delta => (C03Oids.step_hincrby s now key f delta h).2 k hk⟩

/-- the hash writers keep the invariant too -/
theorem storeInv_preserved_hash (s : MState) (now : Int) (key : Bytes) (h : StoreInv s) :
    (∀ f v, StoreInv (Api.hset s now key f v).1) ∧ (∀ f v, StoreInv (Api.hsetnx s now key f v).1) ∧
    (∀ pairs, StoreInv (Api.hmset s now key pairs).1) ∧ (∀ fs, StoreInv (Api.hdel s now key fs).1) ∧
    (∀ f delta, StoreInv (Api.hincrby s now key f delta).1) :=
  ⟨fun f v => C03Oids.inv_hset s now key f v h, fun f v => C03Oids.inv_hsetnx s now key f v h,
   fun pairs => C03Oids.inv_hmset s now key pairs h, fun fs => C03Oids.inv_hdel s now key fs h,
   fun f delta => C03Oids.inv_hincrby s now key f delta h⟩

/-- the representation relations of section F (`SetRel` / `HashRel`: the store represents a collection under a
    key) only look at the key's own record — so, with `writers_leave_other_keys`, a command on another key in
    between does not disturb a per-key command sequence -/
theorem relations_depend_on_own_record (s s' : MState) (key : Bytes) (now : Int)
    (e : getMeta s' key = getMeta s key) :
    (∀ st, SetRel s key now st → SetRel s' key now st) ∧ (∀ hh, HashRel s key now hh → HashRel s' key now hh) :=
  ⟨fun _ hr => ⟨hr.1, hr.2.imp (fun ⟨a, b⟩ => ⟨a, C03Oids.absent_of_getMeta e b⟩) (fun ⟨a, b⟩ => ⟨a, C03Oids.hot_of_getMeta e b⟩)⟩,
   fun _ hr => ⟨hr.1, hr.2.imp (fun ⟨a, b⟩ => ⟨a, C03Oids.absent_of_getMeta e b⟩) (fun ⟨a, b⟩ => ⟨a, C03Oids.hot_of_getMeta e b⟩)⟩⟩

/-- non-vacuity: "a" = {[1], [2]} and "b" = {[3]} built by two SADD commands on the empty store (times 0 and 7);
    at time 9 SMOVE a b [1] and SMOVE a m [1] ("m" missing) satisfy every hypothesis -/
def twoSets : MState := (Api.sadd (Api.sadd {} 0 [97] [[1], [2]]).1 7 [98] [[3]]).1

example : HotSet twoSets [97] [([1], ()), ([2], ())] 9 := ⟨_, rfl, by decide, by decide, rfl⟩
example : HotSet twoSets [98] [([3], ())] 9 := ⟨_, rfl, by decide, by decide, rfl⟩
theorem twoSets_inv : StoreInv twoSets := storeInv_sadd_sequences [(0, [97], [[1], [2]]), (7, [98], [[3]])]
example : IndexSorted twoSets ∧ OidsDistinct twoSets := twoSets_inv
example : ([97] : Bytes) ≠ [98] := by decide
example : (Absent twoSets [109] 9 ∧ ([] : AList Unit) = []) ∨ HotSet twoSets [109] [] 9 :=
  Or.inl ⟨(fun m hm => by
    have : Store.getMeta twoSets [109] = none := by rfl
    rw [this] at hm; cases hm), rfl⟩
example : AList.Sorted ([([1], ()), ([2], ())] : AList Unit) ∧ AList.Sorted ([([3], ())] : AList Unit) ∧
    DsSet.mem [([1], ()), ([2], ())] [1] = true := by
  simp [AList.Sorted, Bytes.lt, DsSet.mem, AList.contains, AList.get?]
/-- and the conclusion on it, computed: "a" = {[2]}, "b" = {[1], [3]} -/
example : (Api.smove twoSets 9 [97] [98] [1]).2 = .bool true ∧
    valOf (Api.smove twoSets 9 [97] [98] [1]).1 [97] = some (.set [([2], ())]) ∧
    valOf (Api.smove twoSets 9 [97] [98] [1]).1 [98] = some (.set [([1], ()), ([3], ())]) :=
  ⟨by rfl, by decide, by decide⟩

/-- why the hypothesis is there: a store in which "a" and "c" share one value object (what the doc comment of
    `Api.setVal` says a reopen with the in-memory backend can produce). SMOVE a b [1] takes [1] out of "c" as well. -/
def sharedStore : MState :=
  { index := [ ([97], { exp := 0, value := some (.set [([1], ()), ([2], ())]), state := 1, oid := 5 }),
               ([99], { exp := 0, value := some (.set [([1], ()), ([2], ())]), state := 1, oid := 5 }) ], nextId := 6 }

theorem smove_between_keys_needs_unshared_objects :
    HotSet sharedStore [97] [([1], ()), ([2], ())] 0 ∧ HotSet sharedStore [99] [([1], ()), ([2], ())] 0 ∧
    Absent sharedStore [98] 0 ∧ IndexSorted sharedStore ∧ ¬ OidsDistinct sharedStore ∧
    valOf (Api.smove sharedStore 0 [97] [98] [1]).1 [99] = some (.set [([2], ())]) := by
  refine ⟨⟨_, rfl, by decide, by decide, rfl⟩, ⟨_, rfl, by decide, by decide, rfl⟩, ?_, ?_, ?_, by decide⟩
  · intro m hm
    have : Store.getMeta sharedStore [98] = none := by rfl
    rw [this] at hm; cases hm
  · simp [IndexSorted, sharedStore, AList.Sorted, Bytes.lt]
  · intro h
    have := h.idxDistinct [97] [99] _ _ rfl rfl rfl (by decide)
    exact absurd this (by decide)

end D


/-! ## E. S*STORE: compute, replace the destination

  The destination may be missing or hold a value of any type; it may also be one of the operands.
  Afterwards it holds exactly the computed set, or does not exist if that set is empty; the reply is
  the cardinality. -/
section E
open Store

theorem sinterstore_spec (s : MState) (now : Int) (dst k0 : Bytes) (ks : List Bytes) (v0 : Option (AList Unit))
    (vs : List (Option (AList Unit))) (h : Classified s now (k0 :: ks) (v0 :: vs))
    (hs : ∀ st, some st ∈ v0 :: vs → AList.Sorted st) (hi : IndexSorted s)
    (hd : Absent s dst now ∨ ∃ v, Hot s dst v now) :
    ∃ n, HasCard (BSet.interAll (den v0) (vs.map den)) n ∧
      (Api.sstore Api.sinter s now dst (k0 :: ks)).2 = .int n ∧
      (n = 0 → Absent (Api.sstore Api.sinter s now dst (k0 :: ks)).1 dst now) ∧
      (n ≠ 0 → ∃ st', HotSet (Api.sstore Api.sinter s now dst (k0 :: ks)).1 dst st' now ∧ AList.Sorted st' ∧
          DsSet.mem st' = BSet.interAll (den v0) (vs.map den)) := by
  obtain ⟨l, ho, hl⟩ := sinter_api_spec s now k0 ks v0 vs h hs
  obtain ⟨a, _, c, d⟩ := C03Seq.sstore_enumerated Api.sinter s now dst (k0 :: ks) (by simp) l _ hl ho
    (C03Seq.good_sinter s now _) hi hd
  exact ⟨l.length, ⟨l, hl, rfl⟩, a, fun h0 => c (List.length_eq_zero_iff.mp h0),
    fun h0 => d (fun e => h0 (by rw [e]; rfl))⟩

theorem sunionstore_spec (s : MState) (now : Int) (dst k0 : Bytes) (ks : List Bytes) (v0 : Option (AList Unit))
    (vs : List (Option (AList Unit))) (h : Classified s now (k0 :: ks) (v0 :: vs))
    (hs : ∀ st, some st ∈ v0 :: vs → AList.Sorted st) (hi : IndexSorted s)
    (hd : Absent s dst now ∨ ∃ v, Hot s dst v now) :
    ∃ n, HasCard (BSet.unionAll (den v0) (vs.map den)) n ∧
      (Api.sstore Api.sunion s now dst (k0 :: ks)).2 = .int n ∧
      (n = 0 → Absent (Api.sstore Api.sunion s now dst (k0 :: ks)).1 dst now) ∧
      (n ≠ 0 → ∃ st', HotSet (Api.sstore Api.sunion s now dst (k0 :: ks)).1 dst st' now ∧ AList.Sorted st' ∧
          DsSet.mem st' = BSet.unionAll (den v0) (vs.map den)) := by
  obtain ⟨l, ho, hl⟩ := sunion_api_spec s now k0 ks v0 vs h hs
  obtain ⟨a, _, c, d⟩ := C03Seq.sstore_enumerated Api.sunion s now dst (k0 :: ks) (by simp) l _ hl ho
    (C03Seq.good_sunion s now _) hi hd
  exact ⟨l.length, ⟨l, hl, rfl⟩, a, fun h0 => c (List.length_eq_zero_iff.mp h0),
    fun h0 => d (fun e => h0 (by rw [e]; rfl))⟩

theorem sdiffstore_spec (s : MState) (now : Int) (dst k0 : Bytes) (ks : List Bytes) (v0 : Option (AList Unit))
    (vs : List (Option (AList Unit))) (h : Classified s now (k0 :: ks) (v0 :: vs))
    (hs : ∀ st, some st ∈ v0 :: vs → AList.Sorted st) (hi : IndexSorted s)
    (hd : Absent s dst now ∨ ∃ v, Hot s dst v now) :
    ∃ n, HasCard (BSet.diffAll (den v0) (vs.map den)) n ∧
      (Api.sstore Api.sdiff s now dst (k0 :: ks)).2 = .int n ∧
      (n = 0 → Absent (Api.sstore Api.sdiff s now dst (k0 :: ks)).1 dst now) ∧
      (n ≠ 0 → ∃ st', HotSet (Api.sstore Api.sdiff s now dst (k0 :: ks)).1 dst st' now ∧ AList.Sorted st' ∧
          DsSet.mem st' = BSet.diffAll (den v0) (vs.map den)) := by
  obtain ⟨l, ho, hl⟩ := sdiff_api_spec s now k0 ks v0 vs h hs
  obtain ⟨a, _, c, d⟩ := C03Seq.sstore_enumerated Api.sdiff s now dst (k0 :: ks) (by simp) l _ hl ho
    (C03Seq.good_sdiff s now _) hi hd
  exact ⟨l.length, ⟨l, hl, rfl⟩, a, fun h0 => c (List.length_eq_zero_iff.mp h0),
    fun h0 => d (fun e => h0 (by rw [e]; rfl))⟩

end E

/-! ## F. every sequence of commands on one key refines the reference semantics

  `HashRel s key now h` / `SetRel s key now st`: the store represents the well-formed collection
  under `key` — the key is missing (not indexed, deleted, or expired) exactly when the collection is
  empty, otherwise it holds it in memory. `toReply` reads an API result as a reply of
  Spec/HashSet.lean. `execHash` / `execSet` dispatch a `Spec.HashCmd` / `Spec.SetCmd` to the API
  method; for sets every command carries the implementation's random `choice` (used by SPOP and
  SRANDMEMBER only).

  Full-strength statement (hashes; sets alike):

    ∀ cmds, HashRel s key now h → IndexSorted s →
      ∃ rs h', replies = rs ∧ HashRel s' key now h' ∧ Spec.HashRun (hget h) cmds rs (hget h')

  It is FALSE of the model, and of the Go code's embedded API, on the decidable finding regions
  `hashFinding` / `setFinding` (witnesses below):
    * HMGET f1.. on a missing key answers [] instead of one nil per field  (`hmget_missing_key_finding`;
      the RESP handler compensates, handler.go:1570);
    * HINCRBY wraps at int64 instead of failing                              (`hincrby_redis_finding`);
    * HMSET / SADD with an empty argument list on a missing key leave an existing-but-empty
      collection, on which SRANDMEMBER with a negative count then panics     (`*_creates_empty_key_finding`;
      unreachable over RESP: the handlers enforce the arity);
    * SPOP with a negative count answers [] instead of an error              (`spop_negative_count_finding`).
  Outside the regions the statement is proved, for command sequences of any length. -/
section F
open Store

/-- one hash command -/
theorem hash_command_refines_partial (s : MState) (now : Int) (key : Bytes) (h : AList Bytes) (c : HashCmd)
    (hr : HashRel s key now h) (hi : IndexSorted s) (hreg : hashFinding h c = false) :
    ∃ r, HashRel (execHash s now key c).1 key now (dsHash h c) ∧ IndexSorted (execHash s now key c).1 ∧
      toReply (execHash s now key c).2 = some r ∧ hashStep (DsHash.hget h) c r (DsHash.hget (dsHash h c)) :=
  C03Refine.hash_step_refines s now key h c hr hi hreg

/-- every sequence of hash commands, each at its own time, on a key that is missing or carries no
    deadline (`∀ t, HashRel s key t h`) -/
theorem hash_sequences_refine_partial (key : Bytes) (tcs : List (Int × HashCmd)) (s : MState) (h : AList Bytes)
    (hr : ∀ t, HashRel s key t h) (hi : IndexSorted s) (hreg : noHashFinding h (tcs.map (·.2)) = true) :
    ∃ rs, (∀ t, HashRel (runHashT key s tcs).1 key t ((tcs.map (·.2)).foldl dsHash h)) ∧
      IndexSorted (runHashT key s tcs).1 ∧
      (runHashT key s tcs).2.map toReply = rs.map some ∧
      HashRun (DsHash.hget h) (tcs.map (·.2)) rs (DsHash.hget ((tcs.map (·.2)).foldl dsHash h)) :=
  C03Refine.hash_sequence_refines_timed key tcs s h hr hi hreg

/-- the same for a key that may carry a deadline, all commands at one time `now` before it -/
theorem hash_sequences_refine_fixed_time_partial (now : Int) (key : Bytes) (cs : List HashCmd) (s : MState)
    (h : AList Bytes) (hr : HashRel s key now h) (hi : IndexSorted s) (hreg : noHashFinding h cs = true) :
    ∃ rs, HashRel (runHash now key s cs).1 key now (cs.foldl dsHash h) ∧
      IndexSorted (runHash now key s cs).1 ∧
      (runHash now key s cs).2.map toReply = rs.map some ∧
      HashRun (DsHash.hget h) cs rs (DsHash.hget (cs.foldl dsHash h)) :=
  C03Refine.hash_sequence_refines now key cs s h hr hi hreg

/-- one set command; an INVALID-CHOICE marker means the proposed random choice was not admissible
    (the state is then unchanged, see `spop_sound`) -/
theorem set_command_refines_partial (s : MState) (now : Int) (key : Bytes) (st : AList Unit) (c : SetCmd)
    (choice : List Bytes) (hr : SetRel s key now st) (hi : IndexSorted s) (hreg : setFinding st c = false) :
    SetRel (execSet s now key (c, choice)).1 key now (dsSet st (c, choice)) ∧
    IndexSorted (execSet s now key (c, choice)).1 ∧
    ((execSet s now key (c, choice)).2 ≠ invalidChoice →
      ∃ r, toReply (execSet s now key (c, choice)).2 = some r ∧
        setStep (DsSet.mem st) c r (DsSet.mem (dsSet st (c, choice)))) :=
  C03Refine.set_step_refines s now key st c choice hr hi hreg

theorem set_sequences_refine_partial (key : Bytes) (tcs : List (Int × SetCmd × List Bytes)) (s : MState)
    (st : AList Unit) (hr : ∀ t, SetRel s key t st) (hi : IndexSorted s)
    (hreg : noSetFinding st (tcs.map (·.2)) = true)
    (hacc : ∀ o ∈ (runSetT key s tcs).2, o ≠ invalidChoice) :
    ∃ rs, (∀ t, SetRel (runSetT key s tcs).1 key t ((tcs.map (·.2)).foldl dsSet st)) ∧
      IndexSorted (runSetT key s tcs).1 ∧
      (runSetT key s tcs).2.map toReply = rs.map some ∧
      SetRun (DsSet.mem st) (tcs.map (·.2.1)) rs (DsSet.mem ((tcs.map (·.2)).foldl dsSet st)) :=
  C03Refine.set_sequence_refines_timed key tcs s st hr hi hreg hacc

theorem set_sequences_refine_fixed_time_partial (now : Int) (key : Bytes) (cs : List (SetCmd × List Bytes))
    (s : MState) (st : AList Unit) (hr : SetRel s key now st) (hi : IndexSorted s)
    (hreg : noSetFinding st cs = true) (hacc : ∀ o ∈ (runSet now key s cs).2, o ≠ invalidChoice) :
    ∃ rs, SetRel (runSet now key s cs).1 key now (cs.foldl dsSet st) ∧
      IndexSorted (runSet now key s cs).1 ∧
      (runSet now key s cs).2.map toReply = rs.map some ∧
      SetRun (DsSet.mem st) (cs.map (·.1)) rs (DsSet.mem (cs.foldl dsSet st)) :=
  C03Refine.set_sequence_refines now key cs s st hr hi hreg hacc

/-- HMSET at the data-structure level (the API inlines it): abstract update pair by pair, the count is
    the number of distinct new fields -/
theorem hmset_spec (h : AList Bytes) (hs : AList.Sorted h) (pairs : List (Bytes × Bytes)) :
    AList.Sorted (hmsetDs h pairs).1 ∧
    DsHash.hget (hmsetDs h pairs).1 = pairs.foldl (fun m p => Map.put m p.1 p.2) (DsHash.hget h) ∧
    (∀ d, Enumerates d (listed (pairs.map (·.1)) (fun x => !DsHash.hexists h x)) → (hmsetDs h pairs).2 = d.length) :=
  C03Seq.hmsetDs_spec h hs pairs

/-! non-vacuity: a fresh store represents the empty hash / set under every key at every time; the
    example store represents its hash; a sequence outside the regions -/
example (key : Bytes) : ∀ t, HashRel ({} : MState) key t [] := fun _ =>
  ⟨trivial, Or.inl ⟨rfl, fun m hm => by simp [Store.getMeta, AList.get?] at hm⟩⟩
example (key : Bytes) : ∀ t, SetRel ({} : MState) key t [] := fun _ =>
  ⟨trivial, Or.inl ⟨rfl, fun m hm => by simp [Store.getMeta, AList.get?] at hm⟩⟩
example : ∀ t, HashRel exampleStore [104] t [([], [])] := fun _ =>
  ⟨trivial, Or.inr ⟨by simp, { exp := 0, value := some (.hash [([], [])]), state := 1 }, by rfl, by decide,
    by simp [Meta.expired], rfl⟩⟩
example : IndexSorted ({} : MState) := trivial
example : noHashFinding [] [.hset [] [], .hincrby [1] 5, .hmget [[], [1]], .hdel [[], [1], []], .hlen] = true := by decide
example : noSetFinding [] [(.sadd [[], [7]], []), (.spop 0, [[7]]), (.srandmember (-3), [[], [], []]), (.srem [[]], [])] = true := by
  decide

/-! ### witnesses inside the finding regions -/

theorem hmget_missing_key_finding :
    hashFinding [] (.hmget [[1]]) = true ∧ HashRel ({} : MState) [104] 0 [] ∧
    toReply (execHash ({} : MState) 0 [104] (.hmget [[1]])).2 = some (.bulks []) ∧
    ¬ hashStep (DsHash.hget []) (.hmget [[1]]) (.bulks []) (DsHash.hget []) := by
  refine ⟨rfl, ⟨trivial, Or.inl ⟨rfl, fun m hm => by simp [Store.getMeta, AList.get?] at hm⟩⟩, rfl, ?_⟩
  intro h
  simp [hashStep] at h

/-- SADD with no member on a missing key: the key now exists and holds the empty set; SRANDMEMBER
    with a negative count on it panics (`rand.Intn(0)`) -/
theorem sadd_no_member_creates_empty_key_finding (s : MState) (now : Int) (key : Bytes)
    (h : Absent s key now) (hi : IndexSorted s) :
    setFinding [] (.sadd []) = true ∧
    HotSet (Api.sadd s now key []).1 key [] now ∧
    (Api.srandmember (Api.sadd s now key []).1 now key (-1) []).2 = .panic := by
  obtain ⟨_, hot, _, _⟩ := C03Seq.sadd_rel s now key [] [] ⟨trivial, Or.inl ⟨rfl, h⟩⟩ hi
  have hot' : HotSet (Api.sadd s now key []).1 key [] now := hot
  exact ⟨rfl, hot', (srandmember_sound _ now key (-1) [] [] hot').2.2.2 (by decide) rfl⟩

theorem hmset_no_pair_creates_empty_key_finding (s : MState) (now : Int) (key : Bytes)
    (h : Absent s key now) (hi : IndexSorted s) :
    hashFinding [] (.hmset []) = true ∧ HotHash (Api.hmset s now key []).1 key [] now := by
  obtain ⟨_, hot, _⟩ := C03Seq.hmset_hot s now key [] [] ⟨trivial, Or.inl ⟨rfl, h⟩⟩ hi
  exact ⟨rfl, hot⟩

/-- SPOP with a negative count on an existing set: Redis answers an error, the model (like the Go
    code, ds/set/set.go:121) the empty list -/
theorem spop_negative_count_finding (s : MState) (now : Int) (key : Bytes) (st : AList Unit)
    (h : HotSet s key st now) (hi : IndexSorted s) (hst : AList.Sorted st) :
    setFinding st (.spop (-1)) = true ∧
    toReply (Api.spop s now key (-1) []).2 = some (.strs []) ∧
    ¬ setStep (DsSet.mem st) (.spop (-1)) (.strs []) (DsSet.mem st) := by
  have hadm : AdmissibleDistinct (DsSet.mem st) st.length (if (-1 : Int) = 0 then 1 else (-1 : Int).toNat) [] := by
    unfold AdmissibleDistinct
    exact ⟨fun x hx => by simp at hx, List.nodup_nil, by simp⟩
  have := ((spop_sound s now key (-1) [] st h hi hst).1 hadm).1
  refine ⟨rfl, by rw [this]; rfl, ?_⟩
  intro hs
  simp [setStep] at hs

end F

/-! ## HINCRBYFLOAT on decimal float text (work package C)

  `Api.hincrbyfloat` = ds/hash `HIncrByFloat`: a missing field is set to FormatFloat(delta,'f',-1,64); otherwise
  ParseFloat of the field's text, IEEE addition, FormatFloat of the sum. Since Model/FloatDec.lean the text may be any
  decimal float; `.unsupported` remains only for hexadecimal float text and more than 800 significant digits. -/
section hfloat
open NodisVerif.Proofs.C03Seq (hfloatStep)
open Store

/-- on the content: what the step does, case by case -/
theorem hincrbyfloat_spec (h : DsHash.H) (f : Bytes) (delta : F64) :
    (DsHash.hget h f = none →
      hfloatStep h f delta = some (some ((DsHash.hset h f (FloatDec.formatShortest delta)).1, delta))) ∧
    (∀ v o, DsHash.hget h f = some v → Api.parseFloatText v = some (some o) →
      hfloatStep h f delta =
        some (some ((DsHash.hset h f (FloatDec.formatShortest (F64.add o delta))).1, F64.add o delta))) ∧
    (∀ v, DsHash.hget h f = some v → Api.parseFloatText v = some none → hfloatStep h f delta = some none) := by
  refine ⟨fun hg => ?_, fun v o hg hp => ?_, fun v hg hp => ?_⟩ <;> unfold hfloatStep <;> simp only [hg] <;> simp only [hp]

/-- against the store: reply, new content (the representation relation of section F is kept), index order -/
theorem hincrbyfloat_rel (s : MState) (now : Int) (key f : Bytes) (delta : F64) (h : AList Bytes)
    (hr : HashRel s key now h) (hi : IndexSorted s) :
    (Api.hincrbyfloat s now key f delta).2 =
      (match hfloatStep h f delta with
       | none => .unsupported
       | some none => .many [.f64 0, .err true]
       | some (some (_, v)) => .many [.f64 v, .err false]) ∧
    HashRel (Api.hincrbyfloat s now key f delta).1 key now
      (match hfloatStep h f delta with | some (some (h', _)) => h' | _ => h) ∧
    IndexSorted (Api.hincrbyfloat s now key f delta).1 :=
  Proofs.C03Seq.hincrbyfloat_rel s now key f delta h hr hi

/-- two increments in a row read back what was stored (partial in the sense of `C04.formatShortest_roundtrip_partial`):
    after `HINCRBYFLOAT k f d1` stored the text of a sum x (not NaN, not from the 17-digit fallback), the next step
    computes x + d2 -/
theorem hincrbyfloat_reads_back_partial (h : DsHash.H) (f : Bytes) (x d2 : F64)
    (hg : DsHash.hget h f = some (FloatDec.formatShortest x)) (hnan : F64.isNaN x = false)
    (hsr : F64.isInf x = true ∨ F64.isZero x = true ∨ (FloatDec.searchShortest x).isSome = true) :
    hfloatStep h f d2 = some (some ((DsHash.hset h f (FloatDec.formatShortest (F64.add x d2))).1, F64.add x d2)) :=
  (hincrbyfloat_spec h f d2).2.1 _ x hg (Proofs.FloatDecTrip.formatShortest_roundtrip_partial x hnan hsr)

/-- non-vacuity: field "f" holds "10.5"; +0.1 gives 10.6 with text "10.6"; a field holding "1e400" is an error;
    on a missing field the increment 0.1 itself is stored as "0.1" -/
example :
    hfloatStep [([102], Bytes.ofString "10.5")] [102] 0x3FB999999999999A =
      some (some ([([102], Bytes.ofString "10.6")], 0x4025333333333333)) ∧
    hfloatStep [([102], Bytes.ofString "1e400")] [102] 1 = some none ∧
    hfloatStep [] [102] 0x3FB999999999999A = some (some ([([102], Bytes.ofString "0.1")], 0x3FB999999999999A)) ∧
    hfloatStep [([102], Bytes.ofString "0x1p3")] [102] 1 = none := Proofs.C03Seq.hfloatStep_examples

end hfloat

/- UNPROVED (not attempted / out of reach in this round):
   * SMOVE between two different keys with the member present is now proved (`smove_between_keys`: destination
     gains the member, source keeps the rest or ceases to exist, reply 1, every other record untouched), under the
     store invariant `OidsDistinct` (no two live records share a value object; Proofs/C03Oids.lean), which holds
     in the empty store and is kept by SADD / SREM / SPOP / SMOVE / DEL / S*STORE (`storeInv_preserved`).
     Still open there: (a) source or destination *cold* (value to be loaded from the backend) — `Hot` does not
     cover it, see the last item (the invariant itself *is* kept on the cold path); (b) the invariant is not
     claimed for RENAME / RENAMENX (they hand the source's value object to the destination on purpose), for
     `Store.reopen` with the in-memory backend, for gc / flush (they file backend entries under the key's own
     name: needs injectivity of `Codec.encodeKey`, Proofs/C10Base.lean, and the backend invariants of C11 / C13)
     and for the string / list / zset writers (not needed for C03). `smove_between_keys_needs_unshared_objects`
     shows SMOVE changing a third key in a store where two records share an object.
   * HINCRBYFLOAT: since work package C covered on decimal float text of any form (`hincrbyfloat_spec`,
     `hincrbyfloat_rel`, `hincrbyfloat_reads_back_partial`); `.unsupported` remains for a field holding hexadecimal
     float text or more than 800 significant digits; the command is not yet part of the sequence machine
     (`execHash`). HSCAN / SSCAN are not in C03's command list.
   * The sequence theorems are per key (one hash key or one set key at a time). Interleavings with commands
     on *other* keys are not stated as sequence theorems; the two ingredients are proved: under `StoreInv` a
     single-key writer leaves every other record as it was (`writers_leave_other_keys`) and keeps `StoreInv`,
     and `SetRel` / `HashRel` read the key's own record only (`relations_depend_on_own_record`). Not covered:
     reads of other keys (they bump the other key's access counter only) and S*STORE / SMOVE in between.
   * Cold keys (value not in memory, to be loaded from the backend) are not covered by `Hot` / `HashRel`:
     that path goes through the codec round trip (property C14) and the backend model. -/

end NodisVerif.C03
