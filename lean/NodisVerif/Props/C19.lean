import NodisVerif.Model.Api
import NodisVerif.Model.WF
import NodisVerif.Spec.Scan
import NodisVerif.Proofs.C19Iter
import NodisVerif.Proofs.C19Pos
import NodisVerif.Proofs.C19Scan
import NodisVerif.Proofs.C19ScanIter
import NodisVerif.Proofs.C19Quiescent
import NodisVerif.Proofs.C19History
import NodisVerif.Proofs.C19Reopen
import NodisVerif.Proofs.C11Examples
/-
  C19 — a full SCAN / SSCAN / HSCAN / ZSCAN iteration returns every element and terminates.

  Property theorems only. Reference notions: Spec/Scan.lean (the client loop `iterate`, `visited`,
  `calls`, `FullIteration run n vs` = "for every patience ≥ n the loop ends after exactly n calls
  and has seen exactly the list vs"). Helper lemmas: Proofs/C19*.lean.

  `Glob.matched` is never unfolded: every theorem holds for the pattern matcher as an arbitrary
  predicate on names.

  Sections
    1. SSCAN / HSCAN / ZSCAN (positional scan + the handler's cursor reply): complete, exact, bounded.
    2. SCAN: what a single call reports exists, is live, matches, has the type.
    3. SCAN: full iteration on a store nobody else touches: complete, exact, ⌈n / count⌉ calls.
    4. SCAN: iteration while keys are added / removed. FINDING: removing a key that sorts before
       the cursor makes the iteration skip a key that was there all the time.
    5. SCAN looks at values only to learn the type of a never-loaded record for a TYPE filter: hot
       or cold, same replies; after a close / reopen `SCAN … TYPE t` reports exactly the keys that
       had a value of type t.
-/
namespace NodisVerif.C19
open NodisVerif.Spec.Scan
open NodisVerif.Proofs.C19Pos (hstep callsNeeded)
open NodisVerif.Proofs.C19Scan (scanStep scanOut ScanFrame view etype)
open NodisVerif.Proofs.C19ScanIter (I63)
open NodisVerif.Proofs.C19Quiescent (Eligible eligibleNames callsScan HotColdVariant Coherent)
open NodisVerif.Proofs.C19History (histStep Stable Mono pos)
open NodisVerif.Proofs

/-! ## 1. SSCAN / HSCAN / ZSCAN -/

/-- The handler-level step (`posScan`, then `scanReply` against the cardinality), iterated from
    cursor 0 over ANY list, with ANY pattern and ANY count (≤ 0 included): ends after exactly
    `callsNeeded n count` calls and the batches, concatenated, are exactly the matching elements
    in order — each matching element once, nothing else. -/
theorem posScan_complete {α : Type} (name : α → Bytes) (xs : List α) (pat : Bytes) (count : Int) :
    FullIteration (iterate (hstep name xs pat count)) (callsNeeded xs.length count)
      (xs.filter fun x => Glob.matched pat (name x)) :=
  C19Pos.posScan_full name xs pat count

/-- the number of calls: 1 for count ≤ 0 or an empty collection … -/
theorem posScan_calls_one (n : Nat) (count : Int) (h : count ≤ 0 ∨ n = 0) : callsNeeded n count = 1 := by
  unfold callsNeeded; rw [if_neg]; omega

/-- … ⌈n / count⌉ otherwise (the least c with n ≤ c · count) … -/
theorem posScan_calls_ceil (n : Nat) (count : Int) (hc : count > 0) (hn : n > 0) :
    n ≤ callsNeeded n count * count.toNat ∧ (callsNeeded n count - 1) * count.toNat < n :=
  C19Pos.callsNeeded_ceil n count hc hn

/-- … and in any case at most n + 1 -/
theorem posScan_calls_bound (n : Nat) (count : Int) : callsNeeded n count ≤ n + 1 :=
  C19Pos.callsNeeded_le n count

/-- one HSCAN command on a hash -/
def hscanStep (h : DsHash.H) (pat : Bytes) (count : Int) (c : Int) : Int × List (Bytes × Bytes) :=
  let r := DsHash.hscan h c pat count
  (scanReply r.1 (DsHash.hlen h), r.2)

theorem hscan_complete (h : DsHash.H) (pat : Bytes) (count : Int) :
    FullIteration (iterate (hscanStep h pat count)) (callsNeeded h.length count)
      (h.filter fun fv => Glob.matched pat fv.1) := by
  have hstep : hscanStep h pat count = hstep (fun fv => fv.1) h pat count := rfl
  rw [hstep]
  exact posScan_complete (fun fv => fv.1) h pat count

/-- on a well-formed hash the visited fields are the distinct matching fields -/
theorem hscan_fields (h : DsHash.H) (hs : AList.Sorted h) (pat : Bytes) :
    ((h.filter fun fv => Glob.matched pat fv.1).map (·.1)).Nodup ∧
    ∀ f, f ∈ (h.filter fun fv => Glob.matched pat fv.1).map (·.1) ↔
      (DsHash.hexists h f = true ∧ Glob.matched pat f = true) := by
  constructor
  · exact (List.Sublist.map _ List.filter_sublist).nodup (AListLemmas2.keys_nodup h hs)
  · intro f
    simp only [List.mem_map, List.mem_filter, DsHash.hexists]
    constructor
    · rintro ⟨⟨k, v⟩, ⟨hm, hp⟩, rfl⟩
      refine ⟨?_, hp⟩
      rw [AListLemmas2.contains_eq_true_iff]
      exact ⟨v, AListLemmas2.get?_of_mem h hs k v hm⟩
    · rintro ⟨hc, hp⟩
      obtain ⟨v, hv⟩ := (AListLemmas2.contains_eq_true_iff h f).1 hc
      exact ⟨(f, v), ⟨AListLemmas2.mem_of_get? h f v hv, hp⟩, rfl⟩

/-- one SSCAN command on a set -/
def sscanStep (s : DsSet.S) (pat : Bytes) (count : Int) (c : Int) : Int × List Bytes :=
  let r := DsSet.sscan s c pat count
  (scanReply r.1 (DsSet.scard s), r.2)

theorem sscan_complete (s : DsSet.S) (pat : Bytes) (count : Int) :
    FullIteration (iterate (sscanStep s pat count)) (callsNeeded s.length count)
      ((DsSet.members s).filter fun m => Glob.matched pat m) := by
  have hl : (DsSet.members s).length = s.length := by simp [DsSet.members, AList.keys]
  have hstep : sscanStep s pat count = hstep id (DsSet.members s) pat count := by
    funext c; simp only [sscanStep, hstep, DsSet.sscan, DsSet.scard, hl]
  rw [hstep, ← hl]
  exact posScan_complete id (DsSet.members s) pat count

/-- on a well-formed set the visited members are the distinct matching members -/
theorem sscan_members (s : DsSet.S) (hs : AList.Sorted s) (pat : Bytes) :
    ((DsSet.members s).filter fun m => Glob.matched pat m).Nodup ∧
    ∀ m, m ∈ (DsSet.members s).filter (fun m => Glob.matched pat m) ↔
      (DsSet.mem s m = true ∧ Glob.matched pat m = true) := by
  constructor
  · exact List.filter_sublist.nodup (AListLemmas2.keys_nodup s hs)
  · intro m
    simp only [List.mem_filter, DsSet.members, DsSet.mem, AListLemmas2.mem_keys_iff_contains]

/-- one ZSCAN command on a sorted set -/
def zscanStep (z : ZSet) (pat : Bytes) (count : Int) (c : Int) : Int × List Item :=
  let r := DsZSet.zScan z c pat count
  (scanReply r.1 (DsZSet.zCard z), r.2)

/-- ZSCAN: the visited items are the matching items of the chain, in chain (score, member) order
    (an empty pattern stands for "*"). `hlen` is the `sameLen` field of `ZSet.WF`. -/
theorem zscan_complete (z : ZSet) (hlen : z.sl.length = z.dict.length) (pat : Bytes) (count : Int) :
    FullIteration (iterate (zscanStep z pat count)) (callsNeeded z.sl.length count)
      (z.sl.filter fun it => Glob.matched (if pat.isEmpty then [42] else pat) it.2) := by
  have hstep : zscanStep z pat count = hstep (·.2) z.sl (if pat.isEmpty then [42] else pat) count := by
    funext c
    simp only [zscanStep, hstep, DsZSet.zScan, DsHash.posScan, DsZSet.zCard, hlen]
  rw [hstep]
  exact posScan_complete (·.2) z.sl _ count

theorem zscan_complete_wf (z : ZSet) (h : z.WF) (pat : Bytes) (count : Int) :
    FullIteration (iterate (zscanStep z pat count)) (callsNeeded z.sl.length count)
      (z.sl.filter fun it => Glob.matched (if pat.isEmpty then [42] else pat) it.2) :=
  zscan_complete z h.sameLen pat count

/-- "order = chain order": what is visited is a subsequence of the chain -/
theorem zscan_order (z : ZSet) (pat : Bytes) :
    (z.sl.filter fun it => Glob.matched (if pat.isEmpty then [42] else pat) it.2).Sublist z.sl :=
  List.filter_sublist

/-! non-vacuity for section 1 -/
example : AList.Sorted ([([97], [1]), ([98], [2])] : DsHash.H) := by decide
example : AList.Sorted ([([97], ()), ([98], ())] : DsSet.S) := by decide
example : ({ dict := [([97], (0 : UInt64))], sl := [((0 : UInt64), [97])] } : ZSet).sl.length
    = ({ dict := [([97], (0 : UInt64))], sl := [((0 : UInt64), [97])] } : ZSet).dict.length := rfl
/-- five members, COUNT 2: three calls, everything once -/
example : iterate (sscanStep [([97], ()), ([98], ()), ([99], ()), ([100], ()), ([101], ())] [42] 2) 10
    = ([[[97], [98]], [[99], [100]], [[101]]], true) := by decide

/-! ## 2. a SCAN call reports only what exists -/

/-- the reply of `Api.scan` always has the shape (cursor, keys): `scanOut` loses nothing -/
theorem scan_reply_shape (s : MState) (now cursor : Int) (pat : Bytes) (count : Int) (typ : Nat) :
    (Api.scan s now cursor pat count typ).2 =
      .many [.int (scanOut (Api.scan s now cursor pat count typ).2).1,
             .slist (scanOut (Api.scan s now cursor pat count typ).2).2] := by
  rw [C19Scan.scan_out]; rfl

/-- the type a `SCAN … TYPE typ` call sees for a record (`etype`, Proofs/C19Scan.lean): the cached
    type of a record that is in memory or has one … -/
theorem scanType_cached (s : MState) (typ : Nat) (k : Bytes) (m : Meta) (h : typ = 0 ∨ m.vtype ≠ 0 ∨ m.value.isSome) :
    etype s typ (k, m) = m.vtype := by
  unfold etype
  rw [if_neg]
  rintro ⟨h1, h2, h3⟩
  rcases h with h | h | h
  · exact h1 h
  · exact h h2
  · simp only at h h3; rw [Option.isNone_iff_eq_none] at h3; rw [h3] at h; cases h

/-- … and for a record that never had its value loaded the type of the value the backend hands
    out (none there: 0, no type) -/
theorem scanType_loaded (s : MState) (typ : Nat) (k : Bytes) (m : Meta) (h0 : typ ≠ 0) (h1 : m.vtype = 0)
    (h2 : m.value = none) :
    etype s typ (k, m) = match Store.loadValue s k m with | some (v, _) => v.typeCode | none => 0 := by
  unfold etype
  rw [if_pos ⟨h0, h1, by rw [h2]; rfl⟩]
  cases Store.loadValue s k m with
  | none => simp [h1]
  | some vo => rfl

/-- ANY call (any store, cursor, count, pattern, type): every reported key is the name of an
    indexed record that has not expired at `now`, matches the pattern and, if a type is asked
    for, has that type -/
theorem scan_only_existing (s : MState) (now cursor : Int) (pat : Bytes) (count : Int) (typ : Nat) (x : Bytes)
    (hx : x ∈ (scanOut (Api.scan s now cursor pat count typ).2).2) :
    ∃ m, (x, m) ∈ s.index ∧ m.expired now = false ∧ Glob.matched pat x = true ∧ (typ ≠ 0 → etype s typ (x, m) = typ) := by
  obtain ⟨m, hm, he⟩ := C19Quiescent.scan_sound s now cursor pat count typ x hx
  refine ⟨m, hm, ?_⟩
  simp only [C19Quiescent.Eligible, Bool.and_eq_true, Bool.not_eq_true', Bool.or_eq_true, beq_iff_eq] at he
  obtain ⟨⟨h1, h2⟩, h3⟩ := he
  refine ⟨h2, h1, ?_⟩
  intro hne
  rcases h3 with h3 | h3
  · exact absurd h3 hne
  · exact h3

/-- with a proper (btree) index the record is the one a lookup of the name finds -/
theorem scan_only_existing_lookup (s : MState) (hs : AList.Sorted s.index) (now cursor : Int) (pat : Bytes)
    (count : Int) (typ : Nat) (x : Bytes) (hx : x ∈ (scanOut (Api.scan s now cursor pat count typ).2).2) :
    ∃ m, Store.getMeta s x = some m ∧ m.expired now = false ∧ Glob.matched pat x = true ∧
      (typ ≠ 0 → etype s typ (x, m) = typ) := by
  obtain ⟨m, hm, h⟩ := scan_only_existing s now cursor pat count typ x hx
  exact ⟨m, AListLemmas2.get?_of_mem s.index hs x m hm, h⟩

/-! ## 3. full iteration on a quiescent store -/

/-- what a SCAN call does to the store (proper index): only the index changes; record by record
    nothing changes but the access counter and what loading a value sets (value, cached type,
    state, oid) — names, deadlines, key identities and storage positions stay; without a TYPE
    filter nothing changes but the counters -/
theorem scan_frame (s : MState) (hs : AList.Sorted s.index) (now cursor : Int) (pat : Bytes) (count : Int) (typ : Nat) :
    let s' := (Api.scan s now cursor pat count typ).1
    s' = { s with index := s'.index } ∧
    s'.index.map (fun e => (e.1, { e.2 with count := 0, value := none, vtype := 0, state := 0, oid := 0 }))
      = s.index.map (fun e => (e.1, { e.2 with count := 0, value := none, vtype := 0, state := 0, oid := 0 })) ∧
    (typ = 0 → s'.index.map (fun e => (e.1, { e.2 with count := 0 })) = s.index.map (fun e => (e.1, { e.2 with count := 0 }))) :=
  have h := C19Scan.scan_frame s hs now cursor pat count typ
  ⟨h.rest, h.other, h.untyped⟩

/-- … and what a later call with the same TYPE looks at — names, deadlines, types as the filter
    sees them — is unchanged -/
theorem scan_keeps_names_deadlines_types (s : MState) (hs : AList.Sorted s.index) (now cursor : Int) (pat : Bytes)
    (count : Int) (typ : Nat) :
    let s' := (Api.scan s now cursor pat count typ).1
    s'.index.map (fun e => (e.1, e.2.exp, etype s' typ e)) = s.index.map (fun e => (e.1, e.2.exp, etype s typ e)) :=
  (C19Scan.scan_frame s hs now cursor pat count typ).view_eq

theorem scan_keeps_sorted (s : MState) (hs : AList.Sorted s.index) (now cursor : Int) (pat : Bytes)
    (count : Int) (typ : Nat) : AList.Sorted (Api.scan s now cursor pat count typ).1.index :=
  (C19Scan.scan_frame s hs now cursor pat count typ).sorted hs

/-- SCAN_COMPLETE_QUIESCENT, full statement: for every 0 < count < 2^63 (= every positive int64)
    on every store with a proper index of fewer than 2^63 records, iterating `Api.scan` from
    cursor 0 ends after exactly `callsScan n count` calls and the batches, concatenated, are
    exactly the eligible names of the index in index order — each once, nothing else -/
theorem scan_complete_quiescent (s : MState) (hs : AList.Sorted s.index) (hn : (s.index.length : Int) < 2 ^ 63)
    (now : Int) (pat : Bytes) (typ : Nat) (count : Int) (hc : 0 < count) (hc2 : count < 2 ^ 63) :
    FullIteration (fun fuel => iterateS (scanStep now pat count typ) fuel s)
      (callsScan s.index.length count.toNat) (eligibleNames s now pat typ s.index) := by
  have h := C19Quiescent.scan_full_pos s hs (by unfold I63; omega) now pat typ count.toNat (by omega)
    (by unfold I63; omega)
  rw [Int.toNat_of_nonneg (by omega)] at h
  exact h

/-- the number of calls: 1 on an empty index, else ⌈n / count⌉ (the call whose batch reaches the
    end of the index answers 0 itself: no extra empty call) … -/
theorem scan_calls_eq (n k : Nat) : callsScan n k = if n = 0 then 1 else (n + k - 1) / k := rfl

theorem scan_calls_ceil (n : Nat) (count : Int) (hc : 0 < count) (hn : 0 < n) :
    n ≤ callsScan n count.toNat * count.toNat ∧ (callsScan n count.toNat - 1) * count.toNat < n :=
  C19Quiescent.callsScan_ceil n count.toNat (by omega) hn

/-- … at most max n 1, in particular at most n + 1 -/
theorem scan_calls_bound (n : Nat) (count : Int) (hc : 0 < count) :
    callsScan n count.toNat ≤ max n 1 ∧ callsScan n count.toNat ≤ n + 1 := by
  have := C19Quiescent.callsScan_le n count.toNat (by omega)
  exact ⟨this, by omega⟩

/-- every eligible name is reported exactly once: the reported names of a proper index are
    pairwise different (no duplicates across batches) -/
theorem scan_no_duplicates (s : MState) (hs : AList.Sorted s.index) (now : Int) (pat : Bytes) (typ : Nat) :
    (eligibleNames s now pat typ s.index).Nodup :=
  C19Quiescent.eligibleNames_nodup s now pat typ s.index hs

/-- membership: the reported names are those whose record is eligible -/
theorem mem_eligibleNames (s : MState) (hs : AList.Sorted s.index) (now : Int) (pat : Bytes) (typ : Nat) (x : Bytes) :
    x ∈ eligibleNames s now pat typ s.index ↔ ∃ m, Store.getMeta s x = some m ∧ Eligible s now pat typ (x, m) = true :=
  C19Reopen.mem_eligibleNames s hs now pat typ x

/-- count < 0 (any negative int64): unlimited — one call reports everything and answers 0 -/
theorem scan_complete_quiescent_negative (s : MState) (hs : AList.Sorted s.index) (hn : (s.index.length : Int) < 2 ^ 63)
    (now : Int) (pat : Bytes) (typ : Nat) (count : Int) (hc : -(2 ^ 63) ≤ count) (hneg : count < 0) :
    FullIteration (fun fuel => iterateS (scanStep now pat count typ) fuel s) 1 (eligibleNames s now pat typ s.index) :=
  C19Quiescent.scan_full_neg s hs (by unfold I63; omega) now pat typ count (by unfold I63; omega) hneg

/-- count = 0 (the RESP handler rejects an explicit `COUNT 0`; the embedded API does not): on a
    non-empty index nothing is ever reported and the cursor stays 1 — the iteration never ends -/
theorem scan_count_zero_never_ends (s : MState) (hs : AList.Sorted s.index) (hn : (s.index.length : Int) < 2 ^ 63)
    (h1 : 1 ≤ s.index.length) (now : Int) (pat : Bytes) (typ : Nat) (fuel : Nat) :
    ¬ terminated (iterateS (scanStep now pat 0 typ) fuel s) ∧
    visited (iterateS (scanStep now pat 0 typ) fuel s) = [] := by
  rw [C19Quiescent.scan_zero_stuck s hs (by unfold I63; omega) h1 now pat typ fuel]
  simp [terminated, visited]

/-- the store of the examples: three string keys a, b, c written through the API -/
def abc : MState :=
  (Api.set (Api.set (Api.set {} 0 [97] [49] false).1 0 [98] [50] false).1 0 [99] [51] false).1

/-! non-vacuity for section 3 (and the former finding inputs: COUNT 2 and COUNT 1 on three keys) -/
example : AList.Sorted abc.index ∧ (abc.index.length : Int) < 2 ^ 63 ∧
    eligibleNames abc 0 [42] 0 abc.index = [[97], [98], [99]] := by decide
example : iterateS (scanStep 0 [42] 2 0) 10 abc = ([[[97], [98]], [[99]]], true) := by decide
example : iterateS (scanStep 0 [42] 1 0) 10 abc = ([[[97]], [[98]], [[99]]], true) := by decide
example : iterateS (scanStep 0 [42] 3 0) 10 abc = ([[[97], [98], [99]]], true) := by decide
example : iterateS (scanStep 0 [42] (-1) 0) 10 abc = ([[[97], [98], [99]]], true) := by decide
example : iterateS (scanStep 0 [42] 0 0) 4 abc = ([[], [], [], []], false) := by decide

/-! ## 4. iteration while the keyspace changes -/

/- FULL STATEMENT WANTED (false, see `scan_stable_finding`): a key that is indexed, live and
   matching during the whole iteration is reported at least once, whatever other keys are added
   or removed between the calls.
   Proved (`scan_stable_partial`) for histories in which the position of the key in the index
   never decreases from one call to the next (keys are only added; or removed only after the key,
   see `pos_insert_other`, `pos_delete_after`). -/

/-- `hist` = the stores in which the 2nd, 3rd, … call is made (arbitrary: whatever ran in between);
    `Stable now pat typ x t` = in store t the index is a proper btree of fewer than 2^63 records and
    x is indexed and eligible; `Mono x (s :: hist)` = the position of x never decreases.
    Then a terminated iteration has reported x. -/
theorem scan_stable_partial (now : Int) (pat : Bytes) (typ : Nat) (x : Bytes) (count : Int) (hc : 0 < count) (hc2 : count < 2 ^ 63)
    (s : MState) (hist : List MState)
    (hst : ∀ t ∈ s :: hist, Stable now pat typ x t) (hmono : Mono x (s :: hist))
    (fuel : Nat) (hterm : terminated (iterateS (histStep now pat count typ) fuel (s, hist))) :
    x ∈ visited (iterateS (histStep now pat count typ) fuel (s, hist)) := by
  have h := C19History.visited_of_start_le now pat typ x count.toNat (by omega) (by unfold I63; omega)
    fuel s hist 0 (by omega) hst hmono (by simp [C19ScanIter.startOf])
  rw [Int.toNat_of_nonneg (by omega)] at h
  exact h hterm

/-- `Stable` in terms of the store: the record at the position of x is x's and is eligible -/
theorem stable_iff (now : Int) (pat : Bytes) (typ : Nat) (x : Bytes) (s : MState) :
    Stable now pat typ x s ↔
      (AList.Sorted s.index ∧ (s.index.length : Int) < 2 ^ 63 ∧
        ∃ m, s.index[pos x s]? = some (x, m) ∧ Eligible s now pat typ (x, m) = true) := by
  unfold Stable C19History.StableV
  have hI : I63 = 2 ^ 63 := by unfold I63; omega
  rw [hI, C19History.posV_view]
  constructor
  · rintro ⟨h1, h2, e, he, hk⟩
    refine ⟨h1, h2, ?_⟩
    have hx := C19History.posV_name x (view s typ) e (by rw [C19History.posV_view]; exact he)
    simp only [view, C19Scan.viewOf, List.getElem?_map, Option.map_eq_some_iff] at he
    obtain ⟨⟨k, m⟩, hkm, rfl⟩ := he
    simp only [C19Scan.proj] at hx
    subst hx
    exact ⟨m, hkm, by rw [← C19Quiescent.keep_proj]; exact hk⟩
  · rintro ⟨h1, h2, m, hm, hk⟩
    refine ⟨h1, h2, C19Scan.proj s typ (x, m), ?_, by rw [C19Quiescent.keep_proj]; exact hk⟩
    simp only [view, C19Scan.viewOf, List.getElem?_map, hm, Option.map_some]

/-- sufficient for `Mono`: writing another key never moves x towards the front -/
theorem pos_insert_other (s : MState) (x key : Bytes) (m : Meta) (hne : key ≠ x) :
    pos x s ≤ pos x (Store.putMeta s key m) :=
  C19History.pos_set_ge x key m hne s.index

/-- sufficient for `Mono`: unlinking a key that sorts after x does not move x (x indexed) -/
theorem pos_delete_after (s : MState) (hs : AList.Sorted s.index) (x key : Bytes) (hlt : Bytes.lt x key = true)
    (hx : pos x s < s.index.length) : pos x (Store.delKey s key) = pos x s := by
  unfold pos at hx ⊢
  have : (Store.delKey s key).index = AList.erase s.index key := by
    unfold Store.delKey
    cases h : AList.get? s.index key with
    | none => rfl
    | some m =>
      simp only [Store.unpersist]
      cases m.stored <;> rfl
  rw [this]
  rcases C19History.pos_erase_after x key hlt s.index hs with h | h
  · exact h
  · omega

/-- WITNESS (3 keys, COUNT 1, one deletion): after the first call (reports a, answers cursor 2)
    key a is deleted; the second call starts at position 2 of the index b, c: reports c and
    answers 0. Key b was indexed, live and matching in both stores, and is never reported. -/
theorem scan_stable_finding :
    let s1 := Store.delKey (scanStep 0 [42] 1 0 abc 0).1 [97]
    iterateS (histStep 0 [42] 1 0) 10 (abc, [s1]) = ([[[97]], [[99]]], true) ∧
    eligibleNames abc 0 [42] 0 abc.index = [[97], [98], [99]] ∧ eligibleNames s1 0 [42] 0 s1.index = [[98], [99]] ∧
    pos [98] s1 < pos [98] abc := by decide

/-! non-vacuity for section 4: key b of `abc`, a key "d" added after the first call (COUNT 1) -/
def abcd : MState := (Api.set (scanStep 0 [42] 1 0 abc 0).1 0 [100] [52] false).1
example : pos [98] abc ≤ pos [98] abcd ∧ AList.Sorted abc.index ∧ AList.Sorted abcd.index ∧
    abc.index[pos [98] abc]?.map (·.1) = some [98] ∧ abcd.index[pos [98] abcd]?.map (·.1) = some [98] := by decide
example : iterateS (histStep 0 [42] 1 0) 10 (abc, [abcd]) = ([[[97]], [[98]], [[99]], [[100]]], true) := by decide

/-! ## 5. hot or cold makes no difference, also for TYPE after a reopen -/

/-- two stores that present the same names, deadlines and types-as-the-filter-sees-them (whatever
    else differs: values in memory or not, counters, states, …) get the same reply to any SCAN call -/
theorem scan_same_view_same_reply (s t : MState) (typ : Nat)
    (h : s.index.map (fun e => (e.1, e.2.exp, etype s typ e)) = t.index.map (fun e => (e.1, e.2.exp, etype t typ e)))
    (now cursor : Int) (pat : Bytes) (count : Int) :
    (Api.scan s now cursor pat count typ).2 = (Api.scan t now cursor pat count typ).2 := by
  rw [C19Scan.scan_out, C19Scan.scan_out]
  have : view s typ = view t typ := h
  rw [this]

/-- SCAN_HOT_COLD_SAME: two stores over the same backend whose indexes differ only in which values
    are in memory (`HotColdVariant`), both coherent (a record without cached type has no value in
    memory — `setValue` sets both), get the same reply to any SCAN call, TYPE-filtered or not -/
theorem scan_hot_cold_same (s t : MState) (h : HotColdVariant s t) (hd : s.disk = t.disk) (hp : s.pebble = t.pebble)
    (cs : Coherent s) (ct : Coherent t) (now cursor : Int) (pat : Bytes) (count : Int) (typ : Nat) :
    (Api.scan s now cursor pat count typ).2 = (Api.scan t now cursor pat count typ).2 :=
  scan_same_view_same_reply s t typ (C19Quiescent.view_eq_of_hotCold s t h hd hp cs ct typ) now cursor pat count

/-- … and whole iterations agree, batch by batch -/
theorem scan_hot_cold_same_iteration (s t : MState) (hs : AList.Sorted s.index) (h : HotColdVariant s t)
    (hd : s.disk = t.disk) (hp : s.pebble = t.pebble) (cs : Coherent s) (ct : Coherent t)
    (now : Int) (pat : Bytes) (count : Int) (typ : Nat) (fuel : Nat) :
    iterateS (scanStep now pat count typ) fuel s = iterateS (scanStep now pat count typ) fuel t := by
  have hv : view s typ = view t typ := C19Quiescent.view_eq_of_hotCold s t h hd hp cs ct typ
  have ht : AList.Sorted t.index := (C19Quiescent.hotCold_sorted h).1 hs
  unfold iterateS
  rw [C19Quiescent.iterate_scan_eq now pat count typ s hs, C19Quiescent.iterate_scan_eq now pat count typ t ht, hv]

/-- why coherence is asked: a record in memory that carries no cached type is not reported by a
    TYPE filter, its cold twin is loaded and reported (such records are not reachable: `setValue`
    always sets the type) -/
theorem scan_hot_cold_needs_coherent :
    let cold : MState := Store.reopen (Store.close (Api.set {} 0 [97] [118] false).1 0)
    let hot : MState := { cold with index := cold.index.map fun e => (e.1, { e.2 with value := some (.str [118]) }) }
    HotColdVariant hot cold ∧ hot.disk = cold.disk ∧ hot.pebble = cold.pebble ∧
    scanOut (Api.scan hot 0 0 [42] 10 1).2 = (0, []) ∧ scanOut (Api.scan cold 0 0 [42] 10 1).2 = (0, [[97]]) := by
  refine ⟨rfl, rfl, rfl, by decide +kernel, by decide +kernel⟩

/-- non-vacuity: `abc` and `abc` with the value of b evicted (as `gc` does) -/
def abcCold : MState := { abc with index := abc.index.map fun e => if e.1 = [98] then (e.1, { e.2 with value := none }) else e }
example : HotColdVariant abc abcCold ∧ abc.disk = abcCold.disk ∧ abc.pebble = abcCold.pebble ∧
    (Store.valOf abc [98]).isSome ∧ (Store.valOf abcCold [98]).isNone :=
  ⟨by unfold HotColdVariant; rfl, rfl, rfl, by decide, by decide⟩
example : Coherent abc ∧ Coherent abcCold := by
  unfold Coherent; constructor <;> decide

/-- SCAN … TYPE right after opening a backend (`Store.reopen`; `h` = the storage invariant of C11,
    either backend): the expected report consists of the names that match and are logically
    there (`Spec.Persist.lookup`: live, loadable) with a value of the requested type -/
theorem scan_type_after_reopen {s0 : MState} {x : Option Bytes} {t : Int} (h : C11.StoreInvX s0 x t)
    (now : Int) (pat : Bytes) (typ : Nat) (htyp : typ ≠ 0) (k : Bytes) :
    k ∈ eligibleNames (Store.reopen s0) now pat typ (Store.reopen s0).index ↔
      (Glob.matched pat k = true ∧
        ∃ v exp, Spec.Persist.lookup (Store.reopen s0) now k = some (v, exp) ∧ v.typeCode = typ) :=
  C19Reopen.mem_eligibleNames_reopen h now pat typ htyp k

/-- SCAN … TYPE after a graceful restart, complete statement: on the store obtained by
    `close` at `now` and `reopen`, iterating `SCAN … COUNT count TYPE typ` (typ ≠ 0) at time
    now' ≥ now ends after ⌈n / count⌉ calls and reports exactly — each once — the names that
    match and that had, before the restart, a live value of type typ.
    (`C11.NilFree s`: on Pebble no nil string in memory, the C11 finding; trivial in memory.) -/
theorem scan_type_after_restart {s : MState} {t now now' : Int} (h : C11.StoreInvX s none t) (ht : t ≤ now)
    (ht' : now ≤ now') (hf : s.failSet = 0) (hnil : C11.NilFree s)
    (hn : ((Store.reopen (Store.close s now)).index.length : Int) < 2 ^ 63)
    (pat : Bytes) (typ : Nat) (htyp : typ ≠ 0) (count : Int) (hc : 0 < count) (hc2 : count < 2 ^ 63) :
    let s' := Store.reopen (Store.close s now)
    FullIteration (fun fuel => iterateS (scanStep now' pat count typ) fuel s')
      (callsScan s'.index.length count.toNat) (eligibleNames s' now' pat typ s'.index) ∧
    (eligibleNames s' now' pat typ s'.index).Nodup ∧
    ∀ k, k ∈ eligibleNames s' now' pat typ s'.index ↔
      (Glob.matched pat k = true ∧ ∃ v exp, Spec.Persist.lookup s now' k = some (v, exp) ∧ v.typeCode = typ) := by
  have hs := C19Reopen.restart_sorted h ht (now := now)
  exact ⟨scan_complete_quiescent _ hs hn now' pat typ count hc hc2,
    scan_no_duplicates _ hs now' pat typ,
    fun k => C19Reopen.mem_eligibleNames_restart h ht ht' hf hnil pat typ htyp k⟩

/-- the former finding input: one string key written, store closed and reopened; `SCAN 0 TYPE
    string` now reports the key after the restart as before it, and the call has loaded the value -/
theorem scan_type_after_reopen_example :
    let s0 := (Api.set {} 0 [97] [118] false).1
    let s1 := Store.reopen (Store.close s0 0)
    scanOut (Api.scan s0 0 0 [42] 10 1).2 = (0, [[97]]) ∧
    scanOut (Api.scan s1 0 0 [42] 10 1).2 = (0, [[97]]) ∧
    scanOut (Api.scan s1 0 0 [42] 10 3).2 = (0, []) ∧
    (Store.valOf s1 [97]).isNone ∧ (Store.valOf (Api.scan s1 0 0 [42] 10 1).1 [97]).isSome := by
  refine ⟨by decide +kernel, by decide +kernel, by decide +kernel, by decide +kernel, by decide +kernel⟩

/-- non-vacuity of the C11 hypotheses (the example store of C11 on either backend) -/
example : C11.StoreInvX (C11.exState false) none 0 ∧ (C11.exState false).failSet = 0 ∧ C11.NilFree (C11.exState false) :=
  ⟨C11.exState_inv false 0, rfl, fun _ _ _ c => by cases c⟩

/- UNPROVED (not attempted / left open):
   * `scan_stable_partial` is proved for histories in which the position of the key never decreases
     (additions anywhere, removals after the key). The slightly larger class "removals at positions
     after the cursor but before the key" (the key moves towards the front but stays at or after
     the start of the next call) is not covered: its hypothesis would have to mention the cursors
     computed during the run.
   * `scan_stable_partial` is stated for count > 0 only (for count < 0 a single call reports
     everything, section 3).
   * the RESP handler `Handler.scan` (default COUNT 10, rejection of `COUNT 0`, argument parsing)
     is not composed with `Api.scan` here; all SCAN theorems are about the API call.
   * no statement here about int64 wrap-around on indexes of 2^63 or more records (excluded by
     hypothesis `hn`; the model keeps Go's wrapping `cursor--` / `count--`).
   * `scan_frame` says which fields of a record a call may change, not that a record only ever goes
     from cold to hot (it does: the only value a call writes is the one `loadValue` returns). -/

end NodisVerif.C19
