import NodisVerif.Model.Api
import NodisVerif.Model.WF
import NodisVerif.Spec.Scan
import NodisVerif.Proofs.C19Iter
import NodisVerif.Proofs.C19Pos
import NodisVerif.Proofs.C19Scan
import NodisVerif.Proofs.C19ScanIter
import NodisVerif.Proofs.C19Quiescent
import NodisVerif.Proofs.C19History
/-
  C19 — a full SCAN / SSCAN / HSCAN / ZSCAN iteration returns every element and terminates.

  Property theorems only. Reference notions: Spec/Scan.lean (the client loop `iterate`, `visited`,
  `calls`, `FullIteration run n vs` = "for every patience ≥ n the loop ends after exactly n calls
  and has seen exactly the list vs"). Helper lemmas: Proofs/C19*.lean.

  `Glob.matched` is never unfolded: every theorem holds for the pattern matcher as an arbitrary
  predicate on names.

  Sections
    1. SSCAN / HSCAN / ZSCAN (positional scan + the handler's cursor reply): complete, exact, bounded.
    2. SCAN: what a single call reports exists, is live, matches, has the type.
    3. SCAN: full iteration on a store nobody else touches. FINDING: the last key of the index is
       never reported when COUNT divides (number of keys − 1).
    4. SCAN: iteration while keys are added / removed. FINDING: removing a key that sorts before
       the cursor makes the iteration skip a key that was there all the time.
    5. SCAN never looks at values (hot or cold: same replies). FINDING: records created by a
       reopen have no cached type, `SCAN … TYPE t` does not report them.
-/
namespace NodisVerif.C19
open NodisVerif.Spec.Scan
open NodisVerif.Proofs.C19Pos (hstep callsNeeded)
open NodisVerif.Proofs.C19Scan (scanStep scanOut SameButCount view)
open NodisVerif.Proofs.C19ScanIter (I63 Missed)
open NodisVerif.Proofs.C19Quiescent (Eligible eligibleNames callsScan)
open NodisVerif.Proofs.C19History (histStep Stable Mono pos)
open NodisVerif.Proofs

/-! ## 1. SSCAN / HSCAN / ZSCAN -/

/-- The handler-level step (`posScan`, then `scanReply` against the cardinality), iterated from
    cursor 0 over ANY list, with ANY pattern and ANY count (≤ 0 included): ends after exactly
    `callsNeeded n count` calls and the batches, concatenated, are exactly the matching elements
    in order — each matching element once, nothing else. -/
theorem posScan_complete {α : Type} (name : α → Bytes) (xs : List α) (pat : Bytes) (count : Int) :
    FullIteration (iterate (hstep name xs pat count)) (callsNeeded xs.length count)
      (xs.filter fun x => Glob.matched pat (name x)) :=
  C19Pos.posScan_full name xs pat count

/-- the number of calls: 1 for count ≤ 0 or an empty collection … -/
theorem posScan_calls_one (n : Nat) (count : Int) (h : count ≤ 0 ∨ n = 0) : callsNeeded n count = 1 := by
  unfold callsNeeded; rw [if_neg]; omega

/-- … ⌈n / count⌉ otherwise (the least c with n ≤ c · count) … -/
theorem posScan_calls_ceil (n : Nat) (count : Int) (hc : count > 0) (hn : n > 0) :
    n ≤ callsNeeded n count * count.toNat ∧ (callsNeeded n count - 1) * count.toNat < n :=
  C19Pos.callsNeeded_ceil n count hc hn

/-- … and in any case at most n + 1 -/
theorem posScan_calls_bound (n : Nat) (count : Int) : callsNeeded n count ≤ n + 1 :=
  C19Pos.callsNeeded_le n count

/-- one HSCAN command on a hash -/
def hscanStep (h : DsHash.H) (pat : Bytes) (count : Int) (c : Int) : Int × List (Bytes × Bytes) :=
  let r := DsHash.hscan h c pat count
  (scanReply r.1 (DsHash.hlen h), r.2)

theorem hscan_complete (h : DsHash.H) (pat : Bytes) (count : Int) :
    FullIteration (iterate (hscanStep h pat count)) (callsNeeded h.length count)
      (h.filter fun fv => Glob.matched pat fv.1) := by
  have hstep : hscanStep h pat count = hstep (fun fv => fv.1) h pat count := rfl
  rw [hstep]
  exact posScan_complete (fun fv => fv.1) h pat count

/-- on a well-formed hash the visited fields are the distinct matching fields -/
theorem hscan_fields (h : DsHash.H) (hs : AList.Sorted h) (pat : Bytes) :
    ((h.filter fun fv => Glob.matched pat fv.1).map (·.1)).Nodup ∧
    ∀ f, f ∈ (h.filter fun fv => Glob.matched pat fv.1).map (·.1) ↔
      (DsHash.hexists h f = true ∧ Glob.matched pat f = true) := by
  constructor
  · exact (List.Sublist.map _ List.filter_sublist).nodup (AListLemmas2.keys_nodup h hs)
  · intro f
    simp only [List.mem_map, List.mem_filter, DsHash.hexists]
    constructor
    · rintro ⟨⟨k, v⟩, ⟨hm, hp⟩, rfl⟩
      refine ⟨?_, hp⟩
      rw [AListLemmas2.contains_eq_true_iff]
      exact ⟨v, AListLemmas2.get?_of_mem h hs k v hm⟩
    · rintro ⟨hc, hp⟩
      obtain ⟨v, hv⟩ := (AListLemmas2.contains_eq_true_iff h f).1 hc
      exact ⟨(f, v), ⟨AListLemmas2.mem_of_get? h f v hv, hp⟩, rfl⟩

/-- one SSCAN command on a set -/
def sscanStep (s : DsSet.S) (pat : Bytes) (count : Int) (c : Int) : Int × List Bytes :=
  let r := DsSet.sscan s c pat count
  (scanReply r.1 (DsSet.scard s), r.2)

theorem sscan_complete (s : DsSet.S) (pat : Bytes) (count : Int) :
    FullIteration (iterate (sscanStep s pat count)) (callsNeeded s.length count)
      ((DsSet.members s).filter fun m => Glob.matched pat m) := by
  have hl : (DsSet.members s).length = s.length := by simp [DsSet.members, AList.keys]
  have hstep : sscanStep s pat count = hstep id (DsSet.members s) pat count := by
    funext c; simp only [sscanStep, hstep, DsSet.sscan, DsSet.scard, hl]
  rw [hstep, ← hl]
  exact posScan_complete id (DsSet.members s) pat count

/-- on a well-formed set the visited members are the distinct matching members -/
theorem sscan_members (s : DsSet.S) (hs : AList.Sorted s) (pat : Bytes) :
    ((DsSet.members s).filter fun m => Glob.matched pat m).Nodup ∧
    ∀ m, m ∈ (DsSet.members s).filter (fun m => Glob.matched pat m) ↔
      (DsSet.mem s m = true ∧ Glob.matched pat m = true) := by
  constructor
  · exact List.filter_sublist.nodup (AListLemmas2.keys_nodup s hs)
  · intro m
    simp only [List.mem_filter, DsSet.members, DsSet.mem, AListLemmas2.mem_keys_iff_contains]

/-- one ZSCAN command on a sorted set -/
def zscanStep (z : ZSet) (pat : Bytes) (count : Int) (c : Int) : Int × List Item :=
  let r := DsZSet.zScan z c pat count
  (scanReply r.1 (DsZSet.zCard z), r.2)

/-- ZSCAN: the visited items are the matching items of the chain, in chain (score, member) order
    (an empty pattern stands for "*"). `hlen` is the `sameLen` field of `ZSet.WF`. -/
theorem zscan_complete (z : ZSet) (hlen : z.sl.length = z.dict.length) (pat : Bytes) (count : Int) :
    FullIteration (iterate (zscanStep z pat count)) (callsNeeded z.sl.length count)
      (z.sl.filter fun it => Glob.matched (if pat.isEmpty then [42] else pat) it.2) := by
  have hstep : zscanStep z pat count = hstep (·.2) z.sl (if pat.isEmpty then [42] else pat) count := by
    funext c
    simp only [zscanStep, hstep, DsZSet.zScan, DsHash.posScan, DsZSet.zCard, hlen]
  rw [hstep]
  exact posScan_complete (·.2) z.sl _ count

theorem zscan_complete_wf (z : ZSet) (h : z.WF) (pat : Bytes) (count : Int) :
    FullIteration (iterate (zscanStep z pat count)) (callsNeeded z.sl.length count)
      (z.sl.filter fun it => Glob.matched (if pat.isEmpty then [42] else pat) it.2) :=
  zscan_complete z h.sameLen pat count

/-- "order = chain order": what is visited is a subsequence of the chain -/
theorem zscan_order (z : ZSet) (pat : Bytes) :
    (z.sl.filter fun it => Glob.matched (if pat.isEmpty then [42] else pat) it.2).Sublist z.sl :=
  List.filter_sublist

/-! non-vacuity for section 1 -/
example : AList.Sorted ([([97], [1]), ([98], [2])] : DsHash.H) := by decide
example : AList.Sorted ([([97], ()), ([98], ())] : DsSet.S) := by decide
example : ({ dict := [([97], (0 : UInt64))], sl := [((0 : UInt64), [97])] } : ZSet).sl.length
    = ({ dict := [([97], (0 : UInt64))], sl := [((0 : UInt64), [97])] } : ZSet).dict.length := rfl
/-- five members, COUNT 2: three calls, everything once -/
example : iterate (sscanStep [([97], ()), ([98], ()), ([99], ()), ([100], ()), ([101], ())] [42] 2) 10
    = ([[[97], [98]], [[99], [100]], [[101]]], true) := by decide

/-! ## 2. a SCAN call reports only what exists -/

/-- the reply of `Api.scan` always has the shape (cursor, keys): `scanOut` loses nothing -/
theorem scan_reply_shape (s : MState) (now cursor : Int) (pat : Bytes) (count : Int) (typ : Nat) :
    (Api.scan s now cursor pat count typ).2 =
      .many [.int (scanOut (Api.scan s now cursor pat count typ).2).1,
             .slist (scanOut (Api.scan s now cursor pat count typ).2).2] := by
  rw [C19Scan.scan_out]; rfl

/-- ANY call (any store, cursor, count, pattern, type): every reported key is the name of an
    indexed record that has not expired at `now`, matches the pattern and, if a type is asked
    for, has that cached type -/
theorem scan_only_existing (s : MState) (now cursor : Int) (pat : Bytes) (count : Int) (typ : Nat) (x : Bytes)
    (hx : x ∈ (scanOut (Api.scan s now cursor pat count typ).2).2) :
    ∃ m, (x, m) ∈ s.index ∧ m.expired now = false ∧ Glob.matched pat x = true ∧ (typ ≠ 0 → m.vtype = typ) := by
  obtain ⟨m, hm, he⟩ := C19Quiescent.scan_sound s now cursor pat count typ x hx
  refine ⟨m, hm, ?_⟩
  simp only [C19Quiescent.Eligible, Bool.and_eq_true, Bool.not_eq_true', Bool.or_eq_true, beq_iff_eq] at he
  obtain ⟨⟨h1, h2⟩, h3⟩ := he
  refine ⟨h2, h1, ?_⟩
  intro hne
  rcases h3 with h3 | h3
  · exact absurd h3 hne
  · exact h3

/-- with a proper (btree) index the record is the one a lookup of the name finds -/
theorem scan_only_existing_lookup (s : MState) (hs : AList.Sorted s.index) (now cursor : Int) (pat : Bytes)
    (count : Int) (typ : Nat) (x : Bytes) (hx : x ∈ (scanOut (Api.scan s now cursor pat count typ).2).2) :
    ∃ m, Store.getMeta s x = some m ∧ m.expired now = false ∧ Glob.matched pat x = true ∧ (typ ≠ 0 → m.vtype = typ) := by
  obtain ⟨m, hm, h⟩ := scan_only_existing s now cursor pat count typ x hx
  exact ⟨m, AListLemmas2.get?_of_mem s.index hs x m hm, h⟩

/-! ## 3. full iteration on a quiescent store -/

/-- a SCAN call changes nothing in the store except access counters of index records: all other
    components are equal and the index is equal record by record once counters are blanked
    (in particular names, deadlines, cached types, values) -/
theorem scan_frame (s : MState) (hs : AList.Sorted s.index) (now cursor : Int) (pat : Bytes) (count : Int) (typ : Nat) :
    let s' := (Api.scan s now cursor pat count typ).1
    s' = { s with index := s'.index } ∧
    s'.index.map (fun e => (e.1, { e.2 with count := 0 })) = s.index.map (fun e => (e.1, { e.2 with count := 0 })) :=
  C19Scan.scan_frame s hs now cursor pat count typ

theorem scan_keeps_names_deadlines_types (s : MState) (hs : AList.Sorted s.index) (now cursor : Int) (pat : Bytes)
    (count : Int) (typ : Nat) :
    (Api.scan s now cursor pat count typ).1.index.map (fun e => (e.1, e.2.exp, e.2.vtype))
      = s.index.map (fun e => (e.1, e.2.exp, e.2.vtype)) :=
  (C19Scan.scan_frame s hs now cursor pat count typ).view

theorem scan_keeps_sorted (s : MState) (hs : AList.Sorted s.index) (now cursor : Int) (pat : Bytes)
    (count : Int) (typ : Nat) : AList.Sorted (Api.scan s now cursor pat count typ).1.index :=
  (C19Scan.scan_frame s hs now cursor pat count typ).sorted hs

/- FULL STATEMENT WANTED (false, see `scan_complete_quiescent_finding`):
     for every count > 0 the iteration of `Api.scan` from cursor 0 on a store nobody else touches
     terminates within n + 1 calls and reports exactly the eligible names (`eligibleNames now pat
     typ s.index`), each once.
   What holds exactly (`scan_complete_quiescent_exact`): termination within n + 1 calls always; the
   reported names are exactly the eligible names of the index WITHOUT ITS LAST RECORD when
       LastMissed n count  :=  n ≥ 2 ∧ count ∣ n − 1
   and of the whole index otherwise. No duplicates in either case. -/

/-- the finding region of section 3: index length n ≥ 2 and COUNT divides n − 1
    (`Missed n k 0` unfolds to `(n - 1) % k = 0 ∧ n - 1 > 0`) -/
abbrev LastMissed (n k : Nat) : Prop := Missed n k 0

theorem lastMissed_iff (n k : Nat) : LastMissed n k ↔ (k ∣ n - 1 ∧ 2 ≤ n) := by
  unfold LastMissed Missed
  rw [Nat.sub_zero, Nat.dvd_iff_mod_eq_zero]
  constructor <;> (rintro ⟨h1, h2⟩; exact ⟨h1, by omega⟩)

/-- exact behaviour for every 0 < count < 2^63 (= every positive int64) on every store with a
    proper index of fewer than 2^63 records -/
theorem scan_complete_quiescent_exact (s : MState) (hs : AList.Sorted s.index) (hn : (s.index.length : Int) < 2 ^ 63)
    (now : Int) (pat : Bytes) (typ : Nat) (count : Int) (hc : 0 < count) (hc2 : count < 2 ^ 63) :
    FullIteration (fun fuel => iterateS (scanStep now pat count typ) fuel s)
      (callsScan s.index.length count.toNat)
      (eligibleNames now pat typ (if LastMissed s.index.length count.toNat then s.index.dropLast else s.index)) := by
  have h := C19Quiescent.scan_full_pos s hs (by unfold I63; omega) now pat typ count.toNat (by omega)
    (by unfold I63; omega)
  rw [Int.toNat_of_nonneg (by omega)] at h
  exact h

/-- outside the finding region: complete and exact -/
theorem scan_complete_quiescent_partial (s : MState) (hs : AList.Sorted s.index) (hn : (s.index.length : Int) < 2 ^ 63)
    (now : Int) (pat : Bytes) (typ : Nat) (count : Int) (hc : 0 < count) (hc2 : count < 2 ^ 63)
    (hreg : ¬ LastMissed s.index.length count.toNat) :
    FullIteration (fun fuel => iterateS (scanStep now pat count typ) fuel s)
      (callsScan s.index.length count.toNat) (eligibleNames now pat typ s.index) := by
  have h := scan_complete_quiescent_exact s hs hn now pat typ count hc hc2
  rwa [if_neg hreg] at h

/-- the number of calls is at most n + 1 … -/
theorem scan_calls_bound (n : Nat) (count : Int) (hc : 0 < count) : callsScan n count.toNat ≤ n + 1 :=
  C19Quiescent.callsScan_le n count.toNat (by omega)

/-- … precisely: 1 on an empty index, ⌈n / count⌉ + 1 outside the finding region (the extra call
    is the one that answers 0), ⌈n / count⌉ inside -/
theorem scan_calls_eq (n : Nat) (k : Nat) :
    callsScan n k = if n = 0 then 1 else (n + k - 1) / k + (if LastMissed n k then 0 else 1) := rfl

/-- every eligible name is reported exactly once: the reported names of a proper index are
    pairwise different (so: no duplicates across batches) -/
theorem scan_no_duplicates (now : Int) (pat : Bytes) (typ : Nat) (idx : AList Meta) (hs : AList.Sorted idx) :
    (eligibleNames now pat typ idx).Nodup ∧ (eligibleNames now pat typ idx.dropLast).Nodup := by
  refine ⟨C19Quiescent.eligibleNames_nodup now pat typ idx hs, C19Quiescent.eligibleNames_nodup now pat typ _ ?_⟩
  rw [AListLemmas2.sorted_iff_pairwise] at hs ⊢
  exact hs.sublist (List.dropLast_sublist idx)

/-- inside the finding region the last key of the index is not reported, whatever it is -/
theorem scan_last_key_missed (s : MState) (hs : AList.Sorted s.index) (hn : (s.index.length : Int) < 2 ^ 63)
    (now : Int) (pat : Bytes) (typ : Nat) (count : Int) (hc : 0 < count) (hc2 : count < 2 ^ 63)
    (hreg : LastMissed s.index.length count.toNat) (hne : s.index ≠ [])
    (fuel : Nat) (hfuel : s.index.length + 1 ≤ fuel) :
    terminated (iterateS (scanStep now pat count typ) fuel s) ∧
    (s.index.getLast hne).1 ∉ visited (iterateS (scanStep now pat count typ) fuel s) := by
  have h := scan_complete_quiescent_exact s hs hn now pat typ count hc hc2 fuel
    (Nat.le_trans (scan_calls_bound _ count hc) hfuel)
  rw [if_pos hreg] at h
  refine ⟨h.1, ?_⟩
  rw [h.2.2]
  intro hmem
  have hsplit : s.index.dropLast ++ [s.index.getLast hne] = s.index := List.dropLast_concat_getLast hne
  have hnd := AListLemmas2.keys_nodup s.index hs
  rw [← hsplit] at hnd
  simp only [AList.keys, List.map_append, List.map_cons, List.map_nil] at hnd
  have hdisj := (List.nodup_append.1 hnd).2.2
  have hin : (s.index.getLast hne).1 ∈ s.index.dropLast.map (·.1) := by
    unfold C19Quiescent.eligibleNames at hmem
    exact (List.Sublist.map _ List.filter_sublist).subset hmem
  exact hdisj _ hin _ (by simp) rfl

/-- the store of the witnesses: three string keys a, b, c written through the API -/
def abc : MState :=
  (Api.set (Api.set (Api.set {} 0 [97] [49] false).1 0 [98] [50] false).1 0 [99] [51] false).1

/-- WITNESS (3 keys, COUNT 2): the iteration ends after two calls having reported a and b only;
    key c is live, matches "*", and is never returned -/
theorem scan_complete_quiescent_finding :
    iterateS (scanStep 0 [42] 2 0) 10 abc = ([[[97], [98]], []], true) ∧
    eligibleNames 0 [42] 0 abc.index = [[97], [98], [99]] ∧
    AList.Sorted abc.index ∧ LastMissed abc.index.length 2 := by decide

/-- the same with the repository's own test data shape: COUNT 1 never reports the last key of an
    index of two or more keys -/
theorem scan_count_one_finding : iterateS (scanStep 0 [42] 1 0) 10 abc = ([[[97]], [[98]], []], true) := by decide

/-- count < 0 (any negative int64): unlimited — the first call reports everything, the second
    answers 0 -/
theorem scan_complete_quiescent_negative (s : MState) (hs : AList.Sorted s.index) (hn : (s.index.length : Int) < 2 ^ 63)
    (now : Int) (pat : Bytes) (typ : Nat) (count : Int) (hc : -(2 ^ 63) ≤ count) (hneg : count < 0) :
    FullIteration (fun fuel => iterateS (scanStep now pat count typ) fuel s)
      (if s.index.length = 0 then 1 else 2) (eligibleNames now pat typ s.index) :=
  C19Quiescent.scan_full_neg s hs (by unfold I63; omega) now pat typ count (by unfold I63; omega) hneg

/-- count = 0 (the RESP handler rejects an explicit `COUNT 0`; the embedded API does not): nothing
    is ever reported and, with two or more records, the cursor stays 1 — the iteration never ends -/
theorem scan_count_zero_never_ends (s : MState) (hs : AList.Sorted s.index) (hn : (s.index.length : Int) < 2 ^ 63)
    (h2 : 2 ≤ s.index.length) (now : Int) (pat : Bytes) (typ : Nat) (fuel : Nat) :
    ¬ terminated (iterateS (scanStep now pat 0 typ) fuel s) ∧
    visited (iterateS (scanStep now pat 0 typ) fuel s) = [] := by
  rw [C19Quiescent.scan_zero_stuck s hs (by unfold I63; omega) h2 now pat typ fuel]
  simp [terminated, visited]

/-- count = 0 with exactly one record: two calls, the record is not reported -/
theorem scan_count_zero_one_record (s : MState) (hs : AList.Sorted s.index) (h1 : s.index.length = 1)
    (now : Int) (pat : Bytes) (typ : Nat) :
    FullIteration (fun fuel => iterateS (scanStep now pat 0 typ) fuel s) 2 [] :=
  C19Quiescent.scan_zero_one s hs h1 now pat typ

/-! non-vacuity for section 3 (`abc` is sorted, short, and 3 ∤ 2: outside the region for COUNT 3) -/
example : AList.Sorted abc.index ∧ (abc.index.length : Int) < 2 ^ 63 ∧ ¬ LastMissed abc.index.length (3 : Int).toNat := by
  decide
example : iterateS (scanStep 0 [42] 3 0) 10 abc = ([[[97], [98], [99]], []], true) := by decide
example : iterateS (scanStep 0 [42] (-1) 0) 10 abc = ([[[97], [98], [99]], []], true) := by decide

/-! ## 4. iteration while the keyspace changes -/

/- FULL STATEMENT WANTED (false, see `scan_stable_finding`): a key that is indexed, live and
   matching during the whole iteration is reported at least once, whatever other keys are added
   or removed between the calls.
   Proved (`scan_stable_partial`) for histories in which the position of the key in the index
   never decreases from one call to the next (keys are only added; or removed only after the key,
   see `pos_insert_other`, `pos_delete_after`) and the key is never the last record of the index
   (the region of section 3). -/

/-- `hist` = the stores in which the 2nd, 3rd, … call is made (arbitrary: whatever ran in between);
    `Stable now pat typ x t` = in store t the index is a proper btree of fewer than 2^63 records,
    x is indexed, eligible, and not the last record; `Mono x (s :: hist)` = the position of x never
    decreases. Then a terminated iteration has reported x. -/
theorem scan_stable_partial (now : Int) (pat : Bytes) (typ : Nat) (x : Bytes) (count : Int) (hc : 0 < count) (hc2 : count < 2 ^ 63)
    (s : MState) (hist : List MState)
    (hst : ∀ t ∈ s :: hist, Stable now pat typ x t) (hmono : Mono x (s :: hist))
    (fuel : Nat) (hterm : terminated (iterateS (histStep now pat count typ) fuel (s, hist))) :
    x ∈ visited (iterateS (histStep now pat count typ) fuel (s, hist)) := by
  have h := C19History.visited_of_start_le now pat typ x count.toNat (by omega) (by unfold I63; omega)
    fuel s hist 0 (by omega) hst hmono (by simp [C19ScanIter.startOf])
  rw [Int.toNat_of_nonneg (by omega)] at h
  exact h hterm

/-- `Stable` in terms of the store: lookup finds an eligible record, and some record follows -/
theorem stable_iff (now : Int) (pat : Bytes) (typ : Nat) (x : Bytes) (s : MState) :
    Stable now pat typ x s ↔
      (AList.Sorted s.index ∧ (s.index.length : Int) < 2 ^ 63 ∧ pos x s + 1 < s.index.length ∧
        ∃ m, s.index[pos x s]? = some (x, m) ∧ Eligible now pat typ (x, m) = true) := by
  unfold Stable C19History.StableV
  have hI : I63 = 2 ^ 63 := by unfold I63; omega
  rw [C19Quiescent.view_length, hI]
  have hp : C19History.posV x (view s) = pos x s := rfl
  rw [hp]
  constructor
  · rintro ⟨h1, h2, h3, e, he, hk⟩
    refine ⟨h1, h2, h3, ?_⟩
    have hx := C19History.posV_name x (view s) e (by rw [hp]; exact he)
    simp only [view, C19Scan.viewOf, List.getElem?_map, Option.map_eq_some_iff] at he
    obtain ⟨⟨k, m⟩, hkm, rfl⟩ := he
    simp only [C19Scan.proj] at hx
    subst hx
    exact ⟨m, hkm, by rw [← C19Quiescent.keep_proj]; exact hk⟩
  · rintro ⟨h1, h2, h3, m, hm, hk⟩
    refine ⟨h1, h2, h3, C19Scan.proj (x, m), ?_, by rw [C19Quiescent.keep_proj]; exact hk⟩
    simp only [view, C19Scan.viewOf, List.getElem?_map, hm, Option.map_some]

/-- sufficient for `Mono`: writing another key never moves x towards the front -/
theorem pos_insert_other (s : MState) (x key : Bytes) (m : Meta) (hne : key ≠ x) :
    pos x s ≤ pos x (Store.putMeta s key m) := by
  unfold pos C19Scan.view
  rw [C19History.posV_viewOf, C19History.posV_viewOf]
  exact C19History.pos_set_ge x key m hne s.index

/-- sufficient for `Mono`: unlinking a key that sorts after x does not move x (x indexed) -/
theorem pos_delete_after (s : MState) (hs : AList.Sorted s.index) (x key : Bytes) (hlt : Bytes.lt x key = true)
    (hx : pos x s < s.index.length) : pos x (Store.delKey s key) = pos x s := by
  unfold pos C19Scan.view at hx ⊢
  rw [C19History.posV_viewOf] at hx ⊢
  rw [C19History.posV_viewOf]
  have : (Store.delKey s key).index = AList.erase s.index key := by
    unfold Store.delKey
    cases h : AList.get? s.index key with
    | none => rfl
    | some m =>
      simp only [Store.unpersist]
      cases m.stored <;> rfl
  rw [this]
  rcases C19History.pos_erase_after x key hlt s.index hs with h | h
  · exact h
  · omega

/-- WITNESS (3 keys, COUNT 1, one deletion): after the first call (reports a, answers cursor 2)
    key a is deleted; the second call finds cursor 2 ≥ index length 2 and answers 0. Key b was
    indexed, live, matching and not the last record in both stores, and is never reported. -/
theorem scan_stable_finding :
    let s1 := Store.delKey (scanStep 0 [42] 1 0 abc 0).1 [97]
    iterateS (histStep 0 [42] 1 0) 10 (abc, [s1]) = ([[[97]], []], true) ∧
    eligibleNames 0 [42] 0 abc.index = [[97], [98], [99]] ∧ eligibleNames 0 [42] 0 s1.index = [[98], [99]] ∧
    pos [98] s1 < pos [98] abc := by decide

/-! non-vacuity for section 4: key b of `abc`, a key "d" added after the first call (COUNT 1) -/
def abcd : MState := (Api.set (scanStep 0 [42] 1 0 abc 0).1 0 [100] [52] false).1
example : pos [98] abc ≤ pos [98] abcd ∧ pos [98] abc + 1 < abc.index.length ∧ pos [98] abcd + 1 < abcd.index.length ∧
    AList.Sorted abc.index ∧ AList.Sorted abcd.index := by decide
example : iterateS (histStep 0 [42] 1 0) 10 (abc, [abcd]) = ([[[97]], [[98]], [[99]], []], true) := by decide

/-! ## 5. hot or cold makes no difference; TYPE after a reopen does -/

/-- two stores whose indexes agree on names, deadlines and cached types (whatever the values —
    in memory or only in storage —, counters, states, the backend, …) get the same reply to any
    SCAN call -/
theorem scan_hot_cold_same (s t : MState)
    (h : s.index.map (fun e => (e.1, e.2.exp, e.2.vtype)) = t.index.map (fun e => (e.1, e.2.exp, e.2.vtype)))
    (now cursor : Int) (pat : Bytes) (count : Int) (typ : Nat) :
    (Api.scan s now cursor pat count typ).2 = (Api.scan t now cursor pat count typ).2 := by
  rw [C19Scan.scan_out, C19Scan.scan_out]
  have : view s = view t := h
  rw [this]

/-- "differ only in hot/cold-ness": same index once every value is forgotten -/
def HotColdVariant (s t : MState) : Prop :=
  s.index.map (fun e => (e.1, { e.2 with value := none })) = t.index.map (fun e => (e.1, { e.2 with value := none }))

theorem hotColdVariant_view {s t : MState} (h : HotColdVariant s t) :
    s.index.map (fun e => (e.1, e.2.exp, e.2.vtype)) = t.index.map (fun e => (e.1, e.2.exp, e.2.vtype)) := by
  have key : ∀ (l : AList Meta), l.map (fun e => (e.1, e.2.exp, e.2.vtype))
      = (l.map (fun e => (e.1, { e.2 with value := none }))).map (fun e => (e.1, e.2.exp, e.2.vtype)) := by
    intro l; rw [List.map_map]; rfl
  rw [key s.index, key t.index, h]

/-- … and whole iterations agree, batch by batch -/
theorem scan_hot_cold_same_iteration (s t : MState) (hs : AList.Sorted s.index) (h : HotColdVariant s t)
    (now : Int) (pat : Bytes) (count : Int) (typ : Nat) (fuel : Nat) :
    iterateS (scanStep now pat count typ) fuel s = iterateS (scanStep now pat count typ) fuel t := by
  have hv : view s = view t := hotColdVariant_view h
  have ht : AList.Sorted t.index := by
    have hk : ∀ (l : AList Meta), AList.Sorted l ↔
        (l.map (fun e => (e.1, { e.2 with value := none }))).Pairwise AListLemmas.KeyLt := by
      intro l; rw [AListLemmas2.sorted_iff_pairwise, List.pairwise_map]; exact Iff.rfl
    rw [hk] at hs ⊢
    unfold HotColdVariant at h
    rw [← h]; exact hs
  unfold iterateS
  rw [C19Quiescent.iterate_scan_eq now pat count typ s hs, C19Quiescent.iterate_scan_eq now pat count typ t ht, hv]

/-- non-vacuity: `abc` and `abc` with the value of b evicted (as `gc` does) -/
def abcCold : MState := { abc with index := abc.index.map fun e => if e.1 = [98] then (e.1, { e.2 with value := none }) else e }
example : HotColdVariant abc abcCold ∧ (Store.valOf abc [98]).isSome ∧ (Store.valOf abcCold [98]).isNone :=
  ⟨by unfold HotColdVariant; rfl, by decide, by decide⟩

/- FULL STATEMENT WANTED (false): `SCAN … TYPE t` reports the live keys whose value has type t,
   whether the value is in memory or only in storage.
   The TYPE filter reads the cached type of the index record; `Store.reopen` creates records with
   no cached type (0) and the cache is only filled when the value is loaded. -/

/-- WITNESS: one string key written, store closed and reopened. `SCAN 0 TYPE string` reported the
    key before the restart and reports nothing after it, although the key is there (an untyped
    SCAN reports it, and after any access that loads the value the typed SCAN reports it too) -/
theorem scan_type_after_reopen_finding :
    let s0 := (Api.set {} 0 [97] [118] false).1
    let s1 := Store.reopen (Store.close s0 0)
    scanOut (Api.scan s0 0 0 [42] 10 1).2 = (1, [[97]]) ∧
    scanOut (Api.scan s1 0 0 [42] 10 1).2 = (1, []) ∧
    scanOut (Api.scan s1 0 0 [42] 10 0).2 = (1, [[97]]) ∧
    scanOut (Api.scan (Api.type_ s1 0 [97]).1 0 0 [42] 10 1).2 = (1, [[97]]) := by decide +kernel

/- UNPROVED (not attempted / left open):
   * `scan_stable_partial` is proved for histories in which the position of the key never decreases
     (additions anywhere, removals after the key). The slightly larger class "removals at positions
     after the cursor but before the key" (the key moves towards the front but stays at or after
     the start of the next call) is not covered: its hypothesis would have to mention the cursors
     computed during the run.
   * `scan_stable_partial` is stated for count > 0 only (for count < 0 a single call reports
     everything, section 3).
   * the RESP handler `Handler.scan` (default COUNT 10, rejection of `COUNT 0`, argument parsing)
     is not composed with `Api.scan` here; all SCAN theorems are about the API call.
   * no statement here about int64 wrap-around on indexes of 2^63 or more records (excluded by
     hypothesis `hn`; the model keeps Go's wrapping `cursor--` / `count--`). -/

end NodisVerif.C19
