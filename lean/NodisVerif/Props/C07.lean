import NodisVerif.Model.Proto
import NodisVerif.Proofs.ProtoOrder
import NodisVerif.Proofs.TxProgReach
/-
  C07 — multi-key commands are atomic (strict two-phase locking).

  Property theorems only, about the locking protocol `Model/Proto.lean`; `runAll`, `Reachable`:
  Proofs/ProtoBasic.lean. Traces are arbitrary (any length, any number of transactions, keys, records);
  positions in a trace are written `es[i]? = some e`. Helper lemmas: Proofs/ProtoInv, ProtoPhase (the
  phases of a transaction along a trace), ProtoTrace, ProtoOrder.

    `Grows t e`            e is a step of t's growing phase: look, claim, wait, lock, publish, unlink, commit
    `Validates t r e`      e = `valid t k r true` or e = `claim t k r m`
    `HoldsValid s t r`     in s, t is active and holds r with `valid = true`
    `ValidRelease es p t r` es[p] = `unlock t r` and t's hold on r was validated in the state before
    `Acquires es q u r`    es[q] = `lock u k r m`
    `Conflict es t u`      t released a validated hold on some r at p, u is granted the lock of r at q > p
    `BeginOnce es`         no transaction id begins twice (the harness never reuses ids);
                           `beginOnce_of_nodup`: it is enough that `begins es` has no duplicates
    `commitPos es t`       position of the first `commit t` (`es.length` if none)

  What is shown: every validated hold of a transaction is kept until its commit has begun, all of them
  are held together at the commit (the lock point), and after it nothing is acquired, published or
  unlinked. Hence whenever two transactions conflict on a record, the one that had it first committed
  first: the conflict graph embeds into the order of the commits, and the execution is equivalent to
  running the transactions one after the other in commit order.
-/
namespace NodisVerif.C07
open NodisVerif.Proto
open NodisVerif.Proofs.Proto

/-! ## 1. no early release, nothing acquired after the commit -/

/-- a validated hold is released only once the commit has begun -/
theorem no_early_release {s s' : PState} {t : Tx} {st : TxSt} {r : Rec} {h : Hold}
    (hs : step s (.unlock t r) = some s') (ht : s.tx t = some st) (hh : st.holdOf r = some h)
    (hv : h.valid = true) : st.committing = true := by
  obtain ⟨st1, h1, a, b, c, _⟩ := step_unlock.1 hs
  rw [ht] at a; cases a; rw [hh] at b; cases b
  rcases c with c | c
  · exact c
  · rw [hv] at c; cases c

/-- once its commit has begun a transaction takes no `look`, `claim`, `wait`, `lock`, `publish`,
    `unlink` and no second `commit` -/
theorem growing_phase_is_over {s : PState} (hr : Reachable s) {t : Tx} {st : TxSt} {e : Ev}
    (ht : s.tx t = some st) (hc : st.committing = true) (hg : Grows t e) : step s e = none := by
  cases h : step s e with
  | none => rfl
  | some s' =>
    have := grows_phase hr.inv hg h
    rw [phase_of_tx ht, hc] at this; cases this

/-- along a trace: from `commit t` (position c) until the next `fin t`, no step of `t` is a growing step -/
theorem no_growth_after_commit {es : List Ev} {s : PState} (hs : runAll {} es = some s) {t : Tx}
    {c j : Nat} {e : Ev} (hcj : c < j) (hc : es[c]? = some (.commit t)) (he : es[j]? = some e)
    (hnf : ∀ p, c < p → p < j → es[p]? ≠ some (.fin t)) : ¬ Grows t e :=
  no_growth_positions hs hcj hc he hnf

/-- the only acquisition after the commit, `trylock` (the commit upgrades its read hold on an unused
    placeholder in order to drop it), needs the commit to have begun -/
theorem trylock_only_in_commit {s s' : PState} {t : Tx} {st : TxSt} {k : Key} {r : Rec}
    (hs : step s (.trylock t k r) = some s') (ht : s.tx t = some st) : st.committing = true := by
  obtain ⟨st1, a, b, _⟩ := step_trylock.1 hs
  rw [ht] at a; cases a; exact b

/-! ## 2. the lock point -/

/-- at `commit t` everything `t` holds is validated, and the commit step itself releases nothing -/
theorem lock_point {s s' : PState} {t : Tx} {st : TxSt} (hs : step s (.commit t) = some s')
    (ht : s.tx t = some st) :
    (∀ h ∈ st.holds, h.valid = true) ∧ s'.tx t = some { st with committing := true } := by
  obtain ⟨st1, a, _, _, hv, rfl⟩ := step_commit.1 hs
  rw [ht] at a; cases a
  exact ⟨hv, tx_setTx_same _ _ _⟩

/-- For a trace of any length: if position i validates `(t, r)`, position c > i is `commit t`, and `t`
    does not end in between (so it is the same run of the transaction), then no position j strictly in
    between releases `r` … -/
theorem lock_point_trace {es : List Ev} {s : PState} (hs : runAll {} es = some s) {t : Tx} {r : Rec}
    {i j c : Nat} {v : Ev} (hij : i < j) (hjc : j < c) (hv : es[i]? = some v) (hval : Validates t r v)
    (hc : es[c]? = some (.commit t)) (hnf : ∀ p, i < p → p < c → es[p]? ≠ some (.fin t)) :
    es[j]? ≠ some (.unlock t r) :=
  lock_point_positions hs hij hjc hv hval hc hnf

/-- … and in the state in which the commit is taken, `r` is held, validated: everything the command
    validated is held together at that instant. -/
theorem lock_point_all_held {es : List Ev} {s : PState} (hs : runAll {} es = some s) {t : Tx} {r : Rec}
    {i c : Nat} {v : Ev} (hic : i < c) (hv : es[i]? = some v) (hval : Validates t r v)
    (hc : es[c]? = some (.commit t)) (hnf : ∀ p, i < p → p < c → es[p]? ≠ some (.fin t)) :
    ∃ sc, runAll {} (es.take c) = some sc ∧ HoldsValid sc t r :=
  lock_point_held hs hic hv hval hc hnf

/-! ## 3. conflicts follow the commit order -/

/-- a validated hold released at position p: the `commit` of that run of the transaction is before p -/
theorem release_follows_commit {es : List Ev} {s : PState} (hs : runAll {} es = some s) {t : Tx} {r : Rec}
    {p : Nat} (h : ValidRelease es p t r) :
    ∃ c, c < p ∧ es[c]? = some (.commit t) ∧ ∀ j, c < j → j < p → es[j]? ≠ some (.fin t) :=
  release_after_commit hs h

/-- (ids used once) a lock granted at position q: the `commit` of that transaction, if any, is after q -/
theorem acquisition_precedes_commit {es : List Ev} {s : PState} (hs : runAll {} es = some s)
    (hb : BeginOnce es) {u : Tx} {r : Rec} {q c : Nat} (ha : Acquires es q u r)
    (hc : es[c]? = some (.commit u)) : q < c :=
  acquire_before_commit hs hb ha hc

/-- In a trace in which no transaction id begins twice: if `t` released a validated hold on a record
    before `u` was granted the lock of that record (in any modes, `t = u` included), then `t` has
    committed, and before every `commit u`. -/
theorem precedence_follows_commit_order {es : List Ev} {s : PState} (hs : runAll {} es = some s)
    (hb : BeginOnce es) {t u : Tx} (h : Conflict es t u) :
    ∃ ct : Nat, es[ct]? = some (Ev.commit t) ∧ ∀ cu : Nat, es[cu]? = some (Ev.commit u) → ct < cu :=
  (conflict_commit_order hs hb h).1

theorem conflict_orders_commitPos {es : List Ev} {s : PState} (hs : runAll {} es = some s)
    (hb : BeginOnce es) {t u : Tx} (h : Conflict es t u) : commitPos es t < commitPos es u :=
  (conflict_commit_order hs hb h).2

/-- the conflict graph of such a trace has no cycle: it is conflict-serializable, in commit order -/
theorem conflict_graph_acyclic {es : List Ev} {s : PState} (hs : runAll {} es = some s)
    (hb : BeginOnce es) (t : Tx) : ¬ Relation.TransGen (Conflict es) t t :=
  conflict_acyclic hs hb t

/-- the two holds of a conflict never overlap when one of them is a write hold (mutual exclusion),
    so `Conflict` relates every two transactions that used one record in conflicting modes -/
theorem conflicting_holds_do_not_overlap {s : PState} (hr : Reachable s) {t u : Tx} {st su : TxSt}
    {h g : Hold} (ht : s.tx t = some st) (hh : h ∈ st.holds) (hu : s.tx u = some su) (hg : g ∈ su.holds)
    (e : h.rid = g.rid) (hm : h.mode = .w ∨ g.mode = .w) : t = u :=
  hr.inv.compat t u st su h g ht hu hh hg e hm

/-- FINDING about the statement, not about the code: if `trylock` were counted as an acquisition the
    precedence would be FALSE. Both transactions read-hold the placeholder 10 of the missing key "a";
    2 commits first and releases it, then 1 commits and releases it, then 2's `TryLock` succeeds: 1
    released before 2 acquired, yet 2 committed first. Harmless: the hold obtained by `trylock` is
    only used to drop the placeholder, no value is read or written under it. -/
def trylockTrace : List Ev :=
  [.begin 1, .begin 2, .claim 1 "a" 10 .r, .wait 2 "a" 10 .r, .lock 2 "a" 10 .r, .valid 2 "a" 10 true,
   .commit 2, .unlock 2 10, .commit 1, .unlock 1 10, .trylock 2 "a" 10, .drop 2 "a" 10, .unlock 2 10,
   .fin 2, .fin 1]

theorem precedence_with_trylock_finding :
    (runAll {} trylockTrace).isSome = true ∧
    trylockTrace[9]? = some (.unlock 1 10) ∧
    (runAll {} (trylockTrace.take 9)).map (fun s => s.allHolds.map fun p => (p.1, p.2.rid, p.2.valid)) =
      some [(1, 10, true)] ∧
    trylockTrace[10]? = some (.trylock 2 "a" 10) ∧
    trylockTrace[6]? = some (.commit 2) ∧ trylockTrace[8]? = some (.commit 1) := by decide

/-! ## 4. a command that moves between two keys holds both -/

/-- While `t` write-holds the registered records of keys `a` and `b` (SMOVE, RENAME, RPOPLPUSH between
    its two updates), no other transaction holds the registered record of `a` or of `b` in any mode:
    nobody observes the state in between. (Neither `a ≠ b` nor the validity of the holds is needed.) -/
theorem moves_hold_both {s : PState} (hr : Reachable s) {t u : Tx} {st su : TxSt} {ha hb g : Hold}
    {a b : Key} (ht : s.tx t = some st) (h1 : ha ∈ st.holds) (h2 : hb ∈ st.holds)
    (hwa : ha.mode = .w) (hwb : hb.mode = .w) (hla : s.lookup a = some ha.rid) (hlb : s.lookup b = some hb.rid)
    (hne : u ≠ t) (hu : s.tx u = some su) (hg : g ∈ su.holds) :
    s.lookup a ≠ some g.rid ∧ s.lookup b ≠ some g.rid := by
  constructor
  · intro c
    have e : ha.rid = g.rid := by rw [hla] at c; exact Option.some.inj c
    exact hne (hr.inv.compat t u st su ha g ht hu h1 hg e (Or.inl hwa)).symm
  · intro c
    have e : hb.rid = g.rid := by rw [hlb] at c; exact Option.some.inj c
    exact hne (hr.inv.compat t u st su hb g ht hu h2 hg e (Or.inl hwb)).symm

/-- and both stay registered until `t` itself unlinks them (or a FLUSH): C05.3 -/
theorem moves_keep_both {s s' : PState} (hr : Reachable s) {t u : Tx} {st : TxSt} {ha hb : Hold}
    {a b : Key} {e : Ev} (ht : s.tx t = some st) (h1 : ha ∈ st.holds) (h2 : hb ∈ st.holds)
    (hla : s.lookup a = some ha.rid) (hlb : s.lookup b = some hb.rid)
    (he : evTx e = some u) (hne : u ≠ t) (hs : step s e = some s') :
    s'.lookup a = some ha.rid ∧ s'.lookup b = some hb.rid :=
  ⟨held_stays_registered hr.inv ht h1 hla he hne hs, held_stays_registered hr.inv ht h2 hlb he hne hs⟩

/-! ## 5. examples -/

/-- key "b" exists (record 2); "a" does not -/
def setupB : List Ev := [.begin 9, .claim 9 "b" 2 .w, .publish 9 "b" 2, .commit 9, .unlock 9 2, .fin 9]

/-- a RENAME b → a: claim "a", lock and validate "b", unlink "b" (with the placeholder 12 of `delKey`),
    publish "a", commit, drop the placeholder, release, end; transaction 3 waits for "b" meanwhile
    and gets it after the commit -/
def renameTrace : List Ev := setupB ++
  [.begin 1, .begin 3, .look 1 "a" none, .claim 1 "a" 11 .w, .look 1 "b" (some 2), .wait 1 "b" 2 .w,
   .lock 1 "b" 2 .w, .valid 1 "b" 2 true, .look 3 "b" (some 2), .wait 3 "b" 2 .r,
   .unlink 1 "b" 2, .claim 1 "b" 12 .w, .publish 1 "a" 11,
   .commit 1, .drop 1 "b" 12, .unlock 1 12, .unlock 1 2, .unlock 1 11, .fin 1,
   .lock 3 "b" 2 .r, .valid 3 "b" 2 false, .unlock 3 2, .look 3 "b" none]

theorem renameTrace_runs : (runAll {} renameTrace).isSome = true := by decide

/-- at its lock point transaction 1 holds all three records, validated -/
example : (runAll {} (renameTrace.take 19)).map (fun s => s.allHolds.map fun p => (p.1, p.2.rid, p.2.key, p.2.valid)) =
    some [(1, 12, "b", true), (1, 2, "b", true), (1, 11, "a", true)] ∧
    renameTrace[19]? = some (.commit 1) := by decide

/-- the hypotheses of (2) and (3) are satisfiable on it -/
example : Validates 1 2 (.valid 1 "b" 2 true) ∧ renameTrace[13]? = some (.valid 1 "b" 2 true) ∧
    renameTrace[19]? = some (.commit 1) := ⟨Or.inl ⟨_, rfl⟩, by decide, by decide⟩

example : BeginOnce renameTrace := beginOnce_of_nodup (by decide)

example : Conflict renameTrace 1 3 := by
  refine ⟨22, 25, 2, by decide, ⟨by decide, ?_⟩, ⟨"b", .r, by decide⟩⟩
  cases h : runAll {} (renameTrace.take 22) with
  | none => exact absurd h (by decide)
  | some sp =>
    refine ⟨sp, rfl, ?_⟩
    have h1 : (runAll {} (renameTrace.take 22)).map (fun s => (s.tx 1).map fun st => st.holds.map fun g => (g.rid, g.valid)) =
        some (some [(2, true), (11, true)]) := by decide
    rw [h] at h1
    simp only [Option.map_some, Option.some.injEq] at h1
    cases h2 : sp.tx 1 with
    | none => rw [h2] at h1; cases h1
    | some st =>
      rw [h2] at h1
      simp only [Option.map_some, Option.some.injEq] at h1
      match hh : st.holds, h1 with
      | g :: _, h1 =>
        simp only [List.map_cons, List.cons.injEq, Prod.mk.injEq] at h1
        exact ⟨st, g, h2, by rw [hh]; exact List.mem_cons_self, h1.1.2, h1.1.1⟩

/-- after the commit nothing more can be acquired: a `wait` is rejected -/
example : ((runAll {} (renameTrace.take 20)).bind (step · (.wait 1 "c" 2 .w))).isNone = true := by decide

/-- and releasing "b" before the commit is rejected -/
example : ((runAll {} (renameTrace.take 19)).bind (step · (.unlock 1 2))).isNone = true := by decide

/-! ## 6. the program level (work package T): strict two-phase locking in the code of tx.go -/

section ProgramLevel
open NodisVerif.Proofs.TxProg

/-- TRANSFER of `no_early_release`: when the program reports the release of a record on which the thread has a
    validated hold, the thread is inside `commit` -/
theorem prog_no_early_release {c c' : TxProg.Cfg} (hr : ProgReachable c) {t : TxProg.Tid} {ch : TxProg.Choice}
    {r : Rec} {g : Hold} (h : TxProg.step c t ch = some (c', some (.unlock t r)))
    (hg : g ∈ holdsOf (c.loc t)) (hrid : g.rid = r) (hv : g.valid = true) : committingOf (c.loc t) = true := by
  obtain ⟨p, _, hst⟩ := hr.strong
  obtain ⟨p', h1, _⟩ := strong_step hst h
  have hpc : (c.loc t).pc ≠ .init := by intro hx; simp [holdsOf, hx] at hg
  have htx := hst.sim.tx_some t hpc
  have hho := holdOf_of_mem (st := ⟨holdsOf (c.loc t), waitingOf (c.loc t), committingOf (c.loc t)⟩)
    (hst.sim.nodup t hpc) hg
  rw [hrid] at hho
  exact no_early_release h1 htx hho hv

/-- the shrinking phase is closed in the code: after the `commit` event the thread only leaves `commit` through
    its `end` event, with an empty `lockedMetas` -/
theorem prog_commit_phase_closed {s s' : TxProg.Shared} {t : TxProg.Tid} {l l' : TxProg.Loc} {ch : TxProg.Choice}
    {e : Option Ev} (h : TxProg.tstep s t l ch = some (s', l', e)) (hc : commitPc l.pc = true) :
    commitPc l'.pc = true ∨ (l' = {} ∧ e = some (.fin t)) := commit_phase_closed h hc

/-- … and it acquires nothing new there: the only events are unlock, trylock (the upgrade of a read-held placeholder
    the commit is about to drop), drop and fin -/
theorem prog_no_growth_in_commit {s s' : TxProg.Shared} {t : TxProg.Tid} {l l' : TxProg.Loc} {ch : TxProg.Choice}
    {ev : Ev} (h : TxProg.tstep s t l ch = some (s', l', some ev)) (hc : commitPc l.pc = true) :
    (∃ r, ev = .unlock t r) ∨ (∃ k r, ev = .trylock t k r) ∨ (∃ k r, ev = .drop t k r) ∨ ev = .fin t :=
  commit_phase_events h hc

/-- the lock point in the code: when the thread is about to report `commit` (pc c0) every record of
    `tx.lockedMetas` is validated and its mutex is owned by the thread in the recorded mode, all at once -/
theorem prog_lock_point {c : TxProg.Cfg} (hr : ProgReachable c) {t : TxProg.Tid} (hpc : (c.loc t).pc = .c0) :
    ∀ g ∈ (c.loc t).held, g.valid = true ∧ owns (c.sh.mu g.rid) t g.mode := by
  obtain ⟨p, _, hst⟩ := hr.strong
  intro g hg
  exact ⟨(hst.sim.thr t).val g hg, (hst.sim.thr t).own g (by simpa [holdsOf, hpc] using hg)⟩

/-- hypotheses are satisfiable: thread 1 of `schedCreate` at its lock point holds the record it created -/
example : ((TxProg.run {} (schedCreate.take 22)).1.loc 1).pc = .c0 ∧
    ((TxProg.run {} (schedCreate.take 22)).1.loc 1).held = [⟨10, "k", .w, true⟩] := by decide

end ProgramLevel

end NodisVerif.C07
