import NodisVerif.Model.DsZSet
import NodisVerif.Model.WF
import NodisVerif.Spec.ZSet
import NodisVerif.Proofs.C04Inv
import NodisVerif.Proofs.C04Seq
import NodisVerif.Proofs.C04Spec
import NodisVerif.Proofs.C04Rem
import NodisVerif.Proofs.C04ScoreSpec
import NodisVerif.Proofs.C04Rank
import NodisVerif.Proofs.C04Shadow
/-
  C04 — sorted sets stay ordered by (score, member); rank, range and score agree.

  Property theorems only; helper lemmas live in Proofs/C04*.lean.  The reference semantics is
  Spec/ZSet.lean: every ordered query is defined on `Spec.ZSet.sorted z`, the list of the
  dictionary's (score, member) pairs sorted by score then member bytes, which is computed from the
  member→score dictionary alone and never looks at the index `z.sl`.

  Everything is unbounded: every sorted set, every member byte string, every score bit pattern,
  every `Int` index, every operation sequence.  Hypotheses that occur:
    * `ZSet.WF z` — the invariant of Model/WF.lean (section 1 shows it is an invariant);
    * `F64.isNaN s = false` on a score that is *written* (a NaN score breaks the order: the Go code
      accepts it, Redis rejects it at parse time);
    * `ZeroSafe z m s` on ZADD / ZADD XX / ZINCRBY — see the finding `zadd_wf_finding`; the
      unconditional form is `run_shadowed` / `run_chain_sorted` (only the sign bit of a zero score
      can ever differ between dictionary and index);
    * `z.dict.length < 2 ^ 63` where the code computes `int(stop - start)`.

  Findings (every witness below was also replayed on the Go code): signed zero (`zadd_wf_finding`),
  NaN scores/bounds (`zadd_nan_finding`, `zrangebyscore_nan_finding`), 1-based rank windows with
  panics and a phantom header element (`zrange_finding`, `zrevrange_finding`,
  `zrange_last_k_panic_finding`), LIMIT counted before exclusive bounds are filtered and offset
  overshoot (`zrangebyscore_*_finding`).
-/
namespace NodisVerif.C04
open NodisVerif
open NodisVerif.DsZSet
open NodisVerif.Proofs.C04

/-! ## 1. The invariant -/

theorem wf_empty : DsZSet.empty.WF := inv_empty.toWF

/-
  FULL STATEMENT (false on the signed-zero region, see `zadd_wf_finding`):
    ∀ z m s, z.WF → F64.isNaN s = false → (zAdd z m s).1.WF
  FINDING REGION (decidable): the member exists with score `old`, `F64.eq s old` (IEEE equal) but
  `s ≠ old` as bit patterns — by `zeroSafe_region_exact` this is exactly: {s, old} = {+0.0, −0.0}.
  There `zAdd` stores the new bit pattern in the dictionary and leaves the old one in the skiplist
  (`if score != element.Score` is false), so ZSCORE and ZRANGE WITHSCORES disagree on the sign of zero.
-/
theorem zadd_wf_partial (z : ZSet) (h : z.WF) (m : Bytes) (s : F64) (hs : F64.isNaN s = false)
    (hz : ZeroSafe z m s) : (zAdd z m s).1.WF :=
  (inv_zAdd (Inv.ofWF h) m s hs hz).toWF

/-- the region is exactly "overwrite a zero with the zero of the other sign" -/
theorem zeroSafe_region_exact (z : ZSet) (m : Bytes) (s : F64) (hs : F64.isNaN s = false) :
    ¬ ZeroSafe z m s ↔
      (AList.get? z.dict m = some 0 ∧ s = F64.negZero) ∨ (AList.get? z.dict m = some F64.negZero ∧ s = 0) := by
  unfold ZeroSafe
  constructor
  · intro hn
    rw [Classical.not_forall] at hn
    obtain ⟨old, hn⟩ := hn
    rw [Classical.not_imp] at hn
    obtain ⟨hget, hn⟩ := hn
    rw [Classical.not_imp] at hn
    obtain ⟨heq, hne⟩ := hn
    rcases F64.eq_bits s old heq with h | ⟨h1, h2⟩ | ⟨h1, h2⟩
    · exact absurd h hne
    · right; rw [hget, h1, h2]; exact ⟨rfl, rfl⟩
    · left; rw [hget, h1, h2]; exact ⟨rfl, rfl⟩
  · rintro (⟨hget, rfl⟩ | ⟨hget, rfl⟩) hall
    · exact absurd (hall 0 hget (by decide)) (by decide)
    · exact absurd (hall F64.negZero hget (by decide)) (by decide)

/-- witness: ZADD k −0.0 a over a = +0.0 leaves (+0.0, a) in the index while the dictionary says −0.0 -/
theorem zadd_wf_finding :
    let z : ZSet := (zAdd DsZSet.empty [97] 0).1
    z.WF ∧ F64.isNaN F64.negZero = false ∧ ¬ ZeroSafe z [97] F64.negZero ∧
    ¬ (zAdd z [97] F64.negZero).1.WF ∧
    zScore (zAdd z [97] F64.negZero).1 [97] = some F64.negZero ∧
    (zAdd z [97] F64.negZero).1.sl = [(0, [97])] := by
  refine ⟨(inv_zAdd inv_empty [97] 0 (by decide) (by intro old h; simp [DsZSet.empty, AList.get?] at h)).toWF,
    by decide, ?_, ?_, by decide, by decide⟩
  · intro h
    exact absurd (h 0 (by decide) (by decide)) (by decide)
  · intro h
    have := h.agree [97] 0 (by decide)
    revert this
    decide

theorem zaddXX_wf_partial (z : ZSet) (h : z.WF) (m : Bytes) (s : F64) (hs : F64.isNaN s = false)
    (hz : ZeroSafe z m s) : (zAddXX z m s).1.WF :=
  (inv_zAddXX (Inv.ofWF h) m s hs hz).toWF

theorem zincrby_wf_partial (z : ZSet) (h : z.WF) (m : Bytes) (newScore : F64)
    (hs : F64.isNaN newScore = false) (hz : ZeroSafe z m newScore) : (zIncrByWith z m newScore).WF :=
  (inv_zAdd (Inv.ofWF h) m newScore hs hz).toWF

/-- NX never overwrites, LT / GT only write a strictly smaller / larger score: no region -/
theorem zaddNX_wf (z : ZSet) (h : z.WF) (m : Bytes) (s : F64) (hs : F64.isNaN s = false) :
    (zAddNX z m s).1.WF := (inv_zAddNX (Inv.ofWF h) m s hs).toWF

theorem zaddLT_wf (z : ZSet) (h : z.WF) (m : Bytes) (s : F64) (hs : F64.isNaN s = false) :
    (zAddLT z m s).1.WF := (inv_zAddLT (Inv.ofWF h) m s hs).toWF

theorem zaddGT_wf (z : ZSet) (h : z.WF) (m : Bytes) (s : F64) (hs : F64.isNaN s = false) :
    (zAddGT z m s).1.WF := (inv_zAddGT (Inv.ofWF h) m s hs).toWF

theorem zrem_wf (z : ZSet) (h : z.WF) (ms : List Bytes) : (zRem z ms).1.WF :=
  (inv_zRem (Inv.ofWF h) ms).toWF

theorem zremRangeByScore_wf (z : ZSet) (h : z.WF) (min max : F64) (mode : Nat) :
    (zRemRangeByScore z min max mode).1.WF := (inv_zRemRangeByScore (Inv.ofWF h) min max mode).toWF

theorem zremRangeByRank_wf (z : ZSet) (h : z.WF) (start stop : Int) :
    (zRemRangeByRank z start stop).1.WF := (inv_zRemRangeByRank (Inv.ofWF h) start stop).toWF

/-- a NaN score does break the invariant (why `isNaN s = false` is a hypothesis everywhere above) -/
theorem zadd_nan_finding :
    F64.isNaN 0x7FF8000000000000 = true ∧ ¬ (zAdd DsZSet.empty [97] 0x7FF8000000000000).1.WF := by
  refine ⟨by decide, ?_⟩
  intro h
  have := h.noNaN [97] 0x7FF8000000000000 (by decide)
  revert this
  decide

/-- any sequence of operations, each admissible in the state in which it runs -/
theorem wf_run_partial (z : ZSet) (h : z.WF) (ops : List Op) (hok : RunOk z ops) : (run z ops).WF :=
  (inv_run ops z (Inv.ofWF h) hok).toWF

/-- any sequence of operations whose written scores are neither NaN nor −0.0, from a set without
    −0.0 scores (in particular from the empty set): state-independent form -/
theorem wf_run_plain (z : ZSet) (h : z.WF) (hn : NoNegZero z) (ops : List Op)
    (hp : ∀ op ∈ ops, op.Plain) : (run z ops).WF ∧ NoNegZero (run z ops) :=
  let r := inv_run_plain ops z (Inv.ofWF h) hn hp
  ⟨r.1.toWF, r.2⟩

theorem wf_run_from_empty (ops : List Op) (hp : ∀ op ∈ ops, op.Plain) : (run DsZSet.empty ops).WF :=
  (wf_run_plain DsZSet.empty wf_empty (by intro p hp; simp [DsZSet.empty] at hp) ops hp).1

/-- UNCONDITIONAL form (only NaN excluded; signed zeros allowed): after any sequence of operations
    from a well-formed set, the state is shadowed by a well-formed set `w` with the *same index
    chain*, the same members in the dictionary and IEEE-equal scores (`Sim`); by `F64.eq_bits` two
    IEEE-equal scores are the same bit pattern or the two zeros — so the sign bit of a zero score
    in the dictionary is the only thing that can ever disagree with the index. -/
theorem run_shadowed (z : ZSet) (h : z.WF) (ops : List Op) (hn : ∀ op ∈ ops, op.NoNaN) :
    ∃ w, w.WF ∧ Sim (run z ops) w := by
  have hi := Inv.ofWF h
  obtain ⟨w, hw, hs⟩ := sim_run ops z z ⟨rfl, DictSim.refl_of z.dict hi.noNaN⟩ hi hn
  exact ⟨w, hw.toWF, hs⟩

/-- consequently the chain is always strictly sorted, as long as the dictionary, and the index
    reflects the dictionary up to the sign of zero — unconditionally (no `ZeroSafe`) -/
theorem run_chain_sorted (z : ZSet) (h : z.WF) (ops : List Op) (hn : ∀ op ∈ ops, op.NoNaN) :
    chainSorted (run z ops).sl ∧ (run z ops).sl.length = (run z ops).dict.length ∧
    ∀ s m, (s, m) ∈ (run z ops).sl →
      ∃ s', zScore (run z ops) m = some s' ∧ F64.eq s' s = true := by
  obtain ⟨w, hw, hs⟩ := run_shadowed z h ops hn
  refine ⟨by rw [hs.1]; exact hw.chainSorted, by rw [hs.1, hs.2.length_eq]; exact hw.sameLen, ?_⟩
  intro s m hm
  rw [hs.1] at hm
  have hget := hw.agree m s hm
  rcases hs.2.get? m with ⟨_, h2⟩ | ⟨s0, s1, h1, h2, he⟩
  · rw [h2] at hget; cases hget
  · rw [h2] at hget
    cases hget
    exact ⟨s0, h1, he⟩

/-- a shadowed state answers every ordered query exactly like its well-formed shadow (to which
    sections 2–7 apply); only ZSCORE can differ, and only in the sign of a zero -/
theorem shadow_same_answers (z w : ZSet) (hs : Sim z w) :
    (∀ start stop desc, forEachByRank z start stop desc = forEachByRank w start stop desc) ∧
    (∀ min max offset limit desc mode,
      rangeByScore z min max offset limit desc mode = rangeByScore w min max offset limit desc mode) ∧
    (∀ min max mode, zCount z min max mode = zCount w min max mode) ∧
    (∀ m, zRank z m = zRank w m) ∧ (∀ m, zRevRank z m = zRevRank w m) ∧
    zCard z = zCard w ∧
    (∀ m, (zScore z m = none ∧ zScore w m = none) ∨
      ∃ s s', zScore z m = some s ∧ zScore w m = some s' ∧ F64.eq s s' = true) :=
  sim_queries hs

/-- ZUNIONSTORE / ZINTERSTORE: `Api.zstore` builds the destination as
    `items.foldl (fun z it => (zAdd z it.2 it.1).1) DsZSet.empty` from items with pairwise distinct
    members (they come out of a member-keyed map): the result is well formed for every non-NaN
    aggregate (signed zeros included — nothing is overwritten), and its chain is the items sorted -/
theorem zstore_result_wf (items : List Item) (hn : ∀ it ∈ items, F64.isNaN it.1 = false)
    (hd : (items.map (·.2)).Nodup) :
    (items.foldl (fun z it => (zAdd z it.2 it.1).1) DsZSet.empty).WF :=
  (inv_buildFrom items DsZSet.empty inv_empty hn (by intro it _; rfl) hd).toWF

example : ∀ op ∈ [Op.add [97] 0, .add [97] F64.negZero, .incrBy [97] 0, .rem [[98]]], op.NoNaN := by
  intro op hop
  simp only [List.mem_cons, List.not_mem_nil, or_false] at hop
  rcases hop with rfl | rfl | rfl | rfl <;> simp [Op.NoNaN, Op.score?] <;> decide

/-- non-vacuity: a set built by the model's own operations, with a tie (two members at score 1.0),
    a score update, a negative-zero score and a removal; it is well formed, its chain is as expected -/
def demo : ZSet :=
  run DsZSet.empty
    [.add [98] 0x3FF0000000000000, .add [97] 0x3FF0000000000000, .add [99] F64.negZero,
     .add [100] 0x4000000000000000, .incrBy [100] 0xBFF0000000000000, .add [101] 0, .rem [[101]]]

example : demo.WF ∧ demo.sl = [(0xBFF0000000000000, [100]), (F64.negZero, [99]),
    (0x3FF0000000000000, [97]), (0x3FF0000000000000, [98])] := by
  refine ⟨?_, by decide⟩
  apply wf_run_partial _ wf_empty
  simp only [RunOk, Op.Ok, Op.apply, ZeroSafe]
  decide

example : ∀ op ∈ [Op.add [98] 0x3FF0000000000000, .addNX [97] 0x3FF0000000000000,
    .remRangeByRank 0 (-1)], op.Plain := by
  intro op hop
  simp only [List.mem_cons, List.not_mem_nil, or_false] at hop
  rcases hop with rfl | rfl | rfl <;> simp [Op.Plain, Op.score?] <;> decide

/-! ## 2. The index never disagrees with the dictionary -/

theorem chain_is_sorted_dict (z : ZSet) (h : z.WF) : z.sl = Spec.ZSet.sorted z :=
  sl_eq_sorted (Inv.ofWF h)

/-- conversely the reference list of any key-sorted NaN-free dictionary is a valid index for it -/
theorem sorted_dict_is_chain (z : ZSet) (hd : AList.Sorted z.dict)
    (hn : ∀ m s, (m, s) ∈ z.dict → F64.isNaN s = false) :
    ZSet.WF { dict := z.dict, sl := Spec.ZSet.sorted z } :=
  (inv_sorted z (Proofs.AListLemmas.sorted_pairwise z.dict hd) (fun p hp => hn p.1 p.2 hp)).toWF

/-! ## 3. One score per member, the last one assigned; ZCARD; ZSCORE -/

/-- holds for every set and every score, well formed or not -/
theorem last_score_wins (z : ZSet) (m : Bytes) (s : F64) :
    zScore (zAdd z m s).1 m = some s ∧ ∀ m', m' ≠ m → zScore (zAdd z m s).1 m' = zScore z m' := by
  have hd : (zAdd z m s).1.dict = AList.set z.dict m s := by
    unfold zAdd
    cases AList.get? z.dict m with
    | none => rfl
    | some old => simp only; split <;> rfl
  unfold zScore
  rw [hd]
  exact ⟨get?_set_self m s z.dict, fun m' hne => get?_set_other m m' s hne z.dict⟩

theorem zscore_spec (z : ZSet) (m : Bytes) : zScore z m = Spec.ZSet.score z m :=
  (score_eq_get? z m).symm

/-- the score reported for a member is the one the sorted list carries for it -/
theorem zscore_in_sorted (z : ZSet) (h : z.WF) (m : Bytes) (s : F64) :
    zScore z m = some s ↔ (s, m) ∈ Spec.ZSet.sorted z := by
  rw [← chain_is_sorted_dict z h]
  exact (Inv.ofWF h).get_iff s m

/-- ZCARD = length of the sorted list = length of the index, and the members are pairwise distinct -/
theorem zcard_exact (z : ZSet) (h : z.WF) :
    zCard z = (Spec.ZSet.card z : Int) ∧ zCard z = (z.sl.length : Int) ∧ (Spec.ZSet.members z).Nodup := by
  have hi := Inv.ofWF h
  unfold Spec.ZSet.card Spec.ZSet.members
  rw [← sl_eq_sorted hi]
  exact ⟨by unfold zCard; rw [hi.sameLen], by unfold zCard; rw [hi.sameLen], members_nodup hi⟩

theorem non_member_no_rank_no_score (z : ZSet) (h : z.WF) (m : Bytes)
    (hm : m ∉ Spec.ZSet.members z) :
    zScore z m = none ∧ zRank z m = none ∧ zRevRank z m = none ∧ zExists z m = false := by
  have hi := Inv.ofWF h
  have hnone : AList.get? z.dict m = none := by
    cases hget : AList.get? z.dict m with
    | none => rfl
    | some s =>
      exfalso
      apply hm
      unfold Spec.ZSet.members
      rw [← sl_eq_sorted hi]
      exact List.mem_map.mpr ⟨(s, m), (hi.get_iff s m).mp hget, rfl⟩
  simp [zScore, zRank, zRevRank, zExists, AList.contains, hnone]

/-! ## 4. Ranks are positions in the sorted list -/

theorem zrank_is_position (z : ZSet) (h : z.WF) (m : Bytes) : zRank z m = Spec.ZSet.rank z m :=
  zRank_spec (Inv.ofWF h) m

/-- the model's `length − r` for descending order *is* Redis' `card − 1 − rank` (r is 1-based) -/
theorem zrevrank_spec (z : ZSet) (h : z.WF) (m : Bytes) : zRevRank z m = Spec.ZSet.revRank z m :=
  zRevRank_spec (Inv.ofWF h) m

/-! ## 7. Removal ranges -/

/-- ZREMRANGEBYSCORE removes exactly the members whose score lies in the interval and returns
    their number (non-NaN bounds; mode bit 0 = min exclusive, bit 1 = max exclusive) -/
theorem zRemRangeByScore_spec (z : ZSet) (h : z.WF) (min max : F64)
    (hmin : F64.isNaN min = false) (hmax : F64.isNaN max = false) (mode : Nat) :
    (Spec.ZSet.sorted (zRemRangeByScore z min max mode).1, ((zRemRangeByScore z min max mode).2).toNat)
      = Spec.ZSet.remRangeByScore z min max (minOpen mode) (maxOpen mode) ∧
    0 ≤ (zRemRangeByScore z min max mode).2 :=
  Proofs.C04.zRemRangeByScore_spec (Inv.ofWF h) min max hmin hmax mode

/-- ZREMRANGEBYRANK: 0-based inclusive, negative from the end, clamped — every `Int` start/stop -/
theorem zRemRangeByRank_spec (z : ZSet) (h : z.WF) (start stop : Int) :
    (Spec.ZSet.sorted (zRemRangeByRank z start stop).1, ((zRemRangeByRank z start stop).2).toNat)
      = Spec.ZSet.remRangeByRank z start stop ∧ 0 ≤ (zRemRangeByRank z start stop).2 :=
  Proofs.C04.zRemRangeByRank_spec (Inv.ofWF h) start stop

/-- ZREM: exactly the listed members disappear, everything else keeps score and relative order -/
theorem zRem_spec (z : ZSet) (h : z.WF) (ms : List Bytes) :
    Spec.ZSet.sorted (zRem z ms).1 = (Spec.ZSet.sorted z).filter (fun it => decide (it.2 ∉ ms)) ∧
    (zRem z ms).2 = (Spec.ZSet.card z : Int) - Spec.ZSet.card (zRem z ms).1 :=
  zRem_sorted (Inv.ofWF h) ms

/-- ZADD: the member is re-placed according to its new score, everything else is untouched -/
theorem zAdd_spec_partial (z : ZSet) (h : z.WF) (m : Bytes) (s : F64) (hs : F64.isNaN s = false)
    (hz : ZeroSafe z m s) : Spec.ZSet.sorted (zAdd z m s).1 = Spec.ZSet.add z m s :=
  zAdd_sorted (Inv.ofWF h) m s hs hz

/-! ## 6. Ranges by score

  `hsize : z.dict.length < 2 ^ 63` (the cardinality fits Go's int64; always true in memory) is needed
  wherever the code computes `int(stop - start)`. -/

/-- ZCOUNT, every mode, every bound (NaN bounds included: both sides count nothing) -/
theorem zcount_spec (z : ZSet) (h : z.WF) (hsize : z.dict.length < 2 ^ 63) (min max : F64) (mode : Nat) :
    zCount z min max mode = some (Spec.ZSet.count z min max (minOpen mode) (maxOpen mode) : Int) :=
  zCount_spec (Inv.ofWF h) hsize min max mode

/-
  FULL STATEMENT (false, see the three findings below):
    ∀ z min max offset count desc mode, z.WF →
      rangeByScore z min max offset count desc mode =
        if desc then Spec.revRangeByScoreLimit z min max (minOpen mode) (maxOpen mode) offset count
        else Spec.rangeByScoreLimit z min max (minOpen mode) (maxOpen mode) offset count
  FINDING REGIONS (decidable):
    (a) a bound is NaN  (`zrangebyscore_nan_finding`; Redis rejects NaN bounds at parse time);
    (b) LIMIT is used (offset > 0 or count > 0), a bound is exclusive and some member's score equals
        that bound: offset and count are consumed by the excluded members
        (`zrangebyscore_limit_before_filter_finding`);
    (c) offset ≥ number of members in the closed range > 0 and the walk has not reached the end of
        the chain: the node the cursor lands on, outside the range, is returned
        (`zrangebyscore_offset_overshoot_finding`, `zrevrangebyscore_offset_overshoot_finding`).
  Outside (a)(b)(c) the statement is `zrangebyscore_spec_partial`; `zrangebyscore_model_closed_form`
  gives what the model returns on *all* non-NaN inputs.
-/

/-- no LIMIT (offset 0, negative count): every mode, both directions, full agreement -/
theorem zrangebyscore_spec_nolimit (z : ZSet) (h : z.WF) (min max : F64)
    (hmin : F64.isNaN min = false) (hmax : F64.isNaN max = false) (count : Int) (hc : count < 0)
    (mode : Nat) :
    rangeByScore z min max 0 count false mode
      = Spec.ZSet.rangeByScore z min max (minOpen mode) (maxOpen mode) ∧
    rangeByScore z min max 0 count true mode
      = Spec.ZSet.revRangeByScore z min max (minOpen mode) (maxOpen mode) :=
  ⟨rangeByScore_noLimit (Inv.ofWF h) min max hmin hmax count hc false mode,
   rangeByScore_noLimit (Inv.ofWF h) min max hmin hmax count hc true mode⟩

/-- with LIMIT: agreement outside regions (a)(b)(c) -/
theorem zrangebyscore_spec_partial (z : ZSet) (h : z.WF) (min max : F64)
    (hmin : F64.isNaN min = false) (hmax : F64.isNaN max = false) (offset count : Int) (desc : Bool)
    (mode : Nat)
    (hb : ∀ a ∈ Spec.ZSet.sorted z, inC min max a = true → keepB min max mode a = true)
    (hoff : offset.toNat < Spec.ZSet.count z min max false false ∨
      Spec.ZSet.count z min max false false = 0) :
    rangeByScore z min max offset count desc mode =
      if desc then Spec.ZSet.revRangeByScoreLimit z min max (minOpen mode) (maxOpen mode) offset count
      else Spec.ZSet.rangeByScoreLimit z min max (minOpen mode) (maxOpen mode) offset count :=
  rangeByScore_limit (Inv.ofWF h) min max hmin hmax offset count desc mode
    (by rw [sl_eq_sorted (Inv.ofWF h)]; exact hb) hoff

/-- closed bounds are never in region (b) -/
theorem zrangebyscore_closed_bounds_partial (z : ZSet) (h : z.WF) (min max : F64)
    (hmin : F64.isNaN min = false) (hmax : F64.isNaN max = false) (offset count : Int) (desc : Bool)
    (mode : Nat) (h1 : minOpen mode = false) (h2 : maxOpen mode = false)
    (hoff : offset.toNat < Spec.ZSet.count z min max false false ∨
      Spec.ZSet.count z min max false false = 0) :
    rangeByScore z min max offset count desc mode =
      if desc then Spec.ZSet.revRangeByScoreLimit z min max false false offset count
      else Spec.ZSet.rangeByScoreLimit z min max false false offset count := by
  have := zrangebyscore_spec_partial z h min max hmin hmax offset count desc mode
    (fun a _ _ => closed_keep min max mode h1 h2 a) hoff
  rw [h1, h2] at this
  exact this

/-- what the model returns for every non-NaN input: `R` = closed range in walk order, `B` = what
    the walk meets after it; LIMIT applies to `R` before exclusive bounds are filtered; an offset
    past `R` yields the one node it lands on -/
theorem zrangebyscore_model_closed_form (z : ZSet) (h : z.WF) (min max : F64)
    (hmin : F64.isNaN min = false) (hmax : F64.isNaN max = false) (offset count : Int) (desc : Bool)
    (mode : Nat) :
    rangeByScore z min max offset count desc mode =
      if count = 0 ∨ offset < 0 then [] else
      let R := if desc then (z.sl.filter (inC min max)).reverse else z.sl.filter (inC min max)
      let B := if desc then (belowRange z.sl min max).reverse else aboveRange z.sl min max
      if offset.toNat < R.length then
        (takeLim count 0 (R.drop offset.toNat)).filter (keepB min max mode)
      else if R = [] then [] else (B.drop (offset.toNat - R.length)).take 1 :=
  rangeByScore_closed (Inv.ofWF h) min max hmin hmax offset count desc mode

/-- the three members a:1.0 b:2.0 c:3.0 used by the witnesses -/
def abc : ZSet :=
  run DsZSet.empty [.add [97] 0x3FF0000000000000, .add [98] 0x4000000000000000, .add [99] 0x4008000000000000]

theorem abc_wf : abc.WF := wf_run_from_empty _ (by
  intro op hop
  simp only [List.mem_cons, List.not_mem_nil, or_false] at hop
  rcases hop with rfl | rfl | rfl <;> simp [Op.Plain, Op.score?] <;> decide)

/-- non-vacuity of the hypotheses of `zrangebyscore_spec_partial`: [1.0, 3.0] LIMIT 1 1 on `abc`
    (closed bounds), and (0.0, 3.0] LIMIT 1 1 (exclusive bound that no member sits on) -/
example : abc.dict.length < 2 ^ 63 ∧
    (∀ a ∈ Spec.ZSet.sorted abc, inC 0x3FF0000000000000 0x4008000000000000 a = true →
      keepB 0x3FF0000000000000 0x4008000000000000 0 a = true) ∧
    (∀ a ∈ Spec.ZSet.sorted abc, inC 0 0x4008000000000000 a = true →
      keepB 0 0x4008000000000000 1 a = true) ∧
    ((1 : Int).toNat < Spec.ZSet.count abc 0x3FF0000000000000 0x4008000000000000 false false) ∧
    Spec.ZSet.rangeByScoreLimit abc 0 0x4008000000000000 true false 1 1 = [(0x4000000000000000, [98])] := by
  decide

/-- (b) ZRANGEBYSCORE k (1 3 LIMIT 0 1: Redis answers [b]; the model spends the count on the
    excluded `a` and answers [] -/
theorem zrangebyscore_limit_before_filter_finding :
    abc.WF ∧
    rangeByScore abc 0x3FF0000000000000 0x4008000000000000 0 1 false 1 = [] ∧
    Spec.ZSet.rangeByScoreLimit abc 0x3FF0000000000000 0x4008000000000000 true false 0 1
      = [(0x4000000000000000, [98])] ∧ minOpen 1 = true ∧ maxOpen 1 = false := by
  refine ⟨abc_wf, ?_, by decide, by decide, by decide⟩
  rw [zrangebyscore_model_closed_form abc abc_wf _ _ (by decide) (by decide)]
  decide

/-- (c) ZRANGEBYSCORE k 1 2 LIMIT 2 -1: Redis answers []; the model answers [c] (score 3, outside) -/
theorem zrangebyscore_offset_overshoot_finding :
    rangeByScore abc 0x3FF0000000000000 0x4000000000000000 2 (-1) false 0 = [(0x4008000000000000, [99])] ∧
    Spec.ZSet.rangeByScoreLimit abc 0x3FF0000000000000 0x4000000000000000 false false 2 (-1) = [] := by
  refine ⟨?_, by decide⟩
  rw [zrangebyscore_model_closed_form abc abc_wf _ _ (by decide) (by decide)]
  decide

/-- (c) descending: ZREVRANGEBYSCORE k 3 2 LIMIT 2 -1 answers [a] (score 1, outside) -/
theorem zrevrangebyscore_offset_overshoot_finding :
    rangeByScore abc 0x4000000000000000 0x4008000000000000 2 (-1) true 0 = [(0x3FF0000000000000, [97])] ∧
    Spec.ZSet.revRangeByScoreLimit abc 0x4000000000000000 0x4008000000000000 false false 2 (-1) = [] := by
  refine ⟨?_, by decide⟩
  rw [zrangebyscore_model_closed_form abc abc_wf _ _ (by decide) (by decide)]
  decide

/-- (a) a NaN lower bound returns the first member instead of nothing; a NaN upper bound makes
    ZREMRANGEBYSCORE delete everything from `min` up (the reference deletes nothing) -/
theorem zrangebyscore_nan_finding :
    F64.isNaN 0x7FF8000000000000 = true ∧
    rangeByScore abc 0x7FF8000000000000 0x4008000000000000 0 (-1) false 0 = [(0x3FF0000000000000, [97])] ∧
    Spec.ZSet.rangeByScore abc 0x7FF8000000000000 0x4008000000000000 false false = [] ∧
    (zRemRangeByScore abc 0x4000000000000000 0x7FF8000000000000 0).2 = 2 ∧
    (Spec.ZSet.remRangeByScore abc 0x4000000000000000 0x7FF8000000000000 false false).2 = 0 := by
  refine ⟨by decide, ?_, by decide, by decide, by decide⟩
  unfold rangeByScore
  simp only [show ¬ ((-1 : Int) = 0 ∨ (0 : Int) < 0) by decide, if_false, Bool.false_eq_true]
  rw [skipN_zero]
  decide

/-! ## 5. Ranges by rank

  `forEachByRank` treats `start`/`stop` as 1-based ranks (0 aliased to 1); the repository's own
  tests pin this, so it is a known finding. -/

/-
  FULL STATEMENT (false): ∀ z start stop, z.WF →
      zRange z start stop = some (Spec.rangeByRank z start stop) ∧
      zRevRange z start stop = some (Spec.revRangeByRank z start stop)
  It holds on `RankRegion start stop card` (resp. `RevRankRegion`), a decidable region:
      start = 0 ∧ (stop < 0 ∨ stop ≥ card)            -- e.g. ZRANGE k 0 -1, ZRANGE k 0 -2
    ∨ start > card                                      -- both empty
    ∨ 1 ≤ start ∧ 0 ≤ stop < start                      -- both empty
    ∨ 1 ≤ start ∧ stop < 0 ∧ card + stop + 1 < start    -- both empty
    (ZREVRANGE only) ∨ 1 < start ≤ stop < card
  Everywhere else with start ≥ 0 the model is given in closed form by `zrange_model_closed_form` /
  `zrevrange_model_closed_form`; witnesses of disagreement, including two panics and a phantom
  element, follow.
-/
theorem zrange_spec_partial (z : ZSet) (h : z.WF) (hsize : z.dict.length < 2 ^ 63) (start stop : Int)
    (hr : RankRegion start stop (zCard z)) :
    zRange z start stop = some (Spec.ZSet.rangeByRank z start stop) := by
  have hi := Inv.ofWF h
  unfold Spec.ZSet.rangeByRank zRange
  rw [← sl_eq_sorted hi]
  apply zrange_region hi.sameLen hsize
  have : zCard z = (z.sl.length : Int) := by unfold zCard; rw [hi.sameLen]
  rw [← this]; exact hr

theorem zrevrange_spec_partial (z : ZSet) (h : z.WF) (hsize : z.dict.length < 2 ^ 63)
    (start stop : Int) (hr : RevRankRegion start stop (zCard z)) :
    zRevRange z start stop = some (Spec.ZSet.revRangeByRank z start stop) := by
  have hi := Inv.ofWF h
  unfold Spec.ZSet.revRangeByRank zRevRange
  rw [← sl_eq_sorted hi]
  apply zrevrange_region hi.sameLen hsize
  have : zCard z = (z.sl.length : Int) := by unfold zCard; rw [hi.sameLen]
  rw [← this]; exact hr

/-- the model's actual semantics: for 1 ≤ start ≤ stop, ZRANGE returns the members of 1-based ranks
    start..stop, i.e. what Redis returns for `ZRANGE (start-1) (stop-1)` -/
theorem zrange_is_one_based (z : ZSet) (h : z.WF) (hsize : z.dict.length < 2 ^ 63) (start stop : Int)
    (h1 : 1 ≤ start) (h2 : start ≤ stop) :
    zRange z start stop = some (Spec.ZSet.rangeByRank z (start - 1) (stop - 1)) := by
  have hi := Inv.ofWF h
  unfold Spec.ZSet.rangeByRank zRange
  rw [← sl_eq_sorted hi]
  exact zrange_one_based hi.sameLen hsize start stop h1 h2

/-- every ascending window with `start ≥ 0` (never panics) -/
theorem zrange_model_closed_form (z : ZSet) (h : z.WF) (hsize : z.dict.length < 2 ^ 63)
    (start stop : Int) (h0 : 0 ≤ start) :
    zRange z start stop =
      some (if stop1 (zCard z) stop < start1 start then []
            else Spec.ZSet.slice (Spec.ZSet.sorted z) (start1 start - 1) (stop1 (zCard z) stop - 1)) := by
  have hi := Inv.ofWF h
  have : zCard z = (z.sl.length : Int) := by unfold zCard; rw [hi.sameLen]
  rw [this, ← sl_eq_sorted hi]
  exact zrange_closed hi.sameLen hsize start stop h0

/-- every descending window with `start ≥ 0`: 0-based from the top when start ∈ {0,1} (one item
    short), the skiplist *header* as a phantom member when start = card, a nil dereference when
    1 < start < card ≤ stop, and Redis' answer when 1 < start ≤ stop < card -/
theorem zrevrange_model_closed_form (z : ZSet) (h : z.WF) (hsize : z.dict.length < 2 ^ 63)
    (start stop : Int) (h0 : 0 ≤ start) :
    zRevRange z start stop =
      if start > zCard z ∨ stop1 (zCard z) stop < start1 start then some []
      else if start1 start = 1 then
        some (Spec.ZSet.slice (Spec.ZSet.sorted z).reverse 0 (stop1 (zCard z) stop - 1))
      else if start1 start = zCard z then some [headerItem]
      else if stop1 (zCard z) stop ≥ zCard z then none
      else some (Spec.ZSet.slice (Spec.ZSet.sorted z).reverse (start1 start) (stop1 (zCard z) stop)) := by
  have hi := Inv.ofWF h
  have : zCard z = (z.sl.length : Int) := by unfold zCard; rw [hi.sameLen]
  rw [this, ← sl_eq_sorted hi]
  exact zrevrange_closed hi.sameLen hsize start stop h0

/-- ascending windows with a negative `start` (|start| < 2^62): `card + start` is read as a 1-based
    rank, and when it is ≤ 1 the walk still runs `stop − (card + start) + 1` steps from the head —
    `none` = nil dereference when that exceeds the chain -/
theorem zrange_negative_start_closed_form (z : ZSet) (h : z.WF) (hsize : z.dict.length < 2 ^ 63)
    (start stop : Int) (h0 : start < 0) (hb : -(2 ^ 62) ≤ start) :
    zRange z start stop =
      if stop1 (zCard z) stop < start then some [] else
      let s : Int := zCard z + start
      let k : Int := min (stop1 (zCard z) stop) (zCard z) - s + 1
      if k ≤ 0 then some []
      else if k ≤ zCard z - ((s.toNat - 1 : Nat) : Int)
        then some (((Spec.ZSet.sorted z).drop (s.toNat - 1)).take k.toNat)
      else none := by
  have hi := Inv.ofWF h
  have : zCard z = (z.sl.length : Int) := by unfold zCard; rw [hi.sameLen]
  rw [this, ← sl_eq_sorted hi]
  exact zrange_closed_neg hi.sameLen hsize start stop h0 hb

/-- "the last k members" with k ≥ card > 0: `ZRANGE key -k -1` panics (Redis: all members) -/
theorem zrange_last_k_panic_finding (z : ZSet) (h : z.WF) (hsize : z.dict.length < 2 ^ 63)
    (start : Int) (hpos : 0 < zCard z) (h1 : start ≤ -(zCard z)) (hb : -(2 ^ 62) ≤ start) :
    zRange z start (-1) = none ∧ Spec.ZSet.rangeByRank z start (-1) = Spec.ZSet.sorted z := by
  have hi := Inv.ofWF h
  have hc : zCard z = (z.sl.length : Int) := by unfold zCard; rw [hi.sameLen]
  rw [hc] at hpos h1
  refine ⟨zrange_last_k_panics hi.sameLen hsize start (by omega) h1 hb, ?_⟩
  unfold Spec.ZSet.rangeByRank
  rw [← sl_eq_sorted hi, slice_norm]
  have hs' : normStart (z.sl.length) start = 0 := by unfold normStart; split <;> (try split) <;> omega
  have he' : normStop (z.sl.length) (-1) = (z.sl.length : Int) - 1 := by
    unfold normStop; simp only; split <;> (try split) <;> omega
  rw [hs', he', if_neg (by omega)]
  simp only [Int.toNat_zero, List.drop_zero]
  apply List.take_of_length_le
  omega

/-- witnesses on {a:1, b:2, c:3}: ZRANGE 0 0 is empty (Redis: [a]); ZRANGE 1 1 is [a] (Redis: [b]);
    ZRANGE -1 -1 is [b, c] (Redis: [c]); ZRANGE -3 -1 panics (Redis: everything);
    ZREVRANGE 0 1 is [c] (Redis: [c, b]); ZREVRANGE 3 3 returns the skiplist header (0, "") (Redis: []);
    ZREVRANGE 2 -1 panics (Redis: [a]) -/
theorem zrange_finding :
    zRange abc 0 0 = some [] ∧ Spec.ZSet.rangeByRank abc 0 0 = [(0x3FF0000000000000, [97])] ∧
    zRange abc 1 1 = some [(0x3FF0000000000000, [97])] ∧
      Spec.ZSet.rangeByRank abc 1 1 = [(0x4000000000000000, [98])] ∧
    zRange abc (-1) (-1) = some [(0x4000000000000000, [98]), (0x4008000000000000, [99])] ∧
      Spec.ZSet.rangeByRank abc (-1) (-1) = [(0x4008000000000000, [99])] ∧
    zRange abc (-3) (-1) = none ∧ (Spec.ZSet.rangeByRank abc (-3) (-1)).length = 3 := by
  decide

theorem zrevrange_finding :
    zRevRange abc 0 1 = some [(0x4008000000000000, [99])] ∧
      Spec.ZSet.revRangeByRank abc 0 1 = [(0x4008000000000000, [99]), (0x4000000000000000, [98])] ∧
    zRevRange abc 3 3 = some [(0, [])] ∧ Spec.ZSet.revRangeByRank abc 3 3 = [] ∧
    zRevRange abc 2 (-1) = none ∧ Spec.ZSet.revRangeByRank abc 2 (-1) = [(0x3FF0000000000000, [97])] ∧
    -- negative windows: ZREVRANGE -1 -1 panics (Redis: [a]); ZREVRANGE -2 -1 returns all three (Redis: [b, a])
    zRevRange abc (-1) (-1) = none ∧ Spec.ZSet.revRangeByRank abc (-1) (-1) = [(0x3FF0000000000000, [97])] ∧
    (zRevRange abc (-2) (-1)).map List.length = some 3 ∧ (Spec.ZSet.revRangeByRank abc (-2) (-1)).length = 2 := by
  decide

/-- non-vacuity of the regions -/
example : RankRegion 0 (-1) (zCard abc) ∧ RankRegion 0 (-2) (zCard abc) ∧ RankRegion 0 7 (zCard abc) ∧
    RevRankRegion 2 2 (zCard abc + 1) ∧ ¬ RankRegion 0 0 (zCard abc) ∧ ¬ RankRegion 1 2 (zCard abc) := by
  decide

/- UNPROVED (not needed for any theorem above, listed for completeness):
   * Exactness ("only if") of `RankRegion` / `RevRankRegion` and of the LIMIT conditions of
     `zrangebyscore_spec_partial`: outside these regions the model is given in closed form
     (`zrange_model_closed_form`, `zrevrange_model_closed_form`, `zrange_negative_start_closed_form`,
     `zrangebyscore_model_closed_form`) and disagreement is shown by witnesses, but there is no
     theorem "∀ inputs outside the region, model ≠ reference".
   * ZREVRANGE with a negative `start`: witnesses only (`zrevrange_finding`), no closed form.
   * `start < -2^62` (int64 wrap-around of `stop - start`) is excluded from
     `zrange_negative_start_closed_form`.
   * ZSCAN (also built on `forEachByRank`) is not part of the property text and is not treated.
-/

end NodisVerif.C04
