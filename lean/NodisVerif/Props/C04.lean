import NodisVerif.Model.DsZSet
import NodisVerif.Model.WF
import NodisVerif.Spec.ZSet
import NodisVerif.Proofs.C04Inv
import NodisVerif.Proofs.C04Seq
import NodisVerif.Proofs.C04Spec
import NodisVerif.Proofs.C04Rem
import NodisVerif.Proofs.C04ScoreSpec
import NodisVerif.Proofs.C04Rank
import NodisVerif.Proofs.C08Step
import NodisVerif.Model.Handler3
import NodisVerif.Proofs.SkiplistFuel
import NodisVerif.Proofs.SkiplistSpansRun
import NodisVerif.Proofs.SkiplistZSet
import NodisVerif.Proofs.SkiplistHeader
import NodisVerif.Proofs.SkiplistZHeader
import NodisVerif.Proofs.SkiplistZRange
import NodisVerif.Proofs.FloatDecTrip
import NodisVerif.Proofs.FloatDecInt
import NodisVerif.Proofs.FloatDecLen
import NodisVerif.Proofs.FloatDecMono2
import NodisVerif.Proofs.FloatDecNear
import NodisVerif.Proofs.GeoAdd
import NodisVerif.Proofs.GeoRange
import NodisVerif.Proofs.F64NotNaN
import NodisVerif.Proofs.C04ZAddPairs
/-
  C04 — sorted sets stay ordered by (score, member); rank, range and score agree.

  Property theorems only; helper lemmas live in Proofs/C04*.lean.  The reference semantics is
  Spec/ZSet.lean: every ordered query is defined on `Spec.ZSet.sorted z`, the list of the
  dictionary's (score, member) pairs sorted by score then member bytes, which is computed from the
  member→score dictionary alone and never looks at the index `z.sl`.

  Everything is unbounded: every sorted set, every member byte string, every score bit pattern,
  every `Int` index, every operation sequence.  Hypotheses that occur:
    * `ZSet.WF z` — the invariant of Model/WF.lean (section 1 shows it is an invariant);
    * `F64.isNaN s = false` on a score that is *written* (a NaN score breaks the order: the Go code
      accepts it, Redis rejects it at parse time);
    * `z.dict.length < 2 ^ 63` where the code computes `int(stop - start)`.

  After the repairs of the Go code (ZADD with an IEEE-equal score is a no-op; ZRANGEBYSCORE applies
  offset/limit to the members that satisfy the bounds) the signed-zero region and the LIMIT regions
  are gone: sections 1, 6, 7 hold in full.  Remaining findings (each witness was replayed on the Go
  code): NaN scores and NaN bounds of ZREMRANGEBYSCORE (`zadd_nan_finding`,
  `zremrangebyscore_nan_finding`), and the 1-based rank windows of ZRANGE / ZREVRANGE with panics
  and a phantom header element (`zrange_finding`, `zrevrange_finding`,
  `zrange_last_k_panic_finding`) — pinned by the repository's own tests.
-/
namespace NodisVerif.C04
open NodisVerif
open NodisVerif.DsZSet
open NodisVerif.Proofs.C04

/-! ## 1. The invariant -/

theorem wf_empty : DsZSet.empty.WF := inv_empty.toWF

/-- ZADD keeps the invariant for every member and every non-NaN score (any insertion order, ties,
    updates, signed zeros) -/
theorem zadd_wf (z : ZSet) (h : z.WF) (m : Bytes) (s : F64) (hs : F64.isNaN s = false) :
    (zAdd z m s).1.WF := (inv_zAdd (Inv.ofWF h) m s hs).toWF

theorem zaddXX_wf (z : ZSet) (h : z.WF) (m : Bytes) (s : F64) (hs : F64.isNaN s = false) :
    (zAddXX z m s).1.WF := (inv_zAddXX (Inv.ofWF h) m s hs).toWF

theorem zaddNX_wf (z : ZSet) (h : z.WF) (m : Bytes) (s : F64) (hs : F64.isNaN s = false) :
    (zAddNX z m s).1.WF := (inv_zAddNX (Inv.ofWF h) m s hs).toWF

theorem zaddLT_wf (z : ZSet) (h : z.WF) (m : Bytes) (s : F64) (hs : F64.isNaN s = false) :
    (zAddLT z m s).1.WF := (inv_zAddLT (Inv.ofWF h) m s hs).toWF

theorem zaddGT_wf (z : ZSet) (h : z.WF) (m : Bytes) (s : F64) (hs : F64.isNaN s = false) :
    (zAddGT z m s).1.WF := (inv_zAddGT (Inv.ofWF h) m s hs).toWF

theorem zincrby_wf (z : ZSet) (h : z.WF) (m : Bytes) (newScore : F64)
    (hs : F64.isNaN newScore = false) : (zIncrByWith z m newScore).WF :=
  (inv_zAdd (Inv.ofWF h) m newScore hs).toWF

theorem zrem_wf (z : ZSet) (h : z.WF) (ms : List Bytes) : (zRem z ms).1.WF :=
  (inv_zRem (Inv.ofWF h) ms).toWF

theorem zremRangeByScore_wf (z : ZSet) (h : z.WF) (min max : F64) (mode : Nat) :
    (zRemRangeByScore z min max mode).1.WF := (inv_zRemRangeByScore (Inv.ofWF h) min max mode).toWF

theorem zremRangeByRank_wf (z : ZSet) (h : z.WF) (start stop : Int) :
    (zRemRangeByRank z start stop).1.WF := (inv_zRemRangeByRank (Inv.ofWF h) start stop).toWF

/-- a NaN score does break the invariant (why `isNaN s = false` is a hypothesis everywhere above;
    NaN cannot arrive over RESP any more, the data-structure function still accepts it) -/
theorem zadd_nan_finding :
    F64.isNaN 0x7FF8000000000000 = true ∧ ¬ (zAdd DsZSet.empty [97] 0x7FF8000000000000).1.WF := by
  refine ⟨by decide, ?_⟩
  intro h
  have := h.noNaN [97] 0x7FF8000000000000 (by decide)
  revert this
  decide

/-- after ZADD of +0.0 and then −0.0 for the same member nothing disagrees any more: the stored
    score stays +0.0 in the dictionary and in the index (this input was the former signed-zero
    finding) -/
theorem zadd_signed_zero_consistent :
    let z : ZSet := (zAdd (zAdd DsZSet.empty [97] 0).1 [97] F64.negZero).1
    z.WF ∧ zScore z [97] = some 0 ∧ z.sl = [(0, [97])] :=
  ⟨zadd_wf _ (zadd_wf _ wf_empty [97] 0 (by decide)) [97] F64.negZero (by decide), by decide, by decide⟩

/-- any sequence of operations whose written scores are not NaN — for every member, any insertion
    order, duplicate scores, score updates, removals, signed zeros -/
theorem wf_run (z : ZSet) (h : z.WF) (ops : List Op) (hok : ∀ op ∈ ops, op.NoNaN) : (run z ops).WF :=
  (inv_run ops z (Inv.ofWF h) hok).toWF

theorem wf_run_from_empty (ops : List Op) (hok : ∀ op ∈ ops, op.NoNaN) : (run DsZSet.empty ops).WF :=
  wf_run DsZSet.empty wf_empty ops hok

/-- ZUNIONSTORE / ZINTERSTORE: `Api.zstore` builds the destination as
    `items.foldl (fun z it => (zAdd z it.2 it.1).1) DsZSet.empty`; the result is well formed for
    every non-NaN aggregate -/
theorem zstore_result_wf (items : List Item) (hn : ∀ it ∈ items, F64.isNaN it.1 = false) :
    (items.foldl (fun z it => (zAdd z it.2 it.1).1) DsZSet.empty).WF :=
  (inv_buildFrom items DsZSet.empty inv_empty hn).toWF

/-- non-vacuity: a set built by the model's own operations, with a tie (two members at score 1.0),
    a score update, a negative-zero score, an overwrite of a zero by the other zero and a removal;
    it is well formed, its chain is as expected -/
def demoOps : List Op :=
  [.add [98] 0x3FF0000000000000, .add [97] 0x3FF0000000000000, .add [99] F64.negZero,
   .add [100] 0x4000000000000000, .incrBy [100] 0xBFF0000000000000, .add [99] 0, .add [101] 0,
   .rem [[101]]]

def demo : ZSet := run DsZSet.empty demoOps

example : (∀ op ∈ demoOps, op.NoNaN) ∧ demo.WF ∧
    demo.sl = [(0xBFF0000000000000, [100]), (F64.negZero, [99]),
      (0x3FF0000000000000, [97]), (0x3FF0000000000000, [98])] := by
  have hok : ∀ op ∈ demoOps, op.NoNaN := by
    intro op hop
    simp only [demoOps, List.mem_cons, List.not_mem_nil, or_false] at hop
    rcases hop with rfl | rfl | rfl | rfl | rfl | rfl | rfl | rfl <;>
      simp [Op.NoNaN, Op.score?] <;> decide
  exact ⟨hok, wf_run_from_empty _ hok, by decide⟩

/-! ## 2. The index never disagrees with the dictionary -/

theorem chain_is_sorted_dict (z : ZSet) (h : z.WF) : z.sl = Spec.ZSet.sorted z :=
  sl_eq_sorted (Inv.ofWF h)

/-- conversely the reference list of any key-sorted NaN-free dictionary is a valid index for it -/
theorem sorted_dict_is_chain (z : ZSet) (hd : AList.Sorted z.dict)
    (hn : ∀ m s, (m, s) ∈ z.dict → F64.isNaN s = false) :
    ZSet.WF { dict := z.dict, sl := Spec.ZSet.sorted z } :=
  (inv_sorted z (Proofs.AListLemmas.sorted_pairwise z.dict hd) (fun p hp => hn p.1 p.2 hp)).toWF

/-! ## 3. One score per member, the last one assigned; ZCARD; ZSCORE -/

/-- after `ZADD m s` (s not NaN; any set, well formed or not) the member's score is IEEE-equal to
    `s`; it is `s` bit for bit unless the member already held the zero of the other sign (an
    IEEE-equal score is not an update, as in Redis); every other member keeps its score -/
theorem last_score_wins (z : ZSet) (m : Bytes) (s : F64) (hs : F64.isNaN s = false) :
    (∃ s', zScore (zAdd z m s).1 m = some s' ∧ F64.eq s' s = true ∧
      (s' = s ∨ (zScore z m = some s' ∧ ((s' = 0 ∧ s = F64.negZero) ∨ (s' = F64.negZero ∧ s = 0))))) ∧
    ∀ m', m' ≠ m → zScore (zAdd z m s).1 m' = zScore z m' :=
  zAdd_score z m s hs

/-- in particular: a new member, or a score that is not IEEE-equal to the stored one, is stored
    bit for bit -/
theorem last_score_wins_exact (z : ZSet) (m : Bytes) (s : F64) (hs : F64.isNaN s = false)
    (hne : ∀ old, zScore z m = some old → F64.eq s old = false) :
    zScore (zAdd z m s).1 m = some s := by
  obtain ⟨⟨s', h1, h2, h3⟩, _⟩ := zAdd_score z m s hs
  rcases h3 with rfl | ⟨hold, _⟩
  · exact h1
  · have := hne s' hold
    rw [eq_symm s' s h2] at this
    cases this

theorem zscore_spec (z : ZSet) (m : Bytes) : zScore z m = Spec.ZSet.score z m :=
  (score_eq_get? z m).symm

/-- the score reported for a member is the one the sorted list carries for it -/
theorem zscore_in_sorted (z : ZSet) (h : z.WF) (m : Bytes) (s : F64) :
    zScore z m = some s ↔ (s, m) ∈ Spec.ZSet.sorted z := by
  rw [← chain_is_sorted_dict z h]
  exact (Inv.ofWF h).get_iff s m

/-- ZCARD = length of the sorted list = length of the index, and the members are pairwise distinct -/
theorem zcard_exact (z : ZSet) (h : z.WF) :
    zCard z = (Spec.ZSet.card z : Int) ∧ zCard z = (z.sl.length : Int) ∧ (Spec.ZSet.members z).Nodup := by
  have hi := Inv.ofWF h
  unfold Spec.ZSet.card Spec.ZSet.members
  rw [← sl_eq_sorted hi]
  exact ⟨by unfold zCard; rw [hi.sameLen], by unfold zCard; rw [hi.sameLen], members_nodup hi⟩

theorem non_member_no_rank_no_score (z : ZSet) (h : z.WF) (m : Bytes)
    (hm : m ∉ Spec.ZSet.members z) :
    zScore z m = none ∧ zRank z m = none ∧ zRevRank z m = none ∧ zExists z m = false := by
  have hi := Inv.ofWF h
  have hnone : AList.get? z.dict m = none := by
    cases hget : AList.get? z.dict m with
    | none => rfl
    | some s =>
      exfalso
      apply hm
      unfold Spec.ZSet.members
      rw [← sl_eq_sorted hi]
      exact List.mem_map.mpr ⟨(s, m), (hi.get_iff s m).mp hget, rfl⟩
  simp [zScore, zRank, zRevRank, zExists, AList.contains, hnone]

/-! ## 4. Ranks are positions in the sorted list -/

theorem zrank_is_position (z : ZSet) (h : z.WF) (m : Bytes) : zRank z m = Spec.ZSet.rank z m :=
  zRank_spec (Inv.ofWF h) m

/-- the model's `length − r` for descending order *is* Redis' `card − 1 − rank` (r is 1-based) -/
theorem zrevrank_spec (z : ZSet) (h : z.WF) (m : Bytes) : zRevRank z m = Spec.ZSet.revRank z m :=
  zRevRank_spec (Inv.ofWF h) m

/-! ## 7. Removal ranges -/

/-- ZREMRANGEBYSCORE removes exactly the members whose score lies in the interval and returns
    their number (non-NaN bounds; mode bit 0 = min exclusive, bit 1 = max exclusive) -/
theorem zRemRangeByScore_spec (z : ZSet) (h : z.WF) (min max : F64)
    (hmin : F64.isNaN min = false) (hmax : F64.isNaN max = false) (mode : Nat) :
    (Spec.ZSet.sorted (zRemRangeByScore z min max mode).1, ((zRemRangeByScore z min max mode).2).toNat)
      = Spec.ZSet.remRangeByScore z min max (minOpen mode) (maxOpen mode) ∧
    0 ≤ (zRemRangeByScore z min max mode).2 :=
  Proofs.C04.zRemRangeByScore_spec (Inv.ofWF h) min max hmin hmax mode

/-- ZREMRANGEBYRANK: 0-based inclusive, negative from the end, clamped — every `Int` start/stop -/
theorem zRemRangeByRank_spec (z : ZSet) (h : z.WF) (start stop : Int) :
    (Spec.ZSet.sorted (zRemRangeByRank z start stop).1, ((zRemRangeByRank z start stop).2).toNat)
      = Spec.ZSet.remRangeByRank z start stop ∧ 0 ≤ (zRemRangeByRank z start stop).2 :=
  Proofs.C04.zRemRangeByRank_spec (Inv.ofWF h) start stop

/-- ZREM: exactly the listed members disappear, everything else keeps score and relative order -/
theorem zRem_spec (z : ZSet) (h : z.WF) (ms : List Bytes) :
    Spec.ZSet.sorted (zRem z ms).1 = (Spec.ZSet.sorted z).filter (fun it => decide (it.2 ∉ ms)) ∧
    (zRem z ms).2 = (Spec.ZSet.card z : Int) - Spec.ZSet.card (zRem z ms).1 :=
  zRem_sorted (Inv.ofWF h) ms

/-- ZADD: the member is (re)placed according to its stored score `s'` (IEEE-equal to the score
    given, see `last_score_wins`), everything else is untouched -/
theorem zAdd_spec (z : ZSet) (h : z.WF) (m : Bytes) (s : F64) (hs : F64.isNaN s = false) :
    ∃ s', zScore (zAdd z m s).1 m = some s' ∧ F64.eq s' s = true ∧
      Spec.ZSet.sorted (zAdd z m s).1 = Spec.ZSet.add z m s' :=
  zAdd_sorted (Inv.ofWF h) m s hs

/-! ## 6. Ranges by score

  `hsize : z.dict.length < 2 ^ 63` (the cardinality fits Go's int64; always true in memory) is needed
  wherever the code computes `int(stop - start)`. -/

/-- ZCOUNT, every mode, every bound (NaN bounds included: both sides count nothing) -/
theorem zcount_spec (z : ZSet) (h : z.WF) (hsize : z.dict.length < 2 ^ 63) (min max : F64) (mode : Nat) :
    zCount z min max mode = some (Spec.ZSet.count z min max (minOpen mode) (maxOpen mode) : Int) :=
  zCount_spec (Inv.ofWF h) hsize min max mode

/-- ZRANGEBYSCORE / ZREVRANGEBYSCORE, in full: every bound (NaN included: both sides are empty),
    every mode (open / closed ends), both directions, every offset and every count (offset < 0 or
    count = 0: empty; count < 0: all) -/
theorem zrangebyscore_spec (z : ZSet) (h : z.WF) (min max : F64) (offset count : Int) (desc : Bool)
    (mode : Nat) :
    rangeByScore z min max offset count desc mode =
      if desc then Spec.ZSet.revRangeByScoreLimit z min max (minOpen mode) (maxOpen mode) offset count
      else Spec.ZSet.rangeByScoreLimit z min max (minOpen mode) (maxOpen mode) offset count :=
  rangeByScore_spec (Inv.ofWF h) min max offset count desc mode

/-- the two directions separately, without LIMIT -/
theorem zrangebyscore_spec_nolimit (z : ZSet) (h : z.WF) (min max : F64) (count : Int) (hc : count < 0)
    (mode : Nat) :
    rangeByScore z min max 0 count false mode
      = Spec.ZSet.rangeByScore z min max (minOpen mode) (maxOpen mode) ∧
    rangeByScore z min max 0 count true mode
      = Spec.ZSet.revRangeByScore z min max (minOpen mode) (maxOpen mode) := by
  have h1 := zrangebyscore_spec z h min max 0 count false mode
  have h2 := zrangebyscore_spec z h min max 0 count true mode
  simp only [Bool.false_eq_true, if_false, if_true, Spec.ZSet.rangeByScoreLimit,
    Spec.ZSet.revRangeByScoreLimit, Spec.ZSet.limitBy, Int.lt_irrefl, Int.toNat_zero, List.drop_zero,
    hc] at h1 h2
  exact ⟨h1, h2⟩

/-- the three members a:1.0 b:2.0 c:3.0 used by the witnesses -/
def abc : ZSet :=
  run DsZSet.empty [.add [97] 0x3FF0000000000000, .add [98] 0x4000000000000000, .add [99] 0x4008000000000000]

theorem abc_wf : abc.WF := wf_run_from_empty _ (by
  intro op hop
  simp only [List.mem_cons, List.not_mem_nil, or_false] at hop
  rcases hop with rfl | rfl | rfl <;> simp [Op.NoNaN, Op.score?] <;> decide)

/-- the inputs of the former LIMIT findings now agree with Redis:
    ZRANGEBYSCORE (1 3 LIMIT 0 1 = [b];  ZRANGEBYSCORE 1 2 LIMIT 2 -1 = [];
    ZREVRANGEBYSCORE 3 2 LIMIT 2 -1 = [];  a NaN lower bound yields nothing -/
example :
    rangeByScore abc 0x3FF0000000000000 0x4008000000000000 0 1 false 1 = [(0x4000000000000000, [98])] ∧
    rangeByScore abc 0x3FF0000000000000 0x4000000000000000 2 (-1) false 0 = [] ∧
    rangeByScore abc 0x4000000000000000 0x4008000000000000 2 (-1) true 0 = [] ∧
    rangeByScore abc 0x7FF8000000000000 0x4008000000000000 0 (-1) false 0 = [] := by
  decide

/-- ZREMRANGEBYSCORE still mishandles a NaN upper bound: everything from `min` up is deleted (the
    reference deletes nothing; Redis rejects NaN bounds, and so does the RESP parser now) -/
theorem zremrangebyscore_nan_finding :
    F64.isNaN 0x7FF8000000000000 = true ∧
    (zRemRangeByScore abc 0x4000000000000000 0x7FF8000000000000 0).2 = 2 ∧
    (Spec.ZSet.remRangeByScore abc 0x4000000000000000 0x7FF8000000000000 false false).2 = 0 := by
  decide

/-! ## 5. Ranges by rank

  `forEachByRank` treats `start`/`stop` as 1-based ranks (0 aliased to 1); the repository's own
  tests pin this, so it is a known finding. -/

/-
  FULL STATEMENT (false): ∀ z start stop, z.WF →
      zRange z start stop = some (Spec.rangeByRank z start stop) ∧
      zRevRange z start stop = some (Spec.revRangeByRank z start stop)
  It holds on `RankRegion start stop card` (resp. `RevRankRegion`), a decidable region:
      start = 0 ∧ (stop < 0 ∨ stop ≥ card)            -- e.g. ZRANGE k 0 -1, ZRANGE k 0 -2
    ∨ start > card                                      -- both empty
    ∨ 1 ≤ start ∧ 0 ≤ stop < start                      -- both empty
    ∨ 1 ≤ start ∧ stop < 0 ∧ card + stop + 1 < start    -- both empty
    (ZREVRANGE only) ∨ 1 < start ≤ stop < card
  Everywhere else with start ≥ 0 the model is given in closed form by `zrange_model_closed_form` /
  `zrevrange_model_closed_form`; witnesses of disagreement, including two panics and a phantom
  element, follow.
-/
theorem zrange_spec_partial (z : ZSet) (h : z.WF) (hsize : z.dict.length < 2 ^ 63) (start stop : Int)
    (hr : RankRegion start stop (zCard z)) :
    zRange z start stop = some (Spec.ZSet.rangeByRank z start stop) := by
  have hi := Inv.ofWF h
  unfold Spec.ZSet.rangeByRank zRange
  rw [← sl_eq_sorted hi]
  apply zrange_region hi.sameLen hsize
  have : zCard z = (z.sl.length : Int) := by unfold zCard; rw [hi.sameLen]
  rw [← this]; exact hr

theorem zrevrange_spec_partial (z : ZSet) (h : z.WF) (hsize : z.dict.length < 2 ^ 63)
    (start stop : Int) (hr : RevRankRegion start stop (zCard z)) :
    zRevRange z start stop = some (Spec.ZSet.revRangeByRank z start stop) := by
  have hi := Inv.ofWF h
  unfold Spec.ZSet.revRangeByRank zRevRange
  rw [← sl_eq_sorted hi]
  apply zrevrange_region hi.sameLen hsize
  have : zCard z = (z.sl.length : Int) := by unfold zCard; rw [hi.sameLen]
  rw [← this]; exact hr

/-- the model's actual semantics: for 1 ≤ start ≤ stop, ZRANGE returns the members of 1-based ranks
    start..stop, i.e. what Redis returns for `ZRANGE (start-1) (stop-1)` -/
theorem zrange_is_one_based (z : ZSet) (h : z.WF) (hsize : z.dict.length < 2 ^ 63) (start stop : Int)
    (h1 : 1 ≤ start) (h2 : start ≤ stop) :
    zRange z start stop = some (Spec.ZSet.rangeByRank z (start - 1) (stop - 1)) := by
  have hi := Inv.ofWF h
  unfold Spec.ZSet.rangeByRank zRange
  rw [← sl_eq_sorted hi]
  exact zrange_one_based hi.sameLen hsize start stop h1 h2

/-- every ascending window with `start ≥ 0` (never panics) -/
theorem zrange_model_closed_form (z : ZSet) (h : z.WF) (hsize : z.dict.length < 2 ^ 63)
    (start stop : Int) (h0 : 0 ≤ start) :
    zRange z start stop =
      some (if stop1 (zCard z) stop < start1 start then []
            else Spec.ZSet.slice (Spec.ZSet.sorted z) (start1 start - 1) (stop1 (zCard z) stop - 1)) := by
  have hi := Inv.ofWF h
  have : zCard z = (z.sl.length : Int) := by unfold zCard; rw [hi.sameLen]
  rw [this, ← sl_eq_sorted hi]
  exact zrange_closed hi.sameLen hsize start stop h0

/-- every descending window with `start ≥ 0`: 0-based from the top when start ∈ {0,1} (one item
    short), the skiplist *header* as a phantom member when start = card, a nil dereference when
    1 < start < card ≤ stop, and Redis' answer when 1 < start ≤ stop < card -/
theorem zrevrange_model_closed_form (z : ZSet) (h : z.WF) (hsize : z.dict.length < 2 ^ 63)
    (start stop : Int) (h0 : 0 ≤ start) :
    zRevRange z start stop =
      if start > zCard z ∨ stop1 (zCard z) stop < start1 start then some []
      else if start1 start = 1 then
        some (Spec.ZSet.slice (Spec.ZSet.sorted z).reverse 0 (stop1 (zCard z) stop - 1))
      else if start1 start = zCard z then some [headerItem]
      else if stop1 (zCard z) stop ≥ zCard z then none
      else some (Spec.ZSet.slice (Spec.ZSet.sorted z).reverse (start1 start) (stop1 (zCard z) stop)) := by
  have hi := Inv.ofWF h
  have : zCard z = (z.sl.length : Int) := by unfold zCard; rw [hi.sameLen]
  rw [this, ← sl_eq_sorted hi]
  exact zrevrange_closed hi.sameLen hsize start stop h0

/-- ascending windows with a negative `start` (|start| < 2^62): `card + start` is read as a 1-based
    rank, and when it is ≤ 1 the walk still runs `stop − (card + start) + 1` steps from the head —
    `none` = nil dereference when that exceeds the chain -/
theorem zrange_negative_start_closed_form (z : ZSet) (h : z.WF) (hsize : z.dict.length < 2 ^ 63)
    (start stop : Int) (h0 : start < 0) (hb : -(2 ^ 62) ≤ start) :
    zRange z start stop =
      if stop1 (zCard z) stop < start then some [] else
      let s : Int := zCard z + start
      let k : Int := min (stop1 (zCard z) stop) (zCard z) - s + 1
      if k ≤ 0 then some []
      else if k ≤ zCard z - ((s.toNat - 1 : Nat) : Int)
        then some (((Spec.ZSet.sorted z).drop (s.toNat - 1)).take k.toNat)
      else none := by
  have hi := Inv.ofWF h
  have : zCard z = (z.sl.length : Int) := by unfold zCard; rw [hi.sameLen]
  rw [this, ← sl_eq_sorted hi]
  exact zrange_closed_neg hi.sameLen hsize start stop h0 hb

/-- "the last k members" with k ≥ card > 0: `ZRANGE key -k -1` panics (Redis: all members) -/
theorem zrange_last_k_panic_finding (z : ZSet) (h : z.WF) (hsize : z.dict.length < 2 ^ 63)
    (start : Int) (hpos : 0 < zCard z) (h1 : start ≤ -(zCard z)) (hb : -(2 ^ 62) ≤ start) :
    zRange z start (-1) = none ∧ Spec.ZSet.rangeByRank z start (-1) = Spec.ZSet.sorted z := by
  have hi := Inv.ofWF h
  have hc : zCard z = (z.sl.length : Int) := by unfold zCard; rw [hi.sameLen]
  rw [hc] at hpos h1
  refine ⟨zrange_last_k_panics hi.sameLen hsize start (by omega) h1 hb, ?_⟩
  unfold Spec.ZSet.rangeByRank
  rw [← sl_eq_sorted hi, slice_norm]
  have hs' : normStart (z.sl.length) start = 0 := by unfold normStart; split <;> (try split) <;> omega
  have he' : normStop (z.sl.length) (-1) = (z.sl.length : Int) - 1 := by
    unfold normStop; simp only; split <;> (try split) <;> omega
  rw [hs', he', if_neg (by omega)]
  simp only [Int.toNat_zero, List.drop_zero]
  apply List.take_of_length_le
  omega

/-- witnesses on {a:1, b:2, c:3}: ZRANGE 0 0 is empty (Redis: [a]); ZRANGE 1 1 is [a] (Redis: [b]);
    ZRANGE -1 -1 is [b, c] (Redis: [c]); ZRANGE -3 -1 panics (Redis: everything);
    ZREVRANGE 0 1 is [c] (Redis: [c, b]); ZREVRANGE 3 3 returns the skiplist header (0, "") (Redis: []);
    ZREVRANGE 2 -1 panics (Redis: [a]) -/
theorem zrange_finding :
    zRange abc 0 0 = some [] ∧ Spec.ZSet.rangeByRank abc 0 0 = [(0x3FF0000000000000, [97])] ∧
    zRange abc 1 1 = some [(0x3FF0000000000000, [97])] ∧
      Spec.ZSet.rangeByRank abc 1 1 = [(0x4000000000000000, [98])] ∧
    zRange abc (-1) (-1) = some [(0x4000000000000000, [98]), (0x4008000000000000, [99])] ∧
      Spec.ZSet.rangeByRank abc (-1) (-1) = [(0x4008000000000000, [99])] ∧
    zRange abc (-3) (-1) = none ∧ (Spec.ZSet.rangeByRank abc (-3) (-1)).length = 3 := by
  decide

theorem zrevrange_finding :
    zRevRange abc 0 1 = some [(0x4008000000000000, [99])] ∧
      Spec.ZSet.revRangeByRank abc 0 1 = [(0x4008000000000000, [99]), (0x4000000000000000, [98])] ∧
    zRevRange abc 3 3 = some [(0, [])] ∧ Spec.ZSet.revRangeByRank abc 3 3 = [] ∧
    zRevRange abc 2 (-1) = none ∧ Spec.ZSet.revRangeByRank abc 2 (-1) = [(0x3FF0000000000000, [97])] ∧
    -- negative windows: ZREVRANGE -1 -1 panics (Redis: [a]); ZREVRANGE -2 -1 returns all three (Redis: [b, a])
    zRevRange abc (-1) (-1) = none ∧ Spec.ZSet.revRangeByRank abc (-1) (-1) = [(0x3FF0000000000000, [97])] ∧
    (zRevRange abc (-2) (-1)).map List.length = some 3 ∧ (Spec.ZSet.revRangeByRank abc (-2) (-1)).length = 2 := by
  decide

/-- non-vacuity of the regions -/
example : RankRegion 0 (-1) (zCard abc) ∧ RankRegion 0 (-2) (zCard abc) ∧ RankRegion 0 7 (zCard abc) ∧
    RevRankRegion 2 2 (zCard abc + 1) ∧ ¬ RankRegion 0 0 (zCard abc) ∧ ¬ RankRegion 1 2 (zCard abc) := by
  decide

/-! ## the command layer: which bound an exclusive mark belongs to

  The theorems above are about the API functions and their mode bits. The handlers turn the text of the
  bounds into those bits; with REV (and in ZREVRANGEBYSCORE) the FIRST bound is the maximum. The handlers had
  the two marks crossed in the reversed forms (repaired: `fix:` in known_findings.json); the model had
  mirrored that. These witnesses pin the repaired behaviour end to end through the dispatch table
  (z = {a:1, b:2, c:3, d:4}). -/
section handlers
open NodisVerif.Proofs.C08Step Resp Server

private def zk : Bytes := [122]
private def b (s : String) : Bytes := Bytes.ofString s
private def zsetup : Cmd := { id := "c", name := "ZADD", args := [zk, b "1", b "a", b "2", b "b", b "3", b "c", b "4", b "d"] }
private def q (name : String) (args : List String) : Cmd := { id := "c", name := name, args := zk :: args.map b }
private def reply (c : Cmd) : List Tok := ((run Handler3.table3 { store := {} } [zsetup, c]).2.getD 1 [])
private def names (l : List String) : List Tok := Tok.arr l.length :: l.map fun x => Tok.bulk (b x)

/-- ZREVRANGEBYSCORE z 4 (1: the maximum 4 is included, the minimum 1 is excluded -/
theorem zrevrangebyscore_exclusive_min : reply (q "ZREVRANGEBYSCORE" ["4", "(1"]) = names ["d", "c", "b"] := by decide +kernel
/-- ZREVRANGEBYSCORE z (4 1: the maximum 4 is excluded, the minimum 1 is included -/
theorem zrevrangebyscore_exclusive_max : reply (q "ZREVRANGEBYSCORE" ["(4", "1"]) = names ["c", "b", "a"] := by decide +kernel
theorem zrevrangebyscore_both_exclusive : reply (q "ZREVRANGEBYSCORE" ["(4", "(1"]) = names ["c", "b"] := by decide +kernel
/-- the same through ZRANGE ... BYSCORE REV, and the forward forms for comparison -/
theorem zrange_byscore_rev_exclusive_min : reply (q "ZRANGE" ["4", "(1", "BYSCORE", "REV"]) = names ["d", "c", "b"] := by decide +kernel
theorem zrange_byscore_rev_exclusive_max : reply (q "ZRANGE" ["(4", "1", "BYSCORE", "REV"]) = names ["c", "b", "a"] := by decide +kernel
theorem zrangebyscore_exclusive_min : reply (q "ZRANGEBYSCORE" ["(1", "4"]) = names ["b", "c", "d"] := by decide +kernel
theorem zrangebyscore_exclusive_max : reply (q "ZRANGEBYSCORE" ["1", "(4"]) = names ["a", "b", "c"] := by decide +kernel
theorem zrange_byscore_exclusive_min : reply (q "ZRANGE" ["(1", "4", "BYSCORE"]) = names ["b", "c", "d"] := by decide +kernel

end handlers

/- UNPROVED (not needed for any theorem above, listed for completeness):
   * Exactness ("only if") of `RankRegion` / `RevRankRegion`: outside these regions the model is
     given in closed form (`zrange_model_closed_form`, `zrevrange_model_closed_form`,
     `zrange_negative_start_closed_form`) and disagreement is shown by witnesses, but there is no
     theorem "∀ inputs outside the region, model ≠ reference".
   * ZREVRANGE with a negative `start`: witnesses only (`zrevrange_finding`), no closed form.
   * `start < -2^62` (int64 wrap-around of `stop - start`) is excluded from
     `zrange_negative_start_closed_form`.
   * ZSCAN (also built on `forEachByRank`) is not part of the property text and is not treated.
   * The command layer (text of bounds, LIMIT, WITHSCORES, option positions → arguments of the API functions) is
     tied to the code by the RESP streams and pinned by witnesses only; there is no general theorem relating
     the handlers' parsing to the reference semantics.
-/

/-! ## 12. The real skiplist: pointers, levels, spans (work package A)

  `Model/Skiplist.lean` is ds/zset/skiplist.go itself — a heap of nodes addressed by index, `forward` / `backward`
  pointers, per-level spans, the `update[]` / `rank[]` arrays, the same span arithmetic; the random level of `insert`
  is a parameter — and it is executed against the real code on every run (`sl …` / `slz …` streams of the check:
  the whole structure is compared after every operation). The theorems of this section say that it refines the
  sorted list of sections 1–11:

  * `Skiplist.Inv sl` (Proofs/SkiplistInv.lean, `IsChain`): there is a chain `c` of distinct heap indexes — the nodes
    reached from the header by level-0 forwards, ending in nil — with items strictly increasing by (score, member), no
    NaN; every level-`i` link of the header and of every chain node points to the next chain node whose height exceeds
    `i` (nil if none) and, when it is not nil, its span is the distance in chain positions; `backward` = the previous
    node (nil for the first); `tail` = the last node; `length` = number of nodes; heights in `1..level`,
    `1 ≤ level ≤ 16`, `level` = the maximal height (or 1).
  * `Skiplist.abs sl` = the items along the level-0 chain (computed by the executable `chain`).
  * `Skiplist.InvSpans sl` adds the discipline of links that END in nil: below `level` such a link spans
    `length − position`. Header levels at or above `level` keep whatever `removeNode` left there (stale spans; `insert`
    overwrites them when the level grows): they are not constrained, the tie compares them verbatim.

  Everything is for ALL heaps satisfying the invariant, all arguments, every level 1..16. -/
section skiplist
open NodisVerif.Skiplist (SL makeSkiplist maxLevel chain)

/-- the example state used below: five operations from `makeSkiplist()`, heights 2, 1, 3, 1 (one removal) -/
def slDemoOps : List Skiplist.SlOp :=
  [.insert [97] 0x3FF0000000000000 2, .insert [98] 0x4000000000000000 1, .insert [99] 0x3FF0000000000000 3,
   .insert [100] 0x8000000000000000 1, .remove [98] 0x4000000000000000]

def slDemo : SL := (Skiplist.runM makeSkiplist slDemoOps).toOption.getD makeSkiplist

theorem skiplist_demo : Skiplist.runM makeSkiplist slDemoOps = .ok slDemo ∧ Skiplist.Inv slDemo ∧ slDemo.level = 3 ∧
    Skiplist.abs slDemo = [(0x8000000000000000, [100]), (0x3FF0000000000000, [97]), (0x3FF0000000000000, [99])] := by
  have hok : Skiplist.OpsOk [] slDemoOps := by
    simp only [slDemoOps, Skiplist.OpsOk, Skiplist.OpOk, Skiplist.stepL]
    decide
  obtain ⟨sl, hr, hi, _⟩ := Skiplist.run_inv_from_empty slDemoOps hok
  have hr' : Skiplist.runM makeSkiplist slDemoOps = .ok slDemo := rfl
  have : sl = slDemo := by rw [hr] at hr'; exact Except.ok.inj hr'
  subst this
  exact ⟨hr, hi, by decide, by decide⟩

/-- `makeSkiplist()` satisfies the invariant; its chain is empty -/
theorem skiplist_empty_inv : Skiplist.Inv makeSkiplist ∧ Skiplist.abs makeSkiplist = [] :=
  ⟨Skiplist.makeSkiplist_inv, Skiplist.abs_makeSkiplist⟩

/-- under the invariant the chain is strictly ordered by (score, member), NaN-free, and `length` counts it -/
theorem skiplist_inv_sorted (sl : SL) (h : Skiplist.Inv sl) :
    (Skiplist.abs sl).Pairwise ILt ∧ (∀ a ∈ Skiplist.abs sl, Proofs.ZSetLemmas.Good a) ∧
    sl.length = ((Skiplist.abs sl).length : Int) :=
  ⟨(Skiplist.inv_sorted h).1, (Skiplist.inv_sorted h).2, Skiplist.inv_length h⟩

/-- `insert_refines`: inserting a new member with a non-NaN score at ANY level 1..16 keeps the invariant (all
    forwards, spans, backward, tail, length, level) and is `slInsert` on the chain; no panic, no fuel exhaustion -/
theorem skiplist_insert_refines (sl : SL) (h : Skiplist.Inv sl) (m : Bytes) (s : F64) (lvl : Nat)
    (hl1 : 1 ≤ lvl) (hl2 : lvl ≤ 16) (hs : F64.isNaN s = false) (hm : ∀ x ∈ Skiplist.abs sl, x.2 ≠ m) :
    ∃ sl', Skiplist.insert sl m s lvl = .ok sl' ∧ Skiplist.Inv sl' ∧
      Skiplist.abs sl' = slInsert (Skiplist.abs sl) m s :=
  Skiplist.insert_refines h m s lvl hl1 hl2 hs hm

example : Skiplist.Inv slDemo ∧ (1 ≤ 4 ∧ 4 ≤ 16) ∧ F64.isNaN 0x3FF0000000000000 = false ∧
    ∀ x ∈ Skiplist.abs slDemo, x.2 ≠ [98] := by
  refine ⟨skiplist_demo.2.1, by decide, by decide, ?_⟩
  rw [skiplist_demo.2.2.2]; decide

/-- `remove_refines`: for every member and score (present or not, NaN or not) `remove` keeps the invariant, is
    `slRemove` on the chain, and returns true exactly when a node with that member and an IEEE-equal score exists -/
theorem skiplist_remove_refines (sl : SL) (h : Skiplist.Inv sl) (m : Bytes) (s : F64) :
    ∃ sl' b, Skiplist.remove sl m s = .ok (sl', b) ∧ Skiplist.Inv sl' ∧
      Skiplist.abs sl' = slRemove (Skiplist.abs sl) m s ∧
      (b = true ↔ ∃ x ∈ Skiplist.abs sl, F64.eq s x.1 = true ∧ x.2 = m) :=
  Skiplist.remove_refines h m s

/-- `getRank_spec`: when the score passed is the one stored for the member (this is how `SortedSet.getRank` calls it:
    with the dictionary's score) the result is the list-level `slGetRank` -/
theorem skiplist_getRank_spec (sl : SL) (h : Skiplist.Inv sl) (m : Bytes) (s : F64)
    (hscore : ∀ x ∈ Skiplist.abs sl, x.2 = m → F64.eq x.1 s = true) :
    Skiplist.getRank sl m s = .ok (slGetRank (Skiplist.abs sl) m s) :=
  Skiplist.getRank_spec_of_score h m s hscore

/-- … in particular index + 1 for a pair on the chain, when members are unique -/
theorem skiplist_getRank_index (sl : SL) (h : Skiplist.Inv sl) (m : Bytes) (s : F64) (j : Nat)
    (huniq : ((Skiplist.abs sl).map (·.2)).Nodup) (hj : (Skiplist.abs sl)[j]? = some (s, m)) :
    Skiplist.getRank sl m s = .ok ((j : Int) + 1) :=
  Skiplist.getRank_of_index_uniq h m s j huniq hj

example : Skiplist.Inv slDemo ∧ ((Skiplist.abs slDemo).map (·.2)).Nodup ∧
    (Skiplist.abs slDemo)[2]? = some (0x3FF0000000000000, [99]) ∧
    Skiplist.getRank slDemo [99] 0x3FF0000000000000 = .ok 3 := by
  refine ⟨skiplist_demo.2.1, ?_, ?_, rfl⟩ <;> rw [skiplist_demo.2.2.2] <;> decide

/-- what the code computes otherwise, exactly: it tests `x != header && x.Member == member` on the node where each
    level's walk stops (the walk uses `<=` on members, so it passes the node itself), from the top level down, and
    returns the position of the first such node; 0 if no level qualifies. The result is always within `0..length`. -/
theorem skiplist_getRank_total (sl : SL) (h : Skiplist.Inv sl) (m : Bytes) (s : F64) :
    ∃ r, Skiplist.getRank sl m s = .ok r ∧ 0 ≤ r ∧ r ≤ sl.length :=
  Skiplist.getRank_ok h m s

/-- … and exactly (`Skiplist.getRank_char`): with `k` = the number of chain nodes whose (score, member) is ≤ the pair
    asked for (`chain sl` = the chain, `Stop … i A u B` = "`u`, at position `|A|`, is the last node among positions `0..k`
    that takes part in level `i`", `NoHit … i` = "the stopping node of level `i` is the header or has another member"):
    the result is the position of the stopping node of the HIGHEST level whose stopping node is not the header and has
    member `m`; 0 if no level qualifies -/
theorem skiplist_getRank_char (sl : SL) (h : Skiplist.Inv sl) (m : Bytes) (s : F64) :
    ∃ r, Skiplist.getRank sl m s = .ok r ∧
      ((r = 0 ∧ ∀ i, i < sl.level →
          Skiplist.NoHit sl (chain sl) ((Skiplist.abs sl).takeWhile (Skiplist.rankP m s)).length m i) ∨
       (∃ i, i < sl.level ∧ ∃ A u B,
          Skiplist.Stop sl (chain sl) ((Skiplist.abs sl).takeWhile (Skiplist.rankP m s)).length i A u B ∧
          u ≠ 0 ∧ (Skiplist.itemAt sl.heap u).2 = m ∧ r = (A.length : Int) ∧ 1 ≤ A.length ∧
          A.length ≤ ((Skiplist.abs sl).takeWhile (Skiplist.rankP m s)).length ∧
          ∀ i', i < i' → i' < sl.level →
            Skiplist.NoHit sl (chain sl) ((Skiplist.abs sl).takeWhile (Skiplist.rankP m s)).length m i')) := by
  obtain ⟨c, hc⟩ := h
  rw [Skiplist.chain_eq hc, Skiplist.abs_eq hc]
  exact Skiplist.getRank_char hc m s

/-- both hypotheses of `skiplist_getRank_spec` / `_index` are needed — two structures built by the model's own `insert`
    (they satisfy the invariant: `Skiplist.invA`, `Skiplist.invB`): a member asked for with a score that is not its
    stored score is "found" at a high level; with a duplicated member the taller duplicate's position is returned -/
theorem skiplist_getRank_needs_hypotheses :
    (Skiplist.Inv Skiplist.slA ∧ ((Skiplist.abs Skiplist.slA).map (·.2)).Nodup ∧
      Skiplist.getRank Skiplist.slA [109] Skiplist.f5 = .ok 1 ∧ slGetRank (Skiplist.abs Skiplist.slA) [109] Skiplist.f5 = 0) ∧
    (Skiplist.Inv Skiplist.slB ∧ (Skiplist.abs Skiplist.slB)[1]? = some (Skiplist.f2, [109]) ∧
      Skiplist.getRank Skiplist.slB [109] Skiplist.f2 = .ok 1 ∧ slGetRank (Skiplist.abs Skiplist.slB) [109] Skiplist.f2 = 2) :=
  ⟨⟨Skiplist.invA, Skiplist.getRank_needs_score⟩, ⟨Skiplist.invB, Skiplist.getRank_needs_uniq⟩⟩

/-- `getByRank_spec`: rank 0 is the HEADER (index 0 — the phantom element of finding A-41b), `1 ≤ r ≤ length` is node
    `r` of the chain, anything else nil -/
theorem skiplist_getByRank_spec (sl : SL) (h : Skiplist.Inv sl) (r : Int) :
    Skiplist.getByRank sl r = .ok (if r < 0 then none else if r = 0 then some 0 else (chain sl)[r.toNat - 1]?) := by
  obtain ⟨c, hc⟩ := h
  rw [Skiplist.chain_eq hc]
  exact Skiplist.getByRank_spec hc r

example : Skiplist.getByRank slDemo 0 = .ok (some 0) ∧ Skiplist.getByRank slDemo 3 = .ok (some 3) ∧
    Skiplist.getByRank slDemo 4 = .ok none ∧ chain slDemo = [4, 1, 3] := ⟨rfl, rfl, rfl, by decide⟩

/-- `removeRangeByRank_refines` (1-based inclusive ranks, any integers) -/
theorem skiplist_removeRangeByRank_refines (sl : SL) (h : Skiplist.Inv sl) (start stop : Int) :
    ∃ sl' removed, Skiplist.removeRangeByRank sl start stop = .ok (sl', removed) ∧ Skiplist.Inv sl' ∧
      (Skiplist.abs sl', removed) = slRemoveRangeByRank (Skiplist.abs sl) start stop :=
  Skiplist.removeRangeByRank_refines h start stop

/-- `removeRange_refines`: every bound (also NaN), both mode bits, every limit. `limit ≤ 0` (the sorted set always
    passes 0) is exactly the list-level `slRemoveRange`; a positive limit removes the first `limit` nodes of that range -/
theorem skiplist_removeRange_refines (sl : SL) (h : Skiplist.Inv sl) (min max : F64) (limit : Int) (mode : Nat) :
    ∃ sl' removed, Skiplist.removeRange sl min max limit mode = .ok (sl', removed) ∧ Skiplist.Inv sl' ∧
      (if limit ≤ 0 then (Skiplist.abs sl', removed) = slRemoveRange (Skiplist.abs sl) min max mode
       else
        let pre := (Skiplist.abs sl).takeWhile fun n => !(if mode % 2 = 1 then F64.lt min n.1 else F64.le min n.1)
        let rest := (Skiplist.abs sl).drop pre.length
        let rem := rest.takeWhile fun n => !(if mode / 2 % 2 = 1 then F64.le max n.1 else F64.lt max n.1)
        removed = rem.take limit.toNat ∧ Skiplist.abs sl' = pre ++ rem.drop limit.toNat ++ rest.drop rem.length) :=
  Skiplist.removeRange_refines h min max limit mode

example : (Skiplist.removeRange slDemo 0x8000000000000000 0x3FF0000000000000 1 0).map (·.2) = .ok [(0x8000000000000000, [100])] ∧
    (Skiplist.removeRangeByRank slDemo 2 5).map (·.2) = .ok [(0x3FF0000000000000, [97]), (0x3FF0000000000000, [99])] :=
  ⟨rfl, rfl⟩

/-- `hasInRange` is the list-level function -/
theorem skiplist_hasInRange_spec (sl : SL) (h : Skiplist.Inv sl) (min max : F64) :
    Skiplist.hasInRange sl min max = .ok (hasInRange (Skiplist.abs sl) min max) :=
  Skiplist.hasInRange_spec h min max

/-- `getFirstInRange_spec`: never panics (the `n.Item.Score` on nil cannot happen under the invariant); the node
    returned is the chain node after the prefix of scores below `min`, and its item is the list-level answer -/
theorem skiplist_getFirstInRange_spec (sl : SL) (h : Skiplist.Inv sl) (min max : F64) :
    ∃ r, Skiplist.getFirstInRange sl min max = .ok r ∧
      (r.map (Skiplist.itemAt sl.heap)) = (getFirstInRange (Skiplist.abs sl) min max).map (·.cur) ∧
      (∀ n, r = some n → ∃ j, (chain sl)[j]? = some n ∧
        j = ((Skiplist.abs sl).takeWhile (fun x => F64.gt min x.1)).length) :=
  Skiplist.getFirstInRange_inv h min max

/-- `getLastInRange_spec`, for a `max` that is not NaN: the header is never returned -/
theorem skiplist_getLastInRange_spec (sl : SL) (h : Skiplist.Inv sl) (min max : F64) (hmax : F64.isNaN max = false) :
    ∃ r, Skiplist.getLastInRange sl min max = .ok r ∧
      (r.map (Skiplist.itemAt sl.heap)) = (getLastInRange (Skiplist.abs sl) min max).map (·.cur) ∧
      r ≠ some 0 ∧
      (∀ n, r = some n → ∃ j, (chain sl)[j]? = some n ∧
        j + 1 = ((Skiplist.abs sl).takeWhile (fun x => F64.ge max x.1)).length) :=
  Skiplist.getLastInRange_inv h min max hmax

example : Skiplist.getFirstInRange slDemo 0 0x4000000000000000 = .ok (some 4) ∧
    Skiplist.getLastInRange slDemo 0 0x4000000000000000 = .ok (some 3) ∧
    Skiplist.hasInRange slDemo 0x4000000000000000 0x4000000000000000 = .ok false := ⟨rfl, rfl, rfl⟩

/-- the corner the hypothesis excludes (recorded in FINDINGS.md of the work package): with a NaN `max` and a range
    that `hasInRange` accepts, `getLastInRange` stays on the header and returns the HEADER unless `min > 0`; the
    list-level model says nil. Not reachable through a command: `scoreLoop` rejects every node when `max` is NaN. -/
theorem skiplist_getLastInRange_nan_finding :
    (do let sl ← Skiplist.insert makeSkiplist [97] 0x3FF0000000000000 1
        let r ← Skiplist.getLastInRange sl 0 0x7FF8000000000000
        pure (r, (getLastInRange (Skiplist.abs sl) 0 0x7FF8000000000000).isNone)) = .ok (some 0, true) := by
  rfl

/-- `fuel_sufficient`: under the invariant no operation runs out of fuel and none panics -/
theorem skiplist_fuel_sufficient (sl : SL) (h : Skiplist.Inv sl) :
    (∀ m s lvl, 1 ≤ lvl → lvl ≤ 16 → F64.isNaN s = false → (∀ x ∈ Skiplist.abs sl, x.2 ≠ m) →
        ∃ r, Skiplist.insert sl m s lvl = .ok r) ∧
    (∀ m s, ∃ r, Skiplist.remove sl m s = .ok r) ∧
    (∀ m s, ∃ r, Skiplist.getRank sl m s = .ok r) ∧
    (∀ r, ∃ o, Skiplist.getByRank sl r = .ok o) ∧
    (∀ a b, ∃ r, Skiplist.hasInRange sl a b = .ok r) ∧
    (∀ a b, ∃ r, Skiplist.getFirstInRange sl a b = .ok r) ∧
    (∀ a b, ∃ r, Skiplist.getLastInRange sl a b = .ok r) ∧
    (∀ a b limit mode, ∃ r, Skiplist.removeRange sl a b limit mode = .ok r) ∧
    (∀ a b, ∃ r, Skiplist.removeRangeByRank sl a b = .ok r) :=
  Skiplist.fuel_sufficient h

/-- `run_inv`: from any state satisfying the invariant — in particular from `makeSkiplist()` — any finite sequence of
    insert (any level 1..16, new member, non-NaN score) / remove / removeRange / removeRangeByRank runs without panic
    or fuel exhaustion, every reachable state satisfies the invariant, and the chain of the result is the run of the
    list-level model. So every theorem of sections 1–11 about `z.sl` speaks about the chain of the pointer structure. -/
theorem skiplist_run_inv (ops : List Skiplist.SlOp) (sl : SL) (h : Skiplist.Inv sl)
    (hok : Skiplist.OpsOk (Skiplist.abs sl) ops) :
    ∃ sl', Skiplist.runM sl ops = .ok sl' ∧ Skiplist.Inv sl' ∧
      Skiplist.abs sl' = Skiplist.runL (Skiplist.abs sl) ops :=
  Skiplist.run_refines ops h hok

theorem skiplist_run_inv_from_empty (ops : List Skiplist.SlOp) (hok : Skiplist.OpsOk [] ops) :
    ∃ sl, Skiplist.runM makeSkiplist ops = .ok sl ∧ Skiplist.Inv sl ∧ Skiplist.abs sl = Skiplist.runL [] ops :=
  Skiplist.run_inv_from_empty ops hok

/-! ### the span discipline of nil links (`InvSpans`) -/

/-- `makeSkiplist()` satisfies the full invariant -/
theorem skiplist_empty_invSpans : Skiplist.InvSpans makeSkiplist := Skiplist.makeSkiplist_invSpans

/-- `insert` keeps the full invariant: also a link that ends in nil spans `length − position` afterwards — this is where
    `update[i].level[i].span = skiplist.length` for a new level and the `span++` of the untouched levels are needed -/
theorem skiplist_insert_invSpans (sl : SL) (h : Skiplist.InvSpans sl) (m : Bytes) (s : F64) (lvl : Nat)
    (hl1 : 1 ≤ lvl) (hl2 : lvl ≤ 16) (hs : F64.isNaN s = false) (hm : ∀ x ∈ Skiplist.abs sl, x.2 ≠ m) :
    ∃ sl', Skiplist.insert sl m s lvl = .ok sl' ∧ Skiplist.InvSpans sl' ∧
      Skiplist.abs sl' = slInsert (Skiplist.abs sl) m s :=
  Skiplist.insert_invSpans h m s lvl hl1 hl2 hs hm

/-- `remove` keeps the full invariant — the `else { span-- }` branch of `removeNode` on every level in use, not only on
    the removed node's own levels -/
theorem skiplist_remove_invSpans (sl : SL) (h : Skiplist.InvSpans sl) (m : Bytes) (s : F64) :
    ∃ sl' b, Skiplist.remove sl m s = .ok (sl', b) ∧ Skiplist.InvSpans sl' ∧
      Skiplist.abs sl' = slRemove (Skiplist.abs sl) m s :=
  Skiplist.remove_invSpans h m s

theorem skiplist_removeRangeByRank_invSpans (sl : SL) (h : Skiplist.InvSpans sl) (start stop : Int) :
    ∃ sl' removed, Skiplist.removeRangeByRank sl start stop = .ok (sl', removed) ∧ Skiplist.InvSpans sl' ∧
      (Skiplist.abs sl', removed) = slRemoveRangeByRank (Skiplist.abs sl) start stop :=
  Skiplist.removeRangeByRank_invSpans h start stop

theorem skiplist_removeRange_invSpans (sl : SL) (h : Skiplist.InvSpans sl) (min max : F64) (mode : Nat) :
    ∃ sl' removed, Skiplist.removeRange sl min max 0 mode = .ok (sl', removed) ∧ Skiplist.InvSpans sl' ∧
      (Skiplist.abs sl', removed) = slRemoveRange (Skiplist.abs sl) min max mode := by
  obtain ⟨sl', rem, he, hi, ha⟩ := Skiplist.removeRange_invSpans h min max 0 mode
  rw [if_pos (Int.le_refl 0)] at ha
  exact ⟨sl', rem, he, hi, ha⟩

/-- runs keep the full invariant (every reachable state) -/
theorem skiplist_run_invSpans (ops : List Skiplist.SlOp) (sl : SL) (h : Skiplist.InvSpans sl)
    (hok : Skiplist.OpsOk (Skiplist.abs sl) ops) :
    ∃ sl', Skiplist.runM sl ops = .ok sl' ∧ Skiplist.InvSpans sl' ∧
      Skiplist.abs sl' = Skiplist.runL (Skiplist.abs sl) ops :=
  Skiplist.run_invSpans ops h hok

example : Skiplist.InvSpans slDemo := by
  have hok : Skiplist.OpsOk [] slDemoOps := by
    simp only [slDemoOps, Skiplist.OpsOk, Skiplist.OpOk, Skiplist.stepL]
    decide
  obtain ⟨sl, hr, hi, _⟩ := Skiplist.run_invSpans_from_empty slDemoOps hok
  rw [skiplist_demo.1] at hr
  exact (Except.ok.inj hr) ▸ hi

/-! ### the header node -/

/-- the header keeps score 0, member "" and backward nil in every reachable state (`IsChain` does not speak about the
    header's own fields; `getByRank 0`, the phantom member of finding A-41b, and the backward walk of ZREVRANGE read them) -/
theorem skiplist_header_ok (ops : List Skiplist.SlOp) (sl sl' : SL) (h : Skiplist.Inv sl) (hh : Skiplist.HeaderOk sl)
    (hok : Skiplist.OpsOk (Skiplist.abs sl) ops) (hr : Skiplist.runM sl ops = .ok sl') : Skiplist.HeaderOk sl' :=
  Skiplist.run_headerOk ops h hh hok hr

example : Skiplist.HeaderOk slDemo :=
  Skiplist.run_headerOk_from_empty slDemoOps
    (by simp only [slDemoOps, Skiplist.OpsOk, Skiplist.OpOk, Skiplist.stepL]; decide) skiplist_demo.1

/-- the item of the node `getByRank` returns is the list-level cursor's, for EVERY rank (0 = the header item (0, "")) -/
theorem skiplist_getByRank_item (sl : SL) (h : Skiplist.Inv sl) (hh : Skiplist.HeaderOk sl) (r : Int) :
    ∃ o, Skiplist.getByRank sl r = .ok o ∧
      o.map (Skiplist.itemAt sl.heap) = (getByRank (Skiplist.abs sl) r).map (·.cur) := by
  obtain ⟨c, hc⟩ := h
  exact Skiplist.getByRank_item_all hc hh r

/-! ### the sorted set on top of the pointer structure

  `Model/SkiplistZSet.lean` is sorted_set.go's `zAdd` / `ZRem` / `ZRemRangeByScore` / `ZRemRangeByRank` / `getRank` with
  the dictionary and the POINTER skiplist (executed against the real `SortedSet` by the `slz` streams). The
  preconditions of `insert` (member not on the chain) and of `getRank` (the score passed is the stored one) are
  discharged from the dictionary, so the only hypotheses left are the callers': level in 1..16, no NaN score. -/

/-- `zAdd` on the pointer structure = `DsZSet.zAdd` on (dictionary, chain), and the invariants are kept -/
theorem skiplist_zAdd_refines (p : Skiplist.PZSet) (h : Skiplist.PZInv p) (m : Bytes) (s : F64) (lvl : Nat)
    (hl1 : 1 ≤ lvl) (hl2 : lvl ≤ 16) (hs : F64.isNaN s = false) :
    ∃ p' r, Skiplist.pzAdd p m s lvl = .ok (p', r) ∧ Skiplist.PZInv p' ∧ (p'.toZSet, r) = zAdd p.toZSet m s :=
  Skiplist.pzAdd_inv h m s lvl hl1 hl2 hs

theorem skiplist_zRem_refines (p : Skiplist.PZSet) (h : Skiplist.PZInv p) (ms : List Bytes) :
    ∃ p' r, Skiplist.pzRem p ms = .ok (p', r) ∧ Skiplist.PZInv p' ∧ (p'.toZSet, r) = zRem p.toZSet ms :=
  Skiplist.pzRem_refines h ms

theorem skiplist_zRemRangeByScore_refines (p : Skiplist.PZSet) (h : Skiplist.PZInv p) (min max : F64) (mode : Nat) :
    ∃ p' r, Skiplist.pzRemRangeByScore p min max mode = .ok (p', r) ∧ Skiplist.PZInv p' ∧
      (p'.toZSet, r) = zRemRangeByScore p.toZSet min max mode :=
  Skiplist.pzRemRangeByScore_refines h min max mode

theorem skiplist_zRemRangeByRank_refines (p : Skiplist.PZSet) (h : Skiplist.PZInv p) (start stop : Int) :
    ∃ p' r, Skiplist.pzRemRangeByRank p start stop = .ok (p', r) ∧ Skiplist.PZInv p' ∧
      (p'.toZSet, r) = zRemRangeByRank p.toZSet start stop :=
  Skiplist.pzRemRangeByRank_refines h start stop

/-- `ZRank` / `ZRevRank` through the spans of the pointer structure = the list-level rank -/
theorem skiplist_zRank_refines (p : Skiplist.PZSet) (h : Skiplist.PZInv p) (m : Bytes) :
    Skiplist.pzRank p m = .ok (zRank p.toZSet m) ∧ Skiplist.pzRevRank p m = .ok (zRevRank p.toZSet m) :=
  ⟨Skiplist.pzRank_refines h m, Skiplist.pzRevRank_refines h m⟩

/-- ZRANGE / ZREVRANGE on the pointer structure (start node by `getByRank` through the spans, or tail / first node; then
    `forward` / `backward` pointer steps) = the list-level `forEachByRank`, INCLUDING the nil dereferences: the pointer
    code panics exactly where the list-level model says `none` (finding A-41), and it returns the header's item exactly
    where the list-level model returns the phantom member (finding A-41b) -/
theorem skiplist_zRange_refines (p : Skiplist.PZSet) (h : Skiplist.PZInv p) (hh : Skiplist.HeaderOk p.sl)
    (start stop : Int) (desc : Bool) :
    Skiplist.pzForEachByRank p start stop desc =
      (match forEachByRank p.toZSet start stop desc with | some l => .ok l | none => .error .panic) :=
  Skiplist.pzForEachByRank_refines h hh start stop desc

theorem skiplist_zCount_refines (p : Skiplist.PZSet) (h : Skiplist.PZInv p) (hh : Skiplist.HeaderOk p.sl)
    (min max : F64) (mode : Nat) :
    Skiplist.pzCount p min max mode =
      (match zCount p.toZSet min max mode with | some n => .ok n | none => .error .panic) :=
  Skiplist.pzCount_refines h hh min max mode

/-- ZRANGEBYSCORE / ZREVRANGEBYSCORE on the pointer structure (`getFirstInRange` / `getLastInRange`, then pointer steps)
    = the list-level `rangeByScore`: never a panic, never out of fuel; every bound (also NaN: with a NaN `max` the
    descending walk starts on the header, F-A1, and stops at once), both mode bits, offset, limit -/
theorem skiplist_zRangeByScore_refines (p : Skiplist.PZSet) (h : Skiplist.PZInv p) (hh : Skiplist.HeaderOk p.sl)
    (min max : F64) (offset limit : Int) (desc : Bool) (mode : Nat) :
    Skiplist.pzRangeByScore p min max offset limit desc mode =
      .ok (rangeByScore p.toZSet min max offset limit desc mode) :=
  Skiplist.pzRangeByScore_refines h hh min max offset limit desc mode

/-- any finite sequence of the mutating operations from the empty sorted set: no panic, no fuel exhaustion, the pointer
    structure satisfies `Skiplist.Inv` and `HeaderOk`, (dictionary, chain) satisfies the list-level invariant of section 1
    and is exactly the state the list-level model reaches, with the same replies; also for every prefix of the sequence.
    With the three theorems above (which need exactly `PZInv` and `HeaderOk`) every ordered query in every reachable
    state answers as the list-level model does: through this theorem sections 1–11 (stated on `ZSet`) hold of the
    pointer structure. -/
theorem skiplist_zset_run (ops : List Skiplist.PZOp) (hok : ∀ op ∈ ops, Skiplist.PZOpOk op) (k : Nat) :
    ∃ p rs, Skiplist.pzRun Skiplist.PZSet.empty (ops.take k) = .ok (p, rs) ∧ Skiplist.PZInv p ∧
      Skiplist.HeaderOk p.sl ∧ p.toZSet.WF ∧ (p.toZSet, rs) = Skiplist.zRun DsZSet.empty (ops.take k) := by
  obtain ⟨p, rs, he, hi, hz, hh, ha⟩ := Skiplist.pz_run_full_prefix ops hok k
  exact ⟨p, rs, he, ⟨hi, hz⟩, hh, hz.toWF, ha⟩

example : (∀ op ∈ [Skiplist.PZOp.add [97] 0x3FF0000000000000 2, .add [98] 0x4000000000000000 16, .add [97] 0x4008000000000000 1,
      .rank [97] false, .remRangeByRank 0 0], Skiplist.PZOpOk op) := by
  intro op hop
  simp only [List.mem_cons, List.not_mem_nil, or_false] at hop
  rcases hop with rfl | rfl | rfl | rfl | rfl <;> simp [Skiplist.PZOpOk, Skiplist.maxLevel] <;> decide

end skiplist
/-! ## Score text: `strconv.ParseFloat(s, 64)` and `strconv.FormatFloat(x, 'f', -1, 64)` in the model (work package C)

  Model/FloatDec.lean replaces the integer-only float text of earlier rounds: `parseDec` / `parseFloat` (decimal syntax
  of `readFloat`, exact rounding `roundRat`, range errors, underscores, inf / nan spellings) and `formatShortest`
  (shortest round-tripping digits, %f rendering). Tied to strconv on every run of this check by the float text table
  (bin/checks/floattab.py: `fmtfloat` / `parsefloat` lines through the harness and the driver, compared verbatim). -/
section floattext
open NodisVerif.F64 NodisVerif.FloatDec

/-- ROUND TRIP (partial): for every double that is not NaN, if the text is not the 17-digit fallback of the digit
    search (x is ±Inf or ±0, or some n ≤ 17 digits round-trip — true for every double the table has ever tried),
    then ParseFloat(FormatFloat(x, 'f', -1, 64)) = x bit for bit.
    MISSING for the full statement: that the search always succeeds within 17 digits (17-digit sufficiency of
    binary64), i.e. `∀ x finite non-zero, (searchShortest x).isSome`. -/
theorem formatShortest_roundtrip_partial (x : F64) (hnan : isNaN x = false)
    (hs : isInf x = true ∨ isZero x = true ∨ (searchShortest x).isSome = true) :
    parseFloat (formatShortest x) = some (some x) :=
  Proofs.FloatDecTrip.formatShortest_roundtrip_partial x hnan hs

/-- the hypotheses hold on 0.1, 1, the largest finite double, −1/3 (17 digits), and the smallest subnormal -/
example : (searchShortest 0x3FB999999999999A).isSome = true ∧ (searchShortest 0x3FF0000000000000).isSome = true ∧
    (searchShortest 0x7FEFFFFFFFFFFFFF).isSome = true ∧ (searchShortest 0xBFD5555555555555).isSome = true ∧
    (searchShortest 1).isSome = true := by decide +kernel

/-- the same for the names the sorted-set handlers use: a score written by `fmtScore` reads back as the same score -/
theorem score_text_roundtrip_partial (x : F64) (t : Bytes) (hnan : isNaN x = false)
    (hs : isInf x = true ∨ isZero x = true ∨ (searchShortest x).isSome = true)
    (ht : FloatText.formatFloat x = some t) : FloatText.parseFloat t = some (some x) := by
  unfold FloatText.formatFloat at ht
  cases ht
  exact Proofs.FloatDecTrip.formatShortest_roundtrip_partial x hnan hs

example : FloatText.parseFloat (Bytes.ofString "0.1") = some (some 0x3FB999999999999A) ∧
    FloatText.formatFloat 0x3FB999999999999A = some (Bytes.ofString "0.1") ∧
    FloatText.parseFloat (Bytes.ofString "1e400") = some none ∧
    FloatText.parseFloat (Bytes.ofString "1e-400") = some (some 0) ∧
    FloatText.parseFloat (Bytes.ofString "-.5") = some (some 0xBFE0000000000000) ∧
    FloatText.parseFloat (Bytes.ofString "1_000") = some (some 0x408F400000000000) ∧
    FloatText.parseFloat (Bytes.ofString "0x1p3") = none ∧
    FloatText.formatFloat 0x444B1AE4D6E2EF50 = some (Bytes.ofString "1000000000000000000000") ∧
    FloatText.formatFloat 0x3EB0C6F7A0B5ED8D = some (Bytes.ofString "0.000001") := by decide +kernel

/-- INTEGER TEXT: an optional sign and decimal digits (at most 800) whose value is below 2^53 parse to exactly the
    double of that integer, `roundPack neg n 0` = `F64.ofInt?` — the integer-only model and the decimal model agree -/
theorem parseDec_integer (sgn : Bytes) (neg : Bool)
    (hs : (sgn = [] ∧ neg = false) ∨ (sgn = [43] ∧ neg = false) ∨ (sgn = [45] ∧ neg = true))
    (ds : Bytes) (hne : ds ≠ []) (hall : ds.all isDigit = true) (hlen : ds.length ≤ 800)
    (hn : digitsToNat ds 0 < 2 ^ 53) :
    parseDec (sgn ++ ds) = some (some (roundPack neg (digitsToNat ds 0) 0)) :=
  Proofs.FloatDecInt.parseDec_digits sgn neg hs ds hne hall hlen hn

example : parseDec ([45] ++ [49, 50, 51]) = some (some (roundPack true 123 0)) ∧ F64.ofInt? (-123) = some (roundPack true 123 0) :=
  ⟨parseDec_integer [45] true (Or.inr (Or.inr ⟨rfl, rfl⟩)) [49, 50, 51] (by decide) (by decide) (by decide) (by decide), by decide⟩

/-- wherever the integer-only model of earlier rounds (`Api.parseFloatTextInt`) produced a value, the decimal model
    produces the same one — except on "-0", "-00", …, where Go and the decimal model give −0 and the old model gave +0 -/
theorem parseFloatText_agrees_with_integer_model (b : Bytes) (x : F64) (h : Api.parseFloatTextInt b = some (some x))
    (hnz : ¬ (b.head? = some 45 ∧ parseInt64 b = some 0)) : Api.parseFloatText b = some (some x) :=
  Proofs.FloatDecInt.parseFloatText_agrees_int b x h hnz

example : Api.parseFloatTextInt [45, 49, 50] = some (some 0xC028000000000000) ∧
    ¬ (([45, 49, 50] : Bytes).head? = some 45 ∧ parseInt64 [45, 49, 50] = some 0) := by decide +kernel

/-- EXACT INPUTS: every finite double x = (−1)^s · m · 2^e (m, e = `decode x`; zeros and subnormals included) is the
    value `FloatDec.roundRat` returns on the exact rational m·2^e — no rounding happens on representable values -/
theorem roundRat_exact (x : F64) (hfin : expBits x < 2047) :
    FloatDec.roundRat (sign x) (if (decode x).2 ≥ 0 then (decode x).1 * 2 ^ (decode x).2.toNat else (decode x).1)
      (if (decode x).2 ≥ 0 then 1 else 2 ^ (-(decode x).2).toNat) = x :=
  Proofs.FloatDecRound.roundRat_decode x hfin

example : expBits (0x3FB999999999999A : F64) < 2047 ∧ expBits (1 : F64) < 2047 := by decide

/-- … and a natural below 2^53 over 1 gives the double of the integer model -/
theorem roundRat_exact_nat (neg : Bool) (n : Nat) (hn0 : 0 < n) (hn : n < 2 ^ 53) : FloatDec.roundRat neg n 1 = roundPack neg n 0 :=
  Proofs.FloatDecRound.roundRat_nat neg n hn0 hn

/-- LENGTH: FormatFloat(x, 'f', -1, 64) never exceeds 1000 bytes (true maximum 327); the old bound 21 held for
    integer-valued doubles only. Used for the storage codec's size side condition (C20: `Call.WF`). -/
theorem formatShortest_length (x : F64) : (formatShortest x).length ≤ 1000 :=
  Proofs.FloatDecLen.formatShortest_length x

/-- MONOTONICITY of the exact rounding (hence of ParseFloat on non-negative decimal text): num1/den1 ≤ num2/den2
    (cross-multiplied) ⇒ the rounded doubles are in the same order, as numbers (bit patterns of non-negative doubles,
    +Inf on top). Proof: Proofs/FloatDecMono.lean — the bit pattern of a rounding as a number, monotone at one exponent,
    invariant under rescaling, constant inside a cell of the fine grid, then both rationals at a common scale. -/
theorem roundRat_mono (num1 den1 num2 den2 : Nat) (hd1 : 0 < den1) (hd2 : 0 < den2)
    (h : num1 * den2 ≤ num2 * den1) :
    (FloatDec.roundRat false num1 den1).toNat ≤ (FloatDec.roundRat false num2 den2).toNat :=
  Proofs.FloatDecMono.roundRat_mono num1 den1 num2 den2 hd1 hd2 h

/-- … in the order the sorted sets compare scores with (`F64.le`; the results are never NaN) -/
theorem roundRat_mono_le (num1 den1 num2 den2 : Nat) (hd1 : 0 < den1) (hd2 : 0 < den2) (h : num1 * den2 ≤ num2 * den1) :
    F64.le (FloatDec.roundRat false num1 den1) (FloatDec.roundRat false num2 den2) = true :=
  Proofs.FloatDecMono.roundRat_le num1 den1 num2 den2 hd1 hd2 h

/-- … and in the decimal form `parseDec` uses (mantissa × 10^exponent): mant1·10^e1 ≤ mant2·10^e2 -/
theorem roundDec_mono (m1 m2 : Nat) (e1 e2 : Int)
    (h : m1 * 10 ^ e1.toNat * 10 ^ (-e2).toNat ≤ m2 * 10 ^ e2.toNat * 10 ^ (-e1).toNat) :
    (roundDec false m1 e1).toNat ≤ (roundDec false m2 e2).toNat :=
  Proofs.FloatDecMono.roundDec_mono m1 m2 e1 e2 h

/-- 0.1 ≤ 1/3 ≤ 0.5 as rationals, so as doubles (the hypotheses are plain inequalities between naturals) -/
example : (FloatDec.roundRat false 1 10).toNat ≤ (FloatDec.roundRat false 1 3).toNat ∧ (roundDec false 3 (-1)).toNat ≤ (roundDec false 5 (-1)).toNat :=
  ⟨roundRat_mono 1 10 1 3 (by decide) (by decide) (by decide), roundDec_mono 3 5 (-1) (-1) (by decide)⟩

/-- FAITHFUL ROUNDING (monotonicity + exactness): the rounding of num/den never passes a double. For every finite
    non-negative double y with exact value my·2^ey: num/den ≤ value(y) ⇒ result ≤ y, and num/den ≥ value(y) ⇒ result ≥ y.
    Hence the result lies between the two doubles that enclose num/den. -/
theorem roundRat_faithful (y : F64) (hs : sign y = false) (hfin : expBits y < 2047) (num den : Nat) (hden : 0 < den) :
    (num * (if (decode y).2 ≥ 0 then 1 else 2 ^ (-(decode y).2).toNat) ≤
       (if (decode y).2 ≥ 0 then (decode y).1 * 2 ^ (decode y).2.toNat else (decode y).1) * den →
     (FloatDec.roundRat false num den).toNat ≤ y.toNat) ∧
    ((if (decode y).2 ≥ 0 then (decode y).1 * 2 ^ (decode y).2.toNat else (decode y).1) * den ≤
       num * (if (decode y).2 ≥ 0 then 1 else 2 ^ (-(decode y).2).toNat) →
     y.toNat ≤ (FloatDec.roundRat false num den).toNat) :=
  ⟨Proofs.FloatDecMono.roundRat_le_of_le y hs hfin num den hden, Proofs.FloatDecMono.roundRat_ge_of_ge y hs hfin num den hden⟩

example : sign (0x3FB999999999999A : F64) = false ∧ expBits (0x3FB999999999999A : F64) < 2047 := by decide

/-- NEGATIVE VALUES: the sign only sets the top bit (`FloatDec.roundRat true n d = FloatDec.roundRat false n d ||| 2^63`), so the order is
    mirrored: num1/den1 ≤ num2/den2 ⇒ −num2/den2 rounds to a key ≤ that of −num1/den1; and every negative rounding is
    ≤ every non-negative one (−0 and +0 share the key 0). Together with `roundRat_mono` this is monotonicity of the
    rounding over all rationals, in the order `F64.key` that the skiplist uses. -/
theorem roundRat_mono_neg (num1 den1 num2 den2 : Nat) (hd1 : 0 < den1) (hd2 : 0 < den2) (h : num1 * den2 ≤ num2 * den1) :
    F64.key (FloatDec.roundRat true num2 den2) ≤ F64.key (FloatDec.roundRat true num1 den1) :=
  Proofs.FloatDecMono.roundRat_neg_le num1 den1 num2 den2 hd1 hd2 h

theorem roundRat_neg_le_pos (num1 den1 num2 den2 : Nat) (hd1 : 0 < den1) (hd2 : 0 < den2) :
    F64.key (FloatDec.roundRat true num1 den1) ≤ F64.key (FloatDec.roundRat false num2 den2) :=
  Proofs.FloatDecMono.roundRat_neg_le_pos num1 den1 num2 den2 hd1 hd2

/-- CORRECTLY ROUNDED (nearest, ties to even): the result of `FloatDec.roundRat` on num/den > 0, read as a significand q at
    exponent g — its bit pattern is min(+Inf, (g + 1074)·2^52 + q), with 2^52 ≤ q ≤ 2^53 unless g = −1074 (subnormal), so g is
    the exponent of the last place in num/den's own binade — satisfies |num/den − q·2^g| ≤ 2^g / 2 (both inequalities, cross-
    multiplied: 2^g is 2^g.toNat / 2^(−g).toNat), and on an exact tie q is even. Negative values: `FloatDec.roundRat true` only sets the
    sign bit. Together with `roundRat_mono` and `roundRat_exact` this is IEEE-754 round-to-nearest-even. -/
theorem roundRat_nearest (num den : Nat) (hnum : 0 < num) (hden : 0 < den) :
    ∃ (q : Nat) (g : Int),
      ((FloatDec.roundRat false num den).toNat : Int) = min (2047 * 2 ^ 52) ((g + 1074) * 2 ^ 52 + q) ∧
      -1074 ≤ g ∧ q ≤ 2 ^ 53 ∧ (-1074 < g → 2 ^ 52 ≤ q) ∧
      2 * q * 2 ^ g.toNat * den ≤ 2 * num * 2 ^ (-g).toNat + 2 ^ g.toNat * den ∧
      2 * num * 2 ^ (-g).toNat ≤ 2 * q * 2 ^ g.toNat * den + 2 ^ g.toNat * den ∧
      ((2 * q * 2 ^ g.toNat * den = 2 * num * 2 ^ (-g).toNat + 2 ^ g.toNat * den ∨
        2 * num * 2 ^ (-g).toNat = 2 * q * 2 ^ g.toNat * den + 2 ^ g.toNat * den) → q % 2 = 0) :=
  Proofs.FloatDecMono.roundRat_nearest num den hnum hden

/-- the sign only sets the top bit -/
theorem roundRat_sign (num den : Nat) : FloatDec.roundRat true num den = FloatDec.roundRat false num den ||| 0x8000000000000000 :=
  Proofs.FloatDecMono.roundRat_neg num den

/-- 1/10: q = 0x1999999999999A (rounded up from …99.6), g = −56: the double 0x3FB999999999999A -/
example : FloatDec.roundRat false 1 10 = 0x3FB999999999999A ∧
    ((0x3FB999999999999A : F64).toNat : Int) = min (2047 * 2 ^ 52) (((-56 : Int) + 1074) * 2 ^ 52 + (0x1999999999999A : Nat)) := by
  decide +kernel

/- NOT PROVED: monotonicity / nearest stated on TEXT (they are stated on the value mant × 10^ex that `parseDec` extracts from
   the text); 17-digit sufficiency (above); that `formatShortest` is the *shortest* and *closest* round-tripping text; that the
   result is the nearest among ALL doubles when it is a power of two reached from below is implied (the half unit is that of
   num/den's binade, the finer one). Nothing about hexadecimal float text. -/

end floattext
/-! ### GEOADD is a ZADD of the geohash score; the geohash bit tricks (work package D)

  Model: Model/Handler4.lean (`geoAdd`, `geoScore`), Model/Geohash.lean (`interleave64`, `deinterleave64`,
  `encode`), exact float arithmetic in Model/F64More.lean.  Tie: RESP streams with GEO commands mixed into
  sorted-set commands on the same keys, `api GeoAdd` in the embedded-API streams, and the `geo` operation lines
  (float operations and geohash functions of the real code against the model on limits and random operands). -/

section geo
open NodisVerif.Proofs.GeoAdd NodisVerif.Proofs.GeoBits NodisVerif.Geohash NodisVerif.Handler4

/-- GEOADD of one item IS `ZAdd(key, member, float64(hash))`: same store afterwards (index, backend, watch
    signals, change records), same reply -/
theorem geoadd_is_zadd (s : MState) (now : Int) (key m : Bytes) (lon lat : F64) :
    geoAdd s now key [(m, geoScore lon lat)] = Api.zadd s now key m (geoScore lon lat) :=
  geoAdd_single s now key m _

/-- GEOADD of several items: one `writeKey`, the `ZAdd` fold over the items in argument order on the sorted
    set, one watch signal, one ZADD record per item; a key of another type panics before anything changes -/
theorem geoadd_is_zadd_fold (s : MState) (now : Int) (key : Bytes) (it : Bytes × F64) (items : List (Bytes × F64)) :
    geoAdd s now key (it :: items) =
      (match Api.asZSet (Store.writeKey s now key (some (.zset DsZSet.empty))).1 key with
       | none => ((Store.writeKey s now key (some (.zset DsZSet.empty))).1, .panic)
       | some z =>
         (emitAll key (it :: items)
            (Store.signal (Api.setVal (Store.writeKey s now key (some (.zset DsZSet.empty))).1 key (.zset (zaddAll z (it :: items)).1)) key),
          .int (zaddAll z (it :: items)).2)) :=
  geoAdd_eq s now key it items

/-- the fold keeps the sorted-set invariant (dictionary = index, strict (score, member) order) -/
theorem geoadd_keeps_wf : ∀ (items : List (Bytes × F64)) (z : ZSet) (acc : Int), z.WF →
    (∀ it ∈ items, F64.isNaN it.2 = false) →
    (items.foldl (fun (a : ZSet × Int) it => ((DsZSet.zAdd a.1 it.1 it.2).1, a.2 + (DsZSet.zAdd a.1 it.1 it.2).2)) (z, acc)).1.WF := by
  intro items
  induction items with
  | nil => intro z acc h _; exact h
  | cons it rest ih =>
    intro z acc h hs
    exact ih _ _ (zadd_wf z h it.1 it.2 (hs it List.mem_cons_self)) (fun x hx => hs x (List.mem_cons_of_mem _ hx))

theorem geoadd_value_wf (z : ZSet) (h : z.WF) (items : List (Bytes × F64)) (hs : ∀ it ∈ items, F64.isNaN it.2 = false) :
    (zaddAll z items).1.WF := geoadd_keeps_wf items z 0 h hs

/-- the score GEOADD stores is never NaN (`float64` of an unsigned integer: zero, or a packed pattern below +Inf's) -/
theorem geoadd_score_not_nan (lon lat : F64) : F64.isNaN (geoScore lon lat) = false :=
  Proofs.F64NotNaN.ofNat_not_nan _

/-- so GEOADD keeps the sorted-set invariant, for every list of (member, longitude, latitude) - in range, on the
    limits, outside (score 0), repeated members, equal points -/
theorem geoadd_keeps_sorted_set (z : ZSet) (h : z.WF) (items : List (Bytes × F64 × F64)) :
    (zaddAll z (items.map fun it => (it.1, geoScore it.2.1 it.2.2))).1.WF := by
  apply geoadd_value_wf z h
  intro it hit
  rw [List.mem_map] at hit
  obtain ⟨x, _, rfl⟩ := hit
  exact geoadd_score_not_nan _ _

/-- the handler: `GEOADD key lon lat member` with parsable coordinates and no NX / XX word hands
    `execCommand` exactly the closure of `ZADD key <float64(hash)> member` -/
theorem geoadd_handler_is_zadd (key lo la m : Bytes) (lon lat : F64)
    (h1 : floatG lo = .ok lon) (h2 : floatG la = .ok lat)
    (hn : Resp.opt [key, lo, la, m] "NX" = 0) (hx : Resp.opt [key, lo, la, m] "XX" = 0) :
    geoAddH [key, lo, la, m] =
      .exec fun s now _ => Handler.call (geoAdd s now key [(m, geoScore lon lat)]) fun s o => Handler.done s [.int (Handler.intOf o)] := by
  simp [geoAddH, hn, hx, parseItems, h1, h2, Handler3.Pre.run, bind, pure]

/-- `deinterleave64 (interleave64 x y) = (x, y)` for all 32-bit x and y (bit-by-bit evaluation of the
    mask-and-shift steps, Proofs/GeoBits.lean; no SAT procedure) -/
theorem deinterleave_interleave (x y : UInt64) (hx : x.toNat < 2 ^ 32) (hy : y.toNat < 2 ^ 32) :
    deinterleave64 (interleave64 x y) = (x, y) := Proofs.GeoBits.deinterleave_interleave x y hx hy

/-- interleaving two k-bit values (k ≤ 32) gives a 2k-bit value -/
theorem interleave_size (x y : UInt64) (k : Nat) (hk : k ≤ 32) (hx : x.toNat < 2 ^ k) (hy : y.toNat < 2 ^ k) :
    (interleave64 x y).toNat < 2 ^ (2 * k) := interleave_lt x y k hk hx hy

/-- PARTIAL (`encode_in_range`): an accepted position gives a 52-bit hash PROVIDED both scaled offsets
    truncate to less than 2^26.  What is missing for the full statement "accepted ⇒ 52 bits" is that it is
    FALSE on the limits (`encode_limit_finding` below: offset = 2^26 exactly, also for a longitude strictly
    below 180), and for the rest a monotonicity proof of the correctly rounded subtraction / division
    (not done); the tie compares the model's `encode` with the real code on the limits, their neighbours
    and random positions on every run -/
theorem encode_in_range_partial (lon lat : F64) (h : UInt64)
    (he : encode wgsLong wgsLat lon lat wgsStep = some h)
    (hlat : F64.toUInt32 (F64.mul (F64.div (F64.sub lat wgsLat.min) (F64.sub wgsLat.max wgsLat.min)) (F64.ofNat (2 ^ wgsStep))) < 2 ^ 26)
    (hlon : F64.toUInt32 (F64.mul (F64.div (F64.sub lon wgsLong.min) (F64.sub wgsLong.max wgsLong.min)) (F64.ofNat (2 ^ wgsStep))) < 2 ^ 26) :
    h.toNat < 2 ^ 52 := by
  rw [encode_eq _ _ _ _ _ _ he]
  have e : ∀ n : Nat, n < 2 ^ 26 → (UInt64.ofNat n).toNat < 2 ^ 26 := by
    intro n hn
    rw [UInt64.toNat_ofNat_of_lt' (Nat.lt_of_lt_of_le hn (by decide))]; exact hn
  exact interleave_lt _ _ 26 (by omega) (e _ hlat) (e _ hlon)

/-- whatever the position, the hash has at most 64 bits and - both offsets being 32-bit values - is the
    interleaving of two 32-bit values that `deinterleave64` gives back -/
theorem encode_roundtrip (lon lat : F64) (h : UInt64) (he : encode wgsLong wgsLat lon lat wgsStep = some h) :
    ∃ x y : UInt64, x.toNat < 2 ^ 32 ∧ y.toNat < 2 ^ 32 ∧ h = interleave64 x y ∧ deinterleave64 h = (x, y) := by
  refine ⟨_, _, ?_, ?_, encode_eq _ _ _ _ _ _ he, ?_⟩
  · rw [UInt64.toNat_ofNat_of_lt' (Nat.lt_of_lt_of_le (toUInt32_lt _) (by decide))]; exact toUInt32_lt _
  · rw [UInt64.toNat_ofNat_of_lt' (Nat.lt_of_lt_of_le (toUInt32_lt _) (by decide))]; exact toUInt32_lt _
  · rw [encode_eq _ _ _ _ _ _ he]
    apply Proofs.GeoBits.deinterleave_interleave
    · rw [UInt64.toNat_ofNat_of_lt' (Nat.lt_of_lt_of_le (toUInt32_lt _) (by decide))]; exact toUInt32_lt _
    · rw [UInt64.toNat_ofNat_of_lt' (Nat.lt_of_lt_of_le (toUInt32_lt _) (by decide))]; exact toUInt32_lt _

/-- an ordinary position: Palermo (13.361389, 38.115556) has the 52-bit hash Redis documents -/
example : encodeWGS84 0x402AB907FAA044AF 0x40430ECA89FC6DA4 = 3479099956230698 := by decide +kernel

/-- FINDING (recorded in FINDINGS.md, not repaired): on the limits the hash is NOT a 52-bit value. Latitude
    85.05112878 (the maximum itself) sets bit 52; longitude 180 sets bit 53, and so does 179.99999999999997,
    a longitude strictly inside the range (its sum with 180 rounds to 360): `float64(hash)` then exceeds 2^53 and
    is no longer an exactly printed integer score.  The poles (latitude 90) are not rejected by GEOADD either:
    `Hash()` drops Encode's error and the member is stored with score 0 -/
theorem encode_limit_finding :
    (encodeWGS84 0x402AB907FAA044AF latMax).toNat ≥ 2 ^ 52 ∧
    (encodeWGS84 f180 0).toNat ≥ 2 ^ 53 ∧
    F64.lt 0x40667FFFFFFFFFFF f180 = true ∧ (encodeWGS84 0x40667FFFFFFFFFFF 0).toNat ≥ 2 ^ 53 ∧
    encode wgsLong wgsLat 0 f90 wgsStep = none ∧ geoScore 0 f90 = 0 := by
  decide +kernel

end geo

/-! ## 9. ZADD, the command (after the repair of A-48 and of the non-atomic multi-member ZADD)

  `Api.zaddPairs` mirrors the unexported `(*Nodis).zAddPairs` the ZADD handler now calls: all the pairs of one
  command in ONE transaction, decided with Redis' option rules. `Spec.ZAdd` (Spec/ZAdd.lean) is the reference: the
  option rules of the command reference on a plain association list member ↦ score. -/
section zaddPairs
open NodisVerif.Api

/-- the loop of `zAddPairs` keeps the invariant: every option set, every pair list without a NaN score (the handler
    rejects NaN before anything is written), members repeated in one command included -/
theorem zaddPairs_loop_wf (nx xx gt lt : Bool) (z : ZSet) (h : z.WF) (pairs : List (Bytes × F64))
    (hn : ∀ p ∈ pairs, F64.isNaN p.2 = false) :
    (pairs.foldl (zaddStep nx xx gt lt) { z := z, added := 0, changed := 0, ops := [] }).z.WF :=
  (inv_zaddFold nx xx gt lt pairs _ (Inv.ofWF h) hn).toWF

/-- ZADD keeps the sorted set well formed, at the level of the store: whatever sorted set `key` holds when the
    transaction has taken the key (for a missing key without XX: the empty one), the sorted set it holds after the
    command is well formed, and no NaN is stored -/
theorem zaddPairs_wf (s : MState) (now : Int) (key : Bytes) (nx xx gt lt ch : Bool) (pairs : List (Bytes × F64))
    (hne : pairs ≠ []) (hn : ∀ p ∈ pairs, F64.isNaN p.2 = false) (z : ZSet) (hwf : z.WF)
    (hz : asZSet (Store.writeKey s now key (if xx then none else some (.zset DsZSet.empty))).1 key = some z)
    (hok : xx = true → (Store.writeKey s now key none).2 = true) :
    ∃ z', asZSet (zaddPairs s now key nx xx gt lt ch pairs).1 key = some z' ∧ z'.WF ∧
      ∀ m sc, zScore z' m = some sc → F64.isNaN sc = false := by
  refine ⟨_, (zaddPairs_some s now key nx xx gt lt ch pairs hne z hz hok).2, zaddPairs_loop_wf nx xx gt lt z hwf pairs hn, ?_⟩
  intro m sc hsc
  exact (zaddPairs_loop_wf nx xx gt lt z hwf pairs hn).noNaN m sc (Proofs.AListLemmas2.mem_of_get? _ _ _ hsc)

/-- THE OPTION RULES ARE REDIS': for every store, key, option set and non-empty pair list, the reply is the
    reference's (`added`, with CH `added + changed`) and the member ↦ score map the key holds afterwards is the
    reference's map - every member looked up in both gives the same score or the same absence.
    (`hz` / `hok` say that the key holds a sorted set when the transaction has taken it - for XX on a missing key
    see `zaddPairs_xx_missing`, for an empty pair list `zaddPairs_nil`; a key of another type panics.) -/
theorem zaddPairs_spec (s : MState) (now : Int) (key : Bytes) (nx xx gt lt ch : Bool) (pairs : List (Bytes × F64))
    (hne : pairs ≠ []) (z : ZSet)
    (hz : asZSet (Store.writeKey s now key (if xx then none else some (.zset DsZSet.empty))).1 key = some z)
    (hok : xx = true → (Store.writeKey s now key none).2 = true) :
    (zaddPairs s now key nx xx gt lt ch pairs).2 =
      .int (Spec.ZAdd.reply ch (Spec.ZAdd.zadd nx xx gt lt z.dict pairs)) ∧
    ∃ z', asZSet (zaddPairs s now key nx xx gt lt ch pairs).1 key = some z' ∧
      ∀ m, zScore z' m = Spec.ZAdd.find (Spec.ZAdd.zadd nx xx gt lt z.dict pairs).map m := by
  obtain ⟨h1, h2⟩ := zaddPairs_some s now key nx xx gt lt ch pairs hne z hz hok
  have hr := zaddFold_spec nx xx gt lt z pairs
  refine ⟨?_, _, h2, hr.map⟩
  rw [h1]
  unfold Spec.ZAdd.reply
  rw [hr.added, hr.changed]

/-- XX on a key that does not exist: reply 0, and the store is what taking the key left - no key is created -/
theorem zaddPairs_xx_missing (s : MState) (now : Int) (key : Bytes) (nx gt lt ch : Bool) (pairs : List (Bytes × F64))
    (hne : pairs ≠ []) (hmiss : (Store.writeKey s now key none).2 = false) :
    zaddPairs s now key nx true gt lt ch pairs = ((Store.writeKey s now key none).1, .int 0) := by
  unfold zaddPairs
  have hne' : pairs.isEmpty = false := by cases pairs <;> simp_all
  simp [hne', hmiss]

/-- no pair: nothing happens (the transaction is not even begun, so no key can be created and left empty) -/
theorem zaddPairs_nil (s : MState) (now : Int) (key : Bytes) (nx xx gt lt ch : Bool) :
    zaddPairs s now key nx xx gt lt ch [] = (s, .int 0) := rfl

/-- a ZADD without XX on a key that does not exist never leaves an empty key: the first pair is written -/
theorem zaddPairs_created_not_empty (nx gt lt : Bool) (pairs : List (Bytes × F64)) (hne : pairs ≠ []) :
    (pairs.foldl (zaddStep nx false gt lt) { z := DsZSet.empty, added := 0, changed := 0, ops := [] }).ops ≠ [] :=
  Proofs.ZAddPairs.zaddFold_empty_ops_ne nx gt lt pairs hne _ rfl

/-- the reference on the witness of A-48 (`abc` = {a ↦ 1, b ↦ 2, c ↦ 3}): `GT CH 5 a 1 b 9 new` updates a, leaves
    b (1 is not greater than 2), ADDS the new member, replies 2; `NX 7 a 8 x 9 x` adds x once (the second pair for
    x sees it), replies 1; `XX 4 zz` does nothing -/
example :
    let r := Spec.ZAdd.zadd false false true false abc.dict [([97], F64.ofNat 5), ([98], F64.ofNat 1), ([110], F64.ofNat 9)]
    Spec.ZAdd.reply true r = 2 ∧ Spec.ZAdd.reply false r = 1 ∧
    Spec.ZAdd.find r.map [97] = some (F64.ofNat 5) ∧ Spec.ZAdd.find r.map [98] = some (F64.ofNat 2) ∧
    Spec.ZAdd.find r.map [110] = some (F64.ofNat 9) := by decide +kernel

example :
    let r := Spec.ZAdd.zadd true false false false abc.dict [([97], F64.ofNat 7), ([120], F64.ofNat 8), ([120], F64.ofNat 9)]
    Spec.ZAdd.reply false r = 1 ∧ Spec.ZAdd.find r.map [97] = some (F64.ofNat 1) ∧
    Spec.ZAdd.find r.map [120] = some (F64.ofNat 8) := by decide +kernel

/-- the hypotheses of `zaddPairs_spec` / `zaddPairs_wf` are satisfiable: a Pebble store in which key "k" holds
    `abc`, options GT CH, three pairs -/
example :
    let s : MState := (zaddPairs { pebble := true } 0 [107] false false false false false
      [([97], F64.ofNat 1), ([98], F64.ofNat 2), ([99], F64.ofNat 3)]).1
    asZSet (Store.writeKey (Api.commit s) 1 [107] (some (.zset DsZSet.empty))).1 [107] = some abc ∧
    Handler.intOf (zaddPairs (Api.commit s) 1 [107] false false true false true
      [([97], F64.ofNat 5), ([98], F64.ofNat 1), ([110], F64.ofNat 9)]).2 = 2 := by decide +kernel

end zaddPairs

end NodisVerif.C04
