import NodisVerif.Model.DsZSet
import NodisVerif.Model.WF
import NodisVerif.Spec.ZSet
import NodisVerif.Proofs.C04Inv
import NodisVerif.Proofs.C04Seq
import NodisVerif.Proofs.C04Spec
import NodisVerif.Proofs.C04Rem
import NodisVerif.Proofs.C04ScoreSpec
import NodisVerif.Proofs.C04Rank
import NodisVerif.Proofs.C08Step
import NodisVerif.Model.Handler3
import NodisVerif.Proofs.GeoAdd
import NodisVerif.Proofs.GeoRange
import NodisVerif.Proofs.F64NotNaN
/-
  C04 — sorted sets stay ordered by (score, member); rank, range and score agree.

  Property theorems only; helper lemmas live in Proofs/C04*.lean.  The reference semantics is
  Spec/ZSet.lean: every ordered query is defined on `Spec.ZSet.sorted z`, the list of the
  dictionary's (score, member) pairs sorted by score then member bytes, which is computed from the
  member→score dictionary alone and never looks at the index `z.sl`.

  Everything is unbounded: every sorted set, every member byte string, every score bit pattern,
  every `Int` index, every operation sequence.  Hypotheses that occur:
    * `ZSet.WF z` — the invariant of Model/WF.lean (section 1 shows it is an invariant);
    * `F64.isNaN s = false` on a score that is *written* (a NaN score breaks the order: the Go code
      accepts it, Redis rejects it at parse time);
    * `z.dict.length < 2 ^ 63` where the code computes `int(stop - start)`.

  After the repairs of the Go code (ZADD with an IEEE-equal score is a no-op; ZRANGEBYSCORE applies
  offset/limit to the members that satisfy the bounds) the signed-zero region and the LIMIT regions
  are gone: sections 1, 6, 7 hold in full.  Remaining findings (each witness was replayed on the Go
  code): NaN scores and NaN bounds of ZREMRANGEBYSCORE (`zadd_nan_finding`,
  `zremrangebyscore_nan_finding`), and the 1-based rank windows of ZRANGE / ZREVRANGE with panics
  and a phantom header element (`zrange_finding`, `zrevrange_finding`,
  `zrange_last_k_panic_finding`) — pinned by the repository's own tests.
-/
namespace NodisVerif.C04
open NodisVerif
open NodisVerif.DsZSet
open NodisVerif.Proofs.C04

/-! ## 1. The invariant -/

theorem wf_empty : DsZSet.empty.WF := inv_empty.toWF

/-- ZADD keeps the invariant for every member and every non-NaN score (any insertion order, ties,
    updates, signed zeros) -/
theorem zadd_wf (z : ZSet) (h : z.WF) (m : Bytes) (s : F64) (hs : F64.isNaN s = false) :
    (zAdd z m s).1.WF := (inv_zAdd (Inv.ofWF h) m s hs).toWF

theorem zaddXX_wf (z : ZSet) (h : z.WF) (m : Bytes) (s : F64) (hs : F64.isNaN s = false) :
    (zAddXX z m s).1.WF := (inv_zAddXX (Inv.ofWF h) m s hs).toWF

theorem zaddNX_wf (z : ZSet) (h : z.WF) (m : Bytes) (s : F64) (hs : F64.isNaN s = false) :
    (zAddNX z m s).1.WF := (inv_zAddNX (Inv.ofWF h) m s hs).toWF

theorem zaddLT_wf (z : ZSet) (h : z.WF) (m : Bytes) (s : F64) (hs : F64.isNaN s = false) :
    (zAddLT z m s).1.WF := (inv_zAddLT (Inv.ofWF h) m s hs).toWF

theorem zaddGT_wf (z : ZSet) (h : z.WF) (m : Bytes) (s : F64) (hs : F64.isNaN s = false) :
    (zAddGT z m s).1.WF := (inv_zAddGT (Inv.ofWF h) m s hs).toWF

theorem zincrby_wf (z : ZSet) (h : z.WF) (m : Bytes) (newScore : F64)
    (hs : F64.isNaN newScore = false) : (zIncrByWith z m newScore).WF :=
  (inv_zAdd (Inv.ofWF h) m newScore hs).toWF

theorem zrem_wf (z : ZSet) (h : z.WF) (ms : List Bytes) : (zRem z ms).1.WF :=
  (inv_zRem (Inv.ofWF h) ms).toWF

theorem zremRangeByScore_wf (z : ZSet) (h : z.WF) (min max : F64) (mode : Nat) :
    (zRemRangeByScore z min max mode).1.WF := (inv_zRemRangeByScore (Inv.ofWF h) min max mode).toWF

theorem zremRangeByRank_wf (z : ZSet) (h : z.WF) (start stop : Int) :
    (zRemRangeByRank z start stop).1.WF := (inv_zRemRangeByRank (Inv.ofWF h) start stop).toWF

/-- a NaN score does break the invariant (why `isNaN s = false` is a hypothesis everywhere above;
    NaN cannot arrive over RESP any more, the data-structure function still accepts it) -/
theorem zadd_nan_finding :
    F64.isNaN 0x7FF8000000000000 = true ∧ ¬ (zAdd DsZSet.empty [97] 0x7FF8000000000000).1.WF := by
  refine ⟨by decide, ?_⟩
  intro h
  have := h.noNaN [97] 0x7FF8000000000000 (by decide)
  revert this
  decide

/-- after ZADD of +0.0 and then −0.0 for the same member nothing disagrees any more: the stored
    score stays +0.0 in the dictionary and in the index (this input was the former signed-zero
    finding) -/
theorem zadd_signed_zero_consistent :
    let z : ZSet := (zAdd (zAdd DsZSet.empty [97] 0).1 [97] F64.negZero).1
    z.WF ∧ zScore z [97] = some 0 ∧ z.sl = [(0, [97])] :=
  ⟨zadd_wf _ (zadd_wf _ wf_empty [97] 0 (by decide)) [97] F64.negZero (by decide), by decide, by decide⟩

/-- any sequence of operations whose written scores are not NaN — for every member, any insertion
    order, duplicate scores, score updates, removals, signed zeros -/
theorem wf_run (z : ZSet) (h : z.WF) (ops : List Op) (hok : ∀ op ∈ ops, op.NoNaN) : (run z ops).WF :=
  (inv_run ops z (Inv.ofWF h) hok).toWF

theorem wf_run_from_empty (ops : List Op) (hok : ∀ op ∈ ops, op.NoNaN) : (run DsZSet.empty ops).WF :=
  wf_run DsZSet.empty wf_empty ops hok

/-- ZUNIONSTORE / ZINTERSTORE: `Api.zstore` builds the destination as
    `items.foldl (fun z it => (zAdd z it.2 it.1).1) DsZSet.empty`; the result is well formed for
    every non-NaN aggregate -/
theorem zstore_result_wf (items : List Item) (hn : ∀ it ∈ items, F64.isNaN it.1 = false) :
    (items.foldl (fun z it => (zAdd z it.2 it.1).1) DsZSet.empty).WF :=
  (inv_buildFrom items DsZSet.empty inv_empty hn).toWF

/-- non-vacuity: a set built by the model's own operations, with a tie (two members at score 1.0),
    a score update, a negative-zero score, an overwrite of a zero by the other zero and a removal;
    it is well formed, its chain is as expected -/
def demoOps : List Op :=
  [.add [98] 0x3FF0000000000000, .add [97] 0x3FF0000000000000, .add [99] F64.negZero,
   .add [100] 0x4000000000000000, .incrBy [100] 0xBFF0000000000000, .add [99] 0, .add [101] 0,
   .rem [[101]]]

def demo : ZSet := run DsZSet.empty demoOps

example : (∀ op ∈ demoOps, op.NoNaN) ∧ demo.WF ∧
    demo.sl = [(0xBFF0000000000000, [100]), (F64.negZero, [99]),
      (0x3FF0000000000000, [97]), (0x3FF0000000000000, [98])] := by
  have hok : ∀ op ∈ demoOps, op.NoNaN := by
    intro op hop
    simp only [demoOps, List.mem_cons, List.not_mem_nil, or_false] at hop
    rcases hop with rfl | rfl | rfl | rfl | rfl | rfl | rfl | rfl <;>
      simp [Op.NoNaN, Op.score?] <;> decide
  exact ⟨hok, wf_run_from_empty _ hok, by decide⟩

/-! ## 2. The index never disagrees with the dictionary -/

theorem chain_is_sorted_dict (z : ZSet) (h : z.WF) : z.sl = Spec.ZSet.sorted z :=
  sl_eq_sorted (Inv.ofWF h)

/-- conversely the reference list of any key-sorted NaN-free dictionary is a valid index for it -/
theorem sorted_dict_is_chain (z : ZSet) (hd : AList.Sorted z.dict)
    (hn : ∀ m s, (m, s) ∈ z.dict → F64.isNaN s = false) :
    ZSet.WF { dict := z.dict, sl := Spec.ZSet.sorted z } :=
  (inv_sorted z (Proofs.AListLemmas.sorted_pairwise z.dict hd) (fun p hp => hn p.1 p.2 hp)).toWF

/-! ## 3. One score per member, the last one assigned; ZCARD; ZSCORE -/

/-- after `ZADD m s` (s not NaN; any set, well formed or not) the member's score is IEEE-equal to
    `s`; it is `s` bit for bit unless the member already held the zero of the other sign (an
    IEEE-equal score is not an update, as in Redis); every other member keeps its score -/
theorem last_score_wins (z : ZSet) (m : Bytes) (s : F64) (hs : F64.isNaN s = false) :
    (∃ s', zScore (zAdd z m s).1 m = some s' ∧ F64.eq s' s = true ∧
      (s' = s ∨ (zScore z m = some s' ∧ ((s' = 0 ∧ s = F64.negZero) ∨ (s' = F64.negZero ∧ s = 0))))) ∧
    ∀ m', m' ≠ m → zScore (zAdd z m s).1 m' = zScore z m' :=
  zAdd_score z m s hs

/-- in particular: a new member, or a score that is not IEEE-equal to the stored one, is stored
    bit for bit -/
theorem last_score_wins_exact (z : ZSet) (m : Bytes) (s : F64) (hs : F64.isNaN s = false)
    (hne : ∀ old, zScore z m = some old → F64.eq s old = false) :
    zScore (zAdd z m s).1 m = some s := by
  obtain ⟨⟨s', h1, h2, h3⟩, _⟩ := zAdd_score z m s hs
  rcases h3 with rfl | ⟨hold, _⟩
  · exact h1
  · have := hne s' hold
    rw [eq_symm s' s h2] at this
    cases this

theorem zscore_spec (z : ZSet) (m : Bytes) : zScore z m = Spec.ZSet.score z m :=
  (score_eq_get? z m).symm

/-- the score reported for a member is the one the sorted list carries for it -/
theorem zscore_in_sorted (z : ZSet) (h : z.WF) (m : Bytes) (s : F64) :
    zScore z m = some s ↔ (s, m) ∈ Spec.ZSet.sorted z := by
  rw [← chain_is_sorted_dict z h]
  exact (Inv.ofWF h).get_iff s m

/-- ZCARD = length of the sorted list = length of the index, and the members are pairwise distinct -/
theorem zcard_exact (z : ZSet) (h : z.WF) :
    zCard z = (Spec.ZSet.card z : Int) ∧ zCard z = (z.sl.length : Int) ∧ (Spec.ZSet.members z).Nodup := by
  have hi := Inv.ofWF h
  unfold Spec.ZSet.card Spec.ZSet.members
  rw [← sl_eq_sorted hi]
  exact ⟨by unfold zCard; rw [hi.sameLen], by unfold zCard; rw [hi.sameLen], members_nodup hi⟩

theorem non_member_no_rank_no_score (z : ZSet) (h : z.WF) (m : Bytes)
    (hm : m ∉ Spec.ZSet.members z) :
    zScore z m = none ∧ zRank z m = none ∧ zRevRank z m = none ∧ zExists z m = false := by
  have hi := Inv.ofWF h
  have hnone : AList.get? z.dict m = none := by
    cases hget : AList.get? z.dict m with
    | none => rfl
    | some s =>
      exfalso
      apply hm
      unfold Spec.ZSet.members
      rw [← sl_eq_sorted hi]
      exact List.mem_map.mpr ⟨(s, m), (hi.get_iff s m).mp hget, rfl⟩
  simp [zScore, zRank, zRevRank, zExists, AList.contains, hnone]

/-! ## 4. Ranks are positions in the sorted list -/

theorem zrank_is_position (z : ZSet) (h : z.WF) (m : Bytes) : zRank z m = Spec.ZSet.rank z m :=
  zRank_spec (Inv.ofWF h) m

/-- the model's `length − r` for descending order *is* Redis' `card − 1 − rank` (r is 1-based) -/
theorem zrevrank_spec (z : ZSet) (h : z.WF) (m : Bytes) : zRevRank z m = Spec.ZSet.revRank z m :=
  zRevRank_spec (Inv.ofWF h) m

/-! ## 7. Removal ranges -/

/-- ZREMRANGEBYSCORE removes exactly the members whose score lies in the interval and returns
    their number (non-NaN bounds; mode bit 0 = min exclusive, bit 1 = max exclusive) -/
theorem zRemRangeByScore_spec (z : ZSet) (h : z.WF) (min max : F64)
    (hmin : F64.isNaN min = false) (hmax : F64.isNaN max = false) (mode : Nat) :
    (Spec.ZSet.sorted (zRemRangeByScore z min max mode).1, ((zRemRangeByScore z min max mode).2).toNat)
      = Spec.ZSet.remRangeByScore z min max (minOpen mode) (maxOpen mode) ∧
    0 ≤ (zRemRangeByScore z min max mode).2 :=
  Proofs.C04.zRemRangeByScore_spec (Inv.ofWF h) min max hmin hmax mode

/-- ZREMRANGEBYRANK: 0-based inclusive, negative from the end, clamped — every `Int` start/stop -/
theorem zRemRangeByRank_spec (z : ZSet) (h : z.WF) (start stop : Int) :
    (Spec.ZSet.sorted (zRemRangeByRank z start stop).1, ((zRemRangeByRank z start stop).2).toNat)
      = Spec.ZSet.remRangeByRank z start stop ∧ 0 ≤ (zRemRangeByRank z start stop).2 :=
  Proofs.C04.zRemRangeByRank_spec (Inv.ofWF h) start stop

/-- ZREM: exactly the listed members disappear, everything else keeps score and relative order -/
theorem zRem_spec (z : ZSet) (h : z.WF) (ms : List Bytes) :
    Spec.ZSet.sorted (zRem z ms).1 = (Spec.ZSet.sorted z).filter (fun it => decide (it.2 ∉ ms)) ∧
    (zRem z ms).2 = (Spec.ZSet.card z : Int) - Spec.ZSet.card (zRem z ms).1 :=
  zRem_sorted (Inv.ofWF h) ms

/-- ZADD: the member is (re)placed according to its stored score `s'` (IEEE-equal to the score
    given, see `last_score_wins`), everything else is untouched -/
theorem zAdd_spec (z : ZSet) (h : z.WF) (m : Bytes) (s : F64) (hs : F64.isNaN s = false) :
    ∃ s', zScore (zAdd z m s).1 m = some s' ∧ F64.eq s' s = true ∧
      Spec.ZSet.sorted (zAdd z m s).1 = Spec.ZSet.add z m s' :=
  zAdd_sorted (Inv.ofWF h) m s hs

/-! ## 6. Ranges by score

  `hsize : z.dict.length < 2 ^ 63` (the cardinality fits Go's int64; always true in memory) is needed
  wherever the code computes `int(stop - start)`. -/

/-- ZCOUNT, every mode, every bound (NaN bounds included: both sides count nothing) -/
theorem zcount_spec (z : ZSet) (h : z.WF) (hsize : z.dict.length < 2 ^ 63) (min max : F64) (mode : Nat) :
    zCount z min max mode = some (Spec.ZSet.count z min max (minOpen mode) (maxOpen mode) : Int) :=
  zCount_spec (Inv.ofWF h) hsize min max mode

/-- ZRANGEBYSCORE / ZREVRANGEBYSCORE, in full: every bound (NaN included: both sides are empty),
    every mode (open / closed ends), both directions, every offset and every count (offset < 0 or
    count = 0: empty; count < 0: all) -/
theorem zrangebyscore_spec (z : ZSet) (h : z.WF) (min max : F64) (offset count : Int) (desc : Bool)
    (mode : Nat) :
    rangeByScore z min max offset count desc mode =
      if desc then Spec.ZSet.revRangeByScoreLimit z min max (minOpen mode) (maxOpen mode) offset count
      else Spec.ZSet.rangeByScoreLimit z min max (minOpen mode) (maxOpen mode) offset count :=
  rangeByScore_spec (Inv.ofWF h) min max offset count desc mode

/-- the two directions separately, without LIMIT -/
theorem zrangebyscore_spec_nolimit (z : ZSet) (h : z.WF) (min max : F64) (count : Int) (hc : count < 0)
    (mode : Nat) :
    rangeByScore z min max 0 count false mode
      = Spec.ZSet.rangeByScore z min max (minOpen mode) (maxOpen mode) ∧
    rangeByScore z min max 0 count true mode
      = Spec.ZSet.revRangeByScore z min max (minOpen mode) (maxOpen mode) := by
  have h1 := zrangebyscore_spec z h min max 0 count false mode
  have h2 := zrangebyscore_spec z h min max 0 count true mode
  simp only [Bool.false_eq_true, if_false, if_true, Spec.ZSet.rangeByScoreLimit,
    Spec.ZSet.revRangeByScoreLimit, Spec.ZSet.limitBy, Int.lt_irrefl, Int.toNat_zero, List.drop_zero,
    hc] at h1 h2
  exact ⟨h1, h2⟩

/-- the three members a:1.0 b:2.0 c:3.0 used by the witnesses -/
def abc : ZSet :=
  run DsZSet.empty [.add [97] 0x3FF0000000000000, .add [98] 0x4000000000000000, .add [99] 0x4008000000000000]

theorem abc_wf : abc.WF := wf_run_from_empty _ (by
  intro op hop
  simp only [List.mem_cons, List.not_mem_nil, or_false] at hop
  rcases hop with rfl | rfl | rfl <;> simp [Op.NoNaN, Op.score?] <;> decide)

/-- the inputs of the former LIMIT findings now agree with Redis:
    ZRANGEBYSCORE (1 3 LIMIT 0 1 = [b];  ZRANGEBYSCORE 1 2 LIMIT 2 -1 = [];
    ZREVRANGEBYSCORE 3 2 LIMIT 2 -1 = [];  a NaN lower bound yields nothing -/
example :
    rangeByScore abc 0x3FF0000000000000 0x4008000000000000 0 1 false 1 = [(0x4000000000000000, [98])] ∧
    rangeByScore abc 0x3FF0000000000000 0x4000000000000000 2 (-1) false 0 = [] ∧
    rangeByScore abc 0x4000000000000000 0x4008000000000000 2 (-1) true 0 = [] ∧
    rangeByScore abc 0x7FF8000000000000 0x4008000000000000 0 (-1) false 0 = [] := by
  decide

/-- ZREMRANGEBYSCORE still mishandles a NaN upper bound: everything from `min` up is deleted (the
    reference deletes nothing; Redis rejects NaN bounds, and so does the RESP parser now) -/
theorem zremrangebyscore_nan_finding :
    F64.isNaN 0x7FF8000000000000 = true ∧
    (zRemRangeByScore abc 0x4000000000000000 0x7FF8000000000000 0).2 = 2 ∧
    (Spec.ZSet.remRangeByScore abc 0x4000000000000000 0x7FF8000000000000 false false).2 = 0 := by
  decide

/-! ## 5. Ranges by rank

  `forEachByRank` treats `start`/`stop` as 1-based ranks (0 aliased to 1); the repository's own
  tests pin this, so it is a known finding. -/

/-
  FULL STATEMENT (false): ∀ z start stop, z.WF →
      zRange z start stop = some (Spec.rangeByRank z start stop) ∧
      zRevRange z start stop = some (Spec.revRangeByRank z start stop)
  It holds on `RankRegion start stop card` (resp. `RevRankRegion`), a decidable region:
      start = 0 ∧ (stop < 0 ∨ stop ≥ card)            -- e.g. ZRANGE k 0 -1, ZRANGE k 0 -2
    ∨ start > card                                      -- both empty
    ∨ 1 ≤ start ∧ 0 ≤ stop < start                      -- both empty
    ∨ 1 ≤ start ∧ stop < 0 ∧ card + stop + 1 < start    -- both empty
    (ZREVRANGE only) ∨ 1 < start ≤ stop < card
  Everywhere else with start ≥ 0 the model is given in closed form by `zrange_model_closed_form` /
  `zrevrange_model_closed_form`; witnesses of disagreement, including two panics and a phantom
  element, follow.
-/
theorem zrange_spec_partial (z : ZSet) (h : z.WF) (hsize : z.dict.length < 2 ^ 63) (start stop : Int)
    (hr : RankRegion start stop (zCard z)) :
    zRange z start stop = some (Spec.ZSet.rangeByRank z start stop) := by
  have hi := Inv.ofWF h
  unfold Spec.ZSet.rangeByRank zRange
  rw [← sl_eq_sorted hi]
  apply zrange_region hi.sameLen hsize
  have : zCard z = (z.sl.length : Int) := by unfold zCard; rw [hi.sameLen]
  rw [← this]; exact hr

theorem zrevrange_spec_partial (z : ZSet) (h : z.WF) (hsize : z.dict.length < 2 ^ 63)
    (start stop : Int) (hr : RevRankRegion start stop (zCard z)) :
    zRevRange z start stop = some (Spec.ZSet.revRangeByRank z start stop) := by
  have hi := Inv.ofWF h
  unfold Spec.ZSet.revRangeByRank zRevRange
  rw [← sl_eq_sorted hi]
  apply zrevrange_region hi.sameLen hsize
  have : zCard z = (z.sl.length : Int) := by unfold zCard; rw [hi.sameLen]
  rw [← this]; exact hr

/-- the model's actual semantics: for 1 ≤ start ≤ stop, ZRANGE returns the members of 1-based ranks
    start..stop, i.e. what Redis returns for `ZRANGE (start-1) (stop-1)` -/
theorem zrange_is_one_based (z : ZSet) (h : z.WF) (hsize : z.dict.length < 2 ^ 63) (start stop : Int)
    (h1 : 1 ≤ start) (h2 : start ≤ stop) :
    zRange z start stop = some (Spec.ZSet.rangeByRank z (start - 1) (stop - 1)) := by
  have hi := Inv.ofWF h
  unfold Spec.ZSet.rangeByRank zRange
  rw [← sl_eq_sorted hi]
  exact zrange_one_based hi.sameLen hsize start stop h1 h2

/-- every ascending window with `start ≥ 0` (never panics) -/
theorem zrange_model_closed_form (z : ZSet) (h : z.WF) (hsize : z.dict.length < 2 ^ 63)
    (start stop : Int) (h0 : 0 ≤ start) :
    zRange z start stop =
      some (if stop1 (zCard z) stop < start1 start then []
            else Spec.ZSet.slice (Spec.ZSet.sorted z) (start1 start - 1) (stop1 (zCard z) stop - 1)) := by
  have hi := Inv.ofWF h
  have : zCard z = (z.sl.length : Int) := by unfold zCard; rw [hi.sameLen]
  rw [this, ← sl_eq_sorted hi]
  exact zrange_closed hi.sameLen hsize start stop h0

/-- every descending window with `start ≥ 0`: 0-based from the top when start ∈ {0,1} (one item
    short), the skiplist *header* as a phantom member when start = card, a nil dereference when
    1 < start < card ≤ stop, and Redis' answer when 1 < start ≤ stop < card -/
theorem zrevrange_model_closed_form (z : ZSet) (h : z.WF) (hsize : z.dict.length < 2 ^ 63)
    (start stop : Int) (h0 : 0 ≤ start) :
    zRevRange z start stop =
      if start > zCard z ∨ stop1 (zCard z) stop < start1 start then some []
      else if start1 start = 1 then
        some (Spec.ZSet.slice (Spec.ZSet.sorted z).reverse 0 (stop1 (zCard z) stop - 1))
      else if start1 start = zCard z then some [headerItem]
      else if stop1 (zCard z) stop ≥ zCard z then none
      else some (Spec.ZSet.slice (Spec.ZSet.sorted z).reverse (start1 start) (stop1 (zCard z) stop)) := by
  have hi := Inv.ofWF h
  have : zCard z = (z.sl.length : Int) := by unfold zCard; rw [hi.sameLen]
  rw [this, ← sl_eq_sorted hi]
  exact zrevrange_closed hi.sameLen hsize start stop h0

/-- ascending windows with a negative `start` (|start| < 2^62): `card + start` is read as a 1-based
    rank, and when it is ≤ 1 the walk still runs `stop − (card + start) + 1` steps from the head —
    `none` = nil dereference when that exceeds the chain -/
theorem zrange_negative_start_closed_form (z : ZSet) (h : z.WF) (hsize : z.dict.length < 2 ^ 63)
    (start stop : Int) (h0 : start < 0) (hb : -(2 ^ 62) ≤ start) :
    zRange z start stop =
      if stop1 (zCard z) stop < start then some [] else
      let s : Int := zCard z + start
      let k : Int := min (stop1 (zCard z) stop) (zCard z) - s + 1
      if k ≤ 0 then some []
      else if k ≤ zCard z - ((s.toNat - 1 : Nat) : Int)
        then some (((Spec.ZSet.sorted z).drop (s.toNat - 1)).take k.toNat)
      else none := by
  have hi := Inv.ofWF h
  have : zCard z = (z.sl.length : Int) := by unfold zCard; rw [hi.sameLen]
  rw [this, ← sl_eq_sorted hi]
  exact zrange_closed_neg hi.sameLen hsize start stop h0 hb

/-- "the last k members" with k ≥ card > 0: `ZRANGE key -k -1` panics (Redis: all members) -/
theorem zrange_last_k_panic_finding (z : ZSet) (h : z.WF) (hsize : z.dict.length < 2 ^ 63)
    (start : Int) (hpos : 0 < zCard z) (h1 : start ≤ -(zCard z)) (hb : -(2 ^ 62) ≤ start) :
    zRange z start (-1) = none ∧ Spec.ZSet.rangeByRank z start (-1) = Spec.ZSet.sorted z := by
  have hi := Inv.ofWF h
  have hc : zCard z = (z.sl.length : Int) := by unfold zCard; rw [hi.sameLen]
  rw [hc] at hpos h1
  refine ⟨zrange_last_k_panics hi.sameLen hsize start (by omega) h1 hb, ?_⟩
  unfold Spec.ZSet.rangeByRank
  rw [← sl_eq_sorted hi, slice_norm]
  have hs' : normStart (z.sl.length) start = 0 := by unfold normStart; split <;> (try split) <;> omega
  have he' : normStop (z.sl.length) (-1) = (z.sl.length : Int) - 1 := by
    unfold normStop; simp only; split <;> (try split) <;> omega
  rw [hs', he', if_neg (by omega)]
  simp only [Int.toNat_zero, List.drop_zero]
  apply List.take_of_length_le
  omega

/-- witnesses on {a:1, b:2, c:3}: ZRANGE 0 0 is empty (Redis: [a]); ZRANGE 1 1 is [a] (Redis: [b]);
    ZRANGE -1 -1 is [b, c] (Redis: [c]); ZRANGE -3 -1 panics (Redis: everything);
    ZREVRANGE 0 1 is [c] (Redis: [c, b]); ZREVRANGE 3 3 returns the skiplist header (0, "") (Redis: []);
    ZREVRANGE 2 -1 panics (Redis: [a]) -/
theorem zrange_finding :
    zRange abc 0 0 = some [] ∧ Spec.ZSet.rangeByRank abc 0 0 = [(0x3FF0000000000000, [97])] ∧
    zRange abc 1 1 = some [(0x3FF0000000000000, [97])] ∧
      Spec.ZSet.rangeByRank abc 1 1 = [(0x4000000000000000, [98])] ∧
    zRange abc (-1) (-1) = some [(0x4000000000000000, [98]), (0x4008000000000000, [99])] ∧
      Spec.ZSet.rangeByRank abc (-1) (-1) = [(0x4008000000000000, [99])] ∧
    zRange abc (-3) (-1) = none ∧ (Spec.ZSet.rangeByRank abc (-3) (-1)).length = 3 := by
  decide

theorem zrevrange_finding :
    zRevRange abc 0 1 = some [(0x4008000000000000, [99])] ∧
      Spec.ZSet.revRangeByRank abc 0 1 = [(0x4008000000000000, [99]), (0x4000000000000000, [98])] ∧
    zRevRange abc 3 3 = some [(0, [])] ∧ Spec.ZSet.revRangeByRank abc 3 3 = [] ∧
    zRevRange abc 2 (-1) = none ∧ Spec.ZSet.revRangeByRank abc 2 (-1) = [(0x3FF0000000000000, [97])] ∧
    -- negative windows: ZREVRANGE -1 -1 panics (Redis: [a]); ZREVRANGE -2 -1 returns all three (Redis: [b, a])
    zRevRange abc (-1) (-1) = none ∧ Spec.ZSet.revRangeByRank abc (-1) (-1) = [(0x3FF0000000000000, [97])] ∧
    (zRevRange abc (-2) (-1)).map List.length = some 3 ∧ (Spec.ZSet.revRangeByRank abc (-2) (-1)).length = 2 := by
  decide

/-- non-vacuity of the regions -/
example : RankRegion 0 (-1) (zCard abc) ∧ RankRegion 0 (-2) (zCard abc) ∧ RankRegion 0 7 (zCard abc) ∧
    RevRankRegion 2 2 (zCard abc + 1) ∧ ¬ RankRegion 0 0 (zCard abc) ∧ ¬ RankRegion 1 2 (zCard abc) := by
  decide

/-! ## the command layer: which bound an exclusive mark belongs to

  The theorems above are about the API functions and their mode bits. The handlers turn the text of the
  bounds into those bits; with REV (and in ZREVRANGEBYSCORE) the FIRST bound is the maximum. The handlers had
  the two marks crossed in the reversed forms (repaired: `fix:` in known_findings.json); the model had
  mirrored that. These witnesses pin the repaired behaviour end to end through the dispatch table
  (z = {a:1, b:2, c:3, d:4}). -/
section handlers
open NodisVerif.Proofs.C08Step Resp Server

private def zk : Bytes := [122]
private def b (s : String) : Bytes := Bytes.ofString s
private def zsetup : Cmd := { id := "c", name := "ZADD", args := [zk, b "1", b "a", b "2", b "b", b "3", b "c", b "4", b "d"] }
private def q (name : String) (args : List String) : Cmd := { id := "c", name := name, args := zk :: args.map b }
private def reply (c : Cmd) : List Tok := ((run Handler3.table3 { store := {} } [zsetup, c]).2.getD 1 [])
private def names (l : List String) : List Tok := Tok.arr l.length :: l.map fun x => Tok.bulk (b x)

/-- ZREVRANGEBYSCORE z 4 (1: the maximum 4 is included, the minimum 1 is excluded -/
theorem zrevrangebyscore_exclusive_min : reply (q "ZREVRANGEBYSCORE" ["4", "(1"]) = names ["d", "c", "b"] := by decide +kernel
/-- ZREVRANGEBYSCORE z (4 1: the maximum 4 is excluded, the minimum 1 is included -/
theorem zrevrangebyscore_exclusive_max : reply (q "ZREVRANGEBYSCORE" ["(4", "1"]) = names ["c", "b", "a"] := by decide +kernel
theorem zrevrangebyscore_both_exclusive : reply (q "ZREVRANGEBYSCORE" ["(4", "(1"]) = names ["c", "b"] := by decide +kernel
/-- the same through ZRANGE ... BYSCORE REV, and the forward forms for comparison -/
theorem zrange_byscore_rev_exclusive_min : reply (q "ZRANGE" ["4", "(1", "BYSCORE", "REV"]) = names ["d", "c", "b"] := by decide +kernel
theorem zrange_byscore_rev_exclusive_max : reply (q "ZRANGE" ["(4", "1", "BYSCORE", "REV"]) = names ["c", "b", "a"] := by decide +kernel
theorem zrangebyscore_exclusive_min : reply (q "ZRANGEBYSCORE" ["(1", "4"]) = names ["b", "c", "d"] := by decide +kernel
theorem zrangebyscore_exclusive_max : reply (q "ZRANGEBYSCORE" ["1", "(4"]) = names ["a", "b", "c"] := by decide +kernel
theorem zrange_byscore_exclusive_min : reply (q "ZRANGE" ["(1", "4", "BYSCORE"]) = names ["b", "c", "d"] := by decide +kernel

end handlers

/- UNPROVED (not needed for any theorem above, listed for completeness):
   * Exactness ("only if") of `RankRegion` / `RevRankRegion`: outside these regions the model is
     given in closed form (`zrange_model_closed_form`, `zrevrange_model_closed_form`,
     `zrange_negative_start_closed_form`) and disagreement is shown by witnesses, but there is no
     theorem "∀ inputs outside the region, model ≠ reference".
   * ZREVRANGE with a negative `start`: witnesses only (`zrevrange_finding`), no closed form.
   * `start < -2^62` (int64 wrap-around of `stop - start`) is excluded from
     `zrange_negative_start_closed_form`.
   * ZSCAN (also built on `forEachByRank`) is not part of the property text and is not treated.
   * The command layer (text of bounds, LIMIT, WITHSCORES, option positions → arguments of the API functions) is
     tied to the code by the RESP streams and pinned by witnesses only; there is no general theorem relating
     the handlers' parsing to the reference semantics.
-/

/-! ### GEOADD is a ZADD of the geohash score; the geohash bit tricks (work package D)

  Model: Model/Handler4.lean (`geoAdd`, `geoScore`), Model/Geohash.lean (`interleave64`, `deinterleave64`,
  `encode`), exact float arithmetic in Model/F64More.lean.  Tie: RESP streams with GEO commands mixed into
  sorted-set commands on the same keys, `api GeoAdd` in the embedded-API streams, and the `geo` operation lines
  (float operations and geohash functions of the real code against the model on limits and random operands). -/

section geo
open NodisVerif.Proofs.GeoAdd NodisVerif.Proofs.GeoBits NodisVerif.Geohash NodisVerif.Handler4

/-- GEOADD of one item IS `ZAdd(key, member, float64(hash))`: same store afterwards (index, backend, watch
    signals, change records), same reply -/
theorem geoadd_is_zadd (s : MState) (now : Int) (key m : Bytes) (lon lat : F64) :
    geoAdd s now key [(m, geoScore lon lat)] = Api.zadd s now key m (geoScore lon lat) :=
  geoAdd_single s now key m _

/-- GEOADD of several items: one `writeKey`, the `ZAdd` fold over the items in argument order on the sorted
    set, one watch signal, one ZADD record per item; a key of another type panics before anything changes -/
theorem geoadd_is_zadd_fold (s : MState) (now : Int) (key : Bytes) (it : Bytes × F64) (items : List (Bytes × F64)) :
    geoAdd s now key (it :: items) =
      (match Api.asZSet (Store.writeKey s now key (some (.zset DsZSet.empty))).1 key with
       | none => ((Store.writeKey s now key (some (.zset DsZSet.empty))).1, .panic)
       | some z =>
         (emitAll key (it :: items)
            (Store.signal (Api.setVal (Store.writeKey s now key (some (.zset DsZSet.empty))).1 key (.zset (zaddAll z (it :: items)).1)) key),
          .int (zaddAll z (it :: items)).2)) :=
  geoAdd_eq s now key it items

/-- the fold keeps the sorted-set invariant (dictionary = index, strict (score, member) order) -/
theorem geoadd_keeps_wf : ∀ (items : List (Bytes × F64)) (z : ZSet) (acc : Int), z.WF →
    (∀ it ∈ items, F64.isNaN it.2 = false) →
    (items.foldl (fun (a : ZSet × Int) it => ((DsZSet.zAdd a.1 it.1 it.2).1, a.2 + (DsZSet.zAdd a.1 it.1 it.2).2)) (z, acc)).1.WF := by
  intro items
  induction items with
  | nil => intro z acc h _; exact h
  | cons it rest ih =>
    intro z acc h hs
    exact ih _ _ (zadd_wf z h it.1 it.2 (hs it List.mem_cons_self)) (fun x hx => hs x (List.mem_cons_of_mem _ hx))

theorem geoadd_value_wf (z : ZSet) (h : z.WF) (items : List (Bytes × F64)) (hs : ∀ it ∈ items, F64.isNaN it.2 = false) :
    (zaddAll z items).1.WF := geoadd_keeps_wf items z 0 h hs

/-- the score GEOADD stores is never NaN (`float64` of an unsigned integer: zero, or a packed pattern below +Inf's) -/
theorem geoadd_score_not_nan (lon lat : F64) : F64.isNaN (geoScore lon lat) = false :=
  Proofs.F64NotNaN.ofNat_not_nan _

/-- so GEOADD keeps the sorted-set invariant, for every list of (member, longitude, latitude) - in range, on the
    limits, outside (score 0), repeated members, equal points -/
theorem geoadd_keeps_sorted_set (z : ZSet) (h : z.WF) (items : List (Bytes × F64 × F64)) :
    (zaddAll z (items.map fun it => (it.1, geoScore it.2.1 it.2.2))).1.WF := by
  apply geoadd_value_wf z h
  intro it hit
  rw [List.mem_map] at hit
  obtain ⟨x, _, rfl⟩ := hit
  exact geoadd_score_not_nan _ _

/-- the handler: `GEOADD key lon lat member` with parsable coordinates and no NX / XX word hands
    `execCommand` exactly the closure of `ZADD key <float64(hash)> member` -/
theorem geoadd_handler_is_zadd (key lo la m : Bytes) (lon lat : F64)
    (h1 : floatG lo = .ok lon) (h2 : floatG la = .ok lat)
    (hn : Resp.opt [key, lo, la, m] "NX" = 0) (hx : Resp.opt [key, lo, la, m] "XX" = 0) :
    geoAddH [key, lo, la, m] =
      .exec fun s now _ => Handler.call (geoAdd s now key [(m, geoScore lon lat)]) fun s o => Handler.done s [.int (Handler.intOf o)] := by
  simp [geoAddH, hn, hx, parseItems, h1, h2, Handler3.Pre.run, bind, pure]

/-- `deinterleave64 (interleave64 x y) = (x, y)` for all 32-bit x and y (bit-by-bit evaluation of the
    mask-and-shift steps, Proofs/GeoBits.lean; no SAT procedure) -/
theorem deinterleave_interleave (x y : UInt64) (hx : x.toNat < 2 ^ 32) (hy : y.toNat < 2 ^ 32) :
    deinterleave64 (interleave64 x y) = (x, y) := Proofs.GeoBits.deinterleave_interleave x y hx hy

/-- interleaving two k-bit values (k ≤ 32) gives a 2k-bit value -/
theorem interleave_size (x y : UInt64) (k : Nat) (hk : k ≤ 32) (hx : x.toNat < 2 ^ k) (hy : y.toNat < 2 ^ k) :
    (interleave64 x y).toNat < 2 ^ (2 * k) := interleave_lt x y k hk hx hy

/-- PARTIAL (`encode_in_range`): an accepted position gives a 52-bit hash PROVIDED both scaled offsets
    truncate to less than 2^26.  What is missing for the full statement "accepted ⇒ 52 bits" is that it is
    FALSE on the limits (`encode_limit_finding` below: offset = 2^26 exactly, also for a longitude strictly
    below 180), and for the rest a monotonicity proof of the correctly rounded subtraction / division
    (not done); the tie compares the model's `encode` with the real code on the limits, their neighbours
    and random positions on every run -/
theorem encode_in_range_partial (lon lat : F64) (h : UInt64)
    (he : encode wgsLong wgsLat lon lat wgsStep = some h)
    (hlat : F64.toUInt32 (F64.mul (F64.div (F64.sub lat wgsLat.min) (F64.sub wgsLat.max wgsLat.min)) (F64.ofNat (2 ^ wgsStep))) < 2 ^ 26)
    (hlon : F64.toUInt32 (F64.mul (F64.div (F64.sub lon wgsLong.min) (F64.sub wgsLong.max wgsLong.min)) (F64.ofNat (2 ^ wgsStep))) < 2 ^ 26) :
    h.toNat < 2 ^ 52 := by
  rw [encode_eq _ _ _ _ _ _ he]
  have e : ∀ n : Nat, n < 2 ^ 26 → (UInt64.ofNat n).toNat < 2 ^ 26 := by
    intro n hn
    rw [UInt64.toNat_ofNat_of_lt' (Nat.lt_of_lt_of_le hn (by decide))]; exact hn
  exact interleave_lt _ _ 26 (by omega) (e _ hlat) (e _ hlon)

/-- whatever the position, the hash has at most 64 bits and - both offsets being 32-bit values - is the
    interleaving of two 32-bit values that `deinterleave64` gives back -/
theorem encode_roundtrip (lon lat : F64) (h : UInt64) (he : encode wgsLong wgsLat lon lat wgsStep = some h) :
    ∃ x y : UInt64, x.toNat < 2 ^ 32 ∧ y.toNat < 2 ^ 32 ∧ h = interleave64 x y ∧ deinterleave64 h = (x, y) := by
  refine ⟨_, _, ?_, ?_, encode_eq _ _ _ _ _ _ he, ?_⟩
  · rw [UInt64.toNat_ofNat_of_lt' (Nat.lt_of_lt_of_le (toUInt32_lt _) (by decide))]; exact toUInt32_lt _
  · rw [UInt64.toNat_ofNat_of_lt' (Nat.lt_of_lt_of_le (toUInt32_lt _) (by decide))]; exact toUInt32_lt _
  · rw [encode_eq _ _ _ _ _ _ he]
    apply Proofs.GeoBits.deinterleave_interleave
    · rw [UInt64.toNat_ofNat_of_lt' (Nat.lt_of_lt_of_le (toUInt32_lt _) (by decide))]; exact toUInt32_lt _
    · rw [UInt64.toNat_ofNat_of_lt' (Nat.lt_of_lt_of_le (toUInt32_lt _) (by decide))]; exact toUInt32_lt _

/-- an ordinary position: Palermo (13.361389, 38.115556) has the 52-bit hash Redis documents -/
example : encodeWGS84 0x402AB907FAA044AF 0x40430ECA89FC6DA4 = 3479099956230698 := by decide +kernel

/-- FINDING (recorded in FINDINGS.md, not repaired): on the limits the hash is NOT a 52-bit value. Latitude
    85.05112878 (the maximum itself) sets bit 52; longitude 180 sets bit 53, and so does 179.99999999999997,
    a longitude strictly inside the range (its sum with 180 rounds to 360): `float64(hash)` then exceeds 2^53 and
    is no longer an exactly printed integer score.  The poles (latitude 90) are not rejected by GEOADD either:
    `Hash()` drops Encode's error and the member is stored with score 0 -/
theorem encode_limit_finding :
    (encodeWGS84 0x402AB907FAA044AF latMax).toNat ≥ 2 ^ 52 ∧
    (encodeWGS84 f180 0).toNat ≥ 2 ^ 53 ∧
    F64.lt 0x40667FFFFFFFFFFF f180 = true ∧ (encodeWGS84 0x40667FFFFFFFFFFF 0).toNat ≥ 2 ^ 53 ∧
    encode wgsLong wgsLat 0 f90 wgsStep = none ∧ geoScore 0 f90 = 0 := by
  decide +kernel

end geo

end NodisVerif.C04
