import NodisVerif.Model.DsZSet
import NodisVerif.Model.WF
import NodisVerif.Spec.ZSet
import NodisVerif.Proofs.C04Inv
import NodisVerif.Proofs.C04Seq
import NodisVerif.Proofs.C04Spec
import NodisVerif.Proofs.C04Rem
import NodisVerif.Proofs.C04ScoreSpec
import NodisVerif.Proofs.C04Rank
import NodisVerif.Proofs.C08Step
import NodisVerif.Model.Handler3
import NodisVerif.Proofs.FloatDecTrip
import NodisVerif.Proofs.FloatDecInt
import NodisVerif.Proofs.FloatDecLen
import NodisVerif.Proofs.FloatDecMono2
import NodisVerif.Proofs.FloatDecNear
/-
  C04 — sorted sets stay ordered by (score, member); rank, range and score agree.

  Property theorems only; helper lemmas live in Proofs/C04*.lean.  The reference semantics is
  Spec/ZSet.lean: every ordered query is defined on `Spec.ZSet.sorted z`, the list of the
  dictionary's (score, member) pairs sorted by score then member bytes, which is computed from the
  member→score dictionary alone and never looks at the index `z.sl`.

  Everything is unbounded: every sorted set, every member byte string, every score bit pattern,
  every `Int` index, every operation sequence.  Hypotheses that occur:
    * `ZSet.WF z` — the invariant of Model/WF.lean (section 1 shows it is an invariant);
    * `F64.isNaN s = false` on a score that is *written* (a NaN score breaks the order: the Go code
      accepts it, Redis rejects it at parse time);
    * `z.dict.length < 2 ^ 63` where the code computes `int(stop - start)`.

  After the repairs of the Go code (ZADD with an IEEE-equal score is a no-op; ZRANGEBYSCORE applies
  offset/limit to the members that satisfy the bounds) the signed-zero region and the LIMIT regions
  are gone: sections 1, 6, 7 hold in full.  Remaining findings (each witness was replayed on the Go
  code): NaN scores and NaN bounds of ZREMRANGEBYSCORE (`zadd_nan_finding`,
  `zremrangebyscore_nan_finding`), and the 1-based rank windows of ZRANGE / ZREVRANGE with panics
  and a phantom header element (`zrange_finding`, `zrevrange_finding`,
  `zrange_last_k_panic_finding`) — pinned by the repository's own tests.
-/
namespace NodisVerif.C04
open NodisVerif
open NodisVerif.DsZSet
open NodisVerif.Proofs.C04

/-! ## 1. The invariant -/

theorem wf_empty : DsZSet.empty.WF := inv_empty.toWF

/-- ZADD keeps the invariant for every member and every non-NaN score (any insertion order, ties,
    updates, signed zeros) -/
theorem zadd_wf (z : ZSet) (h : z.WF) (m : Bytes) (s : F64) (hs : F64.isNaN s = false) :
    (zAdd z m s).1.WF := (inv_zAdd (Inv.ofWF h) m s hs).toWF

theorem zaddXX_wf (z : ZSet) (h : z.WF) (m : Bytes) (s : F64) (hs : F64.isNaN s = false) :
    (zAddXX z m s).1.WF := (inv_zAddXX (Inv.ofWF h) m s hs).toWF

theorem zaddNX_wf (z : ZSet) (h : z.WF) (m : Bytes) (s : F64) (hs : F64.isNaN s = false) :
    (zAddNX z m s).1.WF := (inv_zAddNX (Inv.ofWF h) m s hs).toWF

theorem zaddLT_wf (z : ZSet) (h : z.WF) (m : Bytes) (s : F64) (hs : F64.isNaN s = false) :
    (zAddLT z m s).1.WF := (inv_zAddLT (Inv.ofWF h) m s hs).toWF

theorem zaddGT_wf (z : ZSet) (h : z.WF) (m : Bytes) (s : F64) (hs : F64.isNaN s = false) :
    (zAddGT z m s).1.WF := (inv_zAddGT (Inv.ofWF h) m s hs).toWF

theorem zincrby_wf (z : ZSet) (h : z.WF) (m : Bytes) (newScore : F64)
    (hs : F64.isNaN newScore = false) : (zIncrByWith z m newScore).WF :=
  (inv_zAdd (Inv.ofWF h) m newScore hs).toWF

theorem zrem_wf (z : ZSet) (h : z.WF) (ms : List Bytes) : (zRem z ms).1.WF :=
  (inv_zRem (Inv.ofWF h) ms).toWF

theorem zremRangeByScore_wf (z : ZSet) (h : z.WF) (min max : F64) (mode : Nat) :
    (zRemRangeByScore z min max mode).1.WF := (inv_zRemRangeByScore (Inv.ofWF h) min max mode).toWF

theorem zremRangeByRank_wf (z : ZSet) (h : z.WF) (start stop : Int) :
    (zRemRangeByRank z start stop).1.WF := (inv_zRemRangeByRank (Inv.ofWF h) start stop).toWF

/-- a NaN score does break the invariant (why `isNaN s = false` is a hypothesis everywhere above;
    NaN cannot arrive over RESP any more, the data-structure function still accepts it) -/
theorem zadd_nan_finding :
    F64.isNaN 0x7FF8000000000000 = true ∧ ¬ (zAdd DsZSet.empty [97] 0x7FF8000000000000).1.WF := by
  refine ⟨by decide, ?_⟩
  intro h
  have := h.noNaN [97] 0x7FF8000000000000 (by decide)
  revert this
  decide

/-- after ZADD of +0.0 and then −0.0 for the same member nothing disagrees any more: the stored
    score stays +0.0 in the dictionary and in the index (this input was the former signed-zero
    finding) -/
theorem zadd_signed_zero_consistent :
    let z : ZSet := (zAdd (zAdd DsZSet.empty [97] 0).1 [97] F64.negZero).1
    z.WF ∧ zScore z [97] = some 0 ∧ z.sl = [(0, [97])] :=
  ⟨zadd_wf _ (zadd_wf _ wf_empty [97] 0 (by decide)) [97] F64.negZero (by decide), by decide, by decide⟩

/-- any sequence of operations whose written scores are not NaN — for every member, any insertion
    order, duplicate scores, score updates, removals, signed zeros -/
theorem wf_run (z : ZSet) (h : z.WF) (ops : List Op) (hok : ∀ op ∈ ops, op.NoNaN) : (run z ops).WF :=
  (inv_run ops z (Inv.ofWF h) hok).toWF

theorem wf_run_from_empty (ops : List Op) (hok : ∀ op ∈ ops, op.NoNaN) : (run DsZSet.empty ops).WF :=
  wf_run DsZSet.empty wf_empty ops hok

/-- ZUNIONSTORE / ZINTERSTORE: `Api.zstore` builds the destination as
    `items.foldl (fun z it => (zAdd z it.2 it.1).1) DsZSet.empty`; the result is well formed for
    every non-NaN aggregate -/
theorem zstore_result_wf (items : List Item) (hn : ∀ it ∈ items, F64.isNaN it.1 = false) :
    (items.foldl (fun z it => (zAdd z it.2 it.1).1) DsZSet.empty).WF :=
  (inv_buildFrom items DsZSet.empty inv_empty hn).toWF

/-- non-vacuity: a set built by the model's own operations, with a tie (two members at score 1.0),
    a score update, a negative-zero score, an overwrite of a zero by the other zero and a removal;
    it is well formed, its chain is as expected -/
def demoOps : List Op :=
  [.add [98] 0x3FF0000000000000, .add [97] 0x3FF0000000000000, .add [99] F64.negZero,
   .add [100] 0x4000000000000000, .incrBy [100] 0xBFF0000000000000, .add [99] 0, .add [101] 0,
   .rem [[101]]]

def demo : ZSet := run DsZSet.empty demoOps

example : (∀ op ∈ demoOps, op.NoNaN) ∧ demo.WF ∧
    demo.sl = [(0xBFF0000000000000, [100]), (F64.negZero, [99]),
      (0x3FF0000000000000, [97]), (0x3FF0000000000000, [98])] := by
  have hok : ∀ op ∈ demoOps, op.NoNaN := by
    intro op hop
    simp only [demoOps, List.mem_cons, List.not_mem_nil, or_false] at hop
    rcases hop with rfl | rfl | rfl | rfl | rfl | rfl | rfl | rfl <;>
      simp [Op.NoNaN, Op.score?] <;> decide
  exact ⟨hok, wf_run_from_empty _ hok, by decide⟩

/-! ## 2. The index never disagrees with the dictionary -/

theorem chain_is_sorted_dict (z : ZSet) (h : z.WF) : z.sl = Spec.ZSet.sorted z :=
  sl_eq_sorted (Inv.ofWF h)

/-- conversely the reference list of any key-sorted NaN-free dictionary is a valid index for it -/
theorem sorted_dict_is_chain (z : ZSet) (hd : AList.Sorted z.dict)
    (hn : ∀ m s, (m, s) ∈ z.dict → F64.isNaN s = false) :
    ZSet.WF { dict := z.dict, sl := Spec.ZSet.sorted z } :=
  (inv_sorted z (Proofs.AListLemmas.sorted_pairwise z.dict hd) (fun p hp => hn p.1 p.2 hp)).toWF

/-! ## 3. One score per member, the last one assigned; ZCARD; ZSCORE -/

/-- after `ZADD m s` (s not NaN; any set, well formed or not) the member's score is IEEE-equal to
    `s`; it is `s` bit for bit unless the member already held the zero of the other sign (an
    IEEE-equal score is not an update, as in Redis); every other member keeps its score -/
theorem last_score_wins (z : ZSet) (m : Bytes) (s : F64) (hs : F64.isNaN s = false) :
    (∃ s', zScore (zAdd z m s).1 m = some s' ∧ F64.eq s' s = true ∧
      (s' = s ∨ (zScore z m = some s' ∧ ((s' = 0 ∧ s = F64.negZero) ∨ (s' = F64.negZero ∧ s = 0))))) ∧
    ∀ m', m' ≠ m → zScore (zAdd z m s).1 m' = zScore z m' :=
  zAdd_score z m s hs

/-- in particular: a new member, or a score that is not IEEE-equal to the stored one, is stored
    bit for bit -/
theorem last_score_wins_exact (z : ZSet) (m : Bytes) (s : F64) (hs : F64.isNaN s = false)
    (hne : ∀ old, zScore z m = some old → F64.eq s old = false) :
    zScore (zAdd z m s).1 m = some s := by
  obtain ⟨⟨s', h1, h2, h3⟩, _⟩ := zAdd_score z m s hs
  rcases h3 with rfl | ⟨hold, _⟩
  · exact h1
  · have := hne s' hold
    rw [eq_symm s' s h2] at this
    cases this

theorem zscore_spec (z : ZSet) (m : Bytes) : zScore z m = Spec.ZSet.score z m :=
  (score_eq_get? z m).symm

/-- the score reported for a member is the one the sorted list carries for it -/
theorem zscore_in_sorted (z : ZSet) (h : z.WF) (m : Bytes) (s : F64) :
    zScore z m = some s ↔ (s, m) ∈ Spec.ZSet.sorted z := by
  rw [← chain_is_sorted_dict z h]
  exact (Inv.ofWF h).get_iff s m

/-- ZCARD = length of the sorted list = length of the index, and the members are pairwise distinct -/
theorem zcard_exact (z : ZSet) (h : z.WF) :
    zCard z = (Spec.ZSet.card z : Int) ∧ zCard z = (z.sl.length : Int) ∧ (Spec.ZSet.members z).Nodup := by
  have hi := Inv.ofWF h
  unfold Spec.ZSet.card Spec.ZSet.members
  rw [← sl_eq_sorted hi]
  exact ⟨by unfold zCard; rw [hi.sameLen], by unfold zCard; rw [hi.sameLen], members_nodup hi⟩

theorem non_member_no_rank_no_score (z : ZSet) (h : z.WF) (m : Bytes)
    (hm : m ∉ Spec.ZSet.members z) :
    zScore z m = none ∧ zRank z m = none ∧ zRevRank z m = none ∧ zExists z m = false := by
  have hi := Inv.ofWF h
  have hnone : AList.get? z.dict m = none := by
    cases hget : AList.get? z.dict m with
    | none => rfl
    | some s =>
      exfalso
      apply hm
      unfold Spec.ZSet.members
      rw [← sl_eq_sorted hi]
      exact List.mem_map.mpr ⟨(s, m), (hi.get_iff s m).mp hget, rfl⟩
  simp [zScore, zRank, zRevRank, zExists, AList.contains, hnone]

/-! ## 4. Ranks are positions in the sorted list -/

theorem zrank_is_position (z : ZSet) (h : z.WF) (m : Bytes) : zRank z m = Spec.ZSet.rank z m :=
  zRank_spec (Inv.ofWF h) m

/-- the model's `length − r` for descending order *is* Redis' `card − 1 − rank` (r is 1-based) -/
theorem zrevrank_spec (z : ZSet) (h : z.WF) (m : Bytes) : zRevRank z m = Spec.ZSet.revRank z m :=
  zRevRank_spec (Inv.ofWF h) m

/-! ## 7. Removal ranges -/

/-- ZREMRANGEBYSCORE removes exactly the members whose score lies in the interval and returns
    their number (non-NaN bounds; mode bit 0 = min exclusive, bit 1 = max exclusive) -/
theorem zRemRangeByScore_spec (z : ZSet) (h : z.WF) (min max : F64)
    (hmin : F64.isNaN min = false) (hmax : F64.isNaN max = false) (mode : Nat) :
    (Spec.ZSet.sorted (zRemRangeByScore z min max mode).1, ((zRemRangeByScore z min max mode).2).toNat)
      = Spec.ZSet.remRangeByScore z min max (minOpen mode) (maxOpen mode) ∧
    0 ≤ (zRemRangeByScore z min max mode).2 :=
  Proofs.C04.zRemRangeByScore_spec (Inv.ofWF h) min max hmin hmax mode

/-- ZREMRANGEBYRANK: 0-based inclusive, negative from the end, clamped — every `Int` start/stop -/
theorem zRemRangeByRank_spec (z : ZSet) (h : z.WF) (start stop : Int) :
    (Spec.ZSet.sorted (zRemRangeByRank z start stop).1, ((zRemRangeByRank z start stop).2).toNat)
      = Spec.ZSet.remRangeByRank z start stop ∧ 0 ≤ (zRemRangeByRank z start stop).2 :=
  Proofs.C04.zRemRangeByRank_spec (Inv.ofWF h) start stop

/-- ZREM: exactly the listed members disappear, everything else keeps score and relative order -/
theorem zRem_spec (z : ZSet) (h : z.WF) (ms : List Bytes) :
    Spec.ZSet.sorted (zRem z ms).1 = (Spec.ZSet.sorted z).filter (fun it => decide (it.2 ∉ ms)) ∧
    (zRem z ms).2 = (Spec.ZSet.card z : Int) - Spec.ZSet.card (zRem z ms).1 :=
  zRem_sorted (Inv.ofWF h) ms

/-- ZADD: the member is (re)placed according to its stored score `s'` (IEEE-equal to the score
    given, see `last_score_wins`), everything else is untouched -/
theorem zAdd_spec (z : ZSet) (h : z.WF) (m : Bytes) (s : F64) (hs : F64.isNaN s = false) :
    ∃ s', zScore (zAdd z m s).1 m = some s' ∧ F64.eq s' s = true ∧
      Spec.ZSet.sorted (zAdd z m s).1 = Spec.ZSet.add z m s' :=
  zAdd_sorted (Inv.ofWF h) m s hs

/-! ## 6. Ranges by score

  `hsize : z.dict.length < 2 ^ 63` (the cardinality fits Go's int64; always true in memory) is needed
  wherever the code computes `int(stop - start)`. -/

/-- ZCOUNT, every mode, every bound (NaN bounds included: both sides count nothing) -/
theorem zcount_spec (z : ZSet) (h : z.WF) (hsize : z.dict.length < 2 ^ 63) (min max : F64) (mode : Nat) :
    zCount z min max mode = some (Spec.ZSet.count z min max (minOpen mode) (maxOpen mode) : Int) :=
  zCount_spec (Inv.ofWF h) hsize min max mode

/-- ZRANGEBYSCORE / ZREVRANGEBYSCORE, in full: every bound (NaN included: both sides are empty),
    every mode (open / closed ends), both directions, every offset and every count (offset < 0 or
    count = 0: empty; count < 0: all) -/
theorem zrangebyscore_spec (z : ZSet) (h : z.WF) (min max : F64) (offset count : Int) (desc : Bool)
    (mode : Nat) :
    rangeByScore z min max offset count desc mode =
      if desc then Spec.ZSet.revRangeByScoreLimit z min max (minOpen mode) (maxOpen mode) offset count
      else Spec.ZSet.rangeByScoreLimit z min max (minOpen mode) (maxOpen mode) offset count :=
  rangeByScore_spec (Inv.ofWF h) min max offset count desc mode

/-- the two directions separately, without LIMIT -/
theorem zrangebyscore_spec_nolimit (z : ZSet) (h : z.WF) (min max : F64) (count : Int) (hc : count < 0)
    (mode : Nat) :
    rangeByScore z min max 0 count false mode
      = Spec.ZSet.rangeByScore z min max (minOpen mode) (maxOpen mode) ∧
    rangeByScore z min max 0 count true mode
      = Spec.ZSet.revRangeByScore z min max (minOpen mode) (maxOpen mode) := by
  have h1 := zrangebyscore_spec z h min max 0 count false mode
  have h2 := zrangebyscore_spec z h min max 0 count true mode
  simp only [Bool.false_eq_true, if_false, if_true, Spec.ZSet.rangeByScoreLimit,
    Spec.ZSet.revRangeByScoreLimit, Spec.ZSet.limitBy, Int.lt_irrefl, Int.toNat_zero, List.drop_zero,
    hc] at h1 h2
  exact ⟨h1, h2⟩

/-- the three members a:1.0 b:2.0 c:3.0 used by the witnesses -/
def abc : ZSet :=
  run DsZSet.empty [.add [97] 0x3FF0000000000000, .add [98] 0x4000000000000000, .add [99] 0x4008000000000000]

theorem abc_wf : abc.WF := wf_run_from_empty _ (by
  intro op hop
  simp only [List.mem_cons, List.not_mem_nil, or_false] at hop
  rcases hop with rfl | rfl | rfl <;> simp [Op.NoNaN, Op.score?] <;> decide)

/-- the inputs of the former LIMIT findings now agree with Redis:
    ZRANGEBYSCORE (1 3 LIMIT 0 1 = [b];  ZRANGEBYSCORE 1 2 LIMIT 2 -1 = [];
    ZREVRANGEBYSCORE 3 2 LIMIT 2 -1 = [];  a NaN lower bound yields nothing -/
example :
    rangeByScore abc 0x3FF0000000000000 0x4008000000000000 0 1 false 1 = [(0x4000000000000000, [98])] ∧
    rangeByScore abc 0x3FF0000000000000 0x4000000000000000 2 (-1) false 0 = [] ∧
    rangeByScore abc 0x4000000000000000 0x4008000000000000 2 (-1) true 0 = [] ∧
    rangeByScore abc 0x7FF8000000000000 0x4008000000000000 0 (-1) false 0 = [] := by
  decide

/-- ZREMRANGEBYSCORE still mishandles a NaN upper bound: everything from `min` up is deleted (the
    reference deletes nothing; Redis rejects NaN bounds, and so does the RESP parser now) -/
theorem zremrangebyscore_nan_finding :
    F64.isNaN 0x7FF8000000000000 = true ∧
    (zRemRangeByScore abc 0x4000000000000000 0x7FF8000000000000 0).2 = 2 ∧
    (Spec.ZSet.remRangeByScore abc 0x4000000000000000 0x7FF8000000000000 false false).2 = 0 := by
  decide

/-! ## 5. Ranges by rank

  `forEachByRank` treats `start`/`stop` as 1-based ranks (0 aliased to 1); the repository's own
  tests pin this, so it is a known finding. -/

/-
  FULL STATEMENT (false): ∀ z start stop, z.WF →
      zRange z start stop = some (Spec.rangeByRank z start stop) ∧
      zRevRange z start stop = some (Spec.revRangeByRank z start stop)
  It holds on `RankRegion start stop card` (resp. `RevRankRegion`), a decidable region:
      start = 0 ∧ (stop < 0 ∨ stop ≥ card)            -- e.g. ZRANGE k 0 -1, ZRANGE k 0 -2
    ∨ start > card                                      -- both empty
    ∨ 1 ≤ start ∧ 0 ≤ stop < start                      -- both empty
    ∨ 1 ≤ start ∧ stop < 0 ∧ card + stop + 1 < start    -- both empty
    (ZREVRANGE only) ∨ 1 < start ≤ stop < card
  Everywhere else with start ≥ 0 the model is given in closed form by `zrange_model_closed_form` /
  `zrevrange_model_closed_form`; witnesses of disagreement, including two panics and a phantom
  element, follow.
-/
theorem zrange_spec_partial (z : ZSet) (h : z.WF) (hsize : z.dict.length < 2 ^ 63) (start stop : Int)
    (hr : RankRegion start stop (zCard z)) :
    zRange z start stop = some (Spec.ZSet.rangeByRank z start stop) := by
  have hi := Inv.ofWF h
  unfold Spec.ZSet.rangeByRank zRange
  rw [← sl_eq_sorted hi]
  apply zrange_region hi.sameLen hsize
  have : zCard z = (z.sl.length : Int) := by unfold zCard; rw [hi.sameLen]
  rw [← this]; exact hr

theorem zrevrange_spec_partial (z : ZSet) (h : z.WF) (hsize : z.dict.length < 2 ^ 63)
    (start stop : Int) (hr : RevRankRegion start stop (zCard z)) :
    zRevRange z start stop = some (Spec.ZSet.revRangeByRank z start stop) := by
  have hi := Inv.ofWF h
  unfold Spec.ZSet.revRangeByRank zRevRange
  rw [← sl_eq_sorted hi]
  apply zrevrange_region hi.sameLen hsize
  have : zCard z = (z.sl.length : Int) := by unfold zCard; rw [hi.sameLen]
  rw [← this]; exact hr

/-- the model's actual semantics: for 1 ≤ start ≤ stop, ZRANGE returns the members of 1-based ranks
    start..stop, i.e. what Redis returns for `ZRANGE (start-1) (stop-1)` -/
theorem zrange_is_one_based (z : ZSet) (h : z.WF) (hsize : z.dict.length < 2 ^ 63) (start stop : Int)
    (h1 : 1 ≤ start) (h2 : start ≤ stop) :
    zRange z start stop = some (Spec.ZSet.rangeByRank z (start - 1) (stop - 1)) := by
  have hi := Inv.ofWF h
  unfold Spec.ZSet.rangeByRank zRange
  rw [← sl_eq_sorted hi]
  exact zrange_one_based hi.sameLen hsize start stop h1 h2

/-- every ascending window with `start ≥ 0` (never panics) -/
theorem zrange_model_closed_form (z : ZSet) (h : z.WF) (hsize : z.dict.length < 2 ^ 63)
    (start stop : Int) (h0 : 0 ≤ start) :
    zRange z start stop =
      some (if stop1 (zCard z) stop < start1 start then []
            else Spec.ZSet.slice (Spec.ZSet.sorted z) (start1 start - 1) (stop1 (zCard z) stop - 1)) := by
  have hi := Inv.ofWF h
  have : zCard z = (z.sl.length : Int) := by unfold zCard; rw [hi.sameLen]
  rw [this, ← sl_eq_sorted hi]
  exact zrange_closed hi.sameLen hsize start stop h0

/-- every descending window with `start ≥ 0`: 0-based from the top when start ∈ {0,1} (one item
    short), the skiplist *header* as a phantom member when start = card, a nil dereference when
    1 < start < card ≤ stop, and Redis' answer when 1 < start ≤ stop < card -/
theorem zrevrange_model_closed_form (z : ZSet) (h : z.WF) (hsize : z.dict.length < 2 ^ 63)
    (start stop : Int) (h0 : 0 ≤ start) :
    zRevRange z start stop =
      if start > zCard z ∨ stop1 (zCard z) stop < start1 start then some []
      else if start1 start = 1 then
        some (Spec.ZSet.slice (Spec.ZSet.sorted z).reverse 0 (stop1 (zCard z) stop - 1))
      else if start1 start = zCard z then some [headerItem]
      else if stop1 (zCard z) stop ≥ zCard z then none
      else some (Spec.ZSet.slice (Spec.ZSet.sorted z).reverse (start1 start) (stop1 (zCard z) stop)) := by
  have hi := Inv.ofWF h
  have : zCard z = (z.sl.length : Int) := by unfold zCard; rw [hi.sameLen]
  rw [this, ← sl_eq_sorted hi]
  exact zrevrange_closed hi.sameLen hsize start stop h0

/-- ascending windows with a negative `start` (|start| < 2^62): `card + start` is read as a 1-based
    rank, and when it is ≤ 1 the walk still runs `stop − (card + start) + 1` steps from the head —
    `none` = nil dereference when that exceeds the chain -/
theorem zrange_negative_start_closed_form (z : ZSet) (h : z.WF) (hsize : z.dict.length < 2 ^ 63)
    (start stop : Int) (h0 : start < 0) (hb : -(2 ^ 62) ≤ start) :
    zRange z start stop =
      if stop1 (zCard z) stop < start then some [] else
      let s : Int := zCard z + start
      let k : Int := min (stop1 (zCard z) stop) (zCard z) - s + 1
      if k ≤ 0 then some []
      else if k ≤ zCard z - ((s.toNat - 1 : Nat) : Int)
        then some (((Spec.ZSet.sorted z).drop (s.toNat - 1)).take k.toNat)
      else none := by
  have hi := Inv.ofWF h
  have : zCard z = (z.sl.length : Int) := by unfold zCard; rw [hi.sameLen]
  rw [this, ← sl_eq_sorted hi]
  exact zrange_closed_neg hi.sameLen hsize start stop h0 hb

/-- "the last k members" with k ≥ card > 0: `ZRANGE key -k -1` panics (Redis: all members) -/
theorem zrange_last_k_panic_finding (z : ZSet) (h : z.WF) (hsize : z.dict.length < 2 ^ 63)
    (start : Int) (hpos : 0 < zCard z) (h1 : start ≤ -(zCard z)) (hb : -(2 ^ 62) ≤ start) :
    zRange z start (-1) = none ∧ Spec.ZSet.rangeByRank z start (-1) = Spec.ZSet.sorted z := by
  have hi := Inv.ofWF h
  have hc : zCard z = (z.sl.length : Int) := by unfold zCard; rw [hi.sameLen]
  rw [hc] at hpos h1
  refine ⟨zrange_last_k_panics hi.sameLen hsize start (by omega) h1 hb, ?_⟩
  unfold Spec.ZSet.rangeByRank
  rw [← sl_eq_sorted hi, slice_norm]
  have hs' : normStart (z.sl.length) start = 0 := by unfold normStart; split <;> (try split) <;> omega
  have he' : normStop (z.sl.length) (-1) = (z.sl.length : Int) - 1 := by
    unfold normStop; simp only; split <;> (try split) <;> omega
  rw [hs', he', if_neg (by omega)]
  simp only [Int.toNat_zero, List.drop_zero]
  apply List.take_of_length_le
  omega

/-- witnesses on {a:1, b:2, c:3}: ZRANGE 0 0 is empty (Redis: [a]); ZRANGE 1 1 is [a] (Redis: [b]);
    ZRANGE -1 -1 is [b, c] (Redis: [c]); ZRANGE -3 -1 panics (Redis: everything);
    ZREVRANGE 0 1 is [c] (Redis: [c, b]); ZREVRANGE 3 3 returns the skiplist header (0, "") (Redis: []);
    ZREVRANGE 2 -1 panics (Redis: [a]) -/
theorem zrange_finding :
    zRange abc 0 0 = some [] ∧ Spec.ZSet.rangeByRank abc 0 0 = [(0x3FF0000000000000, [97])] ∧
    zRange abc 1 1 = some [(0x3FF0000000000000, [97])] ∧
      Spec.ZSet.rangeByRank abc 1 1 = [(0x4000000000000000, [98])] ∧
    zRange abc (-1) (-1) = some [(0x4000000000000000, [98]), (0x4008000000000000, [99])] ∧
      Spec.ZSet.rangeByRank abc (-1) (-1) = [(0x4008000000000000, [99])] ∧
    zRange abc (-3) (-1) = none ∧ (Spec.ZSet.rangeByRank abc (-3) (-1)).length = 3 := by
  decide

theorem zrevrange_finding :
    zRevRange abc 0 1 = some [(0x4008000000000000, [99])] ∧
      Spec.ZSet.revRangeByRank abc 0 1 = [(0x4008000000000000, [99]), (0x4000000000000000, [98])] ∧
    zRevRange abc 3 3 = some [(0, [])] ∧ Spec.ZSet.revRangeByRank abc 3 3 = [] ∧
    zRevRange abc 2 (-1) = none ∧ Spec.ZSet.revRangeByRank abc 2 (-1) = [(0x3FF0000000000000, [97])] ∧
    -- negative windows: ZREVRANGE -1 -1 panics (Redis: [a]); ZREVRANGE -2 -1 returns all three (Redis: [b, a])
    zRevRange abc (-1) (-1) = none ∧ Spec.ZSet.revRangeByRank abc (-1) (-1) = [(0x3FF0000000000000, [97])] ∧
    (zRevRange abc (-2) (-1)).map List.length = some 3 ∧ (Spec.ZSet.revRangeByRank abc (-2) (-1)).length = 2 := by
  decide

/-- non-vacuity of the regions -/
example : RankRegion 0 (-1) (zCard abc) ∧ RankRegion 0 (-2) (zCard abc) ∧ RankRegion 0 7 (zCard abc) ∧
    RevRankRegion 2 2 (zCard abc + 1) ∧ ¬ RankRegion 0 0 (zCard abc) ∧ ¬ RankRegion 1 2 (zCard abc) := by
  decide

/-! ## the command layer: which bound an exclusive mark belongs to

  The theorems above are about the API functions and their mode bits. The handlers turn the text of the
  bounds into those bits; with REV (and in ZREVRANGEBYSCORE) the FIRST bound is the maximum. The handlers had
  the two marks crossed in the reversed forms (repaired: `fix:` in known_findings.json); the model had
  mirrored that. These witnesses pin the repaired behaviour end to end through the dispatch table
  (z = {a:1, b:2, c:3, d:4}). -/
section handlers
open NodisVerif.Proofs.C08Step Resp Server

private def zk : Bytes := [122]
private def b (s : String) : Bytes := Bytes.ofString s
private def zsetup : Cmd := { id := "c", name := "ZADD", args := [zk, b "1", b "a", b "2", b "b", b "3", b "c", b "4", b "d"] }
private def q (name : String) (args : List String) : Cmd := { id := "c", name := name, args := zk :: args.map b }
private def reply (c : Cmd) : List Tok := ((run Handler3.table3 { store := {} } [zsetup, c]).2.getD 1 [])
private def names (l : List String) : List Tok := Tok.arr l.length :: l.map fun x => Tok.bulk (b x)

/-- ZREVRANGEBYSCORE z 4 (1: the maximum 4 is included, the minimum 1 is excluded -/
theorem zrevrangebyscore_exclusive_min : reply (q "ZREVRANGEBYSCORE" ["4", "(1"]) = names ["d", "c", "b"] := by decide +kernel
/-- ZREVRANGEBYSCORE z (4 1: the maximum 4 is excluded, the minimum 1 is included -/
theorem zrevrangebyscore_exclusive_max : reply (q "ZREVRANGEBYSCORE" ["(4", "1"]) = names ["c", "b", "a"] := by decide +kernel
theorem zrevrangebyscore_both_exclusive : reply (q "ZREVRANGEBYSCORE" ["(4", "(1"]) = names ["c", "b"] := by decide +kernel
/-- the same through ZRANGE ... BYSCORE REV, and the forward forms for comparison -/
theorem zrange_byscore_rev_exclusive_min : reply (q "ZRANGE" ["4", "(1", "BYSCORE", "REV"]) = names ["d", "c", "b"] := by decide +kernel
theorem zrange_byscore_rev_exclusive_max : reply (q "ZRANGE" ["(4", "1", "BYSCORE", "REV"]) = names ["c", "b", "a"] := by decide +kernel
theorem zrangebyscore_exclusive_min : reply (q "ZRANGEBYSCORE" ["(1", "4"]) = names ["b", "c", "d"] := by decide +kernel
theorem zrangebyscore_exclusive_max : reply (q "ZRANGEBYSCORE" ["1", "(4"]) = names ["a", "b", "c"] := by decide +kernel
theorem zrange_byscore_exclusive_min : reply (q "ZRANGE" ["(1", "4", "BYSCORE"]) = names ["b", "c", "d"] := by decide +kernel

end handlers

/- UNPROVED (not needed for any theorem above, listed for completeness):
   * Exactness ("only if") of `RankRegion` / `RevRankRegion`: outside these regions the model is
     given in closed form (`zrange_model_closed_form`, `zrevrange_model_closed_form`,
     `zrange_negative_start_closed_form`) and disagreement is shown by witnesses, but there is no
     theorem "∀ inputs outside the region, model ≠ reference".
   * ZREVRANGE with a negative `start`: witnesses only (`zrevrange_finding`), no closed form.
   * `start < -2^62` (int64 wrap-around of `stop - start`) is excluded from
     `zrange_negative_start_closed_form`.
   * ZSCAN (also built on `forEachByRank`) is not part of the property text and is not treated.
   * The command layer (text of bounds, LIMIT, WITHSCORES, option positions → arguments of the API functions) is
     tied to the code by the RESP streams and pinned by witnesses only; there is no general theorem relating
     the handlers' parsing to the reference semantics.
-/

/-! ## Score text: `strconv.ParseFloat(s, 64)` and `strconv.FormatFloat(x, 'f', -1, 64)` in the model (work package C)

  Model/FloatDec.lean replaces the integer-only float text of earlier rounds: `parseDec` / `parseFloat` (decimal syntax
  of `readFloat`, exact rounding `roundRat`, range errors, underscores, inf / nan spellings) and `formatShortest`
  (shortest round-tripping digits, %f rendering). Tied to strconv on every run of this check by the float text table
  (bin/checks/floattab.py: `fmtfloat` / `parsefloat` lines through the harness and the driver, compared verbatim). -/
section floattext
open NodisVerif.F64 NodisVerif.FloatDec

/-- ROUND TRIP (partial): for every double that is not NaN, if the text is not the 17-digit fallback of the digit
    search (x is ±Inf or ±0, or some n ≤ 17 digits round-trip — true for every double the table has ever tried),
    then ParseFloat(FormatFloat(x, 'f', -1, 64)) = x bit for bit.
    MISSING for the full statement: that the search always succeeds within 17 digits (17-digit sufficiency of
    binary64), i.e. `∀ x finite non-zero, (searchShortest x).isSome`. -/
theorem formatShortest_roundtrip_partial (x : F64) (hnan : isNaN x = false)
    (hs : isInf x = true ∨ isZero x = true ∨ (searchShortest x).isSome = true) :
    parseFloat (formatShortest x) = some (some x) :=
  Proofs.FloatDecTrip.formatShortest_roundtrip_partial x hnan hs

/-- the hypotheses hold on 0.1, 1, the largest finite double, −1/3 (17 digits), and the smallest subnormal -/
example : (searchShortest 0x3FB999999999999A).isSome = true ∧ (searchShortest 0x3FF0000000000000).isSome = true ∧
    (searchShortest 0x7FEFFFFFFFFFFFFF).isSome = true ∧ (searchShortest 0xBFD5555555555555).isSome = true ∧
    (searchShortest 1).isSome = true := by decide +kernel

/-- the same for the names the sorted-set handlers use: a score written by `fmtScore` reads back as the same score -/
theorem score_text_roundtrip_partial (x : F64) (t : Bytes) (hnan : isNaN x = false)
    (hs : isInf x = true ∨ isZero x = true ∨ (searchShortest x).isSome = true)
    (ht : FloatText.formatFloat x = some t) : FloatText.parseFloat t = some (some x) := by
  unfold FloatText.formatFloat at ht
  cases ht
  exact Proofs.FloatDecTrip.formatShortest_roundtrip_partial x hnan hs

example : FloatText.parseFloat (Bytes.ofString "0.1") = some (some 0x3FB999999999999A) ∧
    FloatText.formatFloat 0x3FB999999999999A = some (Bytes.ofString "0.1") ∧
    FloatText.parseFloat (Bytes.ofString "1e400") = some none ∧
    FloatText.parseFloat (Bytes.ofString "1e-400") = some (some 0) ∧
    FloatText.parseFloat (Bytes.ofString "-.5") = some (some 0xBFE0000000000000) ∧
    FloatText.parseFloat (Bytes.ofString "1_000") = some (some 0x408F400000000000) ∧
    FloatText.parseFloat (Bytes.ofString "0x1p3") = none ∧
    FloatText.formatFloat 0x444B1AE4D6E2EF50 = some (Bytes.ofString "1000000000000000000000") ∧
    FloatText.formatFloat 0x3EB0C6F7A0B5ED8D = some (Bytes.ofString "0.000001") := by decide +kernel

/-- INTEGER TEXT: an optional sign and decimal digits (at most 800) whose value is below 2^53 parse to exactly the
    double of that integer, `roundPack neg n 0` = `F64.ofInt?` — the integer-only model and the decimal model agree -/
theorem parseDec_integer (sgn : Bytes) (neg : Bool)
    (hs : (sgn = [] ∧ neg = false) ∨ (sgn = [43] ∧ neg = false) ∨ (sgn = [45] ∧ neg = true))
    (ds : Bytes) (hne : ds ≠ []) (hall : ds.all isDigit = true) (hlen : ds.length ≤ 800)
    (hn : digitsToNat ds 0 < 2 ^ 53) :
    parseDec (sgn ++ ds) = some (some (roundPack neg (digitsToNat ds 0) 0)) :=
  Proofs.FloatDecInt.parseDec_digits sgn neg hs ds hne hall hlen hn

example : parseDec ([45] ++ [49, 50, 51]) = some (some (roundPack true 123 0)) ∧ F64.ofInt? (-123) = some (roundPack true 123 0) :=
  ⟨parseDec_integer [45] true (Or.inr (Or.inr ⟨rfl, rfl⟩)) [49, 50, 51] (by decide) (by decide) (by decide) (by decide), by decide⟩

/-- wherever the integer-only model of earlier rounds (`Api.parseFloatTextInt`) produced a value, the decimal model
    produces the same one — except on "-0", "-00", …, where Go and the decimal model give −0 and the old model gave +0 -/
theorem parseFloatText_agrees_with_integer_model (b : Bytes) (x : F64) (h : Api.parseFloatTextInt b = some (some x))
    (hnz : ¬ (b.head? = some 45 ∧ parseInt64 b = some 0)) : Api.parseFloatText b = some (some x) :=
  Proofs.FloatDecInt.parseFloatText_agrees_int b x h hnz

example : Api.parseFloatTextInt [45, 49, 50] = some (some 0xC028000000000000) ∧
    ¬ (([45, 49, 50] : Bytes).head? = some 45 ∧ parseInt64 [45, 49, 50] = some 0) := by decide +kernel

/-- EXACT INPUTS: every finite double x = (−1)^s · m · 2^e (m, e = `decode x`; zeros and subnormals included) is the
    value `roundRat` returns on the exact rational m·2^e — no rounding happens on representable values -/
theorem roundRat_exact (x : F64) (hfin : expBits x < 2047) :
    roundRat (sign x) (if (decode x).2 ≥ 0 then (decode x).1 * 2 ^ (decode x).2.toNat else (decode x).1)
      (if (decode x).2 ≥ 0 then 1 else 2 ^ (-(decode x).2).toNat) = x :=
  Proofs.FloatDecRound.roundRat_decode x hfin

example : expBits (0x3FB999999999999A : F64) < 2047 ∧ expBits (1 : F64) < 2047 := by decide

/-- … and a natural below 2^53 over 1 gives the double of the integer model -/
theorem roundRat_exact_nat (neg : Bool) (n : Nat) (hn0 : 0 < n) (hn : n < 2 ^ 53) : roundRat neg n 1 = roundPack neg n 0 :=
  Proofs.FloatDecRound.roundRat_nat neg n hn0 hn

/-- LENGTH: FormatFloat(x, 'f', -1, 64) never exceeds 1000 bytes (true maximum 327); the old bound 21 held for
    integer-valued doubles only. Used for the storage codec's size side condition (C20: `Call.WF`). -/
theorem formatShortest_length (x : F64) : (formatShortest x).length ≤ 1000 :=
  Proofs.FloatDecLen.formatShortest_length x

/-- MONOTONICITY of the exact rounding (hence of ParseFloat on non-negative decimal text): num1/den1 ≤ num2/den2
    (cross-multiplied) ⇒ the rounded doubles are in the same order, as numbers (bit patterns of non-negative doubles,
    +Inf on top). Proof: Proofs/FloatDecMono.lean — the bit pattern of a rounding as a number, monotone at one exponent,
    invariant under rescaling, constant inside a cell of the fine grid, then both rationals at a common scale. -/
theorem roundRat_mono (num1 den1 num2 den2 : Nat) (hd1 : 0 < den1) (hd2 : 0 < den2)
    (h : num1 * den2 ≤ num2 * den1) :
    (roundRat false num1 den1).toNat ≤ (roundRat false num2 den2).toNat :=
  Proofs.FloatDecMono.roundRat_mono num1 den1 num2 den2 hd1 hd2 h

/-- … in the order the sorted sets compare scores with (`F64.le`; the results are never NaN) -/
theorem roundRat_mono_le (num1 den1 num2 den2 : Nat) (hd1 : 0 < den1) (hd2 : 0 < den2) (h : num1 * den2 ≤ num2 * den1) :
    F64.le (roundRat false num1 den1) (roundRat false num2 den2) = true :=
  Proofs.FloatDecMono.roundRat_le num1 den1 num2 den2 hd1 hd2 h

/-- … and in the decimal form `parseDec` uses (mantissa × 10^exponent): mant1·10^e1 ≤ mant2·10^e2 -/
theorem roundDec_mono (m1 m2 : Nat) (e1 e2 : Int)
    (h : m1 * 10 ^ e1.toNat * 10 ^ (-e2).toNat ≤ m2 * 10 ^ e2.toNat * 10 ^ (-e1).toNat) :
    (roundDec false m1 e1).toNat ≤ (roundDec false m2 e2).toNat :=
  Proofs.FloatDecMono.roundDec_mono m1 m2 e1 e2 h

/-- 0.1 ≤ 1/3 ≤ 0.5 as rationals, so as doubles (the hypotheses are plain inequalities between naturals) -/
example : (roundRat false 1 10).toNat ≤ (roundRat false 1 3).toNat ∧ (roundDec false 3 (-1)).toNat ≤ (roundDec false 5 (-1)).toNat :=
  ⟨roundRat_mono 1 10 1 3 (by decide) (by decide) (by decide), roundDec_mono 3 5 (-1) (-1) (by decide)⟩

/-- FAITHFUL ROUNDING (monotonicity + exactness): the rounding of num/den never passes a double. For every finite
    non-negative double y with exact value my·2^ey: num/den ≤ value(y) ⇒ result ≤ y, and num/den ≥ value(y) ⇒ result ≥ y.
    Hence the result lies between the two doubles that enclose num/den. -/
theorem roundRat_faithful (y : F64) (hs : sign y = false) (hfin : expBits y < 2047) (num den : Nat) (hden : 0 < den) :
    (num * (if (decode y).2 ≥ 0 then 1 else 2 ^ (-(decode y).2).toNat) ≤
       (if (decode y).2 ≥ 0 then (decode y).1 * 2 ^ (decode y).2.toNat else (decode y).1) * den →
     (roundRat false num den).toNat ≤ y.toNat) ∧
    ((if (decode y).2 ≥ 0 then (decode y).1 * 2 ^ (decode y).2.toNat else (decode y).1) * den ≤
       num * (if (decode y).2 ≥ 0 then 1 else 2 ^ (-(decode y).2).toNat) →
     y.toNat ≤ (roundRat false num den).toNat) :=
  ⟨Proofs.FloatDecMono.roundRat_le_of_le y hs hfin num den hden, Proofs.FloatDecMono.roundRat_ge_of_ge y hs hfin num den hden⟩

example : sign (0x3FB999999999999A : F64) = false ∧ expBits (0x3FB999999999999A : F64) < 2047 := by decide

/-- NEGATIVE VALUES: the sign only sets the top bit (`roundRat true n d = roundRat false n d ||| 2^63`), so the order is
    mirrored: num1/den1 ≤ num2/den2 ⇒ −num2/den2 rounds to a key ≤ that of −num1/den1; and every negative rounding is
    ≤ every non-negative one (−0 and +0 share the key 0). Together with `roundRat_mono` this is monotonicity of the
    rounding over all rationals, in the order `F64.key` that the skiplist uses. -/
theorem roundRat_mono_neg (num1 den1 num2 den2 : Nat) (hd1 : 0 < den1) (hd2 : 0 < den2) (h : num1 * den2 ≤ num2 * den1) :
    F64.key (roundRat true num2 den2) ≤ F64.key (roundRat true num1 den1) :=
  Proofs.FloatDecMono.roundRat_neg_le num1 den1 num2 den2 hd1 hd2 h

theorem roundRat_neg_le_pos (num1 den1 num2 den2 : Nat) (hd1 : 0 < den1) (hd2 : 0 < den2) :
    F64.key (roundRat true num1 den1) ≤ F64.key (roundRat false num2 den2) :=
  Proofs.FloatDecMono.roundRat_neg_le_pos num1 den1 num2 den2 hd1 hd2

/-- CORRECTLY ROUNDED (nearest, ties to even): the result of `roundRat` on num/den > 0, read as a significand q at
    exponent g — its bit pattern is min(+Inf, (g + 1074)·2^52 + q), with 2^52 ≤ q ≤ 2^53 unless g = −1074 (subnormal), so g is
    the exponent of the last place in num/den's own binade — satisfies |num/den − q·2^g| ≤ 2^g / 2 (both inequalities, cross-
    multiplied: 2^g is 2^g.toNat / 2^(−g).toNat), and on an exact tie q is even. Negative values: `roundRat true` only sets the
    sign bit. Together with `roundRat_mono` and `roundRat_exact` this is IEEE-754 round-to-nearest-even. -/
theorem roundRat_nearest (num den : Nat) (hnum : 0 < num) (hden : 0 < den) :
    ∃ (q : Nat) (g : Int),
      ((roundRat false num den).toNat : Int) = min (2047 * 2 ^ 52) ((g + 1074) * 2 ^ 52 + q) ∧
      -1074 ≤ g ∧ q ≤ 2 ^ 53 ∧ (-1074 < g → 2 ^ 52 ≤ q) ∧
      2 * q * 2 ^ g.toNat * den ≤ 2 * num * 2 ^ (-g).toNat + 2 ^ g.toNat * den ∧
      2 * num * 2 ^ (-g).toNat ≤ 2 * q * 2 ^ g.toNat * den + 2 ^ g.toNat * den ∧
      ((2 * q * 2 ^ g.toNat * den = 2 * num * 2 ^ (-g).toNat + 2 ^ g.toNat * den ∨
        2 * num * 2 ^ (-g).toNat = 2 * q * 2 ^ g.toNat * den + 2 ^ g.toNat * den) → q % 2 = 0) :=
  Proofs.FloatDecMono.roundRat_nearest num den hnum hden

/-- the sign only sets the top bit -/
theorem roundRat_sign (num den : Nat) : roundRat true num den = roundRat false num den ||| 0x8000000000000000 :=
  Proofs.FloatDecMono.roundRat_neg num den

/-- 1/10: q = 0x1999999999999A (rounded up from …99.6), g = −56: the double 0x3FB999999999999A -/
example : roundRat false 1 10 = 0x3FB999999999999A ∧
    ((0x3FB999999999999A : F64).toNat : Int) = min (2047 * 2 ^ 52) (((-56 : Int) + 1074) * 2 ^ 52 + (0x1999999999999A : Nat)) := by
  decide +kernel

/- NOT PROVED: monotonicity / nearest stated on TEXT (they are stated on the value mant × 10^ex that `parseDec` extracts from
   the text); 17-digit sufficiency (above); that `formatShortest` is the *shortest* and *closest* round-tripping text; that the
   result is the nearest among ALL doubles when it is a power of two reached from below is implied (the half unit is that of
   num/den's binade, the finer one). Nothing about hexadecimal float text. -/

end floattext

end NodisVerif.C04
