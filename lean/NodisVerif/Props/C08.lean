import NodisVerif.Proofs.C08Others
import NodisVerif.Proofs.C08Tie
import NodisVerif.Proofs.C16Handlers
import NodisVerif.Proofs.GateInv
import NodisVerif.Proofs.GateProgExamples
import NodisVerif.Proofs.GateProgGone
/-
  C08 — MULTI/EXEC runs the queue exactly once, in order, isolated — or not at all.

  Everything is stated about `step H sv c` (one complete command `c` of connection `c.id` served by
  server state `sv`, Proofs/C08Step.lean) for an ARBITRARY handler table `H`, arbitrary server
  states (any store, any number of connections), arbitrary closures, and about `run` over arbitrary
  command-granularity schedules.  No well-formedness of the table is needed for C08.

  Scope note (isolation): one `step` is one complete command, so "no command of another client is
  served in the middle of the transaction" is formalised at COMMAND granularity: the queued closures
  of one EXEC run back to back, each on exactly the store its predecessor left
  (`exec_atomic_at_command_granularity`).  Isolation against *thread-level* interleavings inside
  the real server (several goroutines inside their handlers at the same time) is the subject of the
  last section: the gate `store.execMu` as a transition system (Model/Gate.lean) over the steps the
  implementation reports, for every schedule (`exec_section_isolated`, `exec_section_isolated_trace`,
  `watch_check_and_bodies_inside_section`).  Goroutines that serve no connection (embedded callers,
  background eviction) are outside the gate: the theorems say so explicitly.

  Model deviations from the Redis reference that are visible here (not part of C08's text, reported):
  * DISCARD outside MULTI replies OK (Redis: "ERR DISCARD without MULTI") — `discard_runs_none` holds
    in every state.
  * EXEC's abort reply on a dirty watch is the null *bulk* `$-1` (Redis RESP2: null array `*-1`).
-/
namespace NodisVerif.C08
open NodisVerif.Proofs.C08Step Resp Server

variable (H : Table) (sv : Server) (c : Cmd)

/-! ## between MULTI and EXEC commands are only queued -/

/-- In state "prepare" (with or without the error bit) a command whose handler hands a closure `b`
    to `execCommand` is acknowledged with exactly `+QUEUED`; the closure is not run (the step has
    no store effect at all), the store and the registry are untouched, `b` — and nothing else — is
    appended to the connection's queue, its state and watch map are as before, and every other
    connection is literally unchanged. -/
theorem queued_has_no_effect (hs : ¬ special c.name) (b : Body) (hH : H c.name c.args = some (.exec b))
    (hst : (sv.conn c.id).state % 2 = 1) :
    (step H sv c).2 = [queuedTok] ∧
    stepOuts H sv c = [] ∧
    (step H sv c).1.store = sv.store ∧
    (step H sv c).1.registry = sv.registry ∧
    (step H sv c).1.conn c.id = { (sv.conn c.id) with queue := (sv.conn c.id).queue ++ [b] } ∧
    (∀ i, i ≠ c.id → (step H sv c).1.conn i = sv.conn i) := by
  rw [step_queued H sv c hs b hH hst]
  obtain ⟨h1, h2, h3, h4, h5⟩ := not_special hs
  have hr : ¬ runsNow (sv.conn c.id).state := by unfold runsNow multiCommit; omega
  refine ⟨rfl, ?_, rfl, rfl, conn_setConn_same _ _ _, fun i hi => conn_setConn_other _ _ _ _ hi⟩
  simp [stepOuts, h1, h2, h3, h4, h5, hH, hr]

/-- a handler that answers by itself (`.direct ts`: arity and syntax errors) replies `ts`; nothing is
    queued, nothing runs, store unchanged -/
theorem direct_reply_not_queued (hs : ¬ special c.name) (ts : List Tok) (hH : H c.name c.args = some (.direct ts)) :
    (step H sv c).2 = ts ∧
    stepOuts H sv c = [] ∧
    (step H sv c).1.store = sv.store ∧
    (∀ i, ((step H sv c).1.conn i).queue = (sv.conn i).queue) ∧
    (∀ i, ((step H sv c).1.conn i).watch = (sv.conn i).watch) := by
  rw [step_direct H sv c hs ts hH]
  obtain ⟨h1, h2, h3, h4, h5⟩ := not_special hs
  refine ⟨rfl, ?_, afterHandler_store _ _ _, fun i => afterHandler_queue _ _ _ _, fun i => afterHandler_watch _ _ _ _⟩
  simp [stepOuts, h1, h2, h3, h4, h5, hH]

/-! ## EXEC -/

/-- EXEC on a clean prepared transaction with queue [b₁…bₙ], n > 0, and no watch flag set: the store
    afterwards is the fold of the closures in order, each run exactly once through `runBody`
    (`execStore`, `execOuts`: closure j+1 starts on the store closure j left); the reply is the
    array header `*n` followed by the tokens of each closure in order (a panicking closure's tokens
    plus the recovery error token: `replyOf`). -/
theorem exec_runs_each_once_in_order (hn : c.name = "EXEC")
    (hst : (sv.conn c.id).state = multiPrepare) (hne : (sv.conn c.id).queue ≠ [])
    (hw : (sv.conn c.id).watch.any (·.2) = false) :
    (step H sv c).1.store = execStore sv.store c.now (sv.conn c.id).queue ∧
    (step H sv c).2 = Tok.arr (sv.conn c.id).queue.length ::
        (execOuts sv.store c.now (sv.conn c.id).queue).flatMap replyOf ∧
    (execOuts sv.store c.now (sv.conn c.id).queue).length = (sv.conn c.id).queue.length ∧
    stepOuts H sv c = execOuts sv.store c.now (sv.conn c.id).queue := by
  rw [step_exec H sv c hn]
  have h1 : (sv.conn c.id).state % 2 = 1 := by rw [hst]; rfl
  have h2 : ((sv.conn c.id).state / 4) % 2 ≠ 1 := by rw [hst]; decide
  obtain ⟨a, b⟩ := exec_runs sv c.id c.now h1 h2 hne hw
  refine ⟨a, b, execOuts_length _ _ _, ?_⟩
  have : execRuns (sv.conn c.id) := ⟨h1, h2, hne, hw⟩
  simp [stepOuts, hn, this]

/-- "in order, each on the store its predecessor left": the j-th output is the j-th closure run on
    the store produced by the first j closures -/
theorem exec_order (st : MState) (now : Int) : ∀ (bs : List Body) (j : Nat),
    (execOuts st now bs)[j]? = bs[j]?.map (fun b => outOf (execStore st now (bs.take j)) now none b) := by
  intro bs
  induction bs generalizing st with
  | nil => intro j; simp [execOuts]
  | cons b rest ih =>
    intro j
    cases j with
    | zero => simp [execOuts, execStore]
    | succ j => simp [execOuts, execStore, ih]

/-- if every queued closure yields exactly one RESP value, EXEC's reply is exactly one RESP value:
    an array of exactly n elements, the j-th being the reply of the j-th closure -/
theorem exec_reply_count (hn : c.name = "EXEC")
    (hst : (sv.conn c.id).state = multiPrepare) (hne : (sv.conn c.id).queue ≠ [])
    (hw : (sv.conn c.id).watch.any (·.2) = false)
    (hone : ∀ b ∈ (sv.conn c.id).queue, ∀ st now ch, oneValue (replyOf (b st now ch)) = true) :
    oneValue (step H sv c).2 = true ∧
    ∃ vs : List (List Tok), vs.length = (sv.conn c.id).queue.length ∧
      (step H sv c).2 = Tok.arr (sv.conn c.id).queue.length :: vs.flatten ∧
      (∀ v ∈ vs, oneValue v = true) ∧
      vs = (execOuts sv.store c.now (sv.conn c.id).queue).map replyOf := by
  obtain ⟨_, h2, h3, _⟩ := exec_runs_each_once_in_order H sv c hn hst hne hw
  have hall : ∀ (bs : List Body) (st : MState), (∀ b ∈ bs, ∀ st now ch, oneValue (replyOf (b st now ch)) = true) →
      ∀ v ∈ (execOuts st c.now bs).map replyOf, oneValue v = true := by
    intro bs
    induction bs with
    | nil => intro st _ v hv; simp [execOuts] at hv
    | cons b rest ih =>
      intro st hb v hv
      simp only [execOuts, List.map_cons, List.mem_cons] at hv
      rcases hv with hv | hv
      · rw [hv]; exact hb b (by simp) _ _ _
      · exact ih _ (fun b' hb' => hb b' (by simp [hb'])) v hv
  have hvs := hall _ sv.store hone
  have hlen : ((execOuts sv.store c.now (sv.conn c.id).queue).map replyOf).length = (sv.conn c.id).queue.length := by
    simp [h3]
  refine ⟨?_, _, hlen, ?_, hvs, rfl⟩
  · rw [h2, List.flatMap_def, ← hlen]
    exact Proofs.C16Handlers.oneValue_arr_flatten _ hvs
  · rw [h2, List.flatMap_def]

/-- n = 0: MULTI immediately followed by EXEC (no watch flag set) replies `*0`; nothing runs.
    (With a watch flag set the reply is null, as for any other transaction: `C09.watch_sound`.) -/
theorem empty_exec (hn : c.name = "EXEC") (hst : (sv.conn c.id).state = multiPrepare)
    (hw : (sv.conn c.id).watch.any (·.2) = false) (hq : (sv.conn c.id).queue = []) :
    (step H sv c).2 = [Tok.arr 0] ∧ (step H sv c).1.store = sv.store ∧ stepOuts H sv c = [] := by
  rw [step_exec H sv c hn, exec_empty sv c.id c.now (by rw [hst]; rfl) (by rw [hst]; decide) hw hq]
  refine ⟨rfl, resetConn_store _ _, ?_⟩
  have : ¬ execRuns (sv.conn c.id) := fun h => h.2.2.1 hq
  simp [stepOuts, hn, this]

/-- EXEC without MULTI: an error, nothing runs (whatever the queue field holds) -/
theorem exec_without_multi (hn : c.name = "EXEC") (hst : (sv.conn c.id).state % 2 ≠ 1) :
    (step H sv c).2 = [Tok.err 0] ∧ (step H sv c).1.store = sv.store ∧ stepOuts H sv c = [] := by
  rw [step_exec H sv c hn, exec_no_multi sv c.id c.now hst]
  refine ⟨rfl, resetConn_store _ _, ?_⟩
  have : ¬ execRuns (sv.conn c.id) := fun h => hst h.1
  simp [stepOuts, hn, this]

/-! ## DISCARD, queue-time errors -/

/-- DISCARD (in every state, with any queue): reply OK, no closure runs, store unchanged -/
theorem discard_runs_none (hn : c.name = "DISCARD") :
    (step H sv c).2 = [okTok] ∧ (step H sv c).1.store = sv.store ∧ stepOuts H sv c = [] := by
  rw [step_discard H sv c hn]
  refine ⟨rfl, resetConn_store _ _, ?_⟩
  simp [stepOuts, hn]

/-- an error reply while the connection is inside MULTI sets the MultiError bit (and the bit is kept
    by every later command of the connection other than EXEC / DISCARD; by `other_connections_untouched`
    also by every command of every other connection) -/
theorem error_during_multi_sets_flag (hst : (sv.conn c.id).state % 2 = 1) (h2 : c.name ≠ "EXEC") (h3 : c.name ≠ "DISCARD")
    (herr : (step H sv c).2.any isErr = true ∨ ((sv.conn c.id).state / 4) % 2 = 1) :
    ((step H sv c).1.conn c.id).state % 2 = 1 ∧ (((step H sv c).1.conn c.id).state / 4) % 2 = 1 ∧
    (step H sv c).1.store = sv.store := by
  obtain ⟨a, b⟩ := step_state_in_multi H sv c hst h2 h3
  refine ⟨?_, ?_, b⟩
  · rw [a]; unfold multiError; split <;> omega
  · rw [a]; unfold multiError
    rcases herr with herr | herr
    · by_cases he : ((sv.conn c.id).state / 4) % 2 = 1
      · rw [if_neg (by simp [he])]; exact he
      · rw [if_pos ⟨herr, he⟩]; omega
    · rw [if_neg (by simp [herr])]; exact herr

/-- EXEC after a queue-time error: `-EXECABORT…`, no closure runs, store unchanged -/
theorem queue_error_aborts (hn : c.name = "EXEC")
    (hst : (sv.conn c.id).state % 2 = 1) (herr : ((sv.conn c.id).state / 4) % 2 = 1) :
    (step H sv c).2 = [Tok.err 2] ∧ (step H sv c).1.store = sv.store ∧ stepOuts H sv c = [] := by
  rw [step_exec H sv c hn, exec_aborted sv c.id c.now hst herr]
  refine ⟨rfl, resetConn_store _ _, ?_⟩
  have : ¬ execRuns (sv.conn c.id) := fun h => h.2.1 herr
  simp [stepOuts, hn, this]

/-- the whole scenario in one statement: inside MULTI, a command `bad` of the connection draws an
    error reply; after any further commands `mid` of any connections — none of them an EXEC or
    DISCARD of this connection — its EXEC replies EXECABORT and the store is the one the other
    connections left (the connection's own commands in between changed nothing) -/
theorem queue_error_aborts_run (bad e : Cmd) (mid : List Cmd)
    (hst : (sv.conn bad.id).state % 2 = 1) (hb2 : bad.name ≠ "EXEC") (hb3 : bad.name ≠ "DISCARD")
    (herr : (step H sv bad).2.any isErr = true)
    (hmid : ∀ m ∈ mid, m.id = bad.id → m.name ≠ "EXEC" ∧ m.name ≠ "DISCARD")
    (he : e.name = "EXEC") (hid : e.id = bad.id) :
    let svE := (run H (step H sv bad).1 mid).1
    (step H svE e).2 = [Tok.err 2] ∧ (step H svE e).1.store = svE.store := by
  intro svE
  have h0 := error_during_multi_sets_flag H sv bad hst hb2 hb3 (Or.inl herr)
  have inv : ∀ (ms : List Cmd) (s : Server), (∀ m ∈ ms, m.id = bad.id → m.name ≠ "EXEC" ∧ m.name ≠ "DISCARD") →
      (s.conn bad.id).state % 2 = 1 ∧ ((s.conn bad.id).state / 4) % 2 = 1 →
      ((run H s ms).1.conn bad.id).state % 2 = 1 ∧ (((run H s ms).1.conn bad.id).state / 4) % 2 = 1 := by
    intro ms
    induction ms with
    | nil => intro s _ h; exact h
    | cons m rest ih =>
      intro s hm h
      apply ih _ (fun m' hm' => hm m' (List.mem_cons_of_mem _ hm'))
      by_cases hi : m.id = bad.id
      · obtain ⟨a, b⟩ := hm m (by simp) hi
        have := error_during_multi_sets_flag H s m (by rw [hi]; exact h.1) a b (Or.inr (by rw [hi]; exact h.2))
        rw [hi] at this; exact ⟨this.1, this.2.1⟩
      · have := Others.step H s m
        rw [this.state bad.id (fun e => hi e.symm)]; exact h
  have h1 := inv mid _ hmid ⟨h0.1, h0.2.1⟩
  have := queue_error_aborts H svE e he (by rw [hid]; exact h1.1) (by rw [hid]; exact h1.2)
  exact ⟨this.1, this.2.1⟩

/-- nested MULTI: an error, and the transaction is aborted (the error bit is set, so the EXEC that
    follows replies EXECABORT by `queue_error_aborts`); nothing is queued or run -/
theorem multi_in_multi (hn : c.name = "MULTI") (hst : (sv.conn c.id).state % 2 = 1) :
    (step H sv c).2 = [Tok.err 0] ∧
    (((step H sv c).1.conn c.id).state / 4) % 2 = 1 ∧ ((step H sv c).1.conn c.id).state % 2 = 1 ∧
    ((step H sv c).1.conn c.id).queue = (sv.conn c.id).queue ∧
    (step H sv c).1.store = sv.store := by
  have hr : (step H sv c).2 = [Tok.err 0] := by
    simp only [step, dispatch_multi H sv c hn, multi_eq, if_pos hst]
  have := error_during_multi_sets_flag H sv c hst (by rw [hn]; decide) (by rw [hn]; decide)
    (Or.inl (by rw [hr]; rfl))
  refine ⟨hr, this.2.1, this.1, ?_, this.2.2⟩
  simp only [step, dispatch_multi H sv c hn, multi_eq, if_pos hst, afterHandler_queue]

/-! ## runtime failures -/

/-- a closure that panics at run time does not stop the others: with queue `pre ++ b :: post`, the
    reply is `*n`, the replies of `pre`, then b's tokens plus the recovery error token, then the
    replies of ALL closures of `post`, which run from the store `b` left behind -/
theorem runtime_failure_continues (hn : c.name = "EXEC")
    (hst : (sv.conn c.id).state = multiPrepare) (hw : (sv.conn c.id).watch.any (·.2) = false)
    (pre post : List Body) (b : Body) (hq : (sv.conn c.id).queue = pre ++ b :: post)
    (hp : (outOf (execStore sv.store c.now pre) c.now none b).panicked = true) :
    let o := outOf (execStore sv.store c.now pre) c.now none b
    (step H sv c).2 = Tok.arr (pre.length + 1 + post.length) ::
        ((execOuts sv.store c.now pre).flatMap replyOf ++ (o.toks ++ [Tok.err 1]) ++
         (execOuts (storeAfter o) c.now post).flatMap replyOf) ∧
    (execOuts (storeAfter o) c.now post).length = post.length ∧
    (step H sv c).1.store = execStore (storeAfter o) c.now post := by
  intro o
  have hne : (sv.conn c.id).queue ≠ [] := by rw [hq]; simp
  obtain ⟨h1, h2, _, _⟩ := exec_runs_each_once_in_order H sv c hn hst hne hw
  rw [hq] at h1 h2
  refine ⟨?_, execOuts_length _ _ _, ?_⟩
  · rw [h2, execOuts_append]
    simp only [execOuts, List.flatMap_append, List.flatMap_cons, List.length_append, List.length_cons]
    have : replyOf o = o.toks ++ [Tok.err 1] := by simp [replyOf, o, hp]
    rw [← this]
    simp [o]
    omega
  · rw [h1]; simp [execStore, List.foldl_append, o]

/-! ## afterwards the connection is back to normal -/

/-- after EXEC (whatever its outcome) or DISCARD: state = 0, no queue, no watch, and the connection
    id occurs in no registry list. `RegWF` is the invariant of reachable server states
    (`RegWF.init`, `RegWF.step`, `RegWF.run`). -/
theorem reset_after_exec_or_discard (hwf : RegWF sv) (hn : c.name = "EXEC" ∨ c.name = "DISCARD") :
    ((step H sv c).1.conn c.id).state = 0 ∧ ((step H sv c).1.conn c.id).queue = [] ∧
    ((step H sv c).1.conn c.id).watch = [] ∧
    (∀ x ids, AList.get? (step H sv c).1.registry x = some ids → c.id ∉ ids) := by
  have hc : (step H sv c).1.conn c.id = {} := by
    rcases hn with hn | hn
    · rw [step_exec H sv c hn]; exact exec_conn_reset sv c.id c.now
    · rw [step_discard H sv c hn]; exact resetConn_conn_same _ _
  refine ⟨by rw [hc], by rw [hc], by rw [hc], ?_⟩
  intro x ids hx hmem
  have hwf' := hwf.step H c
  have := hwf'.has c.id x ⟨ids, hx, hmem⟩
  rw [hc] at this
  simp [AList.contains, AList.get?] at this

/-- the invariant used above holds initially and is preserved by every command of every connection -/
theorem regWF_reachable (st : MState) (cs : List Cmd) : RegWF (run H { store := st } cs).1 :=
  RegWF.run H cs (RegWF.init st)

/-! ## isolation -/

/-- a step of connection c changes no other connection's state, queue or registrations; another
    connection's watch flags change only by being set to true (which only `applySignals` does);
    a step that runs no closure leaves the store as it is -/
theorem other_connections_untouched (i : String) (hi : i ≠ c.id) :
    ((step H sv c).1.conn i).state = (sv.conn i).state ∧
    ((step H sv c).1.conn i).queue = (sv.conn i).queue ∧
    (∀ x, AList.get? ((step H sv c).1.conn i).watch x = AList.get? (sv.conn i).watch x ∨
          AList.get? ((step H sv c).1.conn i).watch x = some true) ∧
    (∀ x, registered (step H sv c).1 i x ↔ registered sv i x) ∧
    (stepOuts H sv c = [] → (step H sv c).1.store = sv.store) :=
  let h := Others.step H sv c
  ⟨h.state i hi, h.queue i hi, h.watch i hi, h.reg i hi, step_quiet H sv c⟩

/-- In `run`, the closures of one EXEC are consecutive: with the schedule `pre ++ e :: post`, the
    first queued closure starts on the store left by the last command of `pre`, closure j+1 starts
    on exactly the store closure j left (`exec_order`), and the first command of `post` finds the
    store the last closure left — no other connection's command is dispatched in between (true by
    construction of `step`: one EXEC is one step).  Thread-level interleavings inside the real
    server are NOT covered by this model. -/
theorem exec_atomic_at_command_granularity (pre post : List Cmd) (e : Cmd) (he : e.name = "EXEC") :
    let sv1 := (run H sv pre).1
    (run H sv (pre ++ e :: post)).1 = (run H (step H sv1 e).1 post).1 ∧
    (step H sv1 e).1.store = lastStore sv1.store (stepOuts H sv1 e) ∧
    (execRuns (sv1.conn e.id) →
      stepOuts H sv1 e = execOuts sv1.store e.now (sv1.conn e.id).queue ∧
      (step H sv1 e).1.store = execStore sv1.store e.now (sv1.conn e.id).queue ∧
      ∀ j, (execOuts sv1.store e.now (sv1.conn e.id).queue)[j]? =
        (sv1.conn e.id).queue[j]?.map
          (fun b => outOf (execStore sv1.store e.now ((sv1.conn e.id).queue.take j)) e.now none b)) := by
  intro sv1
  refine ⟨by rw [run_append, run_cons], step_store H sv1 e, ?_⟩
  intro hr
  have h1 : stepOuts H sv1 e = execOuts sv1.store e.now (sv1.conn e.id).queue := by
    simp [stepOuts, he, hr]
  refine ⟨h1, ?_, exec_order _ _ _⟩
  rw [step_store, h1, lastStore_execOuts]

/-- a disconnect runs none of the queued commands: closures of connection i's queue are run only by
    an EXEC that connection i itself sends (`exec sv i`); under ANY schedule in which i sends nothing
    more, its state and its queue sit there untouched and are never run.  (The Go server keeps the
    dead connection in the watch registry — a leak that influences nobody: `other_connections_untouched`.) -/
theorem disconnect_runs_none (i : String) (cs : List Cmd) (hcs : ∀ m ∈ cs, m.id ≠ i) :
    ((run H sv cs).1.conn i).state = (sv.conn i).state ∧ ((run H sv cs).1.conn i).queue = (sv.conn i).queue := by
  induction cs generalizing sv with
  | nil => exact ⟨rfl, rfl⟩
  | cons m rest ih =>
    have hm : i ≠ m.id := fun e => hcs m (by simp) e.symm
    have o := Others.step H sv m
    obtain ⟨a, b⟩ := ih (step H sv m).1 (fun m' hm' => hcs m' (List.mem_cons_of_mem _ hm'))
    exact ⟨a.trans (o.state i hm), b.trans (o.queue i hm)⟩

/-! ## the step is the one the differential driver executes -/

/-- `Driver.respStep` (the function whose outputs are compared, command by command, against the Go
    server's) computes exactly `step` on the table `Driver.lookup tables`, and prints the canonical
    rendering of `step`'s reply tokens -/
theorem step_is_the_driver_step (tables : List (String → List Bytes → Option HRes)) (id : String)
    (now : Int) (nameB : Bytes) (args : List Bytes) (ch : Choice) :
    let c : Cmd := { id := id, name := driverName nameB, args := args, now := now, ch := ch }
    (Driver.respStep tables sv id now (nameB :: args) ch).1 = (step (Driver.lookup tables) sv c).1 ∧
    (Driver.respStep tables sv id now (nameB :: args) ch).2 =
      Wire.joinWith " " (Driver.canonical (driverName nameB) (step (Driver.lookup tables) sv c).2) :=
  ⟨step_matches_driver tables sv id now nameB args ch, step_matches_driver_reply tables sv id now nameB args ch⟩

/-! ## non-vacuity -/

/-- a prepared connection "a" with one queued closure, and an idle connection "b" -/
def sampleServer : Server :=
  (({} : Server).setConn "a" { state := multiPrepare, queue := [okBody] }).setConn "b" {}

example : ¬ special "SET" := by decide
example : ∃ b, Handler.table1 "SET" [[1], [2]] = some (.exec b) := ⟨_, rfl⟩
example : (sampleServer.conn "a").state = multiPrepare ∧ (sampleServer.conn "a").queue ≠ [] ∧
    (sampleServer.conn "a").watch.any (·.2) = false := by
  simp [sampleServer, conn_setConn, multiPrepare]
example : ∃ ts, Handler.table1 "SET" [[1]] = some (.direct ts) ∧ ts.any isErr = true := ⟨_, rfl, rfl⟩
example : RegWF sampleServer := by
  refine ⟨trivial, ?_⟩
  rintro i x ⟨ids, h, _⟩
  simp [sampleServer, AList.get?, Server.setConn] at h

/-! ## isolation under real concurrency: the gate that makes EXEC exclusive

  `Gate.step` is the protocol of `store.execMu` as `Serve`, `blockingPop` and `exec` use it; the recorded
  trace of every concurrent scenario over TCP is replayed through it (a rejected step = the
  implementation left the protocol).  The theorems hold for every run of the transition system, i.e.
  for every schedule of any number of connections, embedded callers and background goroutines. -/
section gate
open NodisVerif.Gate

/-- In every reachable state, a goroutine that holds the gate exclusively (it is serving EXEC) is its
    only holder. -/
theorem exec_gate_exclusive (es : List Ev) (s : GState) (hr : Gate.run {} es = some s) (g : G)
    (hx : s.holdsX g = true) : s.holders = [(g, .x)] :=
  x_holder_alone (inv_run es {} s inv_init hr) hx

/-- In every reachable state in which `g` is inside EXEC, every open transaction of a goroutine that
    serves a connection is `g`'s own: no command of another client is in progress. -/
theorem exec_section_isolated (es : List Ev) (s : GState) (hr : Gate.run {} es = some s) (g : G)
    (hx : s.holdsX g = true) (t : T) (g' : G) (ha : (t, g') ∈ s.active) (hc : s.isClient g' = true) : g' = g := by
  have hi := inv_run es {} s inv_init hr
  exact holder_is_g hi hx (hi.2 _ ha hc)

/-- Every step on the keyspace or on watch flags (transaction begin / end, watch signal, watch check,
    queued body) that the protocol accepts while `g` is inside EXEC is `g`'s own - or comes from a
    goroutine that serves no connection. -/
theorem exec_section_steps (es : List Ev) (s : GState) (hr : Gate.run {} es = some s) (g : G)
    (hx : s.holdsX g = true) (e : Ev) (s' : GState) (hs : Gate.step s e = some s') (g' : G)
    (ha : e.actor = some g') (hc : s.isClient g' = true) : g' = g :=
  step_inside_section (inv_run es {} s inv_init hr) hx hs ha hc

/-- Trace form: from the moment `g` has entered EXEC until it leaves (no `gout g` in the segment), in
    EVERY continuation of the run, every accepted keyspace step is `g`'s own or comes from a goroutine
    that serves no connection at that moment. -/
theorem exec_section_isolated_trace (pre seg : List Ev) (s : GState) (hr : Gate.run {} pre = some s)
    (g : G) (hx : s.holdsX g = true) (hn : Ev.gout g ∉ seg) : SegOk g s seg :=
  segment_inside_section seg s g (inv_run pre {} s inv_init hr) hx hn

/-- EXEC's look at its watch flags and every queued body happen inside the exclusive section (the
    protocol accepts `chk` / `run` only there), and the section lasts until `g` itself leaves: between
    the check and the last body no other client's write or signal can be accepted. -/
theorem watch_check_and_bodies_inside_section (es : List Ev) (s : GState) (hr : Gate.run {} es = some s)
    (g : G) (s' : GState) (hs : Gate.step s (.chk g) = some s' ∨ Gate.step s (.run g) = some s') :
    s.holdsX g = true ∧ s' = s ∧
    ∀ e s'', Gate.step s e = some s'' → e ≠ .gout g → s''.holdsX g = true := by
  have hi := inv_run es {} s inv_init hr
  have hx : s.holdsX g = true := by
    rcases hs with hs | hs <;> simp only [Gate.step] at hs <;> split at hs <;> first | assumption | cases hs
  have hs' : s' = s := by
    rcases hs with hs | hs <;> simp only [Gate.step, hx, if_true] at hs <;> cases hs <;> rfl
  exact ⟨hx, hs', fun e s'' h hne => section_lasts hi hx h hne⟩

/-- A client's transaction covers the whole time from its begin to its end with the gate: a command
    cannot leave the gate with a transaction open. -/
theorem client_transactions_are_gated (es : List Ev) (s : GState) (hr : Gate.run {} es = some s)
    (t : T) (g : G) (ha : (t, g) ∈ s.active) (hc : s.isClient g = true) : s.holds g = true :=
  (inv_run es {} s inv_init hr).2 _ ha hc

/-- The defect that was repaired (a blocking pop served outside the gate): goroutine 2 serves a
    connection and begins a transaction (its pop) while goroutine 1 is inside EXEC - rejected. -/
theorem ungated_pop_inside_exec_rejected :
    Gate.run {} [.serve 1, .serve 2, .gin 1 .x, .chk 1, .run 1, .txb 1 10, .txe 1 10, .txb 2 11] = none := by decide

/-- ... whereas the repaired order (the pop waits for the gate) is a run of the protocol, and so is an
    embedded caller (goroutine 3, serves no connection) working during the EXEC: that is the stated limit. -/
theorem gated_pop_after_exec_accepted :
    (Gate.run {} [.serve 1, .serve 2, .gin 1 .x, .chk 1, .run 1, .txb 1 10, .txb 3 12, .txe 3 12, .txe 1 10, .gout 1,
      .gin 2 .s, .txb 2 11, .sig 2, .txe 2 11, .gout 2]).isSome = true := by decide

example : ∃ s, Gate.run {} [.serve 1, .gin 1 .x, .chk 1] = some s ∧ s.holdsX 1 = true := ⟨_, rfl, by decide⟩

end gate

/- UNPROVED: nothing.  Out of the model's scope (said above, not a gap of the proofs): callers of the
   embedded API are not subject to the gate; disconnects are modelled as "the connection sends nothing
   more". -/

/-! ### The CODE around the gate (Model/GateProg.lean: the closure of `Serve`, `execCommand`, `exec`, `multi`, `discard`,
  `watchKey`, `unwatchAll`, `signalModifiedKey`, `Watch`, `UnWatch`, `blockingPop`'s `look`) as a program model.
  The theorems above are about the protocol; these say that the program follows it, under every schedule of any
  number of connections and embedded callers, and transfer the protocol theorems to the program. -/
section gateprog
open NodisVerif.Gate

/-- For every schedule of any number of connections and embedded callers, the events the program emits at its
    verifTrace sites are a run of the gate protocol, and the state the protocol reaches is the program's own
    (`R`: same serving goroutines, same open transactions, the reported holders of execMu). -/
theorem gateprog_refines_gate (sch : List (GateProg.Tid × GateProg.Choice)) :
    ∃ gs, Gate.run {} (GateProg.run {} sch).2 = some gs ∧ GateProg.R (GateProg.run {} sch).1 gs :=
  let ⟨gs, h, _, hr⟩ := GateProg.reach_inv sch; ⟨gs, h, hr⟩

/-- the invariant of the program model holds in every reachable configuration -/
theorem gateprog_invariant (sch : List (GateProg.Tid × GateProg.Choice)) : GateProg.Inv (GateProg.run {} sch).1 :=
  let ⟨_, _, hi, _⟩ := GateProg.reach_inv sch; hi

/-- `exec_gate_exclusive` for the program: while a goroutine has reported the exclusive side, no other goroutine
    has reported any side. -/
theorem gateprog_exec_gate_exclusive (sch : List (GateProg.Tid × GateProg.Choice)) (g : GateProg.Tid)
    (hx : ((GateProg.run {} sch).1.loc g).held = some .x ∧ ((GateProg.run {} sch).1.loc g).rep = true)
    (g' : GateProg.Tid) (h' : ((GateProg.run {} sch).1.loc g').held.isSome = true ∧ ((GateProg.run {} sch).1.loc g').rep = true) :
    g' = g := by
  obtain ⟨gs, h, _, hr⟩ := GateProg.reach_inv sch
  have hX : gs.holdsX g = true := holdsX_iff.2 ((hr.2.2 g .x).2 hx)
  have hal := exec_gate_exclusive _ gs h g hX
  obtain ⟨m, hm⟩ := Option.isSome_iff_exists.1 h'.1
  have := (hr.2.2 g' m).2 ⟨hm, h'.2⟩
  rw [hal] at this
  simp only [List.mem_singleton, Prod.mk.injEq] at this
  exact this.1

/-- … and directly on the mutex: a goroutine that holds execMu exclusively (reported or not yet) is its only holder. -/
theorem gateprog_writer_alone (sch : List (GateProg.Tid × GateProg.Choice)) (g : GateProg.Tid)
    (hx : ((GateProg.run {} sch).1.loc g).held = some .x) : (GateProg.run {} sch).1.sh.execMu = [(g, .x)] := by
  have hi := gateprog_invariant sch
  exact hi.xalone _ ((hi.mu g .x).2 hx) rfl

/-- `exec_section_isolated_trace` for the program: from a configuration in which `g` is inside EXEC's section, in
    every continuation of the schedule, as long as `g` does not report leaving, every keyspace step the program takes
    is `g`'s own or an embedded caller's. -/
theorem gateprog_exec_section_isolated_trace (pre seg : List (GateProg.Tid × GateProg.Choice)) (g : GateProg.Tid)
    (hx : ((GateProg.run {} pre).1.loc g).held = some .x ∧ ((GateProg.run {} pre).1.loc g).rep = true)
    (hn : Ev.gout g ∉ (GateProg.run (GateProg.run {} pre).1 seg).2) :
    ∃ gs, Gate.run {} (GateProg.run {} pre).2 = some gs ∧
      (Gate.run gs (GateProg.run (GateProg.run {} pre).1 seg).2).isSome = true ∧
      SegOk g gs (GateProg.run (GateProg.run {} pre).1 seg).2 := by
  obtain ⟨gs, h, hi, hr⟩ := GateProg.reach_inv pre
  have hX : gs.holdsX g = true := holdsX_iff.2 ((hr.2.2 g .x).2 hx)
  obtain ⟨gs', h', _, _⟩ := GateProg.sim_run seg _ gs hi hr
  exact ⟨gs, h, by rw [h']; rfl, exec_section_isolated_trace _ _ gs h g hX hn⟩

/-- the pcs of `exec` between its entry and its deferred reset -/
def inExecHandler : GateProg.Pc → Bool
  | .e1 | .e3 | .e4 | .e5 | .e6 | .ec1 | .ec2 | .edef => true
  | _ => false

/-- `watch_check_and_bodies_inside_section` for the program: at every pc of `exec` - the scan of the watch flags
    (e3), its report (e4), the loop over the queued closures (e5, e6), the deferred commit and reset - the goroutine
    holds execMu exclusively, has reported it, and is the only holder. -/
theorem gateprog_watch_check_and_bodies_inside_section (sch : List (GateProg.Tid × GateProg.Choice)) (g : GateProg.Tid)
    (hpc : inExecHandler ((GateProg.run {} sch).1.loc g).pc = true) :
    ((GateProg.run {} sch).1.loc g).held = some .x ∧ ((GateProg.run {} sch).1.loc g).rep = true ∧
    (GateProg.run {} sch).1.sh.execMu = [(g, .x)] := by
  have hi := gateprog_invariant sch
  have hok := hi.ok g
  have hh : ((GateProg.run {} sch).1.loc g).held = some .x ∧ ((GateProg.run {} sch).1.loc g).rep = true := by
    generalize (GateProg.run {} sch).1.loc g = l at *
    generalize ((GateProg.run {} sch).1.sh.conn g).commit = cm at *
    cases h : l.pc <;> simp [h, inExecHandler] at hpc <;>
      simp_all [GateProg.ok, GateProg.frame, GateProg.cmdGate, GateProg.gateIs] <;>
      (obtain ⟨⟨_, hg⟩, hc⟩ := hok; rw [hc] at hg; simpa using hg)
  exact ⟨hh.1, hh.2, gateprog_writer_alone sch g hh.1⟩

/-- the queued closures run inside the section too: a body run by EXEC's loop holds the exclusive side -/
theorem gateprog_queued_bodies_inside_section (sch : List (GateProg.Tid × GateProg.Choice)) (g : GateProg.Tid)
    (hctx : ((GateProg.run {} sch).1.loc g).ctx = .execLoop)
    (hpc : ((GateProg.run {} sch).1.loc g).pc = .b1 ∨ ((GateProg.run {} sch).1.loc g).pc = .b2 ∨
           ((GateProg.run {} sch).1.loc g).pc = .g2 ∨ ((GateProg.run {} sch).1.loc g).pc = .b3) :
    (GateProg.run {} sch).1.sh.execMu = [(g, .x)] := by
  have hi := gateprog_invariant sch
  have hok := hi.ok g
  apply gateprog_writer_alone sch g
  generalize (GateProg.run {} sch).1.loc g = l at *
  generalize ((GateProg.run {} sch).1.sh.conn g).commit = cm at *
  rcases hpc with h | h | h | h <;> simp_all [GateProg.ok, GateProg.bodyOk, GateProg.gateIs]

/-! Directly on the program model. -/

/-- between two commands - when the closure's deferred calls have run: after a normal return, after an error reply,
    after a recovered panic (all of them end in `dRec`, `flush`, `idle`) - and before the next command has chosen its
    side (`sw`), the goroutine holds no side of execMu. -/
def betweenCommands : GateProg.Pc → Bool
  | .dRec | .flush | .idle | .sw => true
  | _ => false

/-- The gate taken by a command is released on every path. -/
theorem gate_released_on_every_path (sch : List (GateProg.Tid × GateProg.Choice)) (g : GateProg.Tid)
    (hpc : betweenCommands ((GateProg.run {} sch).1.loc g).pc = true) (m : GMode) :
    (g, m) ∉ (GateProg.run {} sch).1.sh.execMu ∧ ((GateProg.run {} sch).1.loc g).held = none := by
  have hi := gateprog_invariant sch
  have hok := hi.ok g
  have hh : ((GateProg.run {} sch).1.loc g).held = none := by
    generalize (GateProg.run {} sch).1.loc g = l at *
    generalize ((GateProg.run {} sch).1.sh.conn g).commit = cm at *
    cases h : l.pc <;> simp [h, betweenCommands] at hpc <;> simp_all [GateProg.ok, GateProg.gateIs]
  refine ⟨fun hm => ?_, hh⟩
  have := (hi.mu g m).1 hm
  rw [hh] at this; cases this

/-- … and every way out of a handler leads there: the deferred calls of the closure (`dOut`, `dUnlock`, `dRec`) and the
    flush report nothing but the release and go on to `idle`. -/
theorem epilogue_reports_only_the_release {s : GateProg.Shared} {t : GateProg.Tid} {l : GateProg.Loc} {ch : GateProg.Choice}
    {s' l' evs} (hpc : l.pc = .dOut ∨ l.pc = .dUnlock ∨ l.pc = .dRec ∨ l.pc = .flush)
    (hs : GateProg.tstep s t l ch = some (s', l', evs)) :
    (∀ e ∈ evs, e = Ev.gout t) ∧ s'.active = s.active ∧
    (l'.pc = .dUnlock ∨ l'.pc = .dRec ∨ l'.pc = .flush ∨ l'.pc = .idle) :=
  GateProg.epilogue_tstep hpc hs

/-- … and they never block and need no choice of the scheduler: once a handler has returned (or panicked), the release
    is four enabled transitions away. -/
theorem epilogue_never_blocks (s : GateProg.Shared) (t : GateProg.Tid) (l : GateProg.Loc) (ch : GateProg.Choice)
    (hpc : l.pc = .dOut ∨ l.pc = .dUnlock ∨ l.pc = .dRec ∨ l.pc = .flush) : (GateProg.tstep s t l ch).isSome = true :=
  GateProg.epilogue_enabled s t l ch hpc

/-- A command that is queued in MULTI takes no keyspace step before EXEC: `execCommand` on a queuing connection appends
    the closure, reports nothing, touches neither execMu nor the transactions nor the watch registry, and returns into
    the deferred calls (which report only the release: `epilogue_reports_only_the_release`). -/
theorem queued_command_takes_no_keyspace_step {s : GateProg.Shared} {t : GateProg.Tid} {l : GateProg.Loc}
    {ch : GateProg.Choice} {s' l' evs} (hpc : l.pc = .ec) (hq : (s.conn t).prep = true)
    (hs : GateProg.tstep s t l ch = some (s', l', evs)) :
    evs = [] ∧ (l'.pc = .dOut ∨ l'.pc = .dRec) ∧ (s'.conn t).queue = (s.conn t).queue ++ [GateProg.qcmdOf l.cmd] ∧
    s'.active = s.active ∧ s'.execMu = s.execMu ∧ s'.registry = s.registry :=
  GateProg.queued_tstep hpc hq hs

/-- the pcs after the handler of the last command has returned -/
def commandOver : GateProg.Pc → Bool
  | .dOut | .dUnlock | .dRec | .flush | .idle => true
  | _ => false

/-- After EXEC / DISCARD the connection's state is MultiNone and its queue is empty on every path (EXEC without MULTI,
    EXECABORT, the null reply, the empty transaction, bodies that panic, DISCARD): in every reachable configuration in
    which the handler of EXEC / DISCARD has returned. -/
theorem after_exec_discard_state_and_queue_clean (sch : List (GateProg.Tid × GateProg.Choice)) (g : GateProg.Tid)
    (hc : GateProg.isExecOrDiscard ((GateProg.run {} sch).1.loc g).cmd = true)
    (hpc : commandOver ((GateProg.run {} sch).1.loc g).pc = true) :
    ((GateProg.run {} sch).1.sh.conn g).none? = true ∧ ((GateProg.run {} sch).1.sh.conn g).queue = [] := by
  have hd := GateProg.reach_done sch g
  generalize (GateProg.run {} sch).1.loc g = l at *
  generalize (GateProg.run {} sch).1.sh.conn g = cs at *
  cases h : l.pc <;> simp [h, commandOver] at hpc <;> simp_all [GateProg.doneOk]

/-- The step itself: `unwatchAll` empties the connection's own watch map in its one critical section (pc u2), on the
    way out of EXEC and DISCARD alike.  (This was the partial form; that the map stays empty in every later
    configuration whatever the other goroutines signal is `after_exec_discard_clean` below, which rests on the
    registry invariant `watch_registry_invariant`.) -/
theorem after_exec_discard_watches_gone_partial {s : GateProg.Shared} {t : GateProg.Tid} {l : GateProg.Loc}
    {ch : GateProg.Choice} {s' l' evs} (hpc : l.pc = .u2) (hs : GateProg.tstep s t l ch = some (s', l', evs)) :
    (s'.conn t).watch = [] ∧ l'.pc = .u3 ∧ evs = [] := by
  simp only [GateProg.tstep, hpc] at hs
  injection hs with hs; injection hs with h1 h2; injection h2 with h2 h3
  subst h1 h2 h3
  simp

/-- After EXEC / DISCARD the connection is clean on every path - State == MultiNone, no queued command, no watched
    key - and it is in no key's watcher list, so that no later write of anybody can mark a future transaction of this
    connection: in every reachable configuration in which the handler of EXEC / DISCARD has returned (until the next
    command is read), under every schedule of the other goroutines.  (The full form of
    `after_exec_discard_watches_gone_partial`: Proofs/GateProgWatch.lean proves the registry invariant.) -/
theorem after_exec_discard_clean (sch : List (GateProg.Tid × GateProg.Choice)) (g : GateProg.Tid)
    (hc : GateProg.isExecOrDiscard ((GateProg.run {} sch).1.loc g).cmd = true)
    (hpc : commandOver ((GateProg.run {} sch).1.loc g).pc = true) :
    ((GateProg.run {} sch).1.sh.conn g).clean = true ∧
    ∀ k, g ∉ GateProg.regOf (GateProg.run {} sch).1.sh.registry k := by
  obtain ⟨hsq, hq⟩ := after_exec_discard_state_and_queue_clean sch g hc hpc
  have hg := GateProg.reach_gone sch
  have hw : ((GateProg.run {} sch).1.sh.conn g).watch = [] := by
    have := hg.g g
    generalize (GateProg.run {} sch).1.loc g = l at *
    generalize (GateProg.run {} sch).1.sh.conn g = cs at *
    cases h : l.pc <;> simp [h, commandOver] at hpc <;> simp_all [GateProg.goneOk]
  refine ⟨by simp [GateProg.ConnSt.clean, hsq, hq, hw], fun k hm => ?_⟩
  have := hg.w.j1 k g hm
  rw [hw] at this; cases this

/-- the watch registry invariant in every reachable configuration: a connection is in a key's watcher list only if it
    has a flag for the key, and no list has duplicates -/
theorem watch_registry_invariant (sch : List (GateProg.Tid × GateProg.Choice)) :
    GateProg.WInv (GateProg.run {} sch).1.sh := (GateProg.reach_gone sch).w

open GateProg.Ex in
example : ∃ gs, Gate.run {} (GateProg.run {} (schedToCheck ++ schedRest)).2 = some gs ∧ gs.holders = [] ∧ gs.clients = [1] :=
  ⟨_, by rw [trace_exec]; rfl, rfl, rfl⟩
open GateProg.Ex in
example : ((GateProg.run {} schedToCheck).1.loc 1).held = some .x ∧ ((GateProg.run {} schedToCheck).1.loc 1).rep = true := by decide
open GateProg.Ex in
example : ((GateProg.run {} schedToCheck).1.loc 1).held = some .x ∧ ((GateProg.run {} schedToCheck).1.loc 1).rep = true ∧
    Ev.gout 1 ∉ (GateProg.run (GateProg.run {} schedToCheck).1 schedSeg).2 ∧
    (GateProg.run (GateProg.run {} schedToCheck).1 schedSeg).2 = [.chk 1, .run 1, .txb 1 3] := by decide
open GateProg.Ex in
example : inExecHandler ((GateProg.run {} schedToCheck).1.loc 1).pc = true := by decide
open GateProg.Ex in
example : betweenCommands ((GateProg.run {} schedAbort).1.loc 1).pc = true ∧
    betweenCommands ((GateProg.run {} schedWatch).1.loc 1).pc = true := by decide
open GateProg.Ex in
example : GateProg.isExecOrDiscard ((GateProg.run {} schedWatch).1.loc 1).cmd = true ∧
    commandOver ((GateProg.run {} schedWatch).1.loc 1).pc = true ∧ ((GateProg.run {} schedWatch).1.loc 1).noChange = false ∧
    GateProg.isExecOrDiscard ((GateProg.run {} schedAbort).1.loc 1).cmd = true ∧
    commandOver ((GateProg.run {} schedAbort).1.loc 1).pc = true ∧
    GateProg.isExecOrDiscard ((GateProg.run {} schedDiscard).1.loc 1).cmd = true ∧
    commandOver ((GateProg.run {} schedDiscard).1.loc 1).pc = true := by decide
open GateProg.Ex in
/-- `queued_command_takes_no_keyspace_step`: a SET arriving at execCommand on a connection that is queuing -/
example : ((GateProg.run {} (simple 1 .multi ++ [(1, cmd (.plain 7)), (1, n), (1, n), (1, n)])).1.loc 1).pc = .ec ∧
    ((GateProg.run {} (simple 1 .multi ++ [(1, cmd (.plain 7)), (1, n), (1, n), (1, n)])).1.sh.conn 1).prep = true := by decide
open GateProg.Ex in
/-- `gateprog_queued_bodies_inside_section`: the queued SET about to begin its transaction inside EXEC's loop -/
example : ((GateProg.run {} (schedToCheck ++ schedRest.take 4)).1.loc 1).ctx = .execLoop ∧
    ((GateProg.run {} (schedToCheck ++ schedRest.take 4)).1.loc 1).pc = .b1 := by decide

end gateprog

end NodisVerif.C08
