import NodisVerif.Model.Block
import NodisVerif.Proofs.BlockTrace
/-
  C18 — BLPOP/BRPOP: return immediately when a listed key has an element (first key in argument
  order), otherwise wait; a push to a listed key reaches the waiter (no missed wake-up), timeout 0
  waits for ever, null only from the timer; a push never fails or blocks because of waiters.

  Property theorems only, about the wake-up protocol `Model/Block.lean` (the transition system whose
  steps `list.go` reports: `blockingPop`, `addBlockKeys`, `notifyBlockingKey`, `removeBlockingKeys`).
  Reference notions (Proofs/BlockBasic.lean, BlockStep.lean, BlockTrace.lean):
    `runAll s es`   the fold of `step` over a trace (`= some s'` iff every step is allowed),
    `Reachable s`   `∃ es, runAll [] es = some s`,
    `evW e`         the waiter an event is about,
    `own w e`       e is an action of waiter w itself (everything about w except `notify`, which is
                    the action of a pushing client),
    `proj w es`     the actions of w in the trace es, in order,
    `pos ph`        the scan position of a phase (`registering` ↦ 0, `scan i` ↦ i, else none),
    `Returned ph`   ph is gotElem / gotNull / aborted (the call is unwinding),
    `failedTries w ks` = `ks.map (.try_ w · false)`,  `RoundStart w e` = e is `wake w` or a `reg w _`.
  Every theorem is about ALL reachable states / all traces: any number of waiters, keys, pushes.
  Helper lemmas: Proofs/BlockBasic (get/set, local step), BlockStep (inversion), BlockInv (the state
  invariant `WInv`), BlockTrace (the history invariants `NullInv`, `RoundInv`).
-/
namespace NodisVerif.C18
open NodisVerif.Block
open NodisVerif.Proofs.Block

/-- `runAll` is the model's own `run`, without the error report -/
theorem runAll_is_run (s s' : BState) (es : List Ev) (i : Nat) :
    run s es i = .ok s' ↔ runAll s es = some s' := run_ok_iff s s' es i

/-! ## 1. no missed push -/

/-- THE CORE. A waiter that sleeps with an empty channel has looked at every one of its keys, and
    found it empty, AFTER the last push to that key (`seen` is reset by every push): it sleeps only
    when it knows about every push. -/
theorem no_missed_push {s : BState} (hr : Reachable s) {w : W} {st : WSt} (hg : get s w = some st)
    (hp : st.phase = .blocked) (hb : st.buf = false) : ∀ k ∈ st.keys, k ∈ st.seen := by
  rcases (hr.winv hg).blockedSeen hp with h | h
  · simp [hb] at h
  · exact h

/-- the same without the ghost field, on the events alone: if after a trace from the empty state w
    sleeps with an empty channel, then for EVERY key k of w the trace contains a failed pop attempt
    of w on k after which no push to k was offered to w - there is no push w has not looked for -/
theorem no_missed_push_trace {es : List Ev} {s : BState} (h : runAll [] es = some s) {w : W}
    {st : WSt} (hg : get s w = some st) (hp : st.phase = .blocked) (hb : st.buf = false) :
    ∀ k ∈ st.keys, ∃ pre post, es = pre ++ .try_ w k false :: post ∧ Ev.notify w k ∉ post :=
  fun k hk => seenInv h hg k (no_missed_push ⟨es, h⟩ hg hp hb k hk)

/-- the same inside a round: at scan position i with an empty channel, the keys before position i
    have been seen empty after their last push -/
theorem no_missed_push_in_round {s : BState} (hr : Reachable s) {w : W} {st : WSt}
    (hg : get s w = some st) {i : Nat} (hp : st.phase = .scan i) (hb : st.buf = false) :
    ∀ k ∈ st.keys.take i, k ∈ st.seen := by
  rcases (hr.winv hg).scanSeen i hp with h | h
  · simp [hb] at h
  · exact h

/-- progress: a sleeping waiter with a key it has not seen since the last push is not stuck: the
    wake-up is in its channel, `wake` is enabled and starts a new round at position 0 -/
theorem pushed_waiter_can_wake {s : BState} (hr : Reachable s) {w : W} {st : WSt}
    (hg : get s w = some st) (hp : st.phase = .blocked) {k : Key} (hk : k ∈ st.keys)
    (hs : k ∉ st.seen) :
    ∃ s', step s (.wake w) = some s' ∧
      get s' w = some { st with phase := .scan 0, buf := false, woken := st.woken + 1 } := by
  have hb : st.buf = true := by
    cases hb : st.buf with
    | true => rfl
    | false => exact absurd (no_missed_push hr hg hp hb k hk) hs
  have hl := (lstep_wake (w := w)).2 ⟨st, rfl, hp, hb, rfl⟩
  refine ⟨_, by rw [step_eq]; simp only [evW, hg, hl]; rfl, ?_⟩
  simp [put, get_set_self]

/-! ## 2. a push never blocks -/

/-- Offering a wake-up to a registered waiter is always possible - whatever the channel holds,
    whatever the waiter is doing (no hypothesis on `buf`, `phase`; `s` need not even be reachable) -
    and it touches no other waiter. Afterwards the channel is full and the key is no longer `seen`. -/
theorem push_never_blocks {s : BState} {w : W} {st : WSt} (hg : get s w = some st) {k : Key}
    (hk : k ∈ st.reg) :
    ∃ s', step s (.notify w k) = some s' ∧
      get s' w = some { st with buf := true, seen := st.seen.filter (· != k),
                                notified := st.notified + 1 } ∧
      ∀ w', w' ≠ w → get s' w' = get s w' := by
  have hl := (lstep_notify (w := w)).2 ⟨st, rfl, hk, rfl⟩
  refine ⟨_, by rw [step_eq]; simp only [evW, hg, hl]; rfl, ?_, ?_⟩
  · simp [put, get_set_self]
  · intro w' hw'; simp [put, get_set_ne _ _ _ _ hw']

/-- after the push the waiter cannot sleep through it: its channel is full, the key is not `seen` -/
theorem push_is_noticed {s s' : BState} {w : W} {k : Key} (h : step s (.notify w k) = some s') :
    ∃ st', get s' w = some st' ∧ st'.buf = true ∧ k ∉ st'.seen := by
  obtain ⟨st, _, _, hr⟩ := lstep_notify.1 (step_local h)
  exact ⟨_, hr, rfl, by simp⟩

/-- for as long as the call has not returned, the waiter is registered for ALL its keys: a push to
    any of them can be (and, by `notifyBlockingKey`, is) offered to it -/
theorem push_reaches_waiting {s : BState} (hr : Reachable s) {w : W} {st : WSt}
    (hg : get s w = some st) (hp : ¬ Returned st.phase) {k : Key} (hk : k ∈ st.keys) :
    ∃ s', step s (.notify w k) = some s' := by
  have : st.reg = st.keys := by
    apply (hr.winv hg).regKeys
    revert hp; cases st.phase <;> simp [Returned, pos]
  obtain ⟨s', h, _⟩ := push_never_blocks hg (this ▸ hk)
  exact ⟨s', h⟩

/-! ## 3. null only from the timer -/

/-- the timer fires only on a sleeping waiter whose timer is armed -/
theorem timeout_needs_armed_timer {s s' : BState} {w : W} (h : step s (.timeout w) = some s') :
    ∃ st, get s w = some st ∧ st.phase = .blocked ∧ st.timed = true ∧
      get s' w = some { st with phase := .gotNull } := by
  obtain ⟨st, hg, hp, ht, hr⟩ := lstep_timeout.1 (step_local h)
  exact ⟨st, hg, hp, ht, hr⟩

/-- a waiter enters `gotNull` only through `timeout` -/
theorem null_step {s s' : BState} {e : Ev} (h : step s e = some s') {w : W} {st' : WSt}
    (hg : get s' w = some st') (hp : st'.phase = .gotNull) :
    e = .timeout w ∨ ∃ st, get s w = some st ∧ st.phase = .gotNull := by
  by_cases hw : w = evW e
  · subst hw
    have hl := step_local h
    rw [hg] at hl
    cases e with
    | reg w k => obtain ⟨h1, hr⟩ := lstep_reg.1 hl; cases hr; simp [h1] at hp
    | try_ w k got =>
      obtain ⟨st, i, _, _, _, hr⟩ := lstep_try.1 hl
      cases got <;> (simp at hr; subst hr; simp at hp)
    | block w t => obtain ⟨st, _, _, hr⟩ := lstep_block.1 hl; cases hr; simp at hp
    | wake w => obtain ⟨st, _, _, _, hr⟩ := lstep_wake.1 hl; cases hr; simp at hp
    | timeout w => exact Or.inl rfl
    | notify w k =>
      obtain ⟨st, h0, _, hr⟩ := lstep_notify.1 hl; cases hr; exact Or.inr ⟨st, h0, hp⟩
    | abort w => obtain ⟨st, _, _, hr⟩ := lstep_abort.1 hl; cases hr; simp at hp
    | unreg w k =>
      obtain ⟨st, h0, _, hr⟩ := lstep_unreg.1 hl; cases hr; exact Or.inr ⟨st, h0, hp⟩
    | fin w => obtain ⟨st, _, _, hr⟩ := lstep_fin.1 hl; cases hr
  · rw [step_frame h hw] at hg; exact Or.inr ⟨st', hg, hp⟩

/-- On traces: if after a trace from the empty state waiter w has returned null, the trace contains
    `timeout w`, preceded by `block w true` (timer armed, i.e. timeout > 0) with no action of w in
    between (only pushes and other waiters); after the timeout w only unregisters. -/
theorem null_only_from_timer {es : List Ev} {s : BState} (h : runAll [] es = some s) {w : W}
    {st : WSt} (hg : get s w = some st) (hp : st.phase = .gotNull) :
    ∃ pre mid post, es = pre ++ .block w true :: (mid ++ .timeout w :: post) ∧
      (∀ e ∈ mid, own w e = false) ∧ (∀ e ∈ post, own w e = true → ∃ k, e = .unreg w k) :=
  (nullInv h hg).gotNull hp

/-- timeout 0 waits for ever: after `block w false`, for as long as w does nothing itself (pushes to
    its keys and other waiters may do anything), the timer cannot fire -/
theorem timeout_zero_waits_forever {pre mid : List Ev} {w : W} {s : BState}
    (h : runAll [] (pre ++ .block w false :: mid) = some s) (hm : ∀ e ∈ mid, own w e = false) :
    step s (.timeout w) = none := by
  cases ht : step s (.timeout w) with
  | none => rfl
  | some s' =>
    exfalso
    obtain ⟨st, hg, hp, htm, _⟩ := timeout_needs_armed_timer ht
    obtain ⟨pre', mid', he, hm'⟩ := (nullInv h hg).blocked hp
    have := last_own_unique (w := w) he (by simp [own, evW]) (by simp [own, evW]) hm hm'
    simp [htm] at this

/-! ## 4. keys are tried in argument order, the call returns at the first success -/

/-- a pop attempt is only possible on the key at the current scan position of `keys` (registration
    order = argument order); a failure moves to the next position, a success returns that key -/
theorem try_in_argument_order {s s' : BState} {w : W} {k : Key} {got : Bool}
    (h : step s (.try_ w k got) = some s') :
    ∃ st i, get s w = some st ∧ pos st.phase = some i ∧ st.keys[i]? = some k ∧
      get s' w = some (if got then { st with phase := .gotElem k }
                       else { st with phase := .scan (i + 1), seen := k :: st.seen }) := by
  obtain ⟨st, i, hg, hp, hk, hr⟩ := lstep_try.1 (step_local h)
  exact ⟨st, i, hg, hp, hk, hr⟩

/-- the waiter goes to sleep only from the position after the last key -/
theorem block_after_all_tried {s s' : BState} {w : W} {t : Bool}
    (h : step s (.block w t) = some s') :
    ∃ st, get s w = some st ∧ st.phase = .scan st.keys.length ∧
      get s' w = some { st with phase := .blocked, timed := t } := by
  obtain ⟨st, hg, hp, hr⟩ := lstep_block.1 (step_local h)
  exact ⟨st, hg, hp, hr⟩

/-- history of a round: at scan position i, the actions of w since the round started (its last `reg`,
    or its last `wake`) are exactly failed tries on keys[0], …, keys[i-1], in this order -/
theorem round_history {es : List Ev} {s : BState} (h : runAll [] es = some s) {w : W} {st : WSt}
    (hg : get s w = some st) {i : Nat} (hp : pos st.phase = some i) :
    ∃ pre e0, proj w es = pre ++ e0 :: failedTries w (st.keys.take i) ∧ RoundStart w e0 :=
  (roundInv h hg).scanning i hp

/-- a sleeping waiter has tried ALL its keys, in order, without success, in the round before it
    blocked -/
theorem blocked_history {es : List Ev} {s : BState} (h : runAll [] es = some s) {w : W} {st : WSt}
    (hg : get s w = some st) (hp : st.phase = .blocked) :
    ∃ pre e0, proj w es = pre ++ e0 :: (failedTries w st.keys ++ [.block w st.timed]) ∧
      RoundStart w e0 :=
  (roundInv h hg).blocked hp

/-- the call returns at the FIRST successful try of the round: if w has returned an element of k, then
    k is the key at some position i, and in that round the tries on keys[0..i-1] all failed, the try on
    k succeeded, and w has done nothing since but unregister -/
theorem returns_at_first_success {es : List Ev} {s : BState} (h : runAll [] es = some s) {w : W}
    {st : WSt} (hg : get s w = some st) {k : Key} (hp : st.phase = .gotElem k) :
    ∃ pre e0 i post,
      proj w es = pre ++ e0 :: (failedTries w (st.keys.take i) ++ .try_ w k true :: post) ∧
      RoundStart w e0 ∧ st.keys[i]? = some k ∧ ∀ e ∈ post, ∃ k', e = .unreg w k' :=
  (roundInv h hg).gotElem k hp

/-- a call that was aborted by a panicking pop attempt: the round had failed on keys[0..i-1]; w has
    done nothing since but unregister -/
theorem abort_history {es : List Ev} {s : BState} (h : runAll [] es = some s) {w : W}
    {st : WSt} (hg : get s w = some st) (hp : st.phase = .aborted) :
    ∃ pre e0 i post,
      proj w es = pre ++ e0 :: (failedTries w (st.keys.take i) ++ .abort w :: post) ∧
      RoundStart w e0 ∧ ∀ e ∈ post, ∃ k', e = .unreg w k' :=
  (roundInv h hg).aborted hp

/-! ## 5. no try before the registration is complete -/

/-- a pop attempt of a waiter that has not registered is rejected (the old missed-wake-up race) -/
theorem try_unregistered_rejected {s : BState} {w : W} (hg : get s w = none) (k : Key)
    (got : Bool) : step s (.try_ w k got) = none := by
  rw [step_eq]; simp [evW, hg, lstep]

/-- every key tried is one the waiter is (still) registered for -/
theorem tried_key_registered {s s' : BState} (hr : Reachable s) {w : W} {k : Key} {got : Bool}
    (h : step s (.try_ w k got) = some s') :
    ∃ st, get s w = some st ∧ k ∈ st.keys ∧ k ∈ st.reg := by
  obtain ⟨st, i, hg, hp, hk, _⟩ := try_in_argument_order h
  have hm : k ∈ st.keys := List.mem_of_getElem? hk
  have : st.reg = st.keys := (hr.winv hg).regKeys (Or.inl (by simp [hp]))
  exact ⟨st, hg, hm, this ▸ hm⟩

/-- registration strictly precedes the first look at the keys: once w has made a pop attempt, a
    further `reg` of w is rejected (for as long as that waiter exists) -/
theorem reg_rejected_after_try {s0 s : BState} {pre post : List Ev} {w : W} {k : Key} {got : Bool}
    (h : runAll s0 (pre ++ .try_ w k got :: post) = some s) (hfin : Ev.fin w ∉ post) (k' : Key) :
    step s (.reg w k') = none := by
  rw [runAll_append] at h
  cases h1 : runAll s0 pre with
  | none => simp [h1] at h
  | some s1 =>
    simp only [h1, Option.bind_some, runAll] at h
    cases h2 : step s1 (.try_ w k got) with
    | none => simp [h2] at h
    | some s2 =>
      simp only [h2, Option.bind_some] at h
      obtain ⟨st, i, _, _, _, hg2⟩ := try_in_argument_order h2
      have : ∃ st, get s2 w = some st ∧ st.phase ≠ .registering :=
        ⟨_, hg2, by cases got <;> simp⟩
      obtain ⟨st', hg', hp'⟩ := started_persists h this hfin
      rw [step_eq]
      simp [evW, hg', lstep, hp']

/-! ## 6. token conservation: the trace check's `stepLoose` accepts every real run -/

/-- a wake-up consumed was offered before; a wake-up in the channel was offered and not consumed -/
theorem tokens_conserved {s : BState} (hr : Reachable s) {w : W} {st : WSt}
    (hg : get s w = some st) : st.woken ≤ st.notified ∧ (st.buf = true → st.woken < st.notified) :=
  ⟨(hr.winv hg).tok_le, (hr.winv hg).tok_buf⟩

/-- every step of the precise semantics is a step of the relation used to validate traces -/
theorem step_is_stepLoose {s s' : BState} {e : Ev} (hr : Reachable s) (h : step s e = some s') :
    stepLoose s e = some s' := step_le_stepLoose hr h

/-- hence every run of the precise semantics is accepted by the trace check -/
theorem run_is_loose_run {es : List Ev} {s : BState} (h : runAll [] es = some s) :
    runAllLoose [] es = some s := runAll_le_runAllLoose ⟨[], rfl⟩ h

/-! ## 7. unregistering -/

/-- `unreg` only once the call has produced its result (element or null) or has been aborted by a
    panicking pop attempt (the deferred `removeBlockingKeys`) -/
theorem unreg_only_after_return {s s' : BState} {w : W} {k : Key}
    (h : step s (.unreg w k) = some s') :
    ∃ st, get s w = some st ∧ Returned st.phase ∧
      get s' w = some { st with reg := st.reg.filter (· != k) } := by
  obtain ⟨st, hg, hp, hr⟩ := lstep_unreg.1 (step_local h)
  exact ⟨st, hg, hp, hr⟩

/-- `fin` only when unregistered from everything; the waiter is gone afterwards, nobody else is
    touched, and a push can no longer offer it anything -/
theorem fin_only_when_unregistered {s s' : BState} {w : W} (h : step s (.fin w) = some s') :
    ∃ st, get s w = some st ∧ st.reg = [] ∧ get s' w = none ∧
      (∀ w', w' ≠ w → get s' w' = get s w') ∧ ∀ k, step s' (.notify w k) = none := by
  obtain ⟨st, hg, hp, hr⟩ := lstep_fin.1 (step_local h)
  refine ⟨st, hg, hp, hr, fun w' hw' => step_frame h hw', ?_⟩
  have hr' : get s' w = none := hr
  intro k; rw [step_eq]; simp [evW, hr', lstep]

/-- in a reachable state `fin` happens only after the call has returned (or aborted) -/
theorem fin_only_after_return {s s' : BState} (hr : Reachable s) {w : W}
    (h : step s (.fin w) = some s') : ∃ st, get s w = some st ∧ Returned st.phase := by
  obtain ⟨st, hg, hp, _⟩ := fin_only_when_unregistered h
  refine ⟨st, hg, ?_⟩
  have hi := hr.winv hg
  have hne : st.reg ≠ st.keys := by rw [hp]; exact fun e => hi.keysNe e.symm
  have := mt hi.regKeys hne
  revert this; cases st.phase <;> simp [Returned, pos]

/-- a push never touches the channel of a waiter that has left (the old code's send on a closed
    channel): after `fin w`, until somebody registers under the name w again, `notify w _` is rejected -/
theorem no_notify_after_fin {s0 s1 s : BState} {w : W} {post : List Ev}
    (h0 : step s0 (.fin w) = some s1) (h : runAll s1 post = some s) (hreg : ∀ k, Ev.reg w k ∉ post)
    (k : Key) : step s (.notify w k) = none := by
  obtain ⟨_, _, _, hgone, _⟩ := fin_only_when_unregistered h0
  have := gone_persists h hgone hreg
  rw [step_eq]; simp [evW, this, lstep]

/-! ## 8. scenarios (non-vacuity) -/

/-- (a) the OLD missed-wake-up schedule - looking at the key before being registered - is rejected -/
example : runAll [] [.try_ 1 "a" false, .reg 1 "a", .block 1 false] = none := by decide

/-- ... also when the waiter is registered for one key but looks before registering the second -/
example : runAll [] [.reg 1 "a", .try_ 1 "a" false, .reg 1 "b"] = none := by decide

/-- (b) a full accepted run: BLPOP a b 1 - both empty, sleeps, a push to b wakes it, it rescans in
    argument order, pops b, unregisters, leaves -/
example : runAll [] [.reg 1 "a", .reg 1 "b", .try_ 1 "a" false, .try_ 1 "b" false, .block 1 true,
    .notify 1 "b", .wake 1, .try_ 1 "a" false, .try_ 1 "b" true, .unreg 1 "a", .unreg 1 "b",
    .fin 1] = some [] := by decide

/-- (c) two waiters on key a, one push: both are offered a wake-up, waiter 2 takes the element,
    waiter 1 finds it gone and goes back to sleep - with an empty channel and `a` seen again: the
    hypotheses of `no_missed_push` hold in a reachable state -/
example : ((runAll [] [.reg 1 "a", .reg 2 "a", .try_ 1 "a" false, .try_ 2 "a" false, .block 1 true,
    .block 2 false, .notify 2 "a", .notify 1 "a", .wake 2, .wake 1, .try_ 2 "a" true,
    .try_ 1 "a" false, .block 1 true]).bind (get · 1)) =
    some { keys := ["a"], reg := ["a"], buf := false, seen := ["a"], phase := .blocked,
           timed := true, notified := 1, woken := 1 } := by decide

/-- ... and while it sleeps with the wake-up in its channel, `a` is not seen (hypotheses of
    `pushed_waiter_can_wake`) -/
example : ((runAll [] [.reg 1 "a", .try_ 1 "a" false, .block 1 false,
    .notify 1 "a"]).bind (get · 1)).map (fun st => (st.phase, st.buf, st.keys, st.seen)) =
    some (.blocked, true, ["a"], []) := by decide

/-- a push while the channel is full is accepted and leaves it full (`push_never_blocks`) -/
example : ((runAll [] [.reg 1 "a", .reg 1 "b", .notify 1 "a", .notify 1 "b",
    .notify 1 "a"]).bind (get · 1)).map (fun st => (st.buf, st.notified, st.woken)) =
    some (true, 3, 0) := by decide

/-- (d) timeout 0: the timer cannot fire -/
example : runAll [] [.reg 1 "a", .try_ 1 "a" false, .block 1 false, .timeout 1] = none := by decide

/-- ... with a timer it can, and the reply is null (hypotheses of `null_only_from_timer`) -/
example : ((runAll [] [.reg 1 "a", .try_ 1 "a" false, .block 1 true, .notify 1 "a",
    .timeout 1, .unreg 1 "a"]).bind (get · 1)).map (fun st => (st.phase, st.reg)) =
    some (.gotNull, []) := by decide

/-- the keys are tried in argument order: trying b first is rejected -/
example : runAll [] [.reg 1 "a", .reg 1 "b", .try_ 1 "b" true] = none := by decide

/-- blocking before all keys were tried is rejected -/
example : runAll [] [.reg 1 "a", .reg 1 "b", .try_ 1 "a" false, .block 1 true] = none := by decide

/-- unregistering while waiting is rejected; a push after `fin` is rejected -/
example : runAll [] [.reg 1 "a", .try_ 1 "a" false, .block 1 true, .unreg 1 "a"] = none := by decide
example : runAll [] [.reg 1 "a", .try_ 1 "a" true, .unreg 1 "a", .fin 1, .notify 1 "a"] = none := by
  decide

/-- a pop attempt that panics (key of another type): the call unwinds through its clean-up -/
example : runAll [] [.reg 1 "a", .reg 1 "b", .try_ 1 "a" false, .abort 1, .unreg 1 "a",
    .unreg 1 "b", .fin 1] = some [] := by decide

end NodisVerif.C18
