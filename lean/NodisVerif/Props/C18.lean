import NodisVerif.Model.Block
import NodisVerif.Proofs.BlockTrace
import NodisVerif.Proofs.BlockProgPush
import NodisVerif.Proofs.BlockProgHook
/-
  C18 — BLPOP/BRPOP: return immediately when a listed key has an element (first key in argument
  order), otherwise wait; a push to a listed key reaches the waiter (no missed wake-up), timeout 0
  waits for ever, null only from the timer; a push never fails or blocks because of waiters.

  Property theorems only, about the wake-up protocol `Model/Block.lean` (the transition system whose
  steps `list.go` reports: `blockingPop`, `addBlockKeys`, `notifyBlockingKey`, `removeBlockingKeys`).
  Reference notions (Proofs/BlockBasic.lean, BlockStep.lean, BlockTrace.lean):
    `runAll s es`   the fold of `step` over a trace (`= some s'` iff every step is allowed),
    `Reachable s`   `∃ es, runAll [] es = some s`,
    `evW e`         the waiter an event is about,
    `own w e`       e is an action of waiter w itself (everything about w except `notify`, which is
                    the action of a pushing client),
    `proj w es`     the actions of w in the trace es, in order,
    `pos ph`        the scan position of a phase (`registering` ↦ 0, `scan i` ↦ i, else none),
    `Returned ph`   ph is gotElem / gotNull / aborted (the call is unwinding),
    `failedTries w ks` = `ks.map (.try_ w · false)`,  `RoundStart w e` = e is `wake w` or a `reg w _`.
  Every theorem is about ALL reachable states / all traces: any number of waiters, keys, pushes.
  Helper lemmas: Proofs/BlockBasic (get/set, local step), BlockStep (inversion), BlockInv (the state
  invariant `WInv`), BlockTrace (the history invariants `NullInv`, `RoundInv`).
-/
namespace NodisVerif.C18
open NodisVerif.Block
open NodisVerif.Proofs.Block

/-- `runAll` is the model's own `run`, without the error report -/
theorem runAll_is_run (s s' : BState) (es : List Ev) (i : Nat) :
    run s es i = .ok s' ↔ runAll s es = some s' := run_ok_iff s s' es i

/-! ## 1. no missed push -/

/-- THE CORE. A waiter that sleeps with an empty channel has looked at every one of its keys, and
    found it empty, AFTER the last push to that key (`seen` is reset by every push): it sleeps only
    when it knows about every push. -/
theorem no_missed_push {s : BState} (hr : Reachable s) {w : W} {st : WSt} (hg : get s w = some st)
    (hp : st.phase = .blocked) (hb : st.buf = false) : ∀ k ∈ st.keys, k ∈ st.seen := by
  rcases (hr.winv hg).blockedSeen hp with h | h
  · simp [hb] at h
  · exact h

/-- the same without the ghost field, on the events alone: if after a trace from the empty state w
    sleeps with an empty channel, then for EVERY key k of w the trace contains a failed pop attempt
    of w on k after which no push to k was offered to w - there is no push w has not looked for -/
theorem no_missed_push_trace {es : List Ev} {s : BState} (h : runAll [] es = some s) {w : W}
    {st : WSt} (hg : get s w = some st) (hp : st.phase = .blocked) (hb : st.buf = false) :
    ∀ k ∈ st.keys, ∃ pre post, es = pre ++ .try_ w k false :: post ∧ Ev.notify w k ∉ post :=
  fun k hk => seenInv h hg k (no_missed_push ⟨es, h⟩ hg hp hb k hk)

/-- the same inside a round: at scan position i with an empty channel, the keys before position i
    have been seen empty after their last push -/
theorem no_missed_push_in_round {s : BState} (hr : Reachable s) {w : W} {st : WSt}
    (hg : get s w = some st) {i : Nat} (hp : st.phase = .scan i) (hb : st.buf = false) :
    ∀ k ∈ st.keys.take i, k ∈ st.seen := by
  rcases (hr.winv hg).scanSeen i hp with h | h
  · simp [hb] at h
  · exact h

/-- progress: a sleeping waiter with a key it has not seen since the last push is not stuck: the
    wake-up is in its channel, `wake` is enabled and starts a new round at position 0 -/
theorem pushed_waiter_can_wake {s : BState} (hr : Reachable s) {w : W} {st : WSt}
    (hg : get s w = some st) (hp : st.phase = .blocked) {k : Key} (hk : k ∈ st.keys)
    (hs : k ∉ st.seen) :
    ∃ s', step s (.wake w) = some s' ∧
      get s' w = some { st with phase := .scan 0, buf := false, woken := st.woken + 1 } := by
  have hb : st.buf = true := by
    cases hb : st.buf with
    | true => rfl
    | false => exact absurd (no_missed_push hr hg hp hb k hk) hs
  have hl := (lstep_wake (w := w)).2 ⟨st, rfl, hp, hb, rfl⟩
  refine ⟨_, by rw [step_eq]; simp only [evW, hg, hl]; rfl, ?_⟩
  simp [put, get_set_self]

/-! ## 2. a push never blocks -/

/-- Offering a wake-up to a registered waiter is always possible - whatever the channel holds,
    whatever the waiter is doing (no hypothesis on `buf`, `phase`; `s` need not even be reachable) -
    and it touches no other waiter. Afterwards the channel is full and the key is no longer `seen`. -/
theorem push_never_blocks {s : BState} {w : W} {st : WSt} (hg : get s w = some st) {k : Key}
    (hk : k ∈ st.reg) :
    ∃ s', step s (.notify w k) = some s' ∧
      get s' w = some { st with buf := true, seen := st.seen.filter (· != k),
                                notified := st.notified + 1 } ∧
      ∀ w', w' ≠ w → get s' w' = get s w' := by
  have hl := (lstep_notify (w := w)).2 ⟨st, rfl, hk, rfl⟩
  refine ⟨_, by rw [step_eq]; simp only [evW, hg, hl]; rfl, ?_, ?_⟩
  · simp [put, get_set_self]
  · intro w' hw'; simp [put, get_set_ne _ _ _ _ hw']

/-- after the push the waiter cannot sleep through it: its channel is full, the key is not `seen` -/
theorem push_is_noticed {s s' : BState} {w : W} {k : Key} (h : step s (.notify w k) = some s') :
    ∃ st', get s' w = some st' ∧ st'.buf = true ∧ k ∉ st'.seen := by
  obtain ⟨st, _, _, hr⟩ := lstep_notify.1 (step_local h)
  exact ⟨_, hr, rfl, by simp⟩

/-- for as long as the call has not returned, the waiter is registered for ALL its keys: a push to
    any of them can be (and, by `notifyBlockingKey`, is) offered to it -/
theorem push_reaches_waiting {s : BState} (hr : Reachable s) {w : W} {st : WSt}
    (hg : get s w = some st) (hp : ¬ Returned st.phase) {k : Key} (hk : k ∈ st.keys) :
    ∃ s', step s (.notify w k) = some s' := by
  have : st.reg = st.keys := by
    apply (hr.winv hg).regKeys
    revert hp; cases st.phase <;> simp [Returned, pos]
  obtain ⟨s', h, _⟩ := push_never_blocks hg (this ▸ hk)
  exact ⟨s', h⟩

/-! ## 3. null only from the timer -/

/-- the timer fires only on a sleeping waiter whose timer is armed -/
theorem timeout_needs_armed_timer {s s' : BState} {w : W} (h : step s (.timeout w) = some s') :
    ∃ st, get s w = some st ∧ st.phase = .blocked ∧ st.timed = true ∧
      get s' w = some { st with phase := .gotNull } := by
  obtain ⟨st, hg, hp, ht, hr⟩ := lstep_timeout.1 (step_local h)
  exact ⟨st, hg, hp, ht, hr⟩

/-- a waiter enters `gotNull` only through `timeout` -/
theorem null_step {s s' : BState} {e : Ev} (h : step s e = some s') {w : W} {st' : WSt}
    (hg : get s' w = some st') (hp : st'.phase = .gotNull) :
    e = .timeout w ∨ ∃ st, get s w = some st ∧ st.phase = .gotNull := by
  by_cases hw : w = evW e
  · subst hw
    have hl := step_local h
    rw [hg] at hl
    cases e with
    | reg w k => obtain ⟨h1, hr⟩ := lstep_reg.1 hl; cases hr; simp [h1] at hp
    | try_ w k got =>
      obtain ⟨st, i, _, _, _, hr⟩ := lstep_try.1 hl
      cases got <;> (simp at hr; subst hr; simp at hp)
    | block w t => obtain ⟨st, _, _, hr⟩ := lstep_block.1 hl; cases hr; simp at hp
    | wake w => obtain ⟨st, _, _, _, hr⟩ := lstep_wake.1 hl; cases hr; simp at hp
    | timeout w => exact Or.inl rfl
    | notify w k =>
      obtain ⟨st, h0, _, hr⟩ := lstep_notify.1 hl; cases hr; exact Or.inr ⟨st, h0, hp⟩
    | abort w => obtain ⟨st, _, _, hr⟩ := lstep_abort.1 hl; cases hr; simp at hp
    | unreg w k =>
      obtain ⟨st, h0, _, hr⟩ := lstep_unreg.1 hl; cases hr; exact Or.inr ⟨st, h0, hp⟩
    | fin w => obtain ⟨st, _, _, hr⟩ := lstep_fin.1 hl; cases hr
  · rw [step_frame h hw] at hg; exact Or.inr ⟨st', hg, hp⟩

/-- On traces: if after a trace from the empty state waiter w has returned null, the trace contains
    `timeout w`, preceded by `block w true` (timer armed, i.e. timeout > 0) with no action of w in
    between (only pushes and other waiters); after the timeout w only unregisters. -/
theorem null_only_from_timer {es : List Ev} {s : BState} (h : runAll [] es = some s) {w : W}
    {st : WSt} (hg : get s w = some st) (hp : st.phase = .gotNull) :
    ∃ pre mid post, es = pre ++ .block w true :: (mid ++ .timeout w :: post) ∧
      (∀ e ∈ mid, own w e = false) ∧ (∀ e ∈ post, own w e = true → ∃ k, e = .unreg w k) :=
  (nullInv h hg).gotNull hp

/-- timeout 0 waits for ever: after `block w false`, for as long as w does nothing itself (pushes to
    its keys and other waiters may do anything), the timer cannot fire -/
theorem timeout_zero_waits_forever {pre mid : List Ev} {w : W} {s : BState}
    (h : runAll [] (pre ++ .block w false :: mid) = some s) (hm : ∀ e ∈ mid, own w e = false) :
    step s (.timeout w) = none := by
  cases ht : step s (.timeout w) with
  | none => rfl
  | some s' =>
    exfalso
    obtain ⟨st, hg, hp, htm, _⟩ := timeout_needs_armed_timer ht
    obtain ⟨pre', mid', he, hm'⟩ := (nullInv h hg).blocked hp
    have := last_own_unique (w := w) he (by simp [own, evW]) (by simp [own, evW]) hm hm'
    simp [htm] at this

/-! ## 4. keys are tried in argument order, the call returns at the first success -/

/-- a pop attempt is only possible on the key at the current scan position of `keys` (registration
    order = argument order); a failure moves to the next position, a success returns that key -/
theorem try_in_argument_order {s s' : BState} {w : W} {k : Key} {got : Bool}
    (h : step s (.try_ w k got) = some s') :
    ∃ st i, get s w = some st ∧ pos st.phase = some i ∧ st.keys[i]? = some k ∧
      get s' w = some (if got then { st with phase := .gotElem k }
                       else { st with phase := .scan (i + 1), seen := k :: st.seen }) := by
  obtain ⟨st, i, hg, hp, hk, hr⟩ := lstep_try.1 (step_local h)
  exact ⟨st, i, hg, hp, hk, hr⟩

/-- the waiter goes to sleep only from the position after the last key -/
theorem block_after_all_tried {s s' : BState} {w : W} {t : Bool}
    (h : step s (.block w t) = some s') :
    ∃ st, get s w = some st ∧ st.phase = .scan st.keys.length ∧
      get s' w = some { st with phase := .blocked, timed := t } := by
  obtain ⟨st, hg, hp, hr⟩ := lstep_block.1 (step_local h)
  exact ⟨st, hg, hp, hr⟩

/-- history of a round: at scan position i, the actions of w since the round started (its last `reg`,
    or its last `wake`) are exactly failed tries on keys[0], …, keys[i-1], in this order -/
theorem round_history {es : List Ev} {s : BState} (h : runAll [] es = some s) {w : W} {st : WSt}
    (hg : get s w = some st) {i : Nat} (hp : pos st.phase = some i) :
    ∃ pre e0, proj w es = pre ++ e0 :: failedTries w (st.keys.take i) ∧ RoundStart w e0 :=
  (roundInv h hg).scanning i hp

/-- a sleeping waiter has tried ALL its keys, in order, without success, in the round before it
    blocked -/
theorem blocked_history {es : List Ev} {s : BState} (h : runAll [] es = some s) {w : W} {st : WSt}
    (hg : get s w = some st) (hp : st.phase = .blocked) :
    ∃ pre e0, proj w es = pre ++ e0 :: (failedTries w st.keys ++ [.block w st.timed]) ∧
      RoundStart w e0 :=
  (roundInv h hg).blocked hp

/-- the call returns at the FIRST successful try of the round: if w has returned an element of k, then
    k is the key at some position i, and in that round the tries on keys[0..i-1] all failed, the try on
    k succeeded, and w has done nothing since but unregister -/
theorem returns_at_first_success {es : List Ev} {s : BState} (h : runAll [] es = some s) {w : W}
    {st : WSt} (hg : get s w = some st) {k : Key} (hp : st.phase = .gotElem k) :
    ∃ pre e0 i post,
      proj w es = pre ++ e0 :: (failedTries w (st.keys.take i) ++ .try_ w k true :: post) ∧
      RoundStart w e0 ∧ st.keys[i]? = some k ∧ ∀ e ∈ post, ∃ k', e = .unreg w k' :=
  (roundInv h hg).gotElem k hp

/-- a call that was aborted by a panicking pop attempt: the round had failed on keys[0..i-1]; w has
    done nothing since but unregister -/
theorem abort_history {es : List Ev} {s : BState} (h : runAll [] es = some s) {w : W}
    {st : WSt} (hg : get s w = some st) (hp : st.phase = .aborted) :
    ∃ pre e0 i post,
      proj w es = pre ++ e0 :: (failedTries w (st.keys.take i) ++ .abort w :: post) ∧
      RoundStart w e0 ∧ ∀ e ∈ post, ∃ k', e = .unreg w k' :=
  (roundInv h hg).aborted hp

/-! ## 5. no try before the registration is complete -/

/-- a pop attempt of a waiter that has not registered is rejected (the old missed-wake-up race) -/
theorem try_unregistered_rejected {s : BState} {w : W} (hg : get s w = none) (k : Key)
    (got : Bool) : step s (.try_ w k got) = none := by
  rw [step_eq]; simp [evW, hg, lstep]

/-- every key tried is one the waiter is (still) registered for -/
theorem tried_key_registered {s s' : BState} (hr : Reachable s) {w : W} {k : Key} {got : Bool}
    (h : step s (.try_ w k got) = some s') :
    ∃ st, get s w = some st ∧ k ∈ st.keys ∧ k ∈ st.reg := by
  obtain ⟨st, i, hg, hp, hk, _⟩ := try_in_argument_order h
  have hm : k ∈ st.keys := List.mem_of_getElem? hk
  have : st.reg = st.keys := (hr.winv hg).regKeys (Or.inl (by simp [hp]))
  exact ⟨st, hg, hm, this ▸ hm⟩

/-- registration strictly precedes the first look at the keys: once w has made a pop attempt, a
    further `reg` of w is rejected (for as long as that waiter exists) -/
theorem reg_rejected_after_try {s0 s : BState} {pre post : List Ev} {w : W} {k : Key} {got : Bool}
    (h : runAll s0 (pre ++ .try_ w k got :: post) = some s) (hfin : Ev.fin w ∉ post) (k' : Key) :
    step s (.reg w k') = none := by
  rw [runAll_append] at h
  cases h1 : runAll s0 pre with
  | none => simp [h1] at h
  | some s1 =>
    simp only [h1, Option.bind_some, runAll] at h
    cases h2 : step s1 (.try_ w k got) with
    | none => simp [h2] at h
    | some s2 =>
      simp only [h2, Option.bind_some] at h
      obtain ⟨st, i, _, _, _, hg2⟩ := try_in_argument_order h2
      have : ∃ st, get s2 w = some st ∧ st.phase ≠ .registering :=
        ⟨_, hg2, by cases got <;> simp⟩
      obtain ⟨st', hg', hp'⟩ := started_persists h this hfin
      rw [step_eq]
      simp [evW, hg', lstep, hp']

/-! ## 6. token conservation: the trace check's `stepLoose` accepts every real run -/

/-- a wake-up consumed was offered before; a wake-up in the channel was offered and not consumed -/
theorem tokens_conserved {s : BState} (hr : Reachable s) {w : W} {st : WSt}
    (hg : get s w = some st) : st.woken ≤ st.notified ∧ (st.buf = true → st.woken < st.notified) :=
  ⟨(hr.winv hg).tok_le, (hr.winv hg).tok_buf⟩

/-- every step of the precise semantics is a step of the relation used to validate traces -/
theorem step_is_stepLoose {s s' : BState} {e : Ev} (hr : Reachable s) (h : step s e = some s') :
    stepLoose s e = some s' := step_le_stepLoose hr h

/-- hence every run of the precise semantics is accepted by the trace check -/
theorem run_is_loose_run {es : List Ev} {s : BState} (h : runAll [] es = some s) :
    runAllLoose [] es = some s := runAll_le_runAllLoose ⟨[], rfl⟩ h

/-! ## 7. unregistering -/

/-- `unreg` only once the call has produced its result (element or null) or has been aborted by a
    panicking pop attempt (the deferred `removeBlockingKeys`) -/
theorem unreg_only_after_return {s s' : BState} {w : W} {k : Key}
    (h : step s (.unreg w k) = some s') :
    ∃ st, get s w = some st ∧ Returned st.phase ∧
      get s' w = some { st with reg := st.reg.filter (· != k) } := by
  obtain ⟨st, hg, hp, hr⟩ := lstep_unreg.1 (step_local h)
  exact ⟨st, hg, hp, hr⟩

/-- `fin` only when unregistered from everything; the waiter is gone afterwards, nobody else is
    touched, and a push can no longer offer it anything -/
theorem fin_only_when_unregistered {s s' : BState} {w : W} (h : step s (.fin w) = some s') :
    ∃ st, get s w = some st ∧ st.reg = [] ∧ get s' w = none ∧
      (∀ w', w' ≠ w → get s' w' = get s w') ∧ ∀ k, step s' (.notify w k) = none := by
  obtain ⟨st, hg, hp, hr⟩ := lstep_fin.1 (step_local h)
  refine ⟨st, hg, hp, hr, fun w' hw' => step_frame h hw', ?_⟩
  have hr' : get s' w = none := hr
  intro k; rw [step_eq]; simp [evW, hr', lstep]

/-- in a reachable state `fin` happens only after the call has returned (or aborted) -/
theorem fin_only_after_return {s s' : BState} (hr : Reachable s) {w : W}
    (h : step s (.fin w) = some s') : ∃ st, get s w = some st ∧ Returned st.phase := by
  obtain ⟨st, hg, hp, _⟩ := fin_only_when_unregistered h
  refine ⟨st, hg, ?_⟩
  have hi := hr.winv hg
  have hne : st.reg ≠ st.keys := by rw [hp]; exact fun e => hi.keysNe e.symm
  have := mt hi.regKeys hne
  revert this; cases st.phase <;> simp [Returned, pos]

/-- a push never touches the channel of a waiter that has left (the old code's send on a closed
    channel): after `fin w`, until somebody registers under the name w again, `notify w _` is rejected -/
theorem no_notify_after_fin {s0 s1 s : BState} {w : W} {post : List Ev}
    (h0 : step s0 (.fin w) = some s1) (h : runAll s1 post = some s) (hreg : ∀ k, Ev.reg w k ∉ post)
    (k : Key) : step s (.notify w k) = none := by
  obtain ⟨_, _, _, hgone, _⟩ := fin_only_when_unregistered h0
  have := gone_persists h hgone hreg
  rw [step_eq]; simp [evW, this, lstep]

/-! ## 8. scenarios (non-vacuity) -/

/-- (a) the OLD missed-wake-up schedule - looking at the key before being registered - is rejected -/
example : runAll [] [.try_ 1 "a" false, .reg 1 "a", .block 1 false] = none := by decide

/-- ... also when the waiter is registered for one key but looks before registering the second -/
example : runAll [] [.reg 1 "a", .try_ 1 "a" false, .reg 1 "b"] = none := by decide

/-- (b) a full accepted run: BLPOP a b 1 - both empty, sleeps, a push to b wakes it, it rescans in
    argument order, pops b, unregisters, leaves -/
example : runAll [] [.reg 1 "a", .reg 1 "b", .try_ 1 "a" false, .try_ 1 "b" false, .block 1 true,
    .notify 1 "b", .wake 1, .try_ 1 "a" false, .try_ 1 "b" true, .unreg 1 "a", .unreg 1 "b",
    .fin 1] = some [] := by decide

/-- (c) two waiters on key a, one push: both are offered a wake-up, waiter 2 takes the element,
    waiter 1 finds it gone and goes back to sleep - with an empty channel and `a` seen again: the
    hypotheses of `no_missed_push` hold in a reachable state -/
example : ((runAll [] [.reg 1 "a", .reg 2 "a", .try_ 1 "a" false, .try_ 2 "a" false, .block 1 true,
    .block 2 false, .notify 2 "a", .notify 1 "a", .wake 2, .wake 1, .try_ 2 "a" true,
    .try_ 1 "a" false, .block 1 true]).bind (get · 1)) =
    some { keys := ["a"], reg := ["a"], buf := false, seen := ["a"], phase := .blocked,
           timed := true, notified := 1, woken := 1 } := by decide

/-- ... and while it sleeps with the wake-up in its channel, `a` is not seen (hypotheses of
    `pushed_waiter_can_wake`) -/
example : ((runAll [] [.reg 1 "a", .try_ 1 "a" false, .block 1 false,
    .notify 1 "a"]).bind (get · 1)).map (fun st => (st.phase, st.buf, st.keys, st.seen)) =
    some (.blocked, true, ["a"], []) := by decide

/-- a push while the channel is full is accepted and leaves it full (`push_never_blocks`) -/
example : ((runAll [] [.reg 1 "a", .reg 1 "b", .notify 1 "a", .notify 1 "b",
    .notify 1 "a"]).bind (get · 1)).map (fun st => (st.buf, st.notified, st.woken)) =
    some (true, 3, 0) := by decide

/-- (d) timeout 0: the timer cannot fire -/
example : runAll [] [.reg 1 "a", .try_ 1 "a" false, .block 1 false, .timeout 1] = none := by decide

/-- ... with a timer it can, and the reply is null (hypotheses of `null_only_from_timer`) -/
example : ((runAll [] [.reg 1 "a", .try_ 1 "a" false, .block 1 true, .notify 1 "a",
    .timeout 1, .unreg 1 "a"]).bind (get · 1)).map (fun st => (st.phase, st.reg)) =
    some (.gotNull, []) := by decide

/-- the keys are tried in argument order: trying b first is rejected -/
example : runAll [] [.reg 1 "a", .reg 1 "b", .try_ 1 "b" true] = none := by decide

/-- blocking before all keys were tried is rejected -/
example : runAll [] [.reg 1 "a", .reg 1 "b", .try_ 1 "a" false, .block 1 true] = none := by decide

/-- unregistering while waiting is rejected; a push after `fin` is rejected -/
example : runAll [] [.reg 1 "a", .try_ 1 "a" false, .block 1 true, .unreg 1 "a"] = none := by decide
example : runAll [] [.reg 1 "a", .try_ 1 "a" true, .unreg 1 "a", .fin 1, .notify 1 "a"] = none := by
  decide

/-- a pop attempt that panics (key of another type): the call unwinds through its clean-up -/
example : runAll [] [.reg 1 "a", .reg 1 "b", .try_ 1 "a" false, .abort 1, .unreg 1 "a",
    .unreg 1 "b", .fin 1] = some [] := by decide

/-! ## 9. the CODE of the blocking pops (`Model/BlockProg.lean`) refines the protocol

  `BlockProg` is the program: pcs inside `blockingPop` / `addBlockKeys` / `removeBlockingKeys` / `notifyBlockingKey`
  and the push around it, one transition per mutex / channel operation or per loop body inside a critical section,
  any number of threads, any schedule (`Reach σ es`: the system state σ is reached from the initial state by some
  schedule, `es` are the events emitted on the way; `exec σ sched` is the same for a schedule given as a list).
  Every event is emitted by the transition that contains its verifTrace call; `notify` and `wake` are the labels of
  the channel operations next to their hooks (send / receive).  With this labelling every run is a run of the precise
  protocol semantics `Block.step`; `stepLoose` is needed only for RECORDED traces, where the hook of a `notify` is
  called before its send and the hook of a `wake` after its receive, so that the report order of those two kinds of
  events (and of no other) can differ from the order of the channel operations.
  Helper lemmas: Proofs/BlockProgBase (simulation relation `Inv`, frame lemma), BlockProgSimA/B/C (one lemma per pc,
  `reach_sim`), BlockProgCor (which pc emits which event, transitions that are never disabled). -/

section Prog
open NodisVerif.BlockProg
open NodisVerif.Proofs.BlockProg

/-- THE REFINEMENT.  For every schedule - any number of blocking pops and pushes, any interleaving, any timer firing,
    panicking pops included - the emitted event sequence is a run of `Block.step` from the empty protocol state, and
    the final states are related by the simulation relation `Inv` (protocol state of every thread by pc, channel =
    `buf`, registry = `reg`, lock ownership by pc). -/
theorem blockprog_refines_block {σ : Sys} {es : List Ev} (h : Reach σ es) :
    ∃ bs, runAll [] es = some bs ∧ Inv σ bs := by
  obtain ⟨bs, h1, h2, _⟩ := reach_sim h
  exact ⟨bs, h1, h2⟩

/-- the same for a schedule given as a list of (thread, choice); such a run is also accepted by the trace check -/
theorem blockprog_exec_refines_block {sched : List (Tid × Choice)} {σ : Sys} {es : List Ev}
    (h : exec {} sched = some (σ, es)) :
    ∃ bs, runAll [] es = some bs ∧ runAllLoose [] es = some bs ∧ Inv σ bs := by
  have hr : Reach σ es := by simpa using exec_reach Reach.init h
  obtain ⟨bs, h1, h2⟩ := blockprog_refines_block hr
  exact ⟨bs, h1, run_is_loose_run h1, h2⟩

/-- what the relation says about a waiter between its registration and its unregistration (pcs r3 ... u1): it exists
    in the protocol with exactly its argument keys, registered for all of them, `buf` = its channel is full -/
theorem blockprog_waiter_related {σ : Sys} {es : List Ev} (h : Reach σ es) {t : Tid}
    (hb : isBody (σ.thr t).pc = true) :
    ∃ bs st, runAll [] es = some bs ∧ get bs t = some st ∧ st.keys = (σ.thr t).keys ∧
      st.reg = (σ.thr t).keys ∧ st.buf = σ.sh.full t ∧ (σ.thr t).keys ≠ [] := by
  obtain ⟨bs, hr, hI⟩ := blockprog_refines_block h
  have hP := hI.prel t
  simp only [PRel] at hP
  cases hpc : (σ.thr t).pc <;> simp only [hpc, isBody] at hb hP <;> try (simp at hb; done)
  all_goals
    first
    | (obtain ⟨_, hne, st, hs, hk1, hk2, hbf, _⟩ := hP; exact ⟨bs, st, hr, hs, hk1, hk2, hbf, hne⟩)
    | (obtain ⟨hne, st, hs, hk1, hk2, hbf, _⟩ := hP; exact ⟨bs, st, hr, hs, hk1, hk2, hbf, hne⟩)

/-! ### transfer of the protocol theorems to program states -/

/-- NO MISSED WAKE-UP, on program states (transfer of `no_missed_push`).  A thread that is at the `select` of
    blockingPop (pc w1) with an empty channel has, for EVERY one of its keys k, popped from k without success after
    which no push to k has sent to its channel: there is no push it has not looked for.  (With a full channel the
    receive is enabled: `blockprog_full_channel_wakes`.) -/
theorem blockprog_no_missed_wakeup {σ : Sys} {es : List Ev} (h : Reach σ es) {t : Tid}
    (hpc : (σ.thr t).pc = .w1) (hb : σ.sh.full t = false) :
    ∀ k ∈ (σ.thr t).keys, ∃ pre post, es = pre ++ .try_ t k false :: post ∧ Ev.notify t k ∉ post := by
  obtain ⟨bs, hr, hI⟩ := blockprog_refines_block h
  have hP := hI.prel t
  simp only [PRel, hpc] at hP
  obtain ⟨_, st, hs, hk1, _, hbf, hp, _⟩ := hP
  intro k hk
  exact no_missed_push_trace hr hs hp (by rw [hbf, hb]) k (by rw [hk1]; exact hk)

/-- NO MISSED WAKE-UP, ON PROGRAM STATES, FROM THE PUSH SIDE (no protocol event in the statement).  In every reachable
    state, a thread at the `select` of blockingPop with an empty channel sleeps only on EMPTY lists - except for a list
    whose push is still on its way to this very channel: a push thread p with that key that has appended and is about
    to take the registry lock (p2), has it and is about to read the cList (p3), or is in its ForRange with t's channel
    still ahead (p4, t ∈ todo).  Such a push cannot block (`blockprog_push_never_blocks`,
    `blockprog_push_waits_only_for_running_holder`), so the wake-up arrives.  The invariant behind it (`Seen`, for every
    key the thread has already looked at in the current round, at every pc of `look` and of the wait) is proved by
    induction over the schedule; it needs that no command other than a push makes an empty list non-empty (`Call.env`). -/
theorem blockprog_sleeper_has_seen_every_push {σ : Sys} {es : List Ev} (h : Reach σ es) {t : Tid}
    (hpc : (σ.thr t).pc = .w1) (hb : σ.sh.full t = false) :
    ∀ k ∈ (σ.thr t).keys, σ.sh.lists k = 0 ∨
      ∃ p, (σ.thr p).key = k ∧ ((σ.thr p).pc = .p2 ∨ (σ.thr p).pc = .p3 ∨
        ((σ.thr p).pc = .p4 ∧ t ∈ (σ.thr p).todo)) := by
  obtain ⟨hS, hX⟩ := reach_seen h
  intro k hk
  have hi := hX t
  simp only [idxOk, hpc] at hi
  have : k ∈ looked (σ.thr t) := by
    simp only [looked, hpc]
    rw [List.take_of_length_le hi]; exact hk
  exact hS t k this hb

/-- the same inside a round of `look` and just before the wait: the keys already tried in this round (argument
    positions below the loop index) -/
theorem blockprog_looker_has_seen_every_push {σ : Sys} {es : List Ev} (h : Reach σ es) {t : Tid}
    (hpc : (σ.thr t).pc = .l1 ∨ (σ.thr t).pc = .w0) (hb : σ.sh.full t = false) :
    ∀ k ∈ (σ.thr t).keys.take (σ.thr t).i, σ.sh.lists k = 0 ∨ Pending σ t k := by
  obtain ⟨hS, _⟩ := reach_seen h
  intro k hk
  refine hS t k ?_ hb
  rcases hpc with hpc | hpc <;> simpa [looked, hpc] using hk

/-- a push round starts with the WHOLE cList of its key (p3), sends to its head and drops exactly the head (p4:
    `notify_origin`), and ends only when nothing is left: every channel registered for the key when the round begins
    is sent to -/
theorem blockprog_round_covers_registry {σ σ' : Sys} {t : Tid} {ch : Choice} {e : Option Ev}
    (h : σ.step t ch = some (σ', e)) :
    ((σ.thr t).pc = .p3 → (σ'.thr t).todo = σ.sh.regOf (σ.thr t).key ∨ σ.sh.regOf (σ.thr t).key = []) ∧
    ((σ.thr t).pc = .p4 → (σ'.thr t).pc = .p5 → (σ'.thr t).todo = []) := by
  unfold Sys.step at h
  cases hs : tstep σ.sh t (σ.thr t) ch with
  | none => simp [hs] at h
  | some r =>
    obtain ⟨s', l', e'⟩ := r
    simp only [hs, Option.some.injEq, Prod.mk.injEq] at h
    obtain ⟨rfl, rfl⟩ := h
    constructor
    · intro hpc
      simp only [tstep, hpc] at hs
      cases hr : σ.sh.registry (σ.thr t).key with
      | none => right; simp [Shared.regOf, hr]
      | some cl =>
        simp only [hr, Option.some.injEq, Prod.mk.injEq] at hs
        obtain ⟨_, rfl, _⟩ := hs
        left; simp [Shared.regOf, hr]
    · intro hpc hp5
      simp only [tstep, hpc] at hs
      cases htd : (σ.thr t).todo with
      | nil =>
        simp only [htd, Option.some.injEq, Prod.mk.injEq] at hs
        obtain ⟨_, rfl, _⟩ := hs
        simpa using htd
      | cons c rest =>
        simp only [htd, Option.some.injEq, Prod.mk.injEq] at hs
        obtain ⟨_, rfl, _⟩ := hs
        simp only [upd_self] at hp5 ⊢
        split at hp5
        · rename_i he; simpa using he
        · simp at hp5

/-- ... and a sleeping thread whose channel is full is not stuck: the receive is enabled, emits `wake` and starts a new
    look at ALL keys (pc l0) -/
theorem blockprog_full_channel_wakes (σ : Sys) (t : Tid) (hpc : (σ.thr t).pc = .w1) (hb : σ.sh.full t = true) :
    ∃ σ', σ.step t {} = some (σ', some (.wake t)) ∧ (σ'.thr t).pc = .l0 ∧ σ'.sh.full t = false := by
  refine ⟨_, by simp [Sys.step, tstep, hpc, hb]; rfl, ?_, ?_⟩ <;> simp

/-- A PUSH NEVER BLOCKS (transfer of `push_never_blocks`): once a push has the registry lock, every one of its steps -
    the look-up, each non-blocking send, the end of the round, the RUnlock, the commit - is enabled in EVERY state,
    whatever the channels hold and whatever the waiters are doing -/
theorem blockprog_push_never_blocks (σ : Sys) (t : Tid) (ch : Choice)
    (hpc : (σ.thr t).pc = .p3 ∨ (σ.thr t).pc = .p4 ∨ (σ.thr t).pc = .p5 ∨ (σ.thr t).pc = .p6 ∨
      (σ.thr t).pc = .p7) : ∃ r, σ.step t ch = some r := by
  obtain ⟨⟨s', l', e⟩, hr⟩ := push_tail_enabled σ.sh t (σ.thr t) ch hpc
  exact ⟨_, step_of_tstep hr⟩

/-- NO LOCK IS HELD WHILE BLOCKED: in every reachable state the thread that holds the registry lock - exclusively
    (a waiter registering or unregistering) or shared (a push notifying) - can take its next step, whatever the
    scheduler chooses.  In particular the sends of a push happen with the lock held shared and cannot block. -/
theorem blockprog_lock_holder_never_blocked {σ : Sys} {es : List Ev} (h : Reach σ es) {t : Tid}
    (hh : σ.sh.bmu.writer = some t ∨ t ∈ σ.sh.bmu.readers) (ch : Choice) : ∃ r, σ.step t ch = some r := by
  obtain ⟨bs, _, hI⟩ := blockprog_refines_block h
  have hL := hI.lrel t
  have : holdsW (σ.thr t).pc = true ∨ holdsR (σ.thr t).pc = true :=
    hh.elim (fun h => Or.inl (hL.1.1 h)) (fun h => Or.inr (hL.2.1 h))
  obtain ⟨⟨s', l', e⟩, hr⟩ := holder_enabled σ.sh t (σ.thr t) ch this
  exact ⟨_, step_of_tstep hr⟩

/-- hence the only thing a push that holds its key waits for is the registry lock (pc p2), and then the lock is held
    exclusively by a thread that is not blocked -/
theorem blockprog_push_waits_only_for_running_holder {σ : Sys} {es : List Ev} (h : Reach σ es) {t : Tid}
    (hpc : (σ.thr t).pc = .p2) (ch : Choice) :
    (∃ r, σ.step t ch = some r) ∨
      ∃ w, σ.sh.bmu.writer = some w ∧ ∀ ch', ∃ r, σ.step w ch' = some r := by
  cases hw : σ.sh.bmu.writer with
  | none => exact Or.inl ⟨_, by simp [Sys.step, tstep, hpc, Mu.canRLock, hw]; rfl⟩
  | some w => exact Or.inr ⟨w, rfl, fun ch' => blockprog_lock_holder_never_blocked h (Or.inl hw) ch'⟩

/-- the registry lock is exclusive: a writer excludes every reader (and `Inv.lrel`: the writer / the readers are
    exactly the threads at the pcs of the critical sections) -/
theorem blockprog_registry_lock_exclusive {σ : Sys} {es : List Ev} (h : Reach σ es) {w : Tid}
    (hw : σ.sh.bmu.writer = some w) : σ.sh.bmu.readers = [] ∧ holdsW (σ.thr w).pc = true ∧
      ∀ t, holdsW (σ.thr t).pc = true → t = w := by
  obtain ⟨bs, _, hI⟩ := blockprog_refines_block h
  refine ⟨hI.excl (by simp [hw]), (hI.lrel w).1.1 hw, fun t ht => ?_⟩
  have := (hI.lrel t).1.2 ht
  rw [hw] at this; exact (Option.some.inj this).symm

/-- NULL ONLY FROM THE TIMER (transfer of `null_only_from_timer`): `timeout` is emitted only by the thread itself,
    at its `select`, and only when its timeout is positive ... -/
theorem blockprog_timeout_needs_timer {σ σ' : Sys} {t w : Tid} {ch : Choice}
    (h : σ.step t ch = some (σ', some (.timeout w))) :
    w = t ∧ (σ.thr t).pc = .w1 ∧ 0 < (σ.thr t).tmo := by
  unfold Sys.step at h
  cases hs : tstep σ.sh t (σ.thr t) ch with
  | none => simp [hs] at h
  | some r =>
    obtain ⟨s', l', e⟩ := r
    simp only [hs, Option.some.injEq, Prod.mk.injEq] at h
    obtain ⟨_, rfl⟩ := h
    obtain ⟨h1, h2, h3, _⟩ := timeout_origin hs
    exact ⟨h1, h2, h3⟩

/-- ... and a call that is unwinding (pcs u1, u2, u3) without an element and without a panic - i.e. is about to return
    null - either is the non-waiting form (timeout < 0, inside EXEC) or had a timer armed (timeout > 0): with timeout
    0 a call never returns null -/
theorem blockprog_null_only_with_timer {σ : Sys} {es : List Ev} (h : Reach σ es) {t : Tid}
    (hpc : (σ.thr t).pc = .u1 ∨ (σ.thr t).pc = .u2 ∨ (σ.thr t).pc = .u3)
    (hf : (σ.thr t).found = false) (hp : (σ.thr t).panicking = false) (ht : 0 ≤ (σ.thr t).tmo) :
    0 < (σ.thr t).tmo := by
  obtain ⟨_, _, _, hF⟩ := reach_sim h
  have := hF t
  rcases hpc with hpc | hpc | hpc <;> (simp only [flagsOk, hpc] at this; exact this hf hp ht)

/-- TIMEOUT 0 WAITS FOR EVER (transfer of `timeout_zero_waits_forever`): at the `select` with timeout 0 the only
    enabled transition is the receive of a wake-up; with an empty channel the thread cannot move, whatever the
    scheduler chooses -/
theorem blockprog_timeout_zero_waits_forever (σ : Sys) (t : Tid) (hpc : (σ.thr t).pc = .w1)
    (h0 : (σ.thr t).tmo = 0) (ch : Choice) :
    (σ.sh.full t = false → σ.step t ch = none) ∧
      ∀ σ' e, σ.step t ch = some (σ', e) → e = some (.wake t) := by
  constructor
  · intro hb
    simp [Sys.step, tstep, hpc, h0, hb]
  · intro σ' e h
    simp only [Sys.step, tstep, hpc, h0] at h
    split at h
    · simp at h
    · rename_i s' l' e' heq
      simp only [Option.some.injEq, Prod.mk.injEq] at h
      obtain ⟨_, rfl⟩ := h
      split at heq
      · simp at heq
      · split at heq
        · simp only [Option.some.injEq, Prod.mk.injEq] at heq; exact heq.2.2.symm
        · simp at heq

/-- ... on traces: after `block t false` the protocol rejects `timeout t` for as long as t does nothing itself, and
    every program run is a protocol run, so no schedule emits it -/
theorem blockprog_no_timeout_after_block_zero {σ σ' : Sys} {pre mid : List Ev} {t t' : Tid} {ch : Choice}
    (h : Reach σ (pre ++ .block t false :: mid)) (hm : ∀ e ∈ mid, own t e = false) :
    σ.step t' ch ≠ some (σ', some (.timeout t)) := by
  intro hs
  obtain ⟨bs, hr, _⟩ := blockprog_refines_block h
  obtain ⟨bs', hr', _⟩ := blockprog_refines_block (Reach.step h hs)
  have h0 := timeout_zero_waits_forever hr hm
  simp only [Option.toList_some] at hr'
  rw [runAll_snoc, hr] at hr'
  simp only [Option.bind_some] at hr'
  rw [h0] at hr'; cases hr'

/-- KEYS ARE TRIED IN ARGUMENT ORDER (transfer of `try_in_argument_order`): `try` is emitted only by the pop inside
    `look`, on the key at the loop index (which `look` starts at 0 and a failure advances by one), the key is not held
    by a push, and the outcome is the one the list dictates: success iff the list has an element -/
theorem blockprog_try_in_argument_order {σ σ' : Sys} {t w : Tid} {ch : Choice} {k : Key} {got : Bool}
    (h : σ.step t ch = some (σ', some (.try_ w k got))) :
    w = t ∧ (σ.thr t).pc = .l1 ∧ (σ.thr t).keys[(σ.thr t).i]? = some k ∧ σ.sh.locked k = none ∧
      got = decide (0 < σ.sh.lists k) ∧ (got = false → (σ'.thr t).i = (σ.thr t).i + 1) := by
  unfold Sys.step at h
  cases hs : tstep σ.sh t (σ.thr t) ch with
  | none => simp [hs] at h
  | some r =>
    obtain ⟨s', l', e⟩ := r
    simp only [hs, Option.some.injEq, Prod.mk.injEq] at h
    obtain ⟨rfl, rfl⟩ := h
    obtain ⟨h1, h2, h3, h4, _, h6, h7⟩ := try_origin hs
    exact ⟨h1, h2, h3, h4, h6, by simpa using h7⟩

/-- TOKENS ARE CONSERVED (transfer of `tokens_conserved`): the protocol state reached by the emitted events counts,
    for every waiter, at least as many wake-ups offered as consumed, and a FULL CHANNEL of a waiter between registration
    and unregistration holds a wake-up that was offered and not consumed -/
theorem blockprog_tokens_conserved {σ : Sys} {es : List Ev} (h : Reach σ es) :
    ∃ bs, runAll [] es = some bs ∧
      (∀ t st, get bs t = some st → st.woken ≤ st.notified) ∧
      ∀ t, isBody (σ.thr t).pc = true → σ.sh.full t = true →
        ∃ st, get bs t = some st ∧ st.woken < st.notified := by
  obtain ⟨bs, hr, _⟩ := blockprog_refines_block h
  refine ⟨bs, hr, fun t st hg => (tokens_conserved ⟨es, hr⟩ hg).1, fun t hb hf => ?_⟩
  obtain ⟨bs', st, hr', hs, _, _, hbf, _⟩ := blockprog_waiter_related h hb
  rw [hr] at hr'; cases hr'
  exact ⟨st, hs, (tokens_conserved ⟨es, hr⟩ hs).2 (by rw [hbf, hf])⟩

/-! ### unregistration on every exit path -/

/-- a blocking pop, once started, stays inside blockingPop until the `Unlock` at the end of its deferred
    removeBlockingKeys (pc u3): whichever way `look` and the wait end - element, timeout, non-waiting null, PANIC of
    a pop - the thread goes through u1, u2, u3 ... -/
theorem blockprog_exit_through_unregister {σ σ' : Sys} {t : Tid} {ch : Choice} {e : Option Ev}
    (h : σ.step t ch = some (σ', e)) (hp : isPop (σ.thr t).pc = true) :
    isPop (σ'.thr t).pc = true ∨ ((σ.thr t).pc = .u3 ∧ (σ'.thr t).pc = .idle ∧ e = some (.fin t)) := by
  unfold Sys.step at h
  cases hs : tstep σ.sh t (σ.thr t) ch with
  | none => simp [hs] at h
  | some r =>
    obtain ⟨s', l', e'⟩ := r
    simp only [hs, Option.some.injEq, Prod.mk.injEq] at h
    obtain ⟨rfl, rfl⟩ := h
    by_cases hu : (σ.thr t).pc = .u3
    · right
      simp only [tstep, hu, Option.some.injEq, Prod.mk.injEq] at hs
      obtain ⟨_, rfl, rfl⟩ := hs
      exact ⟨hu, by simp, rfl⟩
    · left; simpa using pop_closed hs hp hu

/-- ... and when it is idle again its channel is in no cList: the registry holds exactly the channels of the calls in
    progress (`Inv.crel`: with the multiplicity of the key among the arguments) -/
theorem blockprog_unregistered_when_idle {σ : Sys} {es : List Ev} (h : Reach σ es) {t : Tid}
    (hpc : isPop (σ.thr t).pc = false ∨ (σ.thr t).pc = .r1 ∨ (σ.thr t).pc = .u3) (k : Key) :
    t ∉ σ.sh.regOf k := by
  obtain ⟨bs, _, hI⟩ := blockprog_refines_block h
  have hC := hI.crel t k
  have : regKeys (σ.thr t) = [] := by
    simp only [regKeys]
    rcases hpc with hpc | hpc | hpc
    · cases hp : (σ.thr t).pc <;> simp [hp, isPop] at hpc ⊢
    · simp [hpc]
    · simp [hpc]
  rw [this] at hC
  exact fun hm => by have := List.count_pos_iff.2 hm; simp at hC; omega

/-- while the call is between registration and unregistration its channel IS in the cList of every one of its keys:
    a push to any of them finds it -/
theorem blockprog_registered_while_waiting {σ : Sys} {es : List Ev} (h : Reach σ es) {t : Tid}
    (hb : isBody (σ.thr t).pc = true) : ∀ k ∈ (σ.thr t).keys, t ∈ σ.sh.regOf k := by
  obtain ⟨bs, _, hI⟩ := blockprog_refines_block h
  intro k hk
  have hC := hI.crel t k
  have : regKeys (σ.thr t) = (σ.thr t).keys := by
    simp only [regKeys]
    cases hp : (σ.thr t).pc <;> simp [hp, isBody] at hb ⊢
  rw [this] at hC
  exact List.count_pos_iff.1 (by rw [hC]; exact List.count_pos_iff.2 hk)

/-! ### the order of the HOOK CALLS (what a recorded trace contains)

  `Model/BlockProgHook.lean`: the same program with the two hooks that are not atomic with the channel operation they
  report as steps of their own - `bp-notify` BEFORE the send, `bp-wake` AFTER the receive. A run `HReach h hs es` has two
  event sequences: `es` in the order of the operations, `hs` in the order of the hook calls. -/

/-- THE HOOK-ORDER REFINEMENT.  For every hook-level run: the hook-call sequence `hs` is a run of `Block.stepLoose` -
    the relation the recorded traces are validated with -, the operation sequence `es` is a run of the program model and
    hence of the precise `Block.step`.  The only event for which `hs` needs the loose rule is `wake` (the proof uses
    `step` for every other event: `lstep_agree`, `stepLoose_of_not_wake`); that it is needed is the example below. -/
theorem blockprog_hook_order_refines_loose {h : HSys} {hs es : List Ev} (hr : HReach h hs es) :
    (∃ hb, runAllLoose [] hs = some hb) ∧ Reach h.σ es ∧ ∃ bs, runAll [] es = some bs ∧ Inv h.σ bs := by
  obtain ⟨⟨bs, hb, _, hl, _⟩, _, _⟩ := hreach_inv hr
  exact ⟨⟨hb, hl⟩, hreach_reach hr, blockprog_refines_block (hreach_reach hr)⟩

/-- the hook-level semantics covers every run of the program model (hooks called right next to their operations: both
    orders coincide), so the theorem above is not vacuous -/
theorem blockprog_run_is_hook_run {σ : Sys} {es : List Ev} (h : Reach σ es) :
    HReach ⟨σ, [], fun _ => false⟩ es es := reach_lifts h

/-- a hook-level schedule given as a list of actions (`hexec`, executable) is a hook-level run -/
theorem blockprog_hexec_is_hook_run {acts : List HAct} {h : HSys} {hs es : List Ev}
    (hx : hexec {} acts = some (h, hs, es)) : HReach h hs es := by
  simpa using hexec_sound HReach.init hx

/-- the schedule in which the two orders differ: waiter 1 sleeps on a; push 2 reports and sends; 1 receives; before 1
    reports its wake, push 3 reports and sends (into the buffer 1 has just emptied); 1 reports; another client empties the
    list; 1 looks, finds nothing, sleeps, receives the second wake-up, reports it -/
def looseSchedule : List HAct :=
  [.other 1 { call := .bpop ["a"] 0 }] ++ List.replicate 7 (.other 1 {}) ++
  [.other 2 { call := .push "a" 1 }] ++ List.replicate 3 (.other 2 {}) ++ [.hookNotify 2, .send 2, .recv 1] ++
  List.replicate 3 (.other 2 {}) ++
  [.other 3 { call := .push "a" 1 }] ++ List.replicate 3 (.other 3 {}) ++ [.hookNotify 3, .send 3, .hookWake 1] ++
  List.replicate 3 (.other 3 {}) ++ [.other 9 { call := .env "a" 0 false }] ++
  List.replicate 4 (.other 1 {}) ++ [.recv 1, .hookWake 1]

example : (hexec {} looseSchedule).map (fun r => (r.2.1, r.2.2)) = some (
    -- hook order
    [.reg 1 "a", .try_ 1 "a" false, .block 1 false, .notify 1 "a", .notify 1 "a", .wake 1,
     .try_ 1 "a" false, .block 1 false, .wake 1],
    -- operation order
    [.reg 1 "a", .try_ 1 "a" false, .block 1 false, .notify 1 "a", .wake 1, .notify 1 "a",
     .try_ 1 "a" false, .block 1 false, .wake 1]) := by decide

/-- `stepLoose` IS NEEDED for the hook order: there is a hook-level run of the program whose hook-call sequence the
    precise semantics `step` rejects (and `stepLoose`, by the theorem above, accepts) -/
theorem blockprog_hook_order_needs_loose :
    ∃ h hs es, HReach h hs es ∧ runAll [] hs = none ∧ (runAllLoose [] hs).isSome = true ∧
      (runAll [] es).isSome = true := by
  have hd : (hexec {} looseSchedule).map (fun r => (r.2.1, r.2.2)) = some (
      [.reg 1 "a", .try_ 1 "a" false, .block 1 false, .notify 1 "a", .notify 1 "a", .wake 1,
       .try_ 1 "a" false, .block 1 false, .wake 1],
      [.reg 1 "a", .try_ 1 "a" false, .block 1 false, .notify 1 "a", .wake 1, .notify 1 "a",
       .try_ 1 "a" false, .block 1 false, .wake 1]) := by decide
  cases hx : hexec {} looseSchedule with
  | none => simp [hx] at hd
  | some r =>
    obtain ⟨h, hs, es⟩ := r
    simp only [hx, Option.map_some, Option.some.injEq, Prod.mk.injEq] at hd
    obtain ⟨rfl, rfl⟩ := hd
    exact ⟨h, _, _, blockprog_hexec_is_hook_run hx, by decide, by decide, by decide⟩

/-! ### scenarios of the program model (non-vacuity: the hypotheses above are met by real schedules) -/

/-- `n` silent-or-not steps of thread t with the default choice -/
def steps (t : Tid) (n : Nat) : List (Tid × Choice) := List.replicate n (t, {})

/-- single key, one pusher, complete: BLPOP a 0 registers, looks, sleeps (7 steps after the call: at the select with
    an empty channel - the hypotheses of `blockprog_no_missed_wakeup`); LPUSH a x locks the key, appends, takes the
    registry lock shared, sends, releases; the waiter wakes, looks again, pops, unregisters, leaves -/
example : (exec {} ((1, { call := .bpop ["a"] 0 }) :: steps 1 7)).map (fun r => ((r.1.thr 1).pc, r.1.sh.full 1, r.2)) =
    some (.w1, false, [.reg 1 "a", .try_ 1 "a" false, .block 1 false]) := by decide

example : (exec {} ((1, { call := .bpop ["a"] 0 }) :: steps 1 7 ++ (2, { call := .push "a" 1 }) :: steps 2 7 ++
    steps 1 7)).map (fun r => ((r.1.thr 1).pc, (r.1.thr 2).pc, r.1.sh.regOf "a", r.1.sh.lists "a", r.2)) =
    some (.idle, .idle, [], 0, [.reg 1 "a", .try_ 1 "a" false, .block 1 false, .notify 1 "a", .wake 1,
      .try_ 1 "a" true, .unreg 1 "a", .fin 1]) := by decide

/-- two keys, two waiters, a timer: waiter 1 (BLPOP a b 1) and waiter 3 (BLPOP b 0) sleep; a push to b notifies both
    (most recent registration first); 3 takes the element; 1 wakes, finds nothing, sleeps again, its timer fires -/
example : (exec {} ((1, { call := .bpop ["a", "b"] 1 }) :: steps 1 9 ++ (3, { call := .bpop ["b"] 0 }) :: steps 3 7 ++
    (2, { call := .push "b" 1 }) :: steps 2 8 ++ steps 3 7 ++ steps 1 6 ++ [(1, { timer := true })] ++ steps 1 4)).map
      (fun r => ((r.1.thr 1).pc, (r.1.thr 3).pc, r.2)) =
    some (.idle, .idle, [.reg 1 "a", .reg 1 "b", .try_ 1 "a" false, .try_ 1 "b" false, .block 1 true,
      .reg 3 "b", .try_ 3 "b" false, .block 3 false, .notify 3 "b", .notify 1 "b",
      .wake 3, .try_ 3 "b" true, .unreg 3 "b", .fin 3,
      .wake 1, .try_ 1 "a" false, .try_ 1 "b" false, .block 1 true, .timeout 1, .unreg 1 "a", .unreg 1 "b",
      .fin 1]) := by decide

/-- the panic path: the key holds a value of another type, the pop panics, the deferred calls still unregister -/
example : (exec {} ((9, { call := .env "a" 0 true }) :: (1, { call := .bpop ["b", "a"] 0 }) :: steps 1 12)).map
      (fun r => ((r.1.thr 1).pc, r.1.sh.regOf "a", r.1.sh.regOf "b", r.1.sh.bmu, r.2)) =
    some (.idle, [], [], {}, [.reg 1 "b", .reg 1 "a", .try_ 1 "b" false, .abort 1, .unreg 1 "b", .unreg 1 "a",
      .fin 1]) := by decide

/-- the hypotheses of `blockprog_sleeper_has_seen_every_push` with the second disjunct: waiter 1 sleeps with an empty
    channel, the push has appended (list length 1) and is at p2, about to take the registry lock -/
example : (exec {} ((1, { call := .bpop ["a"] 0 }) :: steps 1 7 ++ (2, { call := .push "a" 1 }) :: steps 2 1)).map
      (fun r => ((r.1.thr 1).pc, r.1.sh.full 1, r.1.sh.lists "a", (r.1.thr 2).pc, (r.1.thr 2).key)) =
    some (.w1, false, 1, .p2, "a") := by decide

/-- WHY RECORDED TRACES NEED `stepLoose`, and for which event: the hook of `notify` is called before the send, the hook
    of `wake` after the receive.  Channel operations: send#1, receive, send#2 (into the empty buffer), receive.  Report
    order when the second push's hook AND send slip in between the first receive and its `wake` hook: notify, notify,
    wake, ..., block, wake.  The precise semantics rejects the second `wake` (after the first reported `wake` the
    modelled buffer is empty), the token-counting `stepLoose` accepts it.  Only `wake` is affected: every other event is
    checked by `step` itself in `stepLoose`. -/
example : runAll [] [.reg 1 "a", .try_ 1 "a" false, .block 1 false, .notify 1 "a", .notify 1 "a", .wake 1,
    .try_ 1 "a" false, .block 1 false, .wake 1] = none := by decide
example : (runAllLoose [] [.reg 1 "a", .try_ 1 "a" false, .block 1 false, .notify 1 "a", .notify 1 "a", .wake 1,
    .try_ 1 "a" false, .block 1 false, .wake 1]).isSome = true := by decide

/-- blocked transitions are blocked: with timeout 0 and an empty channel the thread at the select cannot move, the
    timer cannot fire; a second registration cannot start while the first one holds the registry lock -/
example : exec {} ((1, { call := .bpop ["a"] 0 }) :: steps 1 8) = none := by decide
example : exec {} ((1, { call := .bpop ["a"] 0 }) :: steps 1 7 ++ [(1, { timer := true })]) = none := by decide
example : exec {} ((1, { call := .bpop ["a"] 0 }) :: steps 1 1 ++ (2, { call := .bpop ["a"] 0 }) :: steps 2 1) = none := by
  decide

end Prog

end NodisVerif.C18
