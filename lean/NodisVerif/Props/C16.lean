import NodisVerif.Proofs.C16Step
import NodisVerif.Proofs.C16Wire
import NodisVerif.Proofs.C16Bulk
import NodisVerif.Proofs.C16Full
import NodisVerif.Props.C08
import NodisVerif.Proofs.RespWriterRun
import NodisVerif.Proofs.RespWriterServe
/-
  C16 — exactly one well-formed RESP reply per command, in order; pipelines stay in sync.

  Writer side: `Tok` / `render` / `oneValue` (Model/Resp.lean).  Reader side: the strict reference
  reader `parseReply` / `parseMany` on the value tree `Value` (Spec/RespReply.lean, written from the
  RESP2 specification).  `toValue` (Proofs/C16Parse.lean) is the value a complete token list denotes.
  Dispatch: `step` / `run` (Proofs/C08Step.lean) for an ARBITRARY handler table `H` satisfying the
  explicit well-formedness predicate `TableOneReply H` (every handler result is one value, for all
  stores, clocks and choices, panics included); discharged for the server's COMPLETE dispatch
  `fullTable = Driver.lookup [Handler.table1, Handler2.table2, Handler3.table3, Handler4.table4]` (`Main.tables`),
  without exception: `fullTable_ok`.  (MGET was a finding; the `fix:` is modelled and proved.)

  Side conditions of the wire-level theorems, both necessary (`arrOK_necessary`, `linesOK_necessary`):
  `ArrOK ts`: every array header has a count ≥ -1 (the writer would print `*-5` for `WriteArray(-5)`);
  `LinesOK ts`: no simple-string payload contains CR/LF.  Bulk payloads are unconstrained.
-/
namespace NodisVerif.C16
open NodisVerif.Proofs.C08Step Resp Server
open NodisVerif.Proofs.C16Parse NodisVerif.Spec.RespReply
open NodisVerif.Proofs.C16Handlers (OneReply)

/-! ## writer → bytes → reader -/

/-- `strconv.FormatInt` output is read back exactly, for every integer (no `DecimalOK` hypothesis:
    it is proved, `Proofs.C16Parse.decimalOK`) -/
theorem decimal_roundtrip (n : Int) : parseDec (formatInt n) = some n := parseDec_formatInt n

/-- the reference reader, applied to the bytes written for one complete value (followed by anything),
    returns exactly the denoted value and leaves exactly the rest -/
theorem render_parse_roundtrip (ts : List Tok) (rest : Bytes) (h1 : oneValue ts = true)
    (hA : ArrOK ts) (hS : LinesOK ts) (v : Value) (hv : toValue ts = some v) :
    parseReply (renderAll ts ++ rest) = some (v, rest) :=
  Proofs.C16Parse.render_parse_roundtrip ts rest h1 hA hS v hv

/-- every complete token list denotes a value -/
theorem oneValue_denotes (ts : List Tok) (h1 : oneValue ts = true) : ∃ v, toValue ts = some v :=
  toValue_of_oneValue ts h1

/-- a bulk reply is `$len\r\n payload \r\n` with len = the payload's length -/
theorem bulk_exact (b : Bytes) : render (.bulk b) = 36 :: formatInt b.length ++ [13, 10] ++ b ++ [13, 10] :=
  Proofs.C16Parse.bulk_exact b

/-- … and is read back as exactly the stored bytes, for EVERY payload (CR, LF, empty, any length) -/
theorem bulk_carries_exact_bytes (b rest : Bytes) : parseReply (render (.bulk b) ++ rest) = some (.bulk b, rest) :=
  bulk_parse b rest

/-- end to end, "bulk replies carry exactly the stored bytes with a correct length header": the
    closure of `SET k v` (on a missing key or a string) followed by the closure of the GET handler
    writes the single token `bulk v`, whose rendering is `$len\r\n v \r\n` with len = |v| and is
    read back as exactly `v` — for EVERY byte string v (CR, LF, NUL, empty, any length) -/
theorem stored_bytes_come_back (k v : Bytes) (st : MState) (now now' : Int) (ch ch' : Choice) (rest : Bytes)
    (h : Store.getMeta st k = none ∨ ∃ b, Proofs.C09Incr.StrAt k st b) :
    let reply := replyOf (outOf (storeAfter (outOf st now ch (Proofs.C09Incr.setBody k v))) now' ch'
                  (Proofs.C09Incr.getBody k))
    (∀ more, Handler.getString (k :: more) = .exec (Proofs.C09Incr.getBody k)) ∧
    reply = [Tok.bulk v] ∧
    renderAll reply = 36 :: formatInt v.length ++ [13, 10] ++ v ++ [13, 10] ∧
    parseReply (renderAll reply ++ rest) = some (.bulk v, rest) := by
  intro reply
  have e : reply = [Tok.bulk v] := Proofs.C09Incr.get_after_set k st now now' ch ch' v h
  refine ⟨fun more => rfl, e, ?_, ?_⟩
  · rw [e]; simp [renderAll, Proofs.C16Parse.bulk_exact]
  · rw [e]
    have := bulk_parse v rest
    simpa [renderAll] using this

/-! ## one reply per command -/

/-- EVERY command of every connection — known or unknown, with any arguments, inside or outside
    MULTI, MULTI / EXEC / DISCARD / WATCH / UNWATCH included — draws exactly one complete RESP value.
    `QueuesSat OneBody sv` (every queued closure writes one value) is an invariant of `run`
    (`queues_reachable`). -/
theorem one_reply_per_command {H : Table} (hH : TableOneReply H) {sv : Server} (hq : QueuesSat OneBody sv) (c : Cmd) :
    oneValue (step H sv c).2 = true := step_one_reply hH hq c

theorem queues_reachable {H : Table} (hH : TableOneReply H) (st : MState) (cs : List Cmd) :
    QueuesSat OneBody (run H { store := st } cs).1 :=
  QueuesSat.run okBody_one (fun n a b hb => hH.exec n a b hb) cs (QueuesSat.init _ st)

/-- replies appear in the order the commands were sent: `run` returns exactly one reply per command,
    the j-th being the reply to the j-th command, each one complete value -/
theorem replies_in_order {H : Table} (hH : TableOneReply H) {sv : Server} (hq : QueuesSat OneBody sv) (cs : List Cmd) :
    (run H sv cs).2.length = cs.length ∧ (∀ r ∈ (run H sv cs).2, oneValue r = true) ∧
    ∀ (pre post : List Cmd) (c : Cmd), cs = pre ++ c :: post →
      (run H sv cs).2[pre.length]? = some (step H (run H sv pre).1 c).2 := by
  refine ⟨run_replies_length H cs sv, run_one_reply hH cs hq, ?_⟩
  intro pre post c e
  subst e
  rw [run_append, run_cons]
  simp [run_replies_length]

/-- a single handler result that is one value (`OneReply`), dispatched outside MULTI: the reply is
    one value — no assumption on the rest of the table or on the queues -/
theorem one_reply_outside_multi (H : Table) (sv : Server) (c : Cmd) (hs : ¬ special c.name) (r : HRes)
    (hH : H c.name c.args = some r) (hr : OneReply r) (hst : runsNow (sv.conn c.id).state) :
    oneValue (step H sv c).2 = true := by
  show oneValue (dispatch H sv c).2 = true
  rw [dispatch_table H sv c hs, hH]
  cases r with
  | direct ts => exact hr
  | crash => exact oneValue_err 0
  | exec b =>
    simp only
    rw [execCommand_eq, if_pos hst, runBody_toks]
    exact hr _ _ _

/-- an unknown command, or a handler that panics outside `execCommand` (caught by the dispatch-level
    recover): one error reply -/
theorem unknown_command_one_error (H : Table) (sv : Server) (c : Cmd) (hs : ¬ special c.name)
    (hH : H c.name c.args = none ∨ H c.name c.args = some .crash) : (step H sv c).2 = [Tok.err 0] := by
  rw [step_unknown H sv c hs hH]

/-- inside MULTI every command whose handler hands a closure to `execCommand` replies exactly `+QUEUED` -/
theorem queued_inside_multi (H : Table) (sv : Server) (c : Cmd) (hs : ¬ special c.name) (b : Body)
    (hH : H c.name c.args = some (.exec b)) (hst : (sv.conn c.id).state % 2 = 1) :
    (step H sv c).2 = [queuedTok] ∧ oneValue (step H sv c).2 = true := by
  have := (C08.queued_has_no_effect H sv c hs b hH hst).1
  exact ⟨this, by rw [this]; exact oneValue_queued⟩

/-! ### `Handler.table1` (connection / keyspace / string families) -/

/-- a command that goes through the handler table (any name but MULTI/EXEC/DISCARD/WATCH/UNWATCH),
    any arguments, any server state — inside MULTI it is `+QUEUED` or the handler's own error reply,
    outside the closure's reply; unknown name: one error — draws one value.  No assumption on queues. -/
theorem one_reply_nonspecial {H : Table} (hH : TableOneReply H) (sv : Server) (c : Cmd) (hs : ¬ special c.name) :
    oneValue (step H sv c).2 = true := by
  show oneValue (dispatch H sv c).2 = true
  rw [dispatch_table H sv c hs]
  cases hr : H c.name c.args with
  | none => exact oneValue_err 0
  | some r =>
    have h := hH c.name c.args r hr
    cases r with
    | direct ts => exact h
    | crash => exact oneValue_err 0
    | exec b => exact execCommand_one _ _ _ _ _ (fun st now ch => h st now ch)

/-- the whole of `Handler.table1` satisfies the well-formedness predicate (MGET included, since the
    `fix:` that makes MGET read all its keys before it writes the array header) -/
theorem table1_ok : TableOneReply Handler.table1 := Proofs.C16Handlers.table1_one_reply

/-- every `table1` command, every argument vector, every server state: one value -/
theorem one_reply_table1 (sv : Server) (c : Cmd) (hs : ¬ special c.name) :
    oneValue (step Handler.table1 sv c).2 = true := one_reply_nonspecial table1_ok sv c hs

theorem one_reply_per_command_PING (sv : Server) (c : Cmd) (hn : c.name = "PING") :
    oneValue (step Handler.table1 sv c).2 = true :=
  one_reply_table1 sv c (by rw [hn]; decide)
theorem one_reply_per_command_ECHO (sv : Server) (c : Cmd) (hn : c.name = "ECHO") :
    oneValue (step Handler.table1 sv c).2 = true :=
  one_reply_table1 sv c (by rw [hn]; decide)
theorem one_reply_per_command_DBSIZE (sv : Server) (c : Cmd) (hn : c.name = "DBSIZE") :
    oneValue (step Handler.table1 sv c).2 = true :=
  one_reply_table1 sv c (by rw [hn]; decide)
theorem one_reply_per_command_FLUSHDB (sv : Server) (c : Cmd) (hn : c.name = "FLUSHDB") :
    oneValue (step Handler.table1 sv c).2 = true :=
  one_reply_table1 sv c (by rw [hn]; decide)
theorem one_reply_per_command_FLUSHALL (sv : Server) (c : Cmd) (hn : c.name = "FLUSHALL") :
    oneValue (step Handler.table1 sv c).2 = true :=
  one_reply_table1 sv c (by rw [hn]; decide)
theorem one_reply_per_command_DEL (sv : Server) (c : Cmd) (hn : c.name = "DEL") :
    oneValue (step Handler.table1 sv c).2 = true :=
  one_reply_table1 sv c (by rw [hn]; decide)
theorem one_reply_per_command_UNLINK (sv : Server) (c : Cmd) (hn : c.name = "UNLINK") :
    oneValue (step Handler.table1 sv c).2 = true :=
  one_reply_table1 sv c (by rw [hn]; decide)
theorem one_reply_per_command_EXISTS (sv : Server) (c : Cmd) (hn : c.name = "EXISTS") :
    oneValue (step Handler.table1 sv c).2 = true :=
  one_reply_table1 sv c (by rw [hn]; decide)
theorem one_reply_per_command_EXPIRE (sv : Server) (c : Cmd) (hn : c.name = "EXPIRE") :
    oneValue (step Handler.table1 sv c).2 = true :=
  one_reply_table1 sv c (by rw [hn]; decide)
theorem one_reply_per_command_EXPIREAT (sv : Server) (c : Cmd) (hn : c.name = "EXPIREAT") :
    oneValue (step Handler.table1 sv c).2 = true :=
  one_reply_table1 sv c (by rw [hn]; decide)
theorem one_reply_per_command_KEYS (sv : Server) (c : Cmd) (hn : c.name = "KEYS") :
    oneValue (step Handler.table1 sv c).2 = true :=
  one_reply_table1 sv c (by rw [hn]; decide)
theorem one_reply_per_command_RANDOMKEY (sv : Server) (c : Cmd) (hn : c.name = "RANDOMKEY") :
    oneValue (step Handler.table1 sv c).2 = true :=
  one_reply_table1 sv c (by rw [hn]; decide)
theorem one_reply_per_command_TTL (sv : Server) (c : Cmd) (hn : c.name = "TTL") :
    oneValue (step Handler.table1 sv c).2 = true :=
  one_reply_table1 sv c (by rw [hn]; decide)
theorem one_reply_per_command_PTTL (sv : Server) (c : Cmd) (hn : c.name = "PTTL") :
    oneValue (step Handler.table1 sv c).2 = true :=
  one_reply_table1 sv c (by rw [hn]; decide)
theorem one_reply_per_command_PERSIST (sv : Server) (c : Cmd) (hn : c.name = "PERSIST") :
    oneValue (step Handler.table1 sv c).2 = true :=
  one_reply_table1 sv c (by rw [hn]; decide)
theorem one_reply_per_command_RENAME (sv : Server) (c : Cmd) (hn : c.name = "RENAME") :
    oneValue (step Handler.table1 sv c).2 = true :=
  one_reply_table1 sv c (by rw [hn]; decide)
theorem one_reply_per_command_RENAMENX (sv : Server) (c : Cmd) (hn : c.name = "RENAMENX") :
    oneValue (step Handler.table1 sv c).2 = true :=
  one_reply_table1 sv c (by rw [hn]; decide)
theorem one_reply_per_command_TYPE (sv : Server) (c : Cmd) (hn : c.name = "TYPE") :
    oneValue (step Handler.table1 sv c).2 = true :=
  one_reply_table1 sv c (by rw [hn]; decide)
theorem one_reply_per_command_SCAN (sv : Server) (c : Cmd) (hn : c.name = "SCAN") :
    oneValue (step Handler.table1 sv c).2 = true :=
  one_reply_table1 sv c (by rw [hn]; decide)
theorem one_reply_per_command_SET (sv : Server) (c : Cmd) (hn : c.name = "SET") :
    oneValue (step Handler.table1 sv c).2 = true :=
  one_reply_table1 sv c (by rw [hn]; decide)
theorem one_reply_per_command_MSET (sv : Server) (c : Cmd) (hn : c.name = "MSET") :
    oneValue (step Handler.table1 sv c).2 = true :=
  one_reply_table1 sv c (by rw [hn]; decide)
theorem one_reply_per_command_APPEND (sv : Server) (c : Cmd) (hn : c.name = "APPEND") :
    oneValue (step Handler.table1 sv c).2 = true :=
  one_reply_table1 sv c (by rw [hn]; decide)
theorem one_reply_per_command_SETEX (sv : Server) (c : Cmd) (hn : c.name = "SETEX") :
    oneValue (step Handler.table1 sv c).2 = true :=
  one_reply_table1 sv c (by rw [hn]; decide)
theorem one_reply_per_command_SETNX (sv : Server) (c : Cmd) (hn : c.name = "SETNX") :
    oneValue (step Handler.table1 sv c).2 = true :=
  one_reply_table1 sv c (by rw [hn]; decide)
theorem one_reply_per_command_GET (sv : Server) (c : Cmd) (hn : c.name = "GET") :
    oneValue (step Handler.table1 sv c).2 = true :=
  one_reply_table1 sv c (by rw [hn]; decide)
theorem one_reply_per_command_GETSET (sv : Server) (c : Cmd) (hn : c.name = "GETSET") :
    oneValue (step Handler.table1 sv c).2 = true :=
  one_reply_table1 sv c (by rw [hn]; decide)
theorem one_reply_per_command_MGET (sv : Server) (c : Cmd) (hn : c.name = "MGET") :
    oneValue (step Handler.table1 sv c).2 = true :=
  one_reply_table1 sv c (by rw [hn]; decide)
theorem one_reply_per_command_SETRANGE (sv : Server) (c : Cmd) (hn : c.name = "SETRANGE") :
    oneValue (step Handler.table1 sv c).2 = true :=
  one_reply_table1 sv c (by rw [hn]; decide)
theorem one_reply_per_command_GETRANGE (sv : Server) (c : Cmd) (hn : c.name = "GETRANGE") :
    oneValue (step Handler.table1 sv c).2 = true :=
  one_reply_table1 sv c (by rw [hn]; decide)
theorem one_reply_per_command_STRLEN (sv : Server) (c : Cmd) (hn : c.name = "STRLEN") :
    oneValue (step Handler.table1 sv c).2 = true :=
  one_reply_table1 sv c (by rw [hn]; decide)
theorem one_reply_per_command_INCR (sv : Server) (c : Cmd) (hn : c.name = "INCR") :
    oneValue (step Handler.table1 sv c).2 = true :=
  one_reply_table1 sv c (by rw [hn]; decide)
theorem one_reply_per_command_DECR (sv : Server) (c : Cmd) (hn : c.name = "DECR") :
    oneValue (step Handler.table1 sv c).2 = true :=
  one_reply_table1 sv c (by rw [hn]; decide)
theorem one_reply_per_command_INCRBY (sv : Server) (c : Cmd) (hn : c.name = "INCRBY") :
    oneValue (step Handler.table1 sv c).2 = true :=
  one_reply_table1 sv c (by rw [hn]; decide)
theorem one_reply_per_command_DECRBY (sv : Server) (c : Cmd) (hn : c.name = "DECRBY") :
    oneValue (step Handler.table1 sv c).2 = true :=
  one_reply_table1 sv c (by rw [hn]; decide)
theorem one_reply_per_command_INCRBYFLOAT (sv : Server) (c : Cmd) (hn : c.name = "INCRBYFLOAT") :
    oneValue (step Handler.table1 sv c).2 = true :=
  one_reply_table1 sv c (by rw [hn]; decide)
theorem one_reply_per_command_SETBIT (sv : Server) (c : Cmd) (hn : c.name = "SETBIT") :
    oneValue (step Handler.table1 sv c).2 = true :=
  one_reply_table1 sv c (by rw [hn]; decide)
theorem one_reply_per_command_GETBIT (sv : Server) (c : Cmd) (hn : c.name = "GETBIT") :
    oneValue (step Handler.table1 sv c).2 = true :=
  one_reply_table1 sv c (by rw [hn]; decide)
theorem one_reply_per_command_BITCOUNT (sv : Server) (c : Cmd) (hn : c.name = "BITCOUNT") :
    oneValue (step Handler.table1 sv c).2 = true :=
  one_reply_table1 sv c (by rw [hn]; decide)

/-- MGET (a finding before the `fix:`): a wrong-typed key now gives the single error reply, whatever
    its position — `MGET a b` after `LPUSH a x` -/
theorem MGET_wrong_type_is_one_error :
    (step Handler.table1 { store := Proofs.C16Handlers.findingStore }
      { id := "c", name := "MGET", args := [[97], [98]] }).2 = [Tok.err 1] := by decide +kernel

/-! ### the complete dispatch (`Main.tables`): lists, hashes, sets, sorted sets, scans -/

/-- the server's complete handler table satisfies the well-formedness predicate: EVERY handler of
    every family, for every argument vector, store, clock and choice, panicking or not, writes exactly
    one complete RESP value.  No handler is left that can write anything else (the dead `done s []`
    branches of the scans and of Z*STORE are shown dead by result-shape lemmas of the Api functions). -/
theorem fullTable_ok : TableOneReply fullTable := fullTable_oneReply

/-- … and only tokens a strict reader accepts -/
theorem fullTable_wire_ok : TableWire fullTable := fullTable_wire

/-- every command that goes through the complete table, any server state -/
theorem one_reply_full_nonspecial (sv : Server) (c : Cmd) (hs : ¬ special c.name) :
    oneValue (step fullTable sv c).2 = true := one_reply_nonspecial fullTable_ok sv c hs

/-- every command whatsoever (MULTI / EXEC / … included) along every schedule from a fresh server -/
theorem one_reply_full (st : MState) (cs : List Cmd) : ∀ r ∈ (run fullTable { store := st } cs).2, oneValue r = true :=
  run_one_reply fullTable_ok cs (QueuesSat.init OneBody st)

theorem one_reply_per_command_LPUSH (sv : Server) (c : Cmd) (hn : c.name = "LPUSH") :
    oneValue (step fullTable sv c).2 = true :=
  one_reply_full_nonspecial sv c (by rw [hn]; decide)
theorem one_reply_per_command_RPUSH (sv : Server) (c : Cmd) (hn : c.name = "RPUSH") :
    oneValue (step fullTable sv c).2 = true :=
  one_reply_full_nonspecial sv c (by rw [hn]; decide)
theorem one_reply_per_command_LPOP (sv : Server) (c : Cmd) (hn : c.name = "LPOP") :
    oneValue (step fullTable sv c).2 = true :=
  one_reply_full_nonspecial sv c (by rw [hn]; decide)
theorem one_reply_per_command_RPOP (sv : Server) (c : Cmd) (hn : c.name = "RPOP") :
    oneValue (step fullTable sv c).2 = true :=
  one_reply_full_nonspecial sv c (by rw [hn]; decide)
theorem one_reply_per_command_LLEN (sv : Server) (c : Cmd) (hn : c.name = "LLEN") :
    oneValue (step fullTable sv c).2 = true :=
  one_reply_full_nonspecial sv c (by rw [hn]; decide)
theorem one_reply_per_command_LINDEX (sv : Server) (c : Cmd) (hn : c.name = "LINDEX") :
    oneValue (step fullTable sv c).2 = true :=
  one_reply_full_nonspecial sv c (by rw [hn]; decide)
theorem one_reply_per_command_LINSERT (sv : Server) (c : Cmd) (hn : c.name = "LINSERT") :
    oneValue (step fullTable sv c).2 = true :=
  one_reply_full_nonspecial sv c (by rw [hn]; decide)
theorem one_reply_per_command_LPUSHX (sv : Server) (c : Cmd) (hn : c.name = "LPUSHX") :
    oneValue (step fullTable sv c).2 = true :=
  one_reply_full_nonspecial sv c (by rw [hn]; decide)
theorem one_reply_per_command_RPUSHX (sv : Server) (c : Cmd) (hn : c.name = "RPUSHX") :
    oneValue (step fullTable sv c).2 = true :=
  one_reply_full_nonspecial sv c (by rw [hn]; decide)
theorem one_reply_per_command_LREM (sv : Server) (c : Cmd) (hn : c.name = "LREM") :
    oneValue (step fullTable sv c).2 = true :=
  one_reply_full_nonspecial sv c (by rw [hn]; decide)
theorem one_reply_per_command_LTRIM (sv : Server) (c : Cmd) (hn : c.name = "LTRIM") :
    oneValue (step fullTable sv c).2 = true :=
  one_reply_full_nonspecial sv c (by rw [hn]; decide)
theorem one_reply_per_command_LSET (sv : Server) (c : Cmd) (hn : c.name = "LSET") :
    oneValue (step fullTable sv c).2 = true :=
  one_reply_full_nonspecial sv c (by rw [hn]; decide)
theorem one_reply_per_command_LRANGE (sv : Server) (c : Cmd) (hn : c.name = "LRANGE") :
    oneValue (step fullTable sv c).2 = true :=
  one_reply_full_nonspecial sv c (by rw [hn]; decide)
theorem one_reply_per_command_LPOPRPUSH (sv : Server) (c : Cmd) (hn : c.name = "LPOPRPUSH") :
    oneValue (step fullTable sv c).2 = true :=
  one_reply_full_nonspecial sv c (by rw [hn]; decide)
theorem one_reply_per_command_RPOPLPUSH (sv : Server) (c : Cmd) (hn : c.name = "RPOPLPUSH") :
    oneValue (step fullTable sv c).2 = true :=
  one_reply_full_nonspecial sv c (by rw [hn]; decide)
theorem one_reply_per_command_HSET (sv : Server) (c : Cmd) (hn : c.name = "HSET") :
    oneValue (step fullTable sv c).2 = true :=
  one_reply_full_nonspecial sv c (by rw [hn]; decide)
theorem one_reply_per_command_HGET (sv : Server) (c : Cmd) (hn : c.name = "HGET") :
    oneValue (step fullTable sv c).2 = true :=
  one_reply_full_nonspecial sv c (by rw [hn]; decide)
theorem one_reply_per_command_HDEL (sv : Server) (c : Cmd) (hn : c.name = "HDEL") :
    oneValue (step fullTable sv c).2 = true :=
  one_reply_full_nonspecial sv c (by rw [hn]; decide)
theorem one_reply_per_command_HLEN (sv : Server) (c : Cmd) (hn : c.name = "HLEN") :
    oneValue (step fullTable sv c).2 = true :=
  one_reply_full_nonspecial sv c (by rw [hn]; decide)
theorem one_reply_per_command_HKEYS (sv : Server) (c : Cmd) (hn : c.name = "HKEYS") :
    oneValue (step fullTable sv c).2 = true :=
  one_reply_full_nonspecial sv c (by rw [hn]; decide)
theorem one_reply_per_command_HEXISTS (sv : Server) (c : Cmd) (hn : c.name = "HEXISTS") :
    oneValue (step fullTable sv c).2 = true :=
  one_reply_full_nonspecial sv c (by rw [hn]; decide)
theorem one_reply_per_command_HGETALL (sv : Server) (c : Cmd) (hn : c.name = "HGETALL") :
    oneValue (step fullTable sv c).2 = true :=
  one_reply_full_nonspecial sv c (by rw [hn]; decide)
theorem one_reply_per_command_HINCRBY (sv : Server) (c : Cmd) (hn : c.name = "HINCRBY") :
    oneValue (step fullTable sv c).2 = true :=
  one_reply_full_nonspecial sv c (by rw [hn]; decide)
theorem one_reply_per_command_HINCRBYFLOAT (sv : Server) (c : Cmd) (hn : c.name = "HINCRBYFLOAT") :
    oneValue (step fullTable sv c).2 = true :=
  one_reply_full_nonspecial sv c (by rw [hn]; decide)
theorem one_reply_per_command_HSETNX (sv : Server) (c : Cmd) (hn : c.name = "HSETNX") :
    oneValue (step fullTable sv c).2 = true :=
  one_reply_full_nonspecial sv c (by rw [hn]; decide)
theorem one_reply_per_command_HMGET (sv : Server) (c : Cmd) (hn : c.name = "HMGET") :
    oneValue (step fullTable sv c).2 = true :=
  one_reply_full_nonspecial sv c (by rw [hn]; decide)
theorem one_reply_per_command_HMSET (sv : Server) (c : Cmd) (hn : c.name = "HMSET") :
    oneValue (step fullTable sv c).2 = true :=
  one_reply_full_nonspecial sv c (by rw [hn]; decide)
theorem one_reply_per_command_HCLEAR (sv : Server) (c : Cmd) (hn : c.name = "HCLEAR") :
    oneValue (step fullTable sv c).2 = true :=
  one_reply_full_nonspecial sv c (by rw [hn]; decide)
theorem one_reply_per_command_HSTRLEN (sv : Server) (c : Cmd) (hn : c.name = "HSTRLEN") :
    oneValue (step fullTable sv c).2 = true :=
  one_reply_full_nonspecial sv c (by rw [hn]; decide)
theorem one_reply_per_command_HVALS (sv : Server) (c : Cmd) (hn : c.name = "HVALS") :
    oneValue (step fullTable sv c).2 = true :=
  one_reply_full_nonspecial sv c (by rw [hn]; decide)
theorem one_reply_per_command_SADD (sv : Server) (c : Cmd) (hn : c.name = "SADD") :
    oneValue (step fullTable sv c).2 = true :=
  one_reply_full_nonspecial sv c (by rw [hn]; decide)
theorem one_reply_per_command_SMOVE (sv : Server) (c : Cmd) (hn : c.name = "SMOVE") :
    oneValue (step fullTable sv c).2 = true :=
  one_reply_full_nonspecial sv c (by rw [hn]; decide)
theorem one_reply_per_command_SCARD (sv : Server) (c : Cmd) (hn : c.name = "SCARD") :
    oneValue (step fullTable sv c).2 = true :=
  one_reply_full_nonspecial sv c (by rw [hn]; decide)
theorem one_reply_per_command_SPOP (sv : Server) (c : Cmd) (hn : c.name = "SPOP") :
    oneValue (step fullTable sv c).2 = true :=
  one_reply_full_nonspecial sv c (by rw [hn]; decide)
theorem one_reply_per_command_SDIFF (sv : Server) (c : Cmd) (hn : c.name = "SDIFF") :
    oneValue (step fullTable sv c).2 = true :=
  one_reply_full_nonspecial sv c (by rw [hn]; decide)
theorem one_reply_per_command_SDIFFSTORE (sv : Server) (c : Cmd) (hn : c.name = "SDIFFSTORE") :
    oneValue (step fullTable sv c).2 = true :=
  one_reply_full_nonspecial sv c (by rw [hn]; decide)
theorem one_reply_per_command_SINTER (sv : Server) (c : Cmd) (hn : c.name = "SINTER") :
    oneValue (step fullTable sv c).2 = true :=
  one_reply_full_nonspecial sv c (by rw [hn]; decide)
theorem one_reply_per_command_SINTERSTORE (sv : Server) (c : Cmd) (hn : c.name = "SINTERSTORE") :
    oneValue (step fullTable sv c).2 = true :=
  one_reply_full_nonspecial sv c (by rw [hn]; decide)
theorem one_reply_per_command_SUNION (sv : Server) (c : Cmd) (hn : c.name = "SUNION") :
    oneValue (step fullTable sv c).2 = true :=
  one_reply_full_nonspecial sv c (by rw [hn]; decide)
theorem one_reply_per_command_SUNIONSTORE (sv : Server) (c : Cmd) (hn : c.name = "SUNIONSTORE") :
    oneValue (step fullTable sv c).2 = true :=
  one_reply_full_nonspecial sv c (by rw [hn]; decide)
theorem one_reply_per_command_SISMEMBER (sv : Server) (c : Cmd) (hn : c.name = "SISMEMBER") :
    oneValue (step fullTable sv c).2 = true :=
  one_reply_full_nonspecial sv c (by rw [hn]; decide)
theorem one_reply_per_command_SMEMBERS (sv : Server) (c : Cmd) (hn : c.name = "SMEMBERS") :
    oneValue (step fullTable sv c).2 = true :=
  one_reply_full_nonspecial sv c (by rw [hn]; decide)
theorem one_reply_per_command_SRANDMEMBER (sv : Server) (c : Cmd) (hn : c.name = "SRANDMEMBER") :
    oneValue (step fullTable sv c).2 = true :=
  one_reply_full_nonspecial sv c (by rw [hn]; decide)
theorem one_reply_per_command_SREM (sv : Server) (c : Cmd) (hn : c.name = "SREM") :
    oneValue (step fullTable sv c).2 = true :=
  one_reply_full_nonspecial sv c (by rw [hn]; decide)
theorem one_reply_per_command_ZADD (sv : Server) (c : Cmd) (hn : c.name = "ZADD") :
    oneValue (step fullTable sv c).2 = true :=
  one_reply_full_nonspecial sv c (by rw [hn]; decide)
theorem one_reply_per_command_ZCARD (sv : Server) (c : Cmd) (hn : c.name = "ZCARD") :
    oneValue (step fullTable sv c).2 = true :=
  one_reply_full_nonspecial sv c (by rw [hn]; decide)
theorem one_reply_per_command_ZRANK (sv : Server) (c : Cmd) (hn : c.name = "ZRANK") :
    oneValue (step fullTable sv c).2 = true :=
  one_reply_full_nonspecial sv c (by rw [hn]; decide)
theorem one_reply_per_command_ZREVRANK (sv : Server) (c : Cmd) (hn : c.name = "ZREVRANK") :
    oneValue (step fullTable sv c).2 = true :=
  one_reply_full_nonspecial sv c (by rw [hn]; decide)
theorem one_reply_per_command_ZSCORE (sv : Server) (c : Cmd) (hn : c.name = "ZSCORE") :
    oneValue (step fullTable sv c).2 = true :=
  one_reply_full_nonspecial sv c (by rw [hn]; decide)
theorem one_reply_per_command_ZINCRBY (sv : Server) (c : Cmd) (hn : c.name = "ZINCRBY") :
    oneValue (step fullTable sv c).2 = true :=
  one_reply_full_nonspecial sv c (by rw [hn]; decide)
theorem one_reply_per_command_ZRANGE (sv : Server) (c : Cmd) (hn : c.name = "ZRANGE") :
    oneValue (step fullTable sv c).2 = true :=
  one_reply_full_nonspecial sv c (by rw [hn]; decide)
theorem one_reply_per_command_ZREVRANGE (sv : Server) (c : Cmd) (hn : c.name = "ZREVRANGE") :
    oneValue (step fullTable sv c).2 = true :=
  one_reply_full_nonspecial sv c (by rw [hn]; decide)
theorem one_reply_per_command_ZRANGEBYSCORE (sv : Server) (c : Cmd) (hn : c.name = "ZRANGEBYSCORE") :
    oneValue (step fullTable sv c).2 = true :=
  one_reply_full_nonspecial sv c (by rw [hn]; decide)
theorem one_reply_per_command_ZREVRANGEBYSCORE (sv : Server) (c : Cmd) (hn : c.name = "ZREVRANGEBYSCORE") :
    oneValue (step fullTable sv c).2 = true :=
  one_reply_full_nonspecial sv c (by rw [hn]; decide)
theorem one_reply_per_command_ZCOUNT (sv : Server) (c : Cmd) (hn : c.name = "ZCOUNT") :
    oneValue (step fullTable sv c).2 = true :=
  one_reply_full_nonspecial sv c (by rw [hn]; decide)
theorem one_reply_per_command_ZREM (sv : Server) (c : Cmd) (hn : c.name = "ZREM") :
    oneValue (step fullTable sv c).2 = true :=
  one_reply_full_nonspecial sv c (by rw [hn]; decide)
theorem one_reply_per_command_ZREMRANGEBYRANK (sv : Server) (c : Cmd) (hn : c.name = "ZREMRANGEBYRANK") :
    oneValue (step fullTable sv c).2 = true :=
  one_reply_full_nonspecial sv c (by rw [hn]; decide)
theorem one_reply_per_command_ZREMRANGEBYSCORE (sv : Server) (c : Cmd) (hn : c.name = "ZREMRANGEBYSCORE") :
    oneValue (step fullTable sv c).2 = true :=
  one_reply_full_nonspecial sv c (by rw [hn]; decide)
theorem one_reply_per_command_ZUNIONSTORE (sv : Server) (c : Cmd) (hn : c.name = "ZUNIONSTORE") :
    oneValue (step fullTable sv c).2 = true :=
  one_reply_full_nonspecial sv c (by rw [hn]; decide)
theorem one_reply_per_command_ZINTERSTORE (sv : Server) (c : Cmd) (hn : c.name = "ZINTERSTORE") :
    oneValue (step fullTable sv c).2 = true :=
  one_reply_full_nonspecial sv c (by rw [hn]; decide)
theorem one_reply_per_command_ZCLEAR (sv : Server) (c : Cmd) (hn : c.name = "ZCLEAR") :
    oneValue (step fullTable sv c).2 = true :=
  one_reply_full_nonspecial sv c (by rw [hn]; decide)
theorem one_reply_per_command_ZEXISTS (sv : Server) (c : Cmd) (hn : c.name = "ZEXISTS") :
    oneValue (step fullTable sv c).2 = true :=
  one_reply_full_nonspecial sv c (by rw [hn]; decide)
theorem one_reply_per_command_SSCAN (sv : Server) (c : Cmd) (hn : c.name = "SSCAN") :
    oneValue (step fullTable sv c).2 = true :=
  one_reply_full_nonspecial sv c (by rw [hn]; decide)
theorem one_reply_per_command_HSCAN (sv : Server) (c : Cmd) (hn : c.name = "HSCAN") :
    oneValue (step fullTable sv c).2 = true :=
  one_reply_full_nonspecial sv c (by rw [hn]; decide)
theorem one_reply_per_command_ZSCAN (sv : Server) (c : Cmd) (hn : c.name = "ZSCAN") :
    oneValue (step fullTable sv c).2 = true :=
  one_reply_full_nonspecial sv c (by rw [hn]; decide)

/-! ## pipelines stay in sync -/

/-- if every command's reply is one value, the concatenated byte stream of k commands followed by a
    marker command parses — reading replies one after the other — into exactly k + 1 values, the j-th
    being the value of the j-th command's reply and the last one the marker's; nothing is left over -/
theorem pipeline_in_sync (H : Table) (sv : Server) (cmds : List Cmd) (marker : Cmd) (rest : Bytes)
    (hok : ∀ r ∈ (run H sv (cmds ++ [marker])).2, oneValue r = true ∧ ArrOK r ∧ LinesOK r) :
    let replies := (run H sv cmds).2
    let m := (step H (run H sv cmds).1 marker).2
    (run H sv (cmds ++ [marker])).2 = replies ++ [m] ∧ replies.length = cmds.length ∧
    ∃ (vs : List Value) (vm : Value), replies.map toValue = vs.map some ∧ toValue m = some vm ∧
      parseMany (cmds.length + 1) ((replies ++ [m]).flatMap renderAll ++ rest) = some (vs ++ [vm], rest) := by
  intro replies m
  have e : (run H sv (cmds ++ [marker])).2 = replies ++ [m] := by
    rw [run_append]; simp [run, replies, m]
  rw [e] at hok
  have hl : replies.length = cmds.length := run_replies_length H cmds sv
  refine ⟨e, hl, ?_⟩
  obtain ⟨vs, vm, h1, h2, h3⟩ := pipeline_in_sync' replies m rest
    (fun r hr => hok r (List.mem_append_left _ hr)) (hok m (by simp))
  rw [hl] at h3
  exact ⟨vs, vm, h1, h2, h3⟩

/-- the same for a table satisfying `TableOneReply`: `oneValue` need not be assumed -/
theorem pipeline_in_sync_table {H : Table} (hH : TableOneReply H) {sv : Server} (hq : QueuesSat OneBody sv)
    (cmds : List Cmd) (marker : Cmd) (rest : Bytes)
    (hok : ∀ r ∈ (run H sv (cmds ++ [marker])).2, ArrOK r ∧ LinesOK r) :
    ∃ (vs : List Value) (vm : Value),
      (run H sv cmds).2.map toValue = vs.map some ∧ toValue (step H (run H sv cmds).1 marker).2 = some vm ∧
      parseMany (cmds.length + 1) ((run H sv (cmds ++ [marker])).2.flatMap renderAll ++ rest) = some (vs ++ [vm], rest) := by
  have h1 := run_one_reply hH (cmds ++ [marker]) hq
  obtain ⟨e, _, vs, vm, a, b, c⟩ := pipeline_in_sync H sv cmds marker rest (fun r hr => ⟨h1 r hr, hok r hr⟩)
  exact ⟨vs, vm, a, b, by rw [e]; exact c⟩

/-- closed form for tables that satisfy both well-formedness predicates (`TableOneReply`: one value
    per handler result; `TableWire`: array counts ≥ -1, simple strings without CR/LF): starting from a
    fresh server on ANY store, for EVERY pipeline of commands of any connections followed by a marker,
    the reader gets exactly one value per command, in order, then the marker's, and nothing is left -/
theorem pipeline_in_sync_wellformed {H : Table} (hH : TableOneReply H) (hW : TableWire H) (st : MState)
    (cmds : List Cmd) (marker : Cmd) (rest : Bytes) :
    ∃ (vs : List Value) (vm : Value), vs.length = cmds.length ∧
      (run H { store := st } cmds).2.map toValue = vs.map some ∧
      toValue (step H (run H { store := st } cmds).1 marker).2 = some vm ∧
      parseMany (cmds.length + 1) ((run H { store := st } (cmds ++ [marker])).2.flatMap renderAll ++ rest) =
        some (vs ++ [vm], rest) := by
  have hw := run_wire hW (cmds ++ [marker]) (QueuesSat.init WireBody st)
  obtain ⟨vs, vm, a, b, c⟩ := pipeline_in_sync_table hH (QueuesSat.init OneBody st) cmds marker rest hw
  refine ⟨vs, vm, ?_, a, b, c⟩
  have := congrArg List.length a
  simp only [List.length_map] at this
  rw [← this]; exact run_replies_length H cmds _

/-- … in particular for the handler table of the connection / keyspace / string families:
    any pipeline, any arguments, any store: k commands + marker ⇒ exactly k + 1 replies, in order -/
theorem pipeline_in_sync_table1 (st : MState) (cmds : List Cmd) (marker : Cmd) (rest : Bytes) :
    ∃ (vs : List Value) (vm : Value), vs.length = cmds.length ∧
      (run Handler.table1 { store := st } cmds).2.map toValue = vs.map some ∧
      toValue (step Handler.table1 (run Handler.table1 { store := st } cmds).1 marker).2 = some vm ∧
      parseMany (cmds.length + 1) ((run Handler.table1 { store := st } (cmds ++ [marker])).2.flatMap renderAll ++ rest) =
        some (vs ++ [vm], rest) :=
  pipeline_in_sync_wellformed table1_ok table1_wire st cmds marker rest

/-- the server's complete dispatch: ANY pipeline of ANY commands of ANY connections from a fresh
    server on any store: k commands + marker ⇒ exactly k + 1 values, in order, nothing left over -/
theorem pipeline_in_sync_full (st : MState) (cmds : List Cmd) (marker : Cmd) (rest : Bytes) :
    ∃ (vs : List Value) (vm : Value), vs.length = cmds.length ∧
      (run fullTable { store := st } cmds).2.map toValue = vs.map some ∧
      toValue (step fullTable (run fullTable { store := st } cmds).1 marker).2 = some vm ∧
      parseMany (cmds.length + 1) ((run fullTable { store := st } (cmds ++ [marker])).2.flatMap renderAll ++ rest) =
        some (vs ++ [vm], rest) :=
  pipeline_in_sync_wellformed fullTable_ok fullTable_wire_ok st cmds marker rest

/-! ## the EXEC reply -/

/-- EXEC on a clean prepared transaction with queue [b₁…bₙ], n > 0, each closure writing one value: on
    the wire the reply is ONE array of exactly n elements, the j-th element being the value of the
    j-th queued closure's reply, in queue order -/
theorem exec_array_matches_queue (H : Table) (sv : Server) (c : Cmd) (hn : c.name = "EXEC")
    (hst : (sv.conn c.id).state = multiPrepare) (hne : (sv.conn c.id).queue ≠ [])
    (hw : (sv.conn c.id).watch.any (·.2) = false)
    (hone : ∀ b ∈ (sv.conn c.id).queue, OneBody b)
    (hwire : ∀ o ∈ execOuts sv.store c.now (sv.conn c.id).queue, ArrOK (replyOf o) ∧ LinesOK (replyOf o))
    (rest : Bytes) :
    ∃ vs : List Value, vs.length = (sv.conn c.id).queue.length ∧
      (execOuts sv.store c.now (sv.conn c.id).queue).map (fun o => toValue (replyOf o)) = vs.map some ∧
      parseReply (renderAll (step H sv c).2 ++ rest) = some (.array vs, rest) := by
  obtain ⟨_, h2, h3, _⟩ := C08.exec_runs_each_once_in_order H sv c hn hst hne hw
  let rs := (execOuts sv.store c.now (sv.conn c.id).queue).map replyOf
  have hrs : ∀ r ∈ rs, oneValue r = true ∧ ArrOK r ∧ LinesOK r := by
    intro r hr
    have h1 := execOuts_one c.now _ sv.store hone r hr
    obtain ⟨o, ho, rfl⟩ := List.mem_map.mp hr
    exact ⟨h1, hwire o ho⟩
  have hex : ∃ vs : List Value, rs.map toValue = vs.map some := by
    have : ∀ (xs : List (List Tok)), (∀ r ∈ xs, oneValue r = true) → ∃ vs : List Value, xs.map toValue = vs.map some := by
      intro xs
      induction xs with
      | nil => intro _; exact ⟨[], rfl⟩
      | cons x xs ih =>
        intro h
        obtain ⟨vs, hvs⟩ := ih (fun r hr => h r (List.mem_cons_of_mem _ hr))
        obtain ⟨v, hv⟩ := toValue_of_oneValue x (h x (by simp))
        exact ⟨v :: vs, by simp [hv, hvs]⟩
    exact this rs (fun r hr => (hrs r hr).1)
  obtain ⟨vs, hvs⟩ := hex
  have hlen : rs.length = (sv.conn c.id).queue.length := by simp [rs, h3]
  refine ⟨vs, ?_, ?_, ?_⟩
  · have := congrArg List.length hvs
    simp only [List.length_map] at this
    omega
  · simpa [rs, List.map_map, Function.comp_def] using hvs
  · have := parse_array_of_values rs vs rest hrs hvs
    rw [h2, List.flatMap_def, ← hlen]
    exact this

/-! ## non-vacuity -/

example : TableOneReply Handler.table1 := table1_ok
example : ∃ r, Handler.table1 "GET" [[1]] = some r := ⟨_, rfl⟩
example : QueuesSat OneBody ({} : Server) := QueuesSat.init _ {}
/-- a concrete pipeline: three commands and a marker, replies and parse computed -/
example :
    (run Handler.table1 {} [{ id := "c", name := "SET", args := [[107], [13, 10]] }, { id := "c", name := "GET", args := [[107]] },
      { id := "c", name := "NOSUCH" }, { id := "c", name := "PING" }]).2 =
    [[okTok], [Tok.bulk [13, 10]], [Tok.err 0], [Tok.bulk (Bytes.ofString "PONG")]] := by decide +kernel

/- UNPROVED: nothing.  No finding is left: every handler of `fullTable` writes exactly one well-formed value. -/

/-- a pipeline across the families (lists, sorted sets with scores, hashes, a wrong-type error, PING) -/
example :
    (run fullTable {} [ { id := "c", name := "RPUSH", args := [[108], [97], [98]] },
      { id := "c", name := "LRANGE", args := [[108], [48], [45, 49]] },
      { id := "c", name := "ZADD", args := [[122], [49], [109]] },
      { id := "c", name := "ZRANGE", args := [[122], [48], [45, 49], [87, 73, 84, 72, 83, 67, 79, 82, 69, 83]] },
      { id := "c", name := "HSET", args := [[104], [102], [118]] }, { id := "c", name := "HGETALL", args := [[104]] },
      { id := "c", name := "ZRANGE", args := [[108], [48], [45, 49]] }, { id := "c", name := "PING" }]).2 =
    [[Tok.int 2], [Tok.arr 2, Tok.bulk [97], Tok.bulk [98]], [Tok.int 1], [Tok.arr 2, Tok.bulk [109], Tok.bulk [49]],
     [Tok.int 1], [Tok.arr 2, Tok.bulk [102], Tok.bulk [118]], [Tok.err 1], [Tok.bulk [80, 79, 78, 71]]] := by
  decide +kernel

/-! ## the reply writer's buffer (redis/resp.go `type Writer`, Model/RespWriter.lean) — work package F

  The theorems above speak about reply TOKENS.  Below, the byte-level mechanics that carry the tokens —
  `buf`, `w`, `grow`, `writeByte`, `writeBytes`, `Flush`, every `Write*` method — are shown to refine the
  abstract buffered writer of Spec/RespWriterSpec.lean (pending bytes, delivered bytes, the error flag),
  and the result is composed with `pipeline_in_sync_full`.  `WriterInv s` is `s.w ≤ s.buf.size` (named
  `WriterInv` because `Inv` is taken by core's inverse notation class). -/

section Writer
open NodisVerif.RespWriter NodisVerif.Spec.RespWriterSpec
open NodisVerif.Proofs.RespWriter (Refines)

/-- a fresh writer satisfies the invariant (NewWriter: 4096 zero bytes, w = 0) -/
theorem writer_inv_new : WriterInv RespWriter.new := Proofs.RespWriter.new_inv

/-- EVERY exported method, from EVERY state satisfying the invariant: the call does what the abstract
    buffered writer does (same reply, abstract state = abstract step), keeps the invariant, never shrinks
    the array and grows it at most to `max (old size) (defaultSize + 2·w')`; it leaves the model exactly
    when the float text is outside the model. In particular no branch panics. -/
theorem writer_refines_spec (s : Writer) (c : Call) (h : WriterInv s) :
    match AW.step (abs s) c with
    | none => step s c = .outside
    | some (a', r) => ∃ s', step s c = .ok (s', r) ∧ abs s' = a' ∧ WriterInv s' ∧ s.buf.size ≤ s'.buf.size ∧
        s'.buf.size ≤ max s.buf.size (defaultSize + 2 * s'.w) :=
  Proofs.RespWriter.step_refines s c h

/-- the invariant is preserved by every method -/
theorem writer_inv_preserved (s s' : Writer) (c : Call) (r : Reply) (h : WriterInv s) (e : step s c = .ok (s', r)) :
    WriterInv s' := by
  have := Proofs.RespWriter.step_refines s c h
  cases ha : AW.step (abs s) c with
  | none => rw [ha] at this; rw [this] at e; cases e
  | some p =>
    rw [ha] at this
    obtain ⟨s1, e1, _, hi, _⟩ := this
    rw [e1] at e; cases e; exact hi

/-- no method panics under the invariant: neither `w.buf[w.w] = b` nor `w.buf[:w.w]` is ever out of range -/
theorem writer_step_never_panics (s : Writer) (c : Call) (h : WriterInv s) : step s c ≠ .panic := by
  have := Proofs.RespWriter.step_refines s c h
  cases ha : AW.step (abs s) c with
  | none => rw [ha] at this; rw [this]; exact fun h => nomatch h
  | some p =>
    rw [ha] at this
    obtain ⟨s1, e1, _⟩ := this
    rw [e1]; exact fun h => nomatch h

/-- … hence no sequence of calls on a fresh writer ever panics (any payloads, any sizes, any flush
    pattern, failing connections included) -/
theorem writer_never_panics (cs : List Call) : run RespWriter.new cs ≠ .panic :=
  Proofs.RespWriter.run_never_panics _ Proofs.RespWriter.new_inv cs

/-- the guard is needed: from a state violating the invariant `writeByte` does panic -/
theorem writer_panics_without_inv :
    writeByte { buf := #[], w := defaultSize + 1, err := false, sink := #[] } 0 = .panic := by
  simp [writeByte, grow]

/-- the implementation's run IS the abstract writer's run: defined exactly when the abstract run is,
    with the abstract state as its abstraction -/
theorem writer_run_refines (cs : List Call) :
    match AW.run {} cs with
    | none => run RespWriter.new cs = .outside
    | some a' => ∃ s', run RespWriter.new cs = .ok s' ∧ abs s' = a' ∧ WriterInv s' := by
  have := Proofs.RespWriter.run_refines cs _ Proofs.RespWriter.new_inv
  rw [Proofs.RespWriter.abs_new] at this
  cases h : AW.run {} cs with
  | none => rw [h] at this; exact this
  | some a' => rw [h] at this; obtain ⟨s', e, h1, h2, _⟩ := this; exact ⟨s', e, h1, h2⟩

/-- total on everything that has an encoding (everything except float text outside the model) -/
theorem writer_total (cs : List Call) (h : ∀ c ∈ cs, (encode c).isSome) : ∃ s, run RespWriter.new cs = .ok s := by
  obtain ⟨a', ha⟩ := Proofs.RespWriter.AW.run_some cs h {}
  have := writer_run_refines cs
  rw [ha] at this
  obtain ⟨s', e, _⟩ := this
  exact ⟨s', e⟩

/-- **writer_bytes**: for EVERY sequence of Write* calls, Flushes, Bytes and HasError on a fresh writer
    (connection not failing): what has reached the connection followed by what is in the buffer below `w`
    is exactly the concatenation of the RESP encodings of the calls, in order — byte-exact, whatever the
    sizes (so also across every `grow`) -/
theorem writer_bytes (cs : List Call) (s : Writer) (hn : NoFailure cs) (e : run RespWriter.new cs = .ok s) :
    s.sink.toList ++ s.buf.toList.take s.w = cs.flatMap written := by
  obtain ⟨h1, _, _⟩ := Proofs.RespWriter.run_ok_abs Proofs.RespWriter.new_inv e
  rw [Proofs.RespWriter.abs_new] at h1
  have := Proofs.RespWriter.AW.run_content cs {} (abs s) h1 hn
  simpa [abs] using this

/-- `Bytes()` returns exactly the pending bytes and `HasError()` the flag of the abstract writer -/
theorem writer_observers (s : Writer) (h : WriterInv s) :
    step s .bytes = .ok (s, .bytes (s.buf.toList.take s.w)) ∧ step s .hasError = .ok (s, .flag s.err) := by
  refine ⟨?_, rfl⟩
  obtain ⟨s', e, _⟩ := Proofs.RespWriter.bytes_ok s h
  simp only [RespWriter.step, bytes, Res.bind] at e ⊢
  simp only [WriterInv] at h
  simp only [h, if_true] at e ⊢
  simp [Array.toList_extract]

/-- **flush_exactly_once**: for every interleaving of writes, flushes and observers, a (successful) Flush
    leaves the connection with exactly everything written before it, once and in order, nothing pending,
    the write position at 0 and the error flag lowered -/
theorem flush_exactly_once (pre : List Call) (s : Writer) (hn : NoFailure pre)
    (e : run RespWriter.new (pre ++ [.flush none]) = .ok s) :
    s.sink.toList = pre.flatMap written ∧ s.w = 0 ∧ s.err = false := by
  rw [Proofs.RespWriter.run_append] at e
  cases h1 : run RespWriter.new pre with
  | panic => rw [h1] at e; cases e
  | outside => rw [h1] at e; cases e
  | ok s1 =>
    rw [h1] at e
    simp only [Res.bind] at e
    have hb := writer_bytes pre s1 hn h1
    obtain ⟨_, hi, _⟩ := Proofs.RespWriter.run_ok_abs Proofs.RespWriter.new_inv h1
    obtain ⟨s2, e2, habs, hi2, _⟩ := Proofs.RespWriter.flush_ok_none s1 hi
    simp only [RespWriter.run, e2] at e
    cases e
    have hd := congrArg AW.delivered habs
    have hp := congrArg AW.pending habs
    have he := congrArg AW.err habs
    simp only [abs] at hd hp he
    refine ⟨by rw [hd]; exact hb, ?_, he⟩
    have hl := Proofs.RespWriter.pending_length _ hi2
    simp only [abs] at hl
    rw [hp] at hl
    simpa using hl.symm

/-- one Flush in isolation: the chunk handed to the connection is exactly the pending bytes, appended to
    what was delivered before; a failing connection that takes k bytes gets the first k pending bytes and
    the writer keeps ALL pending bytes and its flag -/
theorem flush_delivers_pending (s : Writer) (h : WriterInv s) :
    (∃ s', step s (.flush none) = .ok (s', .flushed (s.buf.toList.take s.w) false) ∧
        s'.sink.toList = s.sink.toList ++ s.buf.toList.take s.w ∧ s'.w = 0 ∧ s'.err = false ∧ s'.buf = s.buf) ∧
    (∀ k, ∃ s', step s (.flush (some k)) = .ok (s', .flushed ((s.buf.toList.take s.w).take k) true) ∧
        s'.sink.toList = s.sink.toList ++ (s.buf.toList.take s.w).take k ∧ s'.w = s.w ∧ s'.err = s.err ∧ s'.buf = s.buf) := by
  obtain ⟨buf, w, err, sink⟩ := s
  simp only [WriterInv] at h
  constructor
  · refine ⟨⟨buf, 0, false, sink ++ buf.extract 0 w⟩, ?_, ?_, rfl, rfl, rfl⟩
    · simp only [RespWriter.step, flush, h, if_true, Res.bind]
      simp [Array.toList_extract]
    · simp [Array.toList_extract]
  · intro k
    refine ⟨⟨buf, w, err, sink ++ buf.extract 0 (min k w)⟩, ?_, ?_, rfl, rfl, rfl⟩
    · simp only [RespWriter.step, flush, h, if_true, Res.bind]
      simp [Array.toList_extract, List.take_take]
      omega
    · simp [Array.toList_extract, List.take_take]

/-- the position of the flushes is irrelevant: two call sequences with the same writing calls, each ended
    by a Flush, deliver the same bytes -/
theorem flush_position_irrelevant (cs ds : List Call) (s t : Writer) (hc : NoFailure cs) (hd : NoFailure ds)
    (hw : cs.filter isWrite = ds.filter isWrite)
    (e1 : run RespWriter.new (cs ++ [.flush none]) = .ok s) (e2 : run RespWriter.new (ds ++ [.flush none]) = .ok t) :
    s.sink.toList = t.sink.toList := by
  rw [(flush_exactly_once cs s hc e1).1, (flush_exactly_once ds t hd e2).1,
    Proofs.RespWriter.written_filter cs, Proofs.RespWriter.written_filter ds, hw]

/-- what a failing connection does to "exactly once" (a limit of the code, not of the proof): the writer
    keeps all pending bytes after a failed Flush, so the bytes the connection did take are sent again by
    the next Flush. `+OK\r\n`, a Flush on a connection that takes 3 bytes and fails, a Flush that works:
    the connection has received `+OK+OK\r\n`. (Serve ignores Flush's error; on TCP a failed write ends
    the connection, so the duplicate is not observable there.) -/
theorem flush_failure_resends :
    ∃ s, run RespWriter.new [.ok, .flush (some 3), .flush none] = .ok s ∧
      s.sink.toList = Bytes.ofString "+OK+OK\r\n" := by
  have := writer_run_refines [.ok, .flush (some 3), .flush none]
  have h : AW.run {} [.ok, .flush (some 3), .flush none] =
      some { delivered := Bytes.ofString "+OK+OK\r\n", pending := [], err := false } := by decide +kernel
  rw [h] at this
  obtain ⟨s, e, ha, _⟩ := this
  exact ⟨s, e, congrArg AW.delivered ha⟩

/-- growth: the array is always at least `w` long (and never shorter than the initial 4096), and at most
    `defaultSize + 2·M` where M bounds the number of pending bytes at the end of every call so far — with a
    Flush after every reply the array stays within 4096 + twice the largest reply -/
theorem writer_growth_peak (M : Nat) (cs : List Call) (s : Writer)
    (hM : ∀ pre s1, pre <+: cs → run RespWriter.new pre = .ok s1 → s1.w ≤ M) (e : run RespWriter.new cs = .ok s) :
    s.w ≤ s.buf.size ∧ defaultSize ≤ s.buf.size ∧ s.buf.size ≤ defaultSize + 2 * M := by
  obtain ⟨_, hi, hm⟩ := Proofs.RespWriter.run_ok_abs Proofs.RespWriter.new_inv e
  refine ⟨hi, ?_, ?_⟩
  · simpa [RespWriter.new] using hm
  · exact Proofs.RespWriter.run_size_le M cs RespWriter.new s Proofs.RespWriter.new_inv
      (by simp [RespWriter.new]) hM e

/-- … in particular at most `defaultSize + 2·(all bytes ever written)`, whatever the flush pattern -/
theorem writer_growth (cs : List Call) (s : Writer) (e : run RespWriter.new cs = .ok s) :
    s.w ≤ s.buf.size ∧ defaultSize ≤ s.buf.size ∧ s.buf.size ≤ defaultSize + 2 * (cs.flatMap written).length := by
  refine writer_growth_peak _ cs s ?_ e
  intro pre s1 hpre hrun
  obtain ⟨h1, hi, _⟩ := Proofs.RespWriter.run_ok_abs Proofs.RespWriter.new_inv hrun
  rw [Proofs.RespWriter.abs_new] at h1
  have h2 := Proofs.RespWriter.AW.run_pending_le pre {} (abs s1) h1
  rw [Proofs.RespWriter.pending_length s1 hi] at h2
  obtain ⟨post, rfl⟩ := hpre
  simp only [List.flatMap_append, List.length_append]
  have h0 : ({} : AW).pending.length = 0 := rfl
  rw [h0] at h2
  omega

/-- the policy, exactly: `writeBytes(bs)` reallocates iff `w + len(bs) >= len(buf)` (note `>=`: also
    when the chunk would fit exactly), then by exactly `len(bs)`, once — the byte loop never grows -/
theorem writeBytes_policy (s s' : Writer) (bs : Bytes) (h : WriterInv s) (e : writeBytes s bs = .ok s') :
    s'.buf.size = if s.w + bs.length ≥ s.buf.size then s.buf.size + bs.length else s.buf.size :=
  Proofs.RespWriter.writeBytes_size s bs h s' e

/-- … and a growing `writeBytes` leaves exactly the free space it found (the slack is never replenished by it) -/
theorem writeBytes_free_space (s s' : Writer) (bs : Bytes) (h : WriterInv s) (e : writeBytes s bs = .ok s') :
    s'.buf.size - s'.w = if s.w + bs.length ≥ s.buf.size then s.buf.size - s.w else s.buf.size - s.w - bs.length :=
  Proofs.RespWriter.writeBytes_free s bs h s' e

/-- `writeByte` reallocates iff the array is full (`w >= len(buf)`), then by `defaultSize`: the only source of slack -/
theorem writeByte_policy (s s' : Writer) (b : UInt8) (h : WriterInv s) (e : writeByte s b = .ok s') :
    s'.buf.size = (if s.w ≥ s.buf.size then s.buf.size + defaultSize else s.buf.size) ∧ s'.w = s.w + 1 :=
  Proofs.RespWriter.writeByte_size s b h s' e

/-- `grow(n)` keeps every byte of the old array (stale ones beyond `w` too) and appends n zero bytes -/
theorem grow_copies_everything (s : Writer) (n : Nat) :
    (grow s n).buf.toList = s.buf.toList ++ List.replicate n 0 ∧ (grow s n).w = s.w ∧
    (grow s n).err = s.err ∧ (grow s n).sink = s.sink :=
  ⟨Proofs.RespWriter.grow_buf s n, rfl, rfl, rfl⟩

/-- the calls that write the reply tokens of the token-level model write exactly `render` -/
theorem writer_encodes_tokens (t : Tok) : encode (callOfTok t) = some (render t) :=
  Proofs.RespWriter.encode_callOfTok t

/-- **the writer refines the token model**: write the tokens `ts` in order through a fresh writer, with
    Flushes / Bytes / HasError interleaved at ANY positions (`cs` is any such schedule), flush at the end:
    the connection has received exactly `renderAll ts` -/
theorem writer_tokens_bytes (ts : List Tok) (cs : List Call) (hw : cs.filter isWrite = ts.map callOfTok)
    (hn : NoFailure cs) :
    ∃ s, run RespWriter.new (cs ++ [.flush none]) = .ok s ∧ s.sink.toList = renderAll ts ∧ s.w = 0 := by
  have hsome : ∀ c ∈ cs ++ [Call.flush none], (encode c).isSome := by
    intro c hc
    rcases List.mem_append.mp hc with hc | hc
    · exact Proofs.RespWriter.encode_isSome_of_schedule cs ts hw c hc
    · simp only [List.mem_singleton] at hc; subst hc; rfl
  obtain ⟨s, e⟩ := writer_total _ hsome
  obtain ⟨h1, h2, _⟩ := flush_exactly_once cs s hn e
  refine ⟨s, e, ?_, h2⟩
  rw [h1, Proofs.RespWriter.written_filter, hw, Proofs.RespWriter.written_tokens]

/-- **end to end**: ANY pipeline of ANY commands from a fresh server on any store, the reply tokens written
    through the Writer under ANY flush schedule: the byte stream the connection receives parses — reading
    reply after reply with the reference RESP reader — into exactly one value per command, in order, then
    the marker's, and nothing is left over. (`pipeline_in_sync_full` through the buffer.) -/
theorem writer_pipeline_in_sync (st : MState) (cmds : List Cmd) (marker : Cmd) (cs : List Call)
    (hw : cs.filter isWrite = ((run fullTable { store := st } (cmds ++ [marker])).2.flatten).map callOfTok)
    (hn : NoFailure cs) :
    ∃ (s : Writer) (vs : List Value) (vm : Value),
      RespWriter.run RespWriter.new (cs ++ [.flush none]) = .ok s ∧ s.w = 0 ∧ vs.length = cmds.length ∧
      (run fullTable { store := st } cmds).2.map toValue = vs.map some ∧
      toValue (step fullTable (run fullTable { store := st } cmds).1 marker).2 = some vm ∧
      parseMany (cmds.length + 1) s.sink.toList = some (vs ++ [vm], []) := by
  obtain ⟨s, e, hs, hw0⟩ := writer_tokens_bytes _ cs hw hn
  obtain ⟨vs, vm, h1, h2, h3, h4⟩ := pipeline_in_sync_full st cmds marker []
  refine ⟨s, vs, vm, e, hw0, h1, h2, h3, ?_⟩
  rw [hs]
  have : renderAll (run fullTable { store := st } (cmds ++ [marker])).2.flatten =
      (run fullTable { store := st } (cmds ++ [marker])).2.flatMap renderAll := by
    generalize (run fullTable { store := st } (cmds ++ [marker])).2 = xs
    induction xs with
    | nil => rfl
    | cons x xs ih => simp only [List.flatten_cons, List.flatMap_cons, ← ih]; simp [renderAll, List.flatMap_append]
  rw [this]
  simpa using h4

/-- failing Flushes never lose, reorder or corrupt buffered bytes, wherever they occur: after the last
    SUCCESSFUL Flush (before it anything may have happened, failures included) the buffer below `w` is exactly
    what has been written since, and the flag says whether an error was among it -/
theorem pending_is_written_since_last_flush (pre post : List Call) (s : Writer)
    (hp : ∀ c ∈ post, c ≠ .flush none)
    (e : RespWriter.run RespWriter.new (pre ++ [.flush none] ++ post) = .ok s) :
    s.buf.toList.take s.w = post.flatMap written ∧ s.err = post.any isError := by
  obtain ⟨h1, _, _⟩ := Proofs.RespWriter.run_ok_abs Proofs.RespWriter.new_inv e
  rw [Proofs.RespWriter.abs_new, Proofs.RespWriter.AW.run_append, Proofs.RespWriter.AW.run_append] at h1
  cases ha : AW.run {} pre with
  | none => rw [ha] at h1; cases h1
  | some a1 =>
    rw [ha] at h1
    simp only [Option.bind_some, AW.run, AW.step] at h1
    obtain ⟨h2, h3⟩ := Proofs.RespWriter.AW.run_no_flush post _ (abs s) h1 hp
    simp only [abs] at h2 h3
    exact ⟨by simpa using h2, by simpa using h3⟩

/-! ### the writer as the connection loop uses it (redis/server.go handleConn, nodis.go Serve) -/

/-- what `conn.HasError()` feeds into MULTI's error bit: writing the tokens `ts` of a reply raises the flag
    exactly when one of them is an error token (`toks.any isErr` in Model/Conn.lean `afterHandler`), on
    top of what the flag was; the tokens' rendering is appended to the pending bytes, nothing is sent -/
theorem writer_has_error_is_any_err (s : Writer) (h : WriterInv s) (ts : List Tok) :
    ∃ s', RespWriter.run s (ts.map callOfTok) = .ok s' ∧ WriterInv s' ∧
      s'.err = (s.err || ts.any Server.isErr) ∧
      s'.buf.toList.take s'.w = s.buf.toList.take s.w ++ renderAll ts ∧ s'.sink.toList = s.sink.toList := by
  have := Proofs.RespWriter.run_refines (ts.map callOfTok) s h
  rw [Proofs.RespWriter.AW.run_tokens] at this
  obtain ⟨s', e, ha, hi, _⟩ := this
  exact ⟨s', e, hi, congrArg AW.err ha, congrArg AW.pending ha, congrArg AW.delivered ha⟩

/-- the connection loop (`handler(c, cmd); _ = c.Flush()` for every command) on a connection that does not
    fail: while command j is being answered the connection has received exactly the complete replies of
    the commands before it, the buffer holds exactly the reply of command j so far, and `HasError()` at
    the end of the handler is "this reply contains an error token" — no leftover from earlier commands -/
theorem serve_loop_has_error (pre : List (List Tok)) (r : List Tok) :
    ∃ s, RespWriter.run RespWriter.new (serveCalls pre ++ r.map callOfTok) = .ok s ∧
      s.err = r.any Server.isErr ∧ s.sink.toList = pre.flatMap renderAll ∧ s.buf.toList.take s.w = renderAll r := by
  have := writer_run_refines (serveCalls pre ++ r.map callOfTok)
  rw [Proofs.RespWriter.AW.run_append, Proofs.RespWriter.AW.run_serve, Option.bind_some,
    Proofs.RespWriter.AW.run_tokens] at this
  obtain ⟨s, e, ha, _⟩ := this
  refine ⟨s, e, ?_, ?_, ?_⟩
  · have := congrArg AW.err ha; simp only [abs] at this; rw [this]; cases pre <;> simp
  · have := congrArg AW.delivered ha; simp only [abs] at this; rw [this]; cases pre <;> simp
  · have := congrArg AW.pending ha; simp only [abs] at this; rw [this]; cases pre <;> simp

/-- … and after the last Flush everything has been delivered, reply after reply, nothing is pending -/
theorem serve_loop_delivers (rs : List (List Tok)) (hne : rs ≠ []) :
    ∃ s, RespWriter.run RespWriter.new (serveCalls rs) = .ok s ∧
      s.sink.toList = rs.flatMap renderAll ∧ s.w = 0 ∧ s.err = false := by
  have := writer_run_refines (serveCalls rs)
  rw [Proofs.RespWriter.AW.run_serve] at this
  obtain ⟨s, e, ha, hi⟩ := this
  have hemp : rs.isEmpty = false := by cases rs with | nil => exact absurd rfl hne | cons _ _ => rfl
  rw [hemp] at ha
  simp only [Bool.false_eq_true, if_false] at ha
  refine ⟨s, e, ?_, ?_, congrArg AW.err ha⟩
  · have := congrArg AW.delivered ha; simp only [abs] at this; rw [this]; simp
  · have hl := Proofs.RespWriter.pending_length s hi
    rw [ha] at hl
    simpa using hl.symm

/-- **end to end with the schedule the server really uses**: any pipeline of any commands from a fresh server
    on any store, each reply written through the Writer and flushed after its command: the byte stream
    parses into exactly one value per command, in order, then the marker's; nothing left over -/
theorem serve_loop_in_sync (st : MState) (cmds : List Cmd) (marker : Cmd) :
    ∃ (s : Writer) (vs : List Value) (vm : Value),
      RespWriter.run RespWriter.new (serveCalls (run fullTable { store := st } (cmds ++ [marker])).2) = .ok s ∧
      s.w = 0 ∧ s.err = false ∧ vs.length = cmds.length ∧
      (run fullTable { store := st } cmds).2.map toValue = vs.map some ∧
      toValue (step fullTable (run fullTable { store := st } cmds).1 marker).2 = some vm ∧
      parseMany (cmds.length + 1) s.sink.toList = some (vs ++ [vm], []) := by
  have hne : (run fullTable { store := st } (cmds ++ [marker])).2 ≠ [] := by
    intro h
    have := run_replies_length fullTable (cmds ++ [marker]) { store := st }
    rw [h] at this
    simp at this
  obtain ⟨s, e, hs, hw, he⟩ := serve_loop_delivers _ hne
  obtain ⟨vs, vm, h1, h2, h3, h4⟩ := pipeline_in_sync_full st cmds marker []
  refine ⟨s, vs, vm, e, hw, he, h1, h2, h3, ?_⟩
  rw [hs]
  simpa using h4

/-! ### independent of the growth policy: the abstract buffered writer alone

  `writer_refines_spec` is the only place where `buf`, `w` and `grow` occur. What follows holds for every
  implementation that refines the abstract writer, whatever its buffer management (the correspondence check
  reports a change of the buffer management alone as `writer-representation-drift`, not as a violation). -/

/-- abstract writer, connection not failing: delivered ++ pending = everything written, in order -/
theorem buffered_writer_bytes (cs : List Call) (a : AW) (e : AW.run {} cs = some a) (hn : NoFailure cs) :
    a.delivered ++ a.pending = cs.flatMap written := by
  have := Proofs.RespWriter.AW.run_content cs {} a e hn
  simpa using this

/-- abstract writer: after a successful Flush exactly everything written has been delivered, once -/
theorem buffered_writer_flush_exactly_once (pre : List Call) (a : AW) (hn : NoFailure pre)
    (e : AW.run {} (pre ++ [.flush none]) = some a) :
    a.delivered = pre.flatMap written ∧ a.pending = [] ∧ a.err = false := by
  rw [Proofs.RespWriter.AW.run_append] at e
  cases h1 : AW.run {} pre with
  | none => rw [h1] at e; cases e
  | some a1 =>
    rw [h1] at e
    simp only [Option.bind_some, AW.run, AW.step] at e
    cases e
    exact ⟨buffered_writer_bytes pre a1 h1 hn, rfl, rfl⟩

/-- abstract writer: the pipeline theorem for any flush schedule -/
theorem buffered_writer_pipeline_in_sync (st : MState) (cmds : List Cmd) (marker : Cmd) (cs : List Call) (a : AW)
    (hw : cs.filter isWrite = ((run fullTable { store := st } (cmds ++ [marker])).2.flatten).map callOfTok)
    (hn : NoFailure cs) (e : AW.run {} (cs ++ [.flush none]) = some a) :
    ∃ (vs : List Value) (vm : Value), vs.length = cmds.length ∧
      (run fullTable { store := st } cmds).2.map toValue = vs.map some ∧
      toValue (step fullTable (run fullTable { store := st } cmds).1 marker).2 = some vm ∧
      parseMany (cmds.length + 1) a.delivered = some (vs ++ [vm], []) ∧ a.pending = [] := by
  obtain ⟨hd, hp, _⟩ := buffered_writer_flush_exactly_once cs a hn e
  obtain ⟨vs, vm, h1, h2, h3, h4⟩ := pipeline_in_sync_full st cmds marker []
  refine ⟨vs, vm, h1, h2, h3, ?_, hp⟩
  rw [hd, Proofs.RespWriter.written_filter, hw, Proofs.RespWriter.written_tokens]
  have : renderAll (run fullTable { store := st } (cmds ++ [marker])).2.flatten =
      (run fullTable { store := st } (cmds ++ [marker])).2.flatMap renderAll := by
    generalize (run fullTable { store := st } (cmds ++ [marker])).2 = xs
    induction xs with
    | nil => rfl
    | cons x xs ih => simp only [List.flatten_cons, List.flatMap_cons, ← ih]; simp [renderAll, List.flatMap_append]
  rw [this]
  simpa using h4

/-! ### non-vacuity of the hypotheses above -/

example : WriterInv RespWriter.new := writer_inv_new
/-- a non-trivial schedule: an array header, a Flush in the middle of the reply, a bulk string with CR LF in
    it, HasError and Bytes in between; it has no failing Flush and writes the tokens of `[arr 1, bulk "\r\n"]` -/
example : NoFailure [Call.array 1, .flush none, .hasError, .bulk [13, 10], .bytes] ∧
    [Call.array 1, .flush none, .hasError, .bulk [13, 10], .bytes].filter isWrite = [Tok.arr 1, Tok.bulk [13, 10]].map callOfTok := by
  constructor
  · intro c hc k; simp at hc; rcases hc with rfl | rfl | rfl | rfl | rfl <;> simp
  · decide
/-- … and what the connection gets for it -/
example : ∃ s, RespWriter.run RespWriter.new ([Call.array 1, .flush none, .hasError, .bulk [13, 10], .bytes] ++ [.flush none]) = .ok s ∧
    s.sink.toList = Bytes.ofString "*1\r\n$2\r\n\r\n\r\n" ∧ s.w = 0 := by
  obtain ⟨s, e, h, w⟩ := writer_tokens_bytes [Tok.arr 1, Tok.bulk [13, 10]] [Call.array 1, .flush none, .hasError, .bulk [13, 10], .bytes]
    (by decide) (by intro c hc k; simp at hc; rcases hc with rfl | rfl | rfl | rfl | rfl <;> simp)
  exact ⟨s, e, by rw [h]; decide +kernel, w⟩
/-- `pending_is_written_since_last_flush` on a run with failing Flushes before and after the successful one -/
example : ∃ s, RespWriter.run RespWriter.new ([Call.ok, .flush (some 3)] ++ [.flush none] ++ [.error [120], .flush (some 0), .int64 1]) = .ok s ∧
    s.buf.toList.take s.w = Bytes.ofString "-x\r\n:1\r\n" ∧ s.err = true := by
  obtain ⟨s, e⟩ := writer_total ([Call.ok, .flush (some 3)] ++ [.flush none] ++ [.error [120], .flush (some 0), .int64 1]) (by decide)
  obtain ⟨h1, h2⟩ := pending_is_written_since_last_flush [Call.ok, .flush (some 3)] [.error [120], .flush (some 0), .int64 1] s (by decide) e
  exact ⟨s, e, by rw [h1]; decide +kernel, by rw [h2]; decide⟩
/-- the abstract writer on a concrete run with an error reply: flag raised by WriteError, lowered by Flush -/
example : AW.run {} [.error (Bytes.ofString "ERR x"), .int64 (-5), .hasError] =
    some { delivered := [], pending := Bytes.ofString "-ERR x\r\n:-5\r\n", err := true } := by decide +kernel
example : AW.run {} [.error (Bytes.ofString "ERR x"), .flush none, .uint64 18446744073709551615] =
    some { delivered := Bytes.ofString "-ERR x\r\n", pending := Bytes.ofString ":18446744073709551615\r\n", err := false } := by decide +kernel

end Writer
/-! ### the commands that had no model: `Handler4.table4` (CLIENT, CONFIG, INFO, QUIT, SAVE, GEO*)

  `fullTable` (and with it `fullTable_ok`, `fullTable_wire_ok`, `one_reply_full`, `pipeline_in_sync_full`)
  now ranges over table1 + table2 + table3 + table4: no command of handler.go's dispatch table is left
  outside the model (`Spec/SourceFacts.lean`: `unmodelled = []`).  For the relational replies (members and
  distances of radius queries, decimal coordinate text) the statement covers EVERY choice list the
  implementation could hand in, well-formed or not. -/

/-- every handler of table4, every argument vector, store, clock and choice, panics included: exactly one
    RESP value -/
theorem table4_ok : TableOneReply Handler4.table4 := Proofs.C16Table4.table4_tableOneReply

/-- … and only tokens a strict reader accepts -/
theorem table4_wire_ok : TableWire Handler4.table4 := Proofs.C16Table4.table4_wire

theorem one_reply_per_command_CLIENT (sv : Server) (c : Cmd) (hn : c.name = "CLIENT") :
    oneValue (step fullTable sv c).2 = true :=
  one_reply_full_nonspecial sv c (by rw [hn]; decide)
theorem one_reply_per_command_CONFIG (sv : Server) (c : Cmd) (hn : c.name = "CONFIG") :
    oneValue (step fullTable sv c).2 = true :=
  one_reply_full_nonspecial sv c (by rw [hn]; decide)
theorem one_reply_per_command_INFO (sv : Server) (c : Cmd) (hn : c.name = "INFO") :
    oneValue (step fullTable sv c).2 = true :=
  one_reply_full_nonspecial sv c (by rw [hn]; decide)
theorem one_reply_per_command_QUIT (sv : Server) (c : Cmd) (hn : c.name = "QUIT") :
    oneValue (step fullTable sv c).2 = true :=
  one_reply_full_nonspecial sv c (by rw [hn]; decide)
theorem one_reply_per_command_SAVE (sv : Server) (c : Cmd) (hn : c.name = "SAVE") :
    oneValue (step fullTable sv c).2 = true :=
  one_reply_full_nonspecial sv c (by rw [hn]; decide)
theorem one_reply_per_command_GEOADD (sv : Server) (c : Cmd) (hn : c.name = "GEOADD") :
    oneValue (step fullTable sv c).2 = true :=
  one_reply_full_nonspecial sv c (by rw [hn]; decide)
theorem one_reply_per_command_GEOHASH (sv : Server) (c : Cmd) (hn : c.name = "GEOHASH") :
    oneValue (step fullTable sv c).2 = true :=
  one_reply_full_nonspecial sv c (by rw [hn]; decide)
theorem one_reply_per_command_GEOPOS (sv : Server) (c : Cmd) (hn : c.name = "GEOPOS") :
    oneValue (step fullTable sv c).2 = true :=
  one_reply_full_nonspecial sv c (by rw [hn]; decide)
theorem one_reply_per_command_GEODIST (sv : Server) (c : Cmd) (hn : c.name = "GEODIST") :
    oneValue (step fullTable sv c).2 = true :=
  one_reply_full_nonspecial sv c (by rw [hn]; decide)
theorem one_reply_per_command_GEORADIUS (sv : Server) (c : Cmd) (hn : c.name = "GEORADIUS") :
    oneValue (step fullTable sv c).2 = true :=
  one_reply_full_nonspecial sv c (by rw [hn]; decide)
theorem one_reply_per_command_GEORADIUSBYMEMBER (sv : Server) (c : Cmd) (hn : c.name = "GEORADIUSBYMEMBER") :
    oneValue (step fullTable sv c).2 = true :=
  one_reply_full_nonspecial sv c (by rw [hn]; decide)

/-- the new commands ARE in the complete dispatch -/
example : (fullTable "GEOADD" []).isSome = true ∧ (fullTable "INFO" []).isSome = true ∧ (fullTable "QUIT" []).isSome = true ∧
    (fullTable "GEORADIUSBYMEMBER" [[1]]).isSome = true := by decide

/-- a pipeline through the new commands, replies computed by the model (decimal coordinates parsed and
    encoded by the exact arithmetic: the score is Redis' 3479099956230698 for Palermo; GEOHASH / GEOPOS
    as nodis answers them - FINDINGS.md) -/
example :
    (run fullTable {} [ { id := "c", name := "GEOADD", args := [[103], Bytes.ofString "13.361389", Bytes.ofString "38.115556", Bytes.ofString "Palermo"] },
      { id := "c", name := "ZSCORE", args := [[103], Bytes.ofString "Palermo"] },
      { id := "c", name := "GEOHASH", args := [[103], Bytes.ofString "Palermo", Bytes.ofString "nobody"] },
      { id := "c", name := "GEOPOS", args := [[103], Bytes.ofString "nobody"] },
      { id := "c", name := "GEODIST", args := [[103], Bytes.ofString "Palermo", Bytes.ofString "Palermo"] },
      { id := "c", name := "GEORADIUS", args := [[115], [48], [48], [49]] },
      { id := "c", name := "CONFIG", args := [Bytes.ofString "GET", Bytes.ofString "databases"] },
      { id := "c", name := "GEOADD", args := [[103], [49]] }]).2 =
    [[Tok.int 1], [Tok.bulk (Bytes.ofString "3479099956230698")], [Tok.arr 1, Tok.bulk (Bytes.ofString "sf7h526gsz0")],
     [Tok.arr 1, Tok.nullBulk], [Tok.bulk (Bytes.ofString "0.0000")], [Tok.arr 0],
     [Tok.arr 2, Tok.bulk (Bytes.ofString "databases"), Tok.bulk [48]], [Tok.err 0]] := by
  decide +kernel

end NodisVerif.C16
