import NodisVerif.Proofs.C16Step
import NodisVerif.Proofs.C16Wire
import NodisVerif.Proofs.C16Bulk
import NodisVerif.Proofs.C16Full
import NodisVerif.Props.C08
/-
  C16 — exactly one well-formed RESP reply per command, in order; pipelines stay in sync.

  Writer side: `Tok` / `render` / `oneValue` (Model/Resp.lean).  Reader side: the strict reference
  reader `parseReply` / `parseMany` on the value tree `Value` (Spec/RespReply.lean, written from the
  RESP2 specification).  `toValue` (Proofs/C16Parse.lean) is the value a complete token list denotes.
  Dispatch: `step` / `run` (Proofs/C08Step.lean) for an ARBITRARY handler table `H` satisfying the
  explicit well-formedness predicate `TableOneReply H` (every handler result is one value, for all
  stores, clocks and choices, panics included); discharged for the server's COMPLETE dispatch
  `fullTable = Driver.lookup [Handler.table1, Handler2.table2, Handler3.table3, Handler4.table4]` (`Main.tables`),
  without exception: `fullTable_ok`.  (MGET was a finding; the `fix:` is modelled and proved.)

  Side conditions of the wire-level theorems, both necessary (`arrOK_necessary`, `linesOK_necessary`):
  `ArrOK ts`: every array header has a count ≥ -1 (the writer would print `*-5` for `WriteArray(-5)`);
  `LinesOK ts`: no simple-string payload contains CR/LF.  Bulk payloads are unconstrained.
-/
namespace NodisVerif.C16
open NodisVerif.Proofs.C08Step Resp Server
open NodisVerif.Proofs.C16Parse NodisVerif.Spec.RespReply
open NodisVerif.Proofs.C16Handlers (OneReply)

/-! ## writer → bytes → reader -/

/-- `strconv.FormatInt` output is read back exactly, for every integer (no `DecimalOK` hypothesis:
    it is proved, `Proofs.C16Parse.decimalOK`) -/
theorem decimal_roundtrip (n : Int) : parseDec (formatInt n) = some n := parseDec_formatInt n

/-- the reference reader, applied to the bytes written for one complete value (followed by anything),
    returns exactly the denoted value and leaves exactly the rest -/
theorem render_parse_roundtrip (ts : List Tok) (rest : Bytes) (h1 : oneValue ts = true)
    (hA : ArrOK ts) (hS : LinesOK ts) (v : Value) (hv : toValue ts = some v) :
    parseReply (renderAll ts ++ rest) = some (v, rest) :=
  Proofs.C16Parse.render_parse_roundtrip ts rest h1 hA hS v hv

/-- every complete token list denotes a value -/
theorem oneValue_denotes (ts : List Tok) (h1 : oneValue ts = true) : ∃ v, toValue ts = some v :=
  toValue_of_oneValue ts h1

/-- a bulk reply is `$len\r\n payload \r\n` with len = the payload's length -/
theorem bulk_exact (b : Bytes) : render (.bulk b) = 36 :: formatInt b.length ++ [13, 10] ++ b ++ [13, 10] :=
  Proofs.C16Parse.bulk_exact b

/-- … and is read back as exactly the stored bytes, for EVERY payload (CR, LF, empty, any length) -/
theorem bulk_carries_exact_bytes (b rest : Bytes) : parseReply (render (.bulk b) ++ rest) = some (.bulk b, rest) :=
  bulk_parse b rest

/-- end to end, "bulk replies carry exactly the stored bytes with a correct length header": the
    closure of `SET k v` (on a missing key or a string) followed by the closure of the GET handler
    writes the single token `bulk v`, whose rendering is `$len\r\n v \r\n` with len = |v| and is
    read back as exactly `v` — for EVERY byte string v (CR, LF, NUL, empty, any length) -/
theorem stored_bytes_come_back (k v : Bytes) (st : MState) (now now' : Int) (ch ch' : Choice) (rest : Bytes)
    (h : Store.getMeta st k = none ∨ ∃ b, Proofs.C09Incr.StrAt k st b) :
    let reply := replyOf (outOf (storeAfter (outOf st now ch (Proofs.C09Incr.setBody k v))) now' ch'
                  (Proofs.C09Incr.getBody k))
    (∀ more, Handler.getString (k :: more) = .exec (Proofs.C09Incr.getBody k)) ∧
    reply = [Tok.bulk v] ∧
    renderAll reply = 36 :: formatInt v.length ++ [13, 10] ++ v ++ [13, 10] ∧
    parseReply (renderAll reply ++ rest) = some (.bulk v, rest) := by
  intro reply
  have e : reply = [Tok.bulk v] := Proofs.C09Incr.get_after_set k st now now' ch ch' v h
  refine ⟨fun more => rfl, e, ?_, ?_⟩
  · rw [e]; simp [renderAll, Proofs.C16Parse.bulk_exact]
  · rw [e]
    have := bulk_parse v rest
    simpa [renderAll] using this

/-! ## one reply per command -/

/-- EVERY command of every connection — known or unknown, with any arguments, inside or outside
    MULTI, MULTI / EXEC / DISCARD / WATCH / UNWATCH included — draws exactly one complete RESP value.
    `QueuesSat OneBody sv` (every queued closure writes one value) is an invariant of `run`
    (`queues_reachable`). -/
theorem one_reply_per_command {H : Table} (hH : TableOneReply H) {sv : Server} (hq : QueuesSat OneBody sv) (c : Cmd) :
    oneValue (step H sv c).2 = true := step_one_reply hH hq c

theorem queues_reachable {H : Table} (hH : TableOneReply H) (st : MState) (cs : List Cmd) :
    QueuesSat OneBody (run H { store := st } cs).1 :=
  QueuesSat.run okBody_one (fun n a b hb => hH.exec n a b hb) cs (QueuesSat.init _ st)

/-- replies appear in the order the commands were sent: `run` returns exactly one reply per command,
    the j-th being the reply to the j-th command, each one complete value -/
theorem replies_in_order {H : Table} (hH : TableOneReply H) {sv : Server} (hq : QueuesSat OneBody sv) (cs : List Cmd) :
    (run H sv cs).2.length = cs.length ∧ (∀ r ∈ (run H sv cs).2, oneValue r = true) ∧
    ∀ (pre post : List Cmd) (c : Cmd), cs = pre ++ c :: post →
      (run H sv cs).2[pre.length]? = some (step H (run H sv pre).1 c).2 := by
  refine ⟨run_replies_length H cs sv, run_one_reply hH cs hq, ?_⟩
  intro pre post c e
  subst e
  rw [run_append, run_cons]
  simp [run_replies_length]

/-- a single handler result that is one value (`OneReply`), dispatched outside MULTI: the reply is
    one value — no assumption on the rest of the table or on the queues -/
theorem one_reply_outside_multi (H : Table) (sv : Server) (c : Cmd) (hs : ¬ special c.name) (r : HRes)
    (hH : H c.name c.args = some r) (hr : OneReply r) (hst : runsNow (sv.conn c.id).state) :
    oneValue (step H sv c).2 = true := by
  show oneValue (dispatch H sv c).2 = true
  rw [dispatch_table H sv c hs, hH]
  cases r with
  | direct ts => exact hr
  | crash => exact oneValue_err 0
  | exec b =>
    simp only
    rw [execCommand_eq, if_pos hst, runBody_toks]
    exact hr _ _ _

/-- an unknown command, or a handler that panics outside `execCommand` (caught by the dispatch-level
    recover): one error reply -/
theorem unknown_command_one_error (H : Table) (sv : Server) (c : Cmd) (hs : ¬ special c.name)
    (hH : H c.name c.args = none ∨ H c.name c.args = some .crash) : (step H sv c).2 = [Tok.err 0] := by
  rw [step_unknown H sv c hs hH]

/-- inside MULTI every command whose handler hands a closure to `execCommand` replies exactly `+QUEUED` -/
theorem queued_inside_multi (H : Table) (sv : Server) (c : Cmd) (hs : ¬ special c.name) (b : Body)
    (hH : H c.name c.args = some (.exec b)) (hst : (sv.conn c.id).state % 2 = 1) :
    (step H sv c).2 = [queuedTok] ∧ oneValue (step H sv c).2 = true := by
  have := (C08.queued_has_no_effect H sv c hs b hH hst).1
  exact ⟨this, by rw [this]; exact oneValue_queued⟩

/-! ### `Handler.table1` (connection / keyspace / string families) -/

/-- a command that goes through the handler table (any name but MULTI/EXEC/DISCARD/WATCH/UNWATCH),
    any arguments, any server state — inside MULTI it is `+QUEUED` or the handler's own error reply,
    outside the closure's reply; unknown name: one error — draws one value.  No assumption on queues. -/
theorem one_reply_nonspecial {H : Table} (hH : TableOneReply H) (sv : Server) (c : Cmd) (hs : ¬ special c.name) :
    oneValue (step H sv c).2 = true := by
  show oneValue (dispatch H sv c).2 = true
  rw [dispatch_table H sv c hs]
  cases hr : H c.name c.args with
  | none => exact oneValue_err 0
  | some r =>
    have h := hH c.name c.args r hr
    cases r with
    | direct ts => exact h
    | crash => exact oneValue_err 0
    | exec b => exact execCommand_one _ _ _ _ _ (fun st now ch => h st now ch)

/-- the whole of `Handler.table1` satisfies the well-formedness predicate (MGET included, since the
    `fix:` that makes MGET read all its keys before it writes the array header) -/
theorem table1_ok : TableOneReply Handler.table1 := Proofs.C16Handlers.table1_one_reply

/-- every `table1` command, every argument vector, every server state: one value -/
theorem one_reply_table1 (sv : Server) (c : Cmd) (hs : ¬ special c.name) :
    oneValue (step Handler.table1 sv c).2 = true := one_reply_nonspecial table1_ok sv c hs

theorem one_reply_per_command_PING (sv : Server) (c : Cmd) (hn : c.name = "PING") :
    oneValue (step Handler.table1 sv c).2 = true :=
  one_reply_table1 sv c (by rw [hn]; decide)
theorem one_reply_per_command_ECHO (sv : Server) (c : Cmd) (hn : c.name = "ECHO") :
    oneValue (step Handler.table1 sv c).2 = true :=
  one_reply_table1 sv c (by rw [hn]; decide)
theorem one_reply_per_command_DBSIZE (sv : Server) (c : Cmd) (hn : c.name = "DBSIZE") :
    oneValue (step Handler.table1 sv c).2 = true :=
  one_reply_table1 sv c (by rw [hn]; decide)
theorem one_reply_per_command_FLUSHDB (sv : Server) (c : Cmd) (hn : c.name = "FLUSHDB") :
    oneValue (step Handler.table1 sv c).2 = true :=
  one_reply_table1 sv c (by rw [hn]; decide)
theorem one_reply_per_command_FLUSHALL (sv : Server) (c : Cmd) (hn : c.name = "FLUSHALL") :
    oneValue (step Handler.table1 sv c).2 = true :=
  one_reply_table1 sv c (by rw [hn]; decide)
theorem one_reply_per_command_DEL (sv : Server) (c : Cmd) (hn : c.name = "DEL") :
    oneValue (step Handler.table1 sv c).2 = true :=
  one_reply_table1 sv c (by rw [hn]; decide)
theorem one_reply_per_command_UNLINK (sv : Server) (c : Cmd) (hn : c.name = "UNLINK") :
    oneValue (step Handler.table1 sv c).2 = true :=
  one_reply_table1 sv c (by rw [hn]; decide)
theorem one_reply_per_command_EXISTS (sv : Server) (c : Cmd) (hn : c.name = "EXISTS") :
    oneValue (step Handler.table1 sv c).2 = true :=
  one_reply_table1 sv c (by rw [hn]; decide)
theorem one_reply_per_command_EXPIRE (sv : Server) (c : Cmd) (hn : c.name = "EXPIRE") :
    oneValue (step Handler.table1 sv c).2 = true :=
  one_reply_table1 sv c (by rw [hn]; decide)
theorem one_reply_per_command_EXPIREAT (sv : Server) (c : Cmd) (hn : c.name = "EXPIREAT") :
    oneValue (step Handler.table1 sv c).2 = true :=
  one_reply_table1 sv c (by rw [hn]; decide)
theorem one_reply_per_command_KEYS (sv : Server) (c : Cmd) (hn : c.name = "KEYS") :
    oneValue (step Handler.table1 sv c).2 = true :=
  one_reply_table1 sv c (by rw [hn]; decide)
theorem one_reply_per_command_RANDOMKEY (sv : Server) (c : Cmd) (hn : c.name = "RANDOMKEY") :
    oneValue (step Handler.table1 sv c).2 = true :=
  one_reply_table1 sv c (by rw [hn]; decide)
theorem one_reply_per_command_TTL (sv : Server) (c : Cmd) (hn : c.name = "TTL") :
    oneValue (step Handler.table1 sv c).2 = true :=
  one_reply_table1 sv c (by rw [hn]; decide)
theorem one_reply_per_command_PTTL (sv : Server) (c : Cmd) (hn : c.name = "PTTL") :
    oneValue (step Handler.table1 sv c).2 = true :=
  one_reply_table1 sv c (by rw [hn]; decide)
theorem one_reply_per_command_PERSIST (sv : Server) (c : Cmd) (hn : c.name = "PERSIST") :
    oneValue (step Handler.table1 sv c).2 = true :=
  one_reply_table1 sv c (by rw [hn]; decide)
theorem one_reply_per_command_RENAME (sv : Server) (c : Cmd) (hn : c.name = "RENAME") :
    oneValue (step Handler.table1 sv c).2 = true :=
  one_reply_table1 sv c (by rw [hn]; decide)
theorem one_reply_per_command_RENAMENX (sv : Server) (c : Cmd) (hn : c.name = "RENAMENX") :
    oneValue (step Handler.table1 sv c).2 = true :=
  one_reply_table1 sv c (by rw [hn]; decide)
theorem one_reply_per_command_TYPE (sv : Server) (c : Cmd) (hn : c.name = "TYPE") :
    oneValue (step Handler.table1 sv c).2 = true :=
  one_reply_table1 sv c (by rw [hn]; decide)
theorem one_reply_per_command_SCAN (sv : Server) (c : Cmd) (hn : c.name = "SCAN") :
    oneValue (step Handler.table1 sv c).2 = true :=
  one_reply_table1 sv c (by rw [hn]; decide)
theorem one_reply_per_command_SET (sv : Server) (c : Cmd) (hn : c.name = "SET") :
    oneValue (step Handler.table1 sv c).2 = true :=
  one_reply_table1 sv c (by rw [hn]; decide)
theorem one_reply_per_command_MSET (sv : Server) (c : Cmd) (hn : c.name = "MSET") :
    oneValue (step Handler.table1 sv c).2 = true :=
  one_reply_table1 sv c (by rw [hn]; decide)
theorem one_reply_per_command_APPEND (sv : Server) (c : Cmd) (hn : c.name = "APPEND") :
    oneValue (step Handler.table1 sv c).2 = true :=
  one_reply_table1 sv c (by rw [hn]; decide)
theorem one_reply_per_command_SETEX (sv : Server) (c : Cmd) (hn : c.name = "SETEX") :
    oneValue (step Handler.table1 sv c).2 = true :=
  one_reply_table1 sv c (by rw [hn]; decide)
theorem one_reply_per_command_SETNX (sv : Server) (c : Cmd) (hn : c.name = "SETNX") :
    oneValue (step Handler.table1 sv c).2 = true :=
  one_reply_table1 sv c (by rw [hn]; decide)
theorem one_reply_per_command_GET (sv : Server) (c : Cmd) (hn : c.name = "GET") :
    oneValue (step Handler.table1 sv c).2 = true :=
  one_reply_table1 sv c (by rw [hn]; decide)
theorem one_reply_per_command_GETSET (sv : Server) (c : Cmd) (hn : c.name = "GETSET") :
    oneValue (step Handler.table1 sv c).2 = true :=
  one_reply_table1 sv c (by rw [hn]; decide)
theorem one_reply_per_command_MGET (sv : Server) (c : Cmd) (hn : c.name = "MGET") :
    oneValue (step Handler.table1 sv c).2 = true :=
  one_reply_table1 sv c (by rw [hn]; decide)
theorem one_reply_per_command_SETRANGE (sv : Server) (c : Cmd) (hn : c.name = "SETRANGE") :
    oneValue (step Handler.table1 sv c).2 = true :=
  one_reply_table1 sv c (by rw [hn]; decide)
theorem one_reply_per_command_GETRANGE (sv : Server) (c : Cmd) (hn : c.name = "GETRANGE") :
    oneValue (step Handler.table1 sv c).2 = true :=
  one_reply_table1 sv c (by rw [hn]; decide)
theorem one_reply_per_command_STRLEN (sv : Server) (c : Cmd) (hn : c.name = "STRLEN") :
    oneValue (step Handler.table1 sv c).2 = true :=
  one_reply_table1 sv c (by rw [hn]; decide)
theorem one_reply_per_command_INCR (sv : Server) (c : Cmd) (hn : c.name = "INCR") :
    oneValue (step Handler.table1 sv c).2 = true :=
  one_reply_table1 sv c (by rw [hn]; decide)
theorem one_reply_per_command_DECR (sv : Server) (c : Cmd) (hn : c.name = "DECR") :
    oneValue (step Handler.table1 sv c).2 = true :=
  one_reply_table1 sv c (by rw [hn]; decide)
theorem one_reply_per_command_INCRBY (sv : Server) (c : Cmd) (hn : c.name = "INCRBY") :
    oneValue (step Handler.table1 sv c).2 = true :=
  one_reply_table1 sv c (by rw [hn]; decide)
theorem one_reply_per_command_DECRBY (sv : Server) (c : Cmd) (hn : c.name = "DECRBY") :
    oneValue (step Handler.table1 sv c).2 = true :=
  one_reply_table1 sv c (by rw [hn]; decide)
theorem one_reply_per_command_INCRBYFLOAT (sv : Server) (c : Cmd) (hn : c.name = "INCRBYFLOAT") :
    oneValue (step Handler.table1 sv c).2 = true :=
  one_reply_table1 sv c (by rw [hn]; decide)
theorem one_reply_per_command_SETBIT (sv : Server) (c : Cmd) (hn : c.name = "SETBIT") :
    oneValue (step Handler.table1 sv c).2 = true :=
  one_reply_table1 sv c (by rw [hn]; decide)
theorem one_reply_per_command_GETBIT (sv : Server) (c : Cmd) (hn : c.name = "GETBIT") :
    oneValue (step Handler.table1 sv c).2 = true :=
  one_reply_table1 sv c (by rw [hn]; decide)
theorem one_reply_per_command_BITCOUNT (sv : Server) (c : Cmd) (hn : c.name = "BITCOUNT") :
    oneValue (step Handler.table1 sv c).2 = true :=
  one_reply_table1 sv c (by rw [hn]; decide)

/-- MGET (a finding before the `fix:`): a wrong-typed key now gives the single error reply, whatever
    its position — `MGET a b` after `LPUSH a x` -/
theorem MGET_wrong_type_is_one_error :
    (step Handler.table1 { store := Proofs.C16Handlers.findingStore }
      { id := "c", name := "MGET", args := [[97], [98]] }).2 = [Tok.err 1] := by decide +kernel

/-! ### the complete dispatch (`Main.tables`): lists, hashes, sets, sorted sets, scans -/

/-- the server's complete handler table satisfies the well-formedness predicate: EVERY handler of
    every family, for every argument vector, store, clock and choice, panicking or not, writes exactly
    one complete RESP value.  No handler is left that can write anything else (the dead `done s []`
    branches of the scans and of Z*STORE are shown dead by result-shape lemmas of the Api functions). -/
theorem fullTable_ok : TableOneReply fullTable := fullTable_oneReply

/-- … and only tokens a strict reader accepts -/
theorem fullTable_wire_ok : TableWire fullTable := fullTable_wire

/-- every command that goes through the complete table, any server state -/
theorem one_reply_full_nonspecial (sv : Server) (c : Cmd) (hs : ¬ special c.name) :
    oneValue (step fullTable sv c).2 = true := one_reply_nonspecial fullTable_ok sv c hs

/-- every command whatsoever (MULTI / EXEC / … included) along every schedule from a fresh server -/
theorem one_reply_full (st : MState) (cs : List Cmd) : ∀ r ∈ (run fullTable { store := st } cs).2, oneValue r = true :=
  run_one_reply fullTable_ok cs (QueuesSat.init OneBody st)

theorem one_reply_per_command_LPUSH (sv : Server) (c : Cmd) (hn : c.name = "LPUSH") :
    oneValue (step fullTable sv c).2 = true :=
  one_reply_full_nonspecial sv c (by rw [hn]; decide)
theorem one_reply_per_command_RPUSH (sv : Server) (c : Cmd) (hn : c.name = "RPUSH") :
    oneValue (step fullTable sv c).2 = true :=
  one_reply_full_nonspecial sv c (by rw [hn]; decide)
theorem one_reply_per_command_LPOP (sv : Server) (c : Cmd) (hn : c.name = "LPOP") :
    oneValue (step fullTable sv c).2 = true :=
  one_reply_full_nonspecial sv c (by rw [hn]; decide)
theorem one_reply_per_command_RPOP (sv : Server) (c : Cmd) (hn : c.name = "RPOP") :
    oneValue (step fullTable sv c).2 = true :=
  one_reply_full_nonspecial sv c (by rw [hn]; decide)
theorem one_reply_per_command_LLEN (sv : Server) (c : Cmd) (hn : c.name = "LLEN") :
    oneValue (step fullTable sv c).2 = true :=
  one_reply_full_nonspecial sv c (by rw [hn]; decide)
theorem one_reply_per_command_LINDEX (sv : Server) (c : Cmd) (hn : c.name = "LINDEX") :
    oneValue (step fullTable sv c).2 = true :=
  one_reply_full_nonspecial sv c (by rw [hn]; decide)
theorem one_reply_per_command_LINSERT (sv : Server) (c : Cmd) (hn : c.name = "LINSERT") :
    oneValue (step fullTable sv c).2 = true :=
  one_reply_full_nonspecial sv c (by rw [hn]; decide)
theorem one_reply_per_command_LPUSHX (sv : Server) (c : Cmd) (hn : c.name = "LPUSHX") :
    oneValue (step fullTable sv c).2 = true :=
  one_reply_full_nonspecial sv c (by rw [hn]; decide)
theorem one_reply_per_command_RPUSHX (sv : Server) (c : Cmd) (hn : c.name = "RPUSHX") :
    oneValue (step fullTable sv c).2 = true :=
  one_reply_full_nonspecial sv c (by rw [hn]; decide)
theorem one_reply_per_command_LREM (sv : Server) (c : Cmd) (hn : c.name = "LREM") :
    oneValue (step fullTable sv c).2 = true :=
  one_reply_full_nonspecial sv c (by rw [hn]; decide)
theorem one_reply_per_command_LTRIM (sv : Server) (c : Cmd) (hn : c.name = "LTRIM") :
    oneValue (step fullTable sv c).2 = true :=
  one_reply_full_nonspecial sv c (by rw [hn]; decide)
theorem one_reply_per_command_LSET (sv : Server) (c : Cmd) (hn : c.name = "LSET") :
    oneValue (step fullTable sv c).2 = true :=
  one_reply_full_nonspecial sv c (by rw [hn]; decide)
theorem one_reply_per_command_LRANGE (sv : Server) (c : Cmd) (hn : c.name = "LRANGE") :
    oneValue (step fullTable sv c).2 = true :=
  one_reply_full_nonspecial sv c (by rw [hn]; decide)
theorem one_reply_per_command_LPOPRPUSH (sv : Server) (c : Cmd) (hn : c.name = "LPOPRPUSH") :
    oneValue (step fullTable sv c).2 = true :=
  one_reply_full_nonspecial sv c (by rw [hn]; decide)
theorem one_reply_per_command_RPOPLPUSH (sv : Server) (c : Cmd) (hn : c.name = "RPOPLPUSH") :
    oneValue (step fullTable sv c).2 = true :=
  one_reply_full_nonspecial sv c (by rw [hn]; decide)
theorem one_reply_per_command_HSET (sv : Server) (c : Cmd) (hn : c.name = "HSET") :
    oneValue (step fullTable sv c).2 = true :=
  one_reply_full_nonspecial sv c (by rw [hn]; decide)
theorem one_reply_per_command_HGET (sv : Server) (c : Cmd) (hn : c.name = "HGET") :
    oneValue (step fullTable sv c).2 = true :=
  one_reply_full_nonspecial sv c (by rw [hn]; decide)
theorem one_reply_per_command_HDEL (sv : Server) (c : Cmd) (hn : c.name = "HDEL") :
    oneValue (step fullTable sv c).2 = true :=
  one_reply_full_nonspecial sv c (by rw [hn]; decide)
theorem one_reply_per_command_HLEN (sv : Server) (c : Cmd) (hn : c.name = "HLEN") :
    oneValue (step fullTable sv c).2 = true :=
  one_reply_full_nonspecial sv c (by rw [hn]; decide)
theorem one_reply_per_command_HKEYS (sv : Server) (c : Cmd) (hn : c.name = "HKEYS") :
    oneValue (step fullTable sv c).2 = true :=
  one_reply_full_nonspecial sv c (by rw [hn]; decide)
theorem one_reply_per_command_HEXISTS (sv : Server) (c : Cmd) (hn : c.name = "HEXISTS") :
    oneValue (step fullTable sv c).2 = true :=
  one_reply_full_nonspecial sv c (by rw [hn]; decide)
theorem one_reply_per_command_HGETALL (sv : Server) (c : Cmd) (hn : c.name = "HGETALL") :
    oneValue (step fullTable sv c).2 = true :=
  one_reply_full_nonspecial sv c (by rw [hn]; decide)
theorem one_reply_per_command_HINCRBY (sv : Server) (c : Cmd) (hn : c.name = "HINCRBY") :
    oneValue (step fullTable sv c).2 = true :=
  one_reply_full_nonspecial sv c (by rw [hn]; decide)
theorem one_reply_per_command_HINCRBYFLOAT (sv : Server) (c : Cmd) (hn : c.name = "HINCRBYFLOAT") :
    oneValue (step fullTable sv c).2 = true :=
  one_reply_full_nonspecial sv c (by rw [hn]; decide)
theorem one_reply_per_command_HSETNX (sv : Server) (c : Cmd) (hn : c.name = "HSETNX") :
    oneValue (step fullTable sv c).2 = true :=
  one_reply_full_nonspecial sv c (by rw [hn]; decide)
theorem one_reply_per_command_HMGET (sv : Server) (c : Cmd) (hn : c.name = "HMGET") :
    oneValue (step fullTable sv c).2 = true :=
  one_reply_full_nonspecial sv c (by rw [hn]; decide)
theorem one_reply_per_command_HMSET (sv : Server) (c : Cmd) (hn : c.name = "HMSET") :
    oneValue (step fullTable sv c).2 = true :=
  one_reply_full_nonspecial sv c (by rw [hn]; decide)
theorem one_reply_per_command_HCLEAR (sv : Server) (c : Cmd) (hn : c.name = "HCLEAR") :
    oneValue (step fullTable sv c).2 = true :=
  one_reply_full_nonspecial sv c (by rw [hn]; decide)
theorem one_reply_per_command_HSTRLEN (sv : Server) (c : Cmd) (hn : c.name = "HSTRLEN") :
    oneValue (step fullTable sv c).2 = true :=
  one_reply_full_nonspecial sv c (by rw [hn]; decide)
theorem one_reply_per_command_HVALS (sv : Server) (c : Cmd) (hn : c.name = "HVALS") :
    oneValue (step fullTable sv c).2 = true :=
  one_reply_full_nonspecial sv c (by rw [hn]; decide)
theorem one_reply_per_command_SADD (sv : Server) (c : Cmd) (hn : c.name = "SADD") :
    oneValue (step fullTable sv c).2 = true :=
  one_reply_full_nonspecial sv c (by rw [hn]; decide)
theorem one_reply_per_command_SMOVE (sv : Server) (c : Cmd) (hn : c.name = "SMOVE") :
    oneValue (step fullTable sv c).2 = true :=
  one_reply_full_nonspecial sv c (by rw [hn]; decide)
theorem one_reply_per_command_SCARD (sv : Server) (c : Cmd) (hn : c.name = "SCARD") :
    oneValue (step fullTable sv c).2 = true :=
  one_reply_full_nonspecial sv c (by rw [hn]; decide)
theorem one_reply_per_command_SPOP (sv : Server) (c : Cmd) (hn : c.name = "SPOP") :
    oneValue (step fullTable sv c).2 = true :=
  one_reply_full_nonspecial sv c (by rw [hn]; decide)
theorem one_reply_per_command_SDIFF (sv : Server) (c : Cmd) (hn : c.name = "SDIFF") :
    oneValue (step fullTable sv c).2 = true :=
  one_reply_full_nonspecial sv c (by rw [hn]; decide)
theorem one_reply_per_command_SDIFFSTORE (sv : Server) (c : Cmd) (hn : c.name = "SDIFFSTORE") :
    oneValue (step fullTable sv c).2 = true :=
  one_reply_full_nonspecial sv c (by rw [hn]; decide)
theorem one_reply_per_command_SINTER (sv : Server) (c : Cmd) (hn : c.name = "SINTER") :
    oneValue (step fullTable sv c).2 = true :=
  one_reply_full_nonspecial sv c (by rw [hn]; decide)
theorem one_reply_per_command_SINTERSTORE (sv : Server) (c : Cmd) (hn : c.name = "SINTERSTORE") :
    oneValue (step fullTable sv c).2 = true :=
  one_reply_full_nonspecial sv c (by rw [hn]; decide)
theorem one_reply_per_command_SUNION (sv : Server) (c : Cmd) (hn : c.name = "SUNION") :
    oneValue (step fullTable sv c).2 = true :=
  one_reply_full_nonspecial sv c (by rw [hn]; decide)
theorem one_reply_per_command_SUNIONSTORE (sv : Server) (c : Cmd) (hn : c.name = "SUNIONSTORE") :
    oneValue (step fullTable sv c).2 = true :=
  one_reply_full_nonspecial sv c (by rw [hn]; decide)
theorem one_reply_per_command_SISMEMBER (sv : Server) (c : Cmd) (hn : c.name = "SISMEMBER") :
    oneValue (step fullTable sv c).2 = true :=
  one_reply_full_nonspecial sv c (by rw [hn]; decide)
theorem one_reply_per_command_SMEMBERS (sv : Server) (c : Cmd) (hn : c.name = "SMEMBERS") :
    oneValue (step fullTable sv c).2 = true :=
  one_reply_full_nonspecial sv c (by rw [hn]; decide)
theorem one_reply_per_command_SRANDMEMBER (sv : Server) (c : Cmd) (hn : c.name = "SRANDMEMBER") :
    oneValue (step fullTable sv c).2 = true :=
  one_reply_full_nonspecial sv c (by rw [hn]; decide)
theorem one_reply_per_command_SREM (sv : Server) (c : Cmd) (hn : c.name = "SREM") :
    oneValue (step fullTable sv c).2 = true :=
  one_reply_full_nonspecial sv c (by rw [hn]; decide)
theorem one_reply_per_command_ZADD (sv : Server) (c : Cmd) (hn : c.name = "ZADD") :
    oneValue (step fullTable sv c).2 = true :=
  one_reply_full_nonspecial sv c (by rw [hn]; decide)
theorem one_reply_per_command_ZCARD (sv : Server) (c : Cmd) (hn : c.name = "ZCARD") :
    oneValue (step fullTable sv c).2 = true :=
  one_reply_full_nonspecial sv c (by rw [hn]; decide)
theorem one_reply_per_command_ZRANK (sv : Server) (c : Cmd) (hn : c.name = "ZRANK") :
    oneValue (step fullTable sv c).2 = true :=
  one_reply_full_nonspecial sv c (by rw [hn]; decide)
theorem one_reply_per_command_ZREVRANK (sv : Server) (c : Cmd) (hn : c.name = "ZREVRANK") :
    oneValue (step fullTable sv c).2 = true :=
  one_reply_full_nonspecial sv c (by rw [hn]; decide)
theorem one_reply_per_command_ZSCORE (sv : Server) (c : Cmd) (hn : c.name = "ZSCORE") :
    oneValue (step fullTable sv c).2 = true :=
  one_reply_full_nonspecial sv c (by rw [hn]; decide)
theorem one_reply_per_command_ZINCRBY (sv : Server) (c : Cmd) (hn : c.name = "ZINCRBY") :
    oneValue (step fullTable sv c).2 = true :=
  one_reply_full_nonspecial sv c (by rw [hn]; decide)
theorem one_reply_per_command_ZRANGE (sv : Server) (c : Cmd) (hn : c.name = "ZRANGE") :
    oneValue (step fullTable sv c).2 = true :=
  one_reply_full_nonspecial sv c (by rw [hn]; decide)
theorem one_reply_per_command_ZREVRANGE (sv : Server) (c : Cmd) (hn : c.name = "ZREVRANGE") :
    oneValue (step fullTable sv c).2 = true :=
  one_reply_full_nonspecial sv c (by rw [hn]; decide)
theorem one_reply_per_command_ZRANGEBYSCORE (sv : Server) (c : Cmd) (hn : c.name = "ZRANGEBYSCORE") :
    oneValue (step fullTable sv c).2 = true :=
  one_reply_full_nonspecial sv c (by rw [hn]; decide)
theorem one_reply_per_command_ZREVRANGEBYSCORE (sv : Server) (c : Cmd) (hn : c.name = "ZREVRANGEBYSCORE") :
    oneValue (step fullTable sv c).2 = true :=
  one_reply_full_nonspecial sv c (by rw [hn]; decide)
theorem one_reply_per_command_ZCOUNT (sv : Server) (c : Cmd) (hn : c.name = "ZCOUNT") :
    oneValue (step fullTable sv c).2 = true :=
  one_reply_full_nonspecial sv c (by rw [hn]; decide)
theorem one_reply_per_command_ZREM (sv : Server) (c : Cmd) (hn : c.name = "ZREM") :
    oneValue (step fullTable sv c).2 = true :=
  one_reply_full_nonspecial sv c (by rw [hn]; decide)
theorem one_reply_per_command_ZREMRANGEBYRANK (sv : Server) (c : Cmd) (hn : c.name = "ZREMRANGEBYRANK") :
    oneValue (step fullTable sv c).2 = true :=
  one_reply_full_nonspecial sv c (by rw [hn]; decide)
theorem one_reply_per_command_ZREMRANGEBYSCORE (sv : Server) (c : Cmd) (hn : c.name = "ZREMRANGEBYSCORE") :
    oneValue (step fullTable sv c).2 = true :=
  one_reply_full_nonspecial sv c (by rw [hn]; decide)
theorem one_reply_per_command_ZUNIONSTORE (sv : Server) (c : Cmd) (hn : c.name = "ZUNIONSTORE") :
    oneValue (step fullTable sv c).2 = true :=
  one_reply_full_nonspecial sv c (by rw [hn]; decide)
theorem one_reply_per_command_ZINTERSTORE (sv : Server) (c : Cmd) (hn : c.name = "ZINTERSTORE") :
    oneValue (step fullTable sv c).2 = true :=
  one_reply_full_nonspecial sv c (by rw [hn]; decide)
theorem one_reply_per_command_ZCLEAR (sv : Server) (c : Cmd) (hn : c.name = "ZCLEAR") :
    oneValue (step fullTable sv c).2 = true :=
  one_reply_full_nonspecial sv c (by rw [hn]; decide)
theorem one_reply_per_command_ZEXISTS (sv : Server) (c : Cmd) (hn : c.name = "ZEXISTS") :
    oneValue (step fullTable sv c).2 = true :=
  one_reply_full_nonspecial sv c (by rw [hn]; decide)
theorem one_reply_per_command_SSCAN (sv : Server) (c : Cmd) (hn : c.name = "SSCAN") :
    oneValue (step fullTable sv c).2 = true :=
  one_reply_full_nonspecial sv c (by rw [hn]; decide)
theorem one_reply_per_command_HSCAN (sv : Server) (c : Cmd) (hn : c.name = "HSCAN") :
    oneValue (step fullTable sv c).2 = true :=
  one_reply_full_nonspecial sv c (by rw [hn]; decide)
theorem one_reply_per_command_ZSCAN (sv : Server) (c : Cmd) (hn : c.name = "ZSCAN") :
    oneValue (step fullTable sv c).2 = true :=
  one_reply_full_nonspecial sv c (by rw [hn]; decide)

/-! ## pipelines stay in sync -/

/-- if every command's reply is one value, the concatenated byte stream of k commands followed by a
    marker command parses — reading replies one after the other — into exactly k + 1 values, the j-th
    being the value of the j-th command's reply and the last one the marker's; nothing is left over -/
theorem pipeline_in_sync (H : Table) (sv : Server) (cmds : List Cmd) (marker : Cmd) (rest : Bytes)
    (hok : ∀ r ∈ (run H sv (cmds ++ [marker])).2, oneValue r = true ∧ ArrOK r ∧ LinesOK r) :
    let replies := (run H sv cmds).2
    let m := (step H (run H sv cmds).1 marker).2
    (run H sv (cmds ++ [marker])).2 = replies ++ [m] ∧ replies.length = cmds.length ∧
    ∃ (vs : List Value) (vm : Value), replies.map toValue = vs.map some ∧ toValue m = some vm ∧
      parseMany (cmds.length + 1) ((replies ++ [m]).flatMap renderAll ++ rest) = some (vs ++ [vm], rest) := by
  intro replies m
  have e : (run H sv (cmds ++ [marker])).2 = replies ++ [m] := by
    rw [run_append]; simp [run, replies, m]
  rw [e] at hok
  have hl : replies.length = cmds.length := run_replies_length H cmds sv
  refine ⟨e, hl, ?_⟩
  obtain ⟨vs, vm, h1, h2, h3⟩ := pipeline_in_sync' replies m rest
    (fun r hr => hok r (List.mem_append_left _ hr)) (hok m (by simp))
  rw [hl] at h3
  exact ⟨vs, vm, h1, h2, h3⟩

/-- the same for a table satisfying `TableOneReply`: `oneValue` need not be assumed -/
theorem pipeline_in_sync_table {H : Table} (hH : TableOneReply H) {sv : Server} (hq : QueuesSat OneBody sv)
    (cmds : List Cmd) (marker : Cmd) (rest : Bytes)
    (hok : ∀ r ∈ (run H sv (cmds ++ [marker])).2, ArrOK r ∧ LinesOK r) :
    ∃ (vs : List Value) (vm : Value),
      (run H sv cmds).2.map toValue = vs.map some ∧ toValue (step H (run H sv cmds).1 marker).2 = some vm ∧
      parseMany (cmds.length + 1) ((run H sv (cmds ++ [marker])).2.flatMap renderAll ++ rest) = some (vs ++ [vm], rest) := by
  have h1 := run_one_reply hH (cmds ++ [marker]) hq
  obtain ⟨e, _, vs, vm, a, b, c⟩ := pipeline_in_sync H sv cmds marker rest (fun r hr => ⟨h1 r hr, hok r hr⟩)
  exact ⟨vs, vm, a, b, by rw [e]; exact c⟩

/-- closed form for tables that satisfy both well-formedness predicates (`TableOneReply`: one value
    per handler result; `TableWire`: array counts ≥ -1, simple strings without CR/LF): starting from a
    fresh server on ANY store, for EVERY pipeline of commands of any connections followed by a marker,
    the reader gets exactly one value per command, in order, then the marker's, and nothing is left -/
theorem pipeline_in_sync_wellformed {H : Table} (hH : TableOneReply H) (hW : TableWire H) (st : MState)
    (cmds : List Cmd) (marker : Cmd) (rest : Bytes) :
    ∃ (vs : List Value) (vm : Value), vs.length = cmds.length ∧
      (run H { store := st } cmds).2.map toValue = vs.map some ∧
      toValue (step H (run H { store := st } cmds).1 marker).2 = some vm ∧
      parseMany (cmds.length + 1) ((run H { store := st } (cmds ++ [marker])).2.flatMap renderAll ++ rest) =
        some (vs ++ [vm], rest) := by
  have hw := run_wire hW (cmds ++ [marker]) (QueuesSat.init WireBody st)
  obtain ⟨vs, vm, a, b, c⟩ := pipeline_in_sync_table hH (QueuesSat.init OneBody st) cmds marker rest hw
  refine ⟨vs, vm, ?_, a, b, c⟩
  have := congrArg List.length a
  simp only [List.length_map] at this
  rw [← this]; exact run_replies_length H cmds _

/-- … in particular for the handler table of the connection / keyspace / string families:
    any pipeline, any arguments, any store: k commands + marker ⇒ exactly k + 1 replies, in order -/
theorem pipeline_in_sync_table1 (st : MState) (cmds : List Cmd) (marker : Cmd) (rest : Bytes) :
    ∃ (vs : List Value) (vm : Value), vs.length = cmds.length ∧
      (run Handler.table1 { store := st } cmds).2.map toValue = vs.map some ∧
      toValue (step Handler.table1 (run Handler.table1 { store := st } cmds).1 marker).2 = some vm ∧
      parseMany (cmds.length + 1) ((run Handler.table1 { store := st } (cmds ++ [marker])).2.flatMap renderAll ++ rest) =
        some (vs ++ [vm], rest) :=
  pipeline_in_sync_wellformed table1_ok table1_wire st cmds marker rest

/-- the server's complete dispatch: ANY pipeline of ANY commands of ANY connections from a fresh
    server on any store: k commands + marker ⇒ exactly k + 1 values, in order, nothing left over -/
theorem pipeline_in_sync_full (st : MState) (cmds : List Cmd) (marker : Cmd) (rest : Bytes) :
    ∃ (vs : List Value) (vm : Value), vs.length = cmds.length ∧
      (run fullTable { store := st } cmds).2.map toValue = vs.map some ∧
      toValue (step fullTable (run fullTable { store := st } cmds).1 marker).2 = some vm ∧
      parseMany (cmds.length + 1) ((run fullTable { store := st } (cmds ++ [marker])).2.flatMap renderAll ++ rest) =
        some (vs ++ [vm], rest) :=
  pipeline_in_sync_wellformed fullTable_ok fullTable_wire_ok st cmds marker rest

/-! ## the EXEC reply -/

/-- EXEC on a clean prepared transaction with queue [b₁…bₙ], n > 0, each closure writing one value: on
    the wire the reply is ONE array of exactly n elements, the j-th element being the value of the
    j-th queued closure's reply, in queue order -/
theorem exec_array_matches_queue (H : Table) (sv : Server) (c : Cmd) (hn : c.name = "EXEC")
    (hst : (sv.conn c.id).state = multiPrepare) (hne : (sv.conn c.id).queue ≠ [])
    (hw : (sv.conn c.id).watch.any (·.2) = false)
    (hone : ∀ b ∈ (sv.conn c.id).queue, OneBody b)
    (hwire : ∀ o ∈ execOuts sv.store c.now (sv.conn c.id).queue, ArrOK (replyOf o) ∧ LinesOK (replyOf o))
    (rest : Bytes) :
    ∃ vs : List Value, vs.length = (sv.conn c.id).queue.length ∧
      (execOuts sv.store c.now (sv.conn c.id).queue).map (fun o => toValue (replyOf o)) = vs.map some ∧
      parseReply (renderAll (step H sv c).2 ++ rest) = some (.array vs, rest) := by
  obtain ⟨_, h2, h3, _⟩ := C08.exec_runs_each_once_in_order H sv c hn hst hne hw
  let rs := (execOuts sv.store c.now (sv.conn c.id).queue).map replyOf
  have hrs : ∀ r ∈ rs, oneValue r = true ∧ ArrOK r ∧ LinesOK r := by
    intro r hr
    have h1 := execOuts_one c.now _ sv.store hone r hr
    obtain ⟨o, ho, rfl⟩ := List.mem_map.mp hr
    exact ⟨h1, hwire o ho⟩
  have hex : ∃ vs : List Value, rs.map toValue = vs.map some := by
    have : ∀ (xs : List (List Tok)), (∀ r ∈ xs, oneValue r = true) → ∃ vs : List Value, xs.map toValue = vs.map some := by
      intro xs
      induction xs with
      | nil => intro _; exact ⟨[], rfl⟩
      | cons x xs ih =>
        intro h
        obtain ⟨vs, hvs⟩ := ih (fun r hr => h r (List.mem_cons_of_mem _ hr))
        obtain ⟨v, hv⟩ := toValue_of_oneValue x (h x (by simp))
        exact ⟨v :: vs, by simp [hv, hvs]⟩
    exact this rs (fun r hr => (hrs r hr).1)
  obtain ⟨vs, hvs⟩ := hex
  have hlen : rs.length = (sv.conn c.id).queue.length := by simp [rs, h3]
  refine ⟨vs, ?_, ?_, ?_⟩
  · have := congrArg List.length hvs
    simp only [List.length_map] at this
    omega
  · simpa [rs, List.map_map, Function.comp_def] using hvs
  · have := parse_array_of_values rs vs rest hrs hvs
    rw [h2, List.flatMap_def, ← hlen]
    exact this

/-! ## non-vacuity -/

example : TableOneReply Handler.table1 := table1_ok
example : ∃ r, Handler.table1 "GET" [[1]] = some r := ⟨_, rfl⟩
example : QueuesSat OneBody ({} : Server) := QueuesSat.init _ {}
/-- a concrete pipeline: three commands and a marker, replies and parse computed -/
example :
    (run Handler.table1 {} [{ id := "c", name := "SET", args := [[107], [13, 10]] }, { id := "c", name := "GET", args := [[107]] },
      { id := "c", name := "NOSUCH" }, { id := "c", name := "PING" }]).2 =
    [[okTok], [Tok.bulk [13, 10]], [Tok.err 0], [Tok.bulk (Bytes.ofString "PONG")]] := by decide +kernel

/- UNPROVED: nothing.  No finding is left: every handler of `fullTable` writes exactly one well-formed value. -/

/-- a pipeline across the families (lists, sorted sets with scores, hashes, a wrong-type error, PING) -/
example :
    (run fullTable {} [ { id := "c", name := "RPUSH", args := [[108], [97], [98]] },
      { id := "c", name := "LRANGE", args := [[108], [48], [45, 49]] },
      { id := "c", name := "ZADD", args := [[122], [49], [109]] },
      { id := "c", name := "ZRANGE", args := [[122], [48], [45, 49], [87, 73, 84, 72, 83, 67, 79, 82, 69, 83]] },
      { id := "c", name := "HSET", args := [[104], [102], [118]] }, { id := "c", name := "HGETALL", args := [[104]] },
      { id := "c", name := "ZRANGE", args := [[108], [48], [45, 49]] }, { id := "c", name := "PING" }]).2 =
    [[Tok.int 2], [Tok.arr 2, Tok.bulk [97], Tok.bulk [98]], [Tok.int 1], [Tok.arr 2, Tok.bulk [109], Tok.bulk [49]],
     [Tok.int 1], [Tok.arr 2, Tok.bulk [102], Tok.bulk [118]], [Tok.err 1], [Tok.bulk [80, 79, 78, 71]]] := by
  decide +kernel

/-! ### the commands that had no model: `Handler4.table4` (CLIENT, CONFIG, INFO, QUIT, SAVE, GEO*)

  `fullTable` (and with it `fullTable_ok`, `fullTable_wire_ok`, `one_reply_full`, `pipeline_in_sync_full`)
  now ranges over table1 + table2 + table3 + table4: no command of handler.go's dispatch table is left
  outside the model (`Spec/SourceFacts.lean`: `unmodelled = []`).  For the relational replies (members and
  distances of radius queries, decimal coordinate text) the statement covers EVERY choice list the
  implementation could hand in, well-formed or not. -/

/-- every handler of table4, every argument vector, store, clock and choice, panics included: exactly one
    RESP value -/
theorem table4_ok : TableOneReply Handler4.table4 := Proofs.C16Table4.table4_tableOneReply

/-- … and only tokens a strict reader accepts -/
theorem table4_wire_ok : TableWire Handler4.table4 := Proofs.C16Table4.table4_wire

theorem one_reply_per_command_CLIENT (sv : Server) (c : Cmd) (hn : c.name = "CLIENT") :
    oneValue (step fullTable sv c).2 = true :=
  one_reply_full_nonspecial sv c (by rw [hn]; decide)
theorem one_reply_per_command_CONFIG (sv : Server) (c : Cmd) (hn : c.name = "CONFIG") :
    oneValue (step fullTable sv c).2 = true :=
  one_reply_full_nonspecial sv c (by rw [hn]; decide)
theorem one_reply_per_command_INFO (sv : Server) (c : Cmd) (hn : c.name = "INFO") :
    oneValue (step fullTable sv c).2 = true :=
  one_reply_full_nonspecial sv c (by rw [hn]; decide)
theorem one_reply_per_command_QUIT (sv : Server) (c : Cmd) (hn : c.name = "QUIT") :
    oneValue (step fullTable sv c).2 = true :=
  one_reply_full_nonspecial sv c (by rw [hn]; decide)
theorem one_reply_per_command_SAVE (sv : Server) (c : Cmd) (hn : c.name = "SAVE") :
    oneValue (step fullTable sv c).2 = true :=
  one_reply_full_nonspecial sv c (by rw [hn]; decide)
theorem one_reply_per_command_GEOADD (sv : Server) (c : Cmd) (hn : c.name = "GEOADD") :
    oneValue (step fullTable sv c).2 = true :=
  one_reply_full_nonspecial sv c (by rw [hn]; decide)
theorem one_reply_per_command_GEOHASH (sv : Server) (c : Cmd) (hn : c.name = "GEOHASH") :
    oneValue (step fullTable sv c).2 = true :=
  one_reply_full_nonspecial sv c (by rw [hn]; decide)
theorem one_reply_per_command_GEOPOS (sv : Server) (c : Cmd) (hn : c.name = "GEOPOS") :
    oneValue (step fullTable sv c).2 = true :=
  one_reply_full_nonspecial sv c (by rw [hn]; decide)
theorem one_reply_per_command_GEODIST (sv : Server) (c : Cmd) (hn : c.name = "GEODIST") :
    oneValue (step fullTable sv c).2 = true :=
  one_reply_full_nonspecial sv c (by rw [hn]; decide)
theorem one_reply_per_command_GEORADIUS (sv : Server) (c : Cmd) (hn : c.name = "GEORADIUS") :
    oneValue (step fullTable sv c).2 = true :=
  one_reply_full_nonspecial sv c (by rw [hn]; decide)
theorem one_reply_per_command_GEORADIUSBYMEMBER (sv : Server) (c : Cmd) (hn : c.name = "GEORADIUSBYMEMBER") :
    oneValue (step fullTable sv c).2 = true :=
  one_reply_full_nonspecial sv c (by rw [hn]; decide)

/-- the new commands ARE in the complete dispatch -/
example : (fullTable "GEOADD" []).isSome = true ∧ (fullTable "INFO" []).isSome = true ∧ (fullTable "QUIT" []).isSome = true ∧
    (fullTable "GEORADIUSBYMEMBER" [[1]]).isSome = true := by decide

/-- a pipeline through the new commands, replies computed by the model (decimal coordinates parsed and
    encoded by the exact arithmetic: the score is Redis' 3479099956230698 for Palermo; GEOHASH / GEOPOS
    as nodis answers them - FINDINGS.md) -/
example :
    (run fullTable {} [ { id := "c", name := "GEOADD", args := [[103], Bytes.ofString "13.361389", Bytes.ofString "38.115556", Bytes.ofString "Palermo"] },
      { id := "c", name := "ZSCORE", args := [[103], Bytes.ofString "Palermo"] },
      { id := "c", name := "GEOHASH", args := [[103], Bytes.ofString "Palermo", Bytes.ofString "nobody"] },
      { id := "c", name := "GEOPOS", args := [[103], Bytes.ofString "nobody"] },
      { id := "c", name := "GEODIST", args := [[103], Bytes.ofString "Palermo", Bytes.ofString "Palermo"] },
      { id := "c", name := "GEORADIUS", args := [[115], [48], [48], [49]] },
      { id := "c", name := "CONFIG", args := [Bytes.ofString "GET", Bytes.ofString "databases"] },
      { id := "c", name := "GEOADD", args := [[103], [49]] }]).2 =
    [[Tok.int 1], [Tok.bulk (Bytes.ofString "3479099956230698")], [Tok.arr 1, Tok.bulk (Bytes.ofString "sf7h526gsz0")],
     [Tok.arr 1, Tok.nullBulk], [Tok.bulk (Bytes.ofString "0.0000")], [Tok.arr 0],
     [Tok.arr 2, Tok.bulk (Bytes.ofString "databases"), Tok.bulk [48]], [Tok.err 0]] := by
  decide +kernel

end NodisVerif.C16
