import NodisVerif.Model.RespReader
import NodisVerif.Spec.RespEnc
import NodisVerif.Proofs.C15Pipeline
import NodisVerif.Proofs.C15Upper
import NodisVerif.Proofs.C15Opt
import NodisVerif.Proofs.C15Win
/-
  C15 — RESP requests parse exactly: binary-safe under any fragmentation / pipelining.
  Property theorems only; helper lemmas live in Proofs/C15*.lean, the reference encoder in
  Spec/RespEnc.lean. Everything is unbounded: every byte string of every length as name/argument,
  every number of arguments, every split of the stream into `Read`s, every pipeline length.

  Guards (exactly what the model needs, nothing else):
   * every bulk (name and arguments) is at most 536870912 bytes = 512 MiB, the protocol limit
     `maxBulk` of `readBulk` (beyond it: `parse_too_large`, an error reply, not a panic);
   * the element count `1 + args.length` is an int64.
-/
namespace NodisVerif.C15
open Resp RespReader Spec.RespEnc

/-! ## 1. The result depends on the byte stream only, not on how it is split into reads -/

/-- what the rest of the server can observe of one `ReadCommand`: the command and the bytes still to
    come / the error kind / the panic. (`readAll`, i.e. `handleConn`, restarts every command from
    `{ src := st.src }`: the window fields of the returned state are never looked at again.) -/
inductive Obs
  | ok (c : Cmd) (rest : Bytes)
  | err (e : RErr)
  | panic
deriving DecidableEq

def obs : Res Cmd → Obs
  | .ok c st => .ok c (srcFlat st.src)
  | .err e _ => .err e
  | .panic => .panic

/-- two connections delivering the same bytes in different fragments are parsed identically -/
theorem chunk_independent (src₁ src₂ : Source) (h : srcFlat src₁ = srcFlat src₂) :
    obs (readCommand src₁) = obs (readCommand src₂) := by
  rcases (Proofs.C15.readCommand_congr h).cases with ⟨c, p, q, e1, e2, hpq⟩ | ⟨e, p, q, e1, e2, hpq⟩ | ⟨e1, e2⟩
  · rw [e1, e2]; simp [obs, hpq.1]
  · rw [e1, e2]; simp [obs]
  · rw [e1, e2]

/-- the same, including the reader's window (`before`, `win`) in the returned state: outcomes agree
    up to the flattening of the remaining source (`REq`: same constructor, same value / error, states
    with equal `srcFlat src`, equal `before`, equal `win`) -/
theorem chunk_independent_state (src₁ src₂ : Source) (h : srcFlat src₁ = srcFlat src₂) :
    Proofs.C15.REq (readCommand src₁) (readCommand src₂) :=
  Proofs.C15.readCommand_congr h

/-- exactly what holds of the window after a complete command: it is empty (every byte read has
    been consumed by `malloc()`); `before` is the last byte consumed and is never used again because
    `ReadCommand` starts with `reset()` -/
theorem window_empty_after_command (src : Source) (c : Cmd) (st : RState) (h : readCommand src = .ok c st) :
    st.win = [] :=
  Proofs.C15.readCommand_ok_win h

/-- in particular any fragmentation behaves like the whole stream arriving in one read -/
theorem chunk_independent_single (src : Source) :
    obs (readCommand src) = obs (readCommand [srcFlat src]) :=
  chunk_independent src [srcFlat src] (by simp)

/-- the whole connection (all commands until the first error) depends on the byte stream only -/
theorem chunk_independent_all (src₁ src₂ : Source) (h : srcFlat src₁ = srcFlat src₂) (fuel : Nat) (acc : List Cmd) :
    readAll src₁ fuel acc = readAll src₂ fuel acc :=
  Proofs.C15.readAll_congr fuel acc h

/-- every reader primitive commutes with flattening (the statements behind `chunk_independent`) -/
theorem primitives_chunk_independent {s t : RState} (h : Proofs.C15.SEq s t) :
    Proofs.C15.REq (readByte s) (readByte t) ∧
    (∀ n, Proofs.C15.REq (readByteN s n (remaining s + 1)) (readByteN t n (remaining t + 1))) ∧
    (∀ fuel, Proofs.C15.REq (readLine s fuel) (readLine t fuel)) ∧
    Proofs.C15.REq (readInteger s) (readInteger t) ∧
    Proofs.C15.REq (readBulk s) (readBulk t) ∧
    (∀ k acc, Proofs.C15.REq (readBulks s k acc) (readBulks t k acc)) ∧
    (∀ e fuel, Proofs.C15.REq (readUtil e s fuel) (readUtil e t fuel)) ∧
    (∀ fuel acc, Proofs.C15.REq (inlineArgs s fuel acc) (inlineArgs t fuel acc)) ∧
    Proofs.C15.REq (readInline s) (readInline t) :=
  ⟨Proofs.C15.readByte_congr h,
   fun n => Proofs.C15.readByteN_congr h n (Nat.lt_succ_self _) (Nat.lt_succ_self _),
   fun fuel => Proofs.C15.readLine_congr fuel h,
   Proofs.C15.readInteger_congr h,
   Proofs.C15.readBulk_congr h,
   fun k acc => Proofs.C15.readBulks_congr k acc h,
   fun e fuel => Proofs.C15.readUtil_congr e fuel h,
   fun fuel acc => Proofs.C15.inlineArgs_congr fuel acc h,
   Proofs.C15.readInline_congr h⟩

/-! ## 2. The reader inverts the encoder: exactly that name (upper-cased), exactly those arguments -/

/-- what can be sent within the protocol limits -/
def Sendable (name : Bytes) (args : List Bytes) : Prop :=
  name.length ≤ 536870912 ∧ (∀ a ∈ args, a.length ≤ 536870912) ∧ 1 + args.length < 2 ^ 63

theorem Sendable.encodable {name : Bytes} {args : List Bytes} (h : Sendable name args) :
    Proofs.C15.Encodable name args := by
  obtain ⟨h1, h2, h3⟩ := h
  refine ⟨by simp [maxBulk]; omega, fun a ha => by have := h2 a ha; simp [maxBulk]; omega, ?_⟩
  simp [int64Max]; omega

/-- one encoded command followed by arbitrary bytes, delivered in one read -/
theorem parse_encode (name : Bytes) (args : List Bytes) (rest : Bytes) (h : Sendable name args) :
    ∃ st, readCommand [encodeCommand name args ++ rest] = .ok { name := upper name, args := args } st ∧
      srcFlat st.src = rest := by
  obtain ⟨h1, h2, h3⟩ := h.encodable
  obtain ⟨st, e, hs, _⟩ := Proofs.C15.readCommand_encode name args rest [encodeCommand name args ++ rest] h1 h2 h3 (by simp)
  exact ⟨st, e, hs⟩

/-- the same under every fragmentation of the stream (also follows from 1 + `parse_encode`) -/
theorem parse_encode_chunked (name : Bytes) (args : List Bytes) (rest : Bytes) (h : Sendable name args)
    (src : Source) (hsrc : srcFlat src = encodeCommand name args ++ rest) :
    ∃ st, readCommand src = .ok { name := upper name, args := args } st ∧ srcFlat st.src = rest ∧ st.win = [] := by
  obtain ⟨h1, h2, h3⟩ := h.encodable
  exact Proofs.C15.readCommand_encode name args rest src h1 h2 h3 hsrc

/-- outside the guard: the first bulk longer than 512 MiB makes `ReadCommand` return an error
    (the connection is answered with an error and closed) — no panic, no truncated command -/
theorem parse_too_large (name : Bytes) (args : List Bytes) (rest : Bytes)
    (pre : List Bytes) (b : Bytes) (post : List Bytes) (hsplit : name :: args = pre ++ b :: post)
    (hpre : ∀ x ∈ pre, x.length ≤ 536870912) (hb : b.length > 536870912) (hcount : 1 + args.length < 2 ^ 63)
    (src : Source) (hsrc : srcFlat src = encodeCommand name args ++ rest) :
    ∃ st, readCommand src = .err .expectedArray st := by
  refine Proofs.C15.readCommand_too_large name args rest src pre b post hsplit
    (fun x hx => by have := hpre x hx; simp [maxBulk]; omega) (by simp [maxBulk]; omega) ?_ hsrc
  simp [int64Max]; omega

/-! ## 3. Pipelining -/

/-- k commands back to back, in any fragmentation (commands may share reads or be split anywhere):
    the connection loop yields exactly those k commands, in order, then sees end of stream -/
theorem pipeline (cmds : List (Bytes × List Bytes)) (h : ∀ c ∈ cmds, Sendable c.1 c.2)
    (src : Source) (hsrc : srcFlat src = encodePipeline cmds) (fuel : Nat) (hfuel : cmds.length < fuel) :
    readAll src fuel [] = (cmds.map fun c => { name := upper c.1, args := c.2 }, some .eof, false) := by
  obtain ⟨f, rfl⟩ : ∃ f, fuel = cmds.length + (f + 1) := ⟨fuel - cmds.length - 1, by omega⟩
  rw [Proofs.C15.readAll_pipeline_prefix cmds [] src (f + 1) [] (fun c hc => (h c hc).encodable) (by simpa using hsrc),
    Proofs.C15.readAll_eof [[]] (by simp)]
  simp [Proofs.C15.expected]

/-- a pipeline followed by anything: after the k commands the loop continues on exactly the
    remaining bytes -/
theorem pipeline_prefix (cmds : List (Bytes × List Bytes)) (h : ∀ c ∈ cmds, Sendable c.1 c.2) (rest : Bytes)
    (src : Source) (hsrc : srcFlat src = encodePipeline cmds ++ rest) (f : Nat) (acc : List Cmd) :
    readAll src (cmds.length + f) acc =
      readAll [rest] f ((cmds.map fun c => ({ name := upper c.1, args := c.2 } : Cmd)).reverse ++ acc) :=
  Proofs.C15.readAll_pipeline_prefix cmds rest src f acc (fun c hc => (h c hc).encodable) hsrc

/-! ## 4. Option words are recognised only as whole arguments -/

/-- `+1` for value-taking options (MATCH, COUNT, EX, …) -/
def optPlus (word : String) : Int := Proofs.C15.optPlus word

/-- no argument is (case-insensitively) the word ⇒ the option is not set, whatever the arguments
    contain — in particular an argument that contains the word as a proper substring -/
theorem opt_absent (args : List Bytes) (word : String) (h : ∀ a ∈ args, upper a ≠ Bytes.ofString word) :
    opt args word = 0 := by
  rw [Proofs.C15.opt_eq_optScan]
  exact Proofs.C15.optScan_none _ _ args 0 0 h

/-- the last argument that is the word decides: its index (+1 for value options) -/
theorem opt_last (pre : List Bytes) (a : Bytes) (post : List Bytes) (word : String)
    (ha : upper a = Bytes.ofString word) (hpost : ∀ b ∈ post, upper b ≠ Bytes.ofString word) :
    opt (pre ++ a :: post) word = (pre.length : Int) + optPlus word := by
  rw [Proofs.C15.opt_eq_optScan]
  exact Proofs.C15.optScan_last _ _ pre a post 0 ha hpost

/-- the complete characterisation: `opt args word` = index of the last argument `a` with
    `upper a = word` (+1 for value options), 0 if there is none -/
theorem opt_spec (args : List Bytes) (word : String) :
    ((∀ a ∈ args, upper a ≠ Bytes.ofString word) ∧ opt args word = 0) ∨
    (∃ pre a post, args = pre ++ a :: post ∧ upper a = Bytes.ofString word ∧
      (∀ b ∈ post, upper b ≠ Bytes.ofString word) ∧ opt args word = (pre.length : Int) + optPlus word) := by
  rcases Proofs.C15.last_match_split (Bytes.ofString word) args with hno | ⟨pre, a, post, rfl, ha, hpost⟩
  · exact .inl ⟨hno, opt_absent args word hno⟩
  · exact .inr ⟨pre, a, post, rfl, ha, hpost, opt_last pre a post word ha hpost⟩

theorem options_whole_argument (args : List Bytes) (word : String) (h : opt args word ≠ 0) :
    ∃ a ∈ args, upper a = Bytes.ofString word := by
  apply Classical.byContradiction
  intro hn
  exact h (opt_absent args word (fun a ha heq => hn ⟨a, ha, heq⟩))

/-- on pure-ASCII input `strings.ToUpper` is the usual ASCII upper-casing: length preserved,
    'a'..'z' ↦ 'A'..'Z', everything else (CR, LF, NUL, '*', '$', quotes, …) unchanged -/
theorem upper_ascii (v : Bytes) (h : ∀ b ∈ v, b < 128) : upper v = asciiUpper v :=
  Proofs.C15.upper_ascii' v h

/-- a value with a byte ≥ 0x80 upper-cases to something containing 0x00 or 0xFD (the continuation
    bytes of a valid rune are zeroed, an invalid byte becomes U+FFFD mod 256) … -/
theorem upper_nonascii_marker (v : Bytes) (h : ∃ b ∈ v, 128 ≤ b) : ∃ x ∈ upper v, x = 0 ∨ x = 253 :=
  Proofs.C15.upper_bad v h

/-- … hence never to an option word (all of which consist of 'A'..'Z') -/
theorem upper_nonascii_never_a_word (v : Bytes) (h : ∃ b ∈ v, 128 ≤ b) :
    ∀ w ∈ optionTable, upper v ≠ Bytes.ofString w.1 :=
  fun w hw => Proofs.C15.upper_nonascii_ne_word v h w hw

/-! ## 5. One connection's parsing never affects another's -/

/-- Connections are numbered; `sched` is the order in which the scheduler lets connections perform
    one `handleConn` loop iteration each. Whatever the schedule and whatever the other connections
    receive, connection `i` ends up exactly where it would running alone for the number of turns it
    got, and what it reports is `readAll` of its own source. -/
theorem connections_independent (conns : Nat → Proofs.C15.Conn) (sched : List Nat) (i : Nat) :
    Proofs.C15.runSched conns sched i = Proofs.C15.Conn.steps (sched.count i) (conns i) :=
  Proofs.C15.runSched_eq sched conns i

theorem connections_independent_readAll (srcs : Nat → Source) (sched : List Nat) (i : Nat) :
    (Proofs.C15.runSched (fun j => { src := srcs j }) sched i).result = readAll (srcs i) (sched.count i) [] := by
  rw [connections_independent]
  exact Proofs.C15.steps_result _ _ _

/-- two schedules giving connection `i` the same number of turns, and two worlds that differ
    arbitrarily in every *other* connection's input, agree on connection `i` -/
theorem connections_independent_of_others (srcs srcs' : Nat → Source) (sched sched' : List Nat) (i : Nat)
    (hsrc : srcFlat (srcs i) = srcFlat (srcs' i)) (hcount : sched.count i = sched'.count i) :
    (Proofs.C15.runSched (fun j => { src := srcs j }) sched i).result =
    (Proofs.C15.runSched (fun j => { src := srcs' j }) sched' i).result := by
  rw [connections_independent_readAll, connections_independent_readAll, hcount]
  exact chunk_independent_all _ _ hsrc _ _

/-! ## Non-vacuity -/

/-- `SET <key with CR LF NUL '*' '$' quotes> <empty value>` is sendable … -/
example : Sendable (Bytes.ofString "set") [[13, 10, 0, 42, 36, 34, 39, 92, 200], []] := by
  refine ⟨?_, ?_, by decide⟩
  · rw [Proofs.C15.ofString_ascii _ (by decide)]; decide
  · intro a ha; simp at ha; rcases ha with rfl | rfl <;> decide

/-- … and is parsed back exactly, whatever follows -/
example (rest : Bytes) : ∃ st,
    readCommand [encodeCommand [115, 101, 116] [[13, 10, 0, 42, 36, 34, 39, 92, 200], []] ++ rest] =
      .ok { name := upper [115, 101, 116], args := [[13, 10, 0, 42, 36, 34, 39, 92, 200], []] } st ∧
    srcFlat st.src = rest :=
  parse_encode _ _ _ ⟨by decide, by intro a ha; simp at ha; rcases ha with rfl | rfl <;> decide, by decide⟩

/-- the hypotheses of `parse_too_large` are satisfiable: a value of 512 MiB + 1 byte exists … -/
example : ∃ b : Bytes, b.length > 536870912 :=
  ⟨List.replicate 536870913 0, by rw [List.length_replicate]; exact Nat.lt_succ_self _⟩

/-- … and `GET <that value>` then meets every hypothesis -/
example (b : Bytes) (hb : b.length > 536870912) : ∃ (name : Bytes) (args pre : List Bytes) (post : List Bytes),
    name :: args = pre ++ b :: post ∧ (∀ x ∈ pre, x.length ≤ 536870912) ∧ b.length > 536870912 ∧
    1 + args.length < 2 ^ 63 :=
  ⟨[71, 69, 84], [b], [[71, 69, 84]], [], rfl, by intro x hx; simp at hx; subst hx; decide, hb, by simp⟩

/-- `upper "set" = "SET"` -/
example : upper [115, 101, 116] = [83, 69, 84] := by decide

/-- a literal stream "*2 CRLF $1 CRLF a CRLF $2 CRLF CR LF CRLF" cut in the middle of everything -/
example : obs (readCommand [[42], [50, 13], [10, 36, 49, 13, 10, 97, 13], [10, 36, 50], [13, 10, 13], [10, 13, 10, 7]])
    = .ok { name := [65], args := [[13, 10]] } [7] := by decide

/-- an argument containing the word as a proper substring does not set the option -/
example : opt [Bytes.ofString "key", [88, 78, 88, 88]] "NX" = 0 := by
  apply opt_absent
  intro a ha
  have hNX : Bytes.ofString "NX" = [78, 88] := by rw [Proofs.C15.ofString_ascii _ (by decide)]; decide
  have hkey : Bytes.ofString "key" = [107, 101, 121] := by rw [Proofs.C15.ofString_ascii _ (by decide)]; decide
  rw [hNX]
  simp at ha
  rcases ha with rfl | rfl
  · rw [hkey]; decide
  · decide

/-- a scheduler interleaving: three connections, hypotheses of `connections_independent_of_others` -/
example : ([0, 1, 0, 2, 1, 0] : List Nat).count 1 = ([1, 2, 2, 1] : List Nat).count 1 := by decide

/- UNPROVED: nothing. All five parts are proved at full strength, with no `DecimalOK` hypothesis
   (`parseInt64 (formatInt n) = some n` is `Proofs.C15.parseInt64_formatInt_nat`, via core's
   `Nat.toDigits`/`Nat.ofDigitChars` lemmas) and no finding region: the model does not deviate from
   the property anywhere inside the protocol limits. Outside them (`parse_too_large`) it errors. -/

end NodisVerif.C15
